import CfbVerif.Phys.NoShareMini
import CfbVerif.Raw.Safe
/-!
# Chains as lists

`IsChain fat a l`: following the table from `a` visits exactly the sectors `l` (first `a`) and ends
at a cell that says END.  With `NSH` (no sharing) a chain that starts at a head has no repetition,
is exactly what the library's walk (`chainFrom`) returns with the fuel the model gives it, and is
disjoint from every other head's chain.  The table updates act on chains as expected: claiming
starts a one-sector chain, linking appends, cutting splits, freeing the head drops it; chains that
do not contain the touched cell are not affected.
-/
namespace CfbVerif.Phys
open CfbVerif.Raw

inductive IsChain (fat : Array Nat) : Nat → List Nat → Prop
  | last {a : Nat} : fat[a]? = some END → IsChain fat a [a]
  | cons {a b : Nat} {l : List Nat} : fat[a]? = some b → b ≤ MAXREG → IsChain fat b l → IsChain fat a (a :: l)

theorem IsChain.head {fat : Array Nat} {a : Nat} {l : List Nat} (h : IsChain fat a l) : ∃ t, l = a :: t := by
  cases h with
  | last _ => exact ⟨[], rfl⟩
  | cons _ _ _ => exact ⟨_, rfl⟩

theorem Reach.headStep {fat : Array Nat} {a b x : Nat} (hab : fat[a]? = some b) (hb : b ≤ MAXREG)
    (r : Reach fat b x) : Reach fat a x := by
  induction r with
  | refl => exact Reach.step Reach.refl hab hb
  | step _ hc hreg ih => exact Reach.step ih hc hreg

theorem IsChain.reach {fat : Array Nat} {a : Nat} {l : List Nat} (h : IsChain fat a l) : ∀ x ∈ l, Reach fat a x := by
  induction h with
  | last _ => intro x hx; simp at hx; subst hx; exact Reach.refl
  | cons hab hb _ ih =>
    intro x hx
    rcases List.mem_cons.mp hx with rfl | hx
    · exact Reach.refl
    · exact Reach.headStep hab hb (ih x hx)

/-- every member is in use (its cell is END or a regular pointer) -/
theorem IsChain.used {fat : Array Nat} {a : Nat} {l : List Nat} (h : IsChain fat a l) :
    ∀ x ∈ l, ∃ w, fat[x]? = some w ∧ w ≠ FREE := by
  induction h with
  | last he => intro x hx; simp at hx; subst hx; exact ⟨END, he, END_ne_FREE⟩
  | cons hab hb _ ih =>
    intro x hx
    rcases List.mem_cons.mp hx with rfl | hx
    · exact ⟨_, hab, by have := MAXREG_lt_FREE; omega⟩
    · exact ih x hx

/-- a table that agrees on the members has the same chain -/
theorem IsChain.frame {fat fat' : Array Nat} {a : Nat} {l : List Nat} (h : IsChain fat a l)
    (hsame : ∀ x ∈ l, fat'[x]? = fat[x]?) : IsChain fat' a l := by
  induction h with
  | last he => exact IsChain.last (by rw [hsame _ (by simp)]; exact he)
  | cons hab hb _ ih =>
    refine IsChain.cons (by rw [hsame _ (by simp)]; exact hab) hb (ih ?_)
    intro x hx; exact hsame x (List.mem_cons_of_mem _ hx)

/-- the chain from a given sector is unique -/
theorem IsChain.unique {fat : Array Nat} {a : Nat} {l1 l2 : List Nat} (h1 : IsChain fat a l1) (h2 : IsChain fat a l2) :
    l1 = l2 := by
  induction h1 generalizing l2 with
  | last he =>
    cases h2 with
    | last _ => rfl
    | cons hab hb _ => rw [he] at hab; cases hab; exact absurd hb (Nat.not_le.mpr MAXREG_lt_END)
  | cons hab hb _ ih =>
    cases h2 with
    | last he => rw [he] at hab; cases hab; exact absurd hb (Nat.not_le.mpr MAXREG_lt_END)
    | cons hab' _ h2' =>
      rw [hab] at hab'; cases hab'
      rw [ih h2']

/-- every member but the first is pointed at by a member -/
theorem IsChain.pointed {fat : Array Nat} {a : Nat} {t : List Nat} (h : IsChain fat a (a :: t)) :
    ∀ x ∈ t, ∃ c ∈ a :: t, fat[c]? = some x := by
  generalize hl : a :: t = l at h
  induction h generalizing t with
  | last _ => cases hl; intro x hx; cases hx
  | cons hab hb hc ih =>
    cases hl
    intro x hx
    obtain ⟨t', rfl⟩ := hc.head
    rcases List.mem_cons.mp hx with rfl | hx
    · exact ⟨_, List.mem_cons_self .., hab⟩
    · obtain ⟨c, hc', hcx⟩ := ih rfl x hx
      exact ⟨c, List.mem_cons_of_mem _ hc', hcx⟩

/-- no repetition: the first sector is a head (or is pointed at by the last sector of `pre`, which
the chain does not meet) -/
theorem IsChain.nodup_aux {fat : Array Nat} {hs : List Nat} (n : NSH fat hs) {a : Nat} {l : List Nat}
    (c : IsChain fat a l) : ∀ pre : List Nat, (∀ x ∈ pre, x ∉ l) →
    (pre = [] → a ∈ hs) → (∀ p, pre.getLast? = some p → fat[p]? = some a) → l.Nodup := by
  induction c with
  | last _ => intro _ _ _ _; simp
  | cons hab hb hc ih =>
    rename_i a b t
    intro pre hdisj hhead hlast
    have hnot : a ∉ t := by
      intro hm
      obtain ⟨c, hcm, hca⟩ := (IsChain.cons hab hb hc).pointed a hm
      rcases List.eq_nil_or_concat pre with hnil | ⟨pre', p, hp⟩
      · exact n.unp a (hhead hnil) c hca
      · have hpl : fat[p]? = some a := hlast p (by rw [hp]; simp)
        have hareg : a ≤ MAXREG := by have := lt_of_get hab; have := n.bound; omega
        have : p = c := n.inj p c a hpl hca hareg
        subst this
        exact hdisj p (by rw [hp]; simp) hcm
    refine List.nodup_cons.mpr ⟨hnot, ?_⟩
    refine ih (pre ++ [a]) ?_ (by intro h; simp at h) ?_
    · intro x hx
      rcases List.mem_append.mp hx with hx | hx
      · intro hm; exact hdisj x hx (List.mem_cons_of_mem _ hm)
      · simp at hx; subst hx; exact hnot
    · intro p hp
      simp at hp; subst hp; exact hab

theorem IsChain.nodup {fat : Array Nat} {hs : List Nat} (n : NSH fat hs) {h : Nat} (m : h ∈ hs) {l : List Nat}
    (c : IsChain fat h l) : l.Nodup :=
  c.nodup_aux n [] (by intro x hx; cases hx) (fun _ => m) (by intro p hp; simp at hp)

/-- chains of different heads do not meet -/
theorem IsChain.disjoint {fat : Array Nat} {hs : List Nat} (n : NSH fat hs) {h1 h2 : Nat} (m1 : h1 ∈ hs) (m2 : h2 ∈ hs)
    {l1 l2 : List Nat} (c1 : IsChain fat h1 l1) (c2 : IsChain fat h2 l2) {x : Nat} (x1 : x ∈ l1) (x2 : x ∈ l2) : h1 = h2 :=
  n.disjoint m1 m2 (c1.reach x x1) (c2.reach x x2)

/-- the rest of a chain from any of its members -/
theorem IsChain.suffix {fat : Array Nat} {a : Nat} {l : List Nat} (c : IsChain fat a l) {x : Nat} (hx : x ∈ l) :
    ∃ pre post, l = pre ++ post ∧ IsChain fat x post := by
  induction c with
  | last he => simp at hx; subst hx; exact ⟨[], [_], rfl, IsChain.last he⟩
  | cons hab hb hc ih =>
    rcases List.mem_cons.mp hx with rfl | hx
    · exact ⟨[], _, rfl, IsChain.cons hab hb hc⟩
    · obtain ⟨pre, post, e, cp⟩ := ih hx
      exact ⟨_ :: pre, post, by rw [e]; rfl, cp⟩

/-- the only END cell of a chain is its last sector -/
theorem IsChain.end_is_last {fat : Array Nat} {a : Nat} {l : List Nat} (c : IsChain fat a l) {x : Nat} (hx : x ∈ l)
    (he : fat[x]? = some END) : l.getLast? = some x := by
  induction c with
  | last _ => simp at hx; subst hx; rfl
  | cons hab hb hc ih =>
    obtain ⟨t, rfl⟩ := hc.head
    rcases List.mem_cons.mp hx with rfl | hx
    · rw [he] at hab; cases hab; exact absurd hb (Nat.not_le.mpr MAXREG_lt_END)
    · rw [List.getLast?_cons_cons]; exact ih hx

theorem IsChain.last_is_end {fat : Array Nat} {a : Nat} {l : List Nat} (c : IsChain fat a l) :
    ∃ z, l.getLast? = some z ∧ fat[z]? = some END := by
  induction c with
  | last he => exact ⟨_, rfl, he⟩
  | cons hab hb hc ih =>
    obtain ⟨t, rfl⟩ := hc.head
    obtain ⟨z, hz, hze⟩ := ih
    exact ⟨z, by rw [List.getLast?_cons_cons]; exact hz, hze⟩

/-! ## the table updates on chains -/

/-- appending: the END cell of a chain is redirected to the head of another chain -/
theorem IsChain.append {fat : Array Nat} {a id : Nat} {l lid : List Nat} (c : IsChain fat a l) (cid : IsChain fat id lid)
    {z : Nat} (hz : l.getLast? = some z) (hidreg : id ≤ MAXREG)
    (hdis : ∀ x ∈ lid, x ∉ l) (hnd : l.Nodup) :
    IsChain (fat.setIfInBounds z id) a (l ++ lid) := by
  have get : ∀ i : Nat, i ≠ z → (fat.setIfInBounds z id)[i]? = fat[i]? := by
    intro i hi; simp only [Array.getElem?_setIfInBounds]; rw [if_neg (fun e => hi e.symm)]
  have cid' : IsChain (fat.setIfInBounds z id) id lid :=
    cid.frame (fun x hx => get x (fun e => hdis x hx (by rw [e]; exact List.mem_of_getLast? hz)))
  induction c with
  | last he =>
    simp at hz; subst hz
    refine IsChain.cons ?_ hidreg cid'
    simp [lt_of_get he]
  | cons hab hb hc ih =>
    rename_i a b t
    obtain ⟨t', rfl⟩ := hc.head
    have hz' : (b :: t').getLast? = some z := by rw [List.getLast?_cons_cons] at hz; exact hz
    have hnd' := List.nodup_cons.mp hnd
    have hne : a ≠ z := fun e => hnd'.1 (e ▸ List.mem_of_getLast? hz')
    refine IsChain.cons (by rw [get a hne]; exact hab) hb ?_
    exact ih hz' (fun x hx hm => hdis x hx (List.mem_cons_of_mem _ hm)) hnd'.2

/-- cutting behind `x`: the part up to `x`, and the part behind it -/
theorem IsChain.cut {fat : Array Nat} {a x next : Nat} {l : List Nat} (c : IsChain fat a l) (hnd : l.Nodup)
    (hx : x ∈ l) (hxn : fat[x]? = some next) (hreg : next ≤ MAXREG) :
    ∃ pre post, l = pre ++ [x] ++ post ∧ IsChain (fat.setIfInBounds x END) a (pre ++ [x]) ∧
      IsChain (fat.setIfInBounds x END) next post := by
  have get : ∀ i : Nat, i ≠ x → (fat.setIfInBounds x END)[i]? = fat[i]? := by
    intro i hi; simp only [Array.getElem?_setIfInBounds]; rw [if_neg (fun e => hi e.symm)]
  induction c with
  | last he => simp at hx; subst hx; rw [he] at hxn; cases hxn; exact absurd hreg (Nat.not_le.mpr MAXREG_lt_END)
  | cons hab hb hc ih =>
    rename_i a b t
    have hnd' := List.nodup_cons.mp hnd
    rcases List.mem_cons.mp hx with rfl | hx
    · rw [hab] at hxn; cases hxn
      refine ⟨[], t, rfl, IsChain.last (by simp [lt_of_get hab]), ?_⟩
      exact hc.frame (fun y hy => get y (fun e => hnd'.1 (e ▸ hy)))
    · obtain ⟨pre, post, e, c1, c2⟩ := ih hnd'.2 hx
      have hne : a ≠ x := fun e' => hnd'.1 (e' ▸ hx)
      exact ⟨a :: pre, post, by rw [e]; rfl, IsChain.cons (by rw [get a hne]; exact hab) hb c1, c2⟩

/-- freeing the first sector: the rest is the chain of its successor -/
theorem IsChain.dropHead {fat : Array Nat} {a b : Nat} {t : List Nat} (c : IsChain fat a (a :: t)) (hnd : (a :: t).Nodup)
    (hab : fat[a]? = some b) (hb : b ≤ MAXREG) : IsChain (fat.setIfInBounds a FREE) b t := by
  cases c with
  | last he => rw [he] at hab; cases hab; exact absurd hb (Nat.not_le.mpr MAXREG_lt_END)
  | cons hab' _ hc =>
    rw [hab] at hab'; cases hab'
    have hnd' := List.nodup_cons.mp hnd
    refine hc.frame ?_
    intro y hy
    simp only [Array.getElem?_setIfInBounds]
    rw [if_neg]
    intro e
    exact hnd'.1 (by rw [e]; exact hy)

/-! ## the library's walk returns the chain -/

theorem chainLoop_of_isChain (fat : Array Nat) (first : Nat) : ∀ (fuel : Nat) {cur : Nat} {rest : List Nat} (acc : List Nat),
    IsChain fat cur rest → (∀ x ∈ rest.tail, x ≠ first) → first ≠ END → rest.length < fuel → fat.size ≤ MAXREG + 1 →
    chainLoop fat first fuel cur acc = .ok (acc.reverse ++ rest) := by
  intro fuel
  induction fuel with
  | zero => intro cur rest acc _ _ _ hf; omega
  | succ fuel ih =>
    intro cur rest acc c hfirst hfe hf hb
    have hcur : cur ≠ END := by
      obtain ⟨t, e⟩ := c.head
      obtain ⟨w, hw, _⟩ := c.used cur (by rw [e]; simp)
      have := lt_of_get hw
      have := MAXREG_lt_END
      omega
    unfold chainLoop
    rw [if_neg hcur]
    cases c with
    | last he =>
      have hlt := lt_of_get he
      have hn : nextSector fat cur = .ok END := by
        unfold nextSector
        rw [dif_pos hlt]
        have : fat[cur] = END := by simpa [hlt] using he
        simp [this]
      rw [hn]
      simp only
      rw [if_neg (fun e => hfe e.symm)]
      cases fuel with
      | zero => simp at hf
      | succ f => simp [chainLoop]
    | cons hab hb' hc =>
      rename_i b t
      have hlt := lt_of_get hab
      obtain ⟨w, hw, _⟩ := hc.used b (by obtain ⟨t', e⟩ := hc.head; rw [e]; simp)
      have hblt := lt_of_get hw
      have hn : nextSector fat cur = .ok b := by
        unfold nextSector
        rw [dif_pos hlt]
        have : fat[cur] = b := by simpa [hlt] using hab
        simp only [this]
        rw [if_neg]
        intro hc'
        rcases hc'.2 with h1 | h1 <;> omega
      rw [hn]
      simp only
      have hbf : b ≠ first := by
        obtain ⟨t', e⟩ := hc.head
        exact hfirst b (by rw [e]; simp)
      rw [if_neg hbf]
      have := ih (cur :: acc) hc (by
        intro x hx
        obtain ⟨t', e⟩ := hc.head
        subst e
        exact hfirst x (by simp at hx ⊢; exact Or.inr hx)) hfe (by simp at hf; omega) hb
      rw [this]
      simp

end CfbVerif.Phys

namespace CfbVerif.Phys
open CfbVerif.Raw

/-- **the walk of a head's chain succeeds and returns it** -/
theorem chainFrom_of_isChain {fat : Array Nat} {hs : List Nat} (n : NSH fat hs) {h : Nat} (m : h ∈ hs) {l : List Nat}
    (c : IsChain fat h l) : chainFrom fat h = .ok l := by
  have hnd := c.nodup n m
  have hlen : l.length ≤ fat.size :=
    Raw.length_le_of_nodup_lt fat.size l hnd (fun x hx => by obtain ⟨w, hw, _⟩ := c.used x hx; exact lt_of_get hw)
  have hne : h ≠ END := by have := n.head_reg m; have := MAXREG_lt_END; omega
  unfold chainFrom
  have := chainLoop_of_isChain fat h (fat.size + 1) [] c ?_ hne (by omega) n.bound
  · simpa using this
  · obtain ⟨t, e⟩ := c.head
    subst e
    intro x hx
    have hnd' := List.nodup_cons.mp hnd
    intro e; subst e; exact hnd'.1 hx

/-- conversely, what the walk returns is a chain -/
theorem isChain_of_chainLoop (fat : Array Nat) (first : Nat) : ∀ (fuel : Nat) {cur : Nat} {acc ids : List Nat},
    chainLoop fat first fuel cur acc = .ok ids → cur ≠ END → ∃ rest, ids = acc.reverse ++ rest ∧ IsChain fat cur rest := by
  intro fuel
  induction fuel with
  | zero => intro cur acc ids h; simp [chainLoop] at h
  | succ fuel ih =>
    intro cur acc ids h hne
    unfold chainLoop at h
    rw [if_neg hne] at h
    split at h
    · rename_i next hn
      have ns := nextSector_ok hn
      split at h
      · cases h
      · rcases nextSector_class hn with he | ⟨hne', hreg⟩
        · subst he
          cases fuel with
          | zero => simp [chainLoop] at h
          | succ f =>
            simp only [chainLoop, ↓reduceIte] at h
            cases h
            exact ⟨[cur], by simp, IsChain.last ns.2.1⟩
        · obtain ⟨rest, e, c⟩ := ih h hne'
          exact ⟨cur :: rest, by rw [e]; simp, IsChain.cons ns.2.1 hreg c⟩
    · cases h

theorem isChain_of_chainFrom {fat : Array Nat} {start : Nat} {ids : List Nat} (h : chainFrom fat start = .ok ids)
    (hne : start ≠ END) : IsChain fat start ids := by
  unfold chainFrom at h
  obtain ⟨rest, e, c⟩ := isChain_of_chainLoop fat start _ h hne
  simp at e; subst e; exact c

/-! ## every head has a chain -/

/-- `CH fat hs`: from every head the table leads, without repetition, to an END cell -/
def CH (fat : Array Nat) (hs : List Nat) : Prop := ∀ h ∈ hs, ∃ l, IsChain fat h l

theorem CH.sub {fat : Array Nat} {hs hs' : List Nat} (c : CH fat hs) (hsub : ∀ x ∈ hs', x ∈ hs) : CH fat hs' :=
  fun h hh => c h (hsub h hh)

/-- claiming a sector (same premises as `NSH.claim`): one more head, with a one-sector chain -/
theorem CH.claim {fat fat' : Array Nat} {hs : List Nat} {id : Nat} (c : CH fat hs)
    (hframe : ∀ j, j < fat.size → j ≠ id → fat'[j]? = fat[j]?)
    (hid : fat'[id]? = some END)
    (hwas : fat[id]? = some FREE ∨ fat.size ≤ id) : CH fat' (id :: hs) := by
  intro h hh
  rcases List.mem_cons.mp hh with rfl | hh
  · exact ⟨[h], IsChain.last hid⟩
  · obtain ⟨l, cl⟩ := c h hh
    refine ⟨l, cl.frame ?_⟩
    intro x hx
    obtain ⟨w, hw, hwf⟩ := cl.used x hx
    refine hframe x (lt_of_get hw) ?_
    intro e; subst e
    rcases hwas with hf | hge
    · rw [hw] at hf; exact hwf (Option.some.inj hf)
    · have := lt_of_get hw; omega

/-- linking the head `id` behind an END cell: chains that end there are extended by `id`'s chain,
all others are untouched -/
theorem CH.link {fat : Array Nat} {hs : List Nat} {id last : Nat} (n : NSH fat (id :: hs)) (c : CH fat (id :: hs))
    (hlast : fat[last]? = some END) (hne : last ≠ id) : CH (fat.setIfInBounds last id) hs := by
  intro h hh
  obtain ⟨l, cl⟩ := c h (List.mem_cons_of_mem _ hh)
  obtain ⟨lid, clid⟩ := c id (List.mem_cons_self ..)
  have hidreg : id ≤ MAXREG := n.head_reg (List.mem_cons_self ..)
  have hnd := List.nodup_cons.mp n.nodup
  by_cases hm : last ∈ l
  · have hz := cl.end_is_last hm hlast
    refine ⟨l ++ lid, cl.append clid hz hidreg ?_ (cl.nodup n (List.mem_cons_of_mem _ hh))⟩
    intro x hx hxl
    have : id = h := IsChain.disjoint n (List.mem_cons_self ..) (List.mem_cons_of_mem _ hh) clid cl hx hxl
    exact hnd.1 (this ▸ hh)
  · refine ⟨l, cl.frame ?_⟩
    intro x hx
    simp only [Array.getElem?_setIfInBounds]
    rw [if_neg]
    intro e
    exact hm (by rw [e]; exact hx)

/-- cutting behind a member `x` of some head's chain: its successor becomes a head with the rest -/
theorem CH.cut {fat : Array Nat} {hs : List Nat} {x next : Nat} (n : NSH fat hs) (c : CH fat hs)
    (hx : ∃ h ∈ hs, ∃ l, IsChain fat h l ∧ x ∈ l)
    (hxn : fat[x]? = some next) (hreg : next ≤ MAXREG) : CH (fat.setIfInBounds x END) (next :: hs) := by
  obtain ⟨h0, hh0, l0, cl0, hx0⟩ := hx
  obtain ⟨pre, post, e0, c1, c2⟩ := cl0.cut (cl0.nodup n hh0) hx0 hxn hreg
  intro h hh
  rcases List.mem_cons.mp hh with rfl | hh
  · exact ⟨post, c2⟩
  · by_cases he : h = h0
    · subst he; exact ⟨pre ++ [x], c1⟩
    · obtain ⟨l, cl⟩ := c h hh
      refine ⟨l, cl.frame ?_⟩
      intro y hy
      simp only [Array.getElem?_setIfInBounds]
      rw [if_neg]
      intro e; subst e
      exact he (IsChain.disjoint n hh hh0 cl cl0 hy hx0)

/-- freeing a head: its successor (if any) is the head of the rest; other chains are untouched -/
theorem CH.freeHead {fat : Array Nat} {hs : List Nat} {cur next : Nat} (n : NSH fat (cur :: hs)) (c : CH fat (cur :: hs))
    (hcur : fat[cur]? = some next) :
    CH (fat.setIfInBounds cur FREE) ((if next ≤ MAXREG then [next] else []) ++ hs) := by
  obtain ⟨l0, cl0⟩ := c cur (List.mem_cons_self ..)
  have hnd := List.nodup_cons.mp n.nodup
  intro h hh
  rcases List.mem_append.mp hh with hh | hh
  · split at hh
    · rename_i hreg
      simp at hh; subst hh
      obtain ⟨t, e⟩ := cl0.head
      subst e
      exact ⟨t, cl0.dropHead (cl0.nodup n (List.mem_cons_self ..)) hcur hreg⟩
    · cases hh
  · obtain ⟨l, cl⟩ := c h (List.mem_cons_of_mem _ hh)
    refine ⟨l, cl.frame ?_⟩
    intro y hy
    simp only [Array.getElem?_setIfInBounds]
    rw [if_neg]
    intro e; subst e
    have : h = cur := IsChain.disjoint n (List.mem_cons_of_mem _ hh) (List.mem_cons_self ..) cl cl0 hy
      (by obtain ⟨t, e⟩ := cl0.head; rw [e]; simp)
    exact hnd.1 (this ▸ hh)

end CfbVerif.Phys

/-! ## no leaks: every sector in use lies on some head's chain -/
namespace CfbVerif.Phys
open CfbVerif.Raw

/-- `Cover fat hs`: a cell that says END or holds a regular pointer belongs to the chain of a head
(table markers — FATSECT, DIFSECT — and FREE cells are not chain members) -/
def Cover (fat : Array Nat) (hs : List Nat) : Prop :=
  ∀ x w : Nat, fat[x]? = some w → (w = END ∨ w ≤ MAXREG) → ∃ h ∈ hs, ∃ l, IsChain fat h l ∧ x ∈ l

theorem Cover.sub {fat : Array Nat} {hs hs' : List Nat} (c : Cover fat hs) (hsub : ∀ x ∈ hs, x ∈ hs') : Cover fat hs' := by
  intro x w hx hw
  obtain ⟨h, hh, l, cl, hxl⟩ := c x w hx hw
  exact ⟨h, hsub h hh, l, cl, hxl⟩

theorem Cover.claim {fat fat' : Array Nat} {hs : List Nat} {id : Nat} (c : Cover fat hs)
    (hframe : ∀ j, j < fat.size → j ≠ id → fat'[j]? = fat[j]?)
    (hid : fat'[id]? = some END)
    (hwas : fat[id]? = some FREE ∨ fat.size ≤ id)
    (hnew : ∀ j v, fat.size ≤ j → j ≠ id → fat'[j]? = some v → MAXREG < v ∧ v ≠ END) : Cover fat' (id :: hs) := by
  intro x w hx hw
  by_cases hxi : x = id
  · subst hxi
    exact ⟨x, List.mem_cons_self .., [x], IsChain.last hid, by simp⟩
  · rcases Nat.lt_or_ge x fat.size with hlt | hge
    · have hx' : fat[x]? = some w := by rw [← hframe x hlt hxi]; exact hx
      obtain ⟨h, hh, l, cl, hxl⟩ := c x w hx' hw
      refine ⟨h, List.mem_cons_of_mem _ hh, l, cl.frame ?_, hxl⟩
      intro y hy
      obtain ⟨v, hv, hvf⟩ := cl.used y hy
      refine hframe y (lt_of_get hv) ?_
      intro e; subst e
      rcases hwas with hf | hge'
      · rw [hv] at hf; exact hvf (Option.some.inj hf)
      · have := lt_of_get hv; omega
    · have := hnew x w hge hxi hx
      rcases hw with he | hr
      · exact absurd he this.2
      · omega

/-- linking the one-sector chain of `id` behind the END cell `last` -/
theorem Cover.link {fat : Array Nat} {hs : List Nat} {id last : Nat} (n : NSH fat (id :: hs)) (ch : CH fat (id :: hs))
    (c : Cover fat (id :: hs)) (hlast : fat[last]? = some END) (hne : last ≠ id) (hidc : fat[id]? = some END) :
    Cover (fat.setIfInBounds last id) hs := by
  have hidreg : id ≤ MAXREG := n.head_reg (List.mem_cons_self ..)
  have hnd := List.nodup_cons.mp n.nodup
  have cid : IsChain fat id [id] := IsChain.last hidc
  have get : ∀ i : Nat, i ≠ last → (fat.setIfInBounds last id)[i]? = fat[i]? := by
    intro i hi; simp only [Array.getElem?_setIfInBounds]; rw [if_neg (fun e => hi e.symm)]
  -- the chain that ends at `last`
  obtain ⟨h0, hh0, l0, cl0, hl0⟩ := c last END hlast (Or.inl rfl)
  have hh0' : h0 ∈ hs := by
    rcases List.mem_cons.mp hh0 with rfl | hh
    · have := cl0.unique cid; subst this; simp at hl0; exact absurd hl0 hne
    · exact hh
  have hz := cl0.end_is_last hl0 hlast
  have hidl0 : ∀ x ∈ [id], x ∉ l0 := by
    intro x hx hxl
    simp at hx; subst hx
    have : x = h0 := IsChain.disjoint n (List.mem_cons_self ..) hh0 cid cl0 (by simp) hxl
    exact hnd.1 (this ▸ hh0')
  have cnew : IsChain (fat.setIfInBounds last id) h0 (l0 ++ [id]) :=
    cl0.append cid hz hidreg hidl0 (cl0.nodup n hh0)
  intro x w hx hw
  by_cases hxl : x = last
  · subst hxl
    exact ⟨h0, hh0', _, cnew, List.mem_append_left _ hl0⟩
  · rw [get x hxl] at hx
    obtain ⟨h, hh, l, cl, hxm⟩ := c x w hx hw
    rcases List.mem_cons.mp hh with rfl | hh'
    · have := cl.unique cid; subst this
      simp at hxm; subst hxm
      exact ⟨h0, hh0', _, cnew, by simp⟩
    · by_cases hm : last ∈ l
      · have : h = h0 := IsChain.disjoint n hh hh0 cl cl0 hm hl0
        subst this
        have := cl.unique cl0; subst this
        exact ⟨h, hh', _, cnew, List.mem_append_left _ hxm⟩
      · refine ⟨h, hh', l, cl.frame ?_, hxm⟩
        intro y hy
        exact get y (fun e => hm (by rw [← e]; exact hy))

/-- cutting behind `x` (a regular pointer cell, hence covered) -/
theorem Cover.cut {fat : Array Nat} {hs : List Nat} {x next : Nat} (n : NSH fat hs) (c : Cover fat hs)
    (hxn : fat[x]? = some next) (hreg : next ≤ MAXREG) :
    Cover (fat.setIfInBounds x END) (next :: hs) ∧ CH (fat.setIfInBounds x END) [next] ∧
    ∃ h0 ∈ hs, ∃ l0, IsChain fat h0 l0 ∧ x ∈ l0 := by
  obtain ⟨h0, hh0, l0, cl0, hx0⟩ := c x next hxn (Or.inr hreg)
  obtain ⟨pre, post, e0, c1, c2⟩ := cl0.cut (cl0.nodup n hh0) hx0 hxn hreg
  have get : ∀ i : Nat, i ≠ x → (fat.setIfInBounds x END)[i]? = fat[i]? := by
    intro i hi; simp only [Array.getElem?_setIfInBounds]; rw [if_neg (fun e => hi e.symm)]
  refine ⟨?_, (by intro h hh; simp at hh; subst hh; exact ⟨post, c2⟩), h0, hh0, l0, cl0, hx0⟩
  intro y w hy hw
  by_cases hyx : y = x
  · subst hyx
    exact ⟨h0, List.mem_cons_of_mem _ hh0, _, c1, by simp⟩
  · rw [get y hyx] at hy
    obtain ⟨h, hh, l, cl, hym⟩ := c y w hy hw
    by_cases he : h = h0
    · subst he
      have := cl.unique cl0; subst this
      rw [e0] at hym
      rcases List.mem_append.mp hym with hp | hp
      · exact ⟨h, List.mem_cons_of_mem _ hh, _, c1, hp⟩
      · exact ⟨next, List.mem_cons_self .., post, c2, hp⟩
    · refine ⟨h, List.mem_cons_of_mem _ hh, l, cl.frame ?_, hym⟩
      intro z hz
      refine get z ?_
      intro e; subst e
      exact he (IsChain.disjoint n hh hh0 cl cl0 hz hx0)

/-- freeing the head `cur` -/
theorem Cover.freeHead {fat : Array Nat} {hs : List Nat} {cur next : Nat} (n : NSH fat (cur :: hs)) (ch : CH fat (cur :: hs))
    (c : Cover fat (cur :: hs)) (hcur : fat[cur]? = some next) :
    Cover (fat.setIfInBounds cur FREE) ((if next ≤ MAXREG then [next] else []) ++ hs) := by
  obtain ⟨l0, cl0⟩ := ch cur (List.mem_cons_self ..)
  obtain ⟨t, e⟩ := cl0.head
  subst e
  have hnd0 := cl0.nodup n (List.mem_cons_self ..)
  have hlt := lt_of_get hcur
  have get : ∀ i : Nat, i ≠ cur → (fat.setIfInBounds cur FREE)[i]? = fat[i]? := by
    intro i hi; simp only [Array.getElem?_setIfInBounds]; rw [if_neg (fun e => hi e.symm)]
  intro y w hy hw
  by_cases hyc : y = cur
  · subst hyc
    simp [hlt] at hy
    subst hy
    rcases hw with he | hr
    · exact absurd he (by decide)
    · exact absurd hr (Nat.not_le.mpr MAXREG_lt_FREE)
  · rw [get y hyc] at hy
    obtain ⟨h, hh, l, cl, hym⟩ := c y w hy hw
    rcases List.mem_cons.mp hh with rfl | hh'
    · have := cl.unique cl0; subst this
      have hyt : y ∈ t := by
        rcases List.mem_cons.mp hym with e | e
        · exact absurd e hyc
        · exact e
      -- the chain has a second sector, so `next` is a regular pointer and heads the rest
      cases cl0 with
      | last he => cases hyt
      | cons hab hb hc =>
        rw [hcur] at hab; cases hab
        refine ⟨next, ?_, t, (IsChain.cons hcur hb hc).dropHead hnd0 hcur hb, hyt⟩
        simp [hb]
    · refine ⟨h, List.mem_append_right _ hh', l, cl.frame ?_, hym⟩
      intro z hz
      refine get z ?_
      intro e; subst e
      have : h = z := IsChain.disjoint n hh (List.mem_cons_self ..) cl cl0 hz (by simp)
      exact (List.nodup_cons.mp n.nodup).1 (this ▸ hh')

/-! ## the three together -/

structure NC (fat : Array Nat) (hs : List Nat) : Prop where
  ns : NSH fat hs
  ch : CH fat hs
  cov : Cover fat hs

theorem NC.perm {fat : Array Nat} {hs hs' : List Nat} (n : NC fat hs) (hp : hs.Perm hs') : NC fat hs' :=
  ⟨n.ns.perm hp, n.ch.sub (fun x hx => hp.mem_iff.mpr hx), n.cov.sub (fun x hx => hp.mem_iff.mp hx)⟩

theorem NC.claim {fat fat' : Array Nat} {hs : List Nat} {id : Nat} (n : NC fat hs)
    (hb : fat'.size ≤ MAXREG + 1)
    (hframe : ∀ j, j < fat.size → j ≠ id → fat'[j]? = fat[j]?)
    (hid : fat'[id]? = some END)
    (hwas : fat[id]? = some FREE ∨ fat.size ≤ id)
    (hnew : ∀ j v, fat.size ≤ j → j ≠ id → fat'[j]? = some v → MAXREG < v ∧ v ≠ END) :
    NC fat' (id :: hs) :=
  ⟨n.ns.claim hb hframe hid hwas (fun j v hj hne hv => (hnew j v hj hne hv).1),
   n.ch.claim hframe hid hwas, n.cov.claim hframe hid hwas hnew⟩

theorem NC.link {fat : Array Nat} {hs : List Nat} {id last : Nat} (n : NC fat (id :: hs))
    (hlast : fat[last]? = some END) (hne : last ≠ id) (hidc : fat[id]? = some END) :
    NC (fat.setIfInBounds last id) hs :=
  ⟨n.ns.link hlast hne, CH.link n.ns n.ch hlast hne, Cover.link n.ns n.ch n.cov hlast hne hidc⟩

theorem NC.cut {fat : Array Nat} {hs : List Nat} {x next : Nat} (n : NC fat hs)
    (hxn : fat[x]? = some next) (hreg : next ≤ MAXREG) : NC (fat.setIfInBounds x END) (next :: hs) := by
  obtain ⟨cov', _, hx⟩ := Cover.cut n.ns n.cov hxn hreg
  exact ⟨n.ns.cut hxn hreg, CH.cut n.ns n.ch hx hxn hreg, cov'⟩

theorem NC.freeHead {fat : Array Nat} {hs : List Nat} {cur next : Nat} (n : NC fat (cur :: hs))
    (hcur : fat[cur]? = some next) (hnf : next ≠ FREE) :
    NC (fat.setIfInBounds cur FREE) ((if next ≤ MAXREG then [next] else []) ++ hs) :=
  ⟨n.ns.freeHead hcur hnf, CH.freeHead n.ns n.ch hcur, Cover.freeHead n.ns n.ch n.cov hcur⟩

end CfbVerif.Phys

/-! ## dropping a trailing FREE cell (the in-memory MiniFAT is trimmed) -/
namespace CfbVerif.Phys
open CfbVerif.Raw

theorem NC.pop {fat : Array Nat} {hs : List Nat} (n : NC fat hs) (hback : fat.back? = some FREE) : NC fat.pop hs := by
  have hlast : fat[fat.size - 1]? = some FREE := by
    rw [Array.back?_eq_getElem?] at hback; exact hback
  -- cells in use are not the last one
  have keep : ∀ x w : Nat, fat[x]? = some w → w ≠ FREE → fat.pop[x]? = fat[x]? := by
    intro x w hx hw
    rw [Array.getElem?_pop, if_pos]
    have hl := lt_of_get hx
    rcases Nat.lt_or_ge x (fat.size - 1) with hc | hc
    · exact hc
    · have : x = fat.size - 1 := by omega
      rw [this, hlast] at hx
      exact absurd (Option.some.inj hx).symm hw
  have old : ∀ i v : Nat, fat.pop[i]? = some v → fat[i]? = some v := by
    intro i v h
    rw [Array.getElem?_pop] at h
    split at h
    · exact h
    · cases h
  have frameChain : ∀ {a : Nat} {l : List Nat}, IsChain fat a l → IsChain fat.pop a l := by
    intro a l c
    refine c.frame ?_
    intro x hx
    obtain ⟨w, hw, hwf⟩ := c.used x hx
    exact keep x w hw hwf
  refine ⟨n.ns.pop hback, ?_, ?_⟩
  · intro h hh
    obtain ⟨l, cl⟩ := n.ch h hh
    exact ⟨l, frameChain cl⟩
  · intro x w hx hw
    obtain ⟨h, hh, l, cl, hxl⟩ := n.cov x w (old x w hx) hw
    exact ⟨h, hh, l, frameChain cl, hxl⟩

theorem nc_trim (fuel : Nat) : ∀ {mf : Array Nat} {len : Nat} {hs : List Nat}, NC mf hs →
    NC (trimMiniFat fuel mf len).1 hs := by
  induction fuel with
  | zero => intro mf len hs n; exact n
  | succ fuel ih =>
    intro mf len hs n
    unfold trimMiniFat
    split
    · rename_i hb; exact ih (len := len - MINI) (n.pop hb)
    · exact n

end CfbVerif.Phys
