import CfbVerif.Phys.Log
import CfbVerif.Phys.ChainLen
import CfbVerif.Phys.MiniLen
import CfbVerif.Handle.Lemmas
/-!
# A stream handle only writes at or before the end of its stream

`regLen_reachable` assumes that every write starts at or before the end of the stream
(`WritesInRange`).  This file discharges that assumption for the store operations a stream handle
performs: under the handle invariant (C06) the window starts inside the flushed stream, so every
`write_data_to_stream` a handle call issues is in range, for every handle call and every state
(`stepDL_inRange`); and a log in range keeps the chain-length invariant on the allocation level
(`jr_applyLogPhys`).
-/
namespace CfbVerif.Phys
open CfbVerif.Handle CfbVerif.Raw

/-- every write of the log starts at or before the end the stream has at that point -/
def LogInRange : Nat → List StoreOp → Prop
  | _, [] => True
  | len, .write off bs :: rest => off ≤ len ∧ LogInRange (max len (off + bs.length)) rest
  | _, .resize n :: rest => LogInRange n rest

theorem logInRange_append (a b : List StoreOp) : ∀ len : Nat,
    LogInRange len (a ++ b) ↔ LogInRange len a ∧ LogInRange (lenAfter len a) b := by
  induction a with
  | nil => intro len; simp [LogInRange, lenAfter]
  | cons op rest ih =>
    intro len
    cases op with
    | write off bs => simp only [List.cons_append, LogInRange, lenAfter, ih]; exact and_assoc.symm
    | resize n => simp only [List.cons_append, LogInRange, lenAfter, ih]

theorem lenAfter_applyLog (log : List StoreOp) : ∀ st : Bytes, LogInRange st.length log →
    (applyLog st log).length = lenAfter st.length log := by
  induction log with
  | nil => intro st _; rfl
  | cons op rest ih =>
    intro st h
    cases op with
    | write off bs =>
      simp only [LogInRange] at h
      have hl := writeAt_length st off bs h.1
      show (applyLog (writeAt st off bs) rest).length = lenAfter (max st.length (off + bs.length)) rest
      have := ih (writeAt st off bs) (by rw [hl]; exact h.2)
      rw [hl] at this
      exact this
    | resize n =>
      simp only [LogInRange] at h
      have hl := resize_length st n
      show (applyLog (Handle.resize st n) rest).length = lenAfter n rest
      have := ih (Handle.resize st n) (by rw [hl]; exact h)
      rw [hl] at this
      exact this

theorem flushL_inRange (h : H) (st : Bytes) (hi : Handle.Inv h st) : LogInRange st.length (flushL h) := by
  unfold flushL
  split
  · exact ⟨hi.off_le, trivial⟩
  · trivial

theorem writeL_inRange (h : H) (st : Bytes) (hi : Handle.Inv h st) (buf : Bytes) : LogInRange st.length (writeL h buf) := by
  unfold writeL
  split
  · trivial
  · exact flushL_inRange h st hi

theorem fillBufL_inRange (h : H) (st : Bytes) (hi : Handle.Inv h st) : LogInRange st.length (fillBufL h) := by
  unfold fillBufL
  split
  · exact flushL_inRange h st hi
  · trivial

theorem seekL_inRange (h : H) (st : Bytes) (hi : Handle.Inv h st) (p : SeekFrom) : LogInRange st.length (seekL h p) := by
  unfold seekL
  split
  · trivial
  · split
    · exact flushL_inRange h st hi
    · trivial

theorem setLenL_inRange (h : H) (st : Bytes) (hi : Handle.Inv h st) (n : Nat) : LogInRange st.length (setLenL h n) := by
  unfold setLenL
  split
  · rw [logInRange_append]
    exact ⟨flushL_inRange h st hi, trivial⟩
  · trivial

theorem readLoopL_inRange (fuel : Nat) : ∀ (h : H) (st : Bytes) (n : Nat), Handle.Inv h st →
    LogInRange st.length (readLoopL fuel h st n) := by
  induction fuel with
  | zero => intro h st n _; trivial
  | succ fuel ih =>
    intro h st n hi
    unfold readLoopL
    split
    · trivial
    · have hf := fillBufL_inRange h st hi
      have hr := (read_refines h st hi n).1
      have hs := read_store h st n
      have hst := fillBufL_store h st
      generalize hrd : read h st n = r at hr hs
      obtain ⟨h1, st1, o⟩ := r
      simp only at hr hs
      cases o with
      | bytes bs =>
        simp only
        split
        · exact hf
        · rw [logInRange_append]
          refine ⟨hf, ?_⟩
          have : lenAfter st.length (fillBufL h) = st1.length := by
            rw [← lenAfter_applyLog _ _ hf, hst, ← hs]
          rw [this]
          exact ih h1 st1 _ hr
      | unit => exact hf
      | num k => exact hf
      | err e => exact hf
      | panic => exact hf

theorem writeLoopL_inRange (fuel : Nat) : ∀ (h : H) (st bs : Bytes), Handle.Inv h st →
    LogInRange st.length (writeLoopL fuel h st bs) := by
  induction fuel with
  | zero => intro h st bs _; trivial
  | succ fuel ih =>
    intro h st bs hi
    unfold writeLoopL
    split
    · trivial
    · have hf := writeL_inRange h st hi bs
      have hr := (write_refines h st hi bs).1
      have hst := writeL_store h st bs
      generalize hrd : write h st bs = r at hr hst
      obtain ⟨h1, st1, o⟩ := r
      simp only at hr hst
      cases o with
      | num k =>
        simp only
        split
        · exact hf
        · rw [logInRange_append]
          refine ⟨hf, ?_⟩
          have : lenAfter st.length (writeL h bs) = st1.length := by
            rw [← lenAfter_applyLog _ _ hf, hst]
          rw [this]
          exact ih h1 st1 _ hr
      | unit => exact hf
      | bytes b => exact hf
      | err e => exact hf
      | panic => exact hf

/-- **every write a handle call issues starts at or before the end of the stream**, in every state
that satisfies the handle invariant -/
theorem stepDL_inRange (h : H) (st : Bytes) (hi : Handle.Inv h st) (op : DOp) : LogInRange st.length (stepDL h st op) := by
  cases op with
  | readAll n => exact readLoopL_inRange _ h st n hi
  | writeAll bs => exact writeLoopL_inRange _ h st bs hi
  | seek p => exact seekL_inRange h st hi p
  | setLen n => exact setLenL_inRange h st hi n
  | flush => exact flushL_inRange h st hi
  | len => trivial

/-- a log in range, replayed on the allocation level from the stream's length, keeps the whole
invariant: no sharing, no leak, whole sectors, chain lengths that match the stream sizes -/
theorem jr_applyLogPhys (slot : Nat) (log : List StoreOp) : ∀ {p p' : P} {L : Nat → Nat},
    applyLogPhys p slot (L slot) log = .ok p' → JR p L → LogInRange (L slot) log → p'.fat.size ≤ MAXREG + 1 →
    JR p' (upd L slot (lenAfter (L slot) log)) := by
  induction log with
  | nil =>
    intro p p' L h j _ _
    simp only [applyLogPhys] at h; cases h
    simp only [lenAfter]; rw [upd_same]; exact j
  | cons op rest ih =>
    intro p p' L h j hr hb
    cases op with
    | write off bs =>
      simp only [applyLogPhys] at h
      simp only [LogInRange] at hr
      split at h
      · rename_i q len' hw
        have hbq : q.fat.size ≤ MAXREG + 1 := Nat.le_trans (good_applyLogPhys _ _ h).mono hb
        have j1 : JR q (upd L slot len') :=
          ⟨jc_writeData hw j.jc hbq, rl_writeData hw j.jc j.rl j.ss hr.1 hbq, (gs_writeData hw).ss j.ss⟩
        have hl := writeData_len hw
        have h' : applyLogPhys q slot ((upd L slot len') slot) rest = .ok p' := by rw [upd_self]; exact h
        have := ih h' j1 (by rw [upd_self, hl]; exact hr.2) hb
        rw [upd_upd, upd_self, hl] at this
        simpa only [lenAfter] using this
      · cases h
      · cases h
      · cases h
    | resize n =>
      simp only [applyLogPhys] at h
      simp only [LogInRange] at hr
      split at h
      · rename_i q hrz
        have hbq : q.fat.size ≤ MAXREG + 1 := Nat.le_trans (good_applyLogPhys _ _ h).mono hb
        have j1 : JR q (upd L slot n) :=
          ⟨jc_resize hrz j.jc hbq, rl_resize hrz j.jc j.rl hbq, (gs_resize hrz).ss j.ss⟩
        have h' : applyLogPhys q slot ((upd L slot n) slot) rest = .ok p' := by rw [upd_self]; exact h
        have := ih h' j1 (by rw [upd_self]; exact hr) hb
        rw [upd_upd, upd_self] at this
        simpa only [lenAfter] using this
      · cases h
      · cases h
      · cases h

/-- **a handle call keeps the chain-length invariant**: whatever a valid handle does, the store
operations it issues — replayed on the allocation level from the stream's length — leave every
chain exactly as long as its stream needs -/
theorem jr_handleCall (h : H) (st : Bytes) (hi : Handle.Inv h st) (op : DOp) {p p' : P} {L : Nat → Nat} {slot : Nat}
    (hL : L slot = st.length) (ha : applyLogPhys p slot (L slot) (stepDL h st op) = .ok p') (j : JR p L)
    (hb : p'.fat.size ≤ MAXREG + 1) : JR p' (upd L slot (stepD h st op).2.1.length) := by
  have hr : LogInRange (L slot) (stepDL h st op) := by rw [hL]; exact stepDL_inRange h st hi op
  have := jr_applyLogPhys slot _ ha j hr hb
  rw [hL, ← lenAfter_applyLog _ _ (stepDL_inRange h st hi op), stepDL_store] at this
  exact this

/-- the MiniFAT stays within the range of mini sector numbers between the store operations of a log -/
def LogMiniBounded (slot : Nat) : P → Nat → List StoreOp → Prop
  | _, _, [] => True
  | p, len, .write off bs :: rest =>
    match writeData p slot len off bs with
    | .ok (p', len') => p'.miniFat.size ≤ MAXREG + 1 ∧ LogMiniBounded slot p' len' rest
    | _ => True
  | p, len, .resize n :: rest =>
    match Phys.resize p slot len n with
    | .ok p' => p'.miniFat.size ≤ MAXREG + 1 ∧ LogMiniBounded slot p' n rest
    | _ => True

/-- the same for the whole allocation-level invariant, mini chains and their lengths included -/
theorem ja_applyLogPhys (slot : Nat) (log : List StoreOp) : ∀ {p p' : P} {L : Nat → Nat},
    applyLogPhys p slot (L slot) log = .ok p' → JA p L → LogInRange (L slot) log → LogMiniBounded slot p (L slot) log →
    p'.fat.size ≤ MAXREG + 1 → JA p' (upd L slot (lenAfter (L slot) log)) := by
  induction log with
  | nil =>
    intro p p' L h j _ _ _
    simp only [applyLogPhys] at h; cases h
    simp only [lenAfter]; rw [upd_same]; exact j
  | cons op rest ih =>
    intro p p' L h j hr hm hb
    cases op with
    | write off bs =>
      simp only [applyLogPhys] at h
      simp only [LogInRange] at hr
      simp only [LogMiniBounded] at hm
      split at h
      · rename_i q len' hw
        rw [hw] at hm
        have hbq : q.fat.size ≤ MAXREG + 1 := Nat.le_trans (good_applyLogPhys _ _ h).mono hb
        have j1 : JA q (upd L slot len') :=
          ⟨⟨jc_writeData hw j.jr.jc hbq, rl_writeData hw j.jr.jc j.jr.rl j.jr.ss hr.1 hbq, (gs_writeData hw).ss j.jr.ss⟩,
            jmc_writeData hw j.jm hm.1, ml_writeData hw j.jm j.ml hr.1 hm.1⟩
        have hl := writeData_len hw
        have h' : applyLogPhys q slot ((upd L slot len') slot) rest = .ok p' := by rw [upd_self]; exact h
        have := ih h' j1 (by rw [upd_self, hl]; exact hr.2) (by rw [upd_self]; exact hm.2) hb
        rw [upd_upd, upd_self, hl] at this
        simpa only [lenAfter] using this
      · cases h
      · cases h
      · cases h
    | resize n =>
      simp only [applyLogPhys] at h
      simp only [LogInRange] at hr
      simp only [LogMiniBounded] at hm
      split at h
      · rename_i q hrz
        rw [hrz] at hm
        have hbq : q.fat.size ≤ MAXREG + 1 := Nat.le_trans (good_applyLogPhys _ _ h).mono hb
        have j1 : JA q (upd L slot n) :=
          ⟨⟨jc_resize hrz j.jr.jc hbq, rl_resize hrz j.jr.jc j.jr.rl hbq, (gs_resize hrz).ss j.jr.ss⟩,
            jmc_resize hrz j.jm hm.1, ml_resize hrz j.jm j.ml j.jr.ss hm.1⟩
        have h' : applyLogPhys q slot ((upd L slot n) slot) rest = .ok p' := by rw [upd_self]; exact h
        have := ih h' j1 (by rw [upd_self]; exact hr) (by rw [upd_self]; exact hm.2) hb
        rw [upd_upd, upd_self] at this
        simpa only [lenAfter] using this
      · cases h
      · cases h
      · cases h

/-- a handle call keeps all of it -/
theorem ja_handleCall (h : H) (st : Bytes) (hi : Handle.Inv h st) (op : DOp) {p p' : P} {L : Nat → Nat} {slot : Nat}
    (hL : L slot = st.length) (ha : applyLogPhys p slot (L slot) (stepDL h st op) = .ok p') (j : JA p L)
    (hm : LogMiniBounded slot p (L slot) (stepDL h st op))
    (hb : p'.fat.size ≤ MAXREG + 1) : JA p' (upd L slot (stepD h st op).2.1.length) := by
  have hr : LogInRange (L slot) (stepDL h st op) := by rw [hL]; exact stepDL_inRange h st hi op
  have := ja_applyLogPhys slot _ ha j hr hm hb
  rw [hL, ← lenAfter_applyLog _ _ (stepDL_inRange h st hi op), stepDL_store] at this
  exact this

end CfbVerif.Phys
