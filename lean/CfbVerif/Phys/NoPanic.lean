import CfbVerif.Phys.MiniInv
import CfbVerif.Phys.NoShareMini
import CfbVerif.Phys.SecSize
/-!
# No operation of the allocation level panics — on arbitrary tables (C11)

The allocation model has an explicit `panic` exit wherever the Rust indexes a vector unchecked or
asserts (`fat[index]`, `sector_ids[i]`, `minifat[free_idx]`, `debug_assert!`s).  This file shows
that none of these exits is reachable from a state in which

* `FreeIn`: every entry of the free-sector list lies inside the FAT, and
* `MiniRange`: every entry of the free-mini-sector list lies inside the in-memory MiniFAT

— and that every operation keeps both.  Nothing else is assumed of the tables: chains may be cut,
cyclic, shared between owners or run into free space, lengths may disagree with chains, the file
may be longer than its FAT covers.  Both conditions are what `open` establishes by construction
(it builds the two lists from the FREE cells of the tables it just read), so they hold for every
file the library agreed to open, damaged or not.

How it was used: while trying to make the MiniFAT-capacity clause of C02 an invariant, the exit
`set_minifat beyond the MiniFAT chain` could only be argued unreachable with "the MiniFAT chain
never shrinks", which is false once a stream's chain runs into it (F20, repaired; the exit is an
error value now).  What is left below is a proof that the remaining exits are dead.

Not covered: the `hang` exits (fuel); the directory level (`Dir`).
-/
namespace CfbVerif.Phys
open CfbVerif.Raw

/-- the outcome is not a panic -/
def NP {α : Type} (o : Outcome α) : Prop := ∀ s, o ≠ .panic s

theorem NP.ok {α : Type} (a : α) : NP (Outcome.ok a) := fun _ h => by cases h
theorem NP.err {α : Type} (k : Kind) : NP (Outcome.err k : Outcome α) := fun _ h => by cases h
theorem NP.hang {α : Type} (m : String) : NP (Outcome.hang m : Outcome α) := fun _ h => by cases h
theorem NP.bad {α : Type} : NP (bad : Outcome α) := fun _ h => by cases h

theorem NP.bind {α β : Type} {x : Outcome α} {f : α → Outcome β} (hx : NP x) (hf : ∀ a, x = .ok a → NP (f a)) :
    NP (x >>= f) := by
  cases x with
  | ok a => exact hf a rfl
  | err k => exact NP.err k
  | hang m => exact NP.hang m
  | panic m => exact absurd rfl (hx m)

theorem NP.obind {α β : Type} {x : Outcome α} {f : α → Outcome β} (hx : NP x) (hf : ∀ a, x = .ok a → NP (f a)) :
    NP (x.bind f) := NP.bind hx hf

theorem NP.liftE {α : Type} (x : E α) : NP (liftE x) := by
  cases x with
  | ok a => exact NP.ok a
  | error k => exact NP.err k

/-- every free-list entry lies inside the FAT -/
def FreeIn (p : P) : Prop := ∀ i ∈ p.free, i < p.fat.size

/-- an operation keeps `FreeIn` -/
def FK (p p' : P) : Prop := FreeIn p → FreeIn p'

theorem FK.refl (p : P) : FK p p := fun h => h
theorem FK.trans {p q r : P} (h1 : FK p q) (h2 : FK q r) : FK p r := fun h => h2 (h1 h)

/-- same free list, FAT at least as long -/
theorem FK.of_mono {p q : P} (hf : q.free = p.free) (hm : p.fat.size ≤ q.fat.size) : FK p q := by
  intro h i hi
  rw [hf] at hi
  exact Nat.lt_of_lt_of_le (h i hi) hm

/-! ## sectors and the FAT -/

theorem np_setFat (p : P) (idx val : Nat) (h : idx ≤ p.fat.size) : NP (setFat p idx val) := by
  intro s
  unfold setFat
  split
  · intro hc; cases hc
  · split
    · intro hc; cases hc
    · split
      · intro hc; cases hc
      · omega

theorem fk_setFat {p p' : P} {i v : Nat} (h : setFat p i v = .ok p') : FK p p' := by
  refine FK.of_mono ?_ (setFat_mono h)
  rcases setFat_ok h with ⟨_, he⟩ | ⟨_, he⟩ <;> subst he <;> rfl

theorem np_initSector (p : P) (id : Nat) (k : Init) : NP (initSector p id k) := by
  intro s; unfold initSector
  split
  · intro hc; cases hc
  · split <;> (intro hc; cases hc)

theorem fk_initSector {p p' : P} {id : Nat} {k : Init} (h : initSector p id k = .ok p') : FK p p' := by
  refine FK.of_mono ?_ (by rw [initSector_fat h]; exact Nat.le_refl _)
  rcases initSector_ok h with ⟨_, he⟩ | ⟨_, he⟩ <;> subst he <;> rfl

theorem np_writeSector (p : P) (id off : Nat) (bs : Bytes) : NP (writeSector p id off bs) := by
  intro s; unfold writeSector
  split <;> (intro hc; cases hc)

theorem fk_writeSector {p p' : P} {id off : Nat} {bs : Bytes} (h : writeSector p id off bs = .ok p') : FK p p' := by
  unfold writeSector at h
  split at h
  · cases h
  · cases h; exact FK.refl _

theorem np_readSector (p : P) (id off n : Nat) : NP (readSector p id off n) := by
  intro s; unfold readSector
  split <;> (intro hc; cases hc)

theorem initSector_fatsize {p p' : P} {id : Nat} {k : Init} (h : initSector p id k = .ok p') : p'.fat.size = p.fat.size := by
  rw [initSector_fat h]

theorem np_appendFatSector (p : P) : NP (appendFatSector p) := by
  unfold appendFatSector
  refine NP.bind (np_initSector _ _ _) ?_
  intro p1 h1
  have hs1 := initSector_fatsize h1
  refine NP.bind (np_setFat _ _ _ (by show p.fat.size ≤ p1.fat.size; omega)) ?_
  intro p2 h2
  split
  · exact NP.ok _
  · dsimp only
    split
    · refine NP.bind (np_initSector _ _ _) ?_
      intro p3 h3
      refine NP.bind (np_setFat _ _ _ (by rw [initSector_fatsize h3]; exact Nat.le_refl _)) ?_
      intro p4 h4
      exact NP.ok _
    · exact NP.ok _

theorem fk_appendFatSector {p p' : P} (h : appendFatSector p = .ok p') : FK p p' := by
  unfold appendFatSector at h
  obtain ⟨p1, h1, h⟩ := bind_ok h
  obtain ⟨p2, h2, h⟩ := bind_ok h
  have s12 : FK p p2 := (fk_initSector h1).trans ((FK.refl _ : FK _ { p1 with difat := p1.difat ++ [p.fat.size] }).trans (fk_setFat h2))
  split at h
  · cases h; exact s12
  · dsimp only at h
    split at h
    · obtain ⟨p3, h3, h⟩ := bind_ok h
      obtain ⟨p4, h4, h⟩ := bind_ok h
      cases h
      exact ((s12.trans (fk_initSector h3)).trans (fk_setFat h4)).trans (FK.refl _)
    · cases h; exact s12

theorem np_allocateSector (p : P) (k : Init) (w : FreeIn p) : NP (allocateSector p k) := by
  unfold allocateSector
  split
  · rename_i id hl
    have hid : id ≤ p.fat.size := Nat.le_of_lt (w id (getLast_mem hl))
    refine NP.bind (np_setFat _ _ _ hid) ?_
    intro p1 h1
    refine NP.bind (np_initSector _ _ _) ?_
    intro p2 h2
    exact NP.ok _
  · split
    · refine NP.bind (np_appendFatSector p) ?_
      intro p0 h0
      refine NP.bind (np_setFat _ _ _ (Nat.le_refl _)) ?_
      intro p1 h1
      refine NP.bind (np_initSector _ _ _) ?_
      intro p2 h2
      exact NP.ok _
    · refine NP.bind (NP.ok p) ?_
      intro p0 h0
      refine NP.bind (np_setFat _ _ _ (Nat.le_refl _)) ?_
      intro p1 h1
      refine NP.bind (np_initSector _ _ _) ?_
      intro p2 h2
      exact NP.ok _

theorem fk_allocateSector {p p' : P} {id : Nat} {k : Init} (h : allocateSector p k = .ok (p', id)) : FK p p' := by
  unfold allocateSector at h
  split at h
  · obtain ⟨p1, h1, h⟩ := bind_ok h
    obtain ⟨p2, h2, h⟩ := bind_ok h
    cases h
    have d : FK p { p with free := p.free.dropLast } := by
      intro w i hi
      exact w i (List.dropLast_subset _ hi)
    exact (d.trans (fk_setFat h1)).trans (fk_initSector h2)
  · split at h
    · obtain ⟨p0, h0, h⟩ := bind_ok h
      obtain ⟨p1, h1, h⟩ := bind_ok h
      obtain ⟨p2, h2, h⟩ := bind_ok h
      cases h
      exact ((fk_appendFatSector h0).trans (fk_setFat h1)).trans (fk_initSector h2)
    · obtain ⟨p0, h0, h⟩ := bind_ok h
      cases h0
      obtain ⟨p1, h1, h⟩ := bind_ok h
      obtain ⟨p2, h2, h⟩ := bind_ok h
      cases h
      exact (fk_setFat h1).trans (fk_initSector h2)

theorem np_lastOfChain (fat : Array Nat) : ∀ (fuel cur : Nat), NP (lastOfChain fat fuel cur) := by
  intro fuel
  induction fuel with
  | zero => intro cur; unfold lastOfChain; exact NP.hang _
  | succ fuel ih =>
    intro cur
    unfold lastOfChain
    split
    · exact NP.err _
    · split
      · exact NP.ok _
      · exact ih _

theorem lastOfChain_lt (fat : Array Nat) : ∀ (fuel : Nat) {cur last : Nat}, lastOfChain fat fuel cur = .ok last → last < fat.size := by
  intro fuel
  induction fuel with
  | zero => intro cur last h; simp [lastOfChain] at h
  | succ fuel ih =>
    intro cur last h
    unfold lastOfChain at h
    cases hn : nextSector fat cur with
    | error k => simp [hn] at h
    | ok next =>
      simp only [hn] at h
      split at h
      · cases h; exact (nextSector_ok hn).1
      · exact ih h

theorem np_extendChain (p : P) (start : Nat) (k : Init) (w : FreeIn p) : NP (extendChain p start k) := by
  unfold extendChain
  refine NP.bind (np_lastOfChain _ _ _) ?_
  intro last hl
  refine NP.bind (np_allocateSector p k w) ?_
  intro r ha
  obtain ⟨p1, id⟩ := r
  refine NP.bind (np_setFat _ _ _ ?_) ?_
  · exact Nat.le_of_lt (Nat.lt_of_lt_of_le (lastOfChain_lt _ _ hl) (allocateSector_mono ha))
  · intro p2 h2
    exact NP.ok _

theorem fk_extendChain {p p' : P} {start id : Nat} {k : Init} (h : extendChain p start k = .ok (p', id)) : FK p p' := by
  unfold extendChain at h
  obtain ⟨last, hl, h⟩ := bind_ok h
  obtain ⟨⟨p1, id1⟩, ha, h⟩ := bind_ok h
  obtain ⟨p2, hs, h⟩ := bind_ok h
  cases h
  exact (fk_allocateSector ha).trans (fk_setFat hs)

theorem fk_push {p : P} {cur : Nat} (h : cur < p.fat.size) : FK p { p with free := p.free ++ [cur] } := by
  intro w i hi
  rcases List.mem_append.mp hi with hi | hi
  · exact w i hi
  · simp only [List.mem_singleton] at hi
    subst hi; exact h

theorem np_freeChain : ∀ (fuel : Nat) (p : P) (cur : Nat), NP (freeChain p fuel cur) := by
  intro fuel
  induction fuel with
  | zero => intro p cur; unfold freeChain; exact NP.hang _
  | succ fuel ih =>
    intro p cur
    unfold freeChain
    split
    · exact NP.ok _
    · cases hn : nextSector p.fat cur with
      | error k => exact NP.err _
      | ok next =>
        dsimp only
        split
        · exact NP.err _
        · cases hs : setFat p cur FREE with
          | ok p1 => exact ih _ _
          | err k => exact NP.err _
          | hang m => exact NP.hang _
          | panic m => exact absurd hs (np_setFat p cur FREE (Nat.le_of_lt (nextSector_ok hn).1) m)

theorem fk_freeChain (fuel : Nat) : ∀ {p p' : P} {cur : Nat}, freeChain p fuel cur = .ok p' → FK p p' := by
  induction fuel with
  | zero => intro p p' cur h; simp [freeChain] at h
  | succ fuel ih =>
    intro p p' cur h
    unfold freeChain at h
    split at h
    · cases h; exact FK.refl _
    · cases hn : nextSector p.fat cur with
      | error k => simp [hn] at h
      | ok next =>
        simp only [hn] at h
        split at h
        · cases h
        · split at h
          · rename_i p1 h1
            have hlt : cur < p1.fat.size := Nat.lt_of_lt_of_le (nextSector_ok hn).1 (setFat_mono h1)
            exact ((fk_setFat h1).trans (fk_push hlt)).trans (ih h)
          · cases h
          · cases h
          · cases h

theorem np_freeChainFrom (p : P) (start : Nat) : NP (freeChainFrom p start) := np_freeChain _ _ _

theorem np_freeChainAfter (p : P) (id : Nat) : NP (freeChainAfter p id) := by
  unfold freeChainAfter
  cases hn : nextSector p.fat id with
  | error k => exact NP.err _
  | ok next =>
    dsimp only
    refine NP.bind (np_setFat _ _ _ (Nat.le_of_lt (nextSector_ok hn).1)) ?_
    intro p1 h1
    exact np_freeChainFrom _ _

theorem fk_freeChainAfter {p p' : P} {id : Nat} (h : freeChainAfter p id = .ok p') : FK p p' := by
  unfold freeChainAfter at h
  split at h
  · cases h
  · obtain ⟨p1, h1, h⟩ := bind_ok h
    exact (fk_setFat h1).trans (fk_freeChain _ h)

theorem np_chainLoop (fat : Array Nat) (first : Nat) : ∀ (fuel cur : Nat) (acc : List Nat), NP (chainLoop fat first fuel cur acc) := by
  intro fuel
  induction fuel with
  | zero => intro cur acc; unfold chainLoop; exact NP.hang _
  | succ fuel ih =>
    intro cur acc
    unfold chainLoop
    split
    · exact NP.ok _
    · split
      · split
        · exact NP.bad
        · exact ih _ _
      · exact NP.err _

theorem np_chainIds (p : P) (start : Nat) : NP (chainIds p start) := np_chainLoop _ _ _ _ _

/-! ## regular chains -/

theorem np_growOne (kind : Init) (p : P) (ids : List Nat) (w : FreeIn p) : NP (growOne kind p ids) := by
  unfold growOne
  split
  · cases he : extendChain p _ kind with
    | ok r => exact NP.ok _
    | err k => exact NP.err _
    | hang m => exact NP.hang _
    | panic m => exact absurd he (np_extendChain p _ kind w m)
  · cases he : allocateSector p kind with
    | ok r => exact NP.ok _
    | err k => exact NP.err _
    | hang m => exact NP.hang _
    | panic m => exact absurd he (np_allocateSector p kind w m)

theorem fk_growOne {kind : Init} {p p' : P} {ids ids' : List Nat} (h : growOne kind p ids = .ok (p', ids')) : FK p p' := by
  unfold growOne at h
  split at h
  · split at h
    · rename_i he; cases h; exact fk_extendChain he
    · cases h
    · cases h
    · cases h
  · split at h
    · rename_i he; cases h; exact fk_allocateSector he
    · cases h
    · cases h
    · cases h

theorem growOne_len {kind : Init} {p p' : P} {ids ids' : List Nat} (h : growOne kind p ids = .ok (p', ids')) :
    ids'.length = ids.length + 1 := by
  unfold growOne at h
  split at h
  · split at h
    · cases h; simp
    · cases h
    · cases h
    · cases h
  · split at h
    · cases h; simp
    · cases h
    · cases h
    · cases h

theorem writeSector_S {p p' : P} {id off : Nat} {bs : Bytes} (h : writeSector p id off bs = .ok p') : p'.S = p.S := by
  unfold writeSector at h
  split at h
  · cases h
  · cases h; rfl

/-- the index into the sector list of a chain write is in range: the offset never runs ahead of
the chain by more than the sector that `growOne` is about to add -/
theorem index_in_range {S off len : Nat} (hS : 0 < S) (h : off ≤ len * S) (hne : off ≠ len * S) : off / S < len := by
  have : off < len * S := Nat.lt_of_le_of_ne h hne
  exact (Nat.div_lt_iff_lt_mul hS).mpr this

theorem next_off_le {S off n len : Nat} (hS : 0 < S) (hi : off / S < len) (hn : n ≤ S - off % S) : off + n ≤ len * S := by
  have h1 : off = S * (off / S) + off % S := (Nat.div_add_mod off S).symm
  have h2 : off % S < S := Nat.mod_lt _ hS
  have h3 : (off / S + 1) * S ≤ len * S := Nat.mul_le_mul_right S hi
  have h4 : (off / S + 1) * S = S * (off / S) + S := by rw [Nat.add_mul, Nat.one_mul, Nat.mul_comm]
  omega

theorem np_chainWrite (kind : Init) : ∀ (fuel : Nat) (p : P) (ids : List Nat) (off : Nat) (bs : Bytes),
    FreeIn p → off ≤ ids.length * p.S → NP (chainWrite kind fuel p ids off bs) := by
  intro fuel
  induction fuel with
  | zero => intro p ids off bs _ _; unfold chainWrite; exact NP.hang _
  | succ fuel ih =>
    intro p ids off bs w hoff
    have hS : 0 < p.S := by rcases S_cases p with h | h <;> omega
    unfold chainWrite
    split
    · exact NP.ok _
    · dsimp only
      split
      · rename_i p1 ids1 hgrow
        have g1 : FK p p1 ∧ p1.S = p.S ∧ off / p.S < ids1.length := by
          split at hgrow
          · rename_i heq
            refine ⟨fk_growOne hgrow, S_of_v4 (gs_growOne hgrow).v4, ?_⟩
            rw [growOne_len hgrow, heq, Nat.mul_div_cancel _ hS]
            exact Nat.lt_succ_self _
          · rename_i hne
            cases hgrow
            exact ⟨FK.refl _, rfl, index_in_range hS hoff hne⟩
        split
        · rename_i hnone
          have := g1.2.2
          rw [List.getElem?_eq_none_iff] at hnone
          omega
        · rename_i id hid
          split
          · rename_i p2 hw
            refine ih p2 ids1 _ _ ((g1.1.trans (fk_writeSector hw)) w) ?_
            rw [writeSector_S hw, g1.2.1]
            exact next_off_le hS g1.2.2 (Nat.min_le_right _ _)
          · exact NP.err _
          · rename_i m hw
            exact absurd hw (np_writeSector _ _ _ _ m)
          · exact NP.hang _
      · exact NP.err _
      · rename_i m hgrow
        split at hgrow
        · exact absurd hgrow (np_growOne kind p ids w m)
        · cases hgrow
      · exact NP.hang _

theorem fk_chainWrite (kind : Init) (fuel : Nat) : ∀ {p p' : P} {ids ids' : List Nat} {off : Nat} {bs : Bytes},
    chainWrite kind fuel p ids off bs = .ok (p', ids') → FK p p' := by
  induction fuel with
  | zero => intro p p' ids ids' off bs h; simp [chainWrite] at h
  | succ fuel ih =>
    intro p p' ids ids' off bs h
    unfold chainWrite at h
    split at h
    · cases h; exact FK.refl _
    · dsimp only at h
      split at h
      · rename_i p1 ids1 hgrow
        have g1 : FK p p1 := by
          split at hgrow
          · exact fk_growOne hgrow
          · cases hgrow; exact FK.refl _
        split at h
        · cases h
        · split at h
          · rename_i p2 hw
            exact (g1.trans (fk_writeSector hw)).trans (ih h)
          · cases h
          · cases h
          · cases h
      · cases h
      · cases h
      · cases h

theorem np_chainRead : ∀ (fuel : Nat) (p : P) (ids : List Nat) (off n : Nat) (acc : Bytes), NP (chainRead fuel p ids off n acc) := by
  intro fuel
  induction fuel with
  | zero => intro p ids off n acc; unfold chainRead; exact NP.hang _
  | succ fuel ih =>
    intro p ids off n acc
    unfold chainRead
    split
    · exact NP.ok _
    · dsimp only
      split
      · exact NP.err _
      · split
        · exact ih _ _ _ _ _
        · exact NP.err _
        · rename_i m hr
          exact absurd hr (np_readSector _ _ _ _ m)
        · exact NP.hang _

theorem np_chainGrow (kind : Init) : ∀ (fuel : Nat) (p : P) (ids : List Nat) (target : Nat), FreeIn p →
    NP (chainGrow kind fuel p ids target) := by
  intro fuel
  induction fuel with
  | zero => intro p ids target _; unfold chainGrow; exact NP.hang _
  | succ fuel ih =>
    intro p ids target w
    unfold chainGrow
    split
    · exact NP.ok _
    · split
      · rename_i p1 ids1 hg
        exact ih _ _ _ (fk_growOne hg w)
      · exact NP.err _
      · rename_i m hg
        exact absurd hg (np_growOne kind p ids w m)
      · exact NP.hang _

theorem fk_chainGrow (kind : Init) (fuel : Nat) : ∀ {p p' : P} {ids ids' : List Nat} {target : Nat},
    chainGrow kind fuel p ids target = .ok (p', ids') → FK p p' := by
  induction fuel with
  | zero => intro p p' ids ids' target h; simp [chainGrow] at h
  | succ fuel ih =>
    intro p p' ids ids' target h
    unfold chainGrow at h
    split at h
    · cases h; exact FK.refl _
    · split at h
      · rename_i p1 ids1 hg
        exact (fk_growOne hg).trans (ih h)
      · cases h
      · cases h
      · cases h

theorem np_chainSetLen (p : P) (ids : List Nat) (kind : Init) (n : Nat) (w : FreeIn p) : NP (chainSetLen p ids kind n) := by
  unfold chainSetLen
  dsimp only
  generalize (p.S + n - 1) / p.S = k
  split
  · split
    · exact NP.obind (np_freeChainFrom _ _) (fun _ _ => NP.ok _)
    · exact NP.ok _
  · split
    · split
      · split
        · exact NP.obind (np_freeChainAfter _ _) (fun _ _ => NP.ok _)
        · rename_i h0 hle hlt hnone
          rw [List.getElem?_eq_none_iff] at hnone
          omega
      · exact NP.ok _
    · exact np_chainGrow kind _ _ _ _ w

theorem fk_chainSetLen {p p' : P} {ids ids' : List Nat} {kind : Init} {n : Nat}
    (h : chainSetLen p ids kind n = .ok (p', ids')) : FK p p' := by
  unfold chainSetLen at h
  dsimp only at h
  split at h
  · split at h
    · obtain ⟨q, hf, h⟩ := obind_ok h
      cases h; exact fk_freeChain _ hf
    · cases h; exact FK.refl _
  · split at h
    · split at h
      · split at h
        · obtain ⟨q, hf, h⟩ := obind_ok h
          cases h; exact fk_freeChainAfter hf
        · cases h
      · cases h; exact FK.refl _
    · exact fk_chainGrow _ _ h

/-! ## the MiniFAT and the mini stream -/

/-- both range conditions -/
structure WK (p : P) : Prop where
  free : FreeIn p
  mini : MiniRange p

theorem np_setMiniFat (p : P) (idx val : Nat) (h : idx ≤ p.miniFat.size) : NP (setMiniFat p idx val) := by
  unfold setMiniFat
  refine NP.bind (np_chainIds _ _) ?_
  intro chain _
  split
  · exact NP.err _
  · split
    · exact NP.ok _
    · split
      · exact NP.ok _
      · omega

theorem fk_setMiniFat {p p' : P} {i v : Nat} (h : setMiniFat p i v = .ok p') : FK p p' := by
  have r := (setMiniFat_ok h).1
  intro w
  rw [r]; exact w

theorem np_ensureRootRoom (p : P) (w : FreeIn p) : NP (ensureRootRoom p) := by
  unfold ensureRootRoom
  split
  · cases he : allocateSector p .zero with
    | ok r => exact NP.ok _
    | err k => exact NP.err _
    | hang m => exact NP.hang _
    | panic m => exact absurd he (np_allocateSector p .zero w m)
  · split
    · cases hc : chainIds p p.rootStart with
      | ok chain =>
        dsimp only
        split
        · cases he : extendChain p p.rootStart .zero with
          | ok r => exact NP.ok _
          | err k => exact NP.err _
          | hang m => exact NP.hang _
          | panic m => exact absurd he (np_extendChain p _ .zero w m)
        · exact NP.ok _
      | err k => exact NP.err _
      | hang m => exact NP.hang _
      | panic m => exact absurd hc (np_chainIds p _ m)
    · exact NP.ok _

theorem fk_ensureRootRoom {p p' : P} (h : ensureRootRoom p = .ok p') : FK p p' := by
  unfold ensureRootRoom at h
  split at h
  · split at h
    · rename_i ha; cases h
      exact (fk_allocateSector ha).trans (FK.refl _)
    · cases h
    · cases h
    · cases h
  · split at h
    · split at h
      · split at h
        · split at h
          · rename_i he; cases h; exact fk_extendChain he
          · cases h
          · cases h
          · cases h
        · cases h; exact FK.refl _
      · cases h
      · cases h
      · cases h
    · cases h; exact FK.refl _

theorem np_appendMiniSector (p : P) (w : FreeIn p) : NP (appendMiniSector p) := by
  unfold appendMiniSector
  cases he : ensureRootRoom p with
  | ok r => exact NP.ok _
  | err k => exact NP.err _
  | hang m => exact NP.hang _
  | panic m => exact absurd he (np_ensureRootRoom p w m)

theorem fk_appendMiniSector {p p' : P} (h : appendMiniSector p = .ok p') : FK p p' := by
  unfold appendMiniSector at h
  split at h
  · rename_i q hr; cases h
    exact (fk_ensureRootRoom hr).trans (FK.refl _)
  · cases h
  · cases h
  · cases h

theorem np_popFreeMini : ∀ (fuel : Nat) (p : P), MiniRange p → NP (popFreeMini p fuel) := by
  intro fuel
  induction fuel with
  | zero => intro p _; unfold popFreeMini; exact NP.ok _
  | succ fuel ih =>
    intro p hr
    unfold popFreeMini
    split
    · exact NP.ok _
    · rename_i idx hl
      dsimp only
      split
      · rename_i hnone
        have hlt := hr idx (List.mem_of_getLast? hl)
        rw [Array.getElem?_eq_none_iff] at hnone
        omega
      · split
        · exact NP.ok _
        · refine ih _ ?_
          intro i hi
          exact hr i (List.dropLast_subset _ hi)

theorem fk_popFreeMini {fuel : Nat} {p p1 : P} {r : Option Nat} (h : popFreeMini p fuel = .ok (p1, r)) : FK p p1 := by
  have e := (popFreeMini_ok fuel h).1
  intro w
  rw [e]; exact w

theorem np_ensureMiniFatRoom (p : P) (w : FreeIn p) : NP (ensureMiniFatRoom p) := by
  unfold ensureMiniFatRoom
  dsimp only
  split
  · cases he : allocateSector p .fat with
    | ok r => exact NP.ok _
    | err k => exact NP.err _
    | hang m => exact NP.hang _
    | panic m => exact absurd he (np_allocateSector p .fat w m)
  · split
    · cases hc : chainIds p p.miniFatStart with
      | ok chain =>
        dsimp only
        split
        · cases he : extendChain p p.miniFatStart .fat with
          | ok r => exact NP.ok _
          | err k => exact NP.err _
          | hang m => exact NP.hang _
          | panic m => exact absurd he (np_extendChain p _ .fat w m)
        · exact NP.ok _
      | err k => exact NP.err _
      | hang m => exact NP.hang _
      | panic m => exact absurd hc (np_chainIds p _ m)
    · exact NP.ok _

theorem fk_ensureMiniFatRoom {p p' : P} (h : ensureMiniFatRoom p = .ok p') : FK p p' := by
  unfold ensureMiniFatRoom at h
  dsimp only at h
  split at h
  · split at h
    · rename_i ha; cases h
      exact (fk_allocateSector ha).trans (FK.refl _)
    · cases h
    · cases h
    · cases h
  · split at h
    · split at h
      · split at h
        · split at h
          · rename_i he; cases h; exact fk_extendChain he
          · cases h
          · cases h
          · cases h
        · cases h; exact FK.refl _
      · cases h
      · cases h
      · cases h
    · cases h; exact FK.refl _

theorem np_allocateMiniSector (p : P) (value : Nat) (w : WK p) : NP (allocateMiniSector p value) := by
  unfold allocateMiniSector
  refine NP.bind (np_popFreeMini _ _ w.mini) ?_
  intro r hp
  obtain ⟨p1, reuse⟩ := r
  have w1 : FreeIn p1 := fk_popFreeMini hp w.free
  dsimp only
  split
  · rename_i idx
    have hidx := (popFreeMini_ok _ hp).2 idx rfl
    have hlt : idx < p1.miniFat.size := by
      rcases Nat.lt_or_ge idx p1.miniFat.size with h | h
      · exact h
      · rw [Array.getElem?_eq_none h] at hidx; cases hidx
    refine NP.bind (np_setMiniFat _ _ _ (Nat.le_of_lt hlt)) ?_
    intro p2 _
    exact NP.ok _
  · refine NP.bind (np_ensureMiniFatRoom _ w1) ?_
    intro p2 h2
    refine NP.bind (np_appendMiniSector _ (fk_ensureMiniFatRoom h2 w1)) ?_
    intro p3 h3
    refine NP.bind (np_setMiniFat _ _ _ ?_) ?_
    · rw [mf_appendMiniSector h3]; exact Nat.le_refl _
    · intro p4 _
      exact NP.ok _

theorem fk_allocateMiniSector {p p' : P} {v id : Nat} (h : allocateMiniSector p v = .ok (p', id)) : FK p p' := by
  unfold allocateMiniSector at h
  obtain ⟨⟨p1, reuse⟩, hp, h⟩ := bind_ok h
  dsimp only at h
  split at h
  · obtain ⟨p2, hs, h⟩ := bind_ok h
    cases h
    exact (fk_popFreeMini hp).trans (fk_setMiniFat hs)
  · obtain ⟨p2, h2, h⟩ := bind_ok h
    obtain ⟨p3, h3, h⟩ := bind_ok h
    obtain ⟨p4, h4, h⟩ := bind_ok h
    cases h
    exact (((fk_popFreeMini hp).trans (fk_ensureMiniFatRoom h2)).trans (fk_appendMiniSector h3)).trans (fk_setMiniFat h4)

theorem np_lastOfMiniChain (mf : Array Nat) : ∀ (fuel cur : Nat), NP (lastOfMiniChain mf fuel cur) := by
  intro fuel
  induction fuel with
  | zero => intro cur; unfold lastOfMiniChain; exact NP.hang _
  | succ fuel ih =>
    intro cur
    unfold lastOfMiniChain
    split
    · exact NP.err _
    · split
      · exact NP.ok _
      · exact ih _

/-- allocating a mini sector never shortens the MiniFAT -/
theorem allocateMiniSector_mono {p p' : P} {v id : Nat} (h : allocateMiniSector p v = .ok (p', id)) :
    p.miniFat.size ≤ p'.miniFat.size := by
  unfold allocateMiniSector at h
  obtain ⟨⟨p1, reuse⟩, hp, h⟩ := bind_ok h
  have e0 := mf_popFreeMini hp
  dsimp only at h
  split at h
  · obtain ⟨p2, hs, h⟩ := bind_ok h
    cases h
    rcases setMiniFat_ok2 hs with ⟨_, he⟩ | ⟨_, he⟩ <;> rw [he, ← e0] <;> simp
  · obtain ⟨p2, h2, h⟩ := bind_ok h
    obtain ⟨p3, h3, h⟩ := bind_ok h
    obtain ⟨p4, h4, h⟩ := bind_ok h
    cases h
    have e2 := mf_ensureMiniFatRoom h2
    have e3 := mf_appendMiniSector h3
    rcases setMiniFat_ok2 h4 with ⟨_, he⟩ | ⟨_, he⟩ <;> rw [he, e3, e2, e0] <;> simp

theorem np_extendMiniChain (p : P) (start : Nat) (w : WK p) : NP (extendMiniChain p start) := by
  unfold extendMiniChain
  refine NP.bind (np_lastOfMiniChain _ _ _) ?_
  intro last hl
  refine NP.bind (np_allocateMiniSector p END w) ?_
  intro r ha
  obtain ⟨p1, id⟩ := r
  refine NP.bind (np_setMiniFat _ _ _ ?_) ?_
  · exact Nat.le_of_lt (Nat.lt_of_lt_of_le (lastOfMiniChain_ok _ _ hl).1 (allocateMiniSector_mono ha))
  · intro p2 _
    exact NP.ok _

theorem fk_extendMiniChain {p p' : P} {start id : Nat} (h : extendMiniChain p start = .ok (p', id)) : FK p p' := by
  unfold extendMiniChain at h
  obtain ⟨last, hl, h⟩ := bind_ok h
  obtain ⟨⟨p1, i1⟩, ha, h⟩ := bind_ok h
  obtain ⟨p2, hs, h⟩ := bind_ok h
  cases h
  exact (fk_allocateMiniSector ha).trans (fk_setMiniFat hs)

theorem np_freeMiniSector (p : P) (id : Nat) (h : id < p.miniFat.size) : NP (freeMiniSector p id) := by
  unfold freeMiniSector
  split
  · rename_i hnone
    rw [Array.getElem?_eq_none_iff] at hnone
    omega
  · split
    · exact NP.err _
    · refine NP.bind (np_setMiniFat _ _ _ (Nat.le_of_lt h)) ?_
      intro p1 _
      exact NP.ok _

theorem fk_freeMiniSector {p p' : P} {id : Nat} (h : freeMiniSector p id = .ok p') : FK p p' := by
  unfold freeMiniSector at h
  split at h
  · cases h
  · split at h
    · cases h
    · obtain ⟨p1, h1, h⟩ := bind_ok h
      cases h
      exact (fk_setMiniFat h1).trans (FK.refl _)

theorem np_freeMiniChain : ∀ (fuel : Nat) (p : P) (cur : Nat), NP (freeMiniChain p fuel cur) := by
  intro fuel
  induction fuel with
  | zero => intro p cur; unfold freeMiniChain; exact NP.hang _
  | succ fuel ih =>
    intro p cur
    unfold freeMiniChain
    split
    · exact NP.ok _
    · cases hn : nextMini p cur with
      | error k => exact NP.err _
      | ok next =>
        dsimp only
        cases hf : freeMiniSector p cur with
        | ok p1 => exact ih _ _
        | err k => exact NP.err _
        | hang m => exact NP.hang _
        | panic m => exact absurd hf (np_freeMiniSector p cur (nextSector_ok hn).1 m)

theorem fk_freeMiniChain (fuel : Nat) : ∀ {p p' : P} {cur : Nat}, freeMiniChain p fuel cur = .ok p' → FK p p' := by
  induction fuel with
  | zero => intro p p' cur h; simp [freeMiniChain] at h
  | succ fuel ih =>
    intro p p' cur h
    unfold freeMiniChain at h
    split at h
    · cases h; exact FK.refl _
    · split at h
      · cases h
      · split at h
        · rename_i p1 h1
          exact (fk_freeMiniSector h1).trans (ih h)
        · cases h
        · cases h
        · cases h

theorem np_freeMiniChainFrom (p : P) (start : Nat) : NP (freeMiniChainFrom p start) := np_freeMiniChain _ _ _

theorem np_freeMiniChainAfter (p : P) (id : Nat) : NP (freeMiniChainAfter p id) := by
  unfold freeMiniChainAfter
  cases hn : nextMini p id with
  | error k => exact NP.err _
  | ok next =>
    dsimp only
    refine NP.bind (np_setMiniFat _ _ _ (Nat.le_of_lt (nextSector_ok hn).1)) ?_
    intro p1 _
    exact np_freeMiniChainFrom _ _

theorem fk_freeMiniChainAfter {p p' : P} {id : Nat} (h : freeMiniChainAfter p id = .ok p') : FK p p' := by
  unfold freeMiniChainAfter at h
  split at h
  · cases h
  · obtain ⟨p1, h1, h⟩ := bind_ok h
    exact (fk_setMiniFat h1).trans (fk_freeMiniChain _ h)

theorem np_miniChainIds (p : P) (start : Nat) : NP (miniChainIds p start) := np_chainLoop _ _ _ _ _

theorem np_locateMini (p : P) (m : Nat) : NP (locateMini p m) := by
  unfold locateMini
  refine NP.bind (np_chainIds _ _) ?_
  intro root _
  dsimp only
  split
  · exact NP.bad
  · exact NP.ok _

theorem np_miniWriteAt (p : P) (m off : Nat) (bs : Bytes) : NP (miniWriteAt p m off bs) := by
  unfold miniWriteAt
  refine NP.bind (np_locateMini _ _) ?_
  intro r _
  exact np_writeSector _ _ _ _

theorem fk_miniWriteAt {p p' : P} {m off : Nat} {bs : Bytes} (h : miniWriteAt p m off bs = .ok p') : FK p p' := by
  unfold miniWriteAt at h
  obtain ⟨⟨sid, base⟩, hl, h⟩ := bind_ok h
  exact fk_writeSector h

/-! ## mini chains -/

/-- an operation keeps both range conditions -/
def KW (p p' : P) : Prop := WK p → WK p'

theorem KW.refl (p : P) : KW p p := fun h => h
theorem KW.trans {p q r : P} (h1 : KW p q) (h2 : KW q r) : KW p r := fun h => h2 (h1 h)
theorem KW.mk {p q : P} (f : FK p q) (g : GoodM p q) : KW p q := fun w => ⟨f w.free, g w.mini⟩

theorem np_growOneMini (p : P) (ids : List Nat) (w : WK p) : NP (growOneMini p ids) := by
  unfold growOneMini
  split
  · cases he : extendMiniChain p _ with
    | ok r => exact NP.ok _
    | err k => exact NP.err _
    | hang m => exact NP.hang _
    | panic m => exact absurd he (np_extendMiniChain p _ w m)
  · cases he : allocateMiniSector p END with
    | ok r => exact NP.ok _
    | err k => exact NP.err _
    | hang m => exact NP.hang _
    | panic m => exact absurd he (np_allocateMiniSector p END w m)

theorem fk_growOneMini {p p' : P} {ids ids' : List Nat} (h : growOneMini p ids = .ok (p', ids')) : FK p p' := by
  unfold growOneMini at h
  split at h
  · split at h
    · rename_i he; cases h; exact fk_extendMiniChain he
    · cases h
    · cases h
    · cases h
  · split at h
    · rename_i he; cases h; exact fk_allocateMiniSector he
    · cases h
    · cases h
    · cases h

theorem kw_growOneMini {p p' : P} {ids ids' : List Nat} (h : growOneMini p ids = .ok (p', ids')) : KW p p' :=
  KW.mk (fk_growOneMini h) (gm_growOneMini h)

theorem growOneMini_len {p p' : P} {ids ids' : List Nat} (h : growOneMini p ids = .ok (p', ids')) :
    ids'.length = ids.length + 1 := by
  unfold growOneMini at h
  split at h
  · split at h
    · cases h; simp
    · cases h
    · cases h
    · cases h
  · split at h
    · cases h; simp
    · cases h
    · cases h
    · cases h

theorem kw_miniWriteAt {p p' : P} {m off : Nat} {bs : Bytes} (h : miniWriteAt p m off bs = .ok p') : KW p p' :=
  KW.mk (fk_miniWriteAt h) (GoodM.of_same (sm_miniWriteAt h))

theorem MINI_pos : 0 < MINI := by decide

theorem np_miniChainWrite : ∀ (fuel : Nat) (p : P) (ids : List Nat) (off : Nat) (bs : Bytes),
    WK p → off ≤ ids.length * MINI → NP (miniChainWrite fuel p ids off bs) := by
  intro fuel
  induction fuel with
  | zero => intro p ids off bs _ _; unfold miniChainWrite; exact NP.hang _
  | succ fuel ih =>
    intro p ids off bs w hoff
    unfold miniChainWrite
    split
    · exact NP.ok _
    · split
      · rename_i p1 ids1 hgrow
        have g1 : KW p p1 ∧ off / MINI < ids1.length := by
          split at hgrow
          · rename_i heq
            refine ⟨kw_growOneMini hgrow, ?_⟩
            rw [growOneMini_len hgrow, heq, Nat.mul_div_cancel _ MINI_pos]
            exact Nat.lt_succ_self _
          · rename_i hne
            cases hgrow
            exact ⟨KW.refl _, index_in_range MINI_pos hoff hne⟩
        split
        · rename_i hnone
          have := g1.2
          rw [List.getElem?_eq_none_iff] at hnone
          omega
        · rename_i m hm
          dsimp only
          split
          · rename_i p2 hw
            exact ih p2 ids1 _ _ ((g1.1.trans (kw_miniWriteAt hw)) w) (next_off_le MINI_pos g1.2 (Nat.min_le_right _ _))
          · exact NP.err _
          · rename_i s hw
            exact absurd hw (np_miniWriteAt _ _ _ _ s)
          · exact NP.hang _
      · exact NP.err _
      · rename_i s hgrow
        split at hgrow
        · exact absurd hgrow (np_growOneMini p ids w s)
        · cases hgrow
      · exact NP.hang _

theorem fk_miniChainWrite (fuel : Nat) : ∀ {p p' : P} {ids ids' : List Nat} {off : Nat} {bs : Bytes},
    miniChainWrite fuel p ids off bs = .ok (p', ids') → FK p p' := by
  induction fuel with
  | zero => intro p p' ids ids' off bs h; simp [miniChainWrite] at h
  | succ fuel ih =>
    intro p p' ids ids' off bs h
    unfold miniChainWrite at h
    split at h
    · cases h; exact FK.refl _
    · split at h
      · rename_i p1 ids1 hgrow
        have g1 : FK p p1 := by
          split at hgrow
          · exact fk_growOneMini hgrow
          · cases hgrow; exact FK.refl _
        split at h
        · cases h
        · dsimp only at h
          split at h
          · rename_i p2 hw
            exact (g1.trans (fk_miniWriteAt hw)).trans (ih h)
          · cases h
          · cases h
          · cases h
      · cases h
      · cases h
      · cases h

theorem kw_miniChainWrite {fuel : Nat} {p p' : P} {ids ids' : List Nat} {off : Nat} {bs : Bytes}
    (h : miniChainWrite fuel p ids off bs = .ok (p', ids')) : KW p p' :=
  KW.mk (fk_miniChainWrite _ h) (gm_miniChainWrite _ h)

theorem np_miniChainRead : ∀ (fuel : Nat) (p : P) (ids : List Nat) (off n : Nat) (acc : Bytes), NP (miniChainRead fuel p ids off n acc) := by
  intro fuel
  induction fuel with
  | zero => intro p ids off n acc; unfold miniChainRead; exact NP.hang _
  | succ fuel ih =>
    intro p ids off n acc
    unfold miniChainRead
    split
    · exact NP.ok _
    · split
      · exact NP.err _
      · dsimp only
        split
        · split
          · exact ih _ _ _ _ _
          · exact NP.err _
          · rename_i s hr
            exact absurd hr (np_readSector _ _ _ _ s)
          · exact NP.hang _
        · exact NP.err _
        · rename_i s hl
          exact absurd hl (np_locateMini _ _ s)
        · exact NP.hang _

theorem np_miniChainGrow : ∀ (fuel : Nat) (p : P) (ids : List Nat) (target : Nat), WK p →
    NP (miniChainGrow fuel p ids target) := by
  intro fuel
  induction fuel with
  | zero => intro p ids target _; unfold miniChainGrow; exact NP.hang _
  | succ fuel ih =>
    intro p ids target w
    unfold miniChainGrow
    split
    · exact NP.ok _
    · split
      · rename_i p1 ids1 hg
        split
        · rename_i p2 hw
          exact ih _ _ _ ((kw_growOneMini hg).trans (kw_miniWriteAt hw) w)
        · exact NP.err _
        · rename_i s hw
          exact absurd hw (np_miniWriteAt _ _ _ _ s)
        · exact NP.hang _
      · exact NP.err _
      · rename_i s hg
        exact absurd hg (np_growOneMini p ids w s)
      · exact NP.hang _

theorem fk_miniChainGrow (fuel : Nat) : ∀ {p p' : P} {ids ids' : List Nat} {target : Nat},
    miniChainGrow fuel p ids target = .ok (p', ids') → FK p p' := by
  induction fuel with
  | zero => intro p p' ids ids' target h; simp [miniChainGrow] at h
  | succ fuel ih =>
    intro p p' ids ids' target h
    unfold miniChainGrow at h
    split at h
    · cases h; exact FK.refl _
    · split at h
      · rename_i p1 ids1 hg
        split at h
        · rename_i p2 hw
          exact ((fk_growOneMini hg).trans (fk_miniWriteAt hw)).trans (ih h)
        · cases h
        · cases h
        · cases h
      · cases h
      · cases h
      · cases h

theorem np_miniChainSetLen (p : P) (ids : List Nat) (n : Nat) (w : WK p) : NP (miniChainSetLen p ids n) := by
  unfold miniChainSetLen
  dsimp only
  generalize (MINI + n - 1) / MINI = k
  split
  · split
    · exact NP.obind (np_freeMiniChainFrom _ _) (fun _ _ => NP.ok _)
    · exact NP.ok _
  · split
    · split
      · split
        · exact NP.obind (np_freeMiniChainAfter _ _) (fun _ _ => NP.ok _)
        · rename_i h0 hle hlt hnone
          rw [List.getElem?_eq_none_iff] at hnone
          omega
      · exact NP.ok _
    · exact np_miniChainGrow _ _ _ _ w

theorem fk_miniChainSetLen {p p' : P} {ids ids' : List Nat} {n : Nat}
    (h : miniChainSetLen p ids n = .ok (p', ids')) : FK p p' := by
  unfold miniChainSetLen at h
  dsimp only at h
  split at h
  · split at h
    · obtain ⟨q, hf, h⟩ := obind_ok h
      cases h; exact fk_freeMiniChain _ hf
    · cases h; exact FK.refl _
  · split at h
    · split at h
      · split at h
        · obtain ⟨q, hf, h⟩ := obind_ok h
          cases h; exact fk_freeMiniChainAfter hf
        · cases h
      · cases h; exact FK.refl _
    · exact fk_miniChainGrow _ h

theorem kw_miniChainSetLen {p p' : P} {ids ids' : List Nat} {n : Nat}
    (h : miniChainSetLen p ids n = .ok (p', ids')) : KW p p' :=
  KW.mk (fk_miniChainSetLen h) (gm_miniChainSetLen h)

theorem kw_freeMiniChainFrom {p p' : P} {start : Nat} (h : freeMiniChainFrom p start = .ok p') : KW p p' :=
  KW.mk (fk_freeMiniChain _ h) (gm_freeMiniChain _ h)

theorem kw_chainWrite {kind : Init} {fuel : Nat} {p p' : P} {ids ids' : List Nat} {off : Nat} {bs : Bytes}
    (h : chainWrite kind fuel p ids off bs = .ok (p', ids')) : KW p p' :=
  KW.mk (fk_chainWrite _ _ h) (GoodM.of_same (sm_chainWrite _ _ h))

theorem kw_chainSetLen {p p' : P} {ids ids' : List Nat} {kind : Init} {n : Nat}
    (h : chainSetLen p ids kind n = .ok (p', ids')) : KW p p' :=
  KW.mk (fk_chainSetLen h) (GoodM.of_same (sm_chainSetLen h))

theorem kw_freeChainFrom {p p' : P} {start : Nat} (h : freeChainFrom p start = .ok p') : KW p p' :=
  KW.mk (fk_freeChain _ h) (GoodM.of_same (sm_freeChain _ h))

/-- a chain write ends inside the chain it returns -/
theorem chainWrite_covers (kind : Init) (fuel : Nat) : ∀ {p p' : P} {ids ids' : List Nat} {off : Nat} {bs : Bytes},
    chainWrite kind fuel p ids off bs = .ok (p', ids') → off ≤ ids.length * p.S →
    off + bs.length ≤ ids'.length * p.S ∧ p'.S = p.S := by
  induction fuel with
  | zero => intro p p' ids ids' off bs h; simp [chainWrite] at h
  | succ fuel ih =>
    intro p p' ids ids' off bs h hoff
    have hS : 0 < p.S := by rcases S_cases p with h | h <;> omega
    unfold chainWrite at h
    split at h
    · rename_i hemp
      cases h
      have : bs.length = 0 := by
        cases bs with
        | nil => rfl
        | cons a t => simp at hemp
      exact ⟨by omega, rfl⟩
    · dsimp only at h
      split at h
      · rename_i p1 ids1 hgrow
        have g1 : p1.S = p.S ∧ off / p.S < ids1.length := by
          split at hgrow
          · rename_i heq
            refine ⟨S_of_v4 (gs_growOne hgrow).v4, ?_⟩
            rw [growOne_len hgrow, heq, Nat.mul_div_cancel _ hS]
            exact Nat.lt_succ_self _
          · rename_i hne
            cases hgrow
            exact ⟨rfl, index_in_range hS hoff hne⟩
        split at h
        · cases h
        · split at h
          · rename_i p2 hw
            have hS2 : p2.S = p.S := by rw [writeSector_S hw, g1.1]
            have hn : min bs.length (p.S - off % p.S) ≤ p.S - off % p.S := Nat.min_le_right _ _
            have r := ih h (by rw [hS2]; exact next_off_le hS g1.2 hn)
            rw [hS2] at r
            refine ⟨?_, r.2⟩
            have hl : (bs.drop (min bs.length (p.S - off % p.S))).length = bs.length - min bs.length (p.S - off % p.S) := List.length_drop
            have hm : min bs.length (p.S - off % p.S) ≤ bs.length := Nat.min_le_left _ _
            have := r.1
            omega
          · cases h
          · cases h
          · cases h
      · cases h
      · cases h
      · cases h

/-! ## streams -/

theorem wk_setStart {p : P} (w : WK p) (s x : Nat) : WK (setStart p s x) := ⟨w.free, w.mini⟩
theorem wk_dropStart {p : P} (w : WK p) (s : Nat) : WK (dropStart p s) := ⟨w.free, w.mini⟩

/-- **`write_data_to_stream` never panics**, whatever the tables, the recorded length and the
arguments -/
theorem np_writeData (p : P) (slot oldLen off : Nat) (buf : Bytes) (w : WK p) : NP (writeData p slot oldLen off buf) := by
  unfold writeData
  dsimp only [bind, pure]
  split
  · split
    · exact NP.bad
    · split
      · refine NP.obind (np_miniChainWrite _ _ _ _ _ w (by simp)) ?_
        intro r _; obtain ⟨q, ids⟩ := r; exact NP.ok _
      · refine NP.obind (np_chainWrite _ _ _ _ _ _ w.free (by simp)) ?_
        intro r _; obtain ⟨q, ids⟩ := r; exact NP.ok _
  · split
    · split
      · refine NP.obind (np_miniChainIds _ _) ?_
        intro ids _
        split
        · exact NP.err _
        · rename_i hg
          refine NP.obind (np_miniChainWrite _ _ _ _ _ w (Nat.le_of_not_lt hg)) ?_
          intro r _; obtain ⟨q, ids'⟩ := r; exact NP.ok _
      · refine NP.obind (np_miniChainIds _ _) ?_
        intro ids _
        refine NP.obind (np_miniChainRead _ _ _ _ _ _) ?_
        intro tmp _
        refine NP.obind (np_freeMiniChainFrom _ _) ?_
        intro q1 hf
        have w1 := kw_freeMiniChainFrom hf w
        refine NP.obind (np_chainWrite _ _ _ _ _ _ w1.free (by simp)) ?_
        intro r hw1; obtain ⟨q2, ids1⟩ := r
        have w2 := kw_chainWrite hw1 w1
        have c := chainWrite_covers _ _ hw1 (by simp)
        refine NP.obind (np_chainWrite _ _ _ _ _ _ w2.free ?_) ?_
        · show tmp.length ≤ ids1.length * q2.S
          rw [c.2]; have := c.1; omega
        · intro r _; obtain ⟨q3, ids2⟩ := r; exact NP.ok _
    · refine NP.obind (np_chainIds _ _) ?_
      intro ids _
      split
      · exact NP.err _
      · rename_i hg
        refine NP.obind (np_chainWrite _ _ _ _ _ _ w.free (Nat.le_of_not_lt hg)) ?_
        intro r _; obtain ⟨q, ids'⟩ := r; exact NP.ok _

theorem kw_writeData {p p' : P} {slot oldLen off n : Nat} {buf : Bytes}
    (h : writeData p slot oldLen off buf = .ok (p', n)) : KW p p' := by
  intro w
  unfold writeData at h
  dsimp only [bind, pure] at h
  split at h
  · split at h
    · cases h
    · split at h
      · obtain ⟨⟨q, ids⟩, hw, h⟩ := obind_ok h
        cases h
        exact wk_setStart (kw_miniChainWrite hw w) _ _
      · obtain ⟨⟨q, ids⟩, hw, h⟩ := obind_ok h
        cases h
        exact wk_setStart (kw_chainWrite hw w) _ _
  · split at h
    · split at h
      · obtain ⟨ids, hi, h⟩ := obind_ok h
        split at h
        · cases h
        · obtain ⟨⟨q, ids'⟩, hw, h⟩ := obind_ok h
          cases h
          exact kw_miniChainWrite hw w
      · obtain ⟨ids, hi, h⟩ := obind_ok h
        obtain ⟨tmp, hr, h⟩ := obind_ok h
        obtain ⟨q1, hf, h⟩ := obind_ok h
        obtain ⟨⟨q2, ids1⟩, hw1, h⟩ := obind_ok h
        obtain ⟨⟨q3, ids2⟩, hw2, h⟩ := obind_ok h
        cases h
        exact wk_setStart (kw_chainWrite hw2 (kw_chainWrite hw1 (kw_freeMiniChainFrom hf w))) _ _
    · obtain ⟨ids, hi, h⟩ := obind_ok h
      split at h
      · cases h
      · obtain ⟨⟨q, ids'⟩, hw, h⟩ := obind_ok h
        cases h
        exact kw_chainWrite hw w

/-- **`resize_stream` never panics** -/
theorem np_resize (p : P) (slot oldLen newLen : Nat) (w : WK p) : NP (resize p slot oldLen newLen) := by
  unfold resize
  dsimp only [bind, pure]
  split
  · split
    · exact NP.bad
    · split
      · refine NP.obind (np_miniChainSetLen _ _ _ w) ?_
        intro r _; obtain ⟨q, ids⟩ := r; exact NP.ok _
      · refine NP.obind (np_chainSetLen _ _ _ _ w.free) ?_
        intro r _; obtain ⟨q, ids⟩ := r; exact NP.ok _
  · split
    · split
      · refine NP.obind (np_freeMiniChainFrom _ _) ?_
        intro q _; exact NP.ok _
      · split
        · refine NP.obind (np_miniChainIds _ _) ?_
          intro ids _
          refine NP.obind (np_miniChainSetLen _ _ _ w) ?_
          intro r hs; obtain ⟨q, ids'⟩ := r
          have w1 := kw_miniChainSetLen hs w
          dsimp only
          split
          · split
            · exact NP.err _
            · rename_i hg
              refine NP.obind (np_miniChainWrite _ _ _ _ _ w1 (Nat.le_of_not_lt hg)) ?_
              intro r _; obtain ⟨q2, _⟩ := r; exact NP.ok _
          · exact NP.ok _
        · refine NP.obind (np_miniChainIds _ _) ?_
          intro ids _
          refine NP.obind (np_miniChainRead _ _ _ _ _ _) ?_
          intro tmp _
          refine NP.obind (np_freeMiniChainFrom _ _) ?_
          intro q1 hf
          have w1 := kw_freeMiniChainFrom hf w
          refine NP.obind (np_chainWrite _ _ _ _ _ _ w1.free (by simp)) ?_
          intro r hw1; obtain ⟨q2, ids1⟩ := r
          have w2 := kw_chainWrite hw1 w1
          refine NP.obind (np_chainSetLen _ _ _ _ w2.free) ?_
          intro r _; obtain ⟨q3, ids2⟩ := r; exact NP.ok _
    · split
      · refine NP.obind (np_freeChainFrom _ _) ?_
        intro q _; exact NP.ok _
      · split
        · refine NP.obind (np_chainIds _ _) ?_
          intro ids _
          refine NP.obind (np_chainRead _ _ _ _ _ _) ?_
          intro tmp _
          refine NP.obind (np_freeChainFrom _ _) ?_
          intro q1 hf
          have w1 := kw_freeChainFrom hf w
          refine NP.obind (np_miniChainWrite _ _ _ _ _ w1 (by simp)) ?_
          intro r _; obtain ⟨q2, ids1⟩ := r; exact NP.ok _
        · refine NP.obind (np_chainIds _ _) ?_
          intro ids _
          refine NP.obind (np_chainSetLen _ _ _ _ w.free) ?_
          intro r hs; obtain ⟨q, ids'⟩ := r
          have w1 := kw_chainSetLen hs w
          dsimp only
          split
          · split
            · exact NP.err _
            · rename_i hg
              refine NP.obind (np_chainWrite _ _ _ _ _ _ w1.free (Nat.le_of_not_lt hg)) ?_
              intro r _; obtain ⟨q2, _⟩ := r; exact NP.ok _
          · exact NP.ok _

theorem fk_resize {p p' : P} {slot oldLen newLen : Nat} (h : resize p slot oldLen newLen = .ok p') : FK p p' := by
    intro wf
    unfold resize at h
    dsimp only [bind, pure] at h
    split at h
    · split at h
      · cases h
      · split at h
        · obtain ⟨⟨q, ids⟩, hs, h⟩ := obind_ok h
          cases h; have t := fk_miniChainSetLen hs wf; exact t
        · obtain ⟨⟨q, ids⟩, hs, h⟩ := obind_ok h
          cases h; have t := fk_chainSetLen hs wf; exact t
    · split at h
      · split at h
        · obtain ⟨q, hf, h⟩ := obind_ok h
          cases h; have t := fk_freeMiniChain _ hf wf; exact t
        · split at h
          · obtain ⟨ids, hi, h⟩ := obind_ok h
            obtain ⟨⟨q, ids'⟩, hs, h⟩ := obind_ok h
            dsimp only at h
            split at h
            · split at h
              · cases h
              · obtain ⟨⟨q2, x⟩, hw, h⟩ := obind_ok h
                cases h; have t := fk_miniChainWrite _ hw (fk_miniChainSetLen hs wf); exact t
            · cases h; have t := fk_miniChainSetLen hs wf; exact t
          · obtain ⟨ids, hi, h⟩ := obind_ok h
            obtain ⟨tmp, hr, h⟩ := obind_ok h
            obtain ⟨q1, hf, h⟩ := obind_ok h
            obtain ⟨⟨q2, ids1⟩, hw1, h⟩ := obind_ok h
            obtain ⟨⟨q3, ids2⟩, hs, h⟩ := obind_ok h
            cases h
            have t := fk_chainSetLen hs (fk_chainWrite _ _ hw1 (fk_freeMiniChain _ hf wf))
            exact t
      · split at h
        · obtain ⟨q, hf, h⟩ := obind_ok h
          cases h; have t := fk_freeChain _ hf wf; exact t
        · split at h
          · obtain ⟨ids, hi, h⟩ := obind_ok h
            obtain ⟨tmp, hr, h⟩ := obind_ok h
            obtain ⟨q1, hf, h⟩ := obind_ok h
            obtain ⟨⟨q2, ids1⟩, hw, h⟩ := obind_ok h
            cases h
            have t := fk_miniChainWrite _ hw (fk_freeChain _ hf wf)
            exact t
          · obtain ⟨ids, hi, h⟩ := obind_ok h
            obtain ⟨⟨q, ids'⟩, hs, h⟩ := obind_ok h
            dsimp only at h
            split at h
            · split at h
              · cases h
              · obtain ⟨⟨q2, x⟩, hw, h⟩ := obind_ok h
                cases h; have t := fk_chainWrite _ _ hw (fk_chainSetLen hs wf); exact t
            · cases h; have t := fk_chainSetLen hs wf; exact t

theorem kw_resize {p p' : P} {slot oldLen newLen : Nat} (h : resize p slot oldLen newLen = .ok p') : KW p p' :=
  fun w => ⟨fk_resize h w.free, gm_resize h w.mini⟩

theorem np_readData (p : P) (slot len off n : Nat) : NP (readData p slot len off n) := by
  unfold readData
  dsimp only [bind, pure]
  split
  · exact NP.ok _
  · split
    · refine NP.obind (np_miniChainIds _ _) ?_
      intro ids _
      split
      · exact NP.err _
      · exact np_miniChainRead _ _ _ _ _ _
    · refine NP.obind (np_chainIds _ _) ?_
      intro ids _
      split
      · exact NP.err _
      · exact np_chainRead _ _ _ _ _ _

/-- **`remove_stream`'s release of the chain never panics** -/
theorem np_freeStream (p : P) (slot len : Nat) : NP (freeStream p slot len) := by
  unfold freeStream
  dsimp only [bind, pure]
  split
  · exact NP.obind (np_freeMiniChainFrom _ _) (fun _ _ => NP.ok _)
  · exact NP.obind (np_freeChainFrom _ _) (fun _ _ => NP.ok _)

theorem kw_freeStream {p p' : P} {slot len : Nat} (h : freeStream p slot len = .ok p') : KW p p' := by
  intro w
  refine ⟨?_, gm_freeStream h w.mini⟩
  unfold freeStream at h
  dsimp only [bind, pure] at h
  split at h
  · obtain ⟨q, hf, h⟩ := obind_ok h
    cases h
    have t := fk_freeMiniChain _ hf w.free
    exact t
  · obtain ⟨q, hf, h⟩ := obind_ok h
    cases h
    have t := fk_freeChain _ hf w.free
    exact t

/-- **growing the directory chain never panics** -/
theorem np_ensureDirSlot (p : P) (slot : Nat) (w : WK p) : NP (ensureDirSlot p slot) := by
  unfold ensureDirSlot
  split
  · exact NP.ok _
  · split
    · cases he : extendChain p p.dirStart .dir with
      | ok r => exact NP.ok _
      | err k => exact NP.err _
      | hang m => exact NP.hang _
      | panic m => exact absurd he (np_extendChain p _ .dir w.free m)
    · exact NP.ok _

theorem kw_ensureDirSlot {p p' : P} {slot : Nat} (h : ensureDirSlot p slot = .ok p') : KW p p' := by
  intro w
  refine ⟨?_, gm_ensureDirSlot h w.mini⟩
  unfold ensureDirSlot at h
  split at h
  · cases h; exact w.free
  · split at h
    · split at h
      · rename_i he; cases h
        have t := fk_extendChain he w.free
        exact t
      · cases h
      · cases h
      · cases h
    · cases h; exact w.free

/-- **what `open` establishes**: the caches as `open` rebuilds them satisfy both range conditions,
whatever the tables are -/
theorem wk_reopen {p p' : P} (h : Phys.reopen p = .ok p') : WK p' := by
  unfold Phys.reopen at h
  obtain ⟨chain, hc, h⟩ := bind_ok h
  cases h
  exact ⟨fun i hi => (mem_indicesOf.mp hi).1, fun i hi => (mem_indicesOf.mp hi).1⟩

theorem np_reopen (p : P) : NP (Phys.reopen p) := by
  unfold Phys.reopen
  refine NP.bind (np_chainIds _ _) ?_
  intro chain _
  exact NP.ok _

/-! ## the store machine -/

/-- **every operation of the store machine, from any state with the two range conditions, returns a
value or an error — never a panic — and the conditions hold again afterwards** -/
theorem np_gstep (g : G) (op : GOp) (w : WK g.p) : NP (gstep g op) ∧ ∀ g', gstep g op = .ok g' → WK g'.p := by
  cases op with
  | ensure s =>
    refine ⟨NP.obind (np_ensureDirSlot _ _ w) (fun _ _ => NP.ok _), ?_⟩
    intro g' h
    obtain ⟨q, hq, h⟩ := obind_ok h; cases h; exact kw_ensureDirSlot hq w
  | create s =>
    refine ⟨?_, ?_⟩
    · simp only [gstep]; split
      · exact NP.ok _
      · exact NP.err _
    · intro g' h
      simp only [gstep] at h
      split at h
      · cases h; exact wk_setStart w _ _
      · cases h
  | write s off bs =>
    refine ⟨NP.obind (np_writeData _ _ _ _ _ w) (fun _ _ => NP.ok _), ?_⟩
    intro g' h
    obtain ⟨r, hq, h⟩ := obind_ok h; cases h; exact kw_writeData hq w
  | resize s n =>
    refine ⟨NP.obind (np_resize _ _ _ _ w) (fun _ _ => NP.ok _), ?_⟩
    intro g' h
    obtain ⟨q, hq, h⟩ := obind_ok h; cases h; exact kw_resize hq w
  | free s =>
    refine ⟨NP.obind (np_freeStream _ _ _) (fun _ _ => NP.ok _), ?_⟩
    intro g' h
    obtain ⟨q, hq, h⟩ := obind_ok h; cases h; exact kw_freeStream hq w
  | reopen =>
    refine ⟨NP.obind (np_reopen _) (fun _ _ => NP.ok _), ?_⟩
    intro g' h
    obtain ⟨q, hq, h⟩ := obind_ok h; cases h; exact wk_reopen hq

/-- … hence after any history (failed operations leave the state, as in `grun`) -/
theorem wk_grun (ops : List GOp) : ∀ g : G, WK g.p → WK (grun g ops).p := by
  induction ops with
  | nil => intro g w; exact w
  | cons op rest ih =>
    intro g w
    simp only [grun]
    split
    · rename_i g' h
      exact ih g' ((np_gstep g op w).2 g' h)
    · exact ih g w

/-- the two lists as `open` builds them — the FREE cells of the table it has just read, whatever that
table looks like — satisfy both range conditions -/
theorem wk_of_indices (p : P) (hf : p.free = indicesOf p.fat FREE) (hm : p.freeMini = indicesOf p.miniFat FREE) : WK p :=
  ⟨fun i hi => (mem_indicesOf.mp (hf ▸ hi)).1, fun i hi => (mem_indicesOf.mp (hm ▸ hi)).1⟩

end CfbVerif.Phys
