import CfbVerif.Phys.NoPanic
import CfbVerif.Phys.MiniLen
/-!
# No `hang` exit is reachable in the allocation level on well-formed tables

The loops of alloc.rs, chain.rs, minialloc.rs and minichain.rs have no bound of their own: the
model gives each a fuel argument and a `hang` exit.  This file proves that the fuel the model
supplies is always enough, i.e. that every such loop of the real code terminates:

* the byte loops (`Chain::write`/`read`, `MiniChain::write`/`read`) move at least one byte per
  round, the growth loops add one sector per round — no condition on the tables;
* `free_chain` / `free_mini_chain` turn one cell that is not FREE into FREE per round, so they
  stop after at most as many rounds as there are cells that are not FREE — no condition on the
  tables either (a cycle is left through the "already free" refusal);
* `extend_chain` / `extend_mini_chain` walk to the end of a chain: they terminate when they start
  at a sector whose cell is END (`growOne` on the last sector of a chain that was walked), or at the
  start of a chain that a preceding `open_chain` has just walked successfully.

`NH o` says that `o` is not a `hang`.
-/
namespace CfbVerif.Phys
open CfbVerif.Raw

/-- the outcome is not a hang -/
def NH {α : Type} (o : Outcome α) : Prop := ∀ s, o ≠ .hang s

theorem NH.ok {α : Type} (a : α) : NH (Outcome.ok a) := fun _ h => by cases h
theorem NH.err {α : Type} (k : Kind) : NH (Outcome.err k : Outcome α) := fun _ h => by cases h
theorem NH.panic {α : Type} (m : String) : NH (Outcome.panic m : Outcome α) := fun _ h => by cases h
theorem NH.bad {α : Type} : NH (bad : Outcome α) := fun _ h => by cases h

theorem NH.bind {α β : Type} {x : Outcome α} {f : α → Outcome β} (hx : NH x) (hf : ∀ a, x = .ok a → NH (f a)) :
    NH (x >>= f) := by
  cases x with
  | ok a => exact hf a rfl
  | err k => exact NH.err k
  | panic m => exact NH.panic m
  | hang m => exact absurd rfl (hx m)

theorem NH.obind {α β : Type} {x : Outcome α} {f : α → Outcome β} (hx : NH x) (hf : ∀ a, x = .ok a → NH (f a)) :
    NH (x.bind f) := NH.bind hx hf

theorem NH.liftE {α : Type} (x : E α) : NH (liftE x) := by
  cases x with
  | ok a => exact NH.ok a
  | error k => exact NH.err k

/-- re-wrapping an outcome constructor by constructor (the shape `match x with | .ok a => .ok (g a) | .err k => .err k | …`) -/
theorem NH.map {α β : Type} {x : Outcome α} (g : α → β) (hx : NH x) :
    NH (match x with | .ok a => Outcome.ok (g a) | .err k => .err k | .panic s => .panic s | .hang s => .hang s) := by
  cases x with
  | ok a => exact NH.ok _
  | err k => exact NH.err k
  | panic m => exact NH.panic m
  | hang m => exact absurd rfl (hx m)

/-! ## sectors and the FAT: no loops -/

theorem nh_setFat (p : P) (idx val : Nat) : NH (setFat p idx val) := by
  intro s; unfold setFat
  split
  · intro hc; cases hc
  · split
    · intro hc; cases hc
    · split <;> (intro hc; cases hc)

theorem nh_initSector (p : P) (id : Nat) (k : Init) : NH (initSector p id k) := by
  intro s; unfold initSector
  split
  · intro hc; cases hc
  · split <;> (intro hc; cases hc)

theorem nh_writeSector (p : P) (id off : Nat) (bs : Bytes) : NH (writeSector p id off bs) := by
  intro s; unfold writeSector
  split <;> (intro hc; cases hc)

theorem nh_readSector (p : P) (id off n : Nat) : NH (readSector p id off n) := by
  intro s; unfold readSector
  split <;> (intro hc; cases hc)

theorem nh_appendFatSector (p : P) : NH (appendFatSector p) := by
  unfold appendFatSector
  refine NH.bind (nh_initSector _ _ _) ?_
  intro p1 _
  refine NH.bind (nh_setFat _ _ _) ?_
  intro p2 _
  split
  · exact NH.ok _
  · dsimp only
    split
    · refine NH.bind (nh_initSector _ _ _) ?_
      intro p3 _
      refine NH.bind (nh_setFat _ _ _) ?_
      intro p4 _
      exact NH.ok _
    · exact NH.ok _

theorem nh_allocateSector (p : P) (k : Init) : NH (allocateSector p k) := by
  unfold allocateSector
  split
  · refine NH.bind (nh_setFat _ _ _) ?_
    intro p1 _
    refine NH.bind (nh_initSector _ _ _) ?_
    intro p2 _
    exact NH.ok _
  · split
    · refine NH.bind (nh_appendFatSector p) ?_
      intro p1 _
      refine NH.bind (nh_setFat _ _ _) ?_
      intro p2 _
      refine NH.bind (nh_initSector _ _ _) ?_
      intro p3 _
      exact NH.ok _
    · refine NH.bind (NH.ok p) ?_
      intro p1 _
      refine NH.bind (nh_setFat _ _ _) ?_
      intro p2 _
      refine NH.bind (nh_initSector _ _ _) ?_
      intro p3 _
      exact NH.ok _

/-! ## `extend_chain`: the walk to the end -/

/-- started on a sector whose cell is END the walk is over at once -/
theorem lastOfChain_at_end {fat : Array Nat} {cur : Nat} (n : Nat) (h : nextSector fat cur = .ok END) :
    lastOfChain fat (n + 1) cur = .ok cur := by
  unfold lastOfChain
  simp [h]

/-- a chain that `open_chain` walked is walked by `extend_chain` as well -/
theorem lastOfChain_of_walk (fat : Array Nat) (first : Nat) (fuel : Nat) :
    ∀ (cur : Nat) (acc ids : List Nat), cur ≠ END →
      chainLoop fat first fuel cur acc = .ok ids → ∃ last, lastOfChain fat fuel cur = .ok last := by
  induction fuel with
  | zero => intro cur acc ids _ h; simp [chainLoop] at h
  | succ fuel ih =>
    intro cur acc ids hne h
    unfold chainLoop at h
    rw [if_neg hne] at h
    unfold lastOfChain
    cases hn : nextSector fat cur with
    | error k => simp [hn] at h
    | ok next =>
      simp only [hn] at h ⊢
      by_cases he : next = END
      · exact ⟨cur, by rw [if_pos he]⟩
      · rw [if_neg he]
        split at h
        · cases h
        · exact ih next _ ids he h

theorem nh_extendChain_of_last {p : P} {last : Nat} (kind : Init) (h : nextSector p.fat last = .ok END) :
    NH (extendChain p last kind) := by
  unfold extendChain
  rw [lastOfChain_at_end _ h]
  refine NH.bind (NH.ok _) ?_
  intro l _
  refine NH.bind (nh_allocateSector _ _) ?_
  intro r _
  refine NH.bind (nh_setFat _ _ _) ?_
  intro q _
  exact NH.ok _

theorem nh_extendChain_of_walk {p : P} {start : Nat} {ids : List Nat} (kind : Init) (hs : start ≠ END)
    (hw : chainIds p start = .ok ids) : NH (extendChain p start kind) := by
  unfold extendChain
  obtain ⟨last, hl⟩ := lastOfChain_of_walk p.fat start (p.fat.size + 1) start [] ids hs hw
  rw [hl]
  refine NH.bind (NH.ok _) ?_
  intro l _
  refine NH.bind (nh_allocateSector _ _) ?_
  intro r _
  refine NH.bind (nh_setFat _ _ _) ?_
  intro q _
  exact NH.ok _

/-! ## `growOne` on the last sector of a chain -/

theorem nextSector_of_end {fat : Array Nat} {i : Nat} (h : fat[i]? = some END) : nextSector fat i = .ok END := by
  have hlt : i < fat.size := lt_of_get h
  unfold nextSector
  rw [dif_pos hlt]
  have : fat[i] = END := by simpa [hlt] using h
  simp [this]

/-- `append_fat_sector` only pushes cells, and leaves the free list alone -/
theorem appendFatSector_frame {p p' : P} (h0 : appendFatSector p = .ok p') :
    p'.free = p.free ∧ ∀ j, j < p.fat.size → p'.fat[j]? = p.fat[j]? := by
  unfold appendFatSector at h0
  obtain ⟨q1, g1, h0⟩ := bind_ok h0
  obtain ⟨q2, g2, h0⟩ := bind_ok h0
  have e1 : q1.fat = p.fat := initSector_fat g1
  have a1 : q1.free = p.free := by
    rcases initSector_ok g1 with ⟨_, he⟩ | ⟨_, he⟩ <;> subst he <;> rfl
  have a2 : q2.free = q1.free := by
    rcases setFat_ok g2 with ⟨_, he⟩ | ⟨_, he⟩ <;> subst he <;> rfl
  have e2 : q2.fat = p.fat.push FATSECT := by
    rcases setFat_ok g2 with ⟨_, he⟩ | ⟨hl, _⟩
    · subst he; simp [e1]
    · simp [e1] at hl
  split at h0
  · cases h0
    refine ⟨by rw [a2, a1], ?_⟩
    intro j hj; rw [e2]; simp only [Array.getElem?_push]; rw [if_neg (by omega)]
  · dsimp only at h0
    split at h0
    · obtain ⟨q3, g3, h0⟩ := bind_ok h0
      obtain ⟨q4, g4, h0⟩ := bind_ok h0
      cases h0
      have e3 : q3.fat = q2.fat := initSector_fat g3
      have a3 : q3.free = q2.free := by
        rcases initSector_ok g3 with ⟨_, he⟩ | ⟨_, he⟩ <;> subst he <;> rfl
      have a4 : q4.free = q3.free := by
        rcases setFat_ok g4 with ⟨_, he⟩ | ⟨_, he⟩ <;> subst he <;> rfl
      refine ⟨by show q4.free = p.free; rw [a4, a3, a2, a1], ?_⟩
      intro j hj
      show q4.fat[j]? = p.fat[j]?
      rcases setFat_ok g4 with ⟨_, he⟩ | ⟨hl, _⟩
      · subst he; simp only [e3, e2]
        simp only [Array.getElem?_push]
        rw [if_neg (by simp; omega), if_neg (by omega)]
      · rw [e3, e2] at hl; simp at hl
    · cases h0
      refine ⟨by rw [a2, a1], ?_⟩
      intro j hj; rw [e2]; simp only [Array.getElem?_push]; rw [if_neg (by omega)]

/-- what `allocate_sector` does to the FAT and the free list, with no assumption on the tables:
the sector handed out is the last entry of the free list (which loses it), or — the list being
empty — a new cell at or beyond the old end of the FAT; its cell is END afterwards when it lies
inside the table, every other old cell is as before -/
theorem allocateSector_raw {p p' : P} {id : Nat} {k : Init} (h : allocateSector p k = .ok (p', id)) :
    ((p.free.getLast? = some id ∧ p'.free = p.free.dropLast) ∨ (p.free = [] ∧ p'.free = [] ∧ p.fat.size ≤ id)) ∧
    (id ≤ p.fat.size ∨ p.free = []) ∧
    p'.fat[id]? = some END ∧
    (∀ j, j < p.fat.size → j ≠ id → p'.fat[j]? = p.fat[j]?) ∧ p.fat.size ≤ p'.fat.size := by
  unfold allocateSector at h
  split at h
  · rename_i lid hl
    obtain ⟨p1, h1, h⟩ := bind_ok h
    obtain ⟨p2, h2, h⟩ := bind_ok h
    have e2 : p2.fat = p1.fat := initSector_fat h2
    have f2 : p2.free = p1.free := by
      rcases initSector_ok h2 with ⟨_, he⟩ | ⟨_, he⟩ <;> subst he <;> rfl
    cases h
    rcases setFat_ok h1 with ⟨hi, he⟩ | ⟨hi, he⟩
    · subst he
      refine ⟨Or.inl ⟨hl, by rw [f2]⟩, Or.inl (Nat.le_of_eq hi), ?_, ?_, ?_⟩
      · rw [e2]; show (p.fat.push END)[id]? = some END
        rw [hi]; simp
      · intro j hj _; rw [e2]; show (p.fat.push END)[j]? = p.fat[j]?
        simp only [Array.getElem?_push]; rw [if_neg (by omega)]
      · rw [e2]; show p.fat.size ≤ (p.fat.push END).size; simp
    · subst he
      refine ⟨Or.inl ⟨hl, by rw [f2]⟩, Or.inl (Nat.le_of_lt hi), ?_, ?_, ?_⟩
      · rw [e2]; show (p.fat.setIfInBounds id END)[id]? = some END
        simp [hi]
      · intro j hj hne; rw [e2]; show (p.fat.setIfInBounds id END)[j]? = p.fat[j]?
        simp only [Array.getElem?_setIfInBounds]; rw [if_neg (fun e => hne e.symm)]
      · rw [e2]; show p.fat.size ≤ (p.fat.setIfInBounds id END).size; simp
  · rename_i hnone
    have hfree : p.free = [] := List.getLast?_eq_none_iff.mp hnone
    have tail : ∀ {p0 : P}, p0.free = [] → p.fat.size ≤ p0.fat.size → (∀ j, j < p.fat.size → p0.fat[j]? = p.fat[j]?) →
        (setFat p0 p0.fat.size END >>= fun p1 => initSector p1 p0.fat.size k >>= fun p2 => pure (p2, p0.fat.size)) = .ok (p', id) →
        ((p.free.getLast? = some id ∧ p'.free = p.free.dropLast) ∨ (p.free = [] ∧ p'.free = [] ∧ p.fat.size ≤ id)) ∧
        (id ≤ p.fat.size ∨ p.free = []) ∧
        p'.fat[id]? = some END ∧
        (∀ j, j < p.fat.size → j ≠ id → p'.fat[j]? = p.fat[j]?) ∧ p.fat.size ≤ p'.fat.size := by
      intro p0 hf0 hge hsame h
      obtain ⟨p1, h1, h⟩ := bind_ok h
      obtain ⟨p2, h2, h⟩ := bind_ok h
      have e2 : p2.fat = p1.fat := initSector_fat h2
      have f2 : p2.free = p1.free := by
        rcases initSector_ok h2 with ⟨_, he⟩ | ⟨_, he⟩ <;> subst he <;> rfl
      cases h
      rcases setFat_ok h1 with ⟨_, he⟩ | ⟨hl, _⟩
      · subst he
        refine ⟨Or.inr ⟨hfree, by rw [f2]; exact hf0, hge⟩, Or.inr hfree, ?_, ?_, ?_⟩
        · rw [e2]; show (p0.fat.push END)[p0.fat.size]? = some END; simp
        · intro j hj _; rw [e2]; show (p0.fat.push END)[j]? = p.fat[j]?
          simp only [Array.getElem?_push]; rw [if_neg (by omega)]; exact hsame j hj
        · rw [e2]; show p.fat.size ≤ (p0.fat.push END).size; simp; omega
      · omega
    split at h
    · obtain ⟨p0, h0, h⟩ := bind_ok h
      have fr := appendFatSector_frame h0
      have hf0 : p0.free = [] := by rw [fr.1]; exact hfree
      refine tail hf0 (appendFatSector_size h0) ?_ h
      exact fr.2
    · obtain ⟨p0, h0, h⟩ := bind_ok h
      cases h0
      exact tail hfree (Nat.le_refl _) (fun _ _ => rfl) h

/-- what the growth of a chain given by its sector list needs: the free list has no duplicates and
lies inside the FAT, and the chain's last sector is not in it and has END in its cell -/
structure TailOK (p : P) (ids : List Nat) : Prop where
  nodup : p.free.Nodup
  range : FreeIn p
  last : ∀ l, ids.getLast? = some l → l ∉ p.free ∧ p.fat[l]? = some END

theorem TailOK.nil {p : P} (hn : p.free.Nodup) (hr : FreeIn p) : TailOK p [] :=
  ⟨hn, hr, fun l h => by simp at h⟩

/-- nothing but the sector contents changed -/
theorem TailOK.same {p q : P} {ids : List Nat} (t : TailOK p ids) (hf : q.fat = p.fat) (hfr : q.free = p.free) :
    TailOK q ids :=
  ⟨by rw [hfr]; exact t.nodup, by intro i hi; rw [hf]; exact t.range i (hfr ▸ hi), by rw [hf, hfr]; exact t.last⟩

theorem tail_growOne {kind : Init} {p : P} {ids : List Nat} (t : TailOK p ids) :
    NH (growOne kind p ids) ∧ ∀ p' ids', growOne kind p ids = .ok (p', ids') → TailOK p' ids' := by
  unfold growOne
  split
  · rename_i last hl
    obtain ⟨hnf, hend⟩ := t.last last hl
    have hlt : last < p.fat.size := lt_of_get hend
    have hnh := nh_extendChain_of_last (p := p) kind (nextSector_of_end hend)
    constructor
    · intro s hs
      split at hs
      · cases hs
      · cases hs
      · cases hs
      · rename_i s' heq; exact hnh s' heq
    · intro p' ids' h
      split at h
      · rename_i q id hx
        cases h
        unfold extendChain at hx
        rw [lastOfChain_at_end _ (nextSector_of_end hend)] at hx
        obtain ⟨l0, hl0, hx⟩ := bind_ok hx
        cases hl0
        obtain ⟨⟨p1, id1⟩, ha, hx⟩ := bind_ok hx
        obtain ⟨p2, hs, hx⟩ := bind_ok hx
        cases hx
        obtain ⟨hcase, _, hidend, hframe, hmono⟩ := allocateSector_raw ha
        have hne : last ≠ id := by
          intro e; subst e
          rcases hcase with ⟨hg, _⟩ | ⟨_, _, hge⟩
          · exact hnf (List.mem_of_getLast? hg)
          · omega
        have hl1 : last < p1.fat.size := Nat.lt_of_lt_of_le hlt hmono
        have e2 : p'.fat = p1.fat.setIfInBounds last id ∧ p'.free = p1.free := by
          rcases setFat_ok hs with ⟨hi, _⟩ | ⟨_, he⟩
          · omega
          · subst he; exact ⟨rfl, rfl⟩
        have hfr1 : p1.free.Nodup ∧ id ∉ p1.free ∧ (∀ i ∈ p1.free, i ∈ p.free) := by
          rcases hcase with ⟨hg, hd⟩ | ⟨_, hd, _⟩
          · rw [hd]
            exact ⟨t.nodup.sublist (List.dropLast_sublist _), getLast_not_mem_dropLast t.nodup hg,
              fun i hi => List.dropLast_subset _ hi⟩
          · rw [hd]; exact ⟨List.nodup_nil, by simp, by intro i hi; cases hi⟩
        have hidlt : id < p1.fat.size := lt_of_get hidend
        refine ⟨by rw [e2.2]; exact hfr1.1, ?_, ?_⟩
        · intro i hi
          rw [e2.2] at hi
          rw [e2.1]; simp only [Array.size_setIfInBounds]
          exact Nat.lt_of_lt_of_le (t.range i (hfr1.2.2 i hi)) hmono
        · intro l hl'
          simp at hl'
          subst hl'
          refine ⟨by rw [e2.2]; exact hfr1.2.1, ?_⟩
          rw [e2.1]
          simp only [Array.getElem?_setIfInBounds]
          rw [if_neg hne]
          exact hidend
      · cases h
      · cases h
      · cases h
  · rename_i hnone
    have hnil : ids = [] := List.getLast?_eq_none_iff.mp hnone
    constructor
    · intro s hs
      split at hs
      · cases hs
      · cases hs
      · cases hs
      · rename_i s' heq; exact nh_allocateSector p kind s' heq
    · intro p' ids' h
      split at h
      · rename_i q id ha
        cases h
        obtain ⟨hcase, _, hidend, hframe, hmono⟩ := allocateSector_raw ha
        have hfr1 : p'.free.Nodup ∧ id ∉ p'.free ∧ (∀ i ∈ p'.free, i ∈ p.free) := by
          rcases hcase with ⟨hg, hd⟩ | ⟨_, hd, _⟩
          · rw [hd]
            exact ⟨t.nodup.sublist (List.dropLast_sublist _), getLast_not_mem_dropLast t.nodup hg,
              fun i hi => List.dropLast_subset _ hi⟩
          · rw [hd]; exact ⟨List.nodup_nil, by simp, by intro i hi; cases hi⟩
        refine ⟨hfr1.1, ?_, ?_⟩
        · intro i hi
          exact Nat.lt_of_lt_of_le (t.range i (hfr1.2.2 i hi)) hmono
        · intro l hl'
          rw [hnil] at hl'
          simp at hl'
          subst hl'
          exact ⟨hfr1.2.1, hidend⟩
      · cases h
      · cases h
      · cases h

theorem tail_writeSector {p p' : P} {ids : List Nat} {id off : Nat} {bs : Bytes} (t : TailOK p ids)
    (h : writeSector p id off bs = .ok p') : TailOK p' ids ∧ p'.v4 = p.v4 := by
  unfold writeSector at h
  split at h
  · cases h
  · cases h; exact ⟨t.same rfl rfl, rfl⟩

theorem growOne_S {kind : Init} {p p' : P} {ids ids' : List Nat} (h : growOne kind p ids = .ok (p', ids')) :
    p'.S = p.S := by
  have hv : p'.v4 = p.v4 := by
    unfold growOne at h
    split at h
    · split at h
      · rename_i q id hx; cases h; exact extendChain_v4 hx
      · cases h
      · cases h
      · cases h
    · split at h
      · rename_i q id hx; cases h; exact allocateSector_v4 hx
      · cases h
      · cases h
      · cases h
  unfold P.S; rw [hv]

/-! ## the byte loops: one byte or more per round -/

/-- `Chain::write` under `write_all` terminates: every round writes at least one byte -/
theorem tail_chainWrite (kind : Init) : ∀ (fuel : Nat) (p : P) (ids : List Nat) (off : Nat) (bs : Bytes),
    TailOK p ids → bs.length < fuel →
    NH (chainWrite kind fuel p ids off bs) ∧
    ∀ p' ids', chainWrite kind fuel p ids off bs = .ok (p', ids') → TailOK p' ids' := by
  intro fuel
  induction fuel with
  | zero => intro p ids off bs _ hf; omega
  | succ fuel ih =>
    intro p ids off bs t hf
    unfold chainWrite
    by_cases hb : bs.isEmpty = true
    · simp only [hb, if_true]
      exact ⟨NH.ok _, by intro p' ids' h; cases h; exact t⟩
    · simp only [hb]
      have hbl : 0 < bs.length := by
        cases bs with
        | nil => simp at hb
        | cons a r => simp
      -- the state after the optional growth
      have grow : NH (if off = ids.length * p.S then growOne kind p ids else .ok (p, ids)) ∧
          ∀ p1 ids1, (if off = ids.length * p.S then growOne kind p ids else .ok (p, ids)) = .ok (p1, ids1) →
            TailOK p1 ids1 ∧ p1.S = p.S := by
        split
        · exact ⟨(tail_growOne t).1, fun p1 ids1 h => ⟨(tail_growOne t).2 p1 ids1 h, growOne_S h⟩⟩
        · exact ⟨NH.ok _, by intro p1 ids1 h; cases h; exact ⟨t, rfl⟩⟩
      generalize (if off = ids.length * p.S then growOne kind p ids else Outcome.ok (p, ids)) = g at grow ⊢
      cases g with
      | err k => exact ⟨NH.err k, by intro _ _ h; cases h⟩
      | panic m => exact ⟨NH.panic m, by intro _ _ h; cases h⟩
      | hang m => exact absurd rfl (grow.1 m)
      | ok r =>
        obtain ⟨p1, ids1⟩ := r
        obtain ⟨t1, hS⟩ := grow.2 p1 ids1 rfl
        dsimp only
        cases hid : ids1[off / p.S]? with
        | none => exact ⟨NH.panic _, by intro _ _ h; cases h⟩
        | some id =>
          dsimp only
          cases hw : writeSector p1 id (off % p.S) (List.take (min bs.length (p.S - off % p.S)) bs) with
          | err k => exact ⟨NH.err k, by intro _ _ h; cases h⟩
          | panic m => exact ⟨NH.panic m, by intro _ _ h; cases h⟩
          | hang m => exact absurd hw (nh_writeSector _ _ _ _ m)
          | ok p2 =>
            dsimp only
            obtain ⟨t2, hv⟩ := tail_writeSector t1 hw
            have hn : 1 ≤ min bs.length (p.S - off % p.S) := by
              have := Nat.mod_lt off (S_pos p); omega
            refine ih p2 ids1 _ _ t2 ?_
            simp only [List.length_drop]; omega

/-- `read_exact` from a chain terminates -/
theorem nh_chainRead : ∀ (fuel : Nat) (p : P) (ids : List Nat) (off n : Nat) (acc : Bytes), n < fuel →
    NH (chainRead fuel p ids off n acc) := by
  intro fuel
  induction fuel with
  | zero => intro p ids off n acc hf; omega
  | succ fuel ih =>
    intro p ids off n acc hf
    unfold chainRead
    by_cases hn : n = 0
    · simp only [hn, if_true]; exact NH.ok _
    · simp only [hn, if_false]
      intro s hs
      split at hs
      · cases hs
      · split at hs
        · have hk : 1 ≤ min n (p.S - off % p.S) := by
            have := Nat.mod_lt off (S_pos p); omega
          exact ih p ids _ _ _ (by omega) s hs
        · cases hs
        · cases hs
        · rename_i s' hr; exact nh_readSector _ _ _ _ s' hr

/-- the growing branch of `Chain::set_len` terminates: one sector per round -/
theorem tail_chainGrow (kind : Init) : ∀ (fuel : Nat) (p : P) (ids : List Nat) (target : Nat),
    TailOK p ids → target - ids.length < fuel →
    NH (chainGrow kind fuel p ids target) ∧
    ∀ p' ids', chainGrow kind fuel p ids target = .ok (p', ids') → TailOK p' ids' := by
  intro fuel
  induction fuel with
  | zero => intro p ids target _ hf; omega
  | succ fuel ih =>
    intro p ids target t hf
    unfold chainGrow
    by_cases hge : ids.length ≥ target
    · simp only [hge, if_true]
      exact ⟨NH.ok _, by intro p' ids' h; cases h; exact t⟩
    · simp only [hge, if_false]
      have g := tail_growOne (kind := kind) t
      constructor
      · intro s hs
        split at hs
        · rename_i p1 ids1 hg
          have hl := growOne_len hg
          exact (ih p1 ids1 target (g.2 p1 ids1 hg) (by omega)).1 s hs
        · cases hs
        · cases hs
        · rename_i s' hg; exact g.1 s' hg
      · intro p' ids' h
        split at h
        · rename_i p1 ids1 hg
          have hl := growOne_len hg
          exact (ih p1 ids1 target (g.2 p1 ids1 hg) (by omega)).2 p' ids' h
        · cases h
        · cases h
        · cases h

/-! ## the freeing loops: one cell that is not FREE becomes FREE per round -/

/-- cells of a table that are not FREE -/
def usedCells (t : Array Nat) : Nat := t.toList.countP (· != FREE)

theorem usedCells_le (t : Array Nat) : usedCells t ≤ t.size := by
  unfold usedCells
  have := List.countP_le_length (p := (· != FREE)) (l := t.toList)
  simpa using this

theorem countP_set_free : ∀ (l : List Nat) (i : Nat) (c : Nat), l[i]? = some c → c ≠ FREE →
    (l.set i FREE).countP (· != FREE) + 1 = l.countP (· != FREE) := by
  intro l
  induction l with
  | nil => intro i c h; simp at h
  | cons a t ih =>
    intro i c h hc
    cases i with
    | zero =>
      simp at h
      subst h
      simp [hc]
    | succ i =>
      simp at h
      have := ih i c h hc
      simp only [List.set_cons_succ, List.countP_cons]
      omega

theorem usedCells_set_free {t : Array Nat} {i c : Nat} (h : t[i]? = some c) (hc : c ≠ FREE) :
    usedCells (t.setIfInBounds i FREE) + 1 = usedCells t := by
  unfold usedCells
  rw [Array.toList_setIfInBounds]
  exact countP_set_free t.toList i c (by simpa using h) hc

/-- `free_chain` terminates whatever the FAT looks like: fuel beyond the number of cells that are
not FREE is never used up -/
theorem nh_freeChain : ∀ (fuel : Nat) (p : P) (cur : Nat), usedCells p.fat < fuel → NH (freeChain p fuel cur) := by
  intro fuel
  induction fuel with
  | zero => intro p cur hf; omega
  | succ fuel ih =>
    intro p cur hf
    unfold freeChain
    by_cases hc : cur = END
    · simp only [hc, if_true]; exact NH.ok _
    · simp only [hc, if_false]
      cases hn : nextSector p.fat cur with
      | error k => exact NH.err k
      | ok next =>
        dsimp only
        have hno := nextSector_ok hn
        by_cases hfree : p.fat[cur]? = some FREE
        · simp only [hfree, if_true]; exact NH.err _
        · simp only [hfree, if_false]
          cases hs : setFat p cur FREE with
          | err k => exact NH.err k
          | panic m => exact NH.panic m
          | hang m => exact absurd hs (nh_setFat _ _ _ m)
          | ok p' =>
            dsimp only
            have e : p'.fat = p.fat.setIfInBounds cur FREE := by
              rcases setFat_ok hs with ⟨hi, _⟩ | ⟨_, he⟩
              · omega
              · subst he; rfl
            refine ih _ next ?_
            show usedCells p'.fat < fuel
            have hcell : ∃ c, p.fat[cur]? = some c ∧ c ≠ FREE := by
              refine ⟨next, hno.2.1, hno.2.2⟩
            obtain ⟨c, h1, h2⟩ := hcell
            have := usedCells_set_free h1 h2
            rw [e]; omega

theorem nh_freeChainFrom (p : P) (start : Nat) : NH (freeChainFrom p start) := by
  unfold freeChainFrom
  exact nh_freeChain _ p start (by have := usedCells_le p.fat; omega)

theorem nh_freeChainAfter (p : P) (id : Nat) : NH (freeChainAfter p id) := by
  unfold freeChainAfter
  cases hn : nextSector p.fat id with
  | error k => exact NH.err k
  | ok next =>
    dsimp only
    refine NH.bind (nh_setFat _ _ _) ?_
    intro q _
    exact nh_freeChainFrom q next

/-- `Chain::set_len` terminates -/
theorem nh_chainSetLen {p : P} {ids : List Nat} (kind : Init) (newLen : Nat) (t : TailOK p ids) :
    NH (chainSetLen p ids kind newLen) := by
  unfold chainSetLen
  dsimp only
  split
  · split
    · exact NH.obind (nh_freeChainFrom _ _) (fun _ _ => NH.ok _)
    · exact NH.ok _
  · split
    · split
      · split
        · exact NH.obind (nh_freeChainAfter _ _) (fun _ _ => NH.ok _)
        · exact NH.panic _
      · exact NH.ok _
    · exact (tail_chainGrow kind _ p ids _ t (by omega)).1

end CfbVerif.Phys
