import CfbVerif.Phys.OpenBack
import CfbVerif.Raw.Read
/-!
# Lookups on the reopened file are the directory model's lookups

`Raw.findChild` / `Raw.lookup` (the reader model's `stream_id_for_name_chain`: one search-tree
descent per name over the index-linked table) run on a table that represents a directory tree
(`DfsOk`) return the slot of the entry the directory model's `Tree.find?` / `resolve` find — and
nothing when those find nothing.  With `open_reads_back_dir` this says: every path resolves in the
reopened file to the slot it has in the live object (`C02_lookup_after_reopen` in `Props/C02.lean`).
-/
namespace CfbVerif.Phys
open CfbVerif.Raw CfbVerif.Dir CfbVerif.Names

/-- the descent through one sibling tree -/
theorem findChild_tree (r : RawState) (strict : Bool) (name : Name) (t : Tree) :
    DfsOk r.dir strict t → ∀ fuel, t.size + 1 ≤ fuel →
    findChild r name fuel (lnk t) = .ok ((t.find? name).map (fun x => x.1.slot)) := by
  induction t with
  | leaf =>
    intro _ fuel hf
    obtain ⟨f, rfl⟩ : ∃ f, fuel = f + 1 := ⟨fuel - 1, by simp [Tree.size] at hf; omega⟩
    simp [findChild, lnk, Tree.find?]
  | node l e k rr ihl _ ihr =>
    intro ok fuel hf
    obtain ⟨okl, _, okr, _, hne, ⟨d, hd, hname, _, _, hleft, hright, _⟩, _, _⟩ := ok
    simp only [Tree.size] at hf
    obtain ⟨f, rfl⟩ : ∃ f, fuel = f + 1 := ⟨fuel - 1, by omega⟩
    have hne' : ¬ (lnk (Tree.node l e k rr) = NOSTREAM) := hne
    rw [findChild, if_neg hne']
    simp only [lnk]
    rw [hd]
    simp only [hname, Tree.find?]
    show (match cmp name e.name with
      | .eq => Outcome.ok (some e.slot)
      | .lt => findChild r name f d.left
      | .gt => findChild r name f d.right) = _
    cases hc : cmp name e.name with
    | eq => simp
    | lt => simp only; rw [hleft]; exact ihl okl f (by omega)
    | gt => simp only; rw [hright]; exact ihr okr f (by omega)

/-- what a successful descent finds is again represented -/
theorem find?_dfsOk (T : Array DirEntry) (strict : Bool) (name : Name) (t : Tree) :
    DfsOk T strict t → ∀ e k, t.find? name = some (e, k) →
    DfsOk T strict k ∧ k.size < t.size ∧ ∃ d, T[e.slot]? = some d ∧ d.child = lnk k := by
  induction t with
  | leaf => intro _ e k h; simp [Tree.find?] at h
  | node l e0 k0 rr ihl _ ihr =>
    intro ok e k h
    obtain ⟨okl, okk, okr, _, _, ⟨d, hd, _, _, _, _, _, hchild⟩, _, _⟩ := ok
    simp only [Tree.find?] at h
    simp only [Tree.size]
    cases hc : cmp name e0.name with
    | eq =>
      rw [hc] at h
      simp only [Option.some.injEq, Prod.mk.injEq] at h
      obtain ⟨rfl, rfl⟩ := h
      exact ⟨okk, by omega, d, hd, hchild⟩
    | lt =>
      rw [hc] at h
      obtain ⟨a, b, c⟩ := ihl okl e k h
      exact ⟨a, by omega, c⟩
    | gt =>
      rw [hc] at h
      obtain ⟨a, b, c⟩ := ihr okr e k h
      exact ⟨a, by omega, c⟩

/-- the slot a name chain resolves to, starting below the entry in slot `id` -/
def resolveSlot : Tree → List Name → Nat → Option Nat
  | _, [], id => some id
  | t, n :: ns, _ => match t.find? n with
    | none => none
    | some (e, k) => resolveSlot k ns e.slot

def slotOfRes : Res → Nat
  | .root => 0
  | .ent e _ => e.slot

theorem resolve_slot (names : List Name) : ∀ (t : Tree), (resolve t names).map slotOfRes = resolveSlot t names 0 := by
  induction names with
  | nil => intro t; rfl
  | cons n ns ih =>
    intro t
    cases ns with
    | nil =>
      simp only [resolve, resolveSlot]
      cases t.find? n with
      | none => rfl
      | some x => obtain ⟨e, k⟩ := x; rfl
    | cons m ms =>
      have e1 : resolve t (n :: m :: ms) = (match t.find? n with | none => none | some (_, k) => resolve k (m :: ms)) := rfl
      have e2 : resolveSlot t (n :: m :: ms) 0 =
          (match t.find? n with | none => none | some (e, k) => resolveSlot k (m :: ms) e.slot) := rfl
      rw [e1, e2]
      cases t.find? n with
      | none => rfl
      | some x =>
        obtain ⟨e, k⟩ := x
        -- below a found entry the chain is not empty, so the starting slot does not matter
        exact (ih k).trans rfl

/-- **path resolution over the table = path resolution in the tree** -/
theorem lookup_tree (r : RawState) (strict : Bool) (names : List Name) :
    ∀ (t : Tree) (id : Nat) (d : DirEntry), DfsOk r.dir strict t → t.size + 1 ≤ r.dir.size + 1 →
      r.dir[id]? = some d → d.child = lnk t →
      lookup r names id = .ok (resolveSlot t names id) := by
  induction names with
  | nil => intro t id d _ _ _ _; rfl
  | cons n ns ih =>
    intro t id d ok hsz hd hc
    rw [lookup, hd]
    simp only
    rw [hc, findChild_tree r strict n t ok _ hsz]
    simp only [resolveSlot]
    cases hf : t.find? n with
    | none => rfl
    | some x =>
      obtain ⟨e, k⟩ := x
      obtain ⟨okk, hlt, dk, hdk, hck⟩ := find?_dfsOk r.dir strict n t ok e k hf
      simp only [Option.map_some]
      exact ih k e.slot dk okk (by omega) hdk hck

/-- the table read back from `dirtable s` represents `s.top` below the root entry -/
theorem table_represents (p : P) (s : Dir.State) (strict : Bool)
    (wf : s.top.WF) (rb : strict = true → RBAll s.top)
    (nd : (0 :: s.top.slots).Nodup) (hcap : ∀ x ∈ 0 :: s.top.slots, x < dirCap p) (hcapN : dirCap p ≤ NOSTREAM) :
    (∃ d0, (tableOf p (dirtable s)).toArray[0]? = some d0 ∧ d0.child = lnk s.top) ∧
    DfsOk (tableOf p (dirtable s)).toArray strict s.top ∧ s.top.size + 1 ≤ (tableOf p (dirtable s)).toArray.size := by
  have hrows : (dirtable s).map (·.slot) = 0 :: s.top.slots := by
    simp only [dirtable, List.map_cons, rows_slots]
  have ndr : ((dirtable s).map (·.slot)).Nodup := by rw [hrows]; exact nd
  have hmemroot : rootRowOf s ∈ dirtable s := by rw [dirtable_eq]; simp
  have hroot := table_row p (dirtable s) ndr (rootRowOf s) hmemroot (hcap 0 (by simp))
  have hs0 : ∀ x ∈ s.top.slots, x ≠ 0 ∧ x ≠ NOSTREAM := by
    intro x hx
    have h1 : x ≠ 0 := fun e => (List.nodup_cons.mp nd).1 (e ▸ hx)
    have h2 := hcap x (List.mem_cons_of_mem _ hx)
    exact ⟨h1, by omega⟩
  have ok : DfsOk (tableOf p (dirtable s)).toArray strict s.top :=
    dfsOk_of_rows _ _ (startLenOf p) s.top (by
      intro r hr
      exact table_row p (dirtable s) ndr r (by simp [dirtable, hr])
        (hcap r.slot (by rw [← hrows]; exact List.mem_map_of_mem (by simp [dirtable, hr]))))
      wf rb hs0
  refine ⟨⟨_, hroot, ?_⟩, ok, ?_⟩
  · simp only [entryOf, rootRowOf]; exact linkOf_rootSlot s.top
  · rw [tableOf_size]
    have := length_le_of_nodup_lt (dirCap p) (0 :: s.top.slots) nd hcap
    rw [List.length_cons, slots_length] at this
    exact this

/-- **every path resolves in the reopened file to the slot it has in the directory model** -/
theorem lookup_after_reopen (p : P) (s : Dir.State) (strict : Bool)
    (wf : s.top.WF) (rb : strict = true → RBAll s.top)
    (nd : (0 :: s.top.slots).Nodup) (hcap : ∀ x ∈ 0 :: s.top.slots, x < dirCap p) (hcapN : dirCap p ≤ NOSTREAM)
    (names : List Name) :
    lookup (rawOf p (dirtable s)) names Gen.ROOT_STREAM_ID = .ok ((resolve s.top names).map slotOfRes) := by
  obtain ⟨⟨d0, h0, hc⟩, ok, hsz⟩ := table_represents p s strict wf rb nd hcap hcapN
  rw [resolve_slot]
  exact lookup_tree (rawOf p (dirtable s)) strict names s.top Gen.ROOT_STREAM_ID d0 ok (by simp only [rawOf]; omega) h0 hc

end CfbVerif.Phys
