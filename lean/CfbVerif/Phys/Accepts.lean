import CfbVerif.Phys.ReadBack
import CfbVerif.Phys.NoLeakMini
import CfbVerif.Phys.ChainLen
/-!
# `Allocator::validate` accepts what the allocator built

The reader model's validation of the FAT (`Raw.validateFat`: marks of the DIFAT and FAT sectors,
pointees in range and pointed at once, no INVALID entry) succeeds on the FAT of every state of the
allocation model that has no sharing, no leak and correct marks — in both modes, and returns that
FAT unchanged.  Likewise the MiniFAT's pointee check on the model's MiniFAT.
-/
namespace CfbVerif.Phys
open CfbVerif.Raw

theorem markSectors_same (m : Mode) (mark : Nat) : ∀ (ids : List Nat) (fat : Array Nat),
    (∀ id ∈ ids, fat[id]? = some mark) → markSectors m mark ids fat = .ok fat := by
  intro ids
  induction ids with
  | nil => intro fat _; rfl
  | cons id rest ih =>
    intro fat h
    unfold markSectors
    have hid := h id (by simp)
    have hlt : id < fat.size := lt_of_get hid
    rw [dif_pos hlt]
    have hval : fat[id] = mark := by
      have := Array.getElem?_eq_getElem hlt
      rw [this] at hid; exact Option.some.inj hid
    rw [if_neg (by rw [hval]; simp)]
    have hset : fat.set id mark = fat := by
      apply Array.ext
      · simp
      · intro i h1 h2
        simp only [Array.getElem_set]
        split
        · rename_i he; subst he; exact hval.symm
        · rfl
    rw [hset]
    exact ih fat (fun x hx => h x (List.mem_cons_of_mem _ hx))

theorem checkPointees_ok (fat : Array Nat) (i : Nat) (seen : List Nat)
    (hrange : ∀ j (hj : j < fat.size), i ≤ j → fat[j] ≤ MAXREG → fat[j] < fat.size ∧ fat[j] ∉ seen)
    (hinj : ∀ j k (hj : j < fat.size) (hk : k < fat.size), i ≤ j → j < k → fat[j] ≤ MAXREG → fat[j] ≠ fat[k])
    (hinv : ∀ j (hj : j < fat.size), i ≤ j → fat[j] ≠ INVALID) : checkPointees fat i seen = .ok () := by
  fun_induction checkPointees fat i seen with
  | case1 i seen hi to hreg hge =>
    exact absurd (hrange i hi (Nat.le_refl _) hreg).1 (Nat.not_lt.mpr hge)
  | case2 i seen hi to hreg hlt hc =>
    have := (hrange i hi (Nat.le_refl _) hreg).2
    exact absurd (by simpa using hc) this
  | case3 i seen hi to hreg hlt hc ih =>
    apply ih
    · intro j hj hij hr
      refine ⟨(hrange j hj (by omega) hr).1, ?_⟩
      intro hm
      rcases List.mem_cons.mp hm with he | hm
      · exact hinj i j hi hj (Nat.le_refl _) (by omega) hreg he.symm
      · exact (hrange j hj (by omega) hr).2 hm
    · intro j k hj hk hij hjk hr; exact hinj j k hj hk (by omega) hjk hr
    · intro j hj hij; exact hinv j hj (by omega)
  | case4 i seen hi to hnreg hinv' => exact absurd hinv' (hinv i hi (Nat.le_refl _))
  | case5 i seen hi to hnreg hinv' ih =>
    apply ih
    · intro j hj hij hr
      have hne : j ≠ i := by intro e; subst e; exact hnreg hr
      exact hrange j hj (by omega) hr
    · intro j k hj hk hij hjk hr; exact hinj j k hj hk (by omega) hjk hr
    · intro j hj hij; exact hinv j hj (by omega)
  | case6 i seen hi => rfl

/-- **the reader's FAT validation accepts the writer's FAT**, in both modes, and hands it on unchanged -/
theorem validateFat_accepts {p : P} {L : Nat → Nat} (j : JC p L) (mk : MK p) (m : Mode) :
    validateFat m p.numSectors p.difatSectorIds p.difat p.fat = .ok p.fat := by
  have n := j.nc.ns
  unfold validateFat
  simp only [bind, Except.bind, pure, Except.pure]
  rw [if_neg (by rw [j.inv.fat.size]; exact Nat.lt_irrefl _)]
  rw [markSectors_same m DIFSECT p.difatSectorIds p.fat (fun id h => (mk.difMark id).mpr h)]
  simp only
  rw [markSectors_same m FATSECT p.difat p.fat (fun id h => (mk.fatMark id).mpr h)]
  simp only
  have hget : ∀ (i : Nat) (hi : i < p.fat.size), p.fat[i]? = some p.fat[i] := fun i hi => Array.getElem?_eq_getElem hi
  rw [checkPointees_ok p.fat 0 []]
  · intro i hi _ hr
    obtain ⟨w, hw, _⟩ := n.nd i _ (hget i hi) hr
    exact ⟨lt_of_get hw, by simp⟩
  · intro i k hi hk _ hik hr he
    have := n.inj i k _ (hget i hi) (by rw [he]; exact hget k hk) hr
    omega
  · intro i hi _ he
    rcases mk.kinds i _ (hget i hi) with h | h | h | h | h <;> rw [he] at h
    · exact absurd h (by decide)
    · exact absurd h (by decide)
    · exact absurd h (by decide)
    · exact absurd h (by decide)
    · exact absurd h (by decide)

theorem checkMiniPointees_ok (mf : Array Nat) (i : Nat) (seen : List Nat)
    (hrange : ∀ j (hj : j < mf.size), i ≤ j → mf[j] ≤ MAXREG → mf[j] < mf.size ∧ mf[j] ∉ seen)
    (hinj : ∀ j k (hj : j < mf.size) (hk : k < mf.size), i ≤ j → j < k → mf[j] ≤ MAXREG → mf[j] ≠ mf[k]) :
    checkMiniPointees mf i seen = .ok () := by
  fun_induction checkMiniPointees mf i seen with
  | case1 i seen hi to hreg hge =>
    exact absurd (hrange i hi (Nat.le_refl _) hreg).1 (Nat.not_lt.mpr hge)
  | case2 i seen hi to hreg hlt hc =>
    have := (hrange i hi (Nat.le_refl _) hreg).2
    exact absurd (by simpa using hc) this
  | case3 i seen hi to hreg hlt hc ih =>
    apply ih
    · intro j hj hij hr
      refine ⟨(hrange j hj (by omega) hr).1, ?_⟩
      intro hm
      rcases List.mem_cons.mp hm with he | hm
      · exact hinj i j hi hj (Nat.le_refl _) (by omega) hreg he.symm
      · exact (hrange j hj (by omega) hr).2 hm
    · intro j k hj hk hij hjk hr; exact hinj j k hj hk (by omega) hjk hr
  | case4 i seen hi to hnreg ih =>
    apply ih
    · intro j hj hij hr
      have hne : j ≠ i := by intro e; subst e; exact hnreg hr
      exact hrange j hj (by omega) hr
    · intro j k hj hk hij hjk hr; exact hinj j k hj hk (by omega) hjk hr
  | case5 i seen hi => rfl

/-- **the MiniFAT's pointee check accepts the writer's MiniFAT** -/
theorem checkMiniPointees_accepts {p : P} {L : Nat → Nat} (j : JMC p L) :
    checkMiniPointees p.miniFat 0 [] = .ok () := by
  have n := j.nc.ns
  have hget : ∀ (i : Nat) (hi : i < p.miniFat.size), p.miniFat[i]? = some p.miniFat[i] :=
    fun i hi => Array.getElem?_eq_getElem hi
  apply checkMiniPointees_ok
  · intro i hi _ hr
    obtain ⟨w, hw, _⟩ := n.nd i _ (hget i hi) hr
    exact ⟨lt_of_get hw, by simp⟩
  · intro i k hi hk _ hik hr he
    have := n.inj i k _ (hget i hi) (by rw [he]; exact hget k hk) hr
    omega

end CfbVerif.Phys

/-! ## from the cells the reader loads to the FAT it validates -/
namespace CfbVerif.Phys
open CfbVerif.Raw CfbVerif.Dir

theorem flatten_blocks (f : Nat → Nat) (e : Nat) : ∀ n : Nat,
    ((List.range n).map (fun k => (List.range e).map (fun j => f (k * e + j)))).flatten = (List.range (n * e)).map f := by
  intro n
  induction n with
  | zero => simp
  | succ n ih =>
    rw [List.range_succ, List.map_append, List.flatten_append, ih]
    simp only [List.map_cons, List.map_nil, List.flatten_cons, List.flatten_nil, List.append_nil]
    rw [Nat.succ_mul, List.range_add, List.map_append, List.map_map]
    rfl

theorem cells_eq (fat : Array Nat) (N : Nat) (hN : fat.size ≤ N) (hsmall : ∀ (i : Nat) (hi : i < fat.size), fat[i] < 256 ^ 4) :
    (List.range N).map (fun t => cellAt fat t % 256 ^ 4) = fat.toList ++ List.replicate (N - fat.size) FREE := by
  apply List.ext_getElem
  · simp; omega
  · intro i h1 h2
    simp only [List.getElem_map, List.getElem_range]
    simp only [List.length_map, List.length_range] at h1
    by_cases hi : i < fat.size
    · rw [List.getElem_append_left (by simpa using hi)]
      unfold cellAt
      rw [Array.getElem?_eq_getElem hi]
      simp only [Option.getD_some, Array.getElem_toList]
      exact Nat.mod_eq_of_lt (hsmall i hi)
    · rw [List.getElem_append_right (by simpa using Nat.le_of_not_lt hi)]
      unfold cellAt
      rw [Array.getElem?_eq_none (Nat.le_of_not_lt hi)]
      simp only [Option.getD_none, List.getElem_replicate]
      decide

theorem trimFree_pad (n : Nat) : ∀ (fuel k : Nat) (l : List Nat), l.length = n → k ≤ fuel →
    trimFree n fuel (l ++ List.replicate k FREE) = l := by
  intro fuel
  induction fuel with
  | zero =>
    intro k l _ hk
    have : k = 0 := by omega
    subst this
    simp [trimFree]
  | succ fuel ih =>
    intro k l hl hk
    unfold trimFree
    cases k with
    | zero =>
      simp only [List.replicate_zero, List.append_nil]
      rw [if_neg (by omega)]
    | succ k =>
      have hlast : (l ++ List.replicate (k + 1) FREE).getLast? = some FREE := by
        rw [List.replicate_succ', ← List.append_assoc]
        simp
      rw [if_pos ⟨by simp; omega, hlast⟩]
      have hdrop : (l ++ List.replicate (k + 1) FREE).dropLast = l ++ List.replicate k FREE := by
        rw [List.replicate_succ', ← List.append_assoc]
        simp
      rw [hdrop]
      exact ih k l hl (by omega)

theorem trimPermissive_pad (n : Nat) : ∀ (fuel k : Nat) (l : List Nat), l.length = n → k ≤ fuel →
    trimPermissive n fuel (l ++ List.replicate k FREE) = l := by
  intro fuel
  induction fuel with
  | zero =>
    intro k l _ hk
    have : k = 0 := by omega
    subst this
    simp [trimPermissive]
  | succ fuel ih =>
    intro k l hl hk
    unfold trimPermissive
    cases k with
    | zero =>
      simp only [List.replicate_zero, List.append_nil]
      rw [if_neg (by omega)]
    | succ k =>
      rw [if_pos (by simp; omega)]
      have hlast : (l ++ List.replicate (k + 1) FREE).getLast? = some FREE := by
        rw [List.replicate_succ', ← List.append_assoc]
        simp
      rw [hlast]
      simp only
      have : isPadding FREE = true := by decide
      rw [this]
      simp only [if_true]
      have hdrop : (l ++ List.replicate (k + 1) FREE).dropLast = l ++ List.replicate k FREE := by
        rw [List.replicate_succ', ← List.append_assoc]
        simp
      rw [hdrop]
      exact ih k l hl (by omega)

theorem kinds_small {p : P} (mk : MK p) (i : Nat) (hi : i < p.fat.size) : p.fat[i] < 256 ^ 4 := by
  rcases mk.kinds i _ (Array.getElem?_eq_getElem hi) with h | h | h | h | h
  · rw [h]; decide
  · rw [h]; decide
  · have : MAXREG < 256 ^ 4 := by decide
    omega
  · rw [h]; decide
  · rw [h]; decide

/-- **the FAT the reader validates is the FAT the writer holds**: in both modes, the FAT stage of
`open` on the rendered image — load the FAT sectors the DIFAT lists, normalise, validate — succeeds
and returns exactly the model's FAT, for every state with no sharing, no leak, correct marks, whole
sectors, a FAT that fits its sectors, and well-formed directory rows -/
theorem reader_fat_is_writer_fat {p : P} {L : Nat → Nat} (rows : List Row) (j : JC p L) (mk : MK p) (ss : SS p)
    (cap : Cap p) (hs : SlotsOk (slotsOf p rows)) (m : Mode) :
    ∃ fat0, readFat (render p rows) p.S p.numSectors p.difat = .ok fat0 ∧
      validateFat m p.numSectors p.difatSectorIds p.difat (normFat m p.numSectors fat0).toArray = .ok p.fat := by
  have wf := rolesWf_of j mk
  refine ⟨_, C02_fat_readback p rows ss hs wf, ?_⟩
  have hsize : p.fat.size = p.numSectors := j.inv.fat.size
  have hcells : ((List.range p.difat.length).map (fun k => fatCells p k)).flatten =
      p.fat.toList ++ List.replicate (p.difat.length * p.epsec - p.fat.size) FREE := by
    unfold fatCells
    rw [flatten_blocks (fun t => cellAt p.fat t % 256 ^ 4) p.epsec p.difat.length]
    exact cells_eq p.fat _ cap (kinds_small mk)
  rw [hcells]
  have hlen : p.fat.toList.length = p.numSectors := by simpa using hsize
  have hnorm : normFat m p.numSectors (p.fat.toList ++ List.replicate (p.difat.length * p.epsec - p.fat.size) FREE) = p.fat.toList := by
    unfold normFat
    dsimp only
    have h1 : (if m.isStrict = true then p.fat.toList ++ List.replicate (p.difat.length * p.epsec - p.fat.size) FREE
        else trimPermissive p.numSectors ((p.fat.toList ++ List.replicate (p.difat.length * p.epsec - p.fat.size) FREE).length + 1)
          (p.fat.toList ++ List.replicate (p.difat.length * p.epsec - p.fat.size) FREE)) =
        p.fat.toList ++ List.replicate (if m.isStrict = true then p.difat.length * p.epsec - p.fat.size else 0) FREE := by
      split
      · rfl
      · rw [trimPermissive_pad p.numSectors _ _ _ hlen (by simp; omega)]; simp
    rw [h1]
    rw [trimFree_pad p.numSectors _ _ _ hlen (by simp; split <;> omega)]
    unfold padFree
    rw [hlen]; simp
  rw [hnorm]
  have : p.fat.toList.toArray = p.fat := by simp
  rw [this]
  exact validateFat_accepts j mk m

end CfbVerif.Phys

/-! ## every reachable state -/
namespace CfbVerif.Phys
open CfbVerif.Raw CfbVerif.Dir

theorem gs_grun (ops : List GOp) : ∀ g : G, GS g.p (grun g ops).p := by
  induction ops with
  | nil => intro g; exact GS.refl _
  | cons op rest ih =>
    intro g
    simp only [grun]
    cases hs : gstep g op with
    | ok g' => simp only [hs]; exact (gs_gstep hs).trans (ih g')
    | err k => simp only [hs]; exact ih g
    | panic s => simp only [hs]; exact ih g
    | hang s => simp only [hs]; exact ih g

/-- **after every history, the reader's FAT of the rendered image is the writer's FAT, and the
reader's validation accepts it** — in both modes, whatever directory rows (with names of at most
32 units and 16-byte CLSIDs) are rendered beside it -/
theorem fat_reopens_reachable (v4 : Bool) (ops : List GOp) (rows : List Row) (m : Mode) :
    let g := grun { p := Phys.create v4, L := fun _ => 0 } ops
    g.p.fat.size ≤ MAXREG + 1 → SlotsOk (slotsOf g.p rows) →
    ∃ fat0, readFat (render g.p rows) g.p.S g.p.numSectors g.p.difat = .ok fat0 ∧
      validateFat m g.p.numSectors g.p.difatSectorIds g.p.difat (normFat m g.p.numSectors fat0).toArray = .ok g.p.fat := by
  intro g hb hs
  have j := noLeak_reachable v4 ops hb
  have mk := (mk_grun_reachable v4 ops hb).1
  have gs := gs_grun ops { p := Phys.create v4, L := fun _ => 0 }
  exact reader_fat_is_writer_fat rows j mk (gs.ss (ss_create v4)) (gs.cap (cap_create v4)) hs m

/-- the MiniFAT likewise: what the reader loads from the MiniFAT chain of the rendered image is the
writer's MiniFAT (FREE beyond its end), and the reader's pointee check accepts the writer's MiniFAT -/
theorem minifat_reopens_reachable (v4 : Bool) (ops : List GOp) (rows : List Row) :
    let g := grun { p := Phys.create v4, L := fun _ => 0 } ops
    g.p.fat.size ≤ MAXREG + 1 → MiniBounded { p := Phys.create v4, L := fun _ => 0 } ops →
    SlotsOk (slotsOf g.p rows) →
    readChainU32s (render g.p rows) g.p.S (chainOrEmpty g.p g.p.miniFatStart).toArray
        ((chainOrEmpty g.p g.p.miniFatStart).length * g.p.S / 4) 0 =
      .ok ((List.range ((chainOrEmpty g.p g.p.miniFatStart).length * g.p.S / 4)).map (fun t => cellAt g.p.miniFat t % 256 ^ 4)) ∧
    checkMiniPointees g.p.miniFat 0 [] = .ok () := by
  intro g hb hm hs
  have j := noLeak_reachable v4 ops hb
  have mk := (mk_grun_reachable v4 ops hb).1
  have gs := gs_grun ops { p := Phys.create v4, L := fun _ => 0 }
  exact ⟨C02_minifat_readback g.p rows (gs.ss (ss_create v4)) hs (rolesWf_of j mk),
    checkMiniPointees_accepts (noLeakMini_reachable v4 ops hm)⟩

end CfbVerif.Phys
