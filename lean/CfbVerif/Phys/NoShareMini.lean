import CfbVerif.Phys.NoShare
import CfbVerif.Phys.MiniInv
/-!
# No mini sector is shared between mini chains

The same invariant as `NSH` in `Phys/NoShare.lean`, now for the in-memory MiniFAT: no two cells point
at the same mini sector, none points at a FREE one, and the first mini sectors of all streams below
4096 bytes are distinct, in use, and pointed at by nothing.

The MiniFAT can shrink (`free_mini_sector` trims trailing FREE cells), so "the final table is within
the range of regular numbers" does not bound the intermediate ones.  Every operation is therefore
classified as *shrinking* (no allocation: needs no bound at all) or *growing* (no release: the final
bound covers every intermediate table), and every stream-level operation is a shrinking part
followed by a growing part.
-/
namespace CfbVerif.Phys
open CfbVerif.Raw

/-! ## one more array-level step: a trailing FREE cell is dropped -/

theorem NSH.pop {fat : Array Nat} {hs : List Nat} (n : NSH fat hs) (hback : fat.back? = some FREE) : NSH fat.pop hs := by
  have hpos : 0 < fat.size := by
    rcases Nat.eq_zero_or_pos fat.size with h0 | hp
    · have : fat = #[] := Array.eq_empty_of_size_eq_zero h0
      subst this; simp at hback
    · exact hp
  have hlast : fat[fat.size - 1]? = some FREE := by
    rw [Array.back?_eq_getElem?] at hback; exact hback
  have get : ∀ i : Nat, fat.pop[i]? = if i < fat.size - 1 then fat[i]? else none := by
    intro i
    rw [Array.getElem?_pop]
  have old : ∀ i v : Nat, fat.pop[i]? = some v → i < fat.size - 1 ∧ fat[i]? = some v := by
    intro i v h
    rw [get] at h
    split at h
    · exact ⟨‹_›, h⟩
    · cases h
  have keep : ∀ x w : Nat, fat[x]? = some w → w ≠ FREE → fat.pop[x]? = some w := by
    intro x w hx hw
    rw [get, if_pos]
    · exact hx
    · have hl := lt_of_get hx
      rcases Nat.lt_or_ge x (fat.size - 1) with hc | hc
      · exact hc
      · have : x = fat.size - 1 := by omega
        rw [this, hlast] at hx
        exact absurd (Option.some.inj hx).symm hw
  refine ⟨by have := n.bound; simp; omega, ?_, ?_, n.nodup, ?_, ?_⟩
  · intro i j v hi hj hv
    exact n.inj i j v (old i v hi).2 (old j v hj).2 hv
  · intro i v hi hv
    obtain ⟨w, hw, hwf⟩ := n.nd i v (old i v hi).2 hv
    exact ⟨w, keep v w hw hwf, hwf⟩
  · intro h hh
    obtain ⟨w, hw, hwf⟩ := n.used h hh
    exact ⟨w, keep h w hw hwf, hwf⟩
  · intro h hh i hi
    exact n.unp h hh i (old i h hi).2

theorem nsh_trim (fuel : Nat) : ∀ {mf : Array Nat} {len : Nat} {hs : List Nat}, NSH mf hs →
    NSH (trimMiniFat fuel mf len).1 hs ∧ (trimMiniFat fuel mf len).1.size ≤ mf.size := by
  induction fuel with
  | zero => intro mf len hs n; exact ⟨n, Nat.le_refl _⟩
  | succ fuel ih =>
    intro mf len hs n
    unfold trimMiniFat
    split
    · rename_i hb
      have r := ih (len := len - MINI) (n.pop hb)
      exact ⟨r.1, Nat.le_trans r.2 (by simp)⟩
    · exact ⟨n, Nat.le_refl _⟩

/-! ## summaries -/

/-- with the final MiniFAT in range, heads `a` become `a'` and all others stay -/
def KM (p p' : P) (a a' : List Nat) : Prop :=
  p'.miniFat.size ≤ MAXREG + 1 → ∀ X, NSH p.miniFat (a ++ X) → NSH p'.miniFat (a' ++ X)

/-- no release: every intermediate MiniFAT is at most as long as the final one -/
structure GrowM (p p' : P) (a a' : List Nat) : Prop where
  mono : p.miniFat.size ≤ p'.miniFat.size
  km : KM p p' a a'

/-- no allocation: nothing to bound -/
def ShrinkM (p p' : P) (a a' : List Nat) : Prop :=
  ∀ X, NSH p.miniFat (a ++ X) → NSH p'.miniFat (a' ++ X)

theorem GrowM.refl (p : P) (a : List Nat) : GrowM p p a a := ⟨Nat.le_refl _, fun _ _ n => n⟩
theorem ShrinkM.refl (p : P) (a : List Nat) : ShrinkM p p a a := fun _ n => n

theorem GrowM.trans {p q r : P} {a b c : List Nat} (h1 : GrowM p q a b) (h2 : GrowM q r b c) : GrowM p r a c :=
  ⟨Nat.le_trans h1.mono h2.mono, fun hb X n => h2.km hb X (h1.km (Nat.le_trans h2.mono hb) X n)⟩

theorem ShrinkM.trans {p q r : P} {a b c : List Nat} (h1 : ShrinkM p q a b) (h2 : ShrinkM q r b c) : ShrinkM p r a c :=
  fun X n => h2 X (h1 X n)

theorem ShrinkM.then {p q r : P} {a b c : List Nat} (h1 : ShrinkM p q a b) (h2 : KM q r b c) : KM p r a c :=
  fun hb X n => h2 hb X (h1 X n)

theorem ShrinkM.toKM {p q : P} {a b : List Nat} (h : ShrinkM p q a b) : KM p q a b := fun _ X n => h X n

theorem GrowM.of_same {p q : P} (h : q.miniFat = p.miniFat) (a : List Nat) : GrowM p q a a :=
  ⟨by rw [h]; exact Nat.le_refl _, fun _ _ n => by rw [h]; exact n⟩

theorem ShrinkM.of_same {p q : P} (h : q.miniFat = p.miniFat) (a : List Nat) : ShrinkM p q a a :=
  fun _ n => by rw [h]; exact n

theorem perm_front (Y a X : List Nat) : ((Y ++ a) ++ X).Perm (a ++ (Y ++ X)) := by
  rw [List.append_assoc]; exact List.perm_append_comm_assoc Y a X

theorem KM.frame {p p' : P} {a a' : List Nat} (Y : List Nat) (h : KM p p' a a') : KM p p' (Y ++ a) (Y ++ a') :=
  fun hb X n => (h hb (Y ++ X) (n.perm (perm_front Y a X))).perm (perm_front Y a' X).symm

theorem GrowM.frame {p p' : P} {a a' : List Nat} (Y : List Nat) (h : GrowM p p' a a') : GrowM p p' (Y ++ a) (Y ++ a') :=
  ⟨h.mono, h.km.frame Y⟩

theorem ShrinkM.frame {p p' : P} {a a' : List Nat} (Y : List Nat) (h : ShrinkM p p' a a') : ShrinkM p p' (Y ++ a) (Y ++ a') :=
  fun X n => (h (Y ++ X) (n.perm (perm_front Y a X))).perm (perm_front Y a' X).symm

/-! ## primitives -/

theorem setMiniFat_ok2 {p p' : P} {idx val : Nat} (h : setMiniFat p idx val = .ok p') :
    (idx = p.miniFat.size ∧ p'.miniFat = p.miniFat.push val) ∨
    (idx < p.miniFat.size ∧ p'.miniFat = p.miniFat.setIfInBounds idx val) := by
  unfold setMiniFat at h
  obtain ⟨chain, hc, h⟩ := bind_ok h
  split at h
  · cases h
  · split at h
    · rename_i he; cases h; exact Or.inl ⟨he, rfl⟩
    · split at h
      · rename_i hl; cases h; exact Or.inr ⟨hl, rfl⟩
      · cases h

theorem mf_ensureRootRoom {p p' : P} (h : ensureRootRoom p = .ok p') : p'.miniFat = p.miniFat := by
  unfold ensureRootRoom at h
  split at h
  · split at h
    · rename_i ha; cases h; exact (sm_allocateSector ha).1
    · cases h
    · cases h
    · cases h
  · split at h
    · split at h
      · split at h
        · split at h
          · rename_i he; cases h; exact (sm_extendChain he).1
          · cases h
          · cases h
          · cases h
        · cases h; rfl
      · cases h
      · cases h
      · cases h
    · cases h; rfl

theorem mf_appendMiniSector {p p' : P} (h : appendMiniSector p = .ok p') : p'.miniFat = p.miniFat := by
  unfold appendMiniSector at h
  split at h
  · rename_i q hr; cases h; exact (mf_ensureRootRoom hr : q.miniFat = p.miniFat)
  · cases h
  · cases h
  · cases h

theorem mf_ensureMiniFatRoom {p p' : P} (h : ensureMiniFatRoom p = .ok p') : p'.miniFat = p.miniFat := by
  unfold ensureMiniFatRoom at h
  dsimp only at h
  split at h
  · split at h
    · rename_i ha; cases h; exact (sm_allocateSector ha).1
    · cases h
    · cases h
    · cases h
  · split at h
    · split at h
      · split at h
        · split at h
          · rename_i he; cases h; exact (sm_extendChain he).1
          · cases h
          · cases h
          · cases h
        · cases h; rfl
      · cases h
      · cases h
      · cases h
    · cases h; rfl

theorem mf_popFreeMini {p p1 : P} {fuel : Nat} {r : Option Nat} (h : popFreeMini p fuel = .ok (p1, r)) :
    p1.miniFat = p.miniFat := by
  have := (popFreeMini_ok fuel h).1
  rw [this]

/-- what `allocate_mini_sector` does to the MiniFAT: exactly one cell, FREE or new, becomes END -/
theorem allocateMiniSector_spec {p p' : P} {id : Nat} (h : allocateMiniSector p END = .ok (p', id)) :
    (p.miniFat[id]? = some FREE ∧ id < p.miniFat.size ∧ p'.miniFat = p.miniFat.setIfInBounds id END) ∨
    (id = p.miniFat.size ∧ p'.miniFat = p.miniFat.push END) := by
  unfold allocateMiniSector at h
  obtain ⟨⟨p1, reuse⟩, hp, h⟩ := bind_ok h
  have e0 := mf_popFreeMini hp
  dsimp only at h
  split at h
  · rename_i idx
    obtain ⟨p2, hs, h⟩ := bind_ok h
    cases h
    have hfree := (popFreeMini_ok _ hp).2 id rfl
    rw [e0] at hfree
    rcases setMiniFat_ok2 hs with ⟨he, _⟩ | ⟨hl, he⟩
    · rw [e0] at he; have := lt_of_get hfree; omega
    · left; rw [e0] at hl he; exact ⟨hfree, hl, he⟩
  · obtain ⟨p2, h2, h⟩ := bind_ok h
    obtain ⟨p3, h3, h⟩ := bind_ok h
    obtain ⟨p4, h4, h⟩ := bind_ok h
    cases h
    have e2 := mf_ensureMiniFatRoom h2
    have e3 := mf_appendMiniSector h3
    right
    rcases setMiniFat_ok2 h4 with ⟨_, he⟩ | ⟨hl, _⟩
    · rw [e3, e2, e0] at he
      exact ⟨by rw [e2, e0], he⟩
    · rw [e3] at hl; omega

theorem grow_allocateMiniSector {p p' : P} {id : Nat} (h : allocateMiniSector p END = .ok (p', id)) :
    GrowM p p' [] [id] := by
  rcases allocateMiniSector_spec h with ⟨hfree, hlt, he⟩ | ⟨hid, he⟩
  · refine ⟨by rw [he]; simp, ?_⟩
    intro hb X n
    rw [he] at hb ⊢
    refine n.claim hb ?_ (by simp [hlt]) (Or.inl hfree) ?_
    · intro j _ hne
      simp only [Array.getElem?_setIfInBounds]
      rw [if_neg (fun e => hne e.symm)]
    · intro j v hj _ hv
      have := lt_of_get hv
      simp at this; omega
  · refine ⟨by rw [he]; simp, ?_⟩
    intro hb X n
    rw [he] at hb ⊢
    subst hid
    refine n.claim hb ?_ (by simp) (Or.inr (Nat.le_refl _)) ?_
    · intro j hj _
      simp only [Array.getElem?_push]
      rw [if_neg (by omega)]
    · intro j v hj hne hv
      have := lt_of_get hv
      simp at this; omega

theorem lastOfMiniChain_ok (mf : Array Nat) (fuel : Nat) : ∀ {cur last : Nat}, lastOfMiniChain mf fuel cur = .ok last →
    last < mf.size ∧ mf[last]? = some END := by
  induction fuel with
  | zero => intro cur last h; simp [lastOfMiniChain] at h
  | succ fuel ih =>
    intro cur last h
    unfold lastOfMiniChain at h
    cases hn : nextSector mf cur with
    | error k => simp [hn] at h
    | ok next =>
      simp only [hn] at h
      split at h
      · rename_i he
        cases h
        have := nextSector_ok hn
        exact ⟨this.1, by rw [this.2.1, he]⟩
      · exact ih h

theorem grow_extendMiniChain {p p' : P} {start id : Nat} (h : extendMiniChain p start = .ok (p', id)) (a : List Nat) :
    GrowM p p' a a := by
  unfold extendMiniChain at h
  obtain ⟨last, hl, h⟩ := bind_ok h
  obtain ⟨⟨p1, id1⟩, ha, h⟩ := bind_ok h
  obtain ⟨p2, hs, h⟩ := bind_ok h
  cases h
  have hlast := lastOfMiniChain_ok _ _ hl
  have g1 := grow_allocateMiniSector ha
  have spec := allocateMiniSector_spec ha
  have hne : last ≠ id := by
    intro he; subst he
    rcases spec with ⟨hfree, _, _⟩ | ⟨hid, _⟩
    · rw [hlast.2] at hfree; exact END_ne_FREE (Option.some.inj hfree)
    · omega
  have hcell : p1.miniFat[last]? = some END := by
    rcases spec with ⟨_, _, he⟩ | ⟨_, he⟩
    · rw [he]; simp only [Array.getElem?_setIfInBounds]; rw [if_neg (fun e => hne e.symm)]; exact hlast.2
    · rw [he]; simp only [Array.getElem?_push]; rw [if_neg (by omega)]; exact hlast.2
  have hp' : p'.miniFat = p1.miniFat.setIfInBounds last id := by
    rcases setMiniFat_ok2 hs with ⟨he, _⟩ | ⟨_, he⟩
    · have := lt_of_get hcell; omega
    · exact he
  refine ⟨by rw [hp']; simpa using g1.mono, ?_⟩
  intro hb X n
  rw [hp'] at hb ⊢
  have hb1 : p1.miniFat.size ≤ MAXREG + 1 := by simpa using hb
  have n1 : NSH p1.miniFat (id :: (a ++ X)) := by simpa using g1.km hb1 (a ++ X) (by simpa using n)
  exact n1.link hcell hne

/-- `free_mini_sector` of a head: its successor (if any) becomes the head of the rest -/
theorem shrink_freeMiniSector {p p' : P} {id next : Nat} (hnext : p.miniFat[id]? = some next)
    (h : freeMiniSector p id = .ok p') :
    ShrinkM p p' [id] (if next ≤ MAXREG then [next] else []) := by
  unfold freeMiniSector at h
  rw [hnext] at h
  dsimp only at h
  split at h
  · cases h
  · rename_i hnf
    obtain ⟨p1, hs, h⟩ := bind_ok h
    cases h
    have hp1 : p1.miniFat = p.miniFat.setIfInBounds id FREE := by
      rcases setMiniFat_ok2 hs with ⟨he, _⟩ | ⟨_, he⟩
      · have := lt_of_get hnext; omega
      · exact he
    intro X n
    have n1 := (show NSH p.miniFat (id :: X) by simpa using n).freeHead hnext hnf
    rw [← hp1] at n1
    exact (nsh_trim _ (by simpa using n1)).1

end CfbVerif.Phys

/-! ## mini chains -/
namespace CfbVerif.Phys
open CfbVerif.Raw

/-- the value `next` (nextSector) returns is END or a regular, in-range id -/
theorem nextSector_class {fat : Array Nat} {id next : Nat} (hn : nextSector fat id = .ok next) :
    next = END ∨ (next ≠ END ∧ next ≤ MAXREG) := by
  unfold nextSector at hn
  split at hn
  · dsimp only at hn
    split at hn
    · cases hn
    · rename_i hc
      cases hn
      rcases Nat.lt_or_ge MAXREG (fat[id]) with hgt | hle
      · left
        rcases Classical.em (fat[id] = END) with he | he
        · exact he
        · exact absurd ⟨he, Or.inl hgt⟩ hc
      · right
        exact ⟨by have := MAXREG_lt_END; omega, hle⟩
  · cases hn

theorem shrink_freeMiniChain (fuel : Nat) : ∀ {p p' : P} {cur : Nat},
    freeMiniChain p fuel cur = .ok p' → ShrinkM p p' (hd1 cur) [] := by
  induction fuel with
  | zero => intro p p' cur h; simp [freeMiniChain] at h
  | succ fuel ih =>
    intro p p' cur h
    unfold freeMiniChain at h
    split at h
    · rename_i he
      cases h
      intro X n; simpa [hd1, he] using n
    · rename_i hne
      split at h
      · cases h
      · rename_i next hn
        split at h
        · rename_i p1 hf
          have ns := nextSector_ok (fat := p.miniFat) hn
          have s1 := shrink_freeMiniSector ns.2.1 hf
          have s2 := ih h
          intro X n
          have n0 : NSH p.miniFat ([cur] ++ X) := by simpa [hd1, hne] using n
          have n1 := s1 X n0
          refine s2 X ?_
          rcases nextSector_class hn with he | ⟨hne', hreg⟩
          · subst he
            have : ¬ (END ≤ MAXREG) := Nat.not_le.mpr MAXREG_lt_END
            simpa [hd1, this] using n1
          · simpa [hd1, hne', hreg] using n1
        · cases h
        · cases h
        · cases h

theorem shrink_freeMiniChainFrom {p p' : P} {start : Nat} (h : freeMiniChainFrom p start = .ok p') :
    ShrinkM p p' (hd1 start) [] := shrink_freeMiniChain _ h

theorem shrink_freeMiniChainAfter {p p' : P} {id : Nat} (h : freeMiniChainAfter p id = .ok p') (a : List Nat) :
    ShrinkM p p' a a := by
  unfold freeMiniChainAfter at h
  split at h
  · cases h
  · rename_i next hn
    obtain ⟨p1, hs, h⟩ := bind_ok h
    have ns := nextSector_ok (fat := p.miniFat) hn
    have hp1 : p1.miniFat = p.miniFat.setIfInBounds id END := by
      rcases setMiniFat_ok2 hs with ⟨he, _⟩ | ⟨_, he⟩
      · omega
      · exact he
    have s2 := shrink_freeMiniChain _ h
    intro X n
    refine s2 (a ++ X) ?_
    rw [hp1]
    rcases nextSector_class hn with he | ⟨hne, hreg⟩
    · subst he
      have : p.miniFat.setIfInBounds id END = p.miniFat := by
        apply Array.ext_getElem?
        intro i
        simp only [Array.getElem?_setIfInBounds]
        split
        · rename_i hi; subst hi
          have h2 := ns.2.1
          simp only [ns.1, Array.getElem?_eq_getElem, Option.some.injEq] at h2
          simp [ns.1, h2]
        · rfl
      simpa [hd1, this] using n
    · simpa [hd1, hne] using n.cut ns.2.1 hreg

theorem grow_growOneMini {p p' : P} {ids ids' : List Nat} (h : growOneMini p ids = .ok (p', ids')) :
    GrowM p p' (hdl ids) (hdl ids') ∧ ∃ t, ids' = ids ++ t := by
  unfold growOneMini at h
  split at h
  · rename_i last hl
    have hne : ids ≠ [] := by intro he; subst he; simp at hl
    split at h
    · rename_i p1 id he
      cases h
      rw [hdl_append hne]
      exact ⟨grow_extendMiniChain he _, _, rfl⟩
    · cases h
    · cases h
    · cases h
  · rename_i hl
    have he0 : ids = [] := List.getLast?_eq_none_iff.mp hl
    subst he0
    split at h
    · rename_i p1 id he
      cases h
      exact ⟨by simpa [hdl] using grow_allocateMiniSector he, _, rfl⟩
    · cases h
    · cases h
    · cases h

theorem mf_miniWriteAt {p p' : P} {m off : Nat} {bs : Bytes} (h : miniWriteAt p m off bs = .ok p') :
    p'.miniFat = p.miniFat := (sm_miniWriteAt h).1

theorem grow_miniChainWrite (fuel : Nat) : ∀ {p p' : P} {ids ids' : List Nat} {off : Nat} {bs : Bytes},
    miniChainWrite fuel p ids off bs = .ok (p', ids') → GrowM p p' (hdl ids) (hdl ids') ∧ ∃ t, ids' = ids ++ t := by
  induction fuel with
  | zero => intro p p' ids ids' off bs h; simp [miniChainWrite] at h
  | succ fuel ih =>
    intro p p' ids ids' off bs h
    unfold miniChainWrite at h
    split at h
    · cases h; exact ⟨GrowM.refl _ _, [], by simp⟩
    · split at h
      · rename_i p1 ids1 hgrow
        have g1 : GrowM p p1 (hdl ids) (hdl ids1) ∧ ∃ t, ids1 = ids ++ t := by
          split at hgrow
          · exact grow_growOneMini hgrow
          · cases hgrow; exact ⟨GrowM.refl _ _, [], by simp⟩
        split at h
        · cases h
        · dsimp only at h
          split at h
          · rename_i p2 hw
            have r := ih h
            obtain ⟨t1, e1⟩ := g1.2
            obtain ⟨t2, e2⟩ := r.2
            exact ⟨(g1.1.trans (GrowM.of_same (mf_miniWriteAt hw) _)).trans r.1, t1 ++ t2, by rw [e2, e1, List.append_assoc]⟩
          · cases h
          · cases h
          · cases h
      · cases h
      · cases h
      · cases h

theorem grow_miniChainGrow (fuel : Nat) : ∀ {p p' : P} {ids ids' : List Nat} {target : Nat},
    miniChainGrow fuel p ids target = .ok (p', ids') → GrowM p p' (hdl ids) (hdl ids') ∧ ∃ t, ids' = ids ++ t := by
  induction fuel with
  | zero => intro p p' ids ids' target h; simp [miniChainGrow] at h
  | succ fuel ih =>
    intro p p' ids ids' target h
    unfold miniChainGrow at h
    split at h
    · cases h; exact ⟨GrowM.refl _ _, [], by simp⟩
    · split at h
      · rename_i p1 ids1 hg
        split at h
        · rename_i p2 hw
          have g := grow_growOneMini hg
          have r := ih h
          obtain ⟨t1, e1⟩ := g.2
          obtain ⟨t2, e2⟩ := r.2
          exact ⟨(g.1.trans (GrowM.of_same (mf_miniWriteAt hw) _)).trans r.1, t1 ++ t2, by rw [e2, e1, List.append_assoc]⟩
        · cases h
        · cases h
        · cases h
      · cases h
      · cases h
      · cases h

/-- `MiniChain::set_len` to a length that keeps at least one mini sector, or on an empty chain:
either a pure release that keeps the head, or a pure growth -/
theorem miniChainSetLen_shape {p p' : P} {ids ids' : List Nat} {n : Nat} (hn : 0 < n ∨ ids = [])
    (h : miniChainSetLen p ids n = .ok (p', ids')) :
    (ShrinkM p p' (hdl ids) (hdl ids') ∧ ids' = ids) ∨
    (GrowM p p' (hdl ids) (hdl ids') ∧ ∃ t, ids' = ids ++ t) := by
  unfold miniChainSetLen at h
  dsimp only at h
  split at h
  · rename_i hzero
    have hids : ids = [] := by
      rcases hn with hp | he
      · have : MINI = 64 := rfl
        have := (Nat.div_eq_zero_iff).mp hzero
        omega
      · exact he
    subst hids
    simp only [List.head?_nil] at h
    cases h
    exact Or.inr ⟨GrowM.refl _ _, [], by simp⟩
  · split at h
    · split at h
      · split at h
        · obtain ⟨q, hf, h⟩ := obind_ok h
          cases h
          left
          exact ⟨shrink_freeMiniChainAfter hf _, rfl⟩
        · cases h
      · cases h; exact Or.inr ⟨GrowM.refl _ _, [], by simp⟩
    · exact Or.inr (grow_miniChainGrow _ h)

end CfbVerif.Phys

/-! ## streams below the cutoff own mini chains -/
namespace CfbVerif.Phys
open CfbVerif.Raw

def isMiniStart (L : Nat → Nat) (e : Nat × Nat) : Bool := decide (L e.1 < CUTOFF) && (e.2 != END)

def mregs (starts : List (Nat × Nat)) (L : Nat → Nat) : List Nat := (starts.filter (isMiniStart L)).map (·.2)

def mownOf (starts : List (Nat × Nat)) (L : Nat → Nat) (s : Nat) : List Nat :=
  if L s < CUTOFF ∧ startIn starts s ≠ END then [startIn starts s] else []

theorem mregs_split (starts : List (Nat × Nat)) (L : Nat → Nat) (s : Nat) (hk : (starts.map (·.1)).Nodup) :
    (mregs starts L).Perm (mownOf starts L s ++ mregs (others starts s) L) := by
  have hp : starts.Perm (starts.filter (·.1 == s) ++ others starts s) := by
    have := List.filter_append_perm (fun e : Nat × Nat => e.1 == s) starts
    unfold others
    have hneg : (fun e : Nat × Nat => !(e.1 == s)) = (fun e : Nat × Nat => e.1 != s) := by
      funext e; rfl
    rw [hneg] at this
    exact this.symm
  have h1 : (mregs starts L).Perm (mregs (starts.filter (·.1 == s) ++ others starts s) L) := by
    unfold mregs
    exact (hp.filter _).map _
  have h2 : mregs (starts.filter (·.1 == s) ++ others starts s) L =
      mregs (starts.filter (·.1 == s)) L ++ mregs (others starts s) L := by
    unfold mregs; rw [List.filter_append, List.map_append]
  have h3 : mregs (starts.filter (·.1 == s)) L = mownOf starts L s := by
    rw [filter_key_eq hk]
    unfold mownOf startIn mregs
    cases hf : starts.find? (·.1 == s) with
    | none => simp
    | some e =>
      have hes : e.1 = s := by
        have := List.find?_some hf; simpa using this
      simp only [Option.toList, Option.map, Option.getD, List.filter_cons, List.filter_nil, isMiniStart, hes]
      by_cases h1 : L s < CUTOFF
      · by_cases h2 : e.2 = END
        · simp [h1, h2]
        · simp [h1, h2]
      · simp [h1]
  rw [h2, h3] at h1
  exact h1

theorem mregs_others_congr (starts : List (Nat × Nat)) {L L' : Nat → Nat} {s : Nat}
    (hL : ∀ t, t ≠ s → L' t = L t) : mregs (others starts s) L' = mregs (others starts s) L := by
  unfold mregs others
  congr 1
  rw [List.filter_filter, List.filter_filter]
  apply List.filter_congr
  intro e _
  by_cases he : e.1 = s
  · simp [he]
  · simp [isMiniStart, hL e.1 he]

structure JM (p : P) (L : Nat → Nat) : Prop where
  ns : NSH p.miniFat (mregs p.starts L)
  keys : (p.starts.map (·.1)).Nodup

theorem jm_step {p p' : P} {L L' : Nat → Nat} {s : Nat} {b : List Nat} (j : JM p L)
    (hL : ∀ t, t ≠ s → L' t = L t)
    (hk : KM p p' (mownOf p.starts L s) b)
    (hsub : (mownOf p'.starts L' s).Sublist b)
    (ho : others p'.starts s = others p.starts s)
    (hkeys : (p'.starts.map (·.1)).Nodup)
    (hb : p'.miniFat.size ≤ MAXREG + 1) : JM p' L' := by
  refine ⟨?_, hkeys⟩
  have n0 : NSH p.miniFat (mownOf p.starts L s ++ mregs (others p.starts s) L) :=
    j.ns.perm (mregs_split p.starts L s j.keys)
  have n1 := hk hb _ n0
  have n2 : NSH p'.miniFat (mownOf p'.starts L' s ++ mregs (others p'.starts s) L') := by
    rw [ho, mregs_others_congr _ hL]
    exact n1.sublist (hsub.append (List.Sublist.refl _))
  exact n2.perm (mregs_split p'.starts L' s hkeys).symm

theorem KM.of_same {p q : P} (h : q.miniFat = p.miniFat) (a : List Nat) : KM p q a a :=
  fun _ _ n => by rw [h]; exact n

theorem KM.trans_same {p q r : P} {a b : List Nat} (h1 : KM p q a b) (h2 : r.miniFat = q.miniFat) : KM p r a b :=
  fun hb X n => by rw [h2]; exact h1 (by rw [← h2]; exact hb) X n

theorem KM.same_trans {p q r : P} {a b : List Nat} (h1 : q.miniFat = p.miniFat) (h2 : KM q r a b) : KM p r a b :=
  fun hb X n => h2 hb X (by rw [h1]; exact n)

theorem mownOf_sublist_hd1 (starts : List (Nat × Nat)) (L : Nat → Nat) (s : Nat) :
    (mownOf starts L s).Sublist (hd1 (startIn starts s)) := by
  unfold mownOf hd1
  by_cases h1 : L s < CUTOFF <;> by_cases h2 : startIn starts s = END <;> simp [h1, h2]

theorem mownOf_setStart_sublist (p : P) (L : Nat → Nat) (s : Nat) (ids : List Nat) :
    (mownOf (setStart p s (ids.head?.getD END)).starts L s).Sublist (hdl ids) := by
  have h1 := mownOf_sublist_hd1 (setStart p s (ids.head?.getD END)).starts L s
  rw [startIn_setStart] at h1
  exact h1.trans (hd1_head_sublist ids)

theorem mownOf_big (starts : List (Nat × Nat)) {L : Nat → Nat} {s : Nat} (h : CUTOFF ≤ L s) : mownOf starts L s = [] := by
  unfold mownOf; rw [if_neg]; intro hc; omega

theorem mownOf_noStart {starts : List (Nat × Nat)} (L : Nat → Nat) {s : Nat} (h : startIn starts s = END) :
    mownOf starts L s = [] := by
  unfold mownOf; rw [if_neg]; intro hc; exact hc.2 h

theorem mownOf_mini {starts : List (Nat × Nat)} {L : Nat → Nat} {s : Nat} (h1 : L s < CUTOFF) (h2 : startIn starts s ≠ END) :
    mownOf starts L s = [startIn starts s] := by
  unfold mownOf; rw [if_pos ⟨h1, h2⟩]

theorem miniChainIds_head {p : P} {start : Nat} {ids : List Nat} (h : miniChainIds p start = .ok ids) (hne : start ≠ END) :
    hdl ids = [start] := by
  unfold miniChainIds at h
  obtain ⟨t, e, ht⟩ := chainLoop_head _ _ _ h
  simp only [List.reverse_nil, List.nil_append] at e
  subst e
  unfold hdl
  rw [ht hne]; rfl

theorem nil_sub (l : List Nat) : ([] : List Nat).Sublist l := List.nil_sublist l

theorem jm_writeData {p p' : P} {L : Nat → Nat} {slot off n : Nat} {buf : Bytes}
    (h : writeData p slot (L slot) off buf = .ok (p', n)) (j : JM p L) (hb : p'.miniFat.size ≤ MAXREG + 1) :
    JM p' (upd L slot n) := by
  unfold writeData at h
  dsimp only [bind, pure] at h
  split at h
  · rename_i hend
    have hown : mownOf p.starts L slot = [] := mownOf_noStart L hend
    split at h
    · cases h
    · split at h
      · obtain ⟨⟨q, ids⟩, hw, h⟩ := obind_ok h
        cases h
        have g := grow_miniChainWrite _ hw
        have kk := kk_miniChainWrite _ hw
        refine jm_step (b := hdl ids) j (upd_other _ _ _) ?_ (mownOf_setStart_sublist _ _ _ _) ?_ ?_ hb
        · rw [hown]
          have : KM p q [] (hdl ids) := by simpa [hdl] using g.1.km
          exact this.trans_same rfl
        · rw [others_setStart, kk.starts]
        · exact keys_setStart _ _ (by rw [kk.starts]; exact j.keys)
      · rename_i hbig
        obtain ⟨⟨q, ids⟩, hw, h⟩ := obind_ok h
        cases h
        have sm := sm_chainWrite _ _ hw
        have sf := (keeps_chainWrite _ _ hw).2
        refine jm_step (b := []) j (upd_other _ _ _) ?_ ?_ ?_ ?_ hb
        · rw [hown]; exact (KM.of_same sm.1 []).trans_same rfl
        · rw [mownOf_big _ (by rw [upd_self]; exact Nat.le_of_not_lt hbig)]; exact nil_sub _
        · rw [others_setStart, sf.2.2.2]
        · exact keys_setStart _ _ (by rw [sf.2.2.2]; exact j.keys)
  · rename_i hstart
    split at h
    · rename_i hsmallOld
      have hown : mownOf p.starts L slot = [startOf p slot] := mownOf_mini hsmallOld hstart
      split at h
      · rename_i hsmall
        obtain ⟨ids, hi, h⟩ := obind_ok h
        split at h
        · cases h
        · obtain ⟨⟨q, ids'⟩, hw, h⟩ := obind_ok h
          cases h
          have g := grow_miniChainWrite _ hw
          have kk := kk_miniChainWrite _ hw
          have hhead : hdl ids = [startOf p slot] := miniChainIds_head hi hstart
          have hne : ids ≠ [] := by intro he; subst he; simp [hdl] at hhead
          have hhead' : hdl ids' = [startOf p slot] := by rw [hdl_of_prefix hne g.2]; exact hhead
          refine jm_step (b := [startOf p slot]) j (upd_other _ _ _) ?_ ?_ ?_ ?_ hb
          · rw [hown]
            have := g.1.km
            rw [hhead, hhead'] at this
            exact this
          · rw [kk.starts]
            refine (mownOf_sublist_hd1 p.starts _ slot).trans ?_
            have hs' : ¬ startIn p.starts slot = END := hstart
            unfold hd1; rw [if_neg hs']
            exact List.Sublist.refl _
          · rw [kk.starts]
          · rw [kk.starts]; exact j.keys
      · rename_i hbig
        obtain ⟨ids, hi, h⟩ := obind_ok h
        obtain ⟨tmp, hr, h⟩ := obind_ok h
        obtain ⟨q1, hf, h⟩ := obind_ok h
        obtain ⟨⟨q2, ids1⟩, hw1, h⟩ := obind_ok h
        obtain ⟨⟨q3, ids2⟩, hw2, h⟩ := obind_ok h
        cases h
        have s1 := shrink_freeMiniChainFrom hf
        have kk := kk_freeMiniChainFrom hf
        have sm1 := sm_chainWrite _ _ hw1
        have sm2 := sm_chainWrite _ _ hw2
        have sf1 := (keeps_chainWrite _ _ hw1).2
        have sf2 := (keeps_chainWrite _ _ hw2).2
        have hhd : hd1 (startOf p slot) = [startOf p slot] := by unfold hd1; rw [if_neg hstart]
        refine jm_step (b := []) j (upd_other _ _ _) ?_ ?_ ?_ ?_ hb
        · rw [hown, ← hhd]
          exact (s1.toKM.trans_same (sm1.1)).trans_same (by show q3.miniFat = q2.miniFat; exact sm2.1)
        · rw [mownOf_big _ (by rw [upd_self]; exact Nat.le_of_not_lt hbig)]; exact nil_sub _
        · rw [others_setStart, sf2.2.2.2, sf1.2.2.2, kk.starts]
        · exact keys_setStart _ _ (by rw [sf2.2.2.2, sf1.2.2.2, kk.starts]; exact j.keys)
    · rename_i hbigOld
      have hown : mownOf p.starts L slot = [] := mownOf_big _ (Nat.le_of_not_lt hbigOld)
      obtain ⟨ids, hi, h⟩ := obind_ok h
      split at h
      · cases h
      · obtain ⟨⟨q, ids'⟩, hw, h⟩ := obind_ok h
        cases h
        have sm := sm_chainWrite _ _ hw
        have sf := (keeps_chainWrite _ _ hw).2
        refine jm_step (b := []) j (upd_other _ _ _) ?_ ?_ ?_ ?_ hb
        · rw [hown]; exact KM.of_same sm.1 []
        · rw [mownOf_big _ (by rw [upd_self]; have := Nat.le_of_not_lt hbigOld; omega)]; exact nil_sub _
        · rw [sf.2.2.2]
        · rw [sf.2.2.2]; exact j.keys

end CfbVerif.Phys

namespace CfbVerif.Phys
open CfbVerif.Raw

theorem jm_resize {p p' : P} {L : Nat → Nat} {slot newLen : Nat}
    (h : resize p slot (L slot) newLen = .ok p') (j : JM p L) (hb : p'.miniFat.size ≤ MAXREG + 1) :
    JM p' (upd L slot newLen) := by
  unfold resize at h
  dsimp only [bind, pure] at h
  split at h
  · rename_i hend
    have hown : mownOf p.starts L slot = [] := mownOf_noStart L hend
    split at h
    · cases h
    · split at h
      · obtain ⟨⟨q, ids⟩, hw, h⟩ := obind_ok h
        cases h
        have kk := kk_miniChainSetLen hw
        have km : KM p q [] (hdl ids) := by
          rcases miniChainSetLen_shape (Or.inr rfl) hw with ⟨s, e⟩ | ⟨g, _⟩
          · have := s.toKM; simpa [hdl, e] using this
          · simpa [hdl] using g.km
        refine jm_step (b := hdl ids) j (upd_other _ _ _) ?_ (mownOf_setStart_sublist _ _ _ _) ?_ ?_ hb
        · rw [hown]; exact km.trans_same rfl
        · rw [others_setStart, kk.starts]
        · exact keys_setStart _ _ (by rw [kk.starts]; exact j.keys)
      · rename_i hbig
        obtain ⟨⟨q, ids⟩, hw, h⟩ := obind_ok h
        cases h
        have hpos : 0 < newLen := by have := CUTOFF_pos; omega
        have sm := sm_chainSetLen hw
        have sf := (keeps_chainSetLen hpos hw).2
        refine jm_step (b := []) j (upd_other _ _ _) ?_ ?_ ?_ ?_ hb
        · rw [hown]; exact (KM.of_same sm.1 []).trans_same rfl
        · rw [mownOf_big _ (by rw [upd_self]; exact Nat.le_of_not_lt hbig)]; exact nil_sub _
        · rw [others_setStart, sf.2.2.2]
        · exact keys_setStart _ _ (by rw [sf.2.2.2]; exact j.keys)
  · rename_i hstart
    have hhd : hd1 (startOf p slot) = [startOf p slot] := by unfold hd1; rw [if_neg hstart]
    split at h
    · rename_i hsmallOld
      have hown : mownOf p.starts L slot = [startOf p slot] := mownOf_mini hsmallOld hstart
      split at h
      · obtain ⟨q, hf, h⟩ := obind_ok h
        cases h
        have s1 := shrink_freeMiniChainFrom hf
        have kk := kk_freeMiniChainFrom hf
        refine jm_step (b := []) j (upd_other _ _ _) ?_ ?_ ?_ ?_ hb
        · rw [hown, ← hhd]; exact s1.toKM.trans_same rfl
        · rw [mownOf_noStart _ (startIn_setStart _ _ _)]; exact nil_sub _
        · rw [others_setStart, kk.starts]
        · exact keys_setStart _ _ (by rw [kk.starts]; exact j.keys)
      · rename_i hnz
        split at h
        · rename_i hsmall
          obtain ⟨ids, hi, h⟩ := obind_ok h
          obtain ⟨⟨q, ids'⟩, hs, h⟩ := obind_ok h
          have kk1 := kk_miniChainSetLen hs
          have hhead : hdl ids = [startOf p slot] := miniChainIds_head hi hstart
          have hne : ids ≠ [] := by intro he; subst he; simp [hdl] at hhead
          have hpos : 0 < newLen := Nat.pos_of_ne_zero hnz
          have shape := miniChainSetLen_shape (Or.inl hpos) hs
          have hhead' : hdl ids' = [startOf p slot] := by
            rcases shape with ⟨_, e⟩ | ⟨_, pre⟩
            · rw [e]; exact hhead
            · rw [hdl_of_prefix hne pre]; exact hhead
          have hne' : ids' ≠ [] := by intro he; subst he; simp [hdl] at hhead'
          have fin : ∀ {q2 : P}, KM p q2 [startOf p slot] [startOf p slot] → q2.starts = p.starts → q2 = p' →
              JM p' (upd L slot newLen) := by
            intro q2 km est e
            subst e
            refine jm_step (b := [startOf p slot]) j (upd_other _ _ _) (by rw [hown]; exact km) ?_ ?_ ?_ hb
            · rw [est]
              refine (mownOf_sublist_hd1 p.starts _ slot).trans ?_
              have hs' : ¬ startIn p.starts slot = END := hstart
              unfold hd1; rw [if_neg hs']
              exact List.Sublist.refl _
            · rw [est]
            · rw [est]; exact j.keys
          split at h
          · split at h
            · cases h
            · obtain ⟨⟨q2, ids2⟩, hw, h⟩ := obind_ok h
              cases h
              have g2 := grow_miniChainWrite _ hw
              have kk2 := kk_miniChainWrite _ hw
              have hhead2 : hdl ids2 = [startOf p slot] := by rw [hdl_of_prefix hne' g2.2]; exact hhead'
              have g2' : GrowM q q2 [startOf p slot] [startOf p slot] := by
                have := g2.1; rw [hhead', hhead2] at this; exact this
              have km : KM p q2 [startOf p slot] [startOf p slot] := by
                rcases shape with ⟨s, _⟩ | ⟨g, _⟩
                · have s' : ShrinkM p q [startOf p slot] [startOf p slot] := by
                    have := s; rw [hhead, hhead'] at this; exact this
                  exact s'.then g2'.km
                · have g' : GrowM p q [startOf p slot] [startOf p slot] := by
                    have := g; rw [hhead, hhead'] at this; exact this
                  exact (g'.trans g2').km
              exact fin km (by rw [kk2.starts, kk1.starts]) rfl
          · cases h
            have km : KM p q [startOf p slot] [startOf p slot] := by
              rcases shape with ⟨s, _⟩ | ⟨g, _⟩
              · have := s.toKM; rw [hhead, hhead'] at this; exact this
              · have := g.km; rw [hhead, hhead'] at this; exact this
            exact fin km kk1.starts rfl
        · rename_i hbig
          obtain ⟨ids, hi, h⟩ := obind_ok h
          obtain ⟨tmp, hr, h⟩ := obind_ok h
          obtain ⟨q1, hf, h⟩ := obind_ok h
          obtain ⟨⟨q2, ids1⟩, hw1, h⟩ := obind_ok h
          obtain ⟨⟨q3, ids2⟩, hs, h⟩ := obind_ok h
          cases h
          have hpos : 0 < newLen := by have := CUTOFF_pos; omega
          have s1 := shrink_freeMiniChainFrom hf
          have kk := kk_freeMiniChainFrom hf
          have sm1 := sm_chainWrite _ _ hw1
          have sm2 := sm_chainSetLen hs
          have sf1 := (keeps_chainWrite _ _ hw1).2
          have sf2 := (keeps_chainSetLen hpos hs).2
          refine jm_step (b := []) j (upd_other _ _ _) ?_ ?_ ?_ ?_ hb
          · rw [hown, ← hhd]
            exact (s1.toKM.trans_same (sm1.1)).trans_same (by show q3.miniFat = q2.miniFat; exact sm2.1)
          · rw [mownOf_big _ (by rw [upd_self]; exact Nat.le_of_not_lt hbig)]; exact nil_sub _
          · rw [others_setStart, sf2.2.2.2, sf1.2.2.2, kk.starts]
          · exact keys_setStart _ _ (by rw [sf2.2.2.2, sf1.2.2.2, kk.starts]; exact j.keys)
    · rename_i hbigOld
      have hown : mownOf p.starts L slot = [] := mownOf_big _ (Nat.le_of_not_lt hbigOld)
      split at h
      · obtain ⟨q, hf, h⟩ := obind_ok h
        cases h
        have sm := sm_freeChain _ hf
        have sf := sf_freeChain _ hf
        refine jm_step (b := []) j (upd_other _ _ _) ?_ ?_ ?_ ?_ hb
        · rw [hown]; exact (KM.of_same sm.1 []).trans_same rfl
        · rw [mownOf_noStart _ (startIn_setStart _ _ _)]; exact nil_sub _
        · rw [others_setStart, sf.2.2.2]
        · exact keys_setStart _ _ (by rw [sf.2.2.2]; exact j.keys)
      · split at h
        · obtain ⟨ids, hi, h⟩ := obind_ok h
          obtain ⟨tmp, hr, h⟩ := obind_ok h
          obtain ⟨q1, hf, h⟩ := obind_ok h
          obtain ⟨⟨q2, ids1⟩, hw, h⟩ := obind_ok h
          cases h
          have sm := sm_freeChain _ hf
          have sf := sf_freeChain _ hf
          have g := grow_miniChainWrite _ hw
          have kk := kk_miniChainWrite _ hw
          refine jm_step (b := hdl ids1) j (upd_other _ _ _) ?_ (mownOf_setStart_sublist _ _ _ _) ?_ ?_ hb
          · rw [hown]
            have : KM q1 q2 [] (hdl ids1) := by simpa [hdl] using g.1.km
            exact (KM.same_trans sm.1 this).trans_same rfl
          · rw [others_setStart, kk.starts, sf.2.2.2]
          · exact keys_setStart _ _ (by rw [kk.starts, sf.2.2.2]; exact j.keys)
        · rename_i hbig
          obtain ⟨ids, hi, h⟩ := obind_ok h
          obtain ⟨⟨q, ids'⟩, hs, h⟩ := obind_ok h
          have hpos : 0 < newLen := by have := CUTOFF_pos; omega
          have sm1 := sm_chainSetLen hs
          have sf1 := (keeps_chainSetLen hpos hs).2
          have fin : ∀ {q2 : P}, q2.miniFat = p.miniFat → q2.starts = p.starts → q2 = p' → JM p' (upd L slot newLen) := by
            intro q2 em est e
            subst e
            refine jm_step (b := []) j (upd_other _ _ _) (by rw [hown]; exact KM.of_same em []) ?_ ?_ ?_ hb
            · rw [mownOf_big _ (by rw [upd_self]; exact Nat.le_of_not_lt hbig)]; exact nil_sub _
            · rw [est]
            · rw [est]; exact j.keys
          split at h
          · split at h
            · cases h
            · obtain ⟨⟨q2, ids2⟩, hw, h⟩ := obind_ok h
              cases h
              have sm2 := sm_chainWrite _ _ hw
              have sf2 := (keeps_chainWrite _ _ hw).2
              exact fin (by show q2.miniFat = p.miniFat; rw [sm2.1, sm1.1]) (by show q2.starts = p.starts; rw [sf2.2.2.2, sf1.2.2.2]) rfl
          · cases h; exact fin sm1.1 sf1.2.2.2 rfl

theorem jm_freeStream {p p' : P} {L : Nat → Nat} {slot : Nat}
    (h : freeStream p slot (L slot) = .ok p') (j : JM p L) (hb : p'.miniFat.size ≤ MAXREG + 1) :
    JM p' (upd L slot 0) := by
  unfold freeStream at h
  dsimp only [bind, pure] at h
  have hown' : ∀ st : List (Nat × Nat), startIn st slot = END → (mownOf st (upd L slot 0) slot).Sublist [] := by
    intro st hst
    rw [mownOf_noStart _ hst]; exact nil_sub _
  have hdrop : ∀ q : P, (q.starts.map (·.1)).Nodup → startIn (dropStart q slot).starts slot = END := by
    intro q hk
    show startIn (others q.starts slot) slot = END
    unfold startIn
    have : (others q.starts slot).find? (·.1 == slot) = none := by
      apply List.find?_eq_none.mpr
      intro e he
      have := (List.mem_filter.mp he).2
      simpa using this
    rw [this]; rfl
  split at h
  · rename_i hsmall
    obtain ⟨q, hf, h⟩ := obind_ok h
    cases h
    have s1 := shrink_freeMiniChainFrom hf
    have kk := kk_freeMiniChainFrom hf
    have hkq : (q.starts.map (·.1)).Nodup := by rw [kk.starts]; exact j.keys
    refine jm_step (b := []) j (upd_other _ _ _) ?_ (hown' _ (hdrop q hkq)) ?_ ?_ hb
    · have hown : mownOf p.starts L slot = hd1 (startOf p slot) := by
        unfold mownOf hd1
        by_cases he : startIn p.starts slot = END
        · have he' : startOf p slot = END := he
          simp [he, he']
        · have he' : ¬ startOf p slot = END := he
          simp [hsmall, he, he']
          rfl
      rw [hown]
      exact s1.toKM.trans_same rfl
    · rw [others_dropStart, kk.starts]
    · show ((others q.starts slot).map (·.1)).Nodup
      exact (keys_others slot hkq).1
  · rename_i hbig
    obtain ⟨q, hf, h⟩ := obind_ok h
    cases h
    have sm := sm_freeChain _ hf
    have sf := sf_freeChain _ hf
    have hkq : (q.starts.map (·.1)).Nodup := by rw [sf.2.2.2]; exact j.keys
    refine jm_step (b := []) j (upd_other _ _ _) ?_ (hown' _ (hdrop q hkq)) ?_ ?_ hb
    · rw [mownOf_big _ (Nat.le_of_not_lt hbig)]
      exact (KM.of_same sm.1 []).trans_same rfl
    · rw [others_dropStart, sf.2.2.2]
    · show ((others q.starts slot).map (·.1)).Nodup
      exact (keys_others slot hkq).1

theorem jm_of_same {p p' : P} {L : Nat → Nat} (hm : p'.miniFat = p.miniFat) (hs : p'.starts = p.starts) (j : JM p L) :
    JM p' L := ⟨by rw [hm, hs]; exact j.ns, by rw [hs]; exact j.keys⟩

theorem jm_ensureDirSlot {p p' : P} {L : Nat → Nat} {slot : Nat} (h : ensureDirSlot p slot = .ok p') (j : JM p L) :
    JM p' L := by
  unfold ensureDirSlot at h
  split at h
  · cases h; exact j
  · split at h
    · split at h
      · rename_i q id he
        cases h
        exact jm_of_same (by show q.miniFat = p.miniFat; exact (sm_extendChain he).1)
          (by show q.starts = p.starts; exact (sf_extendChain he).2.2.2) j
      · cases h
      · cases h
      · cases h
    · cases h; exact jm_of_same (p := p) rfl rfl j

theorem jm_reopen {p p' : P} {L : Nat → Nat} (h : Phys.reopen p = .ok p') (j : JM p L) : JM p' L := by
  unfold Phys.reopen at h
  obtain ⟨chain, hc, h⟩ := bind_ok h
  cases h
  exact jm_of_same (p := p) rfl rfl j

theorem jm_create {p : P} {L : Nat → Nat} {slot : Nat} (hfree : startOf p slot = END) (j : JM p L) :
    JM (setStart p slot END) (upd L slot 0) := by
  have hb : (setStart p slot END).miniFat.size ≤ MAXREG + 1 := j.ns.bound
  refine jm_step (b := []) j (upd_other _ _ _) ?_ ?_ (others_setStart _ _ _) (keys_setStart _ _ j.keys) hb
  · rw [mownOf_noStart L hfree]; exact KM.of_same rfl []
  · rw [mownOf_noStart _ (startIn_setStart _ _ _)]; exact nil_sub _

theorem jm_init (v4 : Bool) : JM (Phys.create v4) (fun _ => 0) := by
  refine ⟨?_, by simp [Phys.create]⟩
  have h1 : (Phys.create v4).miniFat = #[] := rfl
  have h2 : mregs (Phys.create v4).starts (fun _ => 0) = [] := rfl
  rw [h1, h2]
  refine ⟨by simp, ?_, ?_, List.nodup_nil, ?_, ?_⟩
  · intro i j v hi; simp at hi
  · intro i v hi; simp at hi
  · intro h hh; cases hh
  · intro h hh; cases hh

/-- the MiniFAT part of every step of the store machine; the bound is asked of the table *after*
the step (within a step, releases come before allocations) -/
theorem jm_gstep {g g' : G} {op : GOp} (h : gstep g op = .ok g') (j : JM g.p g.L)
    (hb : g'.p.miniFat.size ≤ MAXREG + 1) : JM g'.p g'.L := by
  cases op with
  | ensure s => obtain ⟨q, hq, h⟩ := obind_ok h; cases h; exact jm_ensureDirSlot hq j
  | create s =>
    simp only [gstep] at h
    split at h
    · rename_i hfree; cases h; exact jm_create hfree j
    · cases h
  | write s off bs => obtain ⟨r, hq, h⟩ := obind_ok h; cases h; exact jm_writeData hq j hb
  | resize s n => obtain ⟨q, hq, h⟩ := obind_ok h; cases h; exact jm_resize hq j hb
  | free s => obtain ⟨q, hq, h⟩ := obind_ok h; cases h; exact jm_freeStream hq j hb
  | reopen => obtain ⟨q, hq, h⟩ := obind_ok h; cases h; exact jm_reopen hq j

/-- every state the run passes through between operations has its MiniFAT within the range of
regular mini sector numbers -/
def MiniBounded (g : G) : List GOp → Prop
  | [] => True
  | op :: rest =>
    match gstep g op with
    | .ok g' => g'.p.miniFat.size ≤ MAXREG + 1 ∧ MiniBounded g' rest
    | _ => MiniBounded g rest

/-- the same as a computation -/
def miniBoundedB (g : G) : List GOp → Bool
  | [] => true
  | op :: rest =>
    match gstep g op with
    | .ok g' => decide (g'.p.miniFat.size ≤ MAXREG + 1) && miniBoundedB g' rest
    | _ => miniBoundedB g rest

theorem miniBounded_of_B (ops : List GOp) : ∀ g : G, miniBoundedB g ops = true → MiniBounded g ops := by
  induction ops with
  | nil => intro g _; trivial
  | cons op rest ih =>
    intro g h
    simp only [miniBoundedB, MiniBounded] at h ⊢
    cases hs : gstep g op with
    | ok g' =>
      simp only [hs, Bool.and_eq_true, decide_eq_true_eq] at h ⊢
      exact ⟨h.1, ih g' h.2⟩
    | err k => simp only [hs] at h ⊢; exact ih g h
    | panic s => simp only [hs] at h ⊢; exact ih g h
    | hang s => simp only [hs] at h ⊢; exact ih g h

theorem jm_grun (ops : List GOp) : ∀ g : G, JM g.p g.L → MiniBounded g ops → JM (grun g ops).p (grun g ops).L := by
  induction ops with
  | nil => intro g j _; exact j
  | cons op rest ih =>
    intro g j hb
    simp only [grun, MiniBounded] at hb ⊢
    cases hs : gstep g op with
    | ok g' =>
      simp only [hs] at hb ⊢
      exact ih g' (jm_gstep hs j hb.1) hb.2
    | err k => simp only [hs] at hb ⊢; exact ih g j hb
    | panic s => simp only [hs] at hb ⊢; exact ih g j hb
    | hang s => simp only [hs] at hb ⊢; exact ih g j hb

/-- **no mini sector is ever shared**: after every history of stream-level operations on a fresh
file no two MiniFAT cells point at the same mini sector, no cell points at a FREE one, and the first
mini sectors of all streams below 4096 bytes are distinct, in use and pointed at by nothing -/
theorem noShareMini_reachable (v4 : Bool) (ops : List GOp) :
    MiniBounded { p := Phys.create v4, L := fun _ => 0 } ops →
    let g := grun { p := Phys.create v4, L := fun _ => 0 } ops
    JM g.p g.L :=
  fun hb => jm_grun ops _ (jm_init v4) hb

end CfbVerif.Phys
