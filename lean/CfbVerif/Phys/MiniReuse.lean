import CfbVerif.Phys.RootReach
/-!
# Growing a small stream into reused mini sectors (the case C08 names: "space being reused")

When `MiniChain::set_len` needs one more mini sector and the mini stream does not grow — the mini sector
comes from the free list of the MiniFAT, it belonged to a truncated or removed stream and still holds
its bytes — `growOneMini` changes nothing but the in-memory MiniFAT and its free list (`TablesOnly`):
no sector, no FAT cell, no start.  The zero-fill that follows (`miniZero_blk`) therefore makes the
reused mini sector read as 64 zeros and leaves every other mini sector as it was *before the
allocation* (`miniGrow_step_reuse`).  "The mini stream did not grow" is observable (`rootLen`
unchanged) and is exactly the reuse path: the other path adds 64 to the root entry's length.
-/
namespace CfbVerif.Phys
open CfbVerif.Raw

/-- only the in-memory MiniFAT and the list of free mini sectors differ -/
def TablesOnly (p p' : P) : Prop := p' = { p with miniFat := p'.miniFat, freeMini := p'.freeMini }

theorem TablesOnly.refl (p : P) : TablesOnly p p := rfl
theorem TablesOnly.trans {p q r : P} (a : TablesOnly p q) (b : TablesOnly q r) : TablesOnly p r := by
  unfold TablesOnly at *
  rw [b, a]

theorem TablesOnly.sectors {p p' : P} (h : TablesOnly p p') : p'.sectors = p.sectors := by rw [h]
theorem TablesOnly.fat {p p' : P} (h : TablesOnly p p') : p'.fat = p.fat := by rw [h]
theorem TablesOnly.rootStart {p p' : P} (h : TablesOnly p p') : p'.rootStart = p.rootStart := by rw [h]
theorem TablesOnly.v4 {p p' : P} (h : TablesOnly p p') : p'.v4 = p.v4 := by rw [h]

theorem tablesOnly_setMiniFat {p p' : P} {i v : Nat} (h : setMiniFat p i v = .ok p') : TablesOnly p p' := by
  have := (setMiniFat_ok h).1
  unfold TablesOnly
  rw [this]

theorem tablesOnly_popFreeMini {fuel : Nat} {p p1 : P} {r : Option Nat} (h : popFreeMini p fuel = .ok (p1, r)) :
    TablesOnly p p1 := by
  have := (popFreeMini_ok fuel h).1
  unfold TablesOnly
  rw [this]

/-- `allocate_mini_sector` that did not extend the mini stream took the mini sector from the free list:
nothing but the in-memory MiniFAT and the free list changed -/
theorem allocateMiniSector_tablesOnly {p p' : P} {v id : Nat} (h : allocateMiniSector p v = .ok (p', id))
    (hr : p'.rootLen = p.rootLen) : TablesOnly p p' := by
  unfold allocateMiniSector at h
  obtain ⟨⟨p1, reuse⟩, hp, h⟩ := bind_ok h
  have t0 := tablesOnly_popFreeMini hp
  dsimp only at h
  split at h
  · obtain ⟨p2, hs, h⟩ := bind_ok h
    cases h
    exact t0.trans (tablesOnly_setMiniFat hs)
  · obtain ⟨p2, h2, h⟩ := bind_ok h
    obtain ⟨p3, h3, h⟩ := bind_ok h
    obtain ⟨p4, h4, h⟩ := bind_ok h
    cases h
    exfalso
    have r1 : p1.rootLen = p.rootLen := rl0_popFreeMini hp
    have r2 : p2.rootLen = p1.rootLen := rl0_ensureMiniFatRoom h2
    have r3 := appendMiniSector_rootLen h3
    have r4 := rl0_setMiniFat h4
    unfold SameRL at r4
    have hM : MINI = 64 := rfl
    rw [hM] at r3
    omega

theorem growOneMini_tablesOnly {p p' : P} {ids ids' : List Nat} (h : growOneMini p ids = .ok (p', ids'))
    (hr : p'.rootLen = p.rootLen) : TablesOnly p p' ∧ ∃ m, ids' = ids ++ [m] := by
  unfold growOneMini at h
  split at h
  · split at h
    · rename_i last _ q id he
      cases h
      refine ⟨?_, id, rfl⟩
      unfold extendMiniChain at he
      obtain ⟨lst, _, he⟩ := bind_ok he
      obtain ⟨⟨p1, i1⟩, ha, he⟩ := bind_ok he
      obtain ⟨p2, hs, he⟩ := bind_ok he
      cases he
      have r2 := rl0_setMiniFat hs
      unfold SameRL at r2
      exact (allocateMiniSector_tablesOnly ha (by omega)).trans (tablesOnly_setMiniFat hs)
    · cases h
    · cases h
    · cases h
  · split at h
    · rename_i q id he
      cases h
      exact ⟨allocateMiniSector_tablesOnly he hr, id, rfl⟩
    · cases h
    · cases h
    · cases h

/-- **one step of `MiniChain::set_len` growing into a reused mini sector**: the allocation changes no
sector, and the zero-fill makes the reused mini sector `m` read as 64 zeros — whatever the truncated or
removed stream it belonged to left in it — while every other mini sector of the mini stream reads what
it read before the step -/
theorem miniGrow_step_reuse {p p1 : P} {ids ids1 : List Nat} (h : growOneMini p ids = .ok (p1, ids1))
    (hr : p1.rootLen = p.rootLen) (ss : SS p) {root : List Nat} (hroot : chainIds p p.rootStart = .ok root)
    (hp : Present p root) (nd : root.Nodup) :
    ∃ m, ids1 = ids ++ [m] ∧ (m / p.per < root.length →
      ∃ p2, miniWriteAt p1 m 0 (List.replicate MINI 0) = .ok p2 ∧ miniBlk p2 root m = List.replicate 64 0 ∧
        (∀ m2, m2 ≠ m → m2 / p.per < root.length → miniBlk p2 root m2 = miniBlk p root m2)) := by
  obtain ⟨t, m, hm⟩ := growOneMini_tablesOnly h hr
  refine ⟨m, hm, ?_⟩
  intro hin
  have hS : p1.S = p.S := S_of_v4 t.v4
  have hper : p1.per = p.per := by unfold P.per; rw [hS]
  have ss1 : SS p1 := by
    intro i sec hi
    rw [t.sectors] at hi
    rw [hS]; exact ss i sec hi
  have hroot1 : chainIds p1 p1.rootStart = .ok root := by
    unfold chainIds
    rw [t.fat, t.rootStart]
    exact hroot
  have hp1 : Present p1 root := by
    intro id hid
    rw [t.sectors]; exact hp id hid
  have hblk : ∀ m', miniBlk p1 root m' = miniBlk p root m' := by
    intro m'
    unfold miniBlk chainBytes secList
    rw [t.sectors]
  obtain ⟨p2, hw, hz, hfr⟩ := miniZero_blk ss1 hroot1 hp1 nd (m := m) (by rw [hper]; exact hin)
  refine ⟨p2, hw, hz, ?_⟩
  intro m2 hne h2
  rw [hfr m2 hne (by rw [hper]; exact h2), hblk]

end CfbVerif.Phys
