import CfbVerif.Phys.NoLeak
/-!
# Every mini sector in use lies on exactly one mini stream's chain

`NC` (no sharing + every head has a chain + no leaks) for the in-memory MiniFAT, lifted as
`Phys/NoShareMini.lean` lifts `NSH`: operations are releasing or allocating, a stream-level step is
a releasing part followed by an allocating part, the range hypothesis is asked of the MiniFAT
between operations.
-/
namespace CfbVerif.Phys
open CfbVerif.Raw


/-- with the final MiniFAT in range, heads `a` become `a'` and all others stay -/
def KMC (p p' : P) (a a' : List Nat) : Prop :=
  p'.miniFat.size ≤ MAXREG + 1 → ∀ X, NC p.miniFat (a ++ X) → NC p'.miniFat (a' ++ X)

/-- no release: every intermediate MiniFAT is at most as long as the final one -/
structure GrowMC (p p' : P) (a a' : List Nat) : Prop where
  mono : p.miniFat.size ≤ p'.miniFat.size
  km : KMC p p' a a'

/-- no allocation: nothing to bound -/
def ShrinkMC (p p' : P) (a a' : List Nat) : Prop :=
  ∀ X, NC p.miniFat (a ++ X) → NC p'.miniFat (a' ++ X)

theorem GrowMC.refl (p : P) (a : List Nat) : GrowMC p p a a := ⟨Nat.le_refl _, fun _ _ n => n⟩
theorem ShrinkMC.refl (p : P) (a : List Nat) : ShrinkMC p p a a := fun _ n => n

theorem GrowMC.trans {p q r : P} {a b c : List Nat} (h1 : GrowMC p q a b) (h2 : GrowMC q r b c) : GrowMC p r a c :=
  ⟨Nat.le_trans h1.mono h2.mono, fun hb X n => h2.km hb X (h1.km (Nat.le_trans h2.mono hb) X n)⟩

theorem ShrinkMC.trans {p q r : P} {a b c : List Nat} (h1 : ShrinkMC p q a b) (h2 : ShrinkMC q r b c) : ShrinkMC p r a c :=
  fun X n => h2 X (h1 X n)

theorem ShrinkMC.then {p q r : P} {a b c : List Nat} (h1 : ShrinkMC p q a b) (h2 : KMC q r b c) : KMC p r a c :=
  fun hb X n => h2 hb X (h1 X n)

theorem ShrinkMC.toKM {p q : P} {a b : List Nat} (h : ShrinkMC p q a b) : KMC p q a b := fun _ X n => h X n

theorem GrowMC.of_same {p q : P} (h : q.miniFat = p.miniFat) (a : List Nat) : GrowMC p q a a :=
  ⟨by rw [h]; exact Nat.le_refl _, fun _ _ n => by rw [h]; exact n⟩

theorem ShrinkMC.of_same {p q : P} (h : q.miniFat = p.miniFat) (a : List Nat) : ShrinkMC p q a a :=
  fun _ n => by rw [h]; exact n

theorem KMC.frame {p p' : P} {a a' : List Nat} (Y : List Nat) (h : KMC p p' a a') : KMC p p' (Y ++ a) (Y ++ a') :=
  fun hb X n => (h hb (Y ++ X) (n.perm (perm_front Y a X))).perm (perm_front Y a' X).symm

theorem GrowMC.frame {p p' : P} {a a' : List Nat} (Y : List Nat) (h : GrowMC p p' a a') : GrowMC p p' (Y ++ a) (Y ++ a') :=
  ⟨h.mono, h.km.frame Y⟩

theorem ShrinkMC.frame {p p' : P} {a a' : List Nat} (Y : List Nat) (h : ShrinkMC p p' a a') : ShrinkMC p p' (Y ++ a) (Y ++ a') :=
  fun X n => (h (Y ++ X) (n.perm (perm_front Y a X))).perm (perm_front Y a' X).symm

/-! ## primitives -/

theorem growc_allocateMiniSector {p p' : P} {id : Nat} (h : allocateMiniSector p END = .ok (p', id)) :
    GrowMC p p' [] [id] := by
  rcases allocateMiniSector_spec h with ⟨hfree, hlt, he⟩ | ⟨hid, he⟩
  · refine ⟨by rw [he]; simp, ?_⟩
    intro hb X n
    rw [he] at hb ⊢
    refine n.claim hb ?_ (by simp [hlt]) (Or.inl hfree) ?_
    · intro j _ hne
      simp only [Array.getElem?_setIfInBounds]
      rw [if_neg (fun e => hne e.symm)]
    · intro j v hj _ hv
      have := lt_of_get hv
      simp at this; omega
  · refine ⟨by rw [he]; simp, ?_⟩
    intro hb X n
    rw [he] at hb ⊢
    subst hid
    refine n.claim hb ?_ (by simp) (Or.inr (Nat.le_refl _)) ?_
    · intro j hj _
      simp only [Array.getElem?_push]
      rw [if_neg (by omega)]
    · intro j v hj hne hv
      have := lt_of_get hv
      simp at this; omega

theorem growc_extendMiniChain {p p' : P} {start id : Nat} (h : extendMiniChain p start = .ok (p', id)) (a : List Nat) :
    GrowMC p p' a a := by
  unfold extendMiniChain at h
  obtain ⟨last, hl, h⟩ := bind_ok h
  obtain ⟨⟨p1, id1⟩, ha, h⟩ := bind_ok h
  obtain ⟨p2, hs, h⟩ := bind_ok h
  cases h
  have hlast := lastOfMiniChain_ok _ _ hl
  have g1 := growc_allocateMiniSector ha
  have spec := allocateMiniSector_spec ha
  have hne : last ≠ id := by
    intro he; subst he
    rcases spec with ⟨hfree, _, _⟩ | ⟨hid, _⟩
    · rw [hlast.2] at hfree; exact END_ne_FREE (Option.some.inj hfree)
    · omega
  have hcell : p1.miniFat[last]? = some END := by
    rcases spec with ⟨_, _, he⟩ | ⟨_, he⟩
    · rw [he]; simp only [Array.getElem?_setIfInBounds]; rw [if_neg (fun e => hne e.symm)]; exact hlast.2
    · rw [he]; simp only [Array.getElem?_push]; rw [if_neg (by omega)]; exact hlast.2
  have hp' : p'.miniFat = p1.miniFat.setIfInBounds last id := by
    rcases setMiniFat_ok2 hs with ⟨he, _⟩ | ⟨_, he⟩
    · have := lt_of_get hcell; omega
    · exact he
  refine ⟨by rw [hp']; simpa using g1.mono, ?_⟩
  intro hb X n
  rw [hp'] at hb ⊢
  have hb1 : p1.miniFat.size ≤ MAXREG + 1 := by simpa using hb
  have n1 : NC p1.miniFat (id :: (a ++ X)) := by simpa using g1.km hb1 (a ++ X) (by simpa using n)
  have hidc : p1.miniFat[id]? = some END := by
    rcases spec with ⟨_, hlt, he⟩ | ⟨hid, he⟩
    · rw [he]; simp [hlt]
    · rw [he, hid]; simp
  exact n1.link hcell hne hidc


theorem shrinkc_freeMiniSector {p p' : P} {id next : Nat} (hnext : p.miniFat[id]? = some next)
    (h : freeMiniSector p id = .ok p') :
    ShrinkMC p p' [id] (if next ≤ MAXREG then [next] else []) := by
  unfold freeMiniSector at h
  rw [hnext] at h
  dsimp only at h
  split at h
  · cases h
  · rename_i hnf
    obtain ⟨p1, hs, h⟩ := bind_ok h
    cases h
    have hp1 : p1.miniFat = p.miniFat.setIfInBounds id FREE := by
      rcases setMiniFat_ok2 hs with ⟨he, _⟩ | ⟨_, he⟩
      · have := lt_of_get hnext; omega
      · exact he
    intro X n
    have n1 := (show NC p.miniFat (id :: X) by simpa using n).freeHead hnext hnf
    rw [← hp1] at n1
    exact nc_trim _ (by simpa using n1)


end CfbVerif.Phys

/-! ## mini chains -/
namespace CfbVerif.Phys
open CfbVerif.Raw

theorem shrinkc_freeMiniChain (fuel : Nat) : ∀ {p p' : P} {cur : Nat},
    freeMiniChain p fuel cur = .ok p' → ShrinkMC p p' (hd1 cur) [] := by
  induction fuel with
  | zero => intro p p' cur h; simp [freeMiniChain] at h
  | succ fuel ih =>
    intro p p' cur h
    unfold freeMiniChain at h
    split at h
    · rename_i he
      cases h
      intro X n; simpa [hd1, he] using n
    · rename_i hne
      split at h
      · cases h
      · rename_i next hn
        split at h
        · rename_i p1 hf
          have ns := nextSector_ok (fat := p.miniFat) hn
          have s1 := shrinkc_freeMiniSector ns.2.1 hf
          have s2 := ih h
          intro X n
          have n0 : NC p.miniFat ([cur] ++ X) := by simpa [hd1, hne] using n
          have n1 := s1 X n0
          refine s2 X ?_
          rcases nextSector_class hn with he | ⟨hne', hreg⟩
          · subst he
            have : ¬ (END ≤ MAXREG) := Nat.not_le.mpr MAXREG_lt_END
            simpa [hd1, this] using n1
          · simpa [hd1, hne', hreg] using n1
        · cases h
        · cases h
        · cases h

theorem shrinkc_freeMiniChainFrom {p p' : P} {start : Nat} (h : freeMiniChainFrom p start = .ok p') :
    ShrinkMC p p' (hd1 start) [] := shrinkc_freeMiniChain _ h

theorem shrinkc_freeMiniChainAfter {p p' : P} {id : Nat} (h : freeMiniChainAfter p id = .ok p') (a : List Nat) :
    ShrinkMC p p' a a := by
  unfold freeMiniChainAfter at h
  split at h
  · cases h
  · rename_i next hn
    obtain ⟨p1, hs, h⟩ := bind_ok h
    have ns := nextSector_ok (fat := p.miniFat) hn
    have hp1 : p1.miniFat = p.miniFat.setIfInBounds id END := by
      rcases setMiniFat_ok2 hs with ⟨he, _⟩ | ⟨_, he⟩
      · omega
      · exact he
    have s2 := shrinkc_freeMiniChain _ h
    intro X n
    refine s2 (a ++ X) ?_
    rw [hp1]
    rcases nextSector_class hn with he | ⟨hne, hreg⟩
    · subst he
      have : p.miniFat.setIfInBounds id END = p.miniFat := by
        apply Array.ext_getElem?
        intro i
        simp only [Array.getElem?_setIfInBounds]
        split
        · rename_i hi; subst hi
          have h2 := ns.2.1
          simp only [ns.1, Array.getElem?_eq_getElem, Option.some.injEq] at h2
          simp [ns.1, h2]
        · rfl
      simpa [hd1, this] using n
    · simpa [hd1, hne] using n.cut ns.2.1 hreg

theorem growc_growOneMini {p p' : P} {ids ids' : List Nat} (h : growOneMini p ids = .ok (p', ids')) :
    GrowMC p p' (hdl ids) (hdl ids') ∧ ∃ t, ids' = ids ++ t := by
  unfold growOneMini at h
  split at h
  · rename_i last hl
    have hne : ids ≠ [] := by intro he; subst he; simp at hl
    split at h
    · rename_i p1 id he
      cases h
      rw [hdl_append hne]
      exact ⟨growc_extendMiniChain he _, _, rfl⟩
    · cases h
    · cases h
    · cases h
  · rename_i hl
    have he0 : ids = [] := List.getLast?_eq_none_iff.mp hl
    subst he0
    split at h
    · rename_i p1 id he
      cases h
      exact ⟨by simpa [hdl] using growc_allocateMiniSector he, _, rfl⟩
    · cases h
    · cases h
    · cases h

theorem growc_miniChainWrite (fuel : Nat) : ∀ {p p' : P} {ids ids' : List Nat} {off : Nat} {bs : Bytes},
    miniChainWrite fuel p ids off bs = .ok (p', ids') → GrowMC p p' (hdl ids) (hdl ids') ∧ ∃ t, ids' = ids ++ t := by
  induction fuel with
  | zero => intro p p' ids ids' off bs h; simp [miniChainWrite] at h
  | succ fuel ih =>
    intro p p' ids ids' off bs h
    unfold miniChainWrite at h
    split at h
    · cases h; exact ⟨GrowMC.refl _ _, [], by simp⟩
    · split at h
      · rename_i p1 ids1 hgrow
        have g1 : GrowMC p p1 (hdl ids) (hdl ids1) ∧ ∃ t, ids1 = ids ++ t := by
          split at hgrow
          · exact growc_growOneMini hgrow
          · cases hgrow; exact ⟨GrowMC.refl _ _, [], by simp⟩
        split at h
        · cases h
        · dsimp only at h
          split at h
          · rename_i p2 hw
            have r := ih h
            obtain ⟨t1, e1⟩ := g1.2
            obtain ⟨t2, e2⟩ := r.2
            exact ⟨(g1.1.trans (GrowMC.of_same (mf_miniWriteAt hw) _)).trans r.1, t1 ++ t2, by rw [e2, e1, List.append_assoc]⟩
          · cases h
          · cases h
          · cases h
      · cases h
      · cases h
      · cases h

theorem growc_miniChainGrow (fuel : Nat) : ∀ {p p' : P} {ids ids' : List Nat} {target : Nat},
    miniChainGrow fuel p ids target = .ok (p', ids') → GrowMC p p' (hdl ids) (hdl ids') ∧ ∃ t, ids' = ids ++ t := by
  induction fuel with
  | zero => intro p p' ids ids' target h; simp [miniChainGrow] at h
  | succ fuel ih =>
    intro p p' ids ids' target h
    unfold miniChainGrow at h
    split at h
    · cases h; exact ⟨GrowMC.refl _ _, [], by simp⟩
    · split at h
      · rename_i p1 ids1 hg
        split at h
        · rename_i p2 hw
          have g := growc_growOneMini hg
          have r := ih h
          obtain ⟨t1, e1⟩ := g.2
          obtain ⟨t2, e2⟩ := r.2
          exact ⟨(g.1.trans (GrowMC.of_same (mf_miniWriteAt hw) _)).trans r.1, t1 ++ t2, by rw [e2, e1, List.append_assoc]⟩
        · cases h
        · cases h
        · cases h
      · cases h
      · cases h
      · cases h

/-- `MiniChain::set_len` to a length that keeps at least one mini sector, or on an empty chain:
either a pure release that keeps the head, or a pure growth -/
theorem miniChainSetLen_shapec {p p' : P} {ids ids' : List Nat} {n : Nat} (hn : 0 < n ∨ ids = [])
    (h : miniChainSetLen p ids n = .ok (p', ids')) :
    (ShrinkMC p p' (hdl ids) (hdl ids') ∧ ids' = ids) ∨
    (GrowMC p p' (hdl ids) (hdl ids') ∧ ∃ t, ids' = ids ++ t) := by
  unfold miniChainSetLen at h
  dsimp only at h
  split at h
  · rename_i hzero
    have hids : ids = [] := by
      rcases hn with hp | he
      · have : MINI = 64 := rfl
        have := (Nat.div_eq_zero_iff).mp hzero
        omega
      · exact he
    subst hids
    simp only [List.head?_nil] at h
    cases h
    exact Or.inr ⟨GrowMC.refl _ _, [], by simp⟩
  · split at h
    · split at h
      · split at h
        · obtain ⟨q, hf, h⟩ := obind_ok h
          cases h
          left
          exact ⟨shrinkc_freeMiniChainAfter hf _, rfl⟩
        · cases h
      · cases h; exact Or.inr ⟨GrowMC.refl _ _, [], by simp⟩
    · exact Or.inr (growc_miniChainGrow _ h)

end CfbVerif.Phys/-! ## streams below the cutoff own mini chains (as in NoShareMini, for `NC`) -/
namespace CfbVerif.Phys
open CfbVerif.Raw

structure JMC (p : P) (L : Nat → Nat) : Prop where
  nc : NC p.miniFat (mregs p.starts L)
  keys : (p.starts.map (·.1)).Nodup

theorem mownOf_setStart_eq (p : P) (L : Nat → Nat) (s : Nat) (ids : List Nat) (hc : L s < CUTOFF)
    (hreg : ∀ x ∈ hdl ids, x ≤ MAXREG) : mownOf (setStart p s (ids.head?.getD END)).starts L s = hdl ids := by
  cases ids with
  | nil => exact mownOf_noStart L (startIn_setStart _ _ _)
  | cons a r =>
    have ha : a ≤ MAXREG := hreg a (by simp [hdl])
    have hne : a ≠ END := by have := MAXREG_lt_END; omega
    have hst : startIn (setStart p s ((a :: r).head?.getD END)).starts s = a := startIn_setStart _ _ _
    rw [mownOf_mini hc (by rw [hst]; exact hne), hst]
    rfl

theorem jmc_step {p p' : P} {L L' : Nat → Nat} {s : Nat} {b : List Nat} (j : JMC p L)
    (hL : ∀ t, t ≠ s → L' t = L t)
    (hk : KMC p p' (mownOf p.starts L s) b)
    (heq : (∀ x ∈ b, x ≤ MAXREG) → mownOf p'.starts L' s = b)
    (ho : others p'.starts s = others p.starts s)
    (hkeys : (p'.starts.map (·.1)).Nodup)
    (hb : p'.miniFat.size ≤ MAXREG + 1) : JMC p' L' := by
  refine ⟨?_, hkeys⟩
  have n0 : NC p.miniFat (mownOf p.starts L s ++ mregs (others p.starts s) L) :=
    j.nc.perm (mregs_split p.starts L s j.keys)
  have n1 := hk hb _ n0
  have hreg : ∀ x ∈ b, x ≤ MAXREG := fun x hx => n1.ns.head_reg (List.mem_append_left _ hx)
  have n2 : NC p'.miniFat (mownOf p'.starts L' s ++ mregs (others p'.starts s) L') := by
    rw [ho, mregs_others_congr _ hL, heq hreg]
    exact n1
  exact n2.perm (mregs_split p'.starts L' s hkeys).symm

theorem KMC.of_same {p q : P} (h : q.miniFat = p.miniFat) (a : List Nat) : KMC p q a a :=
  fun _ _ n => by rw [h]; exact n

theorem KMC.trans_same {p q r : P} {a b : List Nat} (h1 : KMC p q a b) (h2 : r.miniFat = q.miniFat) : KMC p r a b :=
  fun hb X n => by rw [h2]; exact h1 (by rw [← h2]; exact hb) X n

theorem KMC.same_trans {p q r : P} {a b : List Nat} (h1 : q.miniFat = p.miniFat) (h2 : KMC q r a b) : KMC p r a b :=
  fun hb X n => h2 hb X (by rw [h1]; exact n)

theorem jmc_writeData {p p' : P} {L : Nat → Nat} {slot off n : Nat} {buf : Bytes}
    (h : writeData p slot (L slot) off buf = .ok (p', n)) (j : JMC p L) (hb : p'.miniFat.size ≤ MAXREG + 1) :
    JMC p' (upd L slot n) := by
  unfold writeData at h
  dsimp only [bind, pure] at h
  split at h
  · rename_i hend
    have hown : mownOf p.starts L slot = [] := mownOf_noStart L hend
    split at h
    · cases h
    · split at h
      · rename_i hsmall
        obtain ⟨⟨q, ids⟩, hw, h⟩ := obind_ok h
        cases h
        have g := growc_miniChainWrite _ hw
        have kk := kkc_miniChainWrite _ hw
        refine jmc_step (b := hdl ids) j (upd_other _ _ _) ?_ (fun hreg => mownOf_setStart_eq _ _ _ _ (by rw [upd_self]; exact hsmall) hreg) ?_ ?_ hb
        · rw [hown]
          have : KMC p q [] (hdl ids) := by simpa [hdl] using g.1.km
          exact this.trans_same rfl
        · rw [others_setStart, kk.starts]
        · exact keys_setStart _ _ (by rw [kk.starts]; exact j.keys)
      · rename_i hbig
        obtain ⟨⟨q, ids⟩, hw, h⟩ := obind_ok h
        cases h
        have sm := sm_chainWrite _ _ hw
        have sf := (kc_chainWrite _ _ hw).2
        refine jmc_step (b := []) j (upd_other _ _ _) ?_ ?_ ?_ ?_ hb
        · rw [hown]; exact (KMC.of_same sm.1 []).trans_same rfl
        · intro _; exact mownOf_big _ (by rw [upd_self]; exact Nat.le_of_not_lt hbig)
        · rw [others_setStart, sf.2.2.2]
        · exact keys_setStart _ _ (by rw [sf.2.2.2]; exact j.keys)
  · rename_i hstart
    split at h
    · rename_i hsmallOld
      have hown : mownOf p.starts L slot = [startOf p slot] := mownOf_mini hsmallOld hstart
      split at h
      · rename_i hsmall
        obtain ⟨ids, hi, h⟩ := obind_ok h
        split at h
        · cases h
        · obtain ⟨⟨q, ids'⟩, hw, h⟩ := obind_ok h
          cases h
          have g := growc_miniChainWrite _ hw
          have kk := kkc_miniChainWrite _ hw
          have hhead : hdl ids = [startOf p slot] := miniChainIds_head hi hstart
          have hne : ids ≠ [] := by intro he; subst he; simp [hdl] at hhead
          have hhead' : hdl ids' = [startOf p slot] := by rw [hdl_of_prefix hne g.2]; exact hhead
          refine jmc_step (b := [startOf p slot]) j (upd_other _ _ _) ?_ ?_ ?_ ?_ hb
          · rw [hown]
            have := g.1.km
            rw [hhead, hhead'] at this
            exact this
          · intro _
            rw [kk.starts]
            exact mownOf_mini (by rw [upd_self]; exact hsmall) hstart
          · rw [kk.starts]
          · rw [kk.starts]; exact j.keys
      · rename_i hbig
        obtain ⟨ids, hi, h⟩ := obind_ok h
        obtain ⟨tmp, hr, h⟩ := obind_ok h
        obtain ⟨q1, hf, h⟩ := obind_ok h
        obtain ⟨⟨q2, ids1⟩, hw1, h⟩ := obind_ok h
        obtain ⟨⟨q3, ids2⟩, hw2, h⟩ := obind_ok h
        cases h
        have s1 := shrinkc_freeMiniChainFrom hf
        have kk := kkc_freeMiniChainFrom hf
        have sm1 := sm_chainWrite _ _ hw1
        have sm2 := sm_chainWrite _ _ hw2
        have sf1 := (kc_chainWrite _ _ hw1).2
        have sf2 := (kc_chainWrite _ _ hw2).2
        have hhd : hd1 (startOf p slot) = [startOf p slot] := by unfold hd1; rw [if_neg hstart]
        refine jmc_step (b := []) j (upd_other _ _ _) ?_ ?_ ?_ ?_ hb
        · rw [hown, ← hhd]
          exact (s1.toKM.trans_same (sm1.1)).trans_same (by show q3.miniFat = q2.miniFat; exact sm2.1)
        · intro _; exact mownOf_big _ (by rw [upd_self]; exact Nat.le_of_not_lt hbig)
        · rw [others_setStart, sf2.2.2.2, sf1.2.2.2, kk.starts]
        · exact keys_setStart _ _ (by rw [sf2.2.2.2, sf1.2.2.2, kk.starts]; exact j.keys)
    · rename_i hbigOld
      have hown : mownOf p.starts L slot = [] := mownOf_big _ (Nat.le_of_not_lt hbigOld)
      obtain ⟨ids, hi, h⟩ := obind_ok h
      split at h
      · cases h
      · obtain ⟨⟨q, ids'⟩, hw, h⟩ := obind_ok h
        cases h
        have sm := sm_chainWrite _ _ hw
        have sf := (kc_chainWrite _ _ hw).2
        refine jmc_step (b := []) j (upd_other _ _ _) ?_ ?_ ?_ ?_ hb
        · rw [hown]; exact KMC.of_same sm.1 []
        · intro _; exact mownOf_big _ (by rw [upd_self]; have := Nat.le_of_not_lt hbigOld; omega)
        · rw [sf.2.2.2]
        · rw [sf.2.2.2]; exact j.keys

end CfbVerif.Phys

namespace CfbVerif.Phys
open CfbVerif.Raw

theorem jmc_resize {p p' : P} {L : Nat → Nat} {slot newLen : Nat}
    (h : resize p slot (L slot) newLen = .ok p') (j : JMC p L) (hb : p'.miniFat.size ≤ MAXREG + 1) :
    JMC p' (upd L slot newLen) := by
  unfold resize at h
  dsimp only [bind, pure] at h
  split at h
  · rename_i hend
    have hown : mownOf p.starts L slot = [] := mownOf_noStart L hend
    split at h
    · cases h
    · split at h
      · rename_i hsmall
        obtain ⟨⟨q, ids⟩, hw, h⟩ := obind_ok h
        cases h
        have kk := kkc_miniChainSetLen hw
        have km : KMC p q [] (hdl ids) := by
          rcases miniChainSetLen_shapec (Or.inr rfl) hw with ⟨s, e⟩ | ⟨g, _⟩
          · have := s.toKM; simpa [hdl, e] using this
          · simpa [hdl] using g.km
        refine jmc_step (b := hdl ids) j (upd_other _ _ _) ?_ (fun hreg => mownOf_setStart_eq _ _ _ _ (by rw [upd_self]; exact hsmall) hreg) ?_ ?_ hb
        · rw [hown]; exact km.trans_same rfl
        · rw [others_setStart, kk.starts]
        · exact keys_setStart _ _ (by rw [kk.starts]; exact j.keys)
      · rename_i hbig
        obtain ⟨⟨q, ids⟩, hw, h⟩ := obind_ok h
        cases h
        have hpos : 0 < newLen := by have := CUTOFF_pos; omega
        have sm := sm_chainSetLen hw
        have sf := (kc_chainSetLen hpos hw).2
        refine jmc_step (b := []) j (upd_other _ _ _) ?_ ?_ ?_ ?_ hb
        · rw [hown]; exact (KMC.of_same sm.1 []).trans_same rfl
        · intro _; exact mownOf_big _ (by rw [upd_self]; exact Nat.le_of_not_lt hbig)
        · rw [others_setStart, sf.2.2.2]
        · exact keys_setStart _ _ (by rw [sf.2.2.2]; exact j.keys)
  · rename_i hstart
    have hhd : hd1 (startOf p slot) = [startOf p slot] := by unfold hd1; rw [if_neg hstart]
    split at h
    · rename_i hsmallOld
      have hown : mownOf p.starts L slot = [startOf p slot] := mownOf_mini hsmallOld hstart
      split at h
      · obtain ⟨q, hf, h⟩ := obind_ok h
        cases h
        have s1 := shrinkc_freeMiniChainFrom hf
        have kk := kkc_freeMiniChainFrom hf
        refine jmc_step (b := []) j (upd_other _ _ _) ?_ ?_ ?_ ?_ hb
        · rw [hown, ← hhd]; exact s1.toKM.trans_same rfl
        · intro _; exact mownOf_noStart _ (startIn_setStart _ _ _)
        · rw [others_setStart, kk.starts]
        · exact keys_setStart _ _ (by rw [kk.starts]; exact j.keys)
      · rename_i hnz
        split at h
        · rename_i hsmall
          obtain ⟨ids, hi, h⟩ := obind_ok h
          obtain ⟨⟨q, ids'⟩, hs, h⟩ := obind_ok h
          have kk1 := kkc_miniChainSetLen hs
          have hhead : hdl ids = [startOf p slot] := miniChainIds_head hi hstart
          have hne : ids ≠ [] := by intro he; subst he; simp [hdl] at hhead
          have hpos : 0 < newLen := Nat.pos_of_ne_zero hnz
          have shape := miniChainSetLen_shapec (Or.inl hpos) hs
          have hhead' : hdl ids' = [startOf p slot] := by
            rcases shape with ⟨_, e⟩ | ⟨_, pre⟩
            · rw [e]; exact hhead
            · rw [hdl_of_prefix hne pre]; exact hhead
          have hne' : ids' ≠ [] := by intro he; subst he; simp [hdl] at hhead'
          have fin : ∀ {q2 : P}, KMC p q2 [startOf p slot] [startOf p slot] → q2.starts = p.starts → q2 = p' →
              JMC p' (upd L slot newLen) := by
            intro q2 km est e
            subst e
            refine jmc_step (b := [startOf p slot]) j (upd_other _ _ _) (by rw [hown]; exact km) ?_ ?_ ?_ hb
            · intro _
              rw [est]
              exact mownOf_mini (by rw [upd_self]; exact hsmall) hstart
            · rw [est]
            · rw [est]; exact j.keys
          split at h
          · split at h
            · cases h
            · obtain ⟨⟨q2, ids2⟩, hw, h⟩ := obind_ok h
              cases h
              have g2 := growc_miniChainWrite _ hw
              have kk2 := kkc_miniChainWrite _ hw
              have hhead2 : hdl ids2 = [startOf p slot] := by rw [hdl_of_prefix hne' g2.2]; exact hhead'
              have g2' : GrowMC q q2 [startOf p slot] [startOf p slot] := by
                have := g2.1; rw [hhead', hhead2] at this; exact this
              have km : KMC p q2 [startOf p slot] [startOf p slot] := by
                rcases shape with ⟨s, _⟩ | ⟨g, _⟩
                · have s' : ShrinkMC p q [startOf p slot] [startOf p slot] := by
                    have := s; rw [hhead, hhead'] at this; exact this
                  exact s'.then g2'.km
                · have g' : GrowMC p q [startOf p slot] [startOf p slot] := by
                    have := g; rw [hhead, hhead'] at this; exact this
                  exact (g'.trans g2').km
              exact fin km (by rw [kk2.starts, kk1.starts]) rfl
          · cases h
            have km : KMC p q [startOf p slot] [startOf p slot] := by
              rcases shape with ⟨s, _⟩ | ⟨g, _⟩
              · have := s.toKM; rw [hhead, hhead'] at this; exact this
              · have := g.km; rw [hhead, hhead'] at this; exact this
            exact fin km kk1.starts rfl
        · rename_i hbig
          obtain ⟨ids, hi, h⟩ := obind_ok h
          obtain ⟨tmp, hr, h⟩ := obind_ok h
          obtain ⟨q1, hf, h⟩ := obind_ok h
          obtain ⟨⟨q2, ids1⟩, hw1, h⟩ := obind_ok h
          obtain ⟨⟨q3, ids2⟩, hs, h⟩ := obind_ok h
          cases h
          have hpos : 0 < newLen := by have := CUTOFF_pos; omega
          have s1 := shrinkc_freeMiniChainFrom hf
          have kk := kkc_freeMiniChainFrom hf
          have sm1 := sm_chainWrite _ _ hw1
          have sm2 := sm_chainSetLen hs
          have sf1 := (kc_chainWrite _ _ hw1).2
          have sf2 := (kc_chainSetLen hpos hs).2
          refine jmc_step (b := []) j (upd_other _ _ _) ?_ ?_ ?_ ?_ hb
          · rw [hown, ← hhd]
            exact (s1.toKM.trans_same (sm1.1)).trans_same (by show q3.miniFat = q2.miniFat; exact sm2.1)
          · intro _; exact mownOf_big _ (by rw [upd_self]; exact Nat.le_of_not_lt hbig)
          · rw [others_setStart, sf2.2.2.2, sf1.2.2.2, kk.starts]
          · exact keys_setStart _ _ (by rw [sf2.2.2.2, sf1.2.2.2, kk.starts]; exact j.keys)
    · rename_i hbigOld
      have hown : mownOf p.starts L slot = [] := mownOf_big _ (Nat.le_of_not_lt hbigOld)
      split at h
      · obtain ⟨q, hf, h⟩ := obind_ok h
        cases h
        have sm := sm_freeChain _ hf
        have sf := sf_freeChain _ hf
        refine jmc_step (b := []) j (upd_other _ _ _) ?_ ?_ ?_ ?_ hb
        · rw [hown]; exact (KMC.of_same sm.1 []).trans_same rfl
        · intro _; exact mownOf_noStart _ (startIn_setStart _ _ _)
        · rw [others_setStart, sf.2.2.2]
        · exact keys_setStart _ _ (by rw [sf.2.2.2]; exact j.keys)
      · split at h
        · rename_i hsmall
          obtain ⟨ids, hi, h⟩ := obind_ok h
          obtain ⟨tmp, hr, h⟩ := obind_ok h
          obtain ⟨q1, hf, h⟩ := obind_ok h
          obtain ⟨⟨q2, ids1⟩, hw, h⟩ := obind_ok h
          cases h
          have sm := sm_freeChain _ hf
          have sf := sf_freeChain _ hf
          have g := growc_miniChainWrite _ hw
          have kk := kkc_miniChainWrite _ hw
          refine jmc_step (b := hdl ids1) j (upd_other _ _ _) ?_ (fun hreg => mownOf_setStart_eq _ _ _ _ (by rw [upd_self]; exact hsmall) hreg) ?_ ?_ hb
          · rw [hown]
            have : KMC q1 q2 [] (hdl ids1) := by simpa [hdl] using g.1.km
            exact (KMC.same_trans sm.1 this).trans_same rfl
          · rw [others_setStart, kk.starts, sf.2.2.2]
          · exact keys_setStart _ _ (by rw [kk.starts, sf.2.2.2]; exact j.keys)
        · rename_i hbig
          obtain ⟨ids, hi, h⟩ := obind_ok h
          obtain ⟨⟨q, ids'⟩, hs, h⟩ := obind_ok h
          have hpos : 0 < newLen := by have := CUTOFF_pos; omega
          have sm1 := sm_chainSetLen hs
          have sf1 := (kc_chainSetLen hpos hs).2
          have fin : ∀ {q2 : P}, q2.miniFat = p.miniFat → q2.starts = p.starts → q2 = p' → JMC p' (upd L slot newLen) := by
            intro q2 em est e
            subst e
            refine jmc_step (b := []) j (upd_other _ _ _) (by rw [hown]; exact KMC.of_same em []) ?_ ?_ ?_ hb
            · intro _; exact mownOf_big _ (by rw [upd_self]; exact Nat.le_of_not_lt hbig)
            · rw [est]
            · rw [est]; exact j.keys
          split at h
          · split at h
            · cases h
            · obtain ⟨⟨q2, ids2⟩, hw, h⟩ := obind_ok h
              cases h
              have sm2 := sm_chainWrite _ _ hw
              have sf2 := (kc_chainWrite _ _ hw).2
              exact fin (by show q2.miniFat = p.miniFat; rw [sm2.1, sm1.1]) (by show q2.starts = p.starts; rw [sf2.2.2.2, sf1.2.2.2]) rfl
          · cases h; exact fin sm1.1 sf1.2.2.2 rfl

theorem jmc_freeStream {p p' : P} {L : Nat → Nat} {slot : Nat}
    (h : freeStream p slot (L slot) = .ok p') (j : JMC p L) (hb : p'.miniFat.size ≤ MAXREG + 1) :
    JMC p' (upd L slot 0) := by
  unfold freeStream at h
  dsimp only [bind, pure] at h
  have hown' : ∀ st : List (Nat × Nat), startIn st slot = END → (∀ x ∈ ([] : List Nat), x ≤ MAXREG) →
      mownOf st (upd L slot 0) slot = [] := by
    intro st hst _
    exact mownOf_noStart _ hst
  have hdrop : ∀ q : P, (q.starts.map (·.1)).Nodup → startIn (dropStart q slot).starts slot = END := by
    intro q hk
    show startIn (others q.starts slot) slot = END
    unfold startIn
    have : (others q.starts slot).find? (·.1 == slot) = none := by
      apply List.find?_eq_none.mpr
      intro e he
      have := (List.mem_filter.mp he).2
      simpa using this
    rw [this]; rfl
  split at h
  · rename_i hsmall
    obtain ⟨q, hf, h⟩ := obind_ok h
    cases h
    have s1 := shrinkc_freeMiniChainFrom hf
    have kk := kkc_freeMiniChainFrom hf
    have hkq : (q.starts.map (·.1)).Nodup := by rw [kk.starts]; exact j.keys
    refine jmc_step (b := []) j (upd_other _ _ _) ?_ (hown' _ (hdrop q hkq)) ?_ ?_ hb
    · have hown : mownOf p.starts L slot = hd1 (startOf p slot) := by
        unfold mownOf hd1
        by_cases he : startIn p.starts slot = END
        · have he' : startOf p slot = END := he
          simp [he, he']
        · have he' : ¬ startOf p slot = END := he
          simp [hsmall, he, he']
          rfl
      rw [hown]
      exact s1.toKM.trans_same rfl
    · rw [others_dropStart, kk.starts]
    · show ((others q.starts slot).map (·.1)).Nodup
      exact (keys_others slot hkq).1
  · rename_i hbig
    obtain ⟨q, hf, h⟩ := obind_ok h
    cases h
    have sm := sm_freeChain _ hf
    have sf := sf_freeChain _ hf
    have hkq : (q.starts.map (·.1)).Nodup := by rw [sf.2.2.2]; exact j.keys
    refine jmc_step (b := []) j (upd_other _ _ _) ?_ (hown' _ (hdrop q hkq)) ?_ ?_ hb
    · rw [mownOf_big _ (Nat.le_of_not_lt hbig)]
      exact (KMC.of_same sm.1 []).trans_same rfl
    · rw [others_dropStart, sf.2.2.2]
    · show ((others q.starts slot).map (·.1)).Nodup
      exact (keys_others slot hkq).1

theorem jmc_of_same {p p' : P} {L : Nat → Nat} (hm : p'.miniFat = p.miniFat) (hs : p'.starts = p.starts) (j : JMC p L) :
    JMC p' L := ⟨by rw [hm, hs]; exact j.nc, by rw [hs]; exact j.keys⟩

theorem jmc_ensureDirSlot {p p' : P} {L : Nat → Nat} {slot : Nat} (h : ensureDirSlot p slot = .ok p') (j : JMC p L) :
    JMC p' L := by
  unfold ensureDirSlot at h
  split at h
  · cases h; exact j
  · split at h
    · split at h
      · rename_i q id he
        cases h
        exact jmc_of_same (by show q.miniFat = p.miniFat; exact (sm_extendChain he).1)
          (by show q.starts = p.starts; exact (sf_extendChain he).2.2.2) j
      · cases h
      · cases h
      · cases h
    · cases h; exact jmc_of_same (p := p) rfl rfl j

theorem jmc_reopen {p p' : P} {L : Nat → Nat} (h : Phys.reopen p = .ok p') (j : JMC p L) : JMC p' L := by
  unfold Phys.reopen at h
  obtain ⟨chain, hc, h⟩ := bind_ok h
  cases h
  exact jmc_of_same (p := p) rfl rfl j

theorem jmc_create {p : P} {L : Nat → Nat} {slot : Nat} (hfree : startOf p slot = END) (j : JMC p L) :
    JMC (setStart p slot END) (upd L slot 0) := by
  have hb : (setStart p slot END).miniFat.size ≤ MAXREG + 1 := j.nc.ns.bound
  refine jmc_step (b := []) j (upd_other _ _ _) ?_ ?_ (others_setStart _ _ _) (keys_setStart _ _ j.keys) hb
  · rw [mownOf_noStart L hfree]; exact KMC.of_same rfl []
  · intro _; exact mownOf_noStart _ (startIn_setStart _ _ _)

theorem jmc_init (v4 : Bool) : JMC (Phys.create v4) (fun _ => 0) := by
  have j := jm_init v4
  refine ⟨⟨j.ns, ?_, ?_⟩, j.keys⟩
  · intro h hh
    have h2 : mregs (Phys.create v4).starts (fun _ => 0) = [] := rfl
    rw [h2] at hh; cases hh
  · intro x w hx
    have h1 : (Phys.create v4).miniFat = #[] := rfl
    rw [h1] at hx; simp at hx

/-- the MiniFAT part of every step of the store machine; the bound is asked of the table *after*
the step (within a step, releases come before allocations) -/
theorem jmc_gstep {g g' : G} {op : GOp} (h : gstep g op = .ok g') (j : JMC g.p g.L)
    (hb : g'.p.miniFat.size ≤ MAXREG + 1) : JMC g'.p g'.L := by
  cases op with
  | ensure s => obtain ⟨q, hq, h⟩ := obind_ok h; cases h; exact jmc_ensureDirSlot hq j
  | create s =>
    simp only [gstep] at h
    split at h
    · rename_i hfree; cases h; exact jmc_create hfree j
    · cases h
  | write s off bs => obtain ⟨r, hq, h⟩ := obind_ok h; cases h; exact jmc_writeData hq j hb
  | resize s n => obtain ⟨q, hq, h⟩ := obind_ok h; cases h; exact jmc_resize hq j hb
  | free s => obtain ⟨q, hq, h⟩ := obind_ok h; cases h; exact jmc_freeStream hq j hb
  | reopen => obtain ⟨q, hq, h⟩ := obind_ok h; cases h; exact jmc_reopen hq j

theorem jmc_grun (ops : List GOp) : ∀ g : G, JMC g.p g.L → MiniBounded g ops → JMC (grun g ops).p (grun g ops).L := by
  induction ops with
  | nil => intro g j _; exact j
  | cons op rest ih =>
    intro g j hb
    simp only [grun, MiniBounded] at hb ⊢
    cases hs : gstep g op with
    | ok g' =>
      simp only [hs] at hb ⊢
      exact ih g' (jmc_gstep hs j hb.1) hb.2
    | err k => simp only [hs] at hb ⊢; exact ih g j hb
    | panic s => simp only [hs] at hb ⊢; exact ih g j hb
    | hang s => simp only [hs] at hb ⊢; exact ih g j hb

/-- **no mini sector is ever shared**: after every history of stream-level operations on a fresh
file no two MiniFAT cells point at the same mini sector, no cell points at a FREE one, and the first
mini sectors of all streams below 4096 bytes are distinct, in use and pointed at by nothing -/
theorem noLeakMini_reachable (v4 : Bool) (ops : List GOp) :
    MiniBounded { p := Phys.create v4, L := fun _ => 0 } ops →
    let g := grun { p := Phys.create v4, L := fun _ => 0 } ops
    JMC g.p g.L :=
  fun hb => jmc_grun ops _ (jmc_init v4) hb

end CfbVerif.Phys