import CfbVerif.Phys.NoShareMini
/-!
# FAT and DIFAT sectors are marked as such — and nothing else is

`MK p`: a FAT cell says FATSECT exactly for the sectors listed in the DIFAT (`p.difat`), DIFSECT
exactly for the DIFAT sectors (`p.difatSectorIds`), and every cell holds FREE, END, a regular sector
number or one of these two markers.  Every cell the allocator overwrites held FREE, END or a
pointer (never a marker), and the only markers it writes are the ones `append_fat_sector` appends
together with the list entry; so `MK` holds after every API history (`mk_reachable`).
-/
namespace CfbVerif.Phys
open CfbVerif.Raw CfbVerif.Dir

structure MKc (p : P) : Prop where
  fatMark : ∀ i : Nat, p.fat[i]? = some FATSECT ↔ i ∈ p.difat
  difMark : ∀ i : Nat, p.fat[i]? = some DIFSECT ↔ i ∈ p.difatSectorIds
  kinds : ∀ i v : Nat, p.fat[i]? = some v → v = FREE ∨ v = END ∨ v ≤ MAXREG ∨ v = FATSECT ∨ v = DIFSECT
  fatNd : p.difat.Nodup
  difNd : p.difatSectorIds.Nodup

/-- the DIFAT fits into the header's 109 slots plus the DIFAT sectors -/
def CapD (p : P) : Prop :=
  p.difat.length ≤ Gen.NUM_DIFAT_ENTRIES_IN_HEADER + p.difatSectorIds.length * ((p.S - 4) / 4)

structure MK (p : P) : Prop where
  core : MKc p
  capD : CapD p

theorem MK.fatMark {p : P} (m : MK p) : ∀ i : Nat, p.fat[i]? = some FATSECT ↔ i ∈ p.difat := m.core.fatMark
theorem MK.difMark {p : P} (m : MK p) : ∀ i : Nat, p.fat[i]? = some DIFSECT ↔ i ∈ p.difatSectorIds := m.core.difMark
theorem MK.kinds {p : P} (m : MK p) :
    ∀ i v : Nat, p.fat[i]? = some v → v = FREE ∨ v = END ∨ v ≤ MAXREG ∨ v = FATSECT ∨ v = DIFSECT := m.core.kinds
theorem MK.fatNd {p : P} (m : MK p) : p.difat.Nodup := m.core.fatNd
theorem MK.difNd {p : P} (m : MK p) : p.difatSectorIds.Nodup := m.core.difNd

/-- the fields `MK` reads are untouched -/
def SameMarks (p q : P) : Prop := q.fat = p.fat ∧ q.difat = p.difat ∧ q.difatSectorIds = p.difatSectorIds ∧ q.v4 = p.v4

theorem mkc_of_same {p q : P} (h : SameMarks p q) (m : MKc p) : MKc q := by
  obtain ⟨h1, h2, h3, _⟩ := h
  exact ⟨by rw [h1, h2]; exact m.fatMark, by rw [h1, h3]; exact m.difMark, by rw [h1]; exact m.kinds,
    by rw [h2]; exact m.fatNd, by rw [h3]; exact m.difNd⟩

/-- what a value must be to be written by anything but `append_fat_sector` -/
def Plain (v : Nat) : Prop := v = FREE ∨ v = END ∨ v ≤ MAXREG

theorem Plain.ne_marks {v : Nat} (h : Plain v) : v ≠ FATSECT ∧ v ≠ DIFSECT := by
  rcases h with rfl | rfl | h
  · exact ⟨by decide, by decide⟩
  · exact ⟨by decide, by decide⟩
  · have := MAXREG_lt_FATSECT; have := MAXREG_lt_DIFSECT; exact ⟨by omega, by omega⟩

/-- overwriting a plain cell with a plain value -/
theorem mkc_set {p : P} {idx old val : Nat} (m : MKc p) (hold : p.fat[idx]? = some old) (ho : Plain old) (hv : Plain val) :
    MKc { p with fat := p.fat.setIfInBounds idx val } := by
  have hlt := lt_of_get hold
  have get : ∀ i : Nat, (p.fat.setIfInBounds idx val)[i]? = if idx = i then some val else p.fat[i]? := by
    intro i
    simp only [Array.getElem?_setIfInBounds]
    split
    · rename_i he; subst he; simp [hlt]
    · rfl
  refine ⟨?_, ?_, ?_, m.fatNd, m.difNd⟩
  · intro i
    show (p.fat.setIfInBounds idx val)[i]? = some FATSECT ↔ i ∈ p.difat
    rw [get]
    split
    · rename_i he; subst he
      constructor
      · intro h; exact absurd (Option.some.inj h) hv.ne_marks.1
      · intro h; have := (m.fatMark idx).mpr h; rw [hold] at this; exact absurd (Option.some.inj this) ho.ne_marks.1
    · exact m.fatMark i
  · intro i
    show (p.fat.setIfInBounds idx val)[i]? = some DIFSECT ↔ i ∈ p.difatSectorIds
    rw [get]
    split
    · rename_i he; subst he
      constructor
      · intro h; exact absurd (Option.some.inj h) hv.ne_marks.2
      · intro h; have := (m.difMark idx).mpr h; rw [hold] at this; exact absurd (Option.some.inj this) ho.ne_marks.2
    · exact m.difMark i
  · intro i v h
    have h' : (p.fat.setIfInBounds idx val)[i]? = some v := h
    rw [get] at h'
    split at h'
    · cases h'
      rcases hv with h1 | h1 | h1
      · exact Or.inl h1
      · exact Or.inr (Or.inl h1)
      · exact Or.inr (Or.inr (Or.inl h1))
    · exact m.kinds i v h'

/-- appending a plain cell -/
theorem mkc_push {p : P} {val : Nat} (m : MKc p) (hv : Plain val) : MKc { p with fat := p.fat.push val } := by
  have hno1 : p.fat.size ∉ p.difat := fun h => by
    have := (m.fatMark _).mpr h; have := lt_of_get this; omega
  have hno2 : p.fat.size ∉ p.difatSectorIds := fun h => by
    have := (m.difMark _).mpr h; have := lt_of_get this; omega
  refine ⟨?_, ?_, ?_, m.fatNd, m.difNd⟩
  · intro i
    show (p.fat.push val)[i]? = some FATSECT ↔ i ∈ p.difat
    simp only [Array.getElem?_push]
    split
    · rename_i he; subst he
      constructor
      · intro h; exact absurd (Option.some.inj h) hv.ne_marks.1
      · intro h; exact absurd h hno1
    · exact m.fatMark i
  · intro i
    show (p.fat.push val)[i]? = some DIFSECT ↔ i ∈ p.difatSectorIds
    simp only [Array.getElem?_push]
    split
    · rename_i he; subst he
      constructor
      · intro h; exact absurd (Option.some.inj h) hv.ne_marks.2
      · intro h; exact absurd h hno2
    · exact m.difMark i
  · intro i v h
    have h' : (p.fat.push val)[i]? = some v := h
    simp only [Array.getElem?_push] at h'
    split at h'
    · cases h'
      rcases hv with h1 | h1 | h1
      · exact Or.inl h1
      · exact Or.inr (Or.inl h1)
      · exact Or.inr (Or.inr (Or.inl h1))
    · exact m.kinds i v h'

/-- `append_fat_sector`'s two appends: a FATSECT cell with its DIFAT entry … -/
theorem mkc_pushFat {p : P} (m : MKc p) :
    MKc { p with fat := p.fat.push FATSECT, difat := p.difat ++ [p.fat.size] } := by
  have hno2 : p.fat.size ∉ p.difatSectorIds := fun h => by
    have := (m.difMark _).mpr h; have := lt_of_get this; omega
  refine ⟨?_, ?_, ?_, ?_, m.difNd⟩
  · intro i
    show (p.fat.push FATSECT)[i]? = some FATSECT ↔ i ∈ p.difat ++ [p.fat.size]
    simp only [Array.getElem?_push, List.mem_append, List.mem_singleton]
    split
    · rename_i he; subst he; simp
    · rename_i hne
      rw [m.fatMark i]
      constructor
      · intro h; exact Or.inl h
      · intro h; rcases h with h | h
        · exact h
        · exact absurd h hne
  · intro i
    show (p.fat.push FATSECT)[i]? = some DIFSECT ↔ i ∈ p.difatSectorIds
    simp only [Array.getElem?_push]
    split
    · rename_i he; subst he
      constructor
      · intro h; exact absurd (Option.some.inj h) (by decide)
      · intro h; exact absurd h hno2
    · exact m.difMark i
  · intro i v h
    have h' : (p.fat.push FATSECT)[i]? = some v := h
    simp only [Array.getElem?_push] at h'
    split at h'
    · cases h'; exact Or.inr (Or.inr (Or.inr (Or.inl rfl)))
    · exact m.kinds i v h'
  · show (p.difat ++ [p.fat.size]).Nodup
    have hno1 : p.fat.size ∉ p.difat := fun h => by
      have := (m.fatMark _).mpr h; have := lt_of_get this; omega
    exact List.nodup_append.mpr ⟨m.fatNd, by simp, fun a ha b hb => by simp at hb; subst hb; exact fun e => hno1 (e ▸ ha)⟩

/-- … and a DIFSECT cell with the new DIFAT sector's id -/
theorem mkc_pushDifat {p : P} (m : MKc p) :
    MKc { p with fat := p.fat.push DIFSECT, difatSectorIds := p.difatSectorIds ++ [p.fat.size] } := by
  have hno1 : p.fat.size ∉ p.difat := fun h => by
    have := (m.fatMark _).mpr h; have := lt_of_get this; omega
  refine ⟨?_, ?_, ?_, m.fatNd, ?_⟩
  · intro i
    show (p.fat.push DIFSECT)[i]? = some FATSECT ↔ i ∈ p.difat
    simp only [Array.getElem?_push]
    split
    · rename_i he; subst he
      constructor
      · intro h; exact absurd (Option.some.inj h) (by decide)
      · intro h; exact absurd h hno1
    · exact m.fatMark i
  · intro i
    show (p.fat.push DIFSECT)[i]? = some DIFSECT ↔ i ∈ p.difatSectorIds ++ [p.fat.size]
    simp only [Array.getElem?_push, List.mem_append, List.mem_singleton]
    split
    · rename_i he; subst he; simp
    · rename_i hne
      rw [m.difMark i]
      constructor
      · intro h; exact Or.inl h
      · intro h; rcases h with h | h
        · exact h
        · exact absurd h hne
  · intro i v h
    have h' : (p.fat.push DIFSECT)[i]? = some v := h
    simp only [Array.getElem?_push] at h'
    split at h'
    · cases h'; exact Or.inr (Or.inr (Or.inr (Or.inr rfl)))
    · exact m.kinds i v h'
  · show (p.difatSectorIds ++ [p.fat.size]).Nodup
    have hno2 : p.fat.size ∉ p.difatSectorIds := fun h => by
      have := (m.difMark _).mpr h; have := lt_of_get this; omega
    exact List.nodup_append.mpr ⟨m.difNd, by simp, fun a ha b hb => by simp at hb; subst hb; exact fun e => hno2 (e ▸ ha)⟩


/-! the same for `MK` (the DIFAT's capacity only depends on fields these updates leave alone) -/

theorem capD_of_same {p q : P} (h : SameMarks p q) (c : CapD p) : CapD q := by
  obtain ⟨_, h2, h3, h4⟩ := h
  unfold CapD P.S at *
  rw [h2, h3, h4]; exact c

theorem mk_of_same {p q : P} (h : SameMarks p q) (m : MK p) : MK q := ⟨mkc_of_same h m.core, capD_of_same h m.capD⟩

theorem mk_set {p : P} {idx old val : Nat} (m : MK p) (hold : p.fat[idx]? = some old) (ho : Plain old) (hv : Plain val) :
    MK { p with fat := p.fat.setIfInBounds idx val } := ⟨mkc_set m.core hold ho hv, m.capD⟩

theorem mk_push {p : P} {val : Nat} (m : MK p) (hv : Plain val) : MK { p with fat := p.fat.push val } :=
  ⟨mkc_push m.core hv, m.capD⟩

end CfbVerif.Phys

/-! ## the sector level -/
namespace CfbVerif.Phys
open CfbVerif.Raw CfbVerif.Dir

structure GK (p p' : P) : Prop where
  good : Good p p'
  keep : p'.fat.size ≤ MAXREG + 1 → Inv p → MK p → MK p'

theorem GK.refl (p : P) : GK p p := ⟨Good.refl p, fun _ _ m => m⟩

theorem GK.trans {p q r : P} (h1 : GK p q) (h2 : GK q r) : GK p r := by
  refine ⟨h1.good.trans h2.good, ?_⟩
  intro hb inv m
  have hbq : q.fat.size ≤ MAXREG + 1 := Nat.le_trans h2.good.mono hb
  exact h2.keep hb (h1.good.inv inv (small_of_bound hbq)) (h1.keep hbq inv m)

theorem GK.of_same2 {p q : P} (h : SameAlloc p q) (k : SameMarks p q) : GK p q :=
  ⟨Good.of_same h, fun _ _ m => mk_of_same k m⟩

theorem sk_refl (p : P) : SameMarks p p := ⟨rfl, rfl, rfl, rfl⟩
theorem SameMarks.trans {p q r : P} (h1 : SameMarks p q) (h2 : SameMarks q r) : SameMarks p r :=
  ⟨h2.1.trans h1.1, h2.2.1.trans h1.2.1, h2.2.2.1.trans h1.2.2.1, h2.2.2.2.trans h1.2.2.2⟩

theorem sk_initSector {p p' : P} {id : Nat} {k : Init} (h : initSector p id k = .ok p') : SameMarks p p' := by
  rcases initSector_ok h with ⟨_, he⟩ | ⟨_, he⟩ <;> subst he <;> exact ⟨rfl, rfl, rfl, rfl⟩

theorem sk_writeSector {p p' : P} {id off : Nat} {bs : Bytes} (h : writeSector p id off bs = .ok p') : SameMarks p p' := by
  unfold writeSector at h
  split at h
  · cases h
  · cases h; exact ⟨rfl, rfl, rfl, rfl⟩

theorem mk_appendFatSector {p p' : P} (m : MK p) (h : appendFatSector p = .ok p') : MK p' := by
  unfold appendFatSector at h
  obtain ⟨p1, h1, h⟩ := bind_ok h
  obtain ⟨p2, h2, h⟩ := bind_ok h
  have s1 := sk_initSector h1
  have m1 : MKc p1 := mkc_of_same s1 m.core
  have hp2 : p2 = { p1 with difat := p1.difat ++ [p.fat.size], fat := p1.fat.push FATSECT } := by
    rcases setFat_ok h2 with ⟨_, he⟩ | ⟨hl, _⟩
    · exact he
    · simp [s1.1] at hl
  have m2 : MKc p2 := by
    rw [hp2]
    have := mkc_pushFat m1
    rw [s1.1] at this ⊢
    exact mkc_of_same ⟨by simp [s1.1], by simp [s1.1], rfl, rfl⟩ this
  -- lengths, for the capacity of the DIFAT
  have hS1 : p1.S = p.S := by unfold P.S; rw [s1.2.2.2]
  have hd2 : p2.difat.length = p.difat.length + 1 := by rw [hp2]; simp [s1.2.1]
  have hi2 : p2.difatSectorIds = p.difatSectorIds := by rw [hp2]; exact s1.2.2.1
  have hS2 : p2.S = p.S := by rw [hp2]; exact hS1
  have hN : Gen.NUM_DIFAT_ENTRIES_IN_HEADER = 109 := rfl
  have hc := m.capD
  unfold CapD at hc
  have hper : 0 < (p.S - 4) / 4 := by
    have : p.S = 512 ∨ p.S = 4096 := by
      unfold P.S sectorLenOf
      cases p.v4 <;> simp <;> decide
    rcases this with h' | h' <;> rw [h'] <;> decide
  split at h
  · rename_i hlt
    cases h
    refine ⟨m2, ?_⟩
    unfold CapD
    rw [hd2, hi2, hS2]
    have : p1.difat.length < Gen.NUM_DIFAT_ENTRIES_IN_HEADER := hlt
    rw [s1.2.1] at this
    omega
  · rename_i hge
    dsimp only at h
    split at h
    · rename_i hdsi
      obtain ⟨p3, h3, h⟩ := bind_ok h
      obtain ⟨p4, h4, h⟩ := bind_ok h
      cases h
      have s3 := sk_initSector h3
      have m3 : MKc p3 := mkc_of_same s3 m2
      have hp4 : p4 = { p3 with fat := p3.fat.push DIFSECT } := by
        rcases setFat_ok h4 with ⟨_, he⟩ | ⟨hl, _⟩
        · exact he
        · simp [s3.1] at hl
      rw [hp4]
      refine ⟨?_, ?_⟩
      · have := mkc_pushDifat m3
        rw [s3.1] at this ⊢
        exact mkc_of_same ⟨by simp [s3.1], rfl, by simp [s3.1], rfl⟩ this
      · unfold CapD
        show p3.difat.length ≤ Gen.NUM_DIFAT_ENTRIES_IN_HEADER + (p3.difatSectorIds ++ [p2.fat.size]).length * ((p3.S - 4) / 4)
        have hS3 : p3.S = p.S := by unfold P.S; rw [s3.2.2.2]; exact (by unfold P.S at hS2; exact hS2)
        rw [s3.2.1, s3.2.2.1, hd2, hi2, hS3]
        simp only [List.length_append, List.length_cons, List.length_nil]
        rw [Nat.add_mul]
        omega
    · rename_i hdsi
      cases h
      refine ⟨m2, ?_⟩
      unfold CapD
      rw [hd2, hi2, hS2]
      -- the DIFAT sector that holds entry `difatIndex` exists already
      have hlt : (p1.difat.length - Gen.NUM_DIFAT_ENTRIES_IN_HEADER) / ((p.S - 4) / 4) < p.difatSectorIds.length := by
        have := Nat.lt_of_not_ge hdsi
        rw [hi2, hS2] at this
        exact this
      rw [s1.2.1] at hlt
      have := (Nat.div_lt_iff_lt_mul hper).mp hlt
      have hge' : ¬ p.difat.length < Gen.NUM_DIFAT_ENTRIES_IN_HEADER := by rw [← s1.2.1]; exact hge
      omega

theorem gk_allocateSector {p p' : P} {id : Nat} {k : Init} (h : allocateSector p k = .ok (p', id)) : GK p p' := by
  refine ⟨good_allocateSector h, ?_⟩
  intro _ inv m
  by_cases hfree : p.free = []
  · unfold allocateSector at h
    simp only [hfree, List.getLast?_nil] at h
    have tail : ∀ {p0 : P}, MK p0 →
        (setFat p0 p0.fat.size END >>= fun p1 => initSector p1 p0.fat.size k >>= fun p2 => pure (p2, p0.fat.size)) = .ok (p', id) →
        MK p' := by
      intro p0 m0 h
      obtain ⟨p1, h1, h⟩ := bind_ok h
      obtain ⟨p2, h2, h⟩ := bind_ok h
      cases h
      have hp1 : p1 = { p0 with fat := p0.fat.push END } := by
        rcases setFat_ok h1 with ⟨_, he⟩ | ⟨hl, _⟩
        · exact he
        · omega
      subst hp1
      exact mk_of_same (sk_initSector h2) (mk_push m0 (Or.inr (Or.inl rfl)))
    split at h
    · obtain ⟨p0, h0, h⟩ := bind_ok h
      exact tail (mk_appendFatSector m h0) h
    · obtain ⟨p0, h0, h⟩ := bind_ok h
      cases h0
      exact tail m h
  · have r := allocateSector_reuse inv.fat hfree h
    unfold allocateSector at h
    cases hl : p.free.getLast? with
    | none => exact absurd (List.getLast?_eq_none_iff.mp hl) hfree
    | some x =>
      simp only [hl] at h
      obtain ⟨p1, h1, h⟩ := bind_ok h
      obtain ⟨p2, h2, h⟩ := bind_ok h
      cases h
      have hlt := lt_of_get r.2.1
      have hp1 : p1 = { p with free := p.free.dropLast, fat := p.fat.setIfInBounds id END } := by
        rcases setFat_ok h1 with ⟨he, _⟩ | ⟨_, he⟩
        · simp at he; omega
        · simpa using he
      have m1 : MK p1 := by
        rw [hp1]
        exact mk_of_same (p := { p with fat := p.fat.setIfInBounds id END }) ⟨rfl, rfl, rfl, rfl⟩ (mk_set m r.2.1 (Or.inl rfl) (Or.inr (Or.inl rfl)))
      exact mk_of_same (sk_initSector h2) m1

theorem gk_extendChain {p p' : P} {start id : Nat} {k : Init} (h : extendChain p start k = .ok (p', id)) : GK p p' := by
  refine ⟨good_extendChain h, ?_⟩
  intro hb inv m
  unfold extendChain at h
  obtain ⟨last, hl, h⟩ := bind_ok h
  obtain ⟨⟨p1, id1⟩, ha, h⟩ := bind_ok h
  obtain ⟨p2, hs, h⟩ := bind_ok h
  cases h
  have hlast := lastOfChain_ok _ _ hl
  have r := inv_allocateSector inv ha
  have hne : last ≠ id := by
    intro he
    subst he
    rcases r.2.2.1 with hfr | hge
    · rw [hlast.2] at hfr; exact END_ne_FREE (Option.some.inj hfr)
    · omega
  have hcell : p1.fat[last]? = some END := by
    rw [allocateSector_frame inv ha last hlast.1 hne]; exact hlast.2
  have hb1 : p1.fat.size ≤ MAXREG + 1 := Nat.le_trans (setFat_mono hs) hb
  have m1 := (gk_allocateSector ha).keep hb1 inv m
  have hidlt := lt_of_get r.2.1
  have hp' : p' = { p1 with fat := p1.fat.setIfInBounds last id } := by
    rcases setFat_ok hs with ⟨he, _⟩ | ⟨_, he⟩
    · have := lt_of_get hcell; omega
    · exact he
  rw [hp']
  exact mk_set m1 hcell (Or.inr (Or.inl rfl)) (Or.inr (Or.inr (by omega)))

theorem plain_of_next {fat : Array Nat} {id next : Nat} (hn : nextSector fat id = .ok next) : Plain next := by
  rcases nextSector_class hn with he | ⟨_, hreg⟩
  · exact Or.inr (Or.inl he)
  · exact Or.inr (Or.inr hreg)

theorem mk_freeChain (fuel : Nat) : ∀ {p p' : P} {cur : Nat}, freeChain p fuel cur = .ok p' → MK p → MK p' := by
  induction fuel with
  | zero => intro p p' cur h; simp [freeChain] at h
  | succ fuel ih =>
    intro p p' cur h m
    unfold freeChain at h
    split at h
    · cases h; exact m
    · cases hn : nextSector p.fat cur with
      | error k => simp [hn] at h
      | ok next =>
        simp only [hn] at h
        have ns := nextSector_ok hn
        split at h
        · cases h
        · cases h1 : setFat p cur FREE with
          | err e => simp [h1] at h
          | panic s => simp [h1] at h
          | hang s => simp [h1] at h
          | ok p1 =>
            simp only [h1] at h
            have hp1 : p1 = { p with fat := p.fat.setIfInBounds cur FREE } := by
              rcases setFat_ok h1 with ⟨he, _⟩ | ⟨_, he⟩
              · omega
              · exact he
            subst hp1
            refine ih h ?_
            exact mk_of_same (p := { p with fat := p.fat.setIfInBounds cur FREE }) ⟨rfl, rfl, rfl, rfl⟩ (mk_set m ns.2.1 (plain_of_next hn) (Or.inl rfl))

theorem gk_freeChainFrom {p p' : P} {start : Nat} (h : freeChainFrom p start = .ok p') : GK p p' :=
  ⟨good_freeChainFrom h, fun _ _ m => mk_freeChain _ h m⟩

theorem gk_freeChainAfter {p p' : P} {id : Nat} (h : freeChainAfter p id = .ok p') : GK p p' := by
  refine ⟨good_freeChainAfter h, ?_⟩
  intro _ _ m
  unfold freeChainAfter at h
  cases hn : nextSector p.fat id with
  | error k => simp [hn] at h
  | ok next =>
    simp only [hn] at h
    obtain ⟨p1, h1, h⟩ := bind_ok h
    have ns := nextSector_ok hn
    have hp1 : p1 = { p with fat := p.fat.setIfInBounds id END } := by
      rcases setFat_ok h1 with ⟨he, _⟩ | ⟨_, he⟩
      · omega
      · exact he
    subst hp1
    exact mk_freeChain _ h (mk_set m ns.2.1 (plain_of_next hn) (Or.inr (Or.inl rfl)))

theorem gk_writeSector {p p' : P} {id off : Nat} {bs : Bytes} (h : writeSector p id off bs = .ok p') : GK p p' :=
  GK.of_same2 (writeSector_same h) (sk_writeSector h)

end CfbVerif.Phys

/-! ## everything above the sector level composes these (as `Good` in Phys/Inv.lean, Phys/ApiInv.lean) -/
namespace CfbVerif.Phys
open CfbVerif.Raw CfbVerif.Dir

theorem sk_setMiniFat {p p' : P} {i v : Nat} (h : setMiniFat p i v = .ok p') : SameMarks p p' := by
  have := (setMiniFat_ok h).1
  rw [this]; exact ⟨rfl, rfl, rfl, rfl⟩

theorem sk_popFreeMini {p p1 : P} {fuel : Nat} {r : Option Nat} (h : popFreeMini p fuel = .ok (p1, r)) : SameMarks p p1 := by
  have := (popFreeMini_ok fuel h).1
  rw [this]; exact ⟨rfl, rfl, rfl, rfl⟩

theorem sk_freeMiniSector {p p' : P} {id : Nat} (h : freeMiniSector p id = .ok p') : SameMarks p p' := by
  unfold freeMiniSector at h
  split at h
  · cases h
  · split at h
    · cases h
    · obtain ⟨p1, hs, h⟩ := bind_ok h
      cases h
      have := sk_setMiniFat hs
      exact ⟨this.1, this.2.1, this.2.2⟩

theorem sk_freeMiniChain (fuel : Nat) : ∀ {p p' : P} {cur : Nat}, freeMiniChain p fuel cur = .ok p' → SameMarks p p' := by
  induction fuel with
  | zero => intro p p' cur h; simp [freeMiniChain] at h
  | succ fuel ih =>
    intro p p' cur h
    unfold freeMiniChain at h
    split at h
    · cases h; exact sk_refl _
    · split at h
      · cases h
      · split at h
        · rename_i p1 hf
          exact (sk_freeMiniSector hf).trans (ih h)
        · cases h
        · cases h
        · cases h

theorem sk_freeMiniChainAfter {p p' : P} {id : Nat} (h : freeMiniChainAfter p id = .ok p') : SameMarks p p' := by
  unfold freeMiniChainAfter at h
  split at h
  · cases h
  · obtain ⟨p1, hs, h⟩ := bind_ok h
    exact (sk_setMiniFat hs).trans (sk_freeMiniChain _ h)

theorem sk_miniWriteAt {p p' : P} {m off : Nat} {bs : Bytes} (h : miniWriteAt p m off bs = .ok p') : SameMarks p p' := by
  unfold miniWriteAt at h
  obtain ⟨⟨sid, base⟩, hl, h⟩ := bind_ok h
  exact sk_writeSector h

theorem sk_setStart (p : P) (slot start : Nat) : SameMarks p (setStart p slot start) := ⟨rfl, rfl, rfl, rfl⟩
theorem sk_dropStart (p : P) (slot : Nat) : SameMarks p (dropStart p slot) := ⟨rfl, rfl, rfl, rfl⟩

theorem gk_reopen {p p' : P} (h : Phys.reopen p = .ok p') : GK p p' := by
  refine ⟨good_reopen h, ?_⟩
  intro _ _ m
  unfold Phys.reopen at h
  obtain ⟨chain, hc, h⟩ := bind_ok h
  cases h
  exact mk_of_same (p := p) ⟨rfl, rfl, rfl, rfl⟩ m

theorem gk_growOne {kind : Init} {p p' : P} {ids ids' : List Nat} (h : growOne kind p ids = .ok (p', ids')) : GK p p' := by
  unfold growOne at h
  split at h
  · split at h
    · rename_i he; cases h; exact gk_extendChain he
    · cases h
    · cases h
    · cases h
  · split at h
    · rename_i he; cases h; exact gk_allocateSector he
    · cases h
    · cases h
    · cases h

theorem gk_chainWrite (kind : Init) (fuel : Nat) : ∀ {p p' : P} {ids ids' : List Nat} {off : Nat} {bs : Bytes},
    chainWrite kind fuel p ids off bs = .ok (p', ids') → GK p p' := by
  induction fuel with
  | zero => intro p p' ids ids' off bs h; simp [chainWrite] at h
  | succ fuel ih =>
    intro p p' ids ids' off bs h
    unfold chainWrite at h
    split at h
    · cases h; exact GK.refl _
    · dsimp only at h
      split at h
      · rename_i p1 ids1 hgrow
        have g1 : GK p p1 := by
          split at hgrow
          · exact gk_growOne hgrow
          · cases hgrow; exact GK.refl _
        split at h
        · cases h
        · split at h
          · rename_i p2 hw
            exact (g1.trans (gk_writeSector hw)).trans (ih h)
          · cases h
          · cases h
          · cases h
      · cases h
      · cases h
      · cases h

theorem gk_chainGrow (kind : Init) (fuel : Nat) : ∀ {p p' : P} {ids ids' : List Nat} {target : Nat},
    chainGrow kind fuel p ids target = .ok (p', ids') → GK p p' := by
  induction fuel with
  | zero => intro p p' ids ids' target h; simp [chainGrow] at h
  | succ fuel ih =>
    intro p p' ids ids' target h
    unfold chainGrow at h
    split at h
    · cases h; exact GK.refl _
    · split at h
      · rename_i p1 ids1 hg
        exact (gk_growOne hg).trans (ih h)
      · cases h
      · cases h
      · cases h

theorem gk_chainSetLen {p p' : P} {ids ids' : List Nat} {kind : Init} {n : Nat}
    (h : chainSetLen p ids kind n = .ok (p', ids')) : GK p p' := by
  unfold chainSetLen at h
  dsimp only at h
  split at h
  · split at h
    · obtain ⟨q, hf, h⟩ := obind_ok h
      cases h; exact gk_freeChainFrom hf
    · cases h; exact GK.refl _
  · split at h
    · split at h
      · split at h
        · obtain ⟨q, hf, h⟩ := obind_ok h
          cases h; exact gk_freeChainAfter hf
        · cases h
      · cases h; exact GK.refl _
    · exact gk_chainGrow _ _ h



theorem gk_ensureRootRoom {p p' : P} (h : ensureRootRoom p = .ok p') : GK p p' := by
  unfold ensureRootRoom at h
  split at h
  · split at h
    · rename_i ha; cases h
      exact (gk_allocateSector ha).trans (GK.of_same2 ⟨rfl, rfl, rfl, rfl⟩ ⟨rfl, rfl, rfl, rfl⟩)
    · cases h
    · cases h
    · cases h
  · split at h
    · split at h
      · split at h
        · split at h
          · rename_i he; cases h; exact gk_extendChain he
          · cases h
          · cases h
          · cases h
        · cases h; exact GK.refl _
      · cases h
      · cases h
      · cases h
    · cases h; exact GK.refl _

theorem gk_appendMiniSector {p p' : P} (h : appendMiniSector p = .ok p') : GK p p' := by
  unfold appendMiniSector at h
  split at h
  · rename_i hr; cases h
    exact (gk_ensureRootRoom hr).trans (GK.of_same2 ⟨rfl, rfl, rfl, rfl⟩ ⟨rfl, rfl, rfl, rfl⟩)
  · cases h
  · cases h
  · cases h

theorem gk_ensureMiniFatRoom {p p' : P} (h : ensureMiniFatRoom p = .ok p') : GK p p' := by
  unfold ensureMiniFatRoom at h
  dsimp only at h
  split at h
  · split at h
    · rename_i ha; cases h
      exact (gk_allocateSector ha).trans (GK.of_same2 ⟨rfl, rfl, rfl, rfl⟩ ⟨rfl, rfl, rfl, rfl⟩)
    · cases h
    · cases h
    · cases h
  · split at h
    · split at h
      · split at h
        · split at h
          · rename_i he; cases h; exact gk_extendChain he
          · cases h
          · cases h
          · cases h
        · cases h; exact GK.refl _
      · cases h
      · cases h
      · cases h
    · cases h; exact GK.refl _

theorem gk_allocateMiniSector {p p' : P} {v id : Nat} (h : allocateMiniSector p v = .ok (p', id)) : GK p p' := by
  unfold allocateMiniSector at h
  obtain ⟨⟨p1, reuse⟩, hp, h⟩ := bind_ok h
  have g0 : GK p p1 := GK.of_same2 (same_popFreeMini hp) (sk_popFreeMini hp)
  dsimp only at h
  split at h
  · obtain ⟨p2, hs, h⟩ := bind_ok h
    cases h
    exact g0.trans (GK.of_same2 (same_setMiniFat hs) (sk_setMiniFat hs))
  · obtain ⟨p2, h2, h⟩ := bind_ok h
    obtain ⟨p3, h3, h⟩ := bind_ok h
    obtain ⟨p4, h4, h⟩ := bind_ok h
    cases h
    exact ((g0.trans (gk_ensureMiniFatRoom h2)).trans (gk_appendMiniSector h3)).trans (GK.of_same2 (same_setMiniFat h4) (sk_setMiniFat h4))

theorem gk_extendMiniChain {p p' : P} {start id : Nat} (h : extendMiniChain p start = .ok (p', id)) : GK p p' := by
  unfold extendMiniChain at h
  obtain ⟨last, hl, h⟩ := bind_ok h
  obtain ⟨⟨p1, i1⟩, ha, h⟩ := bind_ok h
  obtain ⟨p2, hs, h⟩ := bind_ok h
  cases h
  exact (gk_allocateMiniSector ha).trans (GK.of_same2 (same_setMiniFat hs) (sk_setMiniFat hs))

theorem gk_growOneMini {p p' : P} {ids ids' : List Nat} (h : growOneMini p ids = .ok (p', ids')) : GK p p' := by
  unfold growOneMini at h
  split at h
  · split at h
    · rename_i he; cases h; exact gk_extendMiniChain he
    · cases h
    · cases h
    · cases h
  · split at h
    · rename_i he; cases h; exact gk_allocateMiniSector he
    · cases h
    · cases h
    · cases h

theorem gk_miniChainWrite (fuel : Nat) : ∀ {p p' : P} {ids ids' : List Nat} {off : Nat} {bs : Bytes},
    miniChainWrite fuel p ids off bs = .ok (p', ids') → GK p p' := by
  induction fuel with
  | zero => intro p p' ids ids' off bs h; simp [miniChainWrite] at h
  | succ fuel ih =>
    intro p p' ids ids' off bs h
    unfold miniChainWrite at h
    split at h
    · cases h; exact GK.refl _
    · split at h
      · rename_i p1 ids1 hgrow
        have g1 : GK p p1 := by
          split at hgrow
          · exact gk_growOneMini hgrow
          · cases hgrow; exact GK.refl _
        split at h
        · cases h
        · dsimp only at h
          split at h
          · rename_i p2 hw
            exact (g1.trans (GK.of_same2 (same_miniWriteAt hw) (sk_miniWriteAt hw))).trans (ih h)
          · cases h
          · cases h
          · cases h
      · cases h
      · cases h
      · cases h

theorem gk_miniChainGrow (fuel : Nat) : ∀ {p p' : P} {ids ids' : List Nat} {target : Nat},
    miniChainGrow fuel p ids target = .ok (p', ids') → GK p p' := by
  induction fuel with
  | zero => intro p p' ids ids' target h; simp [miniChainGrow] at h
  | succ fuel ih =>
    intro p p' ids ids' target h
    unfold miniChainGrow at h
    split at h
    · cases h; exact GK.refl _
    · split at h
      · rename_i p1 ids1 hg
        split at h
        · rename_i p2 hw
          exact ((gk_growOneMini hg).trans (GK.of_same2 (same_miniWriteAt hw) (sk_miniWriteAt hw))).trans (ih h)
        · cases h
        · cases h
        · cases h
      · cases h
      · cases h
      · cases h

theorem gk_miniChainSetLen {p p' : P} {ids ids' : List Nat} {n : Nat}
    (h : miniChainSetLen p ids n = .ok (p', ids')) : GK p p' := by
  unfold miniChainSetLen at h
  dsimp only at h
  split at h
  · split at h
    · obtain ⟨q, hf, h⟩ := obind_ok h
      cases h; exact GK.of_same2 (same_freeMiniChain _ hf) (sk_freeMiniChain _ hf)
    · cases h; exact GK.refl _
  · split at h
    · split at h
      · split at h
        · obtain ⟨q, hf, h⟩ := obind_ok h
          cases h; exact GK.of_same2 (same_freeMiniChainAfter hf) (sk_freeMiniChainAfter hf)
        · cases h
      · cases h; exact GK.refl _
    · exact gk_miniChainGrow _ h



theorem gk_writeData {p p' : P} {slot oldLen off n : Nat} {buf : Bytes}
    (h : writeData p slot oldLen off buf = .ok (p', n)) : GK p p' := by
  unfold writeData at h
  dsimp only [bind, pure] at h
  split at h
  · split at h
    · cases h
    · split at h
      · obtain ⟨⟨q, ids⟩, hw, h⟩ := obind_ok h
        cases h
        exact (gk_miniChainWrite _ hw).trans (GK.of_same2 (same_setStart _ _ _) (sk_setStart _ _ _))
      · obtain ⟨⟨q, ids⟩, hw, h⟩ := obind_ok h
        cases h
        exact (gk_chainWrite _ _ hw).trans (GK.of_same2 (same_setStart _ _ _) (sk_setStart _ _ _))
  · split at h
    · split at h
      · obtain ⟨ids, hi, h⟩ := obind_ok h
        split at h
        · cases h
        · obtain ⟨⟨q, ids'⟩, hw, h⟩ := obind_ok h
          cases h
          exact gk_miniChainWrite _ hw
      · obtain ⟨ids, hi, h⟩ := obind_ok h
        obtain ⟨tmp, hr, h⟩ := obind_ok h
        obtain ⟨q1, hf, h⟩ := obind_ok h
        obtain ⟨⟨q2, ids1⟩, hw1, h⟩ := obind_ok h
        obtain ⟨⟨q3, ids2⟩, hw2, h⟩ := obind_ok h
        cases h
        exact (((GK.of_same2 (same_freeMiniChain _ hf) (sk_freeMiniChain _ hf)).trans (gk_chainWrite _ _ hw1)).trans (gk_chainWrite _ _ hw2)).trans
          (GK.of_same2 (same_setStart _ _ _) (sk_setStart _ _ _))
    · obtain ⟨ids, hi, h⟩ := obind_ok h
      split at h
      · cases h
      · obtain ⟨⟨q, ids'⟩, hw, h⟩ := obind_ok h
        cases h
        exact gk_chainWrite _ _ hw


theorem gk_resize {p p' : P} {slot oldLen newLen : Nat} (h : resize p slot oldLen newLen = .ok p') : GK p p' := by
  unfold resize at h
  dsimp only [bind, pure] at h
  split at h
  · split at h
    · cases h
    · split at h
      · obtain ⟨⟨q, ids⟩, hw, h⟩ := obind_ok h
        cases h
        exact (gk_miniChainSetLen hw).trans (GK.of_same2 (same_setStart _ _ _) (sk_setStart _ _ _))
      · obtain ⟨⟨q, ids⟩, hw, h⟩ := obind_ok h
        cases h
        exact (gk_chainSetLen hw).trans (GK.of_same2 (same_setStart _ _ _) (sk_setStart _ _ _))
  · split at h
    · split at h
      · obtain ⟨q, hf, h⟩ := obind_ok h
        cases h
        exact (GK.of_same2 (same_freeMiniChain _ hf) (sk_freeMiniChain _ hf)).trans (GK.of_same2 (same_setStart _ _ _) (sk_setStart _ _ _))
      · split at h
        · obtain ⟨ids, hi, h⟩ := obind_ok h
          obtain ⟨⟨q, ids'⟩, hs, h⟩ := obind_ok h
          split at h
          · split at h
            · cases h
            · obtain ⟨⟨q2, ids2⟩, hw, h⟩ := obind_ok h
              cases h
              exact (gk_miniChainSetLen hs).trans (gk_miniChainWrite _ hw)
          · cases h; exact gk_miniChainSetLen hs
        · obtain ⟨ids, hi, h⟩ := obind_ok h
          obtain ⟨tmp, hr, h⟩ := obind_ok h
          obtain ⟨q1, hf, h⟩ := obind_ok h
          obtain ⟨⟨q2, ids1⟩, hw1, h⟩ := obind_ok h
          obtain ⟨⟨q3, ids2⟩, hs, h⟩ := obind_ok h
          cases h
          exact (((GK.of_same2 (same_freeMiniChain _ hf) (sk_freeMiniChain _ hf)).trans (gk_chainWrite _ _ hw1)).trans (gk_chainSetLen hs)).trans
            (GK.of_same2 (same_setStart _ _ _) (sk_setStart _ _ _))
    · split at h
      · obtain ⟨q, hf, h⟩ := obind_ok h
        cases h
        exact (gk_freeChainFrom hf).trans (GK.of_same2 (same_setStart _ _ _) (sk_setStart _ _ _))
      · split at h
        · obtain ⟨ids, hi, h⟩ := obind_ok h
          obtain ⟨tmp, hr, h⟩ := obind_ok h
          obtain ⟨q1, hf, h⟩ := obind_ok h
          obtain ⟨⟨q2, ids1⟩, hw, h⟩ := obind_ok h
          cases h
          exact ((gk_freeChainFrom hf).trans (gk_miniChainWrite _ hw)).trans (GK.of_same2 (same_setStart _ _ _) (sk_setStart _ _ _))
        · obtain ⟨ids, hi, h⟩ := obind_ok h
          obtain ⟨⟨q, ids'⟩, hs, h⟩ := obind_ok h
          split at h
          · split at h
            · cases h
            · obtain ⟨⟨q2, ids2⟩, hw, h⟩ := obind_ok h
              cases h
              exact (gk_chainSetLen hs).trans (gk_chainWrite _ _ hw)
          · cases h; exact gk_chainSetLen hs

theorem gk_freeStream {p p' : P} {slot len : Nat} (h : freeStream p slot len = .ok p') : GK p p' := by
  unfold freeStream at h
  dsimp only [bind, pure] at h
  split at h
  · obtain ⟨q, hf, h⟩ := obind_ok h
    cases h
    exact (GK.of_same2 (same_freeMiniChain _ hf) (sk_freeMiniChain _ hf)).trans (GK.of_same2 (same_dropStart _ _) (sk_dropStart _ _))
  · obtain ⟨q, hf, h⟩ := obind_ok h
    cases h
    exact (gk_freeChainFrom hf).trans (GK.of_same2 (same_dropStart _ _) (sk_dropStart _ _))

theorem gk_ensureDirSlot {p p' : P} {slot : Nat} (h : ensureDirSlot p slot = .ok p') : GK p p' := by
  unfold ensureDirSlot at h
  split at h
  · cases h; exact GK.refl _
  · split at h
    · split at h
      · rename_i he; cases h
        exact (gk_extendChain he).trans (GK.of_same2 ⟨rfl, rfl, rfl, rfl⟩ ⟨rfl, rfl, rfl, rfl⟩)
      · cases h
      · cases h
      · cases h
    · cases h; exact GK.of_same2 ⟨rfl, rfl, rfl, rfl⟩ ⟨rfl, rfl, rfl, rfl⟩



theorem gk_applyLogPhys (slot : Nat) (log : List StoreOp) : ∀ {p p' : P} {len : Nat},
    applyLogPhys p slot len log = .ok p' → GK p p' := by
  induction log with
  | nil => intro p p' len h; simp only [applyLogPhys] at h; cases h; exact GK.refl _
  | cons op rest ih =>
    intro p p' len h
    cases op with
    | write off bs =>
      simp only [applyLogPhys] at h
      split at h
      · rename_i q len' hw
        exact (gk_writeData hw).trans (ih h)
      · cases h
      · cases h
      · cases h
    | resize n =>
      simp only [applyLogPhys] at h
      split at h
      · rename_i q hr
        exact (gk_resize hr).trans (ih h)
      · cases h
      · cases h
      · cases h

theorem gk_ensureSlots (slots : List Nat) : ∀ {p p' : P}, ensureSlots p slots = .ok p' → GK p p' := by
  induction slots with
  | nil => intro p p' h; simp only [ensureSlots] at h; cases h; exact GK.refl _
  | cons s rest ih =>
    intro p p' h
    simp only [ensureSlots] at h
    split at h
    · rename_i q he
      exact (gk_ensureDirSlot he).trans (ih h)
    · cases h
    · cases h
    · cases h

theorem gk_createStreamPhys {before after : SState} {p p' : P} {ch : List Names.Name} {r : Option Nat}
    (h : createStreamPhys before after p ch = .ok (p', r)) : GK p p' := by
  unfold createStreamPhys at h
  split at h
  · obtain ⟨q, hl, h⟩ := obind_ok h
    cases h
    exact gk_applyLogPhys _ _ hl
  · split at h
    · obtain ⟨q, he, h⟩ := obind_ok h
      cases h
      exact (gk_ensureSlots _ he).trans (GK.of_same2 (same_setStart _ _ _) (sk_setStart _ _ _))
    · cases h; exact GK.refl _

theorem gk_freeStreams (before : Tree) (infos : List Info) : ∀ {p p' : P}, freeStreams before p infos = .ok p' → GK p p' := by
  induction infos with
  | nil => intro p p' h; simp only [freeStreams] at h; cases h; exact GK.refl _
  | cons i rest ih =>
    intro p p' h
    simp only [freeStreams] at h
    split at h
    · split at h
      · split at h
        · rename_i q hf
          exact (gk_freeStream hf).trans (ih h)
        · cases h
        · cases h
        · cases h
      · exact ih h
    · exact ih h

theorem gk_dropAllPhys (s : SState) (hs : List HandleRec) : ∀ {p p' : P}, dropAllPhys s p hs = .ok p' → GK p p' := by
  induction hs with
  | nil => intro p p' h; simp only [dropAllPhys] at h; cases h; exact GK.refl _
  | cons r rest ih =>
    intro p p' h
    simp only [dropAllPhys] at h
    split at h
    · exact ih h
    · split at h
      · rename_i q hl
        exact (gk_applyLogPhys _ _ hl).trans (ih h)
      · cases h
      · cases h
      · cases h

theorem gk_handlePhys {s : SState} {p p' : P} {id : Nat} {log : Handle.H → Handle.Bytes → List StoreOp}
    (h : handlePhys s p id log = .ok p') : GK p p' := by
  unfold handlePhys at h
  split at h
  · cases h; exact GK.refl _
  · split at h
    · cases h; exact GK.refl _
    · exact gk_applyLogPhys _ _ h

/-- every API call's allocation-level effect keeps the FAT at least as long and the invariant alive -/
theorem gk_physOf {before after : SState} {out : HOut} {p p' : P} {op : HOp}
    (h : physOf before after out p op = .ok p') : GK p p' := by
  unfold physOf at h
  split at h
  · exact gk_ensureSlots _ h
  · exact gk_ensureSlots _ h
  all_goals first
    | (split at h
       · obtain ⟨q, hc, h⟩ := obind_ok h
         cases h
         exact gk_createStreamPhys hc
       · obtain ⟨q, hc, h⟩ := obind_ok h
         cases h
         exact gk_createStreamPhys hc
       · cases h; exact GK.refl _)
    | (split at h
       · obtain ⟨⟨p1, slot?⟩, hc, h⟩ := obind_ok h
         dsimp only at h
         split at h
         · cases h; exact gk_createStreamPhys hc
         · exact (gk_createStreamPhys hc).trans (gk_applyLogPhys _ _ h)
       · cases h; exact GK.refl _)
    | (split at h
       · exact gk_freeStream h
       · cases h; exact GK.refl _)
    | (split at h
       · exact gk_freeStreams _ _ h
       · cases h; exact GK.refl _)
    | (obtain ⟨q, hd, h⟩ := obind_ok h
       exact (gk_dropAllPhys _ _ hd).trans (gk_reopen h))
    | exact gk_handlePhys h
    | (cases h; exact GK.refl _)

theorem gk_pstep (ps : PState) (op : HOp) : GK ps.p (pstep ps op).1.p := by
  unfold pstep
  generalize hstep ps.s op = r
  obtain ⟨s', out⟩ := r
  cases out with
  | noHandle => exact GK.refl _
  | base o =>
    dsimp only
    split
    · rename_i p' hp; exact gk_physOf hp
    · exact GK.refl _
    · exact GK.refl _
    · exact GK.refl _

theorem gk_prun (ops : List HOp) : ∀ ps : PState, GK ps.p (prun ps ops).p := by
  induction ops with
  | nil => intro ps; exact GK.refl _
  | cons op ops ih => intro ps; exact (gk_pstep ps op).trans (ih _)


theorem mk_create (v4 : Bool) : MK (Phys.create v4) := by
  have hfat : (Phys.create v4).fat = #[FATSECT, END] := rfl
  have cell : ∀ i v : Nat, (#[FATSECT, END] : Array Nat)[i]? = some v → (i = 0 ∧ v = FATSECT) ∨ (i = 1 ∧ v = END) := by
    intro i v h
    rcases i with _ | _ | i
    · left; exact ⟨rfl, by simpa using h.symm⟩
    · right; exact ⟨rfl, by simpa using h.symm⟩
    · simp at h
  refine ⟨⟨?_, ?_, ?_, by show ([0] : List Nat).Nodup; simp, by show ([] : List Nat).Nodup; simp⟩, ?_⟩
  · intro i
    rw [hfat]
    show _ ↔ i ∈ [0]
    constructor
    · intro h
      rcases cell i _ h with ⟨hi, _⟩ | ⟨_, hv⟩
      · simp [hi]
      · exact absurd hv (by decide)
    · intro h; simp at h; subst h; simp
  · intro i
    rw [hfat]
    show _ ↔ i ∈ []
    constructor
    · intro h
      rcases cell i _ h with ⟨_, hv⟩ | ⟨_, hv⟩
      · exact absurd hv (by decide)
      · exact absurd hv (by decide)
    · intro h; cases h
  · intro i v h
    rw [hfat] at h
    rcases cell i v h with ⟨_, hv⟩ | ⟨_, hv⟩
    · exact Or.inr (Or.inr (Or.inr (Or.inl hv)))
    · exact Or.inr (Or.inl hv)
  · unfold CapD
    show ([0] : List Nat).length ≤ _
    have : Gen.NUM_DIFAT_ENTRIES_IN_HEADER = 109 := rfl
    rw [this]
    simp
    omega

/-- **FAT and DIFAT sectors are marked as such, and nothing else is, after every history of API
calls** on a fresh file (within the format's range of sector numbers): a FAT cell says FATSECT
exactly for the sectors the DIFAT lists, DIFSECT exactly for the DIFAT sectors, and otherwise FREE,
END or a regular sector number -/
theorem mk_reachable (v4 : Bool) (maxBuf : Nat) (ops : List HOp)
    (hb : (prun (PState.create v4 maxBuf) ops).p.fat.size ≤ MAXREG + 1) :
    MK (prun (PState.create v4 maxBuf) ops).p :=
  (gk_prun ops (PState.create v4 maxBuf)).keep hb (inv_create v4) (mk_create v4)

end CfbVerif.Phys

namespace CfbVerif.Phys
open CfbVerif.Raw CfbVerif.Dir

theorem gk_gstep {g g' : G} {op : GOp} (h : gstep g op = .ok g') : GK g.p g'.p := by
  cases op with
  | ensure s => obtain ⟨q, hq, h⟩ := obind_ok h; cases h; exact gk_ensureDirSlot hq
  | create s =>
    simp only [gstep] at h
    split at h
    · cases h; exact GK.of_same2 (same_setStart _ _ _) (sk_setStart _ _ _)
    · cases h
  | write s off bs => obtain ⟨r, hq, h⟩ := obind_ok h; cases h; exact gk_writeData hq
  | resize s n => obtain ⟨q, hq, h⟩ := obind_ok h; cases h; exact gk_resize hq
  | free s => obtain ⟨q, hq, h⟩ := obind_ok h; cases h; exact gk_freeStream hq
  | reopen => obtain ⟨q, hq, h⟩ := obind_ok h; cases h; exact gk_reopen hq

theorem gk_grun (ops : List GOp) : ∀ g : G, GK g.p (grun g ops).p := by
  induction ops with
  | nil => intro g; exact GK.refl _
  | cons op rest ih =>
    intro g
    simp only [grun]
    cases hs : gstep g op with
    | ok g' => exact (gk_gstep hs).trans (ih g')
    | err k => exact ih g
    | panic s => exact ih g
    | hang s => exact ih g

theorem mk_grun_reachable (v4 : Bool) (ops : List GOp)
    (hb : (grun { p := Phys.create v4, L := fun _ => 0 } ops).p.fat.size ≤ MAXREG + 1) :
    MK (grun { p := Phys.create v4, L := fun _ => 0 } ops).p ∧ Inv (grun { p := Phys.create v4, L := fun _ => 0 } ops).p :=
  let k := gk_grun ops { p := Phys.create v4, L := fun _ => 0 }
  ⟨k.keep hb (inv_create v4) (mk_create v4), k.good.inv (inv_create v4) (small_of_bound hb)⟩

end CfbVerif.Phys
