import CfbVerif.Phys.Layout
/-!
# A rendered directory entry is decoded back, whole

`Phys/Codec.lean` reads single fields back.  Here the reader model's `readDirEntry` — name units,
length field, terminator, UTF-16 decoding, type, colour, the three links, CLSID byte order, state
bits, times, start sector, size with the version's mask, and every check of both modes — is run on
the 128 bytes `renderEntry` produced and returns the entry the row describes.
-/
namespace CfbVerif.Phys
open CfbVerif.Raw CfbVerif.Dir

/-- `k` two-byte zero fields instead of one zero field of `2k` bytes -/
theorem pushLE_zero_units : ∀ (k : Nat) (b : ByteArray), pushLE b (2 * k) 0 = pushFields b (List.replicate k (2, 0)) := by
  intro k
  induction k with
  | zero => intro b; rfl
  | succ k ih =>
    intro b
    have e : 2 * (k + 1) = (2 * k) + 1 + 1 := by omega
    rw [e, List.replicate_succ]
    simp only [pushFields, pushLE]
    have h0 : (0 : Nat) % 256 = 0 := rfl
    have h1 : (0 : Nat) / 256 = 0 := rfl
    rw [h0, h1]
    exact ih _

/-- the fields of an entry with the name padding split into two-byte zeros -/
def entryFields2 (r : Row) (start len : Nat) : List (Nat × Nat) :=
  let u := CfbVerif.Names.utf16 r.name
  (u.map (fun x => (2, x)) ++ List.replicate (32 - u.length) (2, 0)) ++
  ([(2, (u.length + 1) * 2), (1, (UInt8.ofNat r.typ).toNat),
   (1, (if r.black then UInt8.ofNat Gen.COLOR_BLACK else UInt8.ofNat Gen.COLOR_RED).toNat),
   (4, linkOf r.left), (4, linkOf r.right), (4, linkOf r.child)] ++
  ((clsidOnDisk r.md.clsid).map (fun x => (1, x.toNat)) ++
  [(4, r.md.bits), (8, r.md.ctime), (8, r.md.mtime), (4, start), (8, len)]))

theorem renderEntry_eq2 (b : ByteArray) (r : Row) (start len : Nat) :
    renderEntry b r start len = pushFields b (entryFields2 r start len) := by
  rw [renderEntry_eq]
  unfold entryFields entryFields2
  simp only [← pushFields_append, pushFields]
  rw [pushLE_zero_units]

/-- `n` consecutive two-byte reads -/
theorem readUnits_of (img : Img) (c : Nat → Nat) : ∀ (n off : Nat),
    (∀ j, j < n → leN img (off + 2 * j) 2 = some (c j)) → readUnits img off n = .ok ((List.range n).map c) := by
  intro n
  induction n generalizing c with
  | zero => intro off _; rfl
  | succ n ih =>
    intro off h
    unfold readUnits
    have h0 := h 0 (Nat.succ_pos _)
    simp only [Nat.mul_zero, Nat.add_zero] at h0
    have hr : rd img off 2 = .ok (c 0) := by unfold rd; rw [h0]
    have hrest := ih (fun j => c (j + 1)) (off + 2) (by
      intro j hj
      have := h (j + 1) (by omega)
      have e : off + 2 * (j + 1) = off + 2 + 2 * j := by omega
      rw [e] at this; exact this)
    simp only [bind, Except.bind, hr, hrest, pure, Except.pure]
    congr 1
    rw [List.range_succ_eq_map]
    simp [List.map_map, Function.comp_def]

theorem readBytes_of (img : Img) (c : Nat → Nat) : ∀ (n off : Nat),
    (∀ j, j < n → leN img (off + j) 1 = some (c j)) →
    readBytes img off n = .ok ((List.range n).map (fun j => UInt8.ofNat (c j))) := by
  intro n
  induction n generalizing c with
  | zero => intro off _; rfl
  | succ n ih =>
    intro off h
    unfold readBytes
    have h0 := h 0 (Nat.succ_pos _)
    simp only [Nat.add_zero] at h0
    have hr : rd img off 1 = .ok (c 0) := by unfold rd; rw [h0]
    have hrest := ih (fun j => c (j + 1)) (off + 1) (by
      intro j hj
      have := h (j + 1) (by omega)
      have e : off + (j + 1) = off + 1 + j := by omega
      rw [e] at this; exact this)
    simp only [bind, Except.bind, hr, hrest, pure, Except.pure]
    congr 1
    rw [List.range_succ_eq_map]
    simp [List.map_map, Function.comp_def]

/-- what the renderer is given for one directory slot, as far as decoding needs it -/
structure RowWf (r : Row) (start len : Nat) (v4 : Bool) : Prop where
  units : (CfbVerif.Names.utf16 r.name).length ≤ 31
  unitRange : ∀ x ∈ CfbVerif.Names.utf16 r.name, x < 65536
  decode : decodeUtf16 (CfbVerif.Names.utf16 r.name) = some r.name
  typ : r.typ = Gen.OBJ_TYPE_STORAGE ∨ r.typ = Gen.OBJ_TYPE_STREAM ∨ r.typ = Gen.OBJ_TYPE_ROOT
  rootNm : r.typ = Gen.OBJ_TYPE_ROOT → r.name = Raw.rootName
  validNm : r.typ ≠ Gen.OBJ_TYPE_ROOT → CfbVerif.Names.validateName r.name = true
  left : linkOf r.left = NOSTREAM ∨ linkOf r.left ≤ MAXREGID
  right : linkOf r.right = NOSTREAM ∨ linkOf r.right ≤ MAXREGID
  child : linkOf r.child = NOSTREAM ∨ linkOf r.child ≤ MAXREGID
  streamChild : r.typ = Gen.OBJ_TYPE_STREAM → linkOf r.child = NOSTREAM
  clsid : r.md.clsid.length = 16
  streamMeta : r.typ = Gen.OBJ_TYPE_STREAM → r.md.clsid = Raw.nilClsid ∧ r.md.ctime = 0 ∧ r.md.mtime = 0
  bits : r.md.bits < 256 ^ 4
  ctime : r.md.ctime < 256 ^ 8
  mtime : r.md.mtime < 256 ^ 8
  startLt : start < 256 ^ 4
  lenLt : len < (if v4 then Gen.streamLenMaskV4 + 1 else Gen.streamLenMaskV3 + 1)
  storage : r.typ = Gen.OBJ_TYPE_STORAGE → start = 0 ∧ len = 0

/-- the entry the reader is to return -/
def entryOf (r : Row) (start len : Nat) : DirEntry :=
  { name := r.name, objType := r.typ, red := !r.black, left := linkOf r.left, right := linkOf r.right,
    child := linkOf r.child, clsid := r.md.clsid, stateBits := r.md.bits, ctime := r.md.ctime, mtime := r.md.mtime,
    startSector := start, streamLen := len }

theorem clsid_roundtrip {c : List UInt8} (h : c.length = 16) : clsidOfDisk (clsidOnDisk c) = c := by
  match c, h with
  | [a0, a1, a2, a3, b0, b1, c0, c1, d0, d1, d2, d3, d4, d5, d6, d7], _ => rfl

/-- the field that follows the fields `pre`, read from a buffer that goes on with `post` -/
theorem field_at (b : ByteArray) (pre : List (Nat × Nat)) (w v : Nat) (post : List (Nat × Nat)) (off : Nat)
    (hoff : off = b.size + widthSum pre) :
    leN (pushFields b (pre ++ (w, v) :: post)) off w = some (v % 256 ^ w) := by
  rw [hoff]; exact pushFields_read pre w v post b

/-- the `k`-th field of the middle segment `Y` of a field sequence `X ++ Y ++ Z` -/
theorem seg_read (b : ByteArray) (X Y Z : List (Nat × Nat)) (k : Nat) (hk : k < Y.length) (off : Nat)
    (hoff : off = b.size + widthSum X + widthSum (Y.take k)) :
    leN (pushFields b (X ++ (Y ++ Z))) off Y[k].1 = some (Y[k].2 % 256 ^ Y[k].1) := by
  rw [← pushFields_append, hoff]
  have := pushFields_read_nth Y Z k hk (pushFields b X)
  rw [size_pushFields] at this
  exact this

/-- the 32 name units of an entry: the name's units, then zeros -/
def nameUnits (u : List Nat) : List Nat := u ++ List.replicate (32 - u.length) 0

theorem nameUnits_length (u : List Nat) (h : u.length ≤ 32) : (nameUnits u).length = 32 := by
  unfold nameUnits; simp; omega

theorem entryFields2_eq (r : Row) (start len : Nat) :
    entryFields2 r start len =
      (nameUnits (CfbVerif.Names.utf16 r.name)).map (fun x => (2, x)) ++
      ([(2, ((CfbVerif.Names.utf16 r.name).length + 1) * 2), (1, (UInt8.ofNat r.typ).toNat),
        (1, (if r.black then UInt8.ofNat Gen.COLOR_BLACK else UInt8.ofNat Gen.COLOR_RED).toNat),
        (4, linkOf r.left), (4, linkOf r.right), (4, linkOf r.child)] ++
      ((clsidOnDisk r.md.clsid).map (fun x => (1, x.toNat)) ++
      [(4, r.md.bits), (8, r.md.ctime), (8, r.md.mtime), (4, start), (8, len)])) := by
  unfold entryFields2 nameUnits
  simp only [List.map_append, List.map_replicate]

theorem widthSum_units_take (l : List Nat) (j : Nat) (hj : j ≤ l.length) :
    widthSum ((l.map (fun x => (2, x))).take j) = 2 * j := by
  rw [← List.map_take, widthSum_units, List.length_take, Nat.min_eq_left hj]

theorem widthSum_bytes_take (l : List UInt8) (j : Nat) (hj : j ≤ l.length) :
    widthSum ((l.map (fun x => (1, x.toNat))).take j) = j := by
  rw [← List.map_take, widthSum_bytes, List.length_take, Nat.min_eq_left hj]

theorem ofNat_toNat_u8 (x : UInt8) : UInt8.ofNat x.toNat = x := by
  apply UInt8.toNat_inj.mp
  simp

/-- **a rendered directory entry is decoded back, whole**: the reader model's `readDirEntry`, in
both modes and both versions, run where `renderEntry` started writing, returns the entry the row
describes — whatever bytes follow -/
theorem readDirEntry_render (b : ByteArray) (r : Row) (start len : Nat) (rest : List (Nat × Nat)) (m : Mode) (v4 : Bool)
    (wf : RowWf r start len v4) :
    readDirEntry m v4 (pushFields (renderEntry b r start len) rest) b.size = .ok (entryOf r start len) := by
  rw [renderEntry_eq2, pushFields_append, entryFields2_eq]
  generalize hu : CfbVerif.Names.utf16 r.name = u at *
  have hn : u.length ≤ 31 := by rw [← hu]; exact wf.units
  have hsmallAll : ∀ x ∈ nameUnits u, x < 65536 := by
    intro x hx
    unfold nameUnits at hx
    rcases List.mem_append.mp hx with h1 | h1
    · exact wf.unitRange x (by rw [hu]; exact h1)
    · rw [List.mem_replicate] at h1; rw [h1.2]; decide
  have hUlen : (nameUnits u).length = 32 := nameUnits_length u (by omega)
  generalize hA : (nameUnits u).map (fun x => ((2 : Nat), x)) = A
  generalize hB : [((2 : Nat), (u.length + 1) * 2), (1, (UInt8.ofNat r.typ).toNat),
        (1, (if r.black then UInt8.ofNat Gen.COLOR_BLACK else UInt8.ofNat Gen.COLOR_RED).toNat),
        (4, linkOf r.left), (4, linkOf r.right), (4, linkOf r.child)] = B
  generalize hC : (clsidOnDisk r.md.clsid).map (fun x => ((1 : Nat), x.toNat)) = C
  generalize hD : [((4 : Nat), r.md.bits), (8, r.md.ctime), (8, r.md.mtime), (4, start), (8, len)] = D
  have hassoc : A ++ (B ++ (C ++ D)) ++ rest = A ++ (B ++ (C ++ (D ++ rest))) := by simp [List.append_assoc]
  rw [hassoc]
  generalize himg : pushFields b (A ++ (B ++ (C ++ (D ++ rest)))) = img
  have hAlen : A.length = 32 := by rw [← hA]; simpa using hUlen
  have hAw : widthSum A = 64 := by rw [← hA, widthSum_units, hUlen]
  have hBw : widthSum B = 16 := by rw [← hB]; rfl
  have hcl : (clsidOnDisk r.md.clsid).length = 16 := clsidOnDisk_length wf.clsid
  have hClen : C.length = 16 := by rw [← hC]; simpa using hcl
  have hCw : widthSum C = 16 := by rw [← hC, widthSum_bytes, hcl]
  -- the 32 name units
  have rUnits : readUnits img b.size 32 = .ok (nameUnits u) := by
    have h := readUnits_of img (fun j => (nameUnits u)[j]?.getD 0) 32 b.size (by
      intro j hj
      have hjA : j < A.length := by omega
      have hs := seg_read b [] A (B ++ (C ++ (D ++ rest))) j hjA (b.size + 2 * j) (by
        simp only [widthSum, Nat.add_zero]
        rw [← hA, widthSum_units_take _ _ (by omega)])
      simp only [List.nil_append] at hs
      rw [himg] at hs
      have hget : A[j] = (2, (nameUnits u)[j]'(by omega)) := by
        have : A[j]? = some (2, (nameUnits u)[j]'(by omega)) := by
          rw [← hA]; simp [List.getElem?_map, List.getElem?_eq_getElem (show j < (nameUnits u).length by omega)]
        rw [List.getElem?_eq_getElem hjA] at this
        exact Option.some.inj this
      rw [hget] at hs
      simp only at hs
      rw [hs, List.getElem?_eq_getElem (show j < (nameUnits u).length by omega)]
      simp only [Option.getD_some]
      congr 1
      exact Nat.mod_eq_of_lt (hsmallAll _ (List.getElem_mem _)))
    rw [h]
    congr 1
    apply List.ext_getElem
    · simp [hUlen]
    · intro i h1 h2
      simp only [List.getElem_map, List.getElem_range]
      rw [List.getElem?_eq_getElem h2]; rfl
  -- a field of `B`
  have readB : ∀ (k : Nat) (hk : k < B.length) (off : Nat), off = b.size + 64 + widthSum (B.take k) →
      rd img off B[k].1 = .ok (B[k].2 % 256 ^ B[k].1) := by
    intro k hk off hoff
    have hs := seg_read b A B (C ++ (D ++ rest)) k hk off (by rw [hoff, hAw])
    rw [himg] at hs
    unfold rd; rw [hs]
  have hBlen : B.length = 6 := by rw [← hB]; rfl
  have rLen : rd img (b.size + 64) 2 = .ok ((u.length + 1) * 2) := by
    have := readB 0 (by omega) (b.size + 64) (by simp [widthSum])
    have e : B[0]'(by omega) = (2, (u.length + 1) * 2) := by subst hB; rfl
    rw [e] at this
    rw [this]; congr 1; exact Nat.mod_eq_of_lt (by simp; omega)
  have htyp256 : r.typ < 256 := by
    rcases wf.typ with h | h | h <;> rw [h] <;> decide
  have rType : rd img (b.size + 66) 1 = .ok r.typ := by
    have := readB 1 (by omega) (b.size + 66) (by subst hB; simp [widthSum])
    have e : B[1]'(by omega) = (1, (UInt8.ofNat r.typ).toNat) := by subst hB; rfl
    rw [e] at this
    rw [this]; congr 1
    simp only [UInt8.toNat_ofNat']
    rw [Nat.mod_eq_of_lt (by omega : r.typ < 2 ^ 8)]
    exact Nat.mod_eq_of_lt (by omega)
  have rColor : rd img (b.size + 67) 1 = .ok (if r.black then Gen.COLOR_BLACK else Gen.COLOR_RED) := by
    have := readB 2 (by omega) (b.size + 67) (by subst hB; simp [widthSum])
    have e : B[2]'(by omega) = (1, (if r.black then UInt8.ofNat Gen.COLOR_BLACK else UInt8.ofNat Gen.COLOR_RED).toNat) := by subst hB; rfl
    rw [e] at this
    rw [this]; congr 1
    cases r.black <;> rfl
  have hNO : NOSTREAM < 256 ^ 4 := by decide
  have hMR : MAXREGID < 256 ^ 4 := by decide
  have linkSmall : ∀ x, (x = NOSTREAM ∨ x ≤ MAXREGID) → x % 256 ^ 4 = x := by
    intro x hx
    apply Nat.mod_eq_of_lt
    rcases hx with h | h
    · rw [h]; exact hNO
    · omega
  have rLeft : rd img (b.size + 68) 4 = .ok (linkOf r.left) := by
    have := readB 3 (by omega) (b.size + 68) (by subst hB; simp [widthSum])
    have e : B[3]'(by omega) = (4, linkOf r.left) := by subst hB; rfl
    rw [e] at this
    rw [this, linkSmall _ wf.left]
  have rRight : rd img (b.size + 72) 4 = .ok (linkOf r.right) := by
    have := readB 4 (by omega) (b.size + 72) (by subst hB; simp [widthSum])
    have e : B[4]'(by omega) = (4, linkOf r.right) := by subst hB; rfl
    rw [e] at this
    rw [this, linkSmall _ wf.right]
  have rChild : rd img (b.size + 76) 4 = .ok (linkOf r.child) := by
    have := readB 5 (by omega) (b.size + 76) (by subst hB; simp [widthSum])
    have e : B[5]'(by omega) = (4, linkOf r.child) := by subst hB; rfl
    rw [e] at this
    rw [this, linkSmall _ wf.child]
  -- the CLSID
  have rClsid : readBytes img (b.size + 80) 16 = .ok (clsidOnDisk r.md.clsid) := by
    have h := readBytes_of img (fun j => ((clsidOnDisk r.md.clsid)[j]?.map (·.toNat)).getD 0) 16 (b.size + 80) (by
      intro j hj
      have hjC : j < C.length := by omega
      have hre : A ++ (B ++ (C ++ (D ++ rest))) = (A ++ B) ++ (C ++ (D ++ rest)) := by simp [List.append_assoc]
      have hs := seg_read b (A ++ B) C (D ++ rest) j hjC (b.size + 80 + j) (by
        rw [widthSum_append, hAw, hBw, ← hC, widthSum_bytes_take _ _ (by omega)])
      rw [← hre, himg] at hs
      have hjc : j < (clsidOnDisk r.md.clsid).length := by omega
      have hget : C[j] = (1, ((clsidOnDisk r.md.clsid)[j]'hjc).toNat) := by
        have : C[j]? = some (1, ((clsidOnDisk r.md.clsid)[j]'hjc).toNat) := by
          rw [← hC]; simp [List.getElem?_map, List.getElem?_eq_getElem hjc]
        rw [List.getElem?_eq_getElem hjC] at this
        exact Option.some.inj this
      rw [hget] at hs
      simp only at hs
      rw [hs, List.getElem?_eq_getElem hjc]
      simp only [Option.map_some, Option.getD_some]
      congr 1
      exact Nat.mod_eq_of_lt (by have := ((clsidOnDisk r.md.clsid)[j]'hjc).toNat_lt; simpa using this))
    rw [h]
    congr 1
    apply List.ext_getElem
    · simp [hcl]
    · intro i h1 h2
      simp only [List.getElem_map, List.getElem_range]
      rw [List.getElem?_eq_getElem h2]
      simp only [Option.map_some, Option.getD_some]
      exact ofNat_toNat_u8 _
  -- a field of `D`
  have hDlen : D.length = 5 := by rw [← hD]; rfl
  have readD : ∀ (k : Nat) (hk : k < D.length) (off : Nat), off = b.size + 96 + widthSum (D.take k) →
      rd img off D[k].1 = .ok (D[k].2 % 256 ^ D[k].1) := by
    intro k hk off hoff
    have hre : A ++ (B ++ (C ++ (D ++ rest))) = (A ++ (B ++ C)) ++ (D ++ rest) := by simp [List.append_assoc]
    have hs := seg_read b (A ++ (B ++ C)) D rest k hk off (by
      rw [hoff, widthSum_append, widthSum_append, hAw, hBw, hCw])
    rw [← hre, himg] at hs
    unfold rd; rw [hs]
  have rBits : rd img (b.size + 96) 4 = .ok r.md.bits := by
    have := readD 0 (by omega) (b.size + 96) (by simp [widthSum])
    have e : D[0]'(by omega) = (4, r.md.bits) := by subst hD; rfl
    rw [e] at this
    rw [this, Nat.mod_eq_of_lt wf.bits]
  have rCtime : rd img (b.size + 100) 8 = .ok r.md.ctime := by
    have := readD 1 (by omega) (b.size + 100) (by subst hD; simp [widthSum])
    have e : D[1]'(by omega) = (8, r.md.ctime) := by subst hD; rfl
    rw [e] at this
    rw [this, Nat.mod_eq_of_lt wf.ctime]
  have rMtime : rd img (b.size + 108) 8 = .ok r.md.mtime := by
    have := readD 2 (by omega) (b.size + 108) (by subst hD; simp [widthSum])
    have e : D[2]'(by omega) = (8, r.md.mtime) := by subst hD; rfl
    rw [e] at this
    rw [this, Nat.mod_eq_of_lt wf.mtime]
  have rStart : rd img (b.size + 116) 4 = .ok start := by
    have := readD 3 (by omega) (b.size + 116) (by subst hD; simp [widthSum])
    have e : D[3]'(by omega) = (4, start) := by subst hD; rfl
    rw [e] at this
    rw [this, Nat.mod_eq_of_lt wf.startLt]
  have hlen64 : len < 256 ^ 8 := by
    have := wf.lenLt
    cases v4 <;> simp [Gen.streamLenMaskV3, Gen.streamLenMaskV4] at this <;> omega
  have rSize : rd img (b.size + 120) 8 = .ok len := by
    have := readD 4 (by omega) (b.size + 120) (by subst hD; simp [widthSum])
    have e : D[4]'(by omega) = (8, len) := by subst hD; rfl
    rw [e] at this
    rw [this, Nat.mod_eq_of_lt hlen64]
  unfold readDirEntry
  simp only [bind, Except.bind, pure, Except.pure, rUnits, rLen, rType, rColor, rLeft, rRight, rChild, rClsid, rBits,
    rCtime, rMtime, rStart, rSize]
  have hidx : (if (u.length + 1) * 2 > 0 then (u.length + 1) * 2 / 2 - 1 else 0) = u.length := by
    rw [if_pos (by omega)]; omega
  rw [hidx]
  have hterm : (nameUnits u).getD u.length 0 = 0 := by
    unfold nameUnits
    rw [List.getD_eq_getElem?_getD, List.getElem?_append_right (Nat.le_refl _)]
    rw [Nat.sub_self, List.getElem?_replicate]
    split <;> rfl
  have htake : (nameUnits u).take u.length = u := by unfold nameUnits; simp
  rw [if_neg (by omega), if_neg (by omega), if_neg (by rw [hterm]; simp), htake]
  have hdec : decodeUtf16 u = some r.name := by rw [← hu]; exact wf.decode
  rw [hdec]
  simp only
  have nl : ¬ (¬ linkOf r.left = NOSTREAM ∧ MAXREGID < linkOf r.left) := by
    rcases wf.left with h | h
    · simp [h]
    · omega
  have nr : ¬ (¬ linkOf r.right = NOSTREAM ∧ MAXREGID < linkOf r.right) := by
    rcases wf.right with h | h
    · simp [h]
    · omega
  have nc : ¬ (¬ linkOf r.child = NOSTREAM ∧ MAXREGID < linkOf r.child) := by
    rcases wf.child with h | h
    · simp [h]
    · omega
  have hmask : len % (if v4 = true then Gen.streamLenMaskV4 + 1 else Gen.streamLenMaskV3 + 1) = len :=
    Nat.mod_eq_of_lt wf.lenLt
  rcases wf.typ with ht | ht | ht
  · -- a storage
    have hsto := wf.storage ht
    have hv := wf.validNm (by rw [ht]; decide)
    simp [ht, Gen.OBJ_TYPE_STORAGE, Gen.OBJ_TYPE_STREAM, Gen.OBJ_TYPE_ROOT, Gen.OBJ_TYPE_UNALLOCATED, hv, entryOf, hsto.1,
      hsto.2, clsid_roundtrip wf.clsid, badE, nl, nr, nc, Gen.COLOR_BLACK, Gen.COLOR_RED]
  · -- a stream
    have hsm := wf.streamMeta ht
    have hv := wf.validNm (by rw [ht]; decide)
    have hch := wf.streamChild ht
    simp [ht, Gen.OBJ_TYPE_STORAGE, Gen.OBJ_TYPE_STREAM, Gen.OBJ_TYPE_ROOT, Gen.OBJ_TYPE_UNALLOCATED, hv, entryOf,
      clsid_roundtrip wf.clsid, badE, nl, nr, hch, hsm.1, hsm.2.1, hsm.2.2, hmask, Gen.COLOR_BLACK, Gen.COLOR_RED]
    intro hne
    exact absurd (clsid_roundtrip (c := Raw.nilClsid) (by decide)) hne
  · -- the root
    have hrn := wf.rootNm ht
    simp [ht, Gen.OBJ_TYPE_STORAGE, Gen.OBJ_TYPE_STREAM, Gen.OBJ_TYPE_ROOT, Gen.OBJ_TYPE_UNALLOCATED, hrn, entryOf,
      clsid_roundtrip wf.clsid, badE, nl, nr, nc, hmask, Gen.COLOR_BLACK, Gen.COLOR_RED]

/-! ## an unallocated slot -/

theorem pushLE_zero_add : ∀ (a c : Nat) (b : ByteArray), pushLE b (a + c) 0 = pushLE (pushLE b a 0) c 0 := by
  intro a
  induction a with
  | zero => intro c b; simp [pushLE]
  | succ a ih =>
    intro c b
    have e : a + 1 + c = (a + c) + 1 := by omega
    rw [e]
    simp only [pushLE]
    have h0 : (0 : Nat) % 256 = 0 := rfl
    have h1 : (0 : Nat) / 256 = 0 := rfl
    rw [h0, h1]
    exact ih c _

theorem pushLE_zero_bytes : ∀ (k : Nat) (b : ByteArray), pushLE b k 0 = pushFields b (List.replicate k (1, 0)) := by
  intro k
  induction k with
  | zero => intro b; rfl
  | succ k ih =>
    intro b
    rw [List.replicate_succ]
    simp only [pushFields, pushLE]
    have h0 : (0 : Nat) % 256 = 0 := rfl
    have h1 : (0 : Nat) / 256 = 0 := rfl
    rw [h0, h1]
    exact ih _

/-- the fields of an unallocated slot, cut where the reader cuts -/
def unallocFields : List (Nat × Nat) :=
  List.replicate 32 (2, 0) ++ ([(2, 0), (1, 0), (1, 0), (4, NOSTREAM), (4, NOSTREAM), (4, NOSTREAM)] ++
    (List.replicate 16 (1, 0) ++ [(4, 0), (8, 0), (8, 0), (4, 0), (8, 0)]))

theorem renderUnallocated_eq2 (b : ByteArray) : renderUnallocated b = pushFields b unallocFields := by
  rw [renderUnallocated_eq]
  unfold unallocFields
  simp only [← pushFields_append, pushFields]
  have e68 : pushLE b 68 0 = pushLE (pushLE (pushLE (pushFields b (List.replicate 32 (2, 0))) 2 0) 1 0) 1 0 := by
    have : (68 : Nat) = 2 * 32 + 2 + 1 + 1 := rfl
    rw [this, pushLE_zero_add, pushLE_zero_add, pushLE_zero_add, pushLE_zero_units 32 b]
  have e48 : ∀ x : ByteArray, pushLE x 48 0 =
      pushLE (pushLE (pushLE (pushLE (pushLE (pushFields x (List.replicate 16 (1, 0))) 4 0) 8 0) 8 0) 4 0) 8 0 := by
    intro x
    have : (48 : Nat) = 16 + 4 + 8 + 8 + 4 + 8 := rfl
    rw [this, pushLE_zero_add, pushLE_zero_add, pushLE_zero_add, pushLE_zero_add, pushLE_zero_add, pushLE_zero_bytes 16 x]
  rw [e68, e48]

/-- the entry the reader returns for an unallocated slot -/
def unallocEntry : DirEntry :=
  { name := [], objType := Gen.OBJ_TYPE_UNALLOCATED, red := true, left := NOSTREAM, right := NOSTREAM, child := NOSTREAM,
    clsid := Raw.nilClsid, stateBits := 0, ctime := 0, mtime := 0, startSector := 0, streamLen := 0 }

/-- **an unallocated slot is decoded back** -/
theorem readDirEntry_unallocated (b : ByteArray) (rest : List (Nat × Nat)) (m : Mode) (v4 : Bool) :
    readDirEntry m v4 (pushFields (renderUnallocated b) rest) b.size = .ok unallocEntry := by
  rw [renderUnallocated_eq2, pushFields_append]
  unfold unallocFields
  generalize hA : List.replicate 32 ((2 : Nat), (0 : Nat)) = A
  generalize hB : [((2 : Nat), (0 : Nat)), (1, 0), (1, 0), (4, NOSTREAM), (4, NOSTREAM), (4, NOSTREAM)] = B
  generalize hC : List.replicate 16 ((1 : Nat), (0 : Nat)) = C
  generalize hD : [((4 : Nat), (0 : Nat)), (8, 0), (8, 0), (4, 0), (8, 0)] = D
  have hassoc : A ++ (B ++ (C ++ D)) ++ rest = A ++ (B ++ (C ++ (D ++ rest))) := by simp [List.append_assoc]
  rw [hassoc]
  generalize himg : pushFields b (A ++ (B ++ (C ++ (D ++ rest)))) = img
  have hAlen : A.length = 32 := by rw [← hA]; simp
  have hClen : C.length = 16 := by rw [← hC]; simp
  have hAeq : A = (List.replicate 32 0).map (fun x => ((2 : Nat), x)) := by rw [← hA]; simp
  have hCeq : C = (List.replicate 16 (0 : UInt8)).map (fun x => ((1 : Nat), x.toNat)) := by rw [← hC]; simp
  have hAw : widthSum A = 64 := by rw [hAeq, widthSum_units]; simp
  have hBw : widthSum B = 16 := by rw [← hB]; rfl
  have hCw : widthSum C = 16 := by rw [hCeq, widthSum_bytes]; simp
  have rUnits : readUnits img b.size 32 = .ok (List.replicate 32 0) := by
    have h := readUnits_of img (fun _ => 0) 32 b.size (by
      intro j hj
      have hjA : j < A.length := by omega
      have hs := seg_read b [] A (B ++ (C ++ (D ++ rest))) j hjA (b.size + 2 * j) (by
        simp only [widthSum, Nat.add_zero]
        rw [hAeq, widthSum_units_take _ _ (by simp; omega)])
      simp only [List.nil_append] at hs
      rw [himg] at hs
      have hget : A[j] = (2, 0) := by
        have : A[j]? = some (2, 0) := by rw [← hA, List.getElem?_replicate, if_pos hj]
        rw [List.getElem?_eq_getElem hjA] at this
        exact Option.some.inj this
      rw [hget] at hs
      simpa using hs)
    rw [h]; rfl
  have readB : ∀ (k : Nat) (hk : k < B.length) (off : Nat), off = b.size + 64 + widthSum (B.take k) →
      rd img off B[k].1 = .ok (B[k].2 % 256 ^ B[k].1) := by
    intro k hk off hoff
    have hs := seg_read b A B (C ++ (D ++ rest)) k hk off (by rw [hoff, hAw])
    rw [himg] at hs
    unfold rd; rw [hs]
  have hBlen : B.length = 6 := by rw [← hB]; rfl
  have rLen : rd img (b.size + 64) 2 = .ok 0 := by
    have := readB 0 (by omega) (b.size + 64) (by simp [widthSum])
    have e : B[0]'(by omega) = (2, 0) := by subst hB; rfl
    rw [e] at this; simpa using this
  have rType : rd img (b.size + 66) 1 = .ok 0 := by
    have := readB 1 (by omega) (b.size + 66) (by subst hB; simp [widthSum])
    have e : B[1]'(by omega) = (1, 0) := by subst hB; rfl
    rw [e] at this; simpa using this
  have rColor : rd img (b.size + 67) 1 = .ok 0 := by
    have := readB 2 (by omega) (b.size + 67) (by subst hB; simp [widthSum])
    have e : B[2]'(by omega) = (1, 0) := by subst hB; rfl
    rw [e] at this; simpa using this
  have hNOm : NOSTREAM % 256 ^ 4 = NOSTREAM := by decide
  have rLeft : rd img (b.size + 68) 4 = .ok NOSTREAM := by
    have := readB 3 (by omega) (b.size + 68) (by subst hB; simp [widthSum])
    have e : B[3]'(by omega) = (4, NOSTREAM) := by subst hB; rfl
    rw [e] at this; rw [this, hNOm]
  have rRight : rd img (b.size + 72) 4 = .ok NOSTREAM := by
    have := readB 4 (by omega) (b.size + 72) (by subst hB; simp [widthSum])
    have e : B[4]'(by omega) = (4, NOSTREAM) := by subst hB; rfl
    rw [e] at this; rw [this, hNOm]
  have rChild : rd img (b.size + 76) 4 = .ok NOSTREAM := by
    have := readB 5 (by omega) (b.size + 76) (by subst hB; simp [widthSum])
    have e : B[5]'(by omega) = (4, NOSTREAM) := by subst hB; rfl
    rw [e] at this; rw [this, hNOm]
  have rClsid : readBytes img (b.size + 80) 16 = .ok (List.replicate 16 0) := by
    have h := readBytes_of img (fun _ => 0) 16 (b.size + 80) (by
      intro j hj
      have hjC : j < C.length := by omega
      have hre : A ++ (B ++ (C ++ (D ++ rest))) = (A ++ B) ++ (C ++ (D ++ rest)) := by simp [List.append_assoc]
      have hs := seg_read b (A ++ B) C (D ++ rest) j hjC (b.size + 80 + j) (by
        rw [widthSum_append, hAw, hBw, hCeq, widthSum_bytes_take _ _ (by simp; omega)])
      rw [← hre, himg] at hs
      have hget : C[j] = (1, 0) := by
        have : C[j]? = some (1, 0) := by rw [← hC, List.getElem?_replicate, if_pos hj]
        rw [List.getElem?_eq_getElem hjC] at this
        exact Option.some.inj this
      rw [hget] at hs
      simpa using hs)
    rw [h]; rfl
  have hDlen : D.length = 5 := by rw [← hD]; rfl
  have readD : ∀ (k : Nat) (hk : k < D.length) (off : Nat), off = b.size + 96 + widthSum (D.take k) →
      rd img off D[k].1 = .ok (D[k].2 % 256 ^ D[k].1) := by
    intro k hk off hoff
    have hre : A ++ (B ++ (C ++ (D ++ rest))) = (A ++ (B ++ C)) ++ (D ++ rest) := by simp [List.append_assoc]
    have hs := seg_read b (A ++ (B ++ C)) D rest k hk off (by
      rw [hoff, widthSum_append, widthSum_append, hAw, hBw, hCw])
    rw [← hre, himg] at hs
    unfold rd; rw [hs]
  have rBits : rd img (b.size + 96) 4 = .ok 0 := by
    have := readD 0 (by omega) (b.size + 96) (by simp [widthSum])
    have e : D[0]'(by omega) = (4, 0) := by subst hD; rfl
    rw [e] at this; simpa using this
  have rCtime : rd img (b.size + 100) 8 = .ok 0 := by
    have := readD 1 (by omega) (b.size + 100) (by subst hD; simp [widthSum])
    have e : D[1]'(by omega) = (8, 0) := by subst hD; rfl
    rw [e] at this; simpa using this
  have rMtime : rd img (b.size + 108) 8 = .ok 0 := by
    have := readD 2 (by omega) (b.size + 108) (by subst hD; simp [widthSum])
    have e : D[2]'(by omega) = (8, 0) := by subst hD; rfl
    rw [e] at this; simpa using this
  have rStart : rd img (b.size + 116) 4 = .ok 0 := by
    have := readD 3 (by omega) (b.size + 116) (by subst hD; simp [widthSum])
    have e : D[3]'(by omega) = (4, 0) := by subst hD; rfl
    rw [e] at this; simpa using this
  have rSize : rd img (b.size + 120) 8 = .ok 0 := by
    have := readD 4 (by omega) (b.size + 120) (by subst hD; simp [widthSum])
    have e : D[4]'(by omega) = (8, 0) := by subst hD; rfl
    rw [e] at this; simpa using this
  unfold readDirEntry
  simp only [bind, Except.bind, pure, Except.pure, rUnits, rLen, rType, rColor, rLeft, rRight, rChild, rClsid, rBits,
    rCtime, rMtime, rStart, rSize]
  have hdec : decodeUtf16 [] = some [] := by simp [decodeUtf16]
  have hval : CfbVerif.Names.validateName [] = true := by decide
  have hcl : clsidOfDisk (List.replicate 16 0) = Raw.nilClsid := by decide
  simp [hdec, hval, hcl, unallocEntry, Gen.OBJ_TYPE_UNALLOCATED, Gen.OBJ_TYPE_STORAGE, Gen.OBJ_TYPE_STREAM,
    Gen.OBJ_TYPE_ROOT, Gen.COLOR_RED, Gen.COLOR_BLACK, Raw.nilClsid]
  rfl

end CfbVerif.Phys
