import CfbVerif.Phys.LookupBack
import CfbVerif.Dir.Iter
/-!
# `walk` on the reopened file is the directory model's pre-order

`Raw.walkLoop` is the `Entries` stack machine of entry.rs over the index-linked table.  On a table
that represents a tree (`DfsOk`) it emits, for a sibling tree whose left spine is on the stack,
exactly the pre-order of that tree with its paths — `walk_tree`, a big-step lemma by structural
induction (one iteration per node, the stack below untouched) — hence `Raw.walk` on the state
`open` returns for the rendered image lists the paths of the directory model's `walk` in the same
order (`walk_after_reopen`).
-/
namespace CfbVerif.Phys
open CfbVerif.Raw CfbVerif.Dir CfbVerif.Names

/-- the left spine of a sibling tree pushed on the iterator's stack -/
def spineT (P : List Nat) : Tree → List (List Nat × Nat × Bool) → List (List Nat × Nat × Bool)
  | .leaf, st => st
  | .node l e _ _, st => spineT P l ((P, e.slot, true) :: st)

/-- what the iterator yields for a sibling tree under the path `P`: in name order, every storage
directly followed by everything below it -/
def emit (P : List Nat) : Tree → List (List Nat × Nat)
  | .leaf => []
  | .node l e k r =>
    emit P l ++ [(Raw.joinPath P e.name, e.slot)] ++
      (if e.isStream then [] else emit (Raw.joinPath P e.name) k) ++ emit P r

theorem leftSpine_tree (r : RawState) (strict : Bool) (P : List Nat) (t : Tree) :
    DfsOk r.dir strict t → ∀ (fuel : Nat) (st : List (List Nat × Nat × Bool)), t.size + 1 ≤ fuel →
    Raw.leftSpine r P fuel (lnk t) st = .ok (spineT P t st) := by
  induction t with
  | leaf =>
    intro _ fuel st hf
    obtain ⟨f, rfl⟩ : ∃ f, fuel = f + 1 := ⟨fuel - 1, by simp [Tree.size] at hf; omega⟩
    simp [Raw.leftSpine, lnk, spineT]
  | node l e k rr ihl _ _ =>
    intro ok fuel st hf
    obtain ⟨okl, _, _, _, hne, ⟨d, hd, _, _, _, hleft, _, _⟩, _, _⟩ := ok
    simp only [Tree.size] at hf
    obtain ⟨f, rfl⟩ : ∃ f, fuel = f + 1 := ⟨fuel - 1, by omega⟩
    have hne' : ¬ (lnk (Tree.node l e k rr) = NOSTREAM) := hne
    rw [Raw.leftSpine, if_neg hne']
    simp only [lnk]
    rw [hd]
    simp only [spineT]
    rw [hleft]
    exact ihl okl f _ (by omega)

/-- one iteration of the walk on a non-root entry whose pushes succeed -/
theorem walkLoop_step (r : RawState) (fuel : Nat) (parent : List Nat) (id : Nat) (vis : Bool)
    (st st1 st2 : List (List Nat × Nat × Bool)) (acc : List (List Nat × Nat)) (d : DirEntry)
    (hd : r.dir[id]? = some d)
    (h1 : (if vis then Raw.leftSpine r parent (r.dir.size + 1) d.right st else .ok st) = .ok st1)
    (h2 : (if d.objType ≠ Gen.OBJ_TYPE_STREAM ∧ d.child ≠ NOSTREAM
        then Raw.leftSpine r (if d.objType = Gen.OBJ_TYPE_ROOT then parent else Raw.joinPath parent d.name)
          (r.dir.size + 1) d.child st1 else .ok st1) = .ok st2) :
    Raw.walkLoop r (fuel + 1) ((parent, id, vis) :: st) acc =
      Raw.walkLoop r fuel st2 ((if d.objType = Gen.OBJ_TYPE_ROOT then parent else Raw.joinPath parent d.name, id) :: acc) := by
  rw [Raw.walkLoop, hd]
  simp only [h1, h2]

/-- **the walk of one sibling tree**: `size` iterations, the stack below untouched, the pre-order
emitted -/
theorem walk_tree (r : RawState) (strict : Bool) (t : Tree) :
    ∀ (P : List Nat) (st : List (List Nat × Nat × Bool)) (acc : List (List Nat × Nat)) (fuel : Nat),
      DfsOk r.dir strict t → t.size + 1 ≤ r.dir.size + 1 →
      Raw.walkLoop r (fuel + t.size) (spineT P t st) acc = Raw.walkLoop r fuel st ((emit P t).reverse ++ acc) := by
  induction t with
  | leaf => intro P st acc fuel _ _; rfl
  | node l e k rr ihl ihk ihr =>
    intro P st acc fuel ok hb
    obtain ⟨okl, okk, okr, _, _, ⟨d, hd, hname, htyp, _, _, hright, hchild⟩, hleaf, _⟩ := ok
    simp only [Tree.size] at hb
    have hfu : fuel + (Tree.node l e k rr).size = (((fuel + rr.size) + k.size) + 1) + l.size := by
      simp only [Tree.size]; omega
    rw [hfu]
    simp only [spineT]
    rw [ihl P _ acc _ okl (by omega)]
    have hnroot : d.objType ≠ Gen.OBJ_TYPE_ROOT := by
      rw [htyp]; cases e.isStream <;> decide
    have hs1 := leftSpine_tree r strict P rr okr (r.dir.size + 1) st (by omega)
    by_cases hst : e.isStream = true
    · -- a stream: nothing below it
      have hk : k = .leaf := hleaf hst
      subst hk
      have htyp' : d.objType = Gen.OBJ_TYPE_STREAM := by rw [htyp, hst]; rfl
      rw [walkLoop_step r _ P e.slot true st (spineT P rr st) (spineT P rr st) _ d hd
        (by simp only [if_true]; rw [hright]; exact hs1)
        (by rw [if_neg (by intro ⟨h, _⟩; exact h htyp')])]
      rw [if_neg hnroot, hname]
      simp only [Tree.size, Nat.add_zero]
      rw [ihr P st _ fuel okr (by omega)]
      simp only [emit, hst, if_true, List.append_nil, List.reverse_append, List.reverse_cons, List.reverse_nil,
        List.nil_append, List.append_assoc, List.cons_append]
    · have hst' : e.isStream = false := by cases h : e.isStream <;> simp_all
      have htyp' : d.objType ≠ Gen.OBJ_TYPE_STREAM := by rw [htyp, hst']; decide
      have hs2 := leftSpine_tree r strict (Raw.joinPath P d.name) k okk (r.dir.size + 1) (spineT P rr st) (by omega)
      rw [walkLoop_step r _ P e.slot true st (spineT P rr st) (spineT (Raw.joinPath P d.name) k (spineT P rr st)) _ d hd
        (by simp only [if_true]; rw [hright]; exact hs1)
        (by
          rw [if_neg hnroot]
          by_cases hc : d.child = NOSTREAM
          · rw [if_neg (by intro ⟨_, h⟩; exact h hc)]
            have : k = .leaf := by
              cases k with
              | leaf => rfl
              | node kl ke kk kr =>
                obtain ⟨_, _, _, _, hne, _⟩ := okk
                rw [hchild] at hc
                exact absurd hc hne
            subst this
            rfl
          · rw [if_pos ⟨htyp', hc⟩, hchild]; exact hs2)]
      rw [if_neg hnroot, hname]
      rw [ihk (Raw.joinPath P e.name) (spineT P rr st) _ (fuel + rr.size) okk (by omega)]
      rw [ihr P st _ fuel okr (by omega)]
      simp only [emit, hst', Bool.false_eq_true, if_false, List.reverse_append, List.reverse_cons, List.reverse_nil,
        List.nil_append, List.append_assoc, List.cons_append]

/-- **`walk` over a table that represents a tree**: the root, then the pre-order of the tree -/
theorem walk_table (r : RawState) (strict : Bool) (top : Tree) (d0 : DirEntry)
    (h0 : r.dir[Gen.ROOT_STREAM_ID]? = some d0) (hty : d0.objType = Gen.OBJ_TYPE_ROOT) (hc : d0.child = lnk top)
    (ok : DfsOk r.dir strict top) (hsz : top.size + 1 ≤ r.dir.size) :
    Raw.walk r = .ok (([Raw.slash], Gen.ROOT_STREAM_ID) :: emit [Raw.slash] top) := by
  unfold Raw.walk
  obtain ⟨fuel, hf⟩ : ∃ fuel, r.dir.size + 1 = ((fuel + 1) + top.size) + 1 := ⟨r.dir.size - top.size - 1, by omega⟩
  rw [hf]
  have hs := leftSpine_tree r strict [Raw.slash] top ok (r.dir.size + 1) [] (by omega)
  have hroot : d0.objType ≠ Gen.OBJ_TYPE_STREAM := by rw [hty]; decide
  rw [walkLoop_step r _ [Raw.slash] Gen.ROOT_STREAM_ID false [] [] (spineT [Raw.slash] top []) [] d0 h0 (by simp)
    (by
      rw [if_pos hty]
      by_cases hcn : d0.child = NOSTREAM
      · rw [if_neg (by intro ⟨_, h⟩; exact h hcn)]
        have : top = .leaf := by
          cases top with
          | leaf => rfl
          | node kl ke kk kr =>
            obtain ⟨_, _, _, _, hne, _⟩ := ok
            rw [hc] at hcn
            exact absurd hcn hne
        subst this
        rfl
      · rw [if_pos ⟨hroot, hcn⟩, hc]; exact hs)]
  rw [if_pos hty, walk_tree r strict top [Raw.slash] [] _ (fuel + 1) ok (by omega)]
  rw [Raw.walkLoop]
  simp

/-- the paths of `emit` are the paths of the directory model's pre-order listing -/
theorem emit_paths (P : List Nat) (t : Tree) : (emit P t).map (·.1) = (full true P t).map (·.path) := by
  induction t generalizing P with
  | leaf => rfl
  | node l e k r ihl ihk ihr =>
    simp only [emit, full, List.map_append, List.map_cons, List.map_nil, ihl, ihr, Bool.true_and]
    have hj : Raw.joinPath P e.name = Dir.joinPath P e.name := rfl
    rw [hj]
    cases hst : e.isStream
    · simp only [Bool.false_eq_true, if_false, Bool.not_false, if_true, ihk]
      simp [infoOf, hst]
    · simp [infoOf, hst]

/-- **`walk` on the reopened file lists the paths the directory model's `walk` lists, in its order** -/
theorem walk_after_reopen (p : P) (s : Dir.State) (strict : Bool)
    (wf : s.top.WF) (rb : strict = true → RBAll s.top)
    (nd : (0 :: s.top.slots).Nodup) (hcap : ∀ x ∈ 0 :: s.top.slots, x < dirCap p) (hcapN : dirCap p ≤ NOSTREAM) :
    ∃ l, Raw.walk (rawOf p (dirtable s)) = .ok l ∧ l.map (·.1) = (walkAll s).map (·.path) := by
  obtain ⟨⟨d0, h0, hc⟩, ok, hsz⟩ := table_represents p s strict wf rb nd hcap hcapN
  have hrows : (dirtable s).map (·.slot) = 0 :: s.top.slots := by
    simp only [dirtable, List.map_cons, rows_slots]
  have ndr : ((dirtable s).map (·.slot)).Nodup := by rw [hrows]; exact nd
  have hmemroot : rootRowOf s ∈ dirtable s := by rw [dirtable_eq]; simp
  have hroot := table_row p (dirtable s) ndr (rootRowOf s) hmemroot (hcap 0 (by simp))
  have hd0 : d0 = entryOf (rootRowOf s) (startLenOf p (rootRowOf s)).1 (startLenOf p (rootRowOf s)).2 := by
    have : (rootRowOf s).slot = 0 := rfl
    rw [this] at hroot
    rw [h0] at hroot
    exact Option.some.inj hroot
  refine ⟨_, walk_table (rawOf p (dirtable s)) strict s.top d0 h0 (by rw [hd0]; rfl) hc ok hsz, ?_⟩
  rw [Dir.walkAll_eq]
  simp only [List.map_cons, emit_paths, rootInfo]
  rfl

end CfbVerif.Phys
