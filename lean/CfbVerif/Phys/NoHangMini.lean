import CfbVerif.Phys.NoHangOps
import CfbVerif.Phys.MiniCap
/-!
# The mini level never hangs either

The loops of minialloc.rs / minichain.rs call `open_chain` on the MiniFAT chain (`set_minifat`,
`allocate_mini_sector`) and on the mini stream's chain (`append_mini_sector`, every read and write of a
mini sector) again and again while those chains grow.  `MW p` says that both chains can be walked, are
disjoint and keep clear of the free list (which has no duplicates and holds FREE cells only), inside the
format's range of sector numbers; it is kept by every step of the mini level as long as the file stays
inside that range (each allocation adds at most three FAT cells, each new mini sector at most six).
-/
namespace CfbVerif.Phys
open CfbVerif.Raw

/-! ## chains: no repetition, the library's walk returns them -/

theorem isChain_nodup {fat : Array Nat} {a : Nat} {l : List Nat} (c : IsChain fat a l) : l.Nodup := by
  induction c with
  | last _ => simp
  | cons hab hb hc ih =>
    rename_i a b t
    refine List.nodup_cons.mpr ⟨?_, ih⟩
    intro hmem
    obtain ⟨pre, post, e, cp⟩ := hc.suffix hmem
    have hu := IsChain.unique cp (IsChain.cons hab hb hc)
    have : post.length ≤ t.length := by rw [e]; simp
    rw [hu] at this
    simp at this
    omega

theorem chainIds_of_isChain {p : P} (hb : p.fat.size ≤ MAXREG + 1) {s : Nat} {l : List Nat} (c : IsChain p.fat s l) :
    chainIds p s = .ok l := by
  have hnd := isChain_nodup c
  have hlt : ∀ x ∈ l, x < p.fat.size := fun x hx => by obtain ⟨w, hw, _⟩ := c.used x hx; exact lt_of_get hw
  have hlen : l.length ≤ p.fat.size := Raw.length_le_of_nodup_lt p.fat.size l hnd hlt
  obtain ⟨t, e⟩ := c.head
  have hs : s < p.fat.size := hlt s (by rw [e]; simp)
  have hne : s ≠ END := by have := MAXREG_lt_END; omega
  unfold chainIds chainFrom
  have := chainLoop_of_isChain p.fat s (p.fat.size + 1) [] c ?_ hne (by omega) hb
  · simpa using this
  · subst e
    intro x hx
    have hnd' := List.nodup_cons.mp hnd
    intro e; subst e; exact hnd'.1 hx

/-! ## the invariant -/

structure MW (p : P) : Prop where
  nodup : p.free.Nodup
  ff : ∀ i ∈ p.free, p.fat[i]? = some FREE
  mf : p.miniFatStart = END ∨ ∃ l, IsChain p.fat p.miniFatStart l
  rt : p.rootStart = END ∨ ∃ l, IsChain p.fat p.rootStart l
  apart : ∀ lm lr, IsChain p.fat p.miniFatStart lm → IsChain p.fat p.rootStart lr → ∀ x ∈ lm, x ∉ lr
  bound : p.fat.size ≤ MAXREG + 1

theorem MW.range {p : P} (w : MW p) : FreeIn p := fun i hi => lt_of_get (w.ff i hi)

theorem MW.tailNil {p : P} (w : MW p) : TailOK p [] := TailOK.nil w.nodup w.range

/-- a chain member is not on the free list -/
theorem MW.off_free {p : P} (w : MW p) {a : Nat} {l : List Nat} (c : IsChain p.fat a l) : ∀ x ∈ l, x ∉ p.free := by
  intro x hx hf
  obtain ⟨v, hv, hne⟩ := c.used x hx
  have := w.ff x hf
  rw [hv] at this
  exact hne (Option.some.inj this)

theorem MW.same {p q : P} (w : MW p) (ha : SameAlloc p q) (hs : SF p q) : MW q := by
  obtain ⟨hf, hfr, _, _⟩ := ha
  obtain ⟨_, hm, hr, _⟩ := hs
  refine ⟨by rw [hfr]; exact w.nodup, by rw [hf, hfr]; exact w.ff, by rw [hf, hm]; exact w.mf,
    by rw [hf, hr]; exact w.rt, by rw [hf, hm, hr]; exact w.apart, by rw [hf]; exact w.bound⟩

/-- the walks succeed -/
theorem MW.walk_mf {p : P} (w : MW p) (hne : p.miniFatStart ≠ END) :
    ∃ l, chainIds p p.miniFatStart = .ok l ∧ IsChain p.fat p.miniFatStart l := by
  rcases w.mf with h | ⟨l, c⟩
  · exact absurd h hne
  · exact ⟨l, chainIds_of_isChain w.bound c, c⟩

theorem MW.walk_rt {p : P} (w : MW p) (hne : p.rootStart ≠ END) :
    ∃ l, chainIds p p.rootStart = .ok l ∧ IsChain p.fat p.rootStart l := by
  rcases w.rt with h | ⟨l, c⟩
  · exact absurd h hne
  · exact ⟨l, chainIds_of_isChain w.bound c, c⟩

theorem chainIds_END (p : P) : chainIds p END = .ok [] := by
  unfold chainIds chainFrom chainLoop; simp

theorem MW.nh_mf {p : P} (w : MW p) : NH (chainIds p p.miniFatStart) := by
  by_cases h : p.miniFatStart = END
  · rw [h, chainIds_END]; exact NH.ok _
  · obtain ⟨l, hl, _⟩ := w.walk_mf h; rw [hl]; exact NH.ok _

theorem MW.nh_rt {p : P} (w : MW p) : NH (chainIds p p.rootStart) := by
  by_cases h : p.rootStart = END
  · rw [h, chainIds_END]; exact NH.ok _
  · obtain ⟨l, hl, _⟩ := w.walk_rt h; rw [hl]; exact NH.ok _

/-! ## growth of the FAT per allocation -/

theorem setFat_le {p p' : P} {i v : Nat} (h : setFat p i v = .ok p') : p'.fat.size ≤ p.fat.size + 1 := by
  rcases setFat_ok h with ⟨_, he⟩ | ⟨_, he⟩ <;> subst he <;> simp

theorem appendFatSector_le {p p' : P} (h : appendFatSector p = .ok p') : p'.fat.size ≤ p.fat.size + 2 := by
  unfold appendFatSector at h
  obtain ⟨q1, g1, h⟩ := bind_ok h
  obtain ⟨q2, g2, h⟩ := bind_ok h
  have e1 : q1.fat.size = p.fat.size := initSector_fatsize g1
  have e2 : q2.fat.size ≤ q1.fat.size + 1 := by have := setFat_le g2; exact this
  split at h
  · cases h; omega
  · dsimp only at h
    split at h
    · obtain ⟨q3, g3, h⟩ := bind_ok h
      obtain ⟨q4, g4, h⟩ := bind_ok h
      have e3 : q3.fat.size = q2.fat.size := initSector_fatsize g3
      have e4 : q4.fat.size ≤ q3.fat.size + 1 := by have := setFat_le g4; exact this
      cases h
      show q4.fat.size ≤ _
      omega
    · cases h; omega

theorem allocateSector_le {p p' : P} {id : Nat} {k : Init} (h : allocateSector p k = .ok (p', id)) :
    p'.fat.size ≤ p.fat.size + 3 := by
  unfold allocateSector at h
  split at h
  · obtain ⟨p1, h1, h⟩ := bind_ok h
    obtain ⟨p2, h2, h⟩ := bind_ok h
    have e1 : p1.fat.size ≤ p.fat.size + 1 := by have := setFat_le h1; exact this
    have e2 : p2.fat.size = p1.fat.size := initSector_fatsize h2
    cases h; omega
  · split at h
    · obtain ⟨p0, h0, h⟩ := bind_ok h
      obtain ⟨p1, h1, h⟩ := bind_ok h
      obtain ⟨p2, h2, h⟩ := bind_ok h
      have e0 := appendFatSector_le h0
      have e1 : p1.fat.size ≤ p0.fat.size + 1 := by have := setFat_le h1; exact this
      have e2 : p2.fat.size = p1.fat.size := initSector_fatsize h2
      cases h; omega
    · obtain ⟨p0, h0, h⟩ := bind_ok h
      cases h0
      obtain ⟨p1, h1, h⟩ := bind_ok h
      obtain ⟨p2, h2, h⟩ := bind_ok h
      have e1 : p1.fat.size ≤ p.fat.size + 1 := by have := setFat_le h1; exact this
      have e2 : p2.fat.size = p1.fat.size := initSector_fatsize h2
      cases h; omega

theorem extendChain_le {p p' : P} {start id : Nat} {k : Init} (h : extendChain p start k = .ok (p', id)) :
    p'.fat.size ≤ p.fat.size + 3 := by
  unfold extendChain at h
  obtain ⟨z, hz, h⟩ := bind_ok h
  obtain ⟨⟨q1, id1⟩, ha, h⟩ := bind_ok h
  obtain ⟨q2, hset, h⟩ := bind_ok h
  have e1 := allocateSector_le ha
  have hl := (lastOfChain_ok _ _ hz).1
  have hm := (allocateSector_raw ha).2.2.2.2
  have e2 : q2.fat.size = q1.fat.size := by
    rcases setFat_ok hset with ⟨hi, _⟩ | ⟨_, he⟩
    · omega
    · subst he; simp
  cases h; omega

/-! ## `MW` through allocations -/

theorem no_chain_at_END {fat : Array Nat} (hb : fat.size ≤ MAXREG + 1) {l : List Nat} (c : IsChain fat END l) : False := by
  obtain ⟨t, e⟩ := c.head
  obtain ⟨w, hw, _⟩ := c.used END (by rw [e]; simp)
  have := lt_of_get hw
  have := MAXREG_lt_END
  omega

/-- when every chain of `p` is still a chain in `q` and the heads are the same, the chain part of `MW` carries over -/
theorem MW.chains_of_frame {p q : P} (w : MW p) (hm : q.miniFatStart = p.miniFatStart) (hr : q.rootStart = p.rootStart)
    (hbq : q.fat.size ≤ MAXREG + 1) (F : ∀ a l, IsChain p.fat a l → IsChain q.fat a l) :
    (q.miniFatStart = END ∨ ∃ l, IsChain q.fat q.miniFatStart l) ∧
    (q.rootStart = END ∨ ∃ l, IsChain q.fat q.rootStart l) ∧
    (∀ lm lr, IsChain q.fat q.miniFatStart lm → IsChain q.fat q.rootStart lr → ∀ x ∈ lm, x ∉ lr) := by
  refine ⟨?_, ?_, ?_⟩
  · rcases w.mf with h | ⟨l, c⟩
    · exact Or.inl (by rw [hm]; exact h)
    · exact Or.inr ⟨l, by rw [hm]; exact F _ _ c⟩
  · rcases w.rt with h | ⟨l, c⟩
    · exact Or.inl (by rw [hr]; exact h)
    · exact Or.inr ⟨l, by rw [hr]; exact F _ _ c⟩
  · intro lm lr cm cr x hx hxr
    rw [hm] at cm
    rw [hr] at cr
    rcases w.mf with h | ⟨lm0, c0⟩
    · rw [h] at cm; exact no_chain_at_END hbq cm
    · rcases w.rt with h | ⟨lr0, c0'⟩
      · rw [h] at cr; exact no_chain_at_END hbq cr
      · have e1 := IsChain.unique cm (F _ _ c0)
        have e2 := IsChain.unique cr (F _ _ c0')
        subst e1; subst e2
        exact w.apart _ _ c0 c0' x hx hxr

/-- `allocate_sector` keeps `MW`; the sector handed out has END in its cell, is not on the free list any more,
and lies on no chain of the old table — all of which are still chains -/
theorem mw_allocateSector {p p1 : P} {id : Nat} {k : Init} (w : MW p) (h : allocateSector p k = .ok (p1, id))
    (hb : p1.fat.size ≤ MAXREG + 1) :
    MW p1 ∧ p1.fat[id]? = some END ∧ id ∉ p1.free ∧
    (∀ a l, IsChain p.fat a l → IsChain p1.fat a l ∧ id ∉ l) := by
  obtain ⟨hcase, _, hidend, hframe, hmono⟩ := allocateSector_raw h
  have sf := sf_allocateSector h
  have hfr : p1.free.Nodup ∧ id ∉ p1.free ∧ (∀ i ∈ p1.free, i ∈ p.free ∧ i ≠ id) := by
    rcases hcase with ⟨hg, hd⟩ | ⟨_, hd, _⟩
    · rw [hd]
      have hn := getLast_not_mem_dropLast w.nodup hg
      exact ⟨w.nodup.sublist (List.dropLast_sublist _), hn,
        fun i hi => ⟨List.dropLast_subset _ hi, fun e => hn (e ▸ hi)⟩⟩
    · rw [hd]; exact ⟨List.nodup_nil, by simp, by intro i hi; cases hi⟩
  have F : ∀ a l, IsChain p.fat a l → IsChain p1.fat a l ∧ id ∉ l := by
    intro a l c
    have hnot : id ∉ l := by
      intro hmem
      rcases hcase with ⟨hg, _⟩ | ⟨_, _, hge⟩
      · exact w.off_free c id hmem (List.mem_of_getLast? hg)
      · obtain ⟨v, hv, _⟩ := c.used id hmem
        have := lt_of_get hv; omega
    refine ⟨c.frame ?_, hnot⟩
    intro x hx
    obtain ⟨v, hv, _⟩ := c.used x hx
    exact hframe x (lt_of_get hv) (fun e => hnot (e ▸ hx))
  obtain ⟨c1, c2, c3⟩ := w.chains_of_frame sf.2.1 sf.2.2.1 hb (fun a l c => (F a l c).1)
  refine ⟨⟨hfr.1, ?_, c1, c2, c3, hb⟩, hidend, hfr.2.1, F⟩
  intro i hi
  obtain ⟨him, hne⟩ := hfr.2.2 i hi
  rw [hframe i (lt_of_get (w.ff i him)) hne]
  exact w.ff i him

/-- `extend_chain` on one of the two container chains -/
theorem mw_extendChain {p p' : P} {s id : Nat} {k : Init} {l : List Nat} (w : MW p)
    (hs : s = p.miniFatStart ∨ s = p.rootStart) (c : IsChain p.fat s l)
    (h : extendChain p s k = .ok (p', id)) (hb : p'.fat.size ≤ MAXREG + 1) : MW p' := by
  have sfp := sf_extendChain h
  unfold extendChain at h
  obtain ⟨z, hz, h⟩ := bind_ok h
  obtain ⟨⟨q1, id1⟩, ha, h⟩ := bind_ok h
  obtain ⟨q2, hset, h⟩ := bind_ok h
  cases h
  have hzl : l.getLast? = some z := lastOfChain_eq p.fat _ c hz
  have hzmem : z ∈ l := List.mem_of_getLast? hzl
  have hb1 : q1.fat.size ≤ MAXREG + 1 := Nat.le_trans (setFat_mono hset) hb
  obtain ⟨w1, hidend, hidfree, F⟩ := mw_allocateSector w ha hb1
  have sf1 := sf_allocateSector ha
  obtain ⟨c1, hidl⟩ := F s l c
  have hzlt : z < q1.fat.size := by obtain ⟨v, hv, _⟩ := c1.used z hzmem; exact lt_of_get hv
  have e2 : p'.fat = q1.fat.setIfInBounds z id ∧ p'.free = q1.free := by
    rcases setFat_ok hset with ⟨hi, _⟩ | ⟨_, he⟩
    · omega
    · subst he; exact ⟨rfl, rfl⟩
  have hidlt : id < q1.fat.size := lt_of_get hidend
  have cnew : IsChain p'.fat s (l ++ [id]) := by
    rw [e2.1]
    exact IsChain.append c1 (IsChain.last hidend) hzl (by omega) (by intro x hx; simp at hx; subst hx; exact hidl) (isChain_nodup c1)
  -- chains that keep clear of `l` are untouched by the link
  have other : ∀ b lo, IsChain q1.fat b lo → (∀ x ∈ lo, x ∉ l) → IsChain p'.fat b lo := by
    intro b lo co hd
    refine co.frame ?_
    intro x hx
    rw [e2.1]
    simp only [Array.getElem?_setIfInBounds]
    rw [if_neg (fun (e : z = x) => hd x hx (by rw [← e]; exact hzmem))]
  have hnod : p'.free.Nodup := by rw [e2.2]; exact w1.nodup
  have hff : ∀ i ∈ p'.free, p'.fat[i]? = some FREE := by
    intro i hi
    rw [e2.2] at hi
    rw [e2.1]
    simp only [Array.getElem?_setIfInBounds]
    rw [if_neg (fun (e : z = i) => w1.off_free c1 z hzmem (by rw [e]; exact hi))]
    exact w1.ff i hi
  have hm' : p'.miniFatStart = p.miniFatStart := sfp.2.1
  have hr' : p'.rootStart = p.rootStart := sfp.2.2.1
  rcases hs with hs | hs
  · -- the MiniFAT chain grew
    subst hs
    have rtq : p'.rootStart = END ∨ ∃ lr, IsChain p'.fat p'.rootStart lr ∧ IsChain p.fat p.rootStart lr := by
      rcases w.rt with h | ⟨lr, cr⟩
      · exact Or.inl (by rw [hr']; exact h)
      · refine Or.inr ⟨lr, ?_, cr⟩
        rw [hr']
        exact other _ _ (F _ _ cr).1 (fun x hx hxl => w.apart _ _ c cr x hxl hx)
    refine ⟨hnod, hff, Or.inr ⟨l ++ [id], by rw [hm']; exact cnew⟩, ?_, ?_, hb⟩
    · rcases rtq with h | ⟨lr, cr', _⟩
      · exact Or.inl h
      · exact Or.inr ⟨lr, cr'⟩
    · intro lm lr cm cr x hx hxr
      rw [hm'] at cm
      have e1 := IsChain.unique cm cnew
      subst e1
      rcases rtq with h | ⟨lr0, cr', cr0⟩
      · rw [h] at cr; exact no_chain_at_END hb cr
      · have e2' := IsChain.unique cr cr'
        subst e2'
        rcases List.mem_append.mp hx with hxl | hxi
        · exact w.apart _ _ c cr0 x hxl hxr
        · simp at hxi; subst hxi
          exact (F _ _ cr0).2 hxr
  · -- the mini stream's chain grew
    subst hs
    have mfq : p'.miniFatStart = END ∨ ∃ lm, IsChain p'.fat p'.miniFatStart lm ∧ IsChain p.fat p.miniFatStart lm := by
      rcases w.mf with h | ⟨lm, cm⟩
      · exact Or.inl (by rw [hm']; exact h)
      · refine Or.inr ⟨lm, ?_, cm⟩
        rw [hm']
        exact other _ _ (F _ _ cm).1 (fun x hx hxl => w.apart _ _ cm c x hx hxl)
    refine ⟨hnod, hff, ?_, Or.inr ⟨l ++ [id], by rw [hr']; exact cnew⟩, ?_, hb⟩
    · rcases mfq with h | ⟨lm, cm', _⟩
      · exact Or.inl h
      · exact Or.inr ⟨lm, cm'⟩
    · intro lm lr cm cr x hx hxr
      rw [hr'] at cr
      have e1 := IsChain.unique cr cnew
      subst e1
      rcases mfq with h | ⟨lm0, cm', cm0⟩
      · rw [h] at cm; exact no_chain_at_END hb cm
      · have e2' := IsChain.unique cm cm'
        subst e2'
        rcases List.mem_append.mp hxr with hxl | hxi
        · exact w.apart _ _ cm0 c x hx hxl
        · simp at hxi; subst hxi
          exact (F _ _ cm0).2 hx

/-! ## the primitives of minialloc.rs -/

theorem mw_setMiniFat {p : P} (w : MW p) (idx val : Nat) :
    NH (setMiniFat p idx val) ∧ ∀ p', setMiniFat p idx val = .ok p' → MW p' ∧ p'.fat.size = p.fat.size := by
  constructor
  · unfold setMiniFat
    refine NH.bind w.nh_mf ?_
    intro chain _
    split
    · exact NH.err _
    · split
      · exact NH.ok _
      · split
        · exact NH.ok _
        · exact NH.panic _
  · intro p' h
    exact ⟨w.same (same_setMiniFat h) (sf_setMiniFat h), by rw [(same_setMiniFat h).1]⟩

/-- beginning a container chain with a freshly allocated sector -/
theorem mw_begin {p p1 : P} {id : Nat} {k : Init} (w : MW p) (h : allocateSector p k = .ok (p1, id))
    (hb : p1.fat.size ≤ MAXREG + 1) :
    (p.miniFatStart = END → MW { p1 with miniFatStart := id }) ∧ (p.rootStart = END → MW { p1 with rootStart := id }) := by
  obtain ⟨w1, hidend, _, F⟩ := mw_allocateSector w h hb
  have sf := sf_allocateSector h
  constructor
  · intro he
    refine ⟨w1.nodup, w1.ff, Or.inr ⟨[id], IsChain.last hidend⟩, w1.rt, ?_, hb⟩
    intro lm lr cm cr x hx hxr
    have e1 := IsChain.unique cm (IsChain.last hidend)
    subst e1
    simp at hx; subst hx
    rcases w.rt with h0 | ⟨lr0, c0⟩
    · have : p1.rootStart = END := by rw [sf.2.2.1]; exact h0
      have cr' : IsChain p1.fat p1.rootStart lr := cr
      rw [this] at cr'; exact no_chain_at_END hb cr'
    · have cr' : IsChain p1.fat p1.rootStart lr := cr
      rw [sf.2.2.1] at cr'
      have e2 := IsChain.unique cr' (F _ _ c0).1
      subst e2
      exact (F _ _ c0).2 hxr
  · intro he
    refine ⟨w1.nodup, w1.ff, w1.mf, Or.inr ⟨[id], IsChain.last hidend⟩, ?_, hb⟩
    intro lm lr cm cr x hx hxr
    have e1 := IsChain.unique cr (IsChain.last hidend)
    subst e1
    simp at hxr; subst hxr
    rcases w.mf with h0 | ⟨lm0, c0⟩
    · have : p1.miniFatStart = END := by rw [sf.2.1]; exact h0
      have cm' : IsChain p1.fat p1.miniFatStart lm := cm
      rw [this] at cm'; exact no_chain_at_END hb cm'
    · have cm' : IsChain p1.fat p1.miniFatStart lm := cm
      rw [sf.2.1] at cm'
      have e2 := IsChain.unique cm' (F _ _ c0).1
      subst e2
      exact (F _ _ c0).2 hx

theorem mw_ensureMiniFatRoom {p : P} (w : MW p) (hroom : p.fat.size + 3 ≤ MAXREG + 1) :
    NH (ensureMiniFatRoom p) ∧
    ∀ p', ensureMiniFatRoom p = .ok p' → MW p' ∧ p'.fat.size ≤ p.fat.size + 3 ∧ SameMini p p' ∧ p'.rootStart = p.rootStart := by
  unfold ensureMiniFatRoom
  dsimp only
  split
  · rename_i he
    constructor
    · intro s hs
      split at hs
      · cases hs
      · cases hs
      · cases hs
      · rename_i s' heq; exact nh_allocateSector _ _ s' heq
    · intro p' h
      split at h
      · rename_i q id ha
        cases h
        have hle := allocateSector_le ha
        exact ⟨(mw_begin w ha (by omega)).1 he, hle, (sm_allocateSector ha : SameMini p q), (sf_allocateSector ha).2.2.1⟩
      · cases h
      · cases h
      · cases h
  · rename_i hne
    split
    · obtain ⟨l, hw, c⟩ := w.walk_mf hne
      rw [hw]
      dsimp only
      split
      · have hn := nh_extendChain_of_walk (p := p) .fat hne hw
        constructor
        · intro s hs
          split at hs
          · cases hs
          · cases hs
          · cases hs
          · rename_i s' heq; exact hn s' heq
        · intro p' h
          split at h
          · rename_i q id hx
            cases h
            have hle := extendChain_le hx
            exact ⟨mw_extendChain w (Or.inl rfl) c hx (by omega), hle, sm_extendChain hx, (sf_extendChain hx).2.2.1⟩
          · cases h
          · cases h
          · cases h
      · exact ⟨NH.ok _, by intro p' h; cases h; exact ⟨w, by omega, SameMini.refl _, rfl⟩⟩
    · exact ⟨NH.ok _, by intro p' h; cases h; exact ⟨w, by omega, SameMini.refl _, rfl⟩⟩

theorem mw_ensureRootRoom {p : P} (w : MW p) (hroom : p.fat.size + 3 ≤ MAXREG + 1) :
    NH (ensureRootRoom p) ∧
    ∀ p', ensureRootRoom p = .ok p' → MW p' ∧ p'.fat.size ≤ p.fat.size + 3 ∧ SameMini p p' := by
  unfold ensureRootRoom
  split
  · rename_i he
    constructor
    · intro s hs
      split at hs
      · cases hs
      · cases hs
      · cases hs
      · rename_i s' heq; exact nh_allocateSector _ _ s' heq
    · intro p' h
      split at h
      · rename_i q id ha
        cases h
        have hle := allocateSector_le ha
        exact ⟨(mw_begin w ha (by omega)).2 he, hle, (sm_allocateSector ha : SameMini p q)⟩
      · cases h
      · cases h
      · cases h
  · rename_i hne
    split
    · obtain ⟨l, hw, c⟩ := w.walk_rt hne
      rw [hw]
      dsimp only
      split
      · have hn := nh_extendChain_of_walk (p := p) .zero hne hw
        constructor
        · intro s hs
          split at hs
          · cases hs
          · cases hs
          · cases hs
          · rename_i s' heq; exact hn s' heq
        · intro p' h
          split at h
          · rename_i q id hx
            cases h
            have hle := extendChain_le hx
            exact ⟨mw_extendChain w (Or.inr rfl) c hx (by omega), hle, sm_extendChain hx⟩
          · cases h
          · cases h
          · cases h
      · exact ⟨NH.ok _, by intro p' h; cases h; exact ⟨w, by omega, SameMini.refl _⟩⟩
    · exact ⟨NH.ok _, by intro p' h; cases h; exact ⟨w, by omega, SameMini.refl _⟩⟩

theorem mw_appendMiniSector {p : P} (w : MW p) (hroom : p.fat.size + 3 ≤ MAXREG + 1) :
    NH (appendMiniSector p) ∧
    ∀ p', appendMiniSector p = .ok p' → MW p' ∧ p'.fat.size ≤ p.fat.size + 3 ∧ SameMini p p' := by
  unfold appendMiniSector
  obtain ⟨hn, hp⟩ := mw_ensureRootRoom w hroom
  constructor
  · intro s hs
    split at hs
    · cases hs
    · cases hs
    · cases hs
    · rename_i s' heq; exact hn s' heq
  · intro p' h
    split at h
    · rename_i q hq
      cases h
      obtain ⟨wq, hle, sm⟩ := hp q hq
      exact ⟨wq.same ⟨rfl, rfl, rfl, rfl⟩ ⟨rfl, rfl, rfl, rfl⟩, hle, sm⟩
    · cases h
    · cases h
    · cases h

theorem nh_popFreeMini : ∀ (fuel : Nat) (p : P), NH (popFreeMini p fuel) := by
  intro fuel
  induction fuel with
  | zero => intro p; unfold popFreeMini; exact NH.ok _
  | succ fuel ih =>
    intro p
    unfold popFreeMini
    split
    · exact NH.ok _
    · dsimp only
      split
      · exact NH.panic _
      · split
        · exact NH.ok _
        · exact ih _

theorem mw_allocateMiniSector {p : P} (w : MW p) (v : Nat) (hroom : p.fat.size + 6 ≤ MAXREG + 1) :
    NH (allocateMiniSector p v) ∧
    ∀ p' id, allocateMiniSector p v = .ok (p', id) → MW p' ∧ p'.fat.size ≤ p.fat.size + 6 := by
  unfold allocateMiniSector
  constructor
  · refine NH.bind (nh_popFreeMini _ _) ?_
    intro r hr
    obtain ⟨p1, reuse⟩ := r
    have w1 : MW p1 := w.same (same_popFreeMini hr) (sf_popFreeMini hr)
    have hf1 : p1.fat.size = p.fat.size := by rw [(same_popFreeMini hr).1]
    dsimp only
    split
    · refine NH.bind (mw_setMiniFat w1 _ _).1 ?_
      intro q _; exact NH.ok _
    · obtain ⟨hn1, hp1⟩ := mw_ensureMiniFatRoom w1 (by omega)
      refine NH.bind hn1 ?_
      intro p2 h2
      obtain ⟨w2, hle2, _, _⟩ := hp1 p2 h2
      obtain ⟨hn2, hp2⟩ := mw_appendMiniSector w2 (by omega)
      refine NH.bind hn2 ?_
      intro p3 h3
      obtain ⟨w3, hle3, _⟩ := hp2 p3 h3
      refine NH.bind (mw_setMiniFat w3 _ _).1 ?_
      intro q _; exact NH.ok _
  · intro p' id h
    obtain ⟨⟨p1, reuse⟩, hr, h⟩ := bind_ok h
    have w1 : MW p1 := w.same (same_popFreeMini hr) (sf_popFreeMini hr)
    have hf1 : p1.fat.size = p.fat.size := by rw [(same_popFreeMini hr).1]
    dsimp only at h
    split at h
    · obtain ⟨q, hq, h⟩ := bind_ok h
      cases h
      obtain ⟨wq, hs⟩ := (mw_setMiniFat w1 _ _).2 p' hq
      exact ⟨wq, by omega⟩
    · obtain ⟨p2, h2, h⟩ := bind_ok h
      obtain ⟨w2, hle2, _, _⟩ := (mw_ensureMiniFatRoom w1 (by omega)).2 p2 h2
      obtain ⟨p3, h3, h⟩ := bind_ok h
      obtain ⟨w3, hle3, _⟩ := (mw_appendMiniSector w2 (by omega)).2 p3 h3
      obtain ⟨q, hq, h⟩ := bind_ok h
      cases h
      obtain ⟨wq, hs⟩ := (mw_setMiniFat w3 _ _).2 p' hq
      exact ⟨wq, by omega⟩

/-! ## mini chains -/

/-- the last mini sector of a mini chain given by its list has END in its MiniFAT cell -/
def MT (p : P) (ids : List Nat) : Prop := ∀ l, ids.getLast? = some l → p.miniFat[l]? = some END

theorem MT.nil (p : P) : MT p [] := fun l h => by simp at h

theorem MT.same {p q : P} {ids : List Nat} (t : MT p ids) (h : q.miniFat = p.miniFat) : MT q ids := by
  intro l hl; rw [h]; exact t l hl

theorem lastOfMiniChain_at_end {mf : Array Nat} {cur : Nat} (n : Nat) (h : mf[cur]? = some END) :
    lastOfMiniChain mf (n + 1) cur = .ok cur := by
  unfold lastOfMiniChain
  simp [nextSector_of_end h]

theorem mw_extendMiniChain {p : P} {last : Nat} (w : MW p) (hl : p.miniFat[last]? = some END)
    (hroom : p.fat.size + 6 ≤ MAXREG + 1) :
    NH (extendMiniChain p last) ∧
    ∀ p' id, extendMiniChain p last = .ok (p', id) →
      MW p' ∧ p'.fat.size ≤ p.fat.size + 6 ∧ p'.miniFat[id]? = some END := by
  unfold extendMiniChain
  rw [lastOfMiniChain_at_end _ hl]
  obtain ⟨hn, hp⟩ := mw_allocateMiniSector w END hroom
  constructor
  · refine NH.bind (NH.ok _) ?_
    intro l0 _
    refine NH.bind hn ?_
    intro r hr
    obtain ⟨p1, id⟩ := r
    obtain ⟨w1, _⟩ := hp p1 id hr
    refine NH.bind (mw_setMiniFat w1 _ _).1 ?_
    intro q _; exact NH.ok _
  · intro p' id h
    obtain ⟨l0, hl0, h⟩ := bind_ok h
    cases hl0
    obtain ⟨⟨p1, id1⟩, ha, h⟩ := bind_ok h
    obtain ⟨q, hq, h⟩ := bind_ok h
    cases h
    obtain ⟨w1, hle⟩ := hp p1 id ha
    obtain ⟨wq, hs⟩ := (mw_setMiniFat w1 _ _).2 p' hq
    refine ⟨wq, by omega, ?_⟩
    have hlt : last < p.miniFat.size := lt_of_get hl
    -- the new mini sector is not `last`, and its cell is END
    have hid : id ≠ last ∧ p1.miniFat[id]? = some END ∧ last < p1.miniFat.size := by
      rcases allocateMiniSector_spec ha with ⟨hfree, hidlt, he⟩ | ⟨hide, he⟩
      · refine ⟨?_, by rw [he]; simp [hidlt], by rw [he]; simpa using hlt⟩
        intro e; subst e; rw [hl] at hfree; exact END_ne_FREE (Option.some.inj hfree)
      · refine ⟨by omega, by rw [he, hide]; simp, by rw [he]; simp; omega⟩
    rcases setMiniFat_ok2 hq with ⟨hi, _⟩ | ⟨_, he⟩
    · omega
    · rw [he]
      simp only [Array.getElem?_setIfInBounds]
      rw [if_neg (fun (e : last = id) => hid.1 e.symm)]
      exact hid.2.1

theorem mw_growOneMini {p : P} {ids : List Nat} (w : MW p) (t : MT p ids) (hroom : p.fat.size + 6 ≤ MAXREG + 1) :
    NH (growOneMini p ids) ∧
    ∀ p' ids', growOneMini p ids = .ok (p', ids') →
      MW p' ∧ MT p' ids' ∧ p'.fat.size ≤ p.fat.size + 6 ∧ ids'.length = ids.length + 1 := by
  unfold growOneMini
  split
  · rename_i last hl
    obtain ⟨hn, hp⟩ := mw_extendMiniChain w (t last hl) hroom
    constructor
    · intro s hs
      split at hs
      · cases hs
      · cases hs
      · cases hs
      · rename_i s' heq; exact hn s' heq
    · intro p' ids' h
      split at h
      · rename_i q id hx
        cases h
        obtain ⟨wq, hle, hend⟩ := hp p' id hx
        refine ⟨wq, ?_, hle, by simp⟩
        intro l hl'; simp at hl'; subst hl'; exact hend
      · cases h
      · cases h
      · cases h
  · obtain ⟨hn, hp⟩ := mw_allocateMiniSector w END hroom
    constructor
    · intro s hs
      split at hs
      · cases hs
      · cases hs
      · cases hs
      · rename_i s' heq; exact hn s' heq
    · intro p' ids' h
      split at h
      · rename_i q id hx
        cases h
        obtain ⟨wq, hle⟩ := hp p' id hx
        refine ⟨wq, ?_, hle, by simp⟩
        intro l hl'; simp at hl'; subst hl'
        rcases allocateMiniSector_spec hx with ⟨_, hidlt, he⟩ | ⟨hide, he⟩
        · rw [he]; simp [hidlt]
        · rw [he, hide]; simp
      · cases h
      · cases h
      · cases h

theorem nh_locateMini {p : P} (w : MW p) (m : Nat) : NH (locateMini p m) := by
  unfold locateMini
  refine NH.bind w.nh_rt ?_
  intro root _
  dsimp only
  split
  · exact NH.bad
  · exact NH.ok _

theorem mw_miniWriteAt {p : P} (w : MW p) (m off : Nat) (bs : Bytes) :
    NH (miniWriteAt p m off bs) ∧
    ∀ p', miniWriteAt p m off bs = .ok p' → MW p' ∧ p'.fat.size = p.fat.size ∧ p'.miniFat = p.miniFat := by
  constructor
  · unfold miniWriteAt
    refine NH.bind (nh_locateMini w m) ?_
    intro r _
    exact nh_writeSector _ _ _ _
  · intro p' h
    have sa := same_miniWriteAt h
    have sm := sm_miniWriteAt h
    have sf : SF p p' := by
      unfold miniWriteAt at h
      obtain ⟨r, _, h⟩ := bind_ok h
      exact sf_writeSector h
    exact ⟨w.same sa sf, by rw [sa.1], sm.1⟩

/-! ## the loops of minichain.rs -/

theorem mw_miniChainWrite : ∀ (fuel : Nat) (p : P) (ids : List Nat) (off : Nat) (bs : Bytes),
    MW p → MT p ids → bs.length < fuel → p.fat.size + 6 * fuel ≤ MAXREG + 1 →
    NH (miniChainWrite fuel p ids off bs) ∧
    ∀ p' ids', miniChainWrite fuel p ids off bs = .ok (p', ids') →
      MW p' ∧ MT p' ids' ∧ p'.fat.size ≤ p.fat.size + 6 * fuel := by
  intro fuel
  induction fuel with
  | zero => intro p ids off bs _ _ hf _; omega
  | succ fuel ih =>
    intro p ids off bs w t hf hroom
    unfold miniChainWrite
    by_cases hb : bs.isEmpty = true
    · simp only [hb, if_true]
      exact ⟨NH.ok _, by intro p' ids' h; cases h; exact ⟨w, t, by omega⟩⟩
    · simp only [hb]
      have hbl : 0 < bs.length := by
        cases bs with
        | nil => simp at hb
        | cons a r => simp
      have grow : NH (if off = ids.length * MINI then growOneMini p ids else .ok (p, ids)) ∧
          ∀ p1 ids1, (if off = ids.length * MINI then growOneMini p ids else .ok (p, ids)) = .ok (p1, ids1) →
            MW p1 ∧ MT p1 ids1 ∧ p1.fat.size ≤ p.fat.size + 6 := by
        split
        · obtain ⟨hn, hp⟩ := mw_growOneMini w t (by omega)
          exact ⟨hn, fun p1 ids1 h => by obtain ⟨a, b, c, _⟩ := hp p1 ids1 h; exact ⟨a, b, c⟩⟩
        · exact ⟨NH.ok _, by intro p1 ids1 h; cases h; exact ⟨w, t, by omega⟩⟩
      generalize (if off = ids.length * MINI then growOneMini p ids else Outcome.ok (p, ids)) = g at grow ⊢
      cases g with
      | err k => exact ⟨NH.err k, by intro _ _ h; cases h⟩
      | panic m => exact ⟨NH.panic m, by intro _ _ h; cases h⟩
      | hang m => exact absurd rfl (grow.1 m)
      | ok r =>
        obtain ⟨p1, ids1⟩ := r
        obtain ⟨w1, t1, hle1⟩ := grow.2 p1 ids1 rfl
        dsimp only
        cases hid : ids1[off / MINI]? with
        | none => exact ⟨NH.panic _, by intro _ _ h; cases h⟩
        | some m =>
          dsimp only
          obtain ⟨hnw, hpw⟩ := mw_miniWriteAt w1 m (off % MINI) (List.take (min bs.length (MINI - off % MINI)) bs)
          cases hw : miniWriteAt p1 m (off % MINI) (List.take (min bs.length (MINI - off % MINI)) bs) with
          | err k => exact ⟨NH.err k, by intro _ _ h; cases h⟩
          | panic m' => exact ⟨NH.panic m', by intro _ _ h; cases h⟩
          | hang m' => exact absurd hw (hnw m')
          | ok p2 =>
            dsimp only
            obtain ⟨w2, hs2, hm2⟩ := hpw p2 hw
            have hn : 1 ≤ min bs.length (MINI - off % MINI) := by
              have := Nat.mod_lt off MINI_pos; omega
            obtain ⟨hnr, hpr⟩ := ih p2 ids1 (off + min bs.length (MINI - off % MINI)) (List.drop (min bs.length (MINI - off % MINI)) bs)
              w2 (t1.same hm2) (by simp only [List.length_drop]; omega) (by omega)
            refine ⟨hnr, ?_⟩
            intro p' ids' h
            obtain ⟨a, b, c⟩ := hpr p' ids' h
            exact ⟨a, b, by omega⟩

theorem nh_miniChainRead {p : P} (w : MW p) : ∀ (fuel : Nat) (ids : List Nat) (off n : Nat) (acc : Bytes), n < fuel →
    NH (miniChainRead fuel p ids off n acc) := by
  intro fuel
  induction fuel with
  | zero => intro ids off n acc hf; omega
  | succ fuel ih =>
    intro ids off n acc hf
    unfold miniChainRead
    by_cases hn : n = 0
    · simp only [hn, if_true]; exact NH.ok _
    · simp only [hn, if_false]
      cases hid : ids[off / MINI]? with
      | none => exact NH.err _
      | some m =>
        dsimp only
        cases hl : locateMini p m with
        | err k => exact NH.err k
        | panic m' => exact NH.panic m'
        | hang m' => exact absurd hl (nh_locateMini w m m')
        | ok r =>
          obtain ⟨sid, base⟩ := r
          dsimp only
          cases hr : readSector p sid (base + off % MINI) (min n (MINI - off % MINI)) with
          | err k => exact NH.err k
          | panic m' => exact NH.panic m'
          | hang m' => exact absurd hr (nh_readSector _ _ _ _ m')
          | ok bs =>
            dsimp only
            have hk : 1 ≤ min n (MINI - off % MINI) := by
              have := Nat.mod_lt off MINI_pos; omega
            exact ih ids _ _ _ (by omega)

theorem mw_miniChainGrow : ∀ (fuel : Nat) (p : P) (ids : List Nat) (target : Nat),
    MW p → MT p ids → target - ids.length < fuel → p.fat.size + 6 * fuel ≤ MAXREG + 1 →
    NH (miniChainGrow fuel p ids target) ∧
    ∀ p' ids', miniChainGrow fuel p ids target = .ok (p', ids') →
      MW p' ∧ MT p' ids' ∧ p'.fat.size ≤ p.fat.size + 6 * fuel := by
  intro fuel
  induction fuel with
  | zero => intro p ids target _ _ hf _; omega
  | succ fuel ih =>
    intro p ids target w t hf hroom
    unfold miniChainGrow
    by_cases hge : ids.length ≥ target
    · simp only [hge, if_true]
      exact ⟨NH.ok _, by intro p' ids' h; cases h; exact ⟨w, t, by omega⟩⟩
    · simp only [hge, if_false]
      obtain ⟨hng, hpg⟩ := mw_growOneMini w t (by omega)
      cases hg : growOneMini p ids with
      | err k => exact ⟨NH.err k, by intro _ _ h; cases h⟩
      | panic m => exact ⟨NH.panic m, by intro _ _ h; cases h⟩
      | hang m => exact absurd hg (hng m)
      | ok r =>
        obtain ⟨p1, ids1⟩ := r
        obtain ⟨w1, t1, hle1, hlen⟩ := hpg p1 ids1 hg
        dsimp only
        obtain ⟨hnw, hpw⟩ := mw_miniWriteAt w1 (ids1.getLast?.getD 0) 0 (List.replicate MINI 0)
        cases hw : miniWriteAt p1 (ids1.getLast?.getD 0) 0 (List.replicate MINI 0) with
        | err k => exact ⟨NH.err k, by intro _ _ h; cases h⟩
        | panic m' => exact ⟨NH.panic m', by intro _ _ h; cases h⟩
        | hang m' => exact absurd hw (hnw m')
        | ok p2 =>
          dsimp only
          obtain ⟨w2, hs2, hm2⟩ := hpw p2 hw
          obtain ⟨hnr, hpr⟩ := ih p2 ids1 target w2 (t1.same hm2) (by omega) (by omega)
          refine ⟨hnr, ?_⟩
          intro p' ids' h
          obtain ⟨a, b, c⟩ := hpr p' ids' h
          exact ⟨a, b, by omega⟩

/-! ## releasing mini chains -/

theorem usedCells_pop_le (t : Array Nat) : usedCells t.pop ≤ usedCells t := by
  unfold usedCells
  rw [Array.toList_pop]
  exact (List.dropLast_sublist _).countP_le

theorem usedCells_trim_le : ∀ (fuel : Nat) (mf : Array Nat) (len : Nat), usedCells (trimMiniFat fuel mf len).1 ≤ usedCells mf := by
  intro fuel
  induction fuel with
  | zero => intro mf len; unfold trimMiniFat; exact Nat.le_refl _
  | succ fuel ih =>
    intro mf len
    unfold trimMiniFat
    split
    · exact Nat.le_trans (ih _ _) (usedCells_pop_le mf)
    · exact Nat.le_refl _

theorem mw_freeMiniSector {p : P} (w : MW p) (id : Nat) :
    NH (freeMiniSector p id) ∧
    ∀ p', freeMiniSector p id = .ok p' → MW p' ∧ usedCells p'.miniFat < usedCells p.miniFat := by
  constructor
  · unfold freeMiniSector
    split
    · exact NH.panic _
    · split
      · exact NH.err _
      · refine NH.bind (mw_setMiniFat w _ _).1 ?_
        intro q _
        exact NH.ok _
  · intro p' h
    refine ⟨w.same (same_freeMiniSector h) (sf_freeMiniSector h), ?_⟩
    unfold freeMiniSector at h
    split at h
    · cases h
    · rename_i cell hcell
      split at h
      · cases h
      · rename_i hnf
        obtain ⟨q, hq, h⟩ := bind_ok h
        cases h
        have hlt : id < p.miniFat.size := lt_of_get hcell
        have e : q.miniFat = p.miniFat.setIfInBounds id FREE := by
          rcases setMiniFat_ok2 hq with ⟨hi, _⟩ | ⟨_, he⟩
          · omega
          · exact he
        have h1 := usedCells_set_free hcell hnf
        have h2 := usedCells_trim_le (q.miniFat.size + 1) q.miniFat q.rootLen
        show usedCells (trimMiniFat (q.miniFat.size + 1) q.miniFat q.rootLen).1 < usedCells p.miniFat
        rw [e] at h2 ⊢
        omega

theorem mw_freeMiniChain : ∀ (fuel : Nat) (p : P) (cur : Nat), MW p → usedCells p.miniFat < fuel →
    NH (freeMiniChain p fuel cur) := by
  intro fuel
  induction fuel with
  | zero => intro p cur _ hf; omega
  | succ fuel ih =>
    intro p cur w hf
    unfold freeMiniChain
    by_cases hc : cur = END
    · simp only [hc, if_true]; exact NH.ok _
    · simp only [hc, if_false]
      cases hn : nextMini p cur with
      | error k => exact NH.err k
      | ok next =>
        dsimp only
        obtain ⟨hnf, hpf⟩ := mw_freeMiniSector w cur
        cases hf' : freeMiniSector p cur with
        | err k => exact NH.err k
        | panic m => exact NH.panic m
        | hang m => exact absurd hf' (hnf m)
        | ok p' =>
          dsimp only
          obtain ⟨w', hu⟩ := hpf p' hf'
          exact ih p' next w' (by omega)

theorem nh_freeMiniChainFrom {p : P} (w : MW p) (start : Nat) : NH (freeMiniChainFrom p start) := by
  unfold freeMiniChainFrom
  exact mw_freeMiniChain _ p start w (by have := usedCells_le p.miniFat; omega)

theorem mw_of_freeMiniChainFrom {p p' : P} {start : Nat} (w : MW p) (h : freeMiniChainFrom p start = .ok p') : MW p' :=
  w.same (same_freeMiniChain _ h) (sf_freeMiniChain _ h)

theorem nh_freeMiniChainAfter {p : P} (w : MW p) (id : Nat) : NH (freeMiniChainAfter p id) := by
  unfold freeMiniChainAfter
  cases hn : nextMini p id with
  | error k => exact NH.err k
  | ok next =>
    dsimp only
    obtain ⟨hns, hps⟩ := mw_setMiniFat w id END
    refine NH.bind hns ?_
    intro q hq
    exact nh_freeMiniChainFrom (hps q hq).1 next

theorem mw_miniChainSetLen {p : P} {ids : List Nat} (w : MW p) (t : MT p ids) (newLen : Nat)
    (hroom : p.fat.size + 6 * ((MINI + newLen - 1) / MINI + 1) ≤ MAXREG + 1) :
    NH (miniChainSetLen p ids newLen) ∧
    ∀ p' ids', miniChainSetLen p ids newLen = .ok (p', ids') →
      MW p' ∧ p'.fat.size ≤ p.fat.size + 6 * ((MINI + newLen - 1) / MINI + 1) ∧
      (ids.length ≤ (MINI + newLen - 1) / MINI → MT p' ids') := by
  unfold miniChainSetLen
  dsimp only
  split
  · rename_i h0
    split
    · rename_i first hf
      constructor
      · exact NH.obind (nh_freeMiniChainFrom w _) (fun _ _ => NH.ok _)
      · intro p' ids' h
        obtain ⟨q, hq, h⟩ := obind_ok h
        cases h
        refine ⟨mw_of_freeMiniChainFrom w hq, by rw [(same_freeMiniChain _ hq).1]; omega, ?_⟩
        intro hle
        cases ids with
        | nil => simp at hf
        | cons a r => simp at hle; omega
    · exact ⟨NH.ok _, by intro p' ids' h; cases h; exact ⟨w, by omega, fun _ => t⟩⟩
  · split
    · split
      · split
        · rename_i keep hk
          constructor
          · exact NH.obind (nh_freeMiniChainAfter w _) (fun _ _ => NH.ok _)
          · intro p' ids' h
            obtain ⟨q, hq, h⟩ := obind_ok h
            cases h
            refine ⟨w.same (same_freeMiniChainAfter hq) ?_, by rw [(same_freeMiniChainAfter hq).1]; omega, fun hle => by omega⟩
            unfold freeMiniChainAfter at hq
            split at hq
            · cases hq
            · obtain ⟨q1, h1, hq⟩ := bind_ok hq
              exact (sf_setMiniFat h1).trans (sf_freeMiniChain _ hq)
        · exact ⟨NH.panic _, by intro _ _ h; cases h⟩
      · exact ⟨NH.ok _, by intro p' ids' h; cases h; exact ⟨w, by omega, fun _ => t⟩⟩
    · obtain ⟨hn, hp⟩ := mw_miniChainGrow ((MINI + newLen - 1) / MINI + 1) p ids ((MINI + newLen - 1) / MINI) w t (by omega) hroom
      refine ⟨hn, ?_⟩
      intro p' ids' h
      obtain ⟨a, b, c⟩ := hp p' ids' h
      exact ⟨a, c, fun _ => b⟩

/-! ## from the invariant of the reachable states -/

theorem rts_mem_cont {p : P} (hne : p.rootStart ≠ END) : p.rootStart ∈ cont p := by
  unfold cont hd1; simp [hne]

/-- the allocator invariant plus "no leak, no sharing" for the container chains give `MW` -/
theorem mw_of_nc {p : P} {X : List Nat} (inv : Inv p) (n : NC p.fat (cont p ++ X)) : MW p := by
  have hnd : (cont p).Nodup := (List.nodup_append.mp n.ns.nodup).1
  refine ⟨inv.fat.freeNodup, inv.fat.freeFree, ?_, ?_, ?_, n.ns.bound⟩
  · by_cases h : p.miniFatStart = END
    · exact Or.inl h
    · exact Or.inr (n.ch _ (List.mem_append_left _ (mfs_mem_cont h)))
  · by_cases h : p.rootStart = END
    · exact Or.inl h
    · exact Or.inr (n.ch _ (List.mem_append_left _ (rts_mem_cont h)))
  · intro lm lr cm cr x hx hxr
    by_cases h1 : p.miniFatStart = END
    · rw [h1] at cm; exact no_chain_at_END n.ns.bound cm
    · by_cases h2 : p.rootStart = END
      · rw [h2] at cr; exact no_chain_at_END n.ns.bound cr
      · have e := IsChain.disjoint n.ns (List.mem_append_left _ (mfs_mem_cont h1)) (List.mem_append_left _ (rts_mem_cont h2)) cm cr hx hxr
        unfold cont hd1 at hnd
        simp [h2, e] at hnd

theorem mw_of_jc {p : P} {L : Nat → Nat} (j : JC p L) : MW p := mw_of_nc (X := regs p.starts L) j.inv j.nc

theorem miniChainIds_END (p : P) : miniChainIds p END = .ok [] := by
  unfold miniChainIds chainLoop; simp

/-- a non-empty stream below 4096 bytes: its mini chain is walked, can be grown, and has the length its size needs -/
theorem mini_walk {p : P} {L : Nat → Nat} (j : JA p L) {s : Nat} (hc : L s < CUTOFF) (hs : startOf p s ≠ END) :
    ∃ ids, miniChainIds p (startOf p s) = .ok ids ∧ MT p ids ∧ ids.length = (L s + MINI - 1) / MINI := by
  have hm : (s, startOf p s) ∈ p.starts := startIn_mem hs
  obtain ⟨h0, hpos⟩ := j.ml (s, startOf p s) hm hc
  have hL : 0 < L s := by
    rcases Nat.eq_zero_or_pos (L s) with h | h
    · exact absurd (h0 h) hs
    · exact h
  obtain ⟨_, l, c, hl⟩ := hpos hL
  have hmem : startOf p s ∈ mregs p.starts L := by
    unfold mregs
    refine List.mem_map.mpr ⟨(s, startOf p s), List.mem_filter.mpr ⟨hm, ?_⟩, rfl⟩
    simp [isMiniStart, hc, hs]
  refine ⟨l, ?_, ?_, hl⟩
  · have := chainFrom_of_isChain j.jm.nc.ns hmem c
    unfold miniChainIds
    unfold chainFrom at this
    exact this
  · intro z hz
    obtain ⟨z', hz', hend⟩ := c.last_is_end
    rw [hz] at hz'; cases hz'
    exact hend

/-! ## whole operations -/

theorem nh_readData {p : P} {L : Nat → Nat} (j : JA p L) (s off n : Nat) : NH (readData p s (L s) off n) := by
  by_cases hreg : CUTOFF ≤ L s
  · exact nh_readData_reg j.jr s off n hreg
  · have hc : L s < CUTOFF := by omega
    have w := mw_of_jc j.jr.jc
    unfold readData
    by_cases hn : n = 0
    · simp only [hn, if_true]; exact NH.ok _
    · simp only [hn, if_false, hc, if_true]
      by_cases hs : startOf p s = END
      · rw [hs, miniChainIds_END]
        refine NH.bind (NH.ok _) ?_
        intro ids _
        split
        · exact NH.err _
        · exact nh_miniChainRead w _ ids off n [] (by omega)
      · obtain ⟨ids, hw, _, _⟩ := mini_walk j hc hs
        rw [hw]
        refine NH.bind (NH.ok _) ?_
        intro ids' _
        split
        · exact NH.err _
        · exact nh_miniChainRead w _ ids' off n [] (by omega)

theorem nh_freeStream {p : P} {L : Nat → Nat} (j : JA p L) (s : Nat) : NH (freeStream p s (L s)) := by
  unfold freeStream
  split
  · exact NH.bind (nh_freeMiniChainFrom (mw_of_jc j.jr.jc) _) (fun _ _ => NH.ok _)
  · exact NH.bind (nh_freeChainFrom _ _) (fun _ _ => NH.ok _)

theorem nh_writeData {p : P} {L : Nat → Nat} (j : JA p L) (s off : Nat) (buf : Bytes)
    (hroom : p.fat.size + 6 * (buf.length + 2) ≤ MAXREG + 1) : NH (writeData p s (L s) off buf) := by
  by_cases hreg : CUTOFF ≤ L s
  · exact nh_writeData_reg j.jr s off buf hreg
  · have hc : L s < CUTOFF := by omega
    have w := mw_of_jc j.jr.jc
    unfold writeData
    dsimp only
    by_cases hs : startOf p s = END
    · simp only [hs, if_true]
      split
      · exact NH.bad
      · split
        · refine NH.bind (mw_miniChainWrite _ p [] 0 buf w (MT.nil p) (by omega) hroom).1 ?_
          intro r _; exact NH.ok _
        · refine NH.bind (tail_chainWrite .zero _ p [] 0 buf w.tailNil (by omega)).1 ?_
          intro r _; exact NH.ok _
    · simp only [hs, if_false, hc, if_true]
      obtain ⟨ids, hw, t, _⟩ := mini_walk j hc hs
      split
      · rw [hw]
        refine NH.bind (NH.ok _) ?_
        intro ids' he
        cases he
        split
        · exact NH.err _
        · refine NH.bind (mw_miniChainWrite _ p ids off buf w t (by omega) hroom).1 ?_
          intro r _; exact NH.ok _
      · -- migration to a regular chain
        rw [hw]
        refine NH.bind (NH.ok _) ?_
        intro ids' he
        cases he
        refine NH.bind (nh_miniChainRead w _ ids 0 off [] (by omega)) ?_
        intro tmp _
        refine NH.bind (nh_freeMiniChainFrom w _) ?_
        intro p1 h1
        have w1 := mw_of_freeMiniChainFrom w h1
        obtain ⟨hn1, hp1⟩ := tail_chainWrite .zero (tmp.length + 2) p1 [] 0 tmp w1.tailNil (by omega)
        refine NH.bind hn1 ?_
        intro r hr
        obtain ⟨p2, ids1⟩ := r
        have t2 := hp1 p2 ids1 hr
        refine NH.bind (tail_chainWrite .zero (buf.length + 2) p2 ids1 tmp.length buf t2 (by omega)).1 ?_
        intro r2 _; exact NH.ok _

theorem zeroTailRange_n {oldLen newLen unit : Nat} {a n : Nat} (hu : 0 < unit)
    (h : zeroTailRange oldLen newLen unit = some (a, n)) : n < unit := by
  unfold zeroTailRange at h
  split at h
  · rename_i hc
    simp at h
    obtain ⟨_, h2⟩ := h
    subst h2
    have h1 : (oldLen + unit - 1) / unit * unit ≤ oldLen + unit - 1 := Nat.div_mul_le_self _ _
    have : min newLen ((oldLen + unit - 1) / unit * unit) ≤ (oldLen + unit - 1) / unit * unit := Nat.min_le_right _ _
    omega
  · cases h

/-- every resize except the migration of a regular stream into the mini stream -/
theorem nh_resize {p : P} {L : Nat → Nat} (j : JA p L) (s newLen : Nat)
    (hx : ¬ (CUTOFF ≤ L s ∧ 0 < newLen ∧ newLen < CUTOFF))
    (hroom : p.fat.size + 6 * 200 ≤ MAXREG + 1) : NH (resize p s (L s) newLen) := by
  by_cases hreg : CUTOFF ≤ L s
  · exact nh_resize_reg j.jr s newLen hreg (by omega)
  · have hc : L s < CUTOFF := by omega
    have w := mw_of_jc j.jr.jc
    have hnum : ∀ n, n < CUTOFF → (MINI + n - 1) / MINI + 1 ≤ 65 := by
      intro n hn
      have : (MINI + n - 1) / MINI ≤ (MINI + 4095 - 1) / MINI := Nat.div_le_div_right (by
        have : CUTOFF = 4096 := by decide
        omega)
      have e : (MINI + 4095 - 1) / MINI = 64 := by decide
      omega
    unfold resize
    dsimp only
    by_cases hs : startOf p s = END
    · simp only [hs, if_true]
      split
      · exact NH.bad
      · split
        · rename_i hlt
          have := hnum newLen hlt
          refine NH.bind (mw_miniChainSetLen w (MT.nil p) newLen (by omega)).1 ?_
          intro r _; exact NH.ok _
        · refine NH.bind (nh_chainSetLen .zero newLen w.tailNil) ?_
          intro r _; exact NH.ok _
    · simp only [hs, if_false, hc, if_true]
      split
      · exact NH.bind (nh_freeMiniChainFrom w _) (fun _ _ => NH.ok _)
      · obtain ⟨ids, hw, t, hlen⟩ := mini_walk j hc hs
        split
        · rename_i hlt
          have hnn := hnum newLen hlt
          rw [hw]
          refine NH.bind (NH.ok _) ?_
          intro ids0 he
          cases he
          obtain ⟨hn1, hp1⟩ := mw_miniChainSetLen w t newLen (by omega)
          refine NH.bind hn1 ?_
          intro r hr
          obtain ⟨p', ids'⟩ := r
          obtain ⟨w', hle', ht'⟩ := hp1 p' ids' hr
          dsimp only
          split
          · rename_i at_ n hz
            have hgrow := zeroTailRange_some hz
            have hn := zeroTailRange_n MINI_pos hz
            have hge' : ids.length ≤ (MINI + newLen - 1) / MINI := by
              rw [hlen]
              exact Nat.div_le_div_right (by omega)
            have t' := ht' hge'
            split
            · exact NH.err _
            · have hm : MINI = 64 := by decide
              refine NH.bind (mw_miniChainWrite (n + 2) p' ids' at_ (List.replicate n 0) w' t' (by simp) (by omega)).1 ?_
              intro r2 _; exact NH.ok _
          · exact NH.ok _
        · -- migration to a regular chain
          rw [hw]
          refine NH.bind (NH.ok _) ?_
          intro ids0 he
          cases he
          refine NH.bind (nh_miniChainRead w _ ids 0 (L s) [] (by omega)) ?_
          intro tmp _
          refine NH.bind (nh_freeMiniChainFrom w _) ?_
          intro p1 h1
          have w1 := mw_of_freeMiniChainFrom w h1
          obtain ⟨hn1, hp1⟩ := tail_chainWrite .zero (tmp.length + 2) p1 [] 0 tmp w1.tailNil (by omega)
          refine NH.bind hn1 ?_
          intro r hr
          obtain ⟨p2, ids1⟩ := r
          have t2 := hp1 p2 ids1 hr
          refine NH.bind (nh_chainSetLen .zero newLen t2) ?_
          intro r2 _; exact NH.ok _

/-! ## the migration of a regular chain into the mini stream -/

theorem freeChain_fatsize (fuel : Nat) : ∀ {p p' : P} {cur : Nat}, freeChain p fuel cur = .ok p' → p'.fat.size = p.fat.size := by
  induction fuel with
  | zero => intro p p' cur h; simp [freeChain] at h
  | succ fuel ih =>
    intro p p' cur h
    unfold freeChain at h
    split at h
    · cases h; rfl
    · split at h
      · cases h
      · rename_i next hn
        have hlt := (nextSector_ok hn).1
        split at h
        · cases h
        · split at h
          · rename_i p1 hs
            have e : p1.fat.size = p.fat.size := by
              rcases setFat_ok hs with ⟨hi, _⟩ | ⟨_, he⟩
              · omega
              · subst he; simp
            have := ih h
            rw [← e]; exact this
          · cases h
          · cases h
          · cases h

/-- after `free_chain` of a stream's regular chain the two container chains are as walkable as before -/
theorem mw_after_freeChainFrom {p p1 : P} {L : Nat → Nat} (j : JR p L) {s : Nat} (hreg : CUTOFF ≤ L s)
    (hs : startOf p s ≠ END) (h : freeChainFrom p (startOf p s) = .ok p1) : MW p1 ∧ p1.fat.size = p.fat.size := by
  have hsz : p1.fat.size = p.fat.size := freeChain_fatsize _ h
  have hb : p.fat.size ≤ MAXREG + 1 := j.jc.nc.ns.bound
  have n0 := jc_n0 j.jc s
  have hown : ownOf p.starts L s = [startOf p s] := by
    unfold ownOf; rw [if_pos ⟨hreg, hs⟩]; rfl
  rw [hown] at n0
  have n1 : NC p.fat (hd1 (startOf p s) ++ (cont p ++ regs (others p.starts s) L)) := by
    refine n0.perm ?_
    unfold hd1
    rw [if_neg hs]
    rw [List.append_assoc]
    exact List.perm_middle
  have n2 := (kc_freeChainFrom h).keep (by omega) j.jc.inv _ n1
  have sf := sf_freeChain _ h
  have inv1 : Inv p1 := (good_freeChainFrom h).inv j.jc.inv (small_of_bound (by omega))
  have n3 : NC p1.fat (cont p1 ++ regs (others p.starts s) L) := by
    rw [cont_of_sf sf]; simpa using n2
  exact ⟨mw_of_nc inv1 n3, hsz⟩

theorem nh_resize_intoMini {p : P} {L : Nat → Nat} (j : JA p L) (s newLen : Nat) (hreg : CUTOFF ≤ L s)
    (hpos : 0 < newLen) (hlt : newLen < CUTOFF) (hroom : p.fat.size + 6 * 4200 ≤ MAXREG + 1) :
    NH (resize p s (L s) newLen) := by
  unfold resize
  dsimp only
  by_cases hs : startOf p s = END
  · simp only [hs, if_true]
    have : L s ≠ 0 := by have := CUTOFF_pos; omega
    simp only [this, ne_eq, not_false_eq_true, if_true]
    exact NH.bad
  · have h1 : ¬ L s < CUTOFF := by omega
    have h2 : newLen ≠ 0 := by omega
    simp only [hs, if_false, h1, h2, hlt, if_true]
    obtain ⟨ids, hw, _, _⟩ := reg_walk j.jr hreg hs
    rw [hw]
    refine NH.bind (NH.ok _) ?_
    intro ids0 he
    cases he
    refine NH.bind (nh_chainRead _ p ids 0 newLen [] (by omega)) ?_
    intro tmp htmp
    have hlen : tmp.length = newLen := by
      have := chainRead_len j.jr.ss _ htmp
      simpa using this
    refine NH.bind (nh_freeChainFrom _ _) ?_
    intro p1 hf
    obtain ⟨w1, hsz⟩ := mw_after_freeChainFrom j.jr hreg hs hf
    have hc : CUTOFF = 4096 := by decide
    refine NH.bind (mw_miniChainWrite _ p1 [] 0 tmp w1 (MT.nil p1) (by omega) (by omega)).1 ?_
    intro r _; exact NH.ok _

/-! ## the store machine -/

/-- FAT cells an operation may add, in units of six (one new mini sector can cost a MiniFAT sector, a
sector of the mini stream, and a FAT and a DIFAT sector for each) -/
def opCost : GOp → Nat
  | .write _ _ bs => bs.length + 2
  | .resize _ _ => 4200
  | _ => 0

theorem nh_gstep {g : G} (j : JA g.p g.L) (op : GOp)
    (hroom : g.p.fat.size + 6 * opCost op ≤ MAXREG + 1) : NH (gstep g op) := by
  cases op with
  | ensure s => exact NH.obind (nh_ensureDirSlot j.jr.jc s) (fun _ _ => NH.ok _)
  | create s =>
    simp only [gstep]
    split
    · exact NH.ok _
    · exact NH.err _
  | write s off bs => exact NH.obind (nh_writeData j s off bs hroom) (fun _ _ => NH.ok _)
  | resize s n =>
    have hroom' : g.p.fat.size + 6 * 4200 ≤ MAXREG + 1 := hroom
    by_cases hx : CUTOFF ≤ g.L s ∧ 0 < n ∧ n < CUTOFF
    · exact NH.obind (nh_resize_intoMini j s n hx.1 hx.2.1 hx.2.2 hroom') (fun _ _ => NH.ok _)
    · exact NH.obind (nh_resize j s n hx (by omega)) (fun _ _ => NH.ok _)
  | free s => exact NH.obind (nh_freeStream j s) (fun _ _ => NH.ok _)
  | reopen => exact NH.obind (nh_reopen j.jr.jc) (fun _ _ => NH.ok _)

/-- **in every state reachable by store operations and reopens, no store operation hangs** — for all
arguments, as long as the file has room inside the format's range of sector numbers for what the
operation may add -/
theorem store_ops_never_hang (v4 : Bool) (ops : List GOp) (op : GOp) :
    let g0 : G := { p := Phys.create v4, L := fun _ => 0 }
    WritesInRange g0 ops → MiniBounded g0 ops →
    let g := grun g0 ops
    g.p.fat.size + 6 * opCost op ≤ MAXREG + 1 → NH (gstep g op) := by
  intro g0 hw hm g hroom
  have hb : g.p.fat.size ≤ MAXREG + 1 := by omega
  have j : JA g.p g.L := lengths_reachable v4 ops hw hm hb
  exact nh_gstep j op hroom

/-- neither a panic nor a hang: a value or an error -/
theorem total_of_np_nh {α : Type} {o : Outcome α} (hp : NP o) (hh : NH o) : (∃ a, o = .ok a) ∨ (∃ k, o = .err k) := by
  cases o with
  | ok a => exact Or.inl ⟨a, rfl⟩
  | err k => exact Or.inr ⟨k, rfl⟩
  | panic m => exact absurd rfl (hp m)
  | hang m => exact absurd rfl (hh m)

theorem wk_create (v4 : Bool) : WK (Phys.create v4) :=
  ⟨fun i hi => by simp [Phys.create] at hi, fun i hi => by simp [Phys.create] at hi⟩

/-- **in every state reachable by store operations and reopens, every store operation returns a value or an
error** — the two exits that model what the property forbids (a panic: unchecked indexing or a failed
assertion; a hang: a loop without a bound) are both unreachable -/
theorem store_ops_total (v4 : Bool) (ops : List GOp) (op : GOp) :
    let g0 : G := { p := Phys.create v4, L := fun _ => 0 }
    WritesInRange g0 ops → MiniBounded g0 ops →
    let g := grun g0 ops
    g.p.fat.size + 6 * opCost op ≤ MAXREG + 1 →
    (∃ g', gstep g op = .ok g') ∨ (∃ k, gstep g op = .err k) := by
  intro g0 hw hm g hroom
  have w : WK g.p := wk_grun ops g0 (wk_create v4)
  exact total_of_np_nh (np_gstep g op w).1 (store_ops_never_hang v4 ops op hw hm hroom)

end CfbVerif.Phys
