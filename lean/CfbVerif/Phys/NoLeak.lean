import CfbVerif.Phys.Chains
/-!
# Every sector in use lies on exactly one owner's chain

`NC fat heads` (`Phys/Chains.lean`) = no sharing (`NSH`) + every head has a chain (`CH`) + every cell
that says END or holds a pointer lies on some head's chain (`Cover`).  This file lifts it through the
operations of `Phys`, exactly as `Phys/NoShare.lean` lifts `NSH`: sector level, composable summaries,
regular chains, the container chains of the mini level, the stream operations with the ghost
lengths, the store machine.
-/
namespace CfbVerif.Phys
open CfbVerif.Raw

/-- cells that `allocate_sector` adds besides the one it hands out are FATSECT / DIFSECT markers -/
theorem allocateSector_new2 {p p' : P} {id : Nat} {k : Init} (inv : Inv p) (h : allocateSector p k = .ok (p', id))
    (j v : Nat) (hj : p.fat.size ≤ j) (hne : j ≠ id) (hv : p'.fat[j]? = some v) : v = FATSECT ∨ v = DIFSECT := by
  by_cases hfree : p.free = []
  · unfold allocateSector at h
    simp only [hfree, List.getLast?_nil] at h
    have tail : ∀ {p0 : P}, (∀ j v, p.fat.size ≤ j → p0.fat[j]? = some v → v = FATSECT ∨ v = DIFSECT) →
        (setFat p0 p0.fat.size END >>= fun p1 => initSector p1 p0.fat.size k >>= fun p2 => pure (p2, p0.fat.size)) = .ok (p', id) →
        v = FATSECT ∨ v = DIFSECT := by
      intro p0 hmark h
      obtain ⟨p1, h1, h⟩ := bind_ok h
      obtain ⟨p2, h2, h⟩ := bind_ok h
      cases h
      rw [initSector_fat h2] at hv
      rcases setFat_ok h1 with ⟨_, he⟩ | ⟨hl, _⟩
      · subst he
        simp only [Array.getElem?_push] at hv
        split at hv
        · rename_i he; exact absurd he hne
        · exact hmark j v hj hv
      · omega
    split at h
    · obtain ⟨p0, h0, h⟩ := bind_ok h
      refine tail ?_ h
      intro j v hj hv
      rcases appendFatSector_fat h0 with e | e
      · rw [e] at hv
        simp only [Array.getElem?_push] at hv
        split at hv
        · cases hv; exact Or.inl rfl
        · have := lt_of_get hv; omega
      · rw [e] at hv
        simp only [Array.getElem?_push] at hv
        split at hv
        · cases hv; exact Or.inr rfl
        · split at hv
          · cases hv; exact Or.inl rfl
          · have := lt_of_get hv; omega
    · obtain ⟨p0, h0, h⟩ := bind_ok h
      cases h0
      refine tail ?_ h
      intro j v hj hv
      have := lt_of_get hv; omega
  · have r := allocateSector_reuse inv.fat hfree h
    rw [r.2.2.2.2.1] at hv
    have := lt_of_get hv
    simp at this
    omega

theorem nc_allocateSector {p p' : P} {id : Nat} {k : Init} {hs : List Nat} (inv : Inv p)
    (h : allocateSector p k = .ok (p', id)) (hb : p'.fat.size ≤ MAXREG + 1) (n : NC p.fat hs) :
    NC p'.fat (id :: hs) := by
  have r := inv_allocateSector inv h
  refine n.claim hb (fun j hj hne => allocateSector_frame inv h j hj hne) r.2.1 r.2.2.1 ?_
  intro j v hj hne hv
  rcases allocateSector_new2 inv h j v hj hne hv with rfl | rfl
  · exact ⟨MAXREG_lt_FATSECT, by decide⟩
  · exact ⟨MAXREG_lt_DIFSECT, by decide⟩

theorem nc_extendChain {p p' : P} {start id : Nat} {k : Init} {hs : List Nat} (inv : Inv p)
    (h : extendChain p start k = .ok (p', id)) (hb : p'.fat.size ≤ MAXREG + 1) (n : NC p.fat hs) :
    NC p'.fat hs := by
  unfold extendChain at h
  obtain ⟨last, hl, h⟩ := bind_ok h
  obtain ⟨⟨p1, id1⟩, ha, h⟩ := bind_ok h
  obtain ⟨p2, hs', h⟩ := bind_ok h
  cases h
  have hlast := lastOfChain_ok _ _ hl
  have r := inv_allocateSector inv ha
  have hne : last ≠ id := by
    intro he
    subst he
    rcases r.2.2.1 with hfr | hge
    · rw [hlast.2] at hfr; exact END_ne_FREE (Option.some.inj hfr)
    · omega
  have hcell : p1.fat[last]? = some END := by
    rw [allocateSector_frame inv ha last hlast.1 hne]; exact hlast.2
  have hb1 : p1.fat.size ≤ MAXREG + 1 := Nat.le_trans (setFat_mono hs') hb
  have n1 := nc_allocateSector inv ha hb1 n
  have hp' : p'.fat = p1.fat.setIfInBounds last id := by
    rcases setFat_ok hs' with ⟨he, _⟩ | ⟨_, he⟩
    · have := lt_of_get hcell; omega
    · subst he; rfl
  rw [hp']
  exact n1.link hcell hne r.2.1

theorem nc_freeChain (fuel : Nat) : ∀ {p p' : P} {cur : Nat} {hs : List Nat},
    freeChain p fuel cur = .ok p' → NC p.fat (hd1 cur ++ hs) → NC p'.fat hs := by
  induction fuel with
  | zero => intro p p' cur hs h; simp [freeChain] at h
  | succ fuel ih =>
    intro p p' cur hs h n
    unfold freeChain at h
    split at h
    · rename_i he
      cases h
      simpa [hd1, he] using n
    · rename_i hne
      cases hn : nextSector p.fat cur with
      | error k => simp [hn] at h
      | ok next =>
        simp only [hn] at h
        have ns := nextSector_ok hn
        split at h
        · cases h
        · cases h1 : setFat p cur FREE with
          | err e => simp [h1] at h
          | panic s => simp [h1] at h
          | hang s => simp [h1] at h
          | ok p1 =>
            simp only [h1] at h
            have hp1 : p1 = { p with fat := p.fat.setIfInBounds cur FREE } := by
              rcases setFat_ok h1 with ⟨he, _⟩ | ⟨_, he⟩
              · omega
              · exact he
            subst hp1
            have n0 : NC p.fat (cur :: hs) := by simpa [hd1, hne] using n
            have n1 := n0.freeHead ns.2.1 ns.2.2
            refine ih h ?_
            rcases nextSector_class hn with he | ⟨hne', hreg⟩
            · subst he
              have : ¬ (END ≤ MAXREG) := Nat.not_le.mpr MAXREG_lt_END
              simpa [hd1, this] using n1
            · simpa [hd1, hne', hreg] using n1

theorem nc_freeChainAfter {p p' : P} {id : Nat} {hs : List Nat}
    (h : freeChainAfter p id = .ok p') (n : NC p.fat hs) : NC p'.fat hs := by
  unfold freeChainAfter at h
  cases hn : nextSector p.fat id with
  | error k => simp [hn] at h
  | ok next =>
    simp only [hn] at h
    obtain ⟨p1, h1, h⟩ := bind_ok h
    have ns := nextSector_ok hn
    have hp1 : p1 = { p with fat := p.fat.setIfInBounds id END } := by
      rcases setFat_ok h1 with ⟨he, _⟩ | ⟨_, he⟩
      · omega
      · exact he
    subst hp1
    refine nc_freeChain _ h ?_
    rcases nextSector_class hn with he | ⟨hne, hreg⟩
    · subst he
      have : p.fat.setIfInBounds id END = p.fat := by
        apply Array.ext_getElem?
        intro i
        simp only [Array.getElem?_setIfInBounds]
        split
        · rename_i hi; subst hi
          have h2 := ns.2.1
          simp only [ns.1, Array.getElem?_eq_getElem, Option.some.injEq] at h2
          simp [ns.1, h2]
        · rfl
      simpa [hd1, this] using n
    · simpa [hd1, hne] using n.cut ns.2.1 hreg

end CfbVerif.Phys
/-! ## summaries that compose (as in NoShare, for `NC`) -/
namespace CfbVerif.Phys
open CfbVerif.Raw

/-- `KeepsC p p' a a'`: an operation that turns the heads `a` into `a'` and leaves every other head
(`X`, arbitrary) alone — as long as the FAT stays inside the range of regular sector numbers -/
structure KeepsC (p p' : P) (a a' : List Nat) : Prop where
  good : Good p p'
  keep : p'.fat.size ≤ MAXREG + 1 → Inv p → ∀ X, NC p.fat (a ++ X) → NC p'.fat (a' ++ X)

theorem KeepsC.refl (p : P) (a : List Nat) : KeepsC p p a a := ⟨Good.refl p, fun _ _ _ n => n⟩

theorem KeepsC.trans {p q r : P} {a b c : List Nat} (h1 : KeepsC p q a b) (h2 : KeepsC q r b c) : KeepsC p r a c := by
  refine ⟨h1.good.trans h2.good, ?_⟩
  intro hb inv X n
  have hbq : q.fat.size ≤ MAXREG + 1 := Nat.le_trans h2.good.mono hb
  exact h2.keep hb (h1.good.inv inv (small_of_bound hbq)) X (h1.keep hbq inv X n)

theorem KeepsC.of_same {p q : P} (h : SameAlloc p q) (a : List Nat) : KeepsC p q a a :=
  ⟨Good.of_same h, fun _ _ _ n => by rw [h.1]; exact n⟩

/-- more heads in front that the operation does not care about -/
theorem KeepsC.frame {p p' : P} {a a' : List Nat} (Y : List Nat) (h : KeepsC p p' a a') : KeepsC p p' (Y ++ a) (Y ++ a') := by
  refine ⟨h.good, ?_⟩
  intro hb inv X n
  have p1 : ((Y ++ a) ++ X).Perm (a ++ (Y ++ X)) := by
    rw [List.append_assoc]
    exact (List.perm_append_comm_assoc Y a X)
  have p2 : (a' ++ (Y ++ X)).Perm ((Y ++ a') ++ X) := by
    rw [List.append_assoc]
    exact (List.perm_append_comm_assoc a' Y X)
  exact (h.keep hb inv (Y ++ X) (n.perm p1)).perm p2

theorem kc_allocateSector {p p' : P} {id : Nat} {k : Init} (h : allocateSector p k = .ok (p', id)) :
    KeepsC p p' [] [id] :=
  ⟨good_allocateSector h, fun hb inv X n => by simpa using nc_allocateSector inv h hb n⟩

theorem kc_extendChain {p p' : P} {start id : Nat} {k : Init} (h : extendChain p start k = .ok (p', id))
    (a : List Nat) : KeepsC p p' a a :=
  ⟨good_extendChain h, fun hb inv X n => nc_extendChain inv h hb n⟩

theorem kc_freeChainFrom {p p' : P} {start : Nat} (h : freeChainFrom p start = .ok p') :
    KeepsC p p' (hd1 start) [] :=
  ⟨good_freeChainFrom h, fun _ _ X n => by simpa using nc_freeChain _ h n⟩

theorem kc_freeChainAfter {p p' : P} {id : Nat} (h : freeChainAfter p id = .ok p') (a : List Nat) :
    KeepsC p p' a a :=
  ⟨good_freeChainAfter h, fun _ _ X n => nc_freeChainAfter h n⟩

/-! ## regular chains -/

theorem kc_growOne {kind : Init} {p p' : P} {ids ids' : List Nat} (h : growOne kind p ids = .ok (p', ids')) :
    KeepsC p p' (hdl ids) (hdl ids') ∧ SF p p' := by
  unfold growOne at h
  split at h
  · rename_i last hl
    have hne : ids ≠ [] := by intro he; subst he; simp at hl
    split at h
    · rename_i p1 id he
      cases h
      rw [hdl_append hne]
      exact ⟨kc_extendChain he _, sf_extendChain he⟩
    · cases h
    · cases h
    · cases h
  · rename_i hl
    have he0 : ids = [] := List.getLast?_eq_none_iff.mp hl
    subst he0
    split at h
    · rename_i p1 id he
      cases h
      exact ⟨by simpa [hdl] using kc_allocateSector he, sf_allocateSector he⟩
    · cases h
    · cases h
    · cases h

theorem kc_chainWrite (kind : Init) (fuel : Nat) : ∀ {p p' : P} {ids ids' : List Nat} {off : Nat} {bs : Bytes},
    chainWrite kind fuel p ids off bs = .ok (p', ids') → KeepsC p p' (hdl ids) (hdl ids') ∧ SF p p' := by
  induction fuel with
  | zero => intro p p' ids ids' off bs h; simp [chainWrite] at h
  | succ fuel ih =>
    intro p p' ids ids' off bs h
    unfold chainWrite at h
    split at h
    · cases h; exact ⟨KeepsC.refl _ _, SF.refl _⟩
    · dsimp only at h
      split at h
      · rename_i p1 ids1 hgrow
        have g1 : KeepsC p p1 (hdl ids) (hdl ids1) ∧ SF p p1 := by
          split at hgrow
          · exact kc_growOne hgrow
          · cases hgrow; exact ⟨KeepsC.refl _ _, SF.refl _⟩
        split at h
        · cases h
        · split at h
          · rename_i p2 hw
            have r := ih h
            exact ⟨(g1.1.trans (KeepsC.of_same (writeSector_same hw) _)).trans r.1, (g1.2.trans (sf_writeSector hw)).trans r.2⟩
          · cases h
          · cases h
          · cases h
      · cases h
      · cases h
      · cases h

theorem kc_chainGrow (kind : Init) (fuel : Nat) : ∀ {p p' : P} {ids ids' : List Nat} {target : Nat},
    chainGrow kind fuel p ids target = .ok (p', ids') → KeepsC p p' (hdl ids) (hdl ids') ∧ SF p p' := by
  induction fuel with
  | zero => intro p p' ids ids' target h; simp [chainGrow] at h
  | succ fuel ih =>
    intro p p' ids ids' target h
    unfold chainGrow at h
    split at h
    · cases h; exact ⟨KeepsC.refl _ _, SF.refl _⟩
    · split at h
      · rename_i p1 ids1 hg
        have g := kc_growOne hg
        have r := ih h
        exact ⟨g.1.trans r.1, g.2.trans r.2⟩
      · cases h
      · cases h
      · cases h

/-- `Chain::set_len` to a non-zero length: the chain keeps its head (or gets one) -/
theorem kc_chainSetLen {p p' : P} {ids ids' : List Nat} {kind : Init} {n : Nat} (hn : 0 < n)
    (h : chainSetLen p ids kind n = .ok (p', ids')) : KeepsC p p' (hdl ids) (hdl ids') ∧ SF p p' := by
  unfold chainSetLen at h
  dsimp only at h
  have hpos : (p.S + n - 1) / p.S ≠ 0 := by
    have hS := S_pos p
    intro he
    have := (Nat.div_eq_zero_iff).mp he
    omega
  rw [if_neg hpos] at h
  split at h
  · split at h
    · split at h
      · obtain ⟨q, hf, h⟩ := obind_ok h
        cases h; exact ⟨kc_freeChainAfter hf _, sf_freeChainAfter hf⟩
      · cases h
    · cases h; exact ⟨KeepsC.refl _ _, SF.refl _⟩
  · exact kc_chainGrow _ _ h

end CfbVerif.Phys

/-! ## the mini level: only the two container chains (MiniFAT, mini stream) touch the FAT -/
namespace CfbVerif.Phys
open CfbVerif.Raw

structure KKC (p p' : P) : Prop where
  k : KeepsC p p' (cont p) (cont p')
  starts : p'.starts = p.starts

theorem KKC.refl (p : P) : KKC p p := ⟨KeepsC.refl _ _, rfl⟩
theorem KKC.trans {p q r : P} (h1 : KKC p q) (h2 : KKC q r) : KKC p r := ⟨h1.k.trans h2.k, h2.starts.trans h1.starts⟩

theorem KKC.of_same {p q : P} (h : SameAlloc p q) (s : SF p q) : KKC p q :=
  ⟨by rw [cont_of_sf s]; exact KeepsC.of_same h _, s.2.2.2⟩

theorem KKC.of_keeps {p q : P} (h : ∀ a, KeepsC p q a a) (s : SF p q) : KKC p q :=
  ⟨by rw [cont_of_sf s]; exact h _, s.2.2.2⟩

theorem kkc_ensureRootRoom {p p' : P} (h : ensureRootRoom p = .ok p') : KKC p p' := by
  unfold ensureRootRoom at h
  split at h
  · rename_i hend
    split at h
    · rename_i p1 id ha
      cases h
      have sf := sf_allocateSector ha
      refine ⟨⟨(good_allocateSector ha).trans (Good.of_same ⟨rfl, rfl, rfl, rfl⟩), ?_⟩, sf.2.2.2⟩
      intro hb inv X n
      have n1 := nc_allocateSector inv ha hb n
      have hreg : id ≤ MAXREG := n1.ns.head_reg (List.mem_cons_self ..)
      have hc : cont { p1 with rootStart := id } ++ X = (p.dirStart :: hd1 p.miniFatStart) ++ id :: X := by
        simp [cont, sf.1, sf.2.1, hd1_reg hreg]
      have hc0 : cont p ++ X = (p.dirStart :: hd1 p.miniFatStart) ++ X := by
        simp [cont, hend, hd1]
      rw [hc]
      rw [hc0] at n1
      exact n1.perm List.perm_middle.symm
    · cases h
    · cases h
    · cases h
  · split at h
    · split at h
      · split at h
        · split at h
          · rename_i he; cases h
            exact KKC.of_keeps (kc_extendChain he) (sf_extendChain he)
          · cases h
          · cases h
          · cases h
        · cases h; exact KKC.refl _
      · cases h
      · cases h
      · cases h
    · cases h; exact KKC.refl _

theorem kkc_appendMiniSector {p p' : P} (h : appendMiniSector p = .ok p') : KKC p p' := by
  unfold appendMiniSector at h
  split at h
  · rename_i hr; cases h
    exact (kkc_ensureRootRoom hr).trans (KKC.of_same ⟨rfl, rfl, rfl, rfl⟩ ⟨rfl, rfl, rfl, rfl⟩)
  · cases h
  · cases h
  · cases h

theorem kkc_ensureMiniFatRoom {p p' : P} (h : ensureMiniFatRoom p = .ok p') : KKC p p' := by
  unfold ensureMiniFatRoom at h
  dsimp only at h
  split at h
  · rename_i hend
    split at h
    · rename_i p1 id ha
      cases h
      have sf := sf_allocateSector ha
      refine ⟨⟨(good_allocateSector ha).trans (Good.of_same ⟨rfl, rfl, rfl, rfl⟩), ?_⟩, sf.2.2.2⟩
      intro hb inv X n
      have n1 := nc_allocateSector inv ha hb n
      have hreg : id ≤ MAXREG := n1.ns.head_reg (List.mem_cons_self ..)
      have hc : cont { p1 with miniFatStart := id } ++ X = [p.dirStart] ++ id :: (hd1 p.rootStart ++ X) := by
        simp [cont, sf.1, sf.2.2.1, hd1_reg hreg]
      have hc0 : cont p ++ X = [p.dirStart] ++ (hd1 p.rootStart ++ X) := by
        simp [cont, hend, hd1]
      rw [hc]
      rw [hc0] at n1
      exact n1.perm List.perm_middle.symm
    · cases h
    · cases h
    · cases h
  · split at h
    · split at h
      · split at h
        · split at h
          · rename_i he; cases h
            exact KKC.of_keeps (kc_extendChain he) (sf_extendChain he)
          · cases h
          · cases h
          · cases h
        · cases h; exact KKC.refl _
      · cases h
      · cases h
      · cases h
    · cases h; exact KKC.refl _

theorem kkc_setMiniFat {p p' : P} {i v : Nat} (h : setMiniFat p i v = .ok p') : KKC p p' :=
  KKC.of_same (same_setMiniFat h) (sf_setMiniFat h)

theorem kkc_allocateMiniSector {p p' : P} {v id : Nat} (h : allocateMiniSector p v = .ok (p', id)) : KKC p p' := by
  unfold allocateMiniSector at h
  obtain ⟨⟨p1, reuse⟩, hp, h⟩ := bind_ok h
  have g0 : KKC p p1 := KKC.of_same (same_popFreeMini hp) (sf_popFreeMini hp)
  dsimp only at h
  split at h
  · obtain ⟨p2, hs, h⟩ := bind_ok h
    cases h
    exact g0.trans (kkc_setMiniFat hs)
  · obtain ⟨p2, h2, h⟩ := bind_ok h
    obtain ⟨p3, h3, h⟩ := bind_ok h
    obtain ⟨p4, h4, h⟩ := bind_ok h
    cases h
    exact ((g0.trans (kkc_ensureMiniFatRoom h2)).trans (kkc_appendMiniSector h3)).trans (kkc_setMiniFat h4)

theorem kkc_extendMiniChain {p p' : P} {start id : Nat} (h : extendMiniChain p start = .ok (p', id)) : KKC p p' := by
  unfold extendMiniChain at h
  obtain ⟨last, hl, h⟩ := bind_ok h
  obtain ⟨⟨p1, i1⟩, ha, h⟩ := bind_ok h
  obtain ⟨p2, hs, h⟩ := bind_ok h
  cases h
  exact (kkc_allocateMiniSector ha).trans (kkc_setMiniFat hs)

theorem kkc_freeMiniChain (fuel : Nat) : ∀ {p p' : P} {cur : Nat}, freeMiniChain p fuel cur = .ok p' → KKC p p' := by
  induction fuel with
  | zero => intro p p' cur h; simp [freeMiniChain] at h
  | succ fuel ih =>
    intro p p' cur h
    unfold freeMiniChain at h
    split at h
    · cases h; exact KKC.refl _
    · split at h
      · cases h
      · split at h
        · rename_i p1 hf
          exact (KKC.of_same (same_freeMiniSector hf) (sf_freeMiniSector hf)).trans (ih h)
        · cases h
        · cases h
        · cases h

theorem kkc_freeMiniChainFrom {p p' : P} {start : Nat} (h : freeMiniChainFrom p start = .ok p') : KKC p p' :=
  kkc_freeMiniChain _ h

theorem kkc_freeMiniChainAfter {p p' : P} {id : Nat} (h : freeMiniChainAfter p id = .ok p') : KKC p p' := by
  unfold freeMiniChainAfter at h
  split at h
  · cases h
  · obtain ⟨p1, hs, h⟩ := bind_ok h
    exact (kkc_setMiniFat hs).trans (kkc_freeMiniChain _ h)

theorem kkc_miniWriteAt {p p' : P} {m off : Nat} {bs : Bytes} (h : miniWriteAt p m off bs = .ok p') : KKC p p' := by
  unfold miniWriteAt at h
  obtain ⟨⟨sid, base⟩, hl, h⟩ := bind_ok h
  exact KKC.of_same (writeSector_same h) (sf_writeSector h)

theorem kkc_growOneMini {p p' : P} {ids ids' : List Nat} (h : growOneMini p ids = .ok (p', ids')) : KKC p p' := by
  unfold growOneMini at h
  split at h
  · split at h
    · rename_i he; cases h; exact kkc_extendMiniChain he
    · cases h
    · cases h
    · cases h
  · split at h
    · rename_i he; cases h; exact kkc_allocateMiniSector he
    · cases h
    · cases h
    · cases h

theorem kkc_miniChainWrite (fuel : Nat) : ∀ {p p' : P} {ids ids' : List Nat} {off : Nat} {bs : Bytes},
    miniChainWrite fuel p ids off bs = .ok (p', ids') → KKC p p' := by
  induction fuel with
  | zero => intro p p' ids ids' off bs h; simp [miniChainWrite] at h
  | succ fuel ih =>
    intro p p' ids ids' off bs h
    unfold miniChainWrite at h
    split at h
    · cases h; exact KKC.refl _
    · split at h
      · rename_i p1 ids1 hgrow
        have g1 : KKC p p1 := by
          split at hgrow
          · exact kkc_growOneMini hgrow
          · cases hgrow; exact KKC.refl _
        split at h
        · cases h
        · dsimp only at h
          split at h
          · rename_i p2 hw
            exact (g1.trans (kkc_miniWriteAt hw)).trans (ih h)
          · cases h
          · cases h
          · cases h
      · cases h
      · cases h
      · cases h

theorem kkc_miniChainGrow (fuel : Nat) : ∀ {p p' : P} {ids ids' : List Nat} {target : Nat},
    miniChainGrow fuel p ids target = .ok (p', ids') → KKC p p' := by
  induction fuel with
  | zero => intro p p' ids ids' target h; simp [miniChainGrow] at h
  | succ fuel ih =>
    intro p p' ids ids' target h
    unfold miniChainGrow at h
    split at h
    · cases h; exact KKC.refl _
    · split at h
      · rename_i p1 ids1 hg
        split at h
        · rename_i p2 hw
          exact ((kkc_growOneMini hg).trans (kkc_miniWriteAt hw)).trans (ih h)
        · cases h
        · cases h
        · cases h
      · cases h
      · cases h
      · cases h

theorem kkc_miniChainSetLen {p p' : P} {ids ids' : List Nat} {n : Nat}
    (h : miniChainSetLen p ids n = .ok (p', ids')) : KKC p p' := by
  unfold miniChainSetLen at h
  dsimp only at h
  split at h
  · split at h
    · obtain ⟨q, hf, h⟩ := obind_ok h
      cases h; exact kkc_freeMiniChain _ hf
    · cases h; exact KKC.refl _
  · split at h
    · split at h
      · split at h
        · obtain ⟨q, hf, h⟩ := obind_ok h
          cases h; exact kkc_freeMiniChainAfter hf
        · cases h
      · cases h; exact KKC.refl _
    · exact kkc_miniChainGrow _ h

end CfbVerif.Phys/-! ## the stream operations (as in NoShare, for `NC`) -/
namespace CfbVerif.Phys
open CfbVerif.Raw

structure JC (p : P) (L : Nat → Nat) : Prop where
  inv : Inv p
  nc : NC p.fat (heads p L)
  keys : (p.starts.map (·.1)).Nodup

theorem ownOf_setStart_eq (p : P) (L : Nat → Nat) (s : Nat) (ids : List Nat) (hc : CUTOFF ≤ L s)
    (hreg : ∀ x ∈ hdl ids, x ≤ MAXREG) : ownOf (setStart p s (ids.head?.getD END)).starts L s = hdl ids := by
  cases ids with
  | nil => exact ownOf_noStart L (startIn_setStart _ _ _)
  | cons a r =>
    have ha : a ≤ MAXREG := hreg a (by simp [hdl])
    have hne : a ≠ END := by have := MAXREG_lt_END; omega
    have hst : startIn (setStart p s ((a :: r).head?.getD END)).starts s = a := startIn_setStart _ _ _
    rw [ownOf_reg hc (by rw [hst]; exact hne), hst]
    rfl

/-- the common shape of every stream-level step on slot `s`; the new owner list is what the
operation produced, given that those are regular sector numbers (which `NC` tells) -/
theorem jc_step {p p' : P} {L L' : Nat → Nat} {s : Nat} {b : List Nat} (j : JC p L)
    (hL : ∀ t, t ≠ s → L' t = L t)
    (hk : KeepsC p p' (cont p ++ ownOf p.starts L s) (cont p' ++ b))
    (heq : (∀ x ∈ b, x ≤ MAXREG) → ownOf p'.starts L' s = b)
    (ho : others p'.starts s = others p.starts s)
    (hkeys : (p'.starts.map (·.1)).Nodup)
    (hb : p'.fat.size ≤ MAXREG + 1) : JC p' L' := by
  refine ⟨hk.good.inv j.inv (small_of_bound hb), ?_, hkeys⟩
  have n0 : NC p.fat ((cont p ++ ownOf p.starts L s) ++ regs (others p.starts s) L) := by
    refine j.nc.perm ?_
    unfold heads
    rw [List.append_assoc]
    exact (regs_split p.starts L s j.keys).append_left _
  have n1 := hk.keep hb j.inv _ n0
  have hreg : ∀ x ∈ b, x ≤ MAXREG := fun x hx =>
    n1.ns.head_reg (List.mem_append_left _ (List.mem_append_right _ hx))
  have n2 : NC p'.fat ((cont p' ++ ownOf p'.starts L' s) ++ regs (others p'.starts s) L') := by
    rw [ho, regs_others_congr _ hL, heq hreg]
    exact n1
  refine n2.perm ?_
  unfold heads
  rw [List.append_assoc]
  exact ((regs_split p'.starts L' s hkeys).append_left _).symm

/-- a `KK` step followed by `setStart`, as a `Keeps` in the shape `jc_step` wants -/
theorem kc_kkc_setStart {p q : P} (k : KKC p q) (s st : Nat) :
    KeepsC p (setStart q s st) (cont p ++ []) (cont (setStart q s st) ++ []) := by
  rw [List.append_nil, List.append_nil, cont_setStart]
  exact k.k.trans (KeepsC.of_same (same_setStart _ _ _) _)

theorem jc_writeData {p p' : P} {L : Nat → Nat} {slot off n : Nat} {buf : Bytes}
    (h : writeData p slot (L slot) off buf = .ok (p', n)) (j : JC p L) (hb : p'.fat.size ≤ MAXREG + 1) :
    JC p' (upd L slot n) := by
  unfold writeData at h
  dsimp only [bind, pure] at h
  split at h
  · rename_i hend
    have hown : ownOf p.starts L slot = [] := ownOf_noStart L hend
    split at h
    · cases h
    · split at h
      · rename_i hsmall
        obtain ⟨⟨q, ids⟩, hw, h⟩ := obind_ok h
        cases h
        have kk := kkc_miniChainWrite _ hw
        refine jc_step (b := []) j (upd_other _ _ _) (by rw [hown]; exact kc_kkc_setStart kk _ _) ?_ ?_ ?_ hb
        · intro _; exact ownOf_small _ (by rw [upd_self]; exact hsmall)
        · rw [others_setStart, kk.starts]
        · exact keys_setStart _ _ (by rw [kk.starts]; exact j.keys)
      · rename_i hbig
        obtain ⟨⟨q, ids⟩, hw, h⟩ := obind_ok h
        cases h
        have k := kc_chainWrite _ _ hw
        refine jc_step (b := hdl ids) j (upd_other _ _ _) ?_
          (fun hreg => ownOf_setStart_eq _ _ _ _ (by rw [upd_self]; exact Nat.le_of_not_lt hbig) hreg) ?_ ?_ hb
        · rw [hown, cont_setStart, cont_of_sf k.2]
          have := (k.1.frame (cont p)).trans (KeepsC.of_same (same_setStart q slot (ids.head?.getD END)) _)
          simpa [hdl] using this
        · rw [others_setStart, k.2.2.2.2]
        · exact keys_setStart _ _ (by rw [k.2.2.2.2]; exact j.keys)
  · rename_i hstart
    split at h
    · rename_i hsmallOld
      have hown : ownOf p.starts L slot = [] := ownOf_small _ hsmallOld
      split at h
      · rename_i hsmall
        obtain ⟨ids, hi, h⟩ := obind_ok h
        split at h
        · cases h
        · obtain ⟨⟨q, ids'⟩, hw, h⟩ := obind_ok h
          cases h
          have kk := kkc_miniChainWrite _ hw
          refine jc_step (b := []) j (upd_other _ _ _) (by rw [hown]; simpa using kk.k) ?_ ?_ ?_ hb
          · intro _; exact ownOf_small _ (by rw [upd_self]; exact hsmall)
          · rw [kk.starts]
          · rw [kk.starts]; exact j.keys
      · rename_i hbig
        obtain ⟨ids, hi, h⟩ := obind_ok h
        obtain ⟨tmp, hr, h⟩ := obind_ok h
        obtain ⟨q1, hf, h⟩ := obind_ok h
        obtain ⟨⟨q2, ids1⟩, hw1, h⟩ := obind_ok h
        obtain ⟨⟨q3, ids2⟩, hw2, h⟩ := obind_ok h
        cases h
        have kk := kkc_freeMiniChainFrom hf
        have k1 := kc_chainWrite _ _ hw1
        have k2 := kc_chainWrite _ _ hw2
        refine jc_step (b := hdl ids2) j (upd_other _ _ _) ?_
          (fun hreg => ownOf_setStart_eq _ _ _ _ (by rw [upd_self]; exact Nat.le_of_not_lt hbig) hreg) ?_ ?_ hb
        · rw [hown, cont_setStart, cont_of_sf k2.2, cont_of_sf k1.2]
          have e1 : KeepsC p q1 (cont p ++ []) (cont q1 ++ []) := by simpa using kk.k
          have e2 : KeepsC q1 q2 (cont q1 ++ []) (cont q1 ++ hdl ids1) := by simpa [hdl] using k1.1.frame (cont q1)
          have e3 := k2.1.frame (cont q1)
          exact ((e1.trans e2).trans e3).trans (KeepsC.of_same (same_setStart q3 slot (ids2.head?.getD END)) _)
        · rw [others_setStart, k2.2.2.2.2, k1.2.2.2.2, kk.starts]
        · exact keys_setStart _ _ (by rw [k2.2.2.2.2, k1.2.2.2.2, kk.starts]; exact j.keys)
    · rename_i hbig
      obtain ⟨ids, hi, h⟩ := obind_ok h
      split at h
      · cases h
      · obtain ⟨⟨q, ids'⟩, hw, h⟩ := obind_ok h
        cases h
        have k := kc_chainWrite _ _ hw
        have hhead : hdl ids = [startOf p slot] := chainIds_head hi hstart
        have hne : ids ≠ [] := by intro he; subst he; simp [hdl] at hhead
        have hhead' : hdl ids' = [startOf p slot] := by rw [hdl_of_prefix hne (chainWrite_prefix _ _ hw)]; exact hhead
        have hown : ownOf p.starts L slot = [startOf p slot] := ownOf_reg (Nat.le_of_not_lt hbig) hstart
        refine jc_step (b := [startOf p slot]) j (upd_other _ _ _) ?_ ?_ ?_ ?_ hb
        · rw [hown, cont_of_sf k.2]
          have := k.1.frame (cont p)
          rw [hhead, hhead'] at this
          exact this
        · intro _
          rw [k.2.2.2.2]
          exact ownOf_reg (by rw [upd_self]; have := Nat.le_of_not_lt hbig; omega) hstart
        · rw [k.2.2.2.2]
        · rw [k.2.2.2.2]; exact j.keys

end CfbVerif.Phys

namespace CfbVerif.Phys
open CfbVerif.Raw

theorem jc_resize {p p' : P} {L : Nat → Nat} {slot newLen : Nat}
    (h : resize p slot (L slot) newLen = .ok p') (j : JC p L) (hb : p'.fat.size ≤ MAXREG + 1) :
    JC p' (upd L slot newLen) := by
  unfold resize at h
  dsimp only [bind, pure] at h
  split at h
  · rename_i hend
    have hown : ownOf p.starts L slot = [] := ownOf_noStart L hend
    split at h
    · cases h
    · split at h
      · rename_i hsmall
        obtain ⟨⟨q, ids⟩, hw, h⟩ := obind_ok h
        cases h
        have kk := kkc_miniChainSetLen hw
        refine jc_step (b := []) j (upd_other _ _ _) (by rw [hown]; exact kc_kkc_setStart kk _ _) ?_ ?_ ?_ hb
        · intro _; exact ownOf_small _ (by rw [upd_self]; exact hsmall)
        · rw [others_setStart, kk.starts]
        · exact keys_setStart _ _ (by rw [kk.starts]; exact j.keys)
      · rename_i hbig
        obtain ⟨⟨q, ids⟩, hw, h⟩ := obind_ok h
        cases h
        have hpos : 0 < newLen := by have := CUTOFF_pos; omega
        have k := kc_chainSetLen hpos hw
        refine jc_step (b := hdl ids) j (upd_other _ _ _) ?_ (fun hreg => ownOf_setStart_eq _ _ _ _ (by rw [upd_self]; exact Nat.le_of_not_lt hbig) hreg) ?_ ?_ hb
        · rw [hown, cont_setStart, cont_of_sf k.2]
          have := (k.1.frame (cont p)).trans (KeepsC.of_same (same_setStart q slot (ids.head?.getD END)) _)
          simpa [hdl] using this
        · rw [others_setStart, k.2.2.2.2]
        · exact keys_setStart _ _ (by rw [k.2.2.2.2]; exact j.keys)
  · rename_i hstart
    split at h
    · rename_i hsmallOld
      have hown : ownOf p.starts L slot = [] := ownOf_small _ hsmallOld
      split at h
      · obtain ⟨q, hf, h⟩ := obind_ok h
        cases h
        have kk := kkc_freeMiniChainFrom hf
        refine jc_step (b := []) j (upd_other _ _ _) (by rw [hown]; exact kc_kkc_setStart kk _ _) ?_ ?_ ?_ hb
        · intro _; exact ownOf_noStart _ (startIn_setStart _ _ _)
        · rw [others_setStart, kk.starts]
        · exact keys_setStart _ _ (by rw [kk.starts]; exact j.keys)
      · split at h
        · rename_i hsmall
          obtain ⟨ids, hi, h⟩ := obind_ok h
          obtain ⟨⟨q, ids'⟩, hs, h⟩ := obind_ok h
          have kk1 := kkc_miniChainSetLen hs
          have fin : ∀ {q2 : P}, KKC p q2 → q2 = p' → JC p' (upd L slot newLen) := by
            intro q2 kk e
            subst e
            refine jc_step (b := []) j (upd_other _ _ _) (by rw [hown]; simpa using kk.k) ?_ ?_ ?_ hb
            · intro _; exact ownOf_small _ (by rw [upd_self]; exact hsmall)
            · rw [kk.starts]
            · rw [kk.starts]; exact j.keys
          split at h
          · split at h
            · cases h
            · obtain ⟨⟨q2, ids2⟩, hw, h⟩ := obind_ok h
              cases h
              exact fin (kk1.trans (kkc_miniChainWrite _ hw)) rfl
          · cases h; exact fin kk1 rfl
        · rename_i hbig
          obtain ⟨ids, hi, h⟩ := obind_ok h
          obtain ⟨tmp, hr, h⟩ := obind_ok h
          obtain ⟨q1, hf, h⟩ := obind_ok h
          obtain ⟨⟨q2, ids1⟩, hw1, h⟩ := obind_ok h
          obtain ⟨⟨q3, ids2⟩, hs, h⟩ := obind_ok h
          cases h
          have hpos : 0 < newLen := by have := CUTOFF_pos; omega
          have kk := kkc_freeMiniChainFrom hf
          have k1 := kc_chainWrite _ _ hw1
          have k2 := kc_chainSetLen hpos hs
          refine jc_step (b := hdl ids2) j (upd_other _ _ _) ?_ (fun hreg => ownOf_setStart_eq _ _ _ _ (by rw [upd_self]; exact Nat.le_of_not_lt hbig) hreg) ?_ ?_ hb
          · rw [hown, cont_setStart, cont_of_sf k2.2, cont_of_sf k1.2]
            have e1 : KeepsC p q1 (cont p ++ []) (cont q1 ++ []) := by simpa using kk.k
            have e2 : KeepsC q1 q2 (cont q1 ++ []) (cont q1 ++ hdl ids1) := by simpa [hdl] using k1.1.frame (cont q1)
            have e3 := k2.1.frame (cont q1)
            exact ((e1.trans e2).trans e3).trans (KeepsC.of_same (same_setStart q3 slot (ids2.head?.getD END)) _)
          · rw [others_setStart, k2.2.2.2.2, k1.2.2.2.2, kk.starts]
          · exact keys_setStart _ _ (by rw [k2.2.2.2.2, k1.2.2.2.2, kk.starts]; exact j.keys)
    · rename_i hbigOld
      have hown : ownOf p.starts L slot = [startOf p slot] := ownOf_reg (Nat.le_of_not_lt hbigOld) hstart
      have hhd : hd1 (startOf p slot) = [startOf p slot] := by unfold hd1; rw [if_neg hstart]
      split at h
      · obtain ⟨q, hf, h⟩ := obind_ok h
        cases h
        have k := kc_freeChainFrom hf
        have sf := sf_freeChain _ hf
        refine jc_step (b := []) j (upd_other _ _ _) ?_ ?_ ?_ ?_ hb
        · rw [hown, cont_setStart, cont_of_sf sf]
          have := (k.frame (cont p)).trans (KeepsC.of_same (same_setStart q slot END) _)
          rw [hhd] at this
          exact this
        · intro _; exact ownOf_noStart _ (startIn_setStart _ _ _)
        · rw [others_setStart, sf.2.2.2]
        · exact keys_setStart _ _ (by rw [sf.2.2.2]; exact j.keys)
      · split at h
        · rename_i hsmall
          obtain ⟨ids, hi, h⟩ := obind_ok h
          obtain ⟨tmp, hr, h⟩ := obind_ok h
          obtain ⟨q1, hf, h⟩ := obind_ok h
          obtain ⟨⟨q2, ids1⟩, hw, h⟩ := obind_ok h
          cases h
          have k := kc_freeChainFrom hf
          have sf := sf_freeChain _ hf
          have kk := kkc_miniChainWrite _ hw
          refine jc_step (b := []) j (upd_other _ _ _) ?_ ?_ ?_ ?_ hb
          · rw [hown, cont_setStart]
            have e1 := k.frame (cont p)
            rw [hhd, ← cont_of_sf sf] at e1
            have e2 : KeepsC q1 q2 (cont q1 ++ []) (cont q2 ++ []) := by simpa using kk.k
            rw [← cont_of_sf sf]
            exact (e1.trans e2).trans (KeepsC.of_same (same_setStart q2 slot (ids1.head?.getD END)) _)
          · intro _; exact ownOf_small _ (by rw [upd_self]; exact hsmall)
          · rw [others_setStart, kk.starts, sf.2.2.2]
          · exact keys_setStart _ _ (by rw [kk.starts, sf.2.2.2]; exact j.keys)
        · rename_i hbig
          obtain ⟨ids, hi, h⟩ := obind_ok h
          obtain ⟨⟨q, ids'⟩, hs, h⟩ := obind_ok h
          have hpos : 0 < newLen := by have := CUTOFF_pos; omega
          have k1 := kc_chainSetLen hpos hs
          have hhead : hdl ids = [startOf p slot] := chainIds_head hi hstart
          have hne : ids ≠ [] := by intro he; subst he; simp [hdl] at hhead
          have hhead' : hdl ids' = [startOf p slot] := by rw [hdl_of_prefix hne (chainSetLen_prefix hs)]; exact hhead
          have hne' : ids' ≠ [] := by intro he; subst he; simp [hdl] at hhead'
          have fin : ∀ {q2 : P}, KeepsC p q2 (cont p ++ [startOf p slot]) (cont p ++ [startOf p slot]) → SF p q2 → q2 = p' →
              JC p' (upd L slot newLen) := by
            intro q2 k sf e
            subst e
            refine jc_step (b := [startOf p slot]) j (upd_other _ _ _) ?_ ?_ ?_ ?_ hb
            · rw [hown, cont_of_sf sf]; exact k
            · intro _
              rw [sf.2.2.2]
              exact ownOf_reg (by rw [upd_self]; exact Nat.le_of_not_lt hbig) hstart
            · rw [sf.2.2.2]
            · rw [sf.2.2.2]; exact j.keys
          have e1 : KeepsC p q (cont p ++ [startOf p slot]) (cont p ++ [startOf p slot]) := by
            have := k1.1.frame (cont p)
            rw [hhead, hhead'] at this
            exact this
          split at h
          · split at h
            · cases h
            · obtain ⟨⟨q2, ids2⟩, hw, h⟩ := obind_ok h
              cases h
              have k2 := kc_chainWrite _ _ hw
              have hhead2 : hdl ids2 = [startOf p slot] := by rw [hdl_of_prefix hne' (chainWrite_prefix _ _ hw)]; exact hhead'
              have e2 : KeepsC q q2 (cont p ++ [startOf p slot]) (cont p ++ [startOf p slot]) := by
                have := k2.1.frame (cont p)
                rw [hhead', hhead2] at this
                exact this
              exact fin (e1.trans e2) (k1.2.trans k2.2) rfl
          · cases h; exact fin e1 k1.2 rfl

theorem jc_freeStream {p p' : P} {L : Nat → Nat} {slot : Nat}
    (h : freeStream p slot (L slot) = .ok p') (j : JC p L) (hb : p'.fat.size ≤ MAXREG + 1) :
    JC p' (upd L slot 0) := by
  unfold freeStream at h
  dsimp only [bind, pure] at h
  have hown' : ∀ st : List (Nat × Nat), (∀ x ∈ ([] : List Nat), x ≤ MAXREG) → ownOf st (upd L slot 0) slot = [] := by
    intro st _
    exact ownOf_small _ (by rw [upd_self]; exact CUTOFF_pos)
  split at h
  · rename_i hsmall
    obtain ⟨q, hf, h⟩ := obind_ok h
    cases h
    have kk := kkc_freeMiniChainFrom hf
    refine jc_step (b := []) j (upd_other _ _ _) ?_ (hown' _) ?_ ?_ hb
    · rw [ownOf_small _ hsmall]
      have : cont (dropStart q slot) = cont q := rfl
      rw [this]
      have e : KeepsC p q (cont p ++ []) (cont q ++ []) := by simpa using kk.k
      exact e.trans (KeepsC.of_same (same_dropStart _ _) _)
    · rw [others_dropStart, kk.starts]
    · show ((others q.starts slot).map (·.1)).Nodup
      rw [kk.starts]; exact (keys_others slot j.keys).1
  · rename_i hbig
    obtain ⟨q, hf, h⟩ := obind_ok h
    cases h
    have k := kc_freeChainFrom hf
    have sf := sf_freeChain _ hf
    refine jc_step (b := []) j (upd_other _ _ _) ?_ (hown' _) ?_ ?_ hb
    · have : cont (dropStart q slot) = cont p := by
        show cont q = cont p
        exact cont_of_sf sf
      rw [this]
      have e := (k.frame (cont p)).trans (KeepsC.of_same (same_dropStart q slot) _)
      have hown : ownOf p.starts L slot = hd1 (startOf p slot) := by
        unfold ownOf hd1
        have hc : CUTOFF ≤ L slot := Nat.le_of_not_lt hbig
        by_cases he : startIn p.starts slot = END
        · have he' : startOf p slot = END := he
          simp [he, he']
        · have he' : ¬ startOf p slot = END := he
          simp [hc, he, he']
          rfl
      rw [hown]
      exact e
    · rw [others_dropStart, sf.2.2.2]
    · show ((others q.starts slot).map (·.1)).Nodup
      rw [sf.2.2.2]; exact (keys_others slot j.keys).1

/-- operations that keep every head and touch no start field -/
theorem jc_of_keeps_sf {p p' : P} {L : Nat → Nat} (k : ∀ a, KeepsC p p' a a) (sf : SF p p') (j : JC p L)
    (hb : p'.fat.size ≤ MAXREG + 1) : JC p' L := by
  refine ⟨(k []).good.inv j.inv (small_of_bound hb), ?_, by rw [sf.2.2.2]; exact j.keys⟩
  have : heads p' L = heads p L := by unfold heads; rw [cont_of_sf sf, sf.2.2.2]
  rw [this]
  simpa using (k (heads p L)).keep hb j.inv [] (by simpa using j.nc)

theorem jc_ensureDirSlot {p p' : P} {L : Nat → Nat} {slot : Nat} (h : ensureDirSlot p slot = .ok p') (j : JC p L)
    (hb : p'.fat.size ≤ MAXREG + 1) : JC p' L := by
  unfold ensureDirSlot at h
  split at h
  · cases h; exact j
  · split at h
    · split at h
      · rename_i q id he
        cases h
        have hs : SameAlloc q { q with dirLen := q.dirLen + 1 } := ⟨rfl, rfl, rfl, rfl⟩
        have hf : SF q { q with dirLen := q.dirLen + 1 } := ⟨rfl, rfl, rfl, rfl⟩
        exact jc_of_keeps_sf (fun a => (kc_extendChain he a).trans (KeepsC.of_same hs a)) ((sf_extendChain he).trans hf) j hb
      · cases h
      · cases h
      · cases h
    · cases h
      have hs : SameAlloc p { p with dirLen := p.dirLen + 1 } := ⟨rfl, rfl, rfl, rfl⟩
      have hf : SF p { p with dirLen := p.dirLen + 1 } := ⟨rfl, rfl, rfl, rfl⟩
      exact jc_of_keeps_sf (fun a => KeepsC.of_same hs a) hf j hb

theorem jc_reopen {p p' : P} {L : Nat → Nat} (h : Phys.reopen p = .ok p') (j : JC p L) : JC p' L := by
  have inv' := inv_reopen j.inv h
  unfold Phys.reopen at h
  obtain ⟨chain, hc, h⟩ := bind_ok h
  cases h
  exact ⟨inv', j.nc, j.keys⟩

/-- registering a new, empty stream in a slot that has no chain -/
theorem jc_create {p : P} {L : Nat → Nat} {slot : Nat} (hfree : startOf p slot = END) (j : JC p L) :
    JC (setStart p slot END) (upd L slot 0) := by
  have hb : (setStart p slot END).fat.size ≤ MAXREG + 1 := j.nc.ns.bound
  refine jc_step (b := []) j (upd_other _ _ _) ?_ ?_ (others_setStart _ _ _) (keys_setStart _ _ j.keys) hb
  · rw [ownOf_noStart L hfree, cont_setStart]
    exact KeepsC.of_same (same_setStart _ _ _) _
  · intro _; exact ownOf_small _ (by rw [upd_self]; exact CUTOFF_pos)

end CfbVerif.Phys

/-! ## the store machine: every history of stream-level operations -/
namespace CfbVerif.Phys
open CfbVerif.Raw

theorem jc_init (v4 : Bool) : JC (Phys.create v4) (fun _ => 0) := by
  have j := jj_init v4
  have hfat : (Phys.create v4).fat = #[FATSECT, END] := rfl
  have hheads : heads (Phys.create v4) (fun _ => 0) = [1] := by
    simp [heads, cont, regs, Phys.create, hd1]
  refine ⟨j.inv, ⟨j.ns, ?_, ?_⟩, j.keys⟩
  · rw [hheads, hfat]
    intro h hh
    simp only [List.mem_singleton] at hh
    subst hh
    exact ⟨[1], IsChain.last (by simp)⟩
  · rw [hheads, hfat]
    intro x w hx hw
    rcases x with _ | _ | x
    · have : w = FATSECT := by simpa using hx.symm
      subst this
      rcases hw with he | hr
      · exact absurd he (by decide)
      · exact absurd hr (Nat.not_le.mpr MAXREG_lt_FATSECT)
    · exact ⟨1, by simp, [1], IsChain.last (by simp), by simp⟩
    · simp at hx

theorem jc_gstep {g g' : G} {op : GOp} (h : gstep g op = .ok g') (j : JC g.p g.L)
    (hb : g'.p.fat.size ≤ MAXREG + 1) : JC g'.p g'.L := by
  cases op with
  | ensure s => obtain ⟨q, hq, h⟩ := obind_ok h; cases h; exact jc_ensureDirSlot hq j hb
  | create s =>
    simp only [gstep] at h
    split at h
    · rename_i hfree; cases h; exact jc_create hfree j
    · cases h
  | write s off bs => obtain ⟨r, hq, h⟩ := obind_ok h; cases h; exact jc_writeData hq j hb
  | resize s n => obtain ⟨q, hq, h⟩ := obind_ok h; cases h; exact jc_resize hq j hb
  | free s => obtain ⟨q, hq, h⟩ := obind_ok h; cases h; exact jc_freeStream hq j hb
  | reopen => obtain ⟨q, hq, h⟩ := obind_ok h; cases h; exact jc_reopen hq j

theorem jc_grun (ops : List GOp) : ∀ g : G, JC g.p g.L → (grun g ops).p.fat.size ≤ MAXREG + 1 →
    JC (grun g ops).p (grun g ops).L := by
  induction ops with
  | nil => intro g j _; exact j
  | cons op rest ih =>
    intro g j hb
    simp only [grun] at hb ⊢
    cases hs : gstep g op with
    | ok g' =>
      simp only [hs] at hb ⊢
      exact ih g' (jc_gstep hs j (Nat.le_trans (grun_mono rest g') hb)) hb
    | err k => simp only [hs] at hb ⊢; exact ih g j hb
    | panic s => simp only [hs] at hb ⊢; exact ih g j hb
    | hang s => simp only [hs] at hb ⊢; exact ih g j hb

/-- **every sector in use is owned exactly once**: after every history of stream-level operations
on a fresh file (within the format's range of sector numbers) the FAT has no sharing (`NSH`), every
owner — directory, MiniFAT, mini stream, every stream of at least 4096 bytes — has a chain that ends
at an END cell (`CH`), and every cell that says END or holds a pointer lies on one of these chains
(`Cover`): nothing leaks, nothing is shared -/
theorem noLeak_reachable (v4 : Bool) (ops : List GOp) :
    let g := grun { p := Phys.create v4, L := fun _ => 0 } ops
    g.p.fat.size ≤ MAXREG + 1 → JC g.p g.L :=
  fun hb => jc_grun ops _ (jc_init v4) hb

end CfbVerif.Phys