import CfbVerif.Phys.Alloc
/-! # Where the zeros of a grown stream come from (C08) -/
namespace CfbVerif.Phys
open CfbVerif.Raw

/-- every sector that `init_sector` touches — new at the end of the file, or reused from the free
list — holds zeros afterwards, whatever a freed stream left in it -/
theorem initSector_zero {p p' : P} {id : Nat} {k : Init} (hs : p.sectors.size = p.numSectors)
    (h : initSector p id k = .ok p') :
    p'.sectors[id]? = some (zeroSector p.S) ∧ p'.sectors.size = p'.numSectors := by
  rcases initSector_ok h with ⟨he, hp⟩ | ⟨hl, hp⟩
  · subst hp
    simp [he, ← hs]
  · subst hp
    simp [hs, hl]

/-- a sector taken from the free list is zeroed before it is handed out -/
theorem allocateSector_reuse_zero {p p' : P} {id : Nat} (inv : FatInv p)
    (hfree : p.free ≠ []) (h : allocateSector p .zero = .ok (p', id)) :
    p'.sectors[id]? = some (zeroSector p.S) := by
  unfold allocateSector at h
  cases hl : p.free.getLast? with
  | none => exact absurd (List.getLast?_eq_none_iff.mp hl) hfree
  | some x =>
    simp only [hl] at h
    cases h1 : setFat { p with free := p.free.dropLast } x END with
    | err e => simp [h1, bind, Outcome.bind] at h
    | panic s => simp [h1, bind, Outcome.bind] at h
    | hang s => simp [h1, bind, Outcome.bind] at h
    | ok p1 =>
      simp only [h1, bind, Outcome.bind] at h
      cases h2 : initSector p1 x .zero with
      | err e => simp [h2] at h
      | panic s => simp [h2] at h
      | hang s => simp [h2] at h
      | ok p2 =>
        simp only [h2, pure] at h
        have hp1 : p1.sectors = p.sectors ∧ p1.numSectors = p.numSectors ∧ p1.v4 = p.v4 := by
          rcases setFat_ok h1 with ⟨_, he⟩ | ⟨_, he⟩ <;> subst he <;> exact ⟨rfl, rfl, rfl⟩
        have := initSector_zero (by rw [hp1.1, hp1.2.1]; exact inv.secs) h2
        cases h
        have hS : p1.S = p.S := by unfold P.S; rw [hp1.2.2]
        rw [← hS]; exact this.1

/-- `zero_old_tail`: a byte position of the grown region either lies in the range that is
explicitly overwritten with zeros (the rest of the old last sector), or in a sector beyond all
sectors the old length occupied — a sector the growth has just allocated (and zeroed). -/
theorem zeroTail_covers (old new unit i : Nat) (hu : 0 < unit) (h1 : old ≤ i) (h2 : i < new) :
    (∃ a n, zeroTailRange old new unit = some (a, n) ∧ a ≤ i ∧ i < a + n) ∨
    ((unit + old - 1) / unit * unit ≤ i) := by
  have hdm := Nat.div_add_mod old unit
  have hr := Nat.mod_lt old hu
  generalize hq : old / unit = q at hdm
  generalize hrr : old % unit = r at hdm hr
  by_cases hz : r = 0
  · right
    subst hz
    have : unit + old - 1 = (unit - 1) + unit * q := by omega
    rw [this, Nat.add_mul_div_left _ _ hu, Nat.div_eq_of_lt (by omega)]
    simp only [Nat.zero_add]
    rw [Nat.mul_comm]; omega
  · have hR : (unit + old - 1) / unit = q + 1 := by
      have : unit + old - 1 = (r - 1) + unit * (q + 1) := by
        rw [Nat.mul_add]; omega
      rw [this, Nat.add_mul_div_left _ _ hu, Nat.div_eq_of_lt (by omega)]
      omega
    by_cases hi : i < (q + 1) * unit
    · left
      refine ⟨old, min new ((old + unit - 1) / unit * unit) - old, ?_, h1, ?_⟩
      · unfold zeroTailRange
        rw [if_pos ⟨by omega, by rw [hrr]; exact hz⟩]
      · have : (old + unit - 1) / unit = q + 1 := by rw [Nat.add_comm old unit]; exact hR
        rw [this]
        omega
    · right
      rw [hR]; omega

end CfbVerif.Phys
