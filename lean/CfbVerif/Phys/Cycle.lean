import CfbVerif.Phys.ChainLen
/-!
# A regular stream's sectors come back: free-list accounting for C15

* `freeChain_appends`: freeing a chain puts exactly the chain's sectors on the free list (in chain
  order) and leaves the file's length alone;
* `growOne_reuse` / `chainGrow_reuse`: growing a chain by `k` sectors while the free list holds at
  least `k` takes them all from the free list — the file's length does not change;
* `resize_fresh_reuse`: hence `set_len(n)` (`n ≥ 4096`) on an empty stream does not grow the file
  when the free list holds `⌈n / S⌉` sectors.
`Props/C15.lean` combines them with `RegLen` (every stream of at least 4096 bytes has exactly
`⌈len / S⌉` sectors, for every reachable state) into the cycle theorem.
-/
namespace CfbVerif.Phys
open CfbVerif.Raw

/-- freeing a chain appends exactly its sectors to the free list -/
theorem freeChain_appends (l : List Nat) : ∀ (a : Nat) (p p' : P) (fuel : Nat), IsChain p.fat a l → l.Nodup →
    p.fat.size ≤ MAXREG + 1 → freeChain p fuel a = .ok p' →
    p'.free = p.free ++ l ∧ p'.numSectors = p.numSectors := by
  induction l with
  | nil => intro a p p' fuel c; cases c
  | cons x rest ih =>
    intro a p p' fuel c nd hb h
    have hax : x = a := by obtain ⟨t, ht⟩ := c.head; cases ht; rfl
    subst hax
    obtain ⟨w, hw, _⟩ := c.used x (by simp)
    have hlt : x < p.fat.size := lt_of_get hw
    have hne : x ≠ END := by have := MAXREG_lt_END; omega
    cases fuel with
    | zero => simp [freeChain] at h
    | succ fuel =>
      unfold freeChain at h
      rw [if_neg hne] at h
      cases hn : nextSector p.fat x with
      | error k => simp [hn] at h
      | ok next =>
        simp only [hn] at h
        split at h
        · cases h
        · cases h1 : setFat p x FREE with
          | err e => simp [h1] at h
          | panic s => simp [h1] at h
          | hang s => simp [h1] at h
          | ok p1 =>
            simp only [h1] at h
            have hp1 : p1 = { p with fat := p.fat.setIfInBounds x FREE } := by
              rcases setFat_ok h1 with ⟨he, _⟩ | ⟨_, he⟩
              · omega
              · exact he
            subst hp1
            have hnx := nextSector_ok hn
            cases c with
            | last he =>
              -- the chain ends here: `next = END`
              have hnext : next = END := by
                have := hnx.2.1
                rw [he] at this
                exact (Option.some.inj this).symm
              subst hnext
              cases fuel with
              | zero => simp [freeChain] at h
              | succ f2 =>
                unfold freeChain at h
                rw [if_pos rfl] at h
                cases h
                exact ⟨rfl, rfl⟩
            | @cons _ b _ hab hbr crest =>
              have hnext : next = b := by
                have := hnx.2.1
                rw [hab] at this
                exact (Option.some.inj this).symm
              subst hnext
              have ndr := (List.nodup_cons.mp nd).2
              have hxr : x ∉ rest := (List.nodup_cons.mp nd).1
              have c' : IsChain ({ p with fat := p.fat.setIfInBounds x FREE, free := p.free ++ [x] } : P).fat next rest :=
                IsChain.frame crest (by
                  intro y hy
                  show (p.fat.setIfInBounds x FREE)[y]? = p.fat[y]?
                  have hxy : ¬ x = y := fun e => hxr (e ▸ hy)
                  simp [Array.getElem?_setIfInBounds, hxy])
              have := ih next _ p' fuel c' ndr (by simpa using hb) h
              refine ⟨?_, this.2⟩
              rw [this.1]
              simp [List.append_assoc]

/-- one more sector for a chain while the free list is not empty: taken from the free list -/
theorem growOne_reuse {kind : Init} {p p' : P} {ids ids' : List Nat} (inv : FatInv p) (hfree : p.free ≠ [])
    (h : growOne kind p ids = .ok (p', ids')) :
    p'.numSectors = p.numSectors ∧ p'.free.length + 1 = p.free.length ∧ FatInv p' ∧ ids'.length = ids.length + 1 := by
  have hlen : ∀ (l : List Nat), l ≠ [] → l.dropLast.length + 1 = l.length := by
    intro l hl; rw [List.length_dropLast]; have := List.length_pos_iff.mpr hl; omega
  unfold growOne at h
  split at h
  · rename_i last _
    split at h
    · rename_i p1 id he
      cases h
      unfold extendChain at he
      obtain ⟨lst, hl, he⟩ := bind_ok he
      obtain ⟨⟨q, id1⟩, ha, he⟩ := bind_ok he
      obtain ⟨q2, hs, he⟩ := bind_ok he
      have r := allocateSector_reuse inv hfree ha
      have hlast := lastOfChain_ok _ _ hl
      have hq : q.fat = p.fat.setIfInBounds id1 END := r.2.2.2.2.1
      have hlt : lst < q.fat.size := by rw [hq]; simpa using hlast.1
      have hq2 : q2 = { q with fat := q.fat.setIfInBounds lst id1 } := by
        rcases setFat_ok hs with ⟨he', _⟩ | ⟨_, he'⟩
        · omega
        · exact he'
      have hpp : p' = q2 := by cases he; rfl
      rw [hpp, hq2]
      have finv := r.2.2.2.2.2
      refine ⟨r.2.2.1, by rw [show ({ q with fat := q.fat.setIfInBounds lst id1 } : P).free = q.free from rfl, r.2.2.2.1]; exact hlen _ hfree, ?_, by simp⟩
      -- the cell that now links to the new sector said END, so it was not on the free list
      have hlstEnd : q.fat[lst]? = some END := by
        rw [hq, Array.getElem?_setIfInBounds]
        split
        · rename_i e; simp [hlast.1, e]
        · exact hlast.2
      refine ⟨by simpa using finv.size, finv.secs, ?_, finv.freeNodup⟩
      intro i hi
      have hfi := finv.freeFree i hi
      show (q.fat.setIfInBounds lst id1)[i]? = some FREE
      rw [Array.getElem?_setIfInBounds, if_neg]
      · exact hfi
      · intro e
        subst e
        rw [hlstEnd] at hfi
        exact absurd (Option.some.inj hfi) END_ne_FREE
    · cases h
    · cases h
    · cases h
  · split at h
    · rename_i p1 id he
      cases h
      have r := allocateSector_reuse inv hfree he
      exact ⟨r.2.2.1, by rw [r.2.2.2.1]; exact hlen _ hfree, r.2.2.2.2.2, by simp⟩
    · cases h
    · cases h
    · cases h

/-- growing a chain to `target` sectors while the free list holds enough of them -/
theorem chainGrow_reuse (kind : Init) (fuel : Nat) : ∀ {p p' : P} {ids ids' : List Nat} {target : Nat},
    FatInv p → target - ids.length ≤ p.free.length → chainGrow kind fuel p ids target = .ok (p', ids') →
    p'.numSectors = p.numSectors ∧ p'.free.length + (target - ids.length) = p.free.length ∧ FatInv p' := by
  induction fuel with
  | zero => intro p p' ids ids' target _ _ h; simp [chainGrow] at h
  | succ fuel ih =>
    intro p p' ids ids' target inv hlen h
    unfold chainGrow at h
    split at h
    · rename_i hge
      cases h
      exact ⟨rfl, by omega, inv⟩
    · rename_i hlt
      split at h
      · rename_i p1 ids1 hg
        have hne : p.free ≠ [] := by
          intro e; rw [e] at hlen; simp at hlen; omega
        have r := growOne_reuse inv hne hg
        have := ih r.2.2.1 (by omega) h
        exact ⟨by rw [this.1, r.1], by omega, this.2.2⟩
      · cases h
      · cases h
      · cases h

/-- **`set_len(n)` with `n ≥ 4096` on a stream that has no sectors does not grow the file while the
free list holds `⌈n / S⌉` sectors** -/
theorem resize_fresh_reuse {p p' : P} {slot n : Nat} (inv : FatInv p) (hs : startOf p slot = END) (hn : CUTOFF ≤ n)
    (hfree : (p.S + n - 1) / p.S ≤ p.free.length) (h : resize p slot 0 n = .ok p') :
    p'.numSectors = p.numSectors ∧ FatInv p' := by
  unfold resize at h
  simp only [bind, pure] at h
  rw [if_pos hs] at h
  simp only [ne_eq, not_true_eq_false, if_false] at h
  rw [if_neg (by omega)] at h
  obtain ⟨⟨q, ids⟩, hc, h⟩ := obind_ok h
  cases h
  unfold chainSetLen at hc
  dsimp only at hc
  have hpos : (p.S + n - 1) / p.S ≠ 0 := by
    have hS := S_pos p
    have : CUTOFF = 4096 := rfl
    intro he
    have := (Nat.div_eq_zero_iff).mp he
    omega
  rw [if_neg hpos] at hc
  rw [if_neg (by intro hle; exact hpos (Nat.le_zero.mp (by simpa using hle)))] at hc
  have r := chainGrow_reuse .zero _ inv (by simpa using hfree) hc
  refine ⟨r.1, ?_⟩
  have f := r.2.2
  exact ⟨f.size, f.secs, f.freeFree, f.freeNodup⟩

end CfbVerif.Phys
