import CfbVerif.Phys.Render
/-! # Little-endian fields: what `pushLE` appends, `Raw.leN` reads back -/
namespace CfbVerif.Phys
open CfbVerif.Raw


theorem get!_push_lt (b : ByteArray) (x : UInt8) (i : Nat) (h : i < b.size) : (b.push x).get! i = b.get! i := by
  cases b with
  | mk d =>
    show (d.push x)[i]! = d[i]!
    have h' : i < d.size := h
    rw [getElem!_pos (d.push x) i (by simp; omega), getElem!_pos d i h']
    exact Array.getElem_push_lt h'

theorem get!_push_eq (b : ByteArray) (x : UInt8) : (b.push x).get! b.size = x := by
  cases b with
  | mk d =>
    show (d.push x)[d.size]! = x
    rw [getElem!_pos (d.push x) d.size (by simp)]
    exact Array.getElem_push_eq

theorem leN_push_frame (b : ByteArray) (x : UInt8) (w off : Nat) (h : off + w ≤ b.size) :
    leN (b.push x) off w = leN b off w := by
  induction w generalizing off with
  | zero => rfl
  | succ w ih =>
    unfold leN
    have hu : u8 (b.push x) off = u8 b off := by
      unfold u8
      rw [if_pos (by rw [ByteArray.size_push]; omega), if_pos (by omega)]
      rw [get!_push_lt b x off (by omega)]
    rw [hu, ih (off + 1) (by omega)]

theorem leN_pushLE_frame (w : Nat) : ∀ (b : ByteArray) (n w' off : Nat), off + w' ≤ b.size →
    leN (pushLE b w n) off w' = leN b off w' := by
  induction w with
  | zero => intro b n w' off _; rfl
  | succ w ih =>
    intro b n w' off h
    unfold pushLE
    rw [ih _ _ _ _ (by rw [ByteArray.size_push]; omega)]
    exact leN_push_frame b _ w' off h

theorem size_pushLE (w : Nat) : ∀ (b : ByteArray) (n : Nat), (pushLE b w n).size = b.size + w := by
  induction w with
  | zero => intro b n; rfl
  | succ w ih => intro b n; unfold pushLE; rw [ih, ByteArray.size_push]; omega

/-- a `w`-byte little-endian field appended by the renderer is read back by the reader model -/
theorem le_roundtrip (w : Nat) : ∀ (b : ByteArray) (n : Nat),
    leN (pushLE b w n) b.size w = some (n % 256 ^ w) := by
  induction w with
  | zero => intro b n; simp [leN, Nat.mod_one]
  | succ w ih =>
    intro b n
    unfold pushLE leN
    have hsz : (b.push (UInt8.ofNat (n % 256))).size = b.size + 1 := ByteArray.size_push
    have hu : u8 (pushLE (b.push (UInt8.ofNat (n % 256))) w (n / 256)) b.size = some (n % 256) := by
      have hf := leN_pushLE_frame w (b.push (UInt8.ofNat (n % 256))) (n / 256) 1 b.size (by omega)
      have h1 : leN (b.push (UInt8.ofNat (n % 256))) b.size 1 = some (n % 256) := by
        unfold leN leN u8
        rw [if_pos (by omega)]
        rw [get!_push_eq]
        have : (UInt8.ofNat (n % 256)).toNat = n % 256 := by
          simp
        simp [this]
      rw [h1] at hf
      unfold leN leN at hf
      cases hx : u8 (pushLE (b.push (UInt8.ofNat (n % 256))) w (n / 256)) b.size with
      | none => simp [hx] at hf
      | some v => simp [hx] at hf; rw [hf]
    rw [hu]
    have := ih (b.push (UInt8.ofNat (n % 256))) (n / 256)
    rw [hsz] at this
    rw [this]
    simp only [Option.some.injEq]
    rw [Nat.pow_succ, Nat.mul_comm (256 ^ w) 256, Nat.mod_mul]


end CfbVerif.Phys
