import CfbVerif.Raw.Model
/-!
# `Phys`: the allocation level of the writer — sectors, FAT/DIFAT, MiniFAT, mini stream, chains

A table-level port of alloc.rs (`set_fat`, `allocate_sector`, `append_fat_sector`, `extend_chain`,
`free_chain`, `free_chain_after`), sector.rs (`init_sector`), chain.rs (`write`, `set_len`),
minialloc.rs (`allocate_mini_sector`, `append_mini_sector`, `free_mini_sector`, `free_mini_chain*`,
`extend_mini_chain`, `set_minifat`), minichain.rs and the case tables of stream.rs
(`write_data_to_stream`, `resize_stream`, `read_data_from_stream`).

The directory itself is *not* here: names, links, slots and metadata are the `Dir` model; this
level only knows, per directory slot, where the stream starts.  Raw bytes of every sector are kept
(stale contents of freed sectors included), so that the complete file image can be rendered and
compared with the real file byte for byte.

Unchecked indexing in the Rust is a `panic` exit, unbounded loops are fuelled with a `hang` exit
(C11).
-/
namespace CfbVerif.Phys
open CfbVerif.Raw

abbrev Bytes := List UInt8

structure P where
  v4 : Bool
  numSectors : Nat
  sectors : Array ByteArray
  difatSectorIds : List Nat
  difat : List Nat
  fat : Array Nat
  free : List Nat          -- `free_sectors`: pushed at the end, popped from the end
  dirStart : Nat
  dirLen : Nat             -- `dir_entries.len()`
  miniFat : Array Nat      -- in memory: trailing FREE cells trimmed
  miniFatStart : Nat
  freeMini : List Nat
  rootStart : Nat          -- the root entry's start sector: the mini stream
  rootLen : Nat
  starts : List (Nat × Nat)  -- directory slot ↦ start sector of that stream
  /-- the header's transaction signature number (offset 52): written as zero by `create`, never touched
  afterwards, ignored by `open` — a file from a writer with transaction support carries a sequence number -/
  txSig : Nat := 0
deriving Inhabited

def P.S (p : P) : Nat := sectorLenOf p.v4
def P.epsec (p : P) : Nat := p.S / 4
def MINI : Nat := Gen.MINI_SECTOR_LEN
def CUTOFF : Nat := Gen.MINI_STREAM_CUTOFF

inductive Init | zero | fat | difat | dir
deriving Repr, DecidableEq

def zeroSector (n : Nat) : ByteArray := ByteArray.mk (Array.replicate n 0)

/-! ## sectors -/

/-- `Sectors::init_sector` -/
def initSector (p : P) (id : Nat) (_kind : Init) : Outcome P :=
  if id > p.numSectors then bad
  else if id = p.numSectors then
    .ok { p with numSectors := p.numSectors + 1, sectors := p.sectors.push (zeroSector p.S) }
  else
    -- an existing sector (taken from the free list, or beyond the FAT of a longer file) is reset;
    -- table sectors (Fat/Difat/Dir) are rendered from the tables, data sectors are zeroed
    .ok { p with sectors := p.sectors.setIfInBounds id (zeroSector p.S) }

/-- write bytes into sector `id` at `off` (never crossing the sector end) -/
def writeSector (p : P) (id off : Nat) (bs : Bytes) : Outcome P :=
  match p.sectors[id]? with
  | none => bad      -- `seek_within_sector`: sector id ≥ num_sectors
  | some sec =>
    let sec' := (ByteArray.mk bs.toArray).copySlice 0 sec off bs.length
    .ok { p with sectors := p.sectors.setIfInBounds id sec' }

def readSector (p : P) (id off n : Nat) : Outcome Bytes :=
  match p.sectors[id]? with
  | none => bad
  | some sec => .ok ((sec.extract off (off + n)).toList)

/-! ## the FAT -/

/-- `Allocator::set_fat` (with the DIFAT lookup checked) -/
def setFat (p : P) (idx val : Nat) : Outcome P :=
  match p.difat[idx / p.epsec]? with
  | none => bad
  | some _ =>
    if idx = p.fat.size then .ok { p with fat := p.fat.push val }
    else if idx < p.fat.size then .ok { p with fat := p.fat.setIfInBounds idx val }
    else .panic "alloc.rs set_fat: index beyond fat.len()"

/-- `append_fat_sector` -/
def appendFatSector (p : P) : Outcome P := do
  let newFat := p.fat.size
  let p ← initSector p newFat .fat
  let difatIndex := p.difat.length
  let p := { p with difat := p.difat ++ [newFat] }
  let p ← setFat p newFat FATSECT
  if difatIndex < Gen.NUM_DIFAT_ENTRIES_IN_HEADER then pure p
  else
    let per := (p.S - 4) / 4
    let dsi := (difatIndex - Gen.NUM_DIFAT_ENTRIES_IN_HEADER) / per
    if dsi ≥ p.difatSectorIds.length then do
      let newDifat := p.fat.size
      let p ← initSector p newDifat .difat
      let p ← setFat p newDifat DIFSECT
      pure { p with difatSectorIds := p.difatSectorIds ++ [newDifat] }
    else pure p

/-- `allocate_sector` -/
def allocateSector (p : P) (kind : Init) : Outcome (P × Nat) :=
  match p.free.getLast? with
  | some id => do
    let p := { p with free := p.free.dropLast }
    let p ← setFat p id END
    let p ← initSector p id kind
    pure (p, id)
  | none => do
    let p ← if p.fat.size % p.epsec = 0 then appendFatSector p else pure p
    let id := p.fat.size
    let p ← setFat p id END
    let p ← initSector p id kind
    pure (p, id)

/-- walk to the last sector of the chain containing `start` (`extend_chain`, with `next` checked) -/
def lastOfChain (fat : Array Nat) : Nat → Nat → Outcome Nat
  | 0, _ => .hang "extend_chain walk"
  | fuel + 1, cur =>
    match nextSector fat cur with
    | .error k => .err k
    | .ok next => if next = END then .ok cur else lastOfChain fat fuel next

/-- `extend_chain` -/
def extendChain (p : P) (start : Nat) (kind : Init) : Outcome (P × Nat) := do
  let last ← lastOfChain p.fat (p.fat.size + 1) start
  let (p, id) ← allocateSector p kind
  let p ← setFat p last id
  pure (p, id)

/-- `free_chain` -/
def freeChain (p : P) : Nat → Nat → Outcome P
  | 0, _ => .hang "free_chain"
  | fuel + 1, cur =>
    if cur = END then .ok p else
    match nextSector p.fat cur with
    | .error k => .err k
    | .ok next =>
      if p.fat[cur]? = some FREE then .err .invalidInput else
      match setFat p cur FREE with
      | .ok p' => freeChain { p' with free := p'.free ++ [cur] } fuel next
      | .err k => .err k
      | .panic s => .panic s
      | .hang s => .hang s

def freeChainFrom (p : P) (start : Nat) : Outcome P := freeChain p (p.fat.size + 1) start

/-- `free_chain_after` -/
def freeChainAfter (p : P) (id : Nat) : Outcome P :=
  match nextSector p.fat id with
  | .error k => .err k
  | .ok next => do
    let p ← setFat p id END
    freeChainFrom p next

def chainIds (p : P) (start : Nat) : Outcome (List Nat) := chainFrom p.fat start

/-! ## regular chains (chain.rs) -/

/-- one more sector at the end of a chain given by its sector list (`extend_chain` on the last
sector, or `begin_chain` for an empty chain) -/
def growOne (kind : Init) (p : P) (ids : List Nat) : Outcome (P × List Nat) :=
  match ids.getLast? with
  | some last =>
    match extendChain p last kind with
    | .ok (p', id) => .ok (p', ids ++ [id])
    | .err k => .err k
    | .panic s => .panic s
    | .hang s => .hang s
  | none =>
    match allocateSector p kind with
    | .ok (p', id) => .ok (p', ids ++ [id])
    | .err k => .err k
    | .panic s => .panic s
    | .hang s => .hang s

/-- `Chain::write` as driven by `write_all`: write `bs` at chain offset `off`, growing the chain
one sector at a time when the offset reaches its end -/
def chainWrite (kind : Init) : Nat → P → List Nat → Nat → Bytes → Outcome (P × List Nat)
  | 0, _, _, _, _ => .hang "chain write"
  | fuel + 1, p, ids, off, bs =>
    if bs.isEmpty then .ok (p, ids) else
    let S := p.S
    match (if off = ids.length * S then growOne kind p ids else .ok (p, ids)) with
    | .ok (p1, ids1) =>
      match ids1[off / S]? with
      | none => .panic "chain.rs:178 sector_ids[current_sector_index]"
      | some id =>
        let n := min bs.length (S - off % S)
        match writeSector p1 id (off % S) (bs.take n) with
        | .ok p2 => chainWrite kind fuel p2 ids1 (off + n) (bs.drop n)
        | .err k => .err k
        | .panic s => .panic s
        | .hang s => .hang s
    | .err k => .err k
    | .panic s => .panic s
    | .hang s => .hang s

/-- `read_exact` from a chain -/
def chainRead : Nat → P → List Nat → Nat → Nat → Bytes → Outcome Bytes
  | 0, _, _, _, _, _ => .hang "chain read"
  | fuel + 1, p, ids, off, n, acc =>
    if n = 0 then .ok acc else
    let S := p.S
    match ids[off / S]? with
    | none => .err .unexpectedEof
    | some id =>
      let k := min n (S - off % S)
      match readSector p id (off % S) k with
      | .ok bs => chainRead fuel p ids (off + k) (n - k) (acc ++ bs)
      | .err e => .err e
      | .panic s => .panic s
      | .hang s => .hang s

/-- add sectors until the chain has `target` of them (`Chain::set_len`, growing branch) -/
def chainGrow (kind : Init) : Nat → P → List Nat → Nat → Outcome (P × List Nat)
  | 0, _, _, _ => .hang "chain grow"
  | fuel + 1, p, ids, target =>
    if ids.length ≥ target then .ok (p, ids) else
    match growOne kind p ids with
    | .ok (p', ids') => chainGrow kind fuel p' ids' target
    | .err k => .err k
    | .panic s => .panic s
    | .hang s => .hang s

/-- `Chain::set_len` -/
def chainSetLen (p : P) (ids : List Nat) (kind : Init) (newLen : Nat) : Outcome (P × List Nat) :=
  let S := p.S
  let newNum := (S + newLen - 1) / S
  if newNum = 0 then
    match ids.head? with
    | some first => (freeChainFrom p first).bind (fun p' => .ok (p', ids))
    | none => .ok (p, ids)
  else if newNum ≤ ids.length then
    if newNum < ids.length then
      match ids[newNum - 1]? with
      | some keep => (freeChainAfter p keep).bind (fun p' => .ok (p', ids))
      | none => .panic "chain.rs:92 sector_ids[new_num_sectors - 1]"
    else .ok (p, ids)
  else chainGrow kind (newNum + 1) p ids newNum

/-! ## the MiniFAT and the mini stream (minialloc.rs) -/

/-- `set_minifat`: the cell must lie inside the MiniFAT chain — `InvalidData` otherwise (before the
repair of F20 this was a debug assertion: on a damaged file whose MiniFAT chain had been cut under
the in-memory MiniFAT the next mini sector allocation panicked) -/
def setMiniFat (p : P) (idx val : Nat) : Outcome P := do
  let chain ← chainIds p p.miniFatStart
  if 4 * idx + 4 > chain.length * p.S then .err .invalidData else
  if idx = p.miniFat.size then pure { p with miniFat := p.miniFat.push val }
  else if idx < p.miniFat.size then pure { p with miniFat := p.miniFat.setIfInBounds idx val }
  else .panic "minialloc.rs set_minifat: index beyond minifat.len()"

/-- room for one more mini sector in the mini stream's chain (begin it, or extend it when full) -/
def ensureRootRoom (p : P) : Outcome P :=
  if p.rootStart = END then
    match allocateSector p .zero with
    | .ok (p', id) => .ok { p' with rootStart := id }
    | .err k => .err k
    | .panic s => .panic s
    | .hang s => .hang s
  else if p.rootLen % p.S = 0 then
    match chainIds p p.rootStart with
    | .ok chain =>
      if p.rootLen ≥ chain.length * p.S then
        match extendChain p p.rootStart .zero with
        | .ok (p', _) => .ok p'
        | .err k => .err k
        | .panic s => .panic s
        | .hang s => .hang s
      else .ok p
    | .err k => .err k
    | .panic s => .panic s
    | .hang s => .hang s
  else .ok p

/-- `append_mini_sector`: the mini stream grows by one mini sector; its chain only when it has no
room left -/
def appendMiniSector (p : P) : Outcome P :=
  match ensureRootRoom p with
  | .ok p' => .ok { p' with rootLen := p'.rootLen + MINI }
  | .err k => .err k
  | .panic s => .panic s
  | .hang s => .hang s

/-- pop free mini sectors until one is really free -/
def popFreeMini (p : P) : Nat → Outcome (P × Option Nat)
  | 0 => .ok (p, none)
  | fuel + 1 =>
    match p.freeMini.getLast? with
    | none => .ok (p, none)
    | some idx =>
      let p' := { p with freeMini := p.freeMini.dropLast }
      match p'.miniFat[idx]? with
      | none => .panic "minialloc.rs:253 minifat[free_idx]"
      | some cell => if cell = FREE then .ok (p', some idx) else popFreeMini p' fuel

/-- room for one more MiniFAT entry (begin the MiniFAT chain, or extend it when it is full) -/
def ensureMiniFatRoom (p : P) : Outcome P :=
  let per := p.S / 4
  if p.miniFatStart = END then
    match allocateSector p .fat with
    | .ok (p', id) => .ok { p' with miniFatStart := id }
    | .err k => .err k
    | .panic s => .panic s
    | .hang s => .hang s
  else if p.miniFat.size % per = 0 then
    match chainIds p p.miniFatStart with
    | .ok chain =>
      if p.miniFat.size ≥ chain.length * per then
        match extendChain p p.miniFatStart .fat with
        | .ok (p', _) => .ok p'
        | .err k => .err k
        | .panic s => .panic s
        | .hang s => .hang s
      else .ok p
    | .err k => .err k
    | .panic s => .panic s
    | .hang s => .hang s
  else .ok p

/-- `allocate_mini_sector` -/
def allocateMiniSector (p : P) (value : Nat) : Outcome (P × Nat) := do
  let (p, reuse) ← popFreeMini p (p.freeMini.length + 1)
  match reuse with
  | some idx => do
    let p ← setMiniFat p idx value
    pure (p, idx)
  | none => do
    let p ← ensureMiniFatRoom p
    let idx := p.miniFat.size
    let p ← appendMiniSector p        -- the mini stream grows first (a failure must not leave the MiniFAT ahead)
    let p ← setMiniFat p idx value
    pure (p, idx)

/-- `next_mini_sector` -/
def nextMini (p : P) (id : Nat) : E Nat := nextSector p.miniFat id

def lastOfMiniChain (mf : Array Nat) : Nat → Nat → Outcome Nat
  | 0, _ => .hang "extend_mini_chain walk"
  | fuel + 1, cur =>
    match nextSector mf cur with
    | .error k => .err k
    | .ok next => if next = END then .ok cur else lastOfMiniChain mf fuel next

/-- `extend_mini_chain` -/
def extendMiniChain (p : P) (start : Nat) : Outcome (P × Nat) := do
  let last ← lastOfMiniChain p.miniFat (p.miniFat.size + 1) start
  let (p, id) ← allocateMiniSector p END
  let p ← setMiniFat p last id
  pure (p, id)

def trimMiniFat : Nat → Array Nat → Nat → Array Nat × Nat
  | 0, mf, len => (mf, len)
  | fuel + 1, mf, len =>
    if mf.back? = some FREE then trimMiniFat fuel mf.pop (len - MINI) else (mf, len)

/-- `free_mini_sector` -/
def freeMiniSector (p : P) (id : Nat) : Outcome P :=
  match p.miniFat[id]? with
  | none => .panic "minialloc.rs:319 minifat[mini_sector]"
  | some cell =>
    if cell = FREE then .err .invalidInput else do
    let p ← setMiniFat p id FREE
    let p := { p with freeMini := p.freeMini ++ [id] }
    let (mf, len) := trimMiniFat (p.miniFat.size + 1) p.miniFat p.rootLen
    pure { p with miniFat := mf, rootLen := len, freeMini := p.freeMini.filter (· < mf.size) }

/-- `free_mini_chain` -/
def freeMiniChain (p : P) : Nat → Nat → Outcome P
  | 0, _ => .hang "free_mini_chain"
  | fuel + 1, cur =>
    if cur = END then .ok p else
    match nextMini p cur with
    | .error k => .err k
    | .ok next =>
      match freeMiniSector p cur with
      | .ok p' => freeMiniChain p' fuel next
      | .err k => .err k
      | .panic s => .panic s
      | .hang s => .hang s

def freeMiniChainFrom (p : P) (start : Nat) : Outcome P := freeMiniChain p (p.miniFat.size + 1) start

/-- `free_mini_chain_after` -/
def freeMiniChainAfter (p : P) (id : Nat) : Outcome P :=
  match nextMini p id with
  | .error k => .err k
  | .ok next => do
    let p ← setMiniFat p id END
    freeMiniChainFrom p next

def miniChainIds (p : P) (start : Nat) : Outcome (List Nat) :=
  chainLoop p.miniFat start (p.miniFat.size + 1) start []

/-- where mini sector `m` lives: `(sector of the root chain, offset inside it)` -/
def locateMini (p : P) (m : Nat) : Outcome (Nat × Nat) := do
  let root ← chainIds p p.rootStart
  let per := p.S / MINI
  match root[m / per]? with
  | none => bad
  | some sid => pure (sid, (m % per) * MINI)

def miniWriteAt (p : P) (m off : Nat) (bs : Bytes) : Outcome P := do
  let (sid, base) ← locateMini p m
  writeSector p sid (base + off) bs

/-- one more mini sector at the end of a mini chain given by its list -/
def growOneMini (p : P) (ids : List Nat) : Outcome (P × List Nat) :=
  match ids.getLast? with
  | some last =>
    match extendMiniChain p last with
    | .ok (p', id) => .ok (p', ids ++ [id])
    | .err k => .err k
    | .panic s => .panic s
    | .hang s => .hang s
  | none =>
    match allocateMiniSector p END with
    | .ok (p', id) => .ok (p', ids ++ [id])
    | .err k => .err k
    | .panic s => .panic s
    | .hang s => .hang s

/-- `MiniChain::write` under `write_all` -/
def miniChainWrite : Nat → P → List Nat → Nat → Bytes → Outcome (P × List Nat)
  | 0, _, _, _, _ => .hang "mini chain write"
  | fuel + 1, p, ids, off, bs =>
    if bs.isEmpty then .ok (p, ids) else
    match (if off = ids.length * MINI then growOneMini p ids else .ok (p, ids)) with
    | .ok (p1, ids1) =>
      match ids1[off / MINI]? with
      | none => .panic "minichain.rs:147 sector_ids[current_sector_index]"
      | some m =>
        let n := min bs.length (MINI - off % MINI)
        match miniWriteAt p1 m (off % MINI) (bs.take n) with
        | .ok p2 => miniChainWrite fuel p2 ids1 (off + n) (bs.drop n)
        | .err k => .err k
        | .panic s => .panic s
        | .hang s => .hang s
    | .err k => .err k
    | .panic s => .panic s
    | .hang s => .hang s

def miniChainRead : Nat → P → List Nat → Nat → Nat → Bytes → Outcome Bytes
  | 0, _, _, _, _, _ => .hang "mini chain read"
  | fuel + 1, p, ids, off, n, acc =>
    if n = 0 then .ok acc else
    match ids[off / MINI]? with
    | none => .err .unexpectedEof
    | some m =>
      let k := min n (MINI - off % MINI)
      match locateMini p m with
      | .ok (sid, base) =>
        match readSector p sid (base + off % MINI) k with
        | .ok bs => miniChainRead fuel p ids (off + k) (n - k) (acc ++ bs)
        | .err e => .err e
        | .panic s => .panic s
        | .hang s => .hang s
      | .err e => .err e
      | .panic s => .panic s
      | .hang s => .hang s

/-- `MiniChain::set_len` growing branch: every new mini sector is zeroed (they are reused without
being reinitialised) -/
def miniChainGrow : Nat → P → List Nat → Nat → Outcome (P × List Nat)
  | 0, _, _, _ => .hang "mini chain grow"
  | fuel + 1, p, ids, target =>
    if ids.length ≥ target then .ok (p, ids) else
    match growOneMini p ids with
    | .ok (p', ids') =>
      match miniWriteAt p' (ids'.getLast?.getD 0) 0 (List.replicate MINI 0) with
      | .ok p'' => miniChainGrow fuel p'' ids' target
      | .err k => .err k
      | .panic s => .panic s
      | .hang s => .hang s
    | .err k => .err k
    | .panic s => .panic s
    | .hang s => .hang s

/-- `MiniChain::set_len` -/
def miniChainSetLen (p : P) (ids : List Nat) (newLen : Nat) : Outcome (P × List Nat) :=
  let newNum := (MINI + newLen - 1) / MINI
  if newNum = 0 then
    match ids.head? with
    | some first => (freeMiniChainFrom p first).bind (fun p' => .ok (p', ids))
    | none => .ok (p, ids)
  else if newNum ≤ ids.length then
    if newNum < ids.length then
      match ids[newNum - 1]? with
      | some keep => (freeMiniChainAfter p keep).bind (fun p' => .ok (p', ids))
      | none => .panic "minichain.rs sector_ids[new_num_sectors - 1]"
    else .ok (p, ids)
  else miniChainGrow (newNum + 1) p ids newNum

/-! ## streams (stream.rs:276-485) -/

def startOf (p : P) (slot : Nat) : Nat := ((p.starts.find? (·.1 == slot)).map (·.2)).getD END

def setStart (p : P) (slot start : Nat) : P :=
  { p with starts := (slot, start) :: p.starts.filter (·.1 != slot) }

def dropStart (p : P) (slot : Nat) : P := { p with starts := p.starts.filter (·.1 != slot) }

/-- `write_data_to_stream(slot, off, buf)` for a stream of (flushed) length `oldLen`;
returns the new length -/
def writeData (p : P) (slot oldLen off : Nat) (buf : Bytes) : Outcome (P × Nat) := do
  let oldStart := startOf p slot
  let newLen := max oldLen (off + buf.length)
  if oldStart = END then
    if oldLen ≠ 0 then bad else
    if newLen < CUTOFF then do
      let (p, ids) ← miniChainWrite (buf.length + 2) p [] 0 buf
      pure (setStart p slot (ids.head?.getD END), newLen)
    else do
      let (p, ids) ← chainWrite .zero (buf.length + 2) p [] 0 buf
      pure (setStart p slot (ids.head?.getD END), newLen)
  else if oldLen < CUTOFF then
    if newLen < CUTOFF then do
      let ids ← miniChainIds p oldStart
      if off > ids.length * MINI then .err .invalidInput else do
      let (p, _) ← miniChainWrite (buf.length + 2) p ids off buf
      pure (p, newLen)
    else do
      -- migrate to a regular chain: read the prefix, free the mini chain, write prefix + data
      let ids ← miniChainIds p oldStart
      let tmp ← miniChainRead (off + 2) p ids 0 off []
      let p ← freeMiniChainFrom p oldStart
      let (p, ids1) ← chainWrite .zero (tmp.length + 2) p [] 0 tmp
      let (p, ids2) ← chainWrite .zero (buf.length + 2) p ids1 tmp.length buf
      pure (setStart p slot (ids2.head?.getD END), newLen)
  else do
    let ids ← chainIds p oldStart
    if off > ids.length * p.S then .err .invalidInput else do
    let (p, _) ← chainWrite .zero (buf.length + 2) p ids off buf
    pure (p, newLen)

/-- `zero_old_tail`: when a stream grows in place, the rest of its old last (mini) sector is zeroed -/
def zeroTailRange (oldLen newLen unit : Nat) : Option (Nat × Nat) :=
  if newLen > oldLen ∧ oldLen % unit ≠ 0 then
    let stop := min newLen ((oldLen + unit - 1) / unit * unit)
    some (oldLen, stop - oldLen)
  else none

/-- `resize_stream(slot, newLen)` -/
def resize (p : P) (slot oldLen newLen : Nat) : Outcome P := do
  let oldStart := startOf p slot
  if oldStart = END then
    if oldLen ≠ 0 then bad else
    if newLen < CUTOFF then do
      let (p, ids) ← miniChainSetLen p [] newLen
      pure (setStart p slot (ids.head?.getD END))
    else do
      let (p, ids) ← chainSetLen p [] .zero newLen
      pure (setStart p slot (ids.head?.getD END))
  else if oldLen < CUTOFF then
    if newLen = 0 then do
      let p ← freeMiniChainFrom p oldStart
      pure (setStart p slot END)
    else if newLen < CUTOFF then do
      let ids ← miniChainIds p oldStart
      let (p, ids') ← miniChainSetLen p ids newLen
      match zeroTailRange oldLen newLen MINI with
      | some (at_, n) => do
        if at_ > ids'.length * MINI then .err .invalidInput else do
        let (p, _) ← miniChainWrite (n + 2) p ids' at_ (List.replicate n 0)
        pure p
      | none => pure p
    else do
      let ids ← miniChainIds p oldStart
      let tmp ← miniChainRead (oldLen + 2) p ids 0 oldLen []
      let p ← freeMiniChainFrom p oldStart
      let (p, ids1) ← chainWrite .zero (tmp.length + 2) p [] 0 tmp
      let (p, ids2) ← chainSetLen p ids1 .zero newLen
      pure (setStart p slot (ids2.head?.getD END))
  else
    if newLen = 0 then do
      let p ← freeChainFrom p oldStart
      pure (setStart p slot END)
    else if newLen < CUTOFF then do
      let ids ← chainIds p oldStart
      let tmp ← chainRead (newLen + 2) p ids 0 newLen []
      let p ← freeChainFrom p oldStart
      let (p, ids1) ← miniChainWrite (tmp.length + 2) p [] 0 tmp
      pure (setStart p slot (ids1.head?.getD END))
    else do
      let ids ← chainIds p oldStart
      let (p, ids') ← chainSetLen p ids .zero newLen
      match zeroTailRange oldLen newLen p.S with
      | some (at_, n) => do
        if at_ > ids'.length * p.S then .err .invalidInput else do
        let (p, _) ← chainWrite .zero (n + 2) p ids' at_ (List.replicate n 0)
        pure p
      | none => pure p

/-- `read_data_from_stream`: `n ≤ len - off` bytes at `off` -/
def readData (p : P) (slot len off n : Nat) : Outcome Bytes := do
  if n = 0 then pure [] else
  let start := startOf p slot
  if len < CUTOFF then do
    let ids ← miniChainIds p start
    if off > ids.length * MINI then .err .invalidInput else
    miniChainRead (n + 2) p ids off n []
  else do
    let ids ← chainIds p start
    if off > ids.length * p.S then .err .invalidInput else
    chainRead (n + 2) p ids off n []

/-- `remove_stream`: free the chain the length selects -/
def freeStream (p : P) (slot len : Nat) : Outcome P := do
  let start := startOf p slot
  let p ← if len < CUTOFF then freeMiniChainFrom p start else freeChainFrom p start
  pure (dropStart p slot)

/-! ## the directory chain -/

/-- `allocate_dir_entry` as far as sectors are concerned: slot `slot` is about to be used -/
def ensureDirSlot (p : P) (slot : Nat) : Outcome P :=
  if slot < p.dirLen then .ok p
  else if p.dirLen % (p.S / Gen.DIR_ENTRY_LEN) = 0 then
    match extendChain p p.dirStart .dir with
    | .ok (p', _) => .ok { p' with dirLen := p'.dirLen + 1 }
    | .err k => .err k
    | .panic s => .panic s
    | .hang s => .hang s
  else .ok { p with dirLen := p.dirLen + 1 }

/-! ## a fresh file, and what `open` re-derives -/

def create (v4 : Bool) : P :=
  let S := sectorLenOf v4
  { v4 := v4, numSectors := 2, sectors := #[zeroSector S, zeroSector S], difatSectorIds := [], difat := [0],
    fat := #[FATSECT, END], free := [], dirStart := 1, dirLen := 1, miniFat := #[], miniFatStart := END,
    freeMini := [], rootStart := END, rootLen := 0, starts := [] }

def indicesOf (a : Array Nat) (v : Nat) : List Nat :=
  (List.range a.size).filter (fun i => a[i]? == some v)

/-- the caches as `open` rebuilds them from the file: free lists in ascending order, the directory
length rounded up to whole sectors -/
def reopen (p : P) : Outcome P := do
  let dirChain ← chainIds p p.dirStart
  pure { p with free := indicesOf p.fat FREE,
                freeMini := indicesOf p.miniFat FREE,
                dirLen := dirChain.length * (p.S / Gen.DIR_ENTRY_LEN) }

end CfbVerif.Phys
