import CfbVerif.Phys.Model
/-!
# Statement order inside `allocate_sector`

After the repair of F22 alloc.rs creates an appended sector (`init_sector`) *before* it records the
sector's FAT entry (`set_fat`); `Phys.allocateSector` has the two in the older order.  `Phys` has no
I/O faults, so the order cannot be observed there — this file proves that: the model in the code's
statement order (`allocateSectorC`) is the same function, result for result (errors, panic and hang
exits included).  (Under faults the order is what F22 was about; that is C13's campaign.)
-/
namespace CfbVerif.Phys
open CfbVerif.Raw

/-- `allocate_sector` in the statement order of alloc.rs -/
def allocateSectorC (p : P) (kind : Init) : Outcome (P × Nat) :=
  match p.free.getLast? with
  | some id => do
    let p := { p with free := p.free.dropLast }
    let p ← setFat p id END
    let p ← initSector p id kind
    pure (p, id)
  | none => do
    let p ← if p.fat.size % p.epsec = 0 then appendFatSector p else pure p
    let id := p.fat.size
    let p ← initSector p id kind
    let p ← setFat p id END
    pure (p, id)

theorem init_set_comm (p : P) (kind : Init) :
    (initSector p p.fat.size kind).bind (fun q => (setFat q p.fat.size END).bind (fun r => .ok (r, p.fat.size)))
      = (setFat p p.fat.size END).bind (fun q => (initSector q p.fat.size kind).bind (fun r => .ok (r, p.fat.size))) := by
  unfold initSector setFat
  simp only [P.epsec, P.S]
  cases hd : p.difat[p.fat.size / (sectorLenOf p.v4 / 4)]? <;>
    by_cases h1 : p.fat.size > p.numSectors <;> by_cases h2 : p.fat.size = p.numSectors <;>
    (try rw [h2] at hd h1) <;> simp [Outcome.bind, bad, hd, h1, h2]

theorem allocateSector_code_order (p : P) (kind : Init) : allocateSectorC p kind = allocateSector p kind := by
  unfold allocateSectorC allocateSector
  cases p.free.getLast? with
  | some id => rfl
  | none =>
    dsimp only
    split
    · show Outcome.bind (appendFatSector p) _ = Outcome.bind (appendFatSector p) _
      congr 1
      funext q
      exact init_set_comm q kind
    · exact init_set_comm p kind

end CfbVerif.Phys
