import CfbVerif.Phys.OpenBack
import CfbVerif.Phys.MiniCap
/-!
# `MiniFit` holds in every state the store machine reaches

`MiniFit` (what the MiniFAT stage of `open` needs of the writer's state) was a hypothesis of
`C02_reopens`.  `Phys/MiniFitA.lean` (trimmed, length, 32-bit cells) and `Phys/MiniCap.lean` (the
MiniFAT fits its chain) carry it through every operation; here they are put together and the
hypothesis is discharged for every reachable state.
-/
namespace CfbVerif.Phys
open CfbVerif.Raw

theorem cap_grun (ops : List GOp) : ∀ g : G, JR g.p g.L → CapI g.p → WritesInRange g ops →
    (grun g ops).p.fat.size ≤ MAXREG + 1 → CapI (grun g ops).p := by
  induction ops with
  | nil => intro g _ c _ _; exact c
  | cons op rest ih =>
    intro g j c hw hb
    simp only [grun] at hb ⊢
    simp only [WritesInRange] at hw
    cases hs : gstep g op with
    | ok g' =>
      simp only [hs] at hb hw ⊢
      have hb' := Nat.le_trans (grun_mono rest g') hb
      exact ih g' (jr_gstep hs j hw.1 hb') (cap_gstep hs j hw.1 hb' c) hw.2 hb
    | err k => simp only [hs] at hb hw ⊢; exact ih g j c hw.2 hb
    | panic s => simp only [hs] at hb hw ⊢; exact ih g j c hw.2 hb
    | hang s => simp only [hs] at hb hw ⊢; exact ih g j c hw.2 hb

/-- the invariants imply `MiniFit` -/
theorem miniFit_of {p : P} {L : Nat → Nat} (j : JC p L) (m : MA p) (c : CapI p) : MiniFit p := by
  obtain ⟨l, ml, hc⟩ := c
  have hl : chainOrEmpty p p.miniFatStart = l := by
    rcases ml with ⟨he, hl⟩ | ⟨hne, ch⟩
    · rw [he, chainOrEmpty_END]; exact hl.symm
    · have hm : p.miniFatStart ∈ heads p L := by simp [heads, cont, hd1, hne]
      exact chainOrEmpty_of_isChain j.nc.ns hm ch
  refine ⟨m.trim, ?_, ?_, ?_⟩
  · rw [hl]
    exact (Nat.le_div_iff_mul_le (by decide)).mpr (by rw [Nat.mul_comm]; exact hc)
  · intro i hi
    have := m.small i p.miniFat[i] (by simp [hi])
    have h1 : FREE < 256 ^ 4 := by decide
    have h2 : END < 256 ^ 4 := by decide
    have h3 : MAXREG < 256 ^ 4 := by decide
    rcases this with h | h | h <;> omega
  · have := m.root
    show p.miniFat.size ≤ p.rootLen / Gen.MINI_SECTOR_LEN
    rw [this]
    have : MINI * p.miniFat.size / Gen.MINI_SECTOR_LEN = p.miniFat.size := Nat.mul_div_cancel_left _ (by decide)
    rw [this]; exact Nat.le_refl _

theorem rootLen_mod_of {p : P} (m : MA p) : p.rootLen % Gen.MINI_SECTOR_LEN = 0 := by
  have := m.root
  rw [this]
  exact Nat.mul_mod_right _ _

/-- **`MiniFit` in every reachable state of the store machine** -/
theorem miniFit_reachable (v4 : Bool) (ops : List GOp) :
    let g0 : G := { p := Phys.create v4, L := fun _ => 0 }
    WritesInRange g0 ops → MiniBounded g0 ops → (grun g0 ops).p.fat.size ≤ MAXREG + 1 →
    MiniFit (grun g0 ops).p ∧ (grun g0 ops).p.rootLen % Gen.MINI_SECTOR_LEN = 0 := by
  intro g0 hw hm hb
  have j := regLen_reachable v4 ops hw hb
  have m := ma_reachable v4 ops hm
  have c := cap_grun ops g0 ⟨jc_init v4, rl_init v4, ss_create v4⟩ (capI_create v4) hw hb
  exact ⟨miniFit_of j.jc m c, rootLen_mod_of m⟩

end CfbVerif.Phys
