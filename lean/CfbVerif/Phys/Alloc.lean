import CfbVerif.Phys.Model
/-!
# Bookkeeping invariants of the sector allocator

`FatInv`: the FAT covers exactly the sectors of the file, and the free list holds only sectors
whose FAT cell says FREE, each once.  It is what makes "every sector belongs to at most one
chain" (C03) and "released space is reused, the file does not grow" (C15) true of the allocator:
a sector handed out by `allocateSector` was free, and while free sectors exist the file keeps its
length.
-/
namespace CfbVerif.Phys
open CfbVerif.Raw

structure FatInv (p : P) : Prop where
  size : p.fat.size = p.numSectors
  secs : p.sectors.size = p.numSectors
  freeFree : ∀ i ∈ p.free, p.fat[i]? = some FREE
  freeNodup : p.free.Nodup

/-! ## what the primitive updates do -/

theorem setFat_ok {p p' : P} {idx val : Nat} (h : setFat p idx val = .ok p') :
    (idx = p.fat.size ∧ p' = { p with fat := p.fat.push val }) ∨
    (idx < p.fat.size ∧ p' = { p with fat := p.fat.setIfInBounds idx val }) := by
  unfold setFat at h
  split at h
  · cases h
  · split at h
    · left; refine ⟨‹_›, ?_⟩; cases h; rfl
    · split at h
      · right; refine ⟨‹_›, ?_⟩; cases h; rfl
      · cases h

theorem initSector_ok {p p' : P} {id : Nat} {k : Init} (h : initSector p id k = .ok p') :
    (id = p.numSectors ∧ p' = { p with numSectors := p.numSectors + 1, sectors := p.sectors.push (zeroSector p.S) }) ∨
    (id < p.numSectors ∧ p' = { p with sectors := p.sectors.setIfInBounds id (zeroSector p.S) }) := by
  unfold initSector at h
  split at h
  · cases h
  · split at h
    · left; refine ⟨‹_›, ?_⟩; cases h; rfl
    · right; refine ⟨by omega, ?_⟩; cases h; rfl

theorem getLast_not_mem_dropLast {l : List Nat} {x : Nat} (hn : l.Nodup) (hl : l.getLast? = some x) :
    x ∉ l.dropLast := by
  induction l with
  | nil => simp at hl
  | cons a t ih =>
    cases t with
    | nil => simp
    | cons b t' =>
      have hl' : (b :: t').getLast? = some x := by simpa [List.getLast?_cons_cons] using hl
      have hn' := (List.nodup_cons.mp hn)
      intro hm
      simp only [List.dropLast_cons_cons, List.mem_cons] at hm
      cases hm with
      | inl h =>
        subst h
        exact hn'.1 (List.mem_of_getLast? hl')
      | inr h => exact ih hn'.2 hl' h

theorem getLast_mem {l : List Nat} {x : Nat} (hl : l.getLast? = some x) : x ∈ l := List.mem_of_getLast? hl

/-! ## reuse: with a free sector on the list the file does not grow (C15), and the sector handed
out was free (C03: it belonged to no chain) -/

/-- the free-list branch of `allocate_sector` -/
theorem allocateSector_reuse {p p' : P} {id : Nat} {k : Init} (inv : FatInv p)
    (hfree : p.free ≠ []) (h : allocateSector p k = .ok (p', id)) :
    p.free.getLast? = some id ∧ p.fat[id]? = some FREE ∧
    p'.numSectors = p.numSectors ∧ p'.free = p.free.dropLast ∧
    p'.fat = p.fat.setIfInBounds id END ∧ FatInv p' := by
  unfold allocateSector at h
  cases hl : p.free.getLast? with
  | none => exact absurd (List.getLast?_eq_none_iff.mp hl) hfree
  | some x =>
    simp only [hl] at h
    have hxmem : x ∈ p.free := getLast_mem hl
    have hxfree := inv.freeFree x hxmem
    have hxlt : x < p.fat.size := by
      rcases Nat.lt_or_ge x p.fat.size with hc | hc
      · exact hc
      · rw [Array.getElem?_eq_none hc] at hxfree
        cases hxfree
    -- unfold the two monadic steps
    cases h1 : setFat { p with free := p.free.dropLast } x END with
    | err e => simp [h1, bind, Outcome.bind] at h
    | panic s => simp [h1, bind, Outcome.bind] at h
    | hang s => simp [h1, bind, Outcome.bind] at h
    | ok p1 =>
      simp only [h1, bind, Outcome.bind] at h
      cases h2 : initSector p1 x k with
      | err e => simp [h2] at h
      | panic s => simp [h2] at h
      | hang s => simp [h2] at h
      | ok p2 =>
        simp only [h2, pure] at h
        have hid : p2 = p' ∧ x = id := by
          cases h; exact ⟨rfl, rfl⟩
        obtain ⟨rfl, rfl⟩ := hid
        have hp1 : p1 = { p with free := p.free.dropLast, fat := p.fat.setIfInBounds x END } := by
          rcases setFat_ok h1 with ⟨he, _⟩ | ⟨_, he⟩
          · simp at he; omega
          · simpa using he
        have hxn : x < p1.numSectors := by rw [hp1]; simpa [inv.size] using hxlt
        have hp2 : p2 = { p1 with sectors := p1.sectors.setIfInBounds x (zeroSector p1.S) } := by
          rcases initSector_ok h2 with ⟨he, _⟩ | ⟨_, he⟩
          · omega
          · exact he
        subst hp2; subst hp1
        refine ⟨rfl, hxfree, rfl, rfl, rfl, ?_⟩
        refine ⟨by simpa using inv.size, by simpa using inv.secs, ?_, ?_⟩
        · intro i hi
          have hne : i ≠ x := fun he => getLast_not_mem_dropLast inv.freeNodup hl (he ▸ hi)
          have := inv.freeFree i (List.dropLast_subset _ hi)
          simp only [Array.getElem?_setIfInBounds]
          rw [if_neg (by omega)]
          exact this
        · exact inv.freeNodup.sublist (List.dropLast_sublist _)

/-- **no growth while free space exists**: the file length is `(numSectors + 1) * S` -/
theorem allocateSector_no_growth {p p' : P} {id : Nat} {k : Init} (inv : FatInv p)
    (hfree : p.free ≠ []) (h : allocateSector p k = .ok (p', id)) :
    p'.numSectors = p.numSectors ∧ p.fat[id]? = some FREE :=
  let r := allocateSector_reuse inv hfree h
  ⟨r.2.2.1, r.2.1⟩

/-! ## release: every sector of a freed chain lands on the free list -/

theorem freeChain_spec (fuel : Nat) : ∀ {p p' : P} {cur : Nat}, FatInv p → freeChain p fuel cur = .ok p' →
    FatInv p' ∧ p'.numSectors = p.numSectors ∧ (∀ i ∈ p.free, i ∈ p'.free) ∧
    (cur ≠ END → cur ∈ p'.free) := by
  induction fuel with
  | zero => intro p p' cur _ h; simp [freeChain] at h
  | succ fuel ih =>
    intro p p' cur inv h
    unfold freeChain at h
    split at h
    · rename_i hend
      cases h
      exact ⟨inv, rfl, fun i hi => hi, fun hne => absurd hend hne⟩
    · rename_i hne
      cases hn : nextSector p.fat cur with
      | error k => simp [hn] at h
      | ok next =>
        simp only [hn] at h
        have hlt : cur < p.fat.size := by
          unfold nextSector at hn
          split at hn
          · assumption
          · cases hn
        split at h
        · cases h
        · rename_i hnotfree
          cases h1 : setFat p cur FREE with
          | err e => simp [h1] at h
          | panic s => simp [h1] at h
          | hang s => simp [h1] at h
          | ok p1 =>
            simp only [h1] at h
            have hp1 : p1 = { p with fat := p.fat.setIfInBounds cur FREE } := by
              rcases setFat_ok h1 with ⟨he, _⟩ | ⟨_, he⟩
              · omega
              · exact he
            subst hp1
            have hcur : cur ∉ p.free := fun hm => hnotfree (inv.freeFree cur hm)
            have inv2 : FatInv { p with fat := p.fat.setIfInBounds cur FREE, free := p.free ++ [cur] } := by
              refine ⟨by simpa using inv.size, inv.secs, ?_, ?_⟩
              · intro i hi
                simp only [List.mem_append, List.mem_singleton] at hi
                simp only [Array.getElem?_setIfInBounds]
                by_cases hic : cur = i
                · subst hic; simp [hlt]
                · rw [if_neg hic]
                  cases hi with
                  | inl h' => exact inv.freeFree i h'
                  | inr h' => exact absurd h'.symm hic
              · exact List.nodup_append.mpr ⟨inv.freeNodup, by simp, by
                  intro a ha b hb; simp at hb; subst hb; intro he; exact hcur (he ▸ ha)⟩
            have := ih inv2 h
            refine ⟨this.1, this.2.1, ?_, ?_⟩
            · intro i hi; exact this.2.2.1 i (List.mem_append_left _ hi)
            · intro _; exact this.2.2.1 cur (by simp)

end CfbVerif.Phys
