import CfbVerif.Phys.Model
/-!
# Bookkeeping invariants of the sector allocator

`FatInv`: the FAT covers exactly the sectors of the file, and the free list holds only sectors
whose FAT cell says FREE, each once.  It is what makes "every sector belongs to at most one
chain" (C03) and "released space is reused, the file does not grow" (C15) true of the allocator:
a sector handed out by `allocateSector` was free, and while free sectors exist the file keeps its
length.
-/
namespace CfbVerif.Phys
open CfbVerif.Raw

structure FatInv (p : P) : Prop where
  size : p.fat.size = p.numSectors
  secs : p.sectors.size = p.numSectors
  freeFree : ∀ i ∈ p.free, p.fat[i]? = some FREE
  freeNodup : p.free.Nodup

/-! ## what the primitive updates do -/

theorem setFat_ok {p p' : P} {idx val : Nat} (h : setFat p idx val = .ok p') :
    (idx = p.fat.size ∧ p' = { p with fat := p.fat.push val }) ∨
    (idx < p.fat.size ∧ p' = { p with fat := p.fat.setIfInBounds idx val }) := by
  unfold setFat at h
  split at h
  · cases h
  · split at h
    · left; refine ⟨‹_›, ?_⟩; cases h; rfl
    · split at h
      · right; refine ⟨‹_›, ?_⟩; cases h; rfl
      · cases h

theorem initSector_ok {p p' : P} {id : Nat} {k : Init} (h : initSector p id k = .ok p') :
    (id = p.numSectors ∧ p' = { p with numSectors := p.numSectors + 1, sectors := p.sectors.push (zeroSector p.S) }) ∨
    (id < p.numSectors ∧ p' = { p with sectors := p.sectors.setIfInBounds id (zeroSector p.S) }) := by
  unfold initSector at h
  split at h
  · cases h
  · split at h
    · left; refine ⟨‹_›, ?_⟩; cases h; rfl
    · right; refine ⟨by omega, ?_⟩; cases h; rfl

theorem getLast_not_mem_dropLast {l : List Nat} {x : Nat} (hn : l.Nodup) (hl : l.getLast? = some x) :
    x ∉ l.dropLast := by
  induction l with
  | nil => simp at hl
  | cons a t ih =>
    cases t with
    | nil => simp
    | cons b t' =>
      have hl' : (b :: t').getLast? = some x := by simpa [List.getLast?_cons_cons] using hl
      have hn' := (List.nodup_cons.mp hn)
      intro hm
      simp only [List.dropLast_cons_cons, List.mem_cons] at hm
      cases hm with
      | inl h =>
        subst h
        exact hn'.1 (List.mem_of_getLast? hl')
      | inr h => exact ih hn'.2 hl' h

theorem getLast_mem {l : List Nat} {x : Nat} (hl : l.getLast? = some x) : x ∈ l := List.mem_of_getLast? hl

/-! ## reuse: with a free sector on the list the file does not grow (C15), and the sector handed
out was free (C03: it belonged to no chain) -/

/-- the free-list branch of `allocate_sector` -/
theorem allocateSector_reuse {p p' : P} {id : Nat} {k : Init} (inv : FatInv p)
    (hfree : p.free ≠ []) (h : allocateSector p k = .ok (p', id)) :
    p.free.getLast? = some id ∧ p.fat[id]? = some FREE ∧
    p'.numSectors = p.numSectors ∧ p'.free = p.free.dropLast ∧
    p'.fat = p.fat.setIfInBounds id END ∧ FatInv p' := by
  unfold allocateSector at h
  cases hl : p.free.getLast? with
  | none => exact absurd (List.getLast?_eq_none_iff.mp hl) hfree
  | some x =>
    simp only [hl] at h
    have hxmem : x ∈ p.free := getLast_mem hl
    have hxfree := inv.freeFree x hxmem
    have hxlt : x < p.fat.size := by
      rcases Nat.lt_or_ge x p.fat.size with hc | hc
      · exact hc
      · rw [Array.getElem?_eq_none hc] at hxfree
        cases hxfree
    -- unfold the two monadic steps
    cases h1 : setFat { p with free := p.free.dropLast } x END with
    | err e => simp [h1, bind, Outcome.bind] at h
    | panic s => simp [h1, bind, Outcome.bind] at h
    | hang s => simp [h1, bind, Outcome.bind] at h
    | ok p1 =>
      simp only [h1, bind, Outcome.bind] at h
      cases h2 : initSector p1 x k with
      | err e => simp [h2] at h
      | panic s => simp [h2] at h
      | hang s => simp [h2] at h
      | ok p2 =>
        simp only [h2, pure] at h
        have hid : p2 = p' ∧ x = id := by
          cases h; exact ⟨rfl, rfl⟩
        obtain ⟨rfl, rfl⟩ := hid
        have hp1 : p1 = { p with free := p.free.dropLast, fat := p.fat.setIfInBounds x END } := by
          rcases setFat_ok h1 with ⟨he, _⟩ | ⟨_, he⟩
          · simp at he; omega
          · simpa using he
        have hxn : x < p1.numSectors := by rw [hp1]; simpa [inv.size] using hxlt
        have hp2 : p2 = { p1 with sectors := p1.sectors.setIfInBounds x (zeroSector p1.S) } := by
          rcases initSector_ok h2 with ⟨he, _⟩ | ⟨_, he⟩
          · omega
          · exact he
        subst hp2; subst hp1
        refine ⟨rfl, hxfree, rfl, rfl, rfl, ?_⟩
        refine ⟨by simpa using inv.size, by simpa using inv.secs, ?_, ?_⟩
        · intro i hi
          have hne : i ≠ x := fun he => getLast_not_mem_dropLast inv.freeNodup hl (he ▸ hi)
          have := inv.freeFree i (List.dropLast_subset _ hi)
          simp only [Array.getElem?_setIfInBounds]
          rw [if_neg (by omega)]
          exact this
        · exact inv.freeNodup.sublist (List.dropLast_sublist _)

/-- **no growth while free space exists**: the file length is `(numSectors + 1) * S` -/
theorem allocateSector_no_growth {p p' : P} {id : Nat} {k : Init} (inv : FatInv p)
    (hfree : p.free ≠ []) (h : allocateSector p k = .ok (p', id)) :
    p'.numSectors = p.numSectors ∧ p.fat[id]? = some FREE :=
  let r := allocateSector_reuse inv hfree h
  ⟨r.2.2.1, r.2.1⟩

/-! ## release: every sector of a freed chain lands on the free list -/

theorem freeChain_spec (fuel : Nat) : ∀ {p p' : P} {cur : Nat}, FatInv p → freeChain p fuel cur = .ok p' →
    FatInv p' ∧ p'.numSectors = p.numSectors ∧ (∀ i ∈ p.free, i ∈ p'.free) ∧
    (cur ≠ END → cur ∈ p'.free) := by
  induction fuel with
  | zero => intro p p' cur _ h; simp [freeChain] at h
  | succ fuel ih =>
    intro p p' cur inv h
    unfold freeChain at h
    split at h
    · rename_i hend
      cases h
      exact ⟨inv, rfl, fun i hi => hi, fun hne => absurd hend hne⟩
    · rename_i hne
      cases hn : nextSector p.fat cur with
      | error k => simp [hn] at h
      | ok next =>
        simp only [hn] at h
        have hlt : cur < p.fat.size := by
          unfold nextSector at hn
          split at hn
          · assumption
          · cases hn
        split at h
        · cases h
        · rename_i hnotfree
          cases h1 : setFat p cur FREE with
          | err e => simp [h1] at h
          | panic s => simp [h1] at h
          | hang s => simp [h1] at h
          | ok p1 =>
            simp only [h1] at h
            have hp1 : p1 = { p with fat := p.fat.setIfInBounds cur FREE } := by
              rcases setFat_ok h1 with ⟨he, _⟩ | ⟨_, he⟩
              · omega
              · exact he
            subst hp1
            have hcur : cur ∉ p.free := fun hm => hnotfree (inv.freeFree cur hm)
            have inv2 : FatInv { p with fat := p.fat.setIfInBounds cur FREE, free := p.free ++ [cur] } := by
              refine ⟨by simpa using inv.size, inv.secs, ?_, ?_⟩
              · intro i hi
                simp only [List.mem_append, List.mem_singleton] at hi
                simp only [Array.getElem?_setIfInBounds]
                by_cases hic : cur = i
                · subst hic; simp [hlt]
                · rw [if_neg hic]
                  cases hi with
                  | inl h' => exact inv.freeFree i h'
                  | inr h' => exact absurd h'.symm hic
              · exact List.nodup_append.mpr ⟨inv.freeNodup, by simp, by
                  intro a ha b hb; simp at hb; subst hb; intro he; exact hcur (he ▸ ha)⟩
            have := ih inv2 h
            refine ⟨this.1, this.2.1, ?_, ?_⟩
            · intro i hi; exact this.2.2.1 i (List.mem_append_left _ hi)
            · intro _; exact this.2.2.1 cur (by simp)

end CfbVerif.Phys

namespace CfbVerif.Phys
open CfbVerif.Raw

/-- `n` allocations in a row -/
def allocMany (p : P) : List Init → Outcome (P × List Nat)
  | [] => .ok (p, [])
  | k :: ks =>
    match allocateSector p k with
    | .ok (p1, id) =>
      match allocMany p1 ks with
      | .ok (p2, ids) => .ok (p2, id :: ids)
      | .err e => .err e
      | .panic s => .panic s
      | .hang s => .hang s
    | .err e => .err e
    | .panic s => .panic s
    | .hang s => .hang s

/-- **as many allocations as there are free sectors never grow the file**, and each of them hands
out a sector whose FAT cell was FREE -/
theorem allocMany_no_growth (kinds : List Init) : ∀ {p p' : P} {ids : List Nat}, FatInv p →
    kinds.length ≤ p.free.length → allocMany p kinds = .ok (p', ids) →
    p'.numSectors = p.numSectors ∧ FatInv p' ∧ p'.free.length + kinds.length = p.free.length ∧
    ids.length = kinds.length := by
  induction kinds with
  | nil =>
    intro p p' ids inv _ h
    simp only [allocMany] at h
    cases h
    exact ⟨rfl, inv, rfl, rfl⟩
  | cons k ks ih =>
    intro p p' ids inv hlen h
    have hne : p.free ≠ [] := by
      intro he; rw [he] at hlen; simp at hlen
    unfold allocMany at h
    cases h1 : allocateSector p k with
    | err e => simp [h1] at h
    | panic s => simp [h1] at h
    | hang s => simp [h1] at h
    | ok r =>
      obtain ⟨p1, id⟩ := r
      simp only [h1] at h
      have r1 := allocateSector_reuse inv hne h1
      have hfl : p1.free.length + 1 = p.free.length := by
        rw [r1.2.2.2.1, List.length_dropLast]
        have : 0 < p.free.length := List.length_pos_iff.mpr hne
        omega
      cases h2 : allocMany p1 ks with
      | err e => simp [h2] at h
      | panic s => simp [h2] at h
      | hang s => simp [h2] at h
      | ok r2 =>
        obtain ⟨p2, ids2⟩ := r2
        simp only [h2] at h
        cases h
        have := ih r1.2.2.2.2.2 (by simp only [List.length_cons] at hlen; omega) h2
        refine ⟨by rw [this.1, r1.2.2.1], this.2.1, ?_, by simp [this.2.2.2]⟩
        simp only [List.length_cons]
        omega

/-- freeing a chain makes the free list longer by at least one (its head), so at least one later
allocation is served without growth; with `freeChain_spec` this is the step the cycle argument
repeats -/
theorem freeChain_free_grows {p p' : P} {start : Nat} (inv : FatInv p) (hs : start ≠ END)
    (h : freeChainFrom p start = .ok p') : p.free.length < p'.free.length := by
  have r := freeChain_spec _ inv h
  have hsub : ∀ i ∈ p.free, i ∈ p'.free := r.2.2.1
  have hstart : start ∈ p'.free := r.2.2.2 hs
  have hnot : start ∉ p.free := by
    intro hm
    -- a member of the free list has a FREE cell, and `free_chain` refuses a FREE start
    unfold freeChainFrom freeChain at h
    rw [if_neg hs] at h
    cases hn : nextSector p.fat start with
    | error k => simp [hn] at h
    | ok next =>
      simp only [hn] at h
      rw [if_pos (inv.freeFree start hm)] at h
      cases h
  -- p.free ⊆ p'.free, both without duplicates, and `start` is extra
  have hnd := inv.freeNodup
  have : (start :: p.free).Nodup := List.nodup_cons.mpr ⟨hnot, hnd⟩
  have hsub' : ∀ i ∈ start :: p.free, i ∈ p'.free := by
    intro i hi
    simp only [List.mem_cons] at hi
    rcases hi with rfl | hi
    · exact hstart
    · exact hsub i hi
  have hle := List.Nodup.length_le_of_subset this (fun i hi => hsub' i hi)
  simp only [List.length_cons] at hle
  omega

end CfbVerif.Phys
