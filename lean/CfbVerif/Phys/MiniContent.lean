import CfbVerif.Phys.Content
import CfbVerif.Phys.OpenBack
/-!
# The mini-chain layer stores and returns bytes

A mini sector `m` lives in the mini stream — the root entry's chain `root` — at byte `m * 64`:
`locateMini` computes `(root[m / per], (m % per) * 64)` with `per = S / 64`, which is the same place
(`mini_pos`).  So a mini chain `mids` is a list of 64-byte windows of `chainBytes p root`:
* `miniBytes p root mids` is their concatenation; `miniByteAt` addresses one byte of it through the
  root chain (`miniBytes_get`);
* `miniWriteAt_spec`: one `MiniChain::write` chunk replaces exactly its bytes of the root chain;
* `miniChainWrite_spec`: the `write_all` loop over `MiniChain::write` inside the mini chain's extent
  replaces exactly `[off, off + len)` of the mini chain's bytes, changes no byte of the mini stream
  outside the mini sectors of `mids`, no sector outside the root chain, and nothing but sectors;
* `miniChainRead_spec`: the `read_exact` loop over `MiniChain::read` returns `miniBytes.drop off |>.take n`;
* `miniChainWrite_read` (round trip) and `miniChainWrite_frame` (another mini chain that shares no
  mini sector keeps its bytes; a regular chain that shares no sector with the root chain keeps its
  bytes).
-/
namespace CfbVerif.Phys
open CfbVerif.Raw

/-- mini sectors per sector -/
def P.per (p : P) : Nat := p.S / MINI

theorem MINI_eq : MINI = 64 := rfl

theorem S_eq_per (p : P) : p.S = p.per * 64 := by
  unfold P.per P.S sectorLenOf MINI
  split <;> decide

theorem per_pos (p : P) : 0 < p.per := by
  have := S_pos p
  have := S_eq_per p
  omega

/-- byte `r` of mini sector `m` is byte `m * 64 + r` of the mini stream: same sector of the root
chain, same offset inside it, as `locateMini` computes -/
theorem mini_pos (p : P) (m r : Nat) (hr : r < 64) :
    (m * 64 + r) / p.S = m / p.per ∧ (m * 64 + r) % p.S = (m % p.per) * 64 + r := by
  have hper := per_pos p
  have hS := S_eq_per p
  have hm : p.per * (m / p.per) + m % p.per = m := Nat.div_add_mod m p.per
  have ht : m % p.per < p.per := Nat.mod_lt _ hper
  have hx : (m % p.per) * 64 + r < p.S := by
    rw [hS]
    have : (m % p.per + 1) * 64 ≤ p.per * 64 := Nat.mul_le_mul_right _ ht
    rw [Nat.add_mul] at this
    omega
  have e : m * 64 + r = ((m % p.per) * 64 + r) + p.S * (m / p.per) := by
    have e2 : p.S * (m / p.per) = (p.per * (m / p.per)) * 64 := by rw [hS]; ac_rfl
    rw [e2]
    conv => lhs; rw [← hm]
    rw [Nat.add_mul]
    omega
  rw [e]
  constructor
  · rw [Nat.add_mul_div_left _ _ (S_pos p), Nat.div_eq_of_lt hx, Nat.zero_add]
  · rw [Nat.add_mul_mod_self_left, Nat.mod_eq_of_lt hx]

theorem locateMini_ok {p : P} {root : List Nat} (hroot : chainIds p p.rootStart = .ok root) {m : Nat}
    (hm : m / p.per < root.length) : locateMini p m = .ok (root[m / p.per], (m % p.per) * MINI) := by
  unfold locateMini
  rw [hroot]
  show (match root[m / (p.S / MINI)]? with
    | none => bad
    | some sid => pure (sid, (m % (p.S / MINI)) * MINI)) = _
  have : root[m / (p.S / MINI)]? = some root[m / p.per] := List.getElem?_eq_getElem hm
  rw [this]
  rfl

theorem sameButSectors_root {p p' : P} (h : SameButSectors p p') :
    chainIds p' p'.rootStart = chainIds p p.rootStart := by
  unfold SameButSectors at h; rw [h]; rfl

theorem sameButSectors_per {p p' : P} (h : SameButSectors p p') : p'.per = p.per := by
  unfold P.per; rw [sameButSectors_S h]

/-- **one chunk of `MiniChain::write`** (inside mini sector `m`, which lies inside the mini stream)
replaces exactly its bytes of the root chain -/
theorem miniWriteAt_spec {p : P} (ss : SS p) {root : List Nat} (hroot : chainIds p p.rootStart = .ok root)
    (hp : Present p root) (nd : root.Nodup) {m off : Nat} {chunk : Bytes} (hm : m / p.per < root.length)
    (ho : off < 64) (hfit : off + chunk.length ≤ 64) :
    ∃ p', miniWriteAt p m off chunk = .ok p' ∧ SameButSectors p p' ∧ SS p' ∧ Present p' root ∧
      (∀ i, i ∉ root → p'.sectors[i]? = p.sectors[i]?) ∧
      (∀ j, byteAt p' root j = if m * 64 + off ≤ j ∧ j < m * 64 + off + chunk.length
        then chunk[j - (m * 64 + off)]? else byteAt p root j) := by
  obtain ⟨hd, hmod⟩ := mini_pos p m off ho
  have hS := S_eq_per p
  have ht : m % p.per < p.per := Nat.mod_lt _ (per_pos p)
  have hfitS : (m % p.per) * 64 + off + chunk.length ≤ p.S := by
    rw [hS]
    have : (m % p.per + 1) * 64 ≤ p.per * 64 := Nat.mul_le_mul_right _ ht
    rw [Nat.add_mul] at this
    omega
  obtain ⟨sec, hsec⟩ := hp _ (List.getElem_mem hm)
  obtain ⟨p', hw, hsame, ss', hnew, hother, hex⟩ :=
    writeSector_spec ss (id := root[m / p.per]) (off := (m % p.per) * 64 + off) (chunk := chunk) hsec hfitS
  refine ⟨p', ?_, hsame, ss', ?_, ?_, ?_⟩
  · unfold miniWriteAt
    rw [locateMini_ok hroot hm]
    exact hw
  · intro id hid
    by_cases he : id = root[m / p.per]
    · rw [he]; exact hex
    · rw [hother id he]; exact hp id hid
  · intro i hi
    exact hother i (fun e => hi (e ▸ List.getElem_mem hm))
  · intro j
    have hidx : (m * 64 + off) / p.S < root.length := by rw [hd]; exact hm
    have hb := byteAt_writeSector ss root nd (m * 64 + off) chunk hidx (by rw [hmod]; exact hfitS)
      (sameButSectors_S hsame)
      (by simp only [hd, hmod]; exact hnew)
      (by simp only [hd]; exact secList_length ss hsec)
      (by simp only [hd]; exact hother) j
    exact hb

/-! ## the bytes of a mini chain -/

/-- byte `j` of the mini chain `mids`, through its mini sector and the root chain -/
def miniByteAt (p : P) (root mids : List Nat) (j : Nat) : Option UInt8 :=
  (mids[j / 64]?).bind (fun m => byteAt p root (m * 64 + j % 64))

/-- the mini chain's bytes after one chunk was written into its mini sector `off / 64` -/
theorem miniByteAt_step {p p' : P} {root mids : List Nat} (nd : mids.Nodup) (off : Nat) (chunk : Bytes)
    (hidx : off / 64 < mids.length) (hfit : off % 64 + chunk.length ≤ 64)
    (hb : ∀ i, byteAt p' root i =
      if mids[off / 64] * 64 + off % 64 ≤ i ∧ i < mids[off / 64] * 64 + off % 64 + chunk.length
      then chunk[i - (mids[off / 64] * 64 + off % 64)]? else byteAt p root i) (j : Nat) :
    miniByteAt p' root mids j =
      if off ≤ j ∧ j < off + chunk.length then chunk[j - off]? else miniByteAt p root mids j := by
  unfold miniByteAt
  by_cases hj : j / 64 < mids.length
  · rw [List.getElem?_eq_getElem hj]
    simp only [Option.bind_some]
    rw [hb]
    by_cases hsame : j / 64 = off / 64
    · have hm : mids[j / 64] = mids[off / 64] := by simp only [hsame]
      rw [hm]
      by_cases hin : off ≤ j ∧ j < off + chunk.length
      · rw [if_pos hin, if_pos (by omega)]
        congr 1
        omega
      · rw [if_neg hin, if_neg (by omega)]
    · have hne : mids[j / 64] ≠ mids[off / 64] := fun e => hsame (nodup_getElem_inj nd hj hidx e)
      rw [if_neg (by omega), if_neg (by omega)]
  · rw [List.getElem?_eq_none (Nat.not_lt.mp hj)]
    rw [if_neg (by omega)]
    rfl

/-- a byte of the mini stream outside the written mini sector is not touched by that chunk -/
theorem outside_step {p p' : P} {root : List Nat} {m off : Nat} {chunk : Bytes} (hfit : off + chunk.length ≤ 64)
    (hb : ∀ i, byteAt p' root i = if m * 64 + off ≤ i ∧ i < m * 64 + off + chunk.length
      then chunk[i - (m * 64 + off)]? else byteAt p root i)
    (i : Nat) (hi : ¬ (m * 64 ≤ i ∧ i < m * 64 + 64)) : byteAt p' root i = byteAt p root i := by
  rw [hb, if_neg (by omega)]

/-- **`miniChainWrite` inside the mini chain's extent replaces exactly the bytes `[off, off + len)`** of the
mini chain, keeps its list, leaves every byte of the mini stream outside the mini sectors of `mids`
alone, touches no sector outside the root chain and nothing but sectors -/
theorem miniChainWrite_spec {root : List Nat} (fuel : Nat) : ∀ (p : P) (mids : List Nat) (off : Nat) (bs : Bytes),
    SS p → chainIds p p.rootStart = .ok root → Present p root → root.Nodup → mids.Nodup →
    (∀ m ∈ mids, m / p.per < root.length) → off + bs.length ≤ mids.length * 64 → bs.length + 1 ≤ fuel →
    ∃ p', miniChainWrite fuel p mids off bs = .ok (p', mids) ∧ SameButSectors p p' ∧ SS p' ∧ Present p' root ∧
      (∀ i, i ∉ root → p'.sectors[i]? = p.sectors[i]?) ∧
      (∀ j, miniByteAt p' root mids j =
        if off ≤ j ∧ j < off + bs.length then bs[j - off]? else miniByteAt p root mids j) ∧
      (∀ i, (∀ m ∈ mids, ¬ (m * 64 ≤ i ∧ i < m * 64 + 64)) → byteAt p' root i = byteAt p root i) := by
  induction fuel with
  | zero => intro p mids off bs _ _ _ _ _ _ _ hf; omega
  | succ fuel ih =>
    intro p mids off bs ss hroot hp ndr nd hin hlen hf
    unfold miniChainWrite
    cases hbs : bs with
    | nil =>
      simp only [List.isEmpty_nil, if_true]
      refine ⟨p, rfl, rfl, ss, hp, fun _ _ => rfl, ?_, fun _ _ => rfl⟩
      intro j
      rw [if_neg (by simp)]
    | cons b0 brest =>
      rw [← hbs]
      have hne : bs.isEmpty = false := by rw [hbs]; rfl
      rw [hne]
      simp only [Bool.false_eq_true, if_false]
      have hpos : 0 < bs.length := by rw [hbs]; simp
      rw [MINI_eq]
      rw [if_neg (by omega)]
      simp only
      have hidx : off / 64 < mids.length := by omega
      rw [List.getElem?_eq_getElem hidx]
      simp only
      generalize hn : min bs.length (64 - off % 64) = n
      have hn1 : 1 ≤ n := by omega
      have hnl : n ≤ bs.length := by omega
      have htk : (bs.take n).length = n := by rw [List.length_take]; omega
      obtain ⟨p2, hw, hsame, ss2, hp2, hother, hb⟩ :=
        miniWriteAt_spec ss hroot hp ndr (m := mids[off / 64]) (off := off % 64) (chunk := bs.take n)
          (hin _ (List.getElem_mem hidx)) (by omega) (by rw [htk]; omega)
      rw [hw]
      simp only
      have hroot2 : chainIds p2 p2.rootStart = .ok root := by rw [sameButSectors_root hsame]; exact hroot
      have hper2 : p2.per = p.per := sameButSectors_per hsame
      obtain ⟨p', hcw, hsame', ss', hp', hout', hpt', hfr'⟩ :=
        ih p2 mids (off + n) (bs.drop n) ss2 hroot2 hp2 ndr nd (by rw [hper2]; exact hin)
          (by rw [List.length_drop]; omega) (by rw [List.length_drop]; omega)
      refine ⟨p', hcw, ?_, ss', hp', ?_, ?_, ?_⟩
      · unfold SameButSectors at hsame hsame' ⊢
        rw [hsame', hsame]
      · intro i hi
        rw [hout' i hi, hother i hi]
      · intro j
        rw [hpt' j]
        have hb2 := miniByteAt_step nd off (bs.take n) hidx (by rw [htk]; omega) hb j
        rw [hb2, htk, List.length_drop]
        by_cases h1 : off + n ≤ j ∧ j < off + n + (bs.length - n)
        · rw [if_pos h1, if_pos (by omega), List.getElem?_drop]
          congr 1
          omega
        · rw [if_neg h1]
          by_cases h2 : off ≤ j ∧ j < off + n
          · rw [if_pos h2, if_pos (by omega), List.getElem?_take_of_lt (by omega)]
          · rw [if_neg h2, if_neg (by omega)]
      · intro i hi
        rw [hfr' i hi]
        exact outside_step (by rw [htk]; omega) hb i (hi _ (List.getElem_mem hidx))

/-! ## the mini chain as a byte list -/

/-- the 64 bytes of mini sector `m`, cut out of the mini stream -/
def miniBlk (p : P) (root : List Nat) (m : Nat) : List UInt8 := ((chainBytes p root).drop (m * 64)).take 64

/-- the contents of the mini chain's mini sectors, in chain order -/
def miniBytes (p : P) (root mids : List Nat) : List UInt8 := (mids.map (miniBlk p root)).flatten

theorem mini_in_range {p : P} {root : List Nat} {m : Nat} (hm : m / p.per < root.length) :
    m * 64 + 64 ≤ root.length * p.S := by
  have hd : p.per * (m / p.per) + m % p.per = m := Nat.div_add_mod m p.per
  have ht : m % p.per < p.per := Nat.mod_lt _ (per_pos p)
  have h1 : p.per * (m / p.per + 1) ≤ p.per * root.length := Nat.mul_le_mul_left _ hm
  rw [Nat.mul_add, Nat.mul_one] at h1
  have e : root.length * p.S = (p.per * root.length) * 64 := by rw [S_eq_per p]; ac_rfl
  rw [e]
  omega

theorem miniBlk_length {p : P} (ss : SS p) {root : List Nat} (hp : Present p root) {m : Nat}
    (hm : m / p.per < root.length) : (miniBlk p root m).length = 64 := by
  unfold miniBlk
  rw [List.length_take, List.length_drop, chainBytes_length ss root hp]
  have := mini_in_range hm
  omega

theorem miniBlk_get {p : P} (ss : SS p) {root : List Nat} (hp : Present p root) (m r : Nat) (hr : r < 64) :
    (miniBlk p root m)[r]? = byteAt p root (m * 64 + r) := by
  unfold miniBlk
  rw [List.getElem?_take_of_lt hr, List.getElem?_drop, chainBytes_get ss root hp]

/-- a concatenation of blocks of length `B`, addressed by block and offset -/
theorem blocks_get {α : Type} (B : Nat) (hB : 0 < B) : ∀ (blocks : List (List α)), (∀ b ∈ blocks, b.length = B) →
    ∀ j, blocks.flatten[j]? = (blocks[j / B]?).bind (fun b => b[j % B]?) := by
  intro blocks
  induction blocks with
  | nil => intro _ j; simp
  | cons b rest ih =>
    intro hb j
    have hbl : b.length = B := hb b (by simp)
    rw [List.flatten_cons]
    by_cases hj : j < B
    · rw [List.getElem?_append_left (by omega), Nat.div_eq_of_lt hj, Nat.mod_eq_of_lt hj]
      rfl
    · have hge : B ≤ j := Nat.not_lt.mp hj
      rw [List.getElem?_append_right (by omega), hbl]
      rw [ih (fun x hx => hb x (List.mem_cons_of_mem _ hx)) (j - B)]
      have e : j = (j - B) + B := by omega
      have hd : j / B = (j - B) / B + 1 := by
        conv => lhs; rw [e]
        exact Nat.add_div_right _ hB
      have hm : j % B = (j - B) % B := by
        conv => lhs; rw [e]
        exact Nat.add_mod_right _ _
      rw [hd, hm, List.getElem?_cons_succ]

theorem miniBytes_get {p : P} (ss : SS p) {root : List Nat} (hp : Present p root) (mids : List Nat)
    (hin : ∀ m ∈ mids, m / p.per < root.length) (j : Nat) :
    (miniBytes p root mids)[j]? = miniByteAt p root mids j := by
  unfold miniBytes miniByteAt
  have hblocks : ∀ b ∈ mids.map (miniBlk p root), b.length = 64 := by
    intro b hb
    obtain ⟨m, hm, rfl⟩ := List.mem_map.mp hb
    exact miniBlk_length ss hp (hin m hm)
  rw [blocks_get 64 (by decide) _ hblocks j, List.getElem?_map]
  cases mids[j / 64]? with
  | none => rfl
  | some m =>
    simp only [Option.map_some, Option.bind_some]
    exact miniBlk_get ss hp m (j % 64) (Nat.mod_lt _ (by decide))

theorem miniBytes_length {p : P} (ss : SS p) {root : List Nat} (hp : Present p root) : ∀ (mids : List Nat),
    (∀ m ∈ mids, m / p.per < root.length) → (miniBytes p root mids).length = mids.length * 64 := by
  intro mids
  induction mids with
  | nil => intro _; simp [miniBytes]
  | cons m rest ih =>
    intro hin
    have := ih (fun x hx => hin x (List.mem_cons_of_mem _ hx))
    simp only [miniBytes, List.map_cons, List.flatten_cons, List.length_append] at this ⊢
    rw [miniBlk_length ss hp (hin m (by simp)), this, List.length_cons, Nat.add_mul]
    omega

/-- a piece of mini sector `m`, read through the sector of the root chain it lies in -/
theorem miniBlk_sub {p : P} (ss : SS p) {root : List Nat} (hp : Present p root) {m : Nat}
    (hm : m / p.per < root.length) (r k : Nat) (hr : r < 64) (hrk : r + k ≤ 64) :
    ((miniBlk p root m).drop r).take k =
      ((secList p root[m / p.per]).drop ((m % p.per) * 64 + r)).take k := by
  obtain ⟨hd, hmod⟩ := mini_pos p m r hr
  have hS := S_eq_per p
  have ht : m % p.per < p.per := Nat.mod_lt _ (per_pos p)
  have hfitS : (m % p.per) * 64 + r + k ≤ p.S := by
    rw [hS]
    have : (m % p.per + 1) * 64 ≤ p.per * 64 := Nat.mul_le_mul_right _ ht
    rw [Nat.add_mul] at this
    omega
  have hblocks : ∀ b ∈ root.map (secList p), b.length = p.S := by
    intro b hb
    obtain ⟨id, hid, rfl⟩ := List.mem_map.mp hb
    obtain ⟨s2, hs2⟩ := hp id hid
    exact secList_length ss hs2
  have hb := flatten_drop_take p.S (root.map (secList p)) hblocks (m / p.per) ((m % p.per) * 64 + r) k
    (by simpa using hm) hfitS
  have hpos : m / p.per * p.S + ((m % p.per) * 64 + r) = m * 64 + r := by
    have := Nat.div_add_mod (m * 64 + r) p.S
    rw [hd, hmod] at this
    rw [Nat.mul_comm]; exact this
  rw [hpos] at hb
  have hget : (root.map (secList p))[m / p.per]?.getD [] = secList p root[m / p.per] := by
    rw [List.getElem?_map, List.getElem?_eq_getElem hm]; rfl
  rw [hget] at hb
  rw [← hb]
  unfold miniBlk chainBytes
  rw [List.drop_take, List.take_take, List.drop_drop, Nat.min_eq_left (by omega)]

/-- **`miniChainRead` returns the bytes of the mini chain**: `n` bytes from offset `off` -/
theorem miniChainRead_spec {root : List Nat} (fuel : Nat) : ∀ (p : P) (mids : List Nat) (off n : Nat) (acc : Bytes),
    SS p → chainIds p p.rootStart = .ok root → Present p root → (∀ m ∈ mids, m / p.per < root.length) →
    off + n ≤ mids.length * 64 → n + 1 ≤ fuel →
    miniChainRead fuel p mids off n acc = .ok (acc ++ ((miniBytes p root mids).drop off).take n) := by
  induction fuel with
  | zero => intro p mids off n acc _ _ _ _ _ hf; omega
  | succ fuel ih =>
    intro p mids off n acc ss hroot hp hin hlen hf
    unfold miniChainRead
    by_cases hn : n = 0
    · rw [if_pos hn, hn]; simp
    · rw [if_neg hn]
      rw [MINI_eq]
      dsimp only
      have hidx : off / 64 < mids.length := by omega
      rw [List.getElem?_eq_getElem hidx]
      simp only
      have hm := hin _ (List.getElem_mem hidx)
      rw [locateMini_ok hroot hm, MINI_eq]
      simp only
      generalize hk : min n (64 - off % 64) = k
      have hk1 : 1 ≤ k := by omega
      have hkn : k ≤ n := by omega
      have hk64 : off % 64 + k ≤ 64 := by omega
      obtain ⟨sec, hsec⟩ := hp _ (List.getElem_mem hm)
      have hread : readSector p root[mids[off / 64] / p.per] ((mids[off / 64] % p.per) * 64 + off % 64) k =
          .ok (((secList p root[mids[off / 64] / p.per]).drop ((mids[off / 64] % p.per) * 64 + off % 64)).take k) := by
        unfold readSector secList
        rw [hsec]
        simp only [Option.map_some, Option.getD_some]
        rw [extract_toList]
        congr 2
        omega
      rw [hread]
      simp only
      rw [ih p mids (off + k) (n - k) _ ss hroot hp hin (by omega) (by omega)]
      congr 1
      rw [List.append_assoc]
      congr 1
      rw [← miniBlk_sub ss hp hm (off % 64) k (Nat.mod_lt _ (by decide)) hk64]
      have hblocks : ∀ b ∈ mids.map (miniBlk p root), b.length = 64 := by
        intro b hb
        obtain ⟨m, hm', rfl⟩ := List.mem_map.mp hb
        exact miniBlk_length ss hp (hin m hm')
      have hb := flatten_drop_take 64 (mids.map (miniBlk p root)) hblocks (off / 64) (off % 64) k (by simpa using hidx) hk64
      have hdecomp : off / 64 * 64 + off % 64 = off := by omega
      rw [hdecomp] at hb
      have hget : (mids.map (miniBlk p root))[off / 64]?.getD [] = miniBlk p root mids[off / 64] := by
        rw [List.getElem?_map, List.getElem?_eq_getElem hidx]; rfl
      rw [hget] at hb
      show _ ++ _ = List.take n (List.drop off (miniBytes p root mids))
      unfold miniBytes
      rw [← hb]
      have e1 : n = k + (n - k) := by omega
      conv => rhs; rw [e1, List.take_add]
      rw [List.drop_drop]

/-! ## round trip and frame -/

/-- **what was written into a mini chain is read back, and the rest of the mini chain is as it was** -/
theorem miniChainWrite_read {root : List Nat} (p : P) (mids : List Nat) (off : Nat) (bs : Bytes)
    (ss : SS p) (hroot : chainIds p p.rootStart = .ok root) (hp : Present p root) (ndr : root.Nodup)
    (nd : mids.Nodup) (hin : ∀ m ∈ mids, m / p.per < root.length) (hlen : off + bs.length ≤ mids.length * 64) :
    ∃ p', miniChainWrite (bs.length + 2) p mids off bs = .ok (p', mids) ∧
      miniChainRead (bs.length + 2) p' mids off bs.length [] = .ok bs ∧
      miniBytes p' root mids = (miniBytes p root mids).take off ++ bs ++ (miniBytes p root mids).drop (off + bs.length) ∧
      (∀ i, i ∉ root → p'.sectors[i]? = p.sectors[i]?) ∧
      (∀ i, (∀ m ∈ mids, ¬ (m * 64 ≤ i ∧ i < m * 64 + 64)) → byteAt p' root i = byteAt p root i) := by
  obtain ⟨p', hw, hsame, ss', hp', hout, hpt, hfr⟩ :=
    miniChainWrite_spec (bs.length + 2) p mids off bs ss hroot hp ndr nd hin hlen (by omega)
  have hroot' : chainIds p' p'.rootStart = .ok root := by rw [sameButSectors_root hsame]; exact hroot
  have hin' : ∀ m ∈ mids, m / p'.per < root.length := by rw [sameButSectors_per hsame]; exact hin
  have hB : miniBytes p' root mids =
      (miniBytes p root mids).take off ++ bs ++ (miniBytes p root mids).drop (off + bs.length) := by
    have hl := miniBytes_length ss hp mids hin
    apply List.ext_getElem?
    intro j
    rw [miniBytes_get ss' hp' mids hin' j, hpt j]
    have htl : ((miniBytes p root mids).take off).length = off := by rw [List.length_take, hl]; omega
    by_cases h1 : off ≤ j ∧ j < off + bs.length
    · rw [if_pos h1, List.append_assoc, List.getElem?_append_right (by rw [htl]; exact h1.1), htl,
        List.getElem?_append_left (by omega)]
    · rw [if_neg h1, ← miniBytes_get ss hp mids hin j]
      by_cases h2 : j < off
      · rw [List.append_assoc, List.getElem?_append_left (by rw [htl]; exact h2), List.getElem?_take_of_lt h2]
      · rw [List.getElem?_append_right (by rw [List.length_append, htl]; omega), List.length_append, htl, List.getElem?_drop]
        congr 1
        omega
  refine ⟨p', hw, ?_, hB, hout, hfr⟩
  rw [miniChainRead_spec _ p' mids off bs.length [] ss' hroot' hp' hin' hlen (by omega), hB]
  have hl := miniBytes_length ss hp mids hin
  have htl : ((miniBytes p root mids).take off).length = off := by rw [List.length_take, hl]; omega
  have hd : List.drop off ((miniBytes p root mids).take off ++ (bs ++ (miniBytes p root mids).drop (off + bs.length))) =
      bs ++ (miniBytes p root mids).drop (off + bs.length) := by
    rw [List.drop_append_of_le_length (by rw [htl]; exact Nat.le_refl _), List.drop_eq_nil_of_le (by rw [htl]; exact Nat.le_refl _),
      List.nil_append]
  rw [List.nil_append, List.append_assoc, hd, List.take_append_of_le_length (Nat.le_refl _), List.take_of_length_le (Nat.le_refl _)]

/-- a mini chain none of whose mini sectors was touched keeps its bytes -/
theorem miniBytes_frame {p p' : P} (ss : SS p) (ss' : SS p') {root : List Nat} (hp : Present p root) (hp' : Present p' root)
    (hper : p'.per = p.per) (mids2 : List Nat) (hin2 : ∀ m ∈ mids2, m / p.per < root.length)
    (h : ∀ m ∈ mids2, ∀ r, r < 64 → byteAt p' root (m * 64 + r) = byteAt p root (m * 64 + r)) :
    miniBytes p' root mids2 = miniBytes p root mids2 := by
  apply List.ext_getElem?
  intro j
  rw [miniBytes_get ss' hp' mids2 (by rw [hper]; exact hin2) j, miniBytes_get ss hp mids2 hin2 j]
  unfold miniByteAt
  by_cases hj : j / 64 < mids2.length
  · rw [List.getElem?_eq_getElem hj]
    simp only [Option.bind_some]
    exact h _ (List.getElem_mem hj) _ (Nat.mod_lt _ (by decide))
  · rw [List.getElem?_eq_none (Nat.not_lt.mp hj)]
    rfl

/-- **writing into one mini chain leaves every mini chain that shares no mini sector with it, and every
regular chain that shares no sector with the mini stream, byte for byte as it was** (with single
ownership of mini sectors and sectors — `noShareMini_reachable`, `noShare_reachable` — this is: a
write to one small stream changes no other stream's bytes) -/
theorem miniChainWrite_frame {root : List Nat} (p : P) (mids mids2 ids2 : List Nat) (off : Nat) (bs : Bytes)
    (ss : SS p) (hroot : chainIds p p.rootStart = .ok root) (hp : Present p root) (ndr : root.Nodup)
    (nd : mids.Nodup) (hin : ∀ m ∈ mids, m / p.per < root.length) (hlen : off + bs.length ≤ mids.length * 64)
    (hin2 : ∀ m ∈ mids2, m / p.per < root.length) (hdisjM : ∀ m ∈ mids2, m ∉ mids) (hdisjR : ∀ id ∈ ids2, id ∉ root) :
    ∃ p', miniChainWrite (bs.length + 2) p mids off bs = .ok (p', mids) ∧
      miniBytes p' root mids2 = miniBytes p root mids2 ∧ chainBytes p' ids2 = chainBytes p ids2 := by
  obtain ⟨p', hw, hsame, ss', hp', hout, _, hfr⟩ :=
    miniChainWrite_spec (bs.length + 2) p mids off bs ss hroot hp ndr nd hin hlen (by omega)
  refine ⟨p', hw, ?_, chainBytes_frame ids2 (fun id hid => hout id (hdisjR id hid))⟩
  apply miniBytes_frame ss ss' hp hp' (sameButSectors_per hsame) mids2 hin2
  intro m2 hm2 r hr
  apply hfr
  intro m hm
  have hne : m ≠ m2 := fun e => hdisjM m2 hm2 (e ▸ hm)
  omega

/-! ## zero-filling a mini sector (`MiniChain::set_len` growing: every mini sector it adds is overwritten) -/

/-- **the write that `miniChainGrow` makes into each mini sector it adds** — 64 zero bytes at offset 0 of mini
sector `m` — leaves that mini sector all zero, whatever it held (mini sectors are reused without being
reinitialised), and changes no byte of the mini stream outside it and no sector outside the root chain -/
theorem miniZero_spec {p : P} (ss : SS p) {root : List Nat} (hroot : chainIds p p.rootStart = .ok root)
    (hp : Present p root) (nd : root.Nodup) {m : Nat} (hm : m / p.per < root.length) :
    ∃ p', miniWriteAt p m 0 (List.replicate MINI 0) = .ok p' ∧ SameButSectors p p' ∧ SS p' ∧ Present p' root ∧
      (∀ i, i ∉ root → p'.sectors[i]? = p.sectors[i]?) ∧
      (∀ r, r < 64 → byteAt p' root (m * 64 + r) = some 0) ∧
      (∀ i, ¬ (m * 64 ≤ i ∧ i < m * 64 + 64) → byteAt p' root i = byteAt p root i) := by
  have hl : (List.replicate MINI (0 : UInt8)).length = 64 := by rw [List.length_replicate]; rfl
  obtain ⟨p', hw, hsame, ss', hp', hout, hb⟩ :=
    miniWriteAt_spec ss hroot hp nd (m := m) (off := 0) (chunk := List.replicate MINI 0) hm (by decide) (by rw [hl]; decide)
  refine ⟨p', hw, hsame, ss', hp', hout, ?_, ?_⟩
  · intro r hr
    rw [hb, hl, if_pos (by omega)]
    have : m * 64 + r - (m * 64 + 0) = r := by omega
    rw [this, List.getElem?_replicate, if_pos (by rw [MINI_eq]; exact hr)]
  · intro i hi
    rw [hb, hl, if_neg (by omega)]

/-- … so the zeroed mini sector reads as 64 zeros through the mini-chain layer, and every other mini
sector of the mini stream reads what it read before -/
theorem miniZero_blk {p : P} (ss : SS p) {root : List Nat} (hroot : chainIds p p.rootStart = .ok root)
    (hp : Present p root) (nd : root.Nodup) {m : Nat} (hm : m / p.per < root.length) :
    ∃ p', miniWriteAt p m 0 (List.replicate MINI 0) = .ok p' ∧
      miniBlk p' root m = List.replicate 64 0 ∧
      (∀ m2, m2 ≠ m → m2 / p.per < root.length → miniBlk p' root m2 = miniBlk p root m2) := by
  obtain ⟨p', hw, hsame, ss', hp', _, hz, hfr⟩ := miniZero_spec ss hroot hp nd hm
  have hper : p'.per = p.per := sameButSectors_per hsame
  refine ⟨p', hw, ?_, ?_⟩
  · apply List.ext_getElem?
    intro r
    by_cases hr : r < 64
    · rw [miniBlk_get ss' hp' m r hr, hz r hr, List.getElem?_replicate, if_pos hr]
    · have hlen := miniBlk_length ss' hp' (m := m) (by rw [hper]; exact hm)
      rw [List.getElem?_eq_none (by omega), List.getElem?_eq_none (by rw [List.length_replicate]; omega)]
  · intro m2 hne hm2
    apply List.ext_getElem?
    intro r
    by_cases hr : r < 64
    · rw [miniBlk_get ss' hp' m2 r hr, miniBlk_get ss hp m2 r hr]
      apply hfr
      omega
    · have h1 := miniBlk_length ss' hp' (m := m2) (by rw [hper]; exact hm2)
      have h2 := miniBlk_length ss hp (m := m2) hm2
      rw [List.getElem?_eq_none (by omega), List.getElem?_eq_none (by omega)]

/-! ## the range premise, from what the lock-step asserts on every state -/

/-- the mini stream's chain covers the mini stream's length (the root entry's length): evaluated by the
phys driver on every state of every replayed history beside `miniFitB` -/
def rootCoverB (p : P) : Bool := decide (p.rootLen ≤ (chainOrEmpty p p.rootStart).length * p.S)

/-- **every cell of the in-memory MiniFAT names a mini sector that lies inside the mini stream's chain**:
from `MiniFit.root` (the MiniFAT is no longer than the mini stream: `C02_minifit_reachable`) and
`rootCoverB` (the mini stream's chain covers its length).  The ids of a mini chain are cells of the
MiniFAT, so this is the range premise of the mini-chain content theorems. -/
theorem mini_in_root {p : P} (fit : MiniFit p) (hc : rootCoverB p = true) {root : List Nat}
    (hroot : chainIds p p.rootStart = .ok root) {m : Nat} (hm : m < p.miniFat.size) : m / p.per < root.length := by
  have hcov : p.rootLen ≤ root.length * p.S := by
    have := of_decide_eq_true hc
    unfold chainOrEmpty at this
    rw [hroot] at this
    exact this
  have hr : p.miniFat.size ≤ p.rootLen / 64 := fit.root
  have h1 : (m + 1) * 64 ≤ p.rootLen := by
    have : (m + 1) ≤ p.rootLen / 64 := by omega
    calc (m + 1) * 64 ≤ p.rootLen / 64 * 64 := Nat.mul_le_mul_right _ this
      _ ≤ p.rootLen := Nat.div_mul_le_self _ _
  have hS := S_eq_per p
  have hper := per_pos p
  -- m * 64 + 64 ≤ root.length * per * 64, so m < root.length * per
  have h2 : m < root.length * p.per := by
    have e : root.length * p.S = (root.length * p.per) * 64 := by rw [hS]; ac_rfl
    rw [e] at hcov
    omega
  exact (Nat.div_lt_iff_lt_mul hper).mpr h2

end CfbVerif.Phys
