import CfbVerif.Phys.Inv
import CfbVerif.Phys.Api
/-!
# The allocator invariant in every state the API model can reach

`physOf` — the allocation-level effect of one API call — is a composition of the operations whose
summaries (`Good`) are proved in `Phys/Inv.lean`; so every call is `Good`, hence so is every
history, and the invariant proved for a fresh file holds after any sequence of calls (as long as
the file stays below 2³² − 1 sectors).
-/
namespace CfbVerif.Phys
open CfbVerif.Dir CfbVerif.Raw

theorem good_applyLogPhys (slot : Nat) (log : List StoreOp) : ∀ {p p' : P} {len : Nat},
    applyLogPhys p slot len log = .ok p' → Good p p' := by
  induction log with
  | nil => intro p p' len h; simp only [applyLogPhys] at h; cases h; exact Good.refl _
  | cons op rest ih =>
    intro p p' len h
    cases op with
    | write off bs =>
      simp only [applyLogPhys] at h
      split at h
      · rename_i q len' hw
        exact (good_writeData hw).trans (ih h)
      · cases h
      · cases h
      · cases h
    | resize n =>
      simp only [applyLogPhys] at h
      split at h
      · rename_i q hr
        exact (good_resize hr).trans (ih h)
      · cases h
      · cases h
      · cases h

theorem good_ensureSlots (slots : List Nat) : ∀ {p p' : P}, ensureSlots p slots = .ok p' → Good p p' := by
  induction slots with
  | nil => intro p p' h; simp only [ensureSlots] at h; cases h; exact Good.refl _
  | cons s rest ih =>
    intro p p' h
    simp only [ensureSlots] at h
    split at h
    · rename_i q he
      exact (good_ensureDirSlot he).trans (ih h)
    · cases h
    · cases h
    · cases h

theorem good_createStreamPhys {before after : SState} {p p' : P} {ch : List Names.Name} {r : Option Nat}
    (h : createStreamPhys before after p ch = .ok (p', r)) : Good p p' := by
  unfold createStreamPhys at h
  split at h
  · obtain ⟨q, hl, h⟩ := obind_ok h
    cases h
    exact good_applyLogPhys _ _ hl
  · split at h
    · obtain ⟨q, he, h⟩ := obind_ok h
      cases h
      exact (good_ensureSlots _ he).trans (Good.of_same (same_setStart _ _ _))
    · cases h; exact Good.refl _

theorem good_freeStreams (before : Tree) (infos : List Info) : ∀ {p p' : P}, freeStreams before p infos = .ok p' → Good p p' := by
  induction infos with
  | nil => intro p p' h; simp only [freeStreams] at h; cases h; exact Good.refl _
  | cons i rest ih =>
    intro p p' h
    simp only [freeStreams] at h
    split at h
    · split at h
      · split at h
        · rename_i q hf
          exact (good_freeStream hf).trans (ih h)
        · cases h
        · cases h
        · cases h
      · exact ih h
    · exact ih h

theorem good_dropAllPhys (s : SState) (hs : List HandleRec) : ∀ {p p' : P}, dropAllPhys s p hs = .ok p' → Good p p' := by
  induction hs with
  | nil => intro p p' h; simp only [dropAllPhys] at h; cases h; exact Good.refl _
  | cons r rest ih =>
    intro p p' h
    simp only [dropAllPhys] at h
    split at h
    · exact ih h
    · split at h
      · rename_i q hl
        exact (good_applyLogPhys _ _ hl).trans (ih h)
      · cases h
      · cases h
      · cases h

theorem good_handlePhys {s : SState} {p p' : P} {id : Nat} {log : Handle.H → Handle.Bytes → List StoreOp}
    (h : handlePhys s p id log = .ok p') : Good p p' := by
  unfold handlePhys at h
  split at h
  · cases h; exact Good.refl _
  · split at h
    · cases h; exact Good.refl _
    · exact good_applyLogPhys _ _ h

/-- every API call's allocation-level effect keeps the FAT at least as long and the invariant alive -/
theorem good_physOf {before after : SState} {out : HOut} {p p' : P} {op : HOp}
    (h : physOf before after out p op = .ok p') : Good p p' := by
  unfold physOf at h
  split at h
  · exact good_ensureSlots _ h
  · exact good_ensureSlots _ h
  all_goals first
    | (split at h
       · obtain ⟨q, hc, h⟩ := obind_ok h
         cases h
         exact good_createStreamPhys hc
       · obtain ⟨q, hc, h⟩ := obind_ok h
         cases h
         exact good_createStreamPhys hc
       · cases h; exact Good.refl _)
    | (split at h
       · obtain ⟨⟨p1, slot?⟩, hc, h⟩ := obind_ok h
         dsimp only at h
         split at h
         · cases h; exact good_createStreamPhys hc
         · exact (good_createStreamPhys hc).trans (good_applyLogPhys _ _ h)
       · cases h; exact Good.refl _)
    | (split at h
       · exact good_freeStream h
       · cases h; exact Good.refl _)
    | (split at h
       · exact good_freeStreams _ _ h
       · cases h; exact Good.refl _)
    | (obtain ⟨q, hd, h⟩ := obind_ok h
       exact (good_dropAllPhys _ _ hd).trans (good_reopen h))
    | exact good_handlePhys h
    | (cases h; exact Good.refl _)

theorem good_pstep (ps : PState) (op : HOp) : Good ps.p (pstep ps op).1.p := by
  unfold pstep
  generalize hstep ps.s op = r
  obtain ⟨s', out⟩ := r
  cases out with
  | noHandle => exact Good.refl _
  | base o =>
    dsimp only
    split
    · rename_i p' hp; exact good_physOf hp
    · exact Good.refl _
    · exact Good.refl _
    · exact Good.refl _

/-- a history of API calls -/
def prun (ps : PState) : List HOp → PState
  | [] => ps
  | op :: ops => prun (pstep ps op).1 ops

theorem good_prun (ops : List HOp) : ∀ ps : PState, Good ps.p (prun ps ops).p := by
  induction ops with
  | nil => intro ps; exact Good.refl _
  | cons op ops ih => intro ps; exact (good_pstep ps op).trans (ih _)

/-- **the allocator invariant holds after every history of API calls** on a fresh file of either
version, as long as the file has fewer than 2³² − 1 sectors -/
theorem inv_reachable (v4 : Bool) (maxBuf : Nat) (ops : List HOp)
    (small : Small (prun (PState.create v4 maxBuf) ops).p) : Inv (prun (PState.create v4 maxBuf) ops).p :=
  (good_prun ops _).inv (inv_create v4) small

end CfbVerif.Phys
