import CfbVerif.Phys.Render
import CfbVerif.Phys.Log
import CfbVerif.Dir.Handles
/-!
# The API over both levels: `Dir` decides *what* happens, `Phys` where the bytes go

Each API call is run on the logical model (`Dir.hstep`); its physical effects are then derived from
the logical states before and after it, in the order in which lib.rs / directory.rs / stream.rs
perform them:

* creating an entry: `allocate_dir_entry` (the directory chain may grow by a sector);
* overwriting a stream (`create_stream` on an existing one): `set_len(0)` through a fresh handle;
* handle calls: the store operations of `Phys.Log`, each a `write_data_to_stream` / `resize_stream`;
* removing a stream: its chain is freed (`remove_storage_all`: in reverse walk order);
* reopening: handles are dropped (ascending id), the free lists are rebuilt ascending.
-/
namespace CfbVerif.Phys
open CfbVerif.Dir CfbVerif.Names CfbVerif.Raw

structure PState where
  s : SState
  p : P

def PState.create (v4 : Bool) (maxBuf : Nat) : PState :=
  { s := { base := State.create, handles := [], maxBuf := maxBuf }, p := Phys.create v4 }

/-- replay a handle's store operations on the allocation level; `len` is the flushed length -/
def applyLogPhys (p : P) (slot : Nat) : Nat → List StoreOp → Outcome P
  | _, [] => .ok p
  | len, .write off bs :: rest =>
    match writeData p slot len off bs with
    | .ok (p', len') => applyLogPhys p' slot len' rest
    | .err k => .err k
    | .panic s => .panic s
    | .hang s => .hang s
  | len, .resize n :: rest =>
    match Phys.resize p slot len n with
    | .ok p' => applyLogPhys p' slot n rest
    | .err k => .err k
    | .panic s => .panic s
    | .hang s => .hang s

def insertAsc (x : Nat) : List Nat → List Nat
  | [] => [x]
  | y :: ys => if x ≤ y then x :: y :: ys else y :: insertAsc x ys

/-- slots that `after` uses and `before` did not, ascending (= the order `allocate_dir_entry`
handed them out: always the lowest unused) -/
def newSlots (before after : Tree) : List Nat :=
  ((after.slots.filter (fun s => !before.slots.contains s)).foldr insertAsc [])

def ensureSlots (p : P) : List Nat → Outcome P
  | [] => .ok p
  | s :: rest =>
    match ensureDirSlot p s with
    | .ok p' => ensureSlots p' rest
    | .err k => .err k
    | .panic m => .panic m
    | .hang m => .hang m

/-- the stream entry at a path: `(slot, flushed length)` -/
def streamAt (t : Tree) (ch : List Name) : Option (Nat × Nat) :=
  match resolve t ch with
  | some (.ent e _) => if e.isStream then some (e.slot, e.content.length) else none
  | _ => none

/-- `create_stream*` on the allocation level; returns the slot of the (new or truncated) stream -/
def createStreamPhys (before after : SState) (p : P) (ch : List Name) : Outcome (P × Option Nat) :=
  match streamAt before.base.top ch with
  | some (slot, len) =>
    -- overwrite: `Stream::new` + `set_len(0)`
    let h := Handle.H.new len before.maxBuf
    (applyLogPhys p slot len (setLenL h 0)).bind (fun p' => .ok (p', some slot))
  | none =>
    match streamAt after.base.top ch with
    | some (slot, _) => (ensureSlots p (newSlots before.base.top after.base.top)).bind
        (fun p' => .ok (setStart p' slot END, some slot))
    | none => .ok (p, none)

def freeStreams (before : Tree) (p : P) : List Info → Outcome P
  | [] => .ok p
  | i :: rest =>
    if i.kind = .stream then
      match (nameChain i.path).bind (streamAt before) with
      | some (slot, len) =>
        match freeStream p slot len with
        | .ok p' => freeStreams before p' rest
        | .err k => .err k
        | .panic m => .panic m
        | .hang m => .hang m
      | none => freeStreams before p rest
    else freeStreams before p rest

def dropAllPhys (s : SState) (p : P) : List HandleRec → Outcome P
  | [] => .ok p
  | r :: rest =>
    match s.base.top.contentOfSlot r.slot with
    | none => dropAllPhys s p rest
    | some st =>
      match applyLogPhys p r.slot st.length (flushL r.h) with
      | .ok p' =>
        -- the next handle sees the directory as the earlier drops left it; lengths of *other*
        -- slots are unaffected, so the pre-state is still right for them
        dropAllPhys s p' rest
      | .err k => .err k
      | .panic m => .panic m
      | .hang m => .hang m

def handlePhys (s : SState) (p : P) (id : Nat) (log : Handle.H → Handle.Bytes → List StoreOp) : Outcome P :=
  match findHandle s.handles id with
  | none => .ok p
  | some r =>
    match s.base.top.contentOfSlot r.slot with
    | none => .ok p
    | some st => applyLogPhys p r.slot st.length (log r.h st)

/-- the physical effects of one API call -/
def physOf (before after : SState) (out : HOut) (p : P) : HOp → Outcome P
  | .base (.mkdir _) | .base (.mkdirs _) =>
    ensureSlots p (newSlots before.base.top after.base.top)
  | .base (.mkstream q) | .base (.mknew q) | .hcreate _ q _ =>
    match out, nameChain q with
    | .base .ok, some ch | .base (.num _), some ch => (createStreamPhys before after p ch).bind (fun r => .ok r.1)
    | _, _ => .ok p
  | .base (.put q d) =>
    match out, nameChain q with
    | .base .ok, some ch =>
      (createStreamPhys before after p ch).bind (fun (p1, slot?) =>
        match slot? with
        | none => .ok p1
        | some slot =>
          let h0 := Handle.H.new 0 before.maxBuf
          let (h1, _) := Handle.writeAll h0 [] d
          applyLogPhys p1 slot 0 (writeAllL h0 [] d ++ flushL h1))
    | _, _ => .ok p
  | .base (.rm q) =>
    match out, (nameChain q).bind (streamAt before.base.top) with
    | .base .ok, some (slot, len) => freeStream p slot len
    | _, _ => .ok p
  | .base (.rmall q) =>
    match (nameChain q).bind (walkOf before.base) with
    | some infos =>
      -- only what the logical model really removed (it stops at the first refusal)
      freeStreams before.base.top p
        (infos.reverse.filter (fun i => ((nameChain i.path).bind (streamAt after.base.top)).isNone))
    | none => .ok p
  | .base .reopen =>
    (dropAllPhys before p (before.handles.foldr insertById [])).bind Phys.reopen
  | .hwrite id bs => handlePhys before p id (fun h st => stepDL h st (.writeAll bs))
  | .hread id n => handlePhys before p id (fun h st => stepDL h st (.readAll n))
  | .hseek id n => handlePhys before p id (fun h st => stepDL h st (.seek (.start n)))
  | .hsetlen id n => handlePhys before p id (fun h st => stepDL h st (.setLen n))
  | .hflush id => handlePhys before p id (fun h _ => flushL h)
  | .hclose id => handlePhys before p id (fun h _ => flushL h)
  | _ => .ok p

inductive PhysStatus
  | fine
  | failed (what : String)
deriving Repr

def pstep (ps : PState) (op : HOp) : PState × HOut × PhysStatus :=
  let (s', out) := hstep ps.s op
  match out with
  | .noHandle => (ps, out, .fine)
  | _ =>
    match physOf ps.s s' out ps.p op with
    | .ok p' => ({ s := s', p := p' }, out, .fine)
    | .err k => ({ s := s', p := ps.p }, out, .failed s!"err {repr k}")
    | .panic m => ({ s := s', p := ps.p }, out, .failed s!"panic {m}")
    | .hang m => ({ s := s', p := ps.p }, out, .failed s!"hang {m}")

def PState.image (ps : PState) : ByteArray := render ps.p (dirtable ps.s.base)

end CfbVerif.Phys
