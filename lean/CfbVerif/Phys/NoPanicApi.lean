import CfbVerif.Phys.NoPanic
import CfbVerif.Phys.ApiInv
/-!
# No API call reaches a panic exit of the allocation level — from any tables (C11)

`Phys/NoPanic.lean` composed over `physOf`: whatever the logical model (`Dir`) decides an API call
does — create, overwrite, whole-stream write, remove, recursive remove, reopen, every handle call
with the store operations it performs — the allocation-level effects derived from it never reach
a `panic` exit when the two free lists lie inside their tables (`WK`), and `WK` holds again after
the call, also when the allocation level answered with an error (the state is kept then).  Hence:
from every accepted image the two-level model can be loaded from (`ofImage`), along every API
history, no step panics.
-/
namespace CfbVerif.Phys
open CfbVerif.Raw CfbVerif.Dir

theorem np_applyLogPhys (slot : Nat) (log : List StoreOp) : ∀ (p : P) (len : Nat), WK p →
    NP (applyLogPhys p slot len log) := by
  induction log with
  | nil => intro p len _; simp only [applyLogPhys]; exact NP.ok _
  | cons op rest ih =>
    intro p len w
    cases op with
    | write off bs =>
      simp only [applyLogPhys]
      split
      · rename_i q len' hw
        exact ih q len' (kw_writeData hw w)
      · exact NP.err _
      · rename_i m hw
        exact absurd hw (np_writeData p slot len off bs w m)
      · exact NP.hang _
    | resize n =>
      simp only [applyLogPhys]
      split
      · rename_i q hr
        exact ih q n (kw_resize hr w)
      · exact NP.err _
      · rename_i m hr
        exact absurd hr (np_resize p slot len n w m)
      · exact NP.hang _

theorem kw_applyLogPhys (slot : Nat) (log : List StoreOp) : ∀ {p p' : P} {len : Nat},
    applyLogPhys p slot len log = .ok p' → KW p p' := by
  induction log with
  | nil => intro p p' len h; simp only [applyLogPhys] at h; cases h; exact KW.refl _
  | cons op rest ih =>
    intro p p' len h
    cases op with
    | write off bs =>
      simp only [applyLogPhys] at h
      split at h
      · rename_i q len' hw
        exact (kw_writeData hw).trans (ih h)
      · cases h
      · cases h
      · cases h
    | resize n =>
      simp only [applyLogPhys] at h
      split at h
      · rename_i q hr
        exact (kw_resize hr).trans (ih h)
      · cases h
      · cases h
      · cases h

theorem np_ensureSlots (slots : List Nat) : ∀ (p : P), WK p → NP (ensureSlots p slots) := by
  induction slots with
  | nil => intro p _; simp only [ensureSlots]; exact NP.ok _
  | cons s rest ih =>
    intro p w
    simp only [ensureSlots]
    split
    · rename_i q he
      exact ih q (kw_ensureDirSlot he w)
    · exact NP.err _
    · rename_i m he
      exact absurd he (np_ensureDirSlot p s w m)
    · exact NP.hang _

theorem kw_ensureSlots (slots : List Nat) : ∀ {p p' : P}, ensureSlots p slots = .ok p' → KW p p' := by
  induction slots with
  | nil => intro p p' h; simp only [ensureSlots] at h; cases h; exact KW.refl _
  | cons s rest ih =>
    intro p p' h
    simp only [ensureSlots] at h
    split at h
    · rename_i q he
      exact (kw_ensureDirSlot he).trans (ih h)
    · cases h
    · cases h
    · cases h

theorem np_createStreamPhys (before after : SState) (p : P) (ch : List Names.Name) (w : WK p) :
    NP (createStreamPhys before after p ch) := by
  unfold createStreamPhys
  split
  · exact NP.obind (np_applyLogPhys _ _ _ _ w) (fun _ _ => NP.ok _)
  · split
    · exact NP.obind (np_ensureSlots _ _ w) (fun _ _ => NP.ok _)
    · exact NP.ok _

theorem kw_createStreamPhys {before after : SState} {p p' : P} {ch : List Names.Name} {r : Option Nat}
    (h : createStreamPhys before after p ch = .ok (p', r)) : KW p p' := by
  unfold createStreamPhys at h
  split at h
  · obtain ⟨q, hl, h⟩ := obind_ok h
    cases h
    exact kw_applyLogPhys _ _ hl
  · split at h
    · obtain ⟨q, he, h⟩ := obind_ok h
      cases h
      exact fun w => wk_setStart (kw_ensureSlots _ he w) _ _
    · cases h; exact KW.refl _

theorem np_freeStreams (before : Tree) (infos : List Info) : ∀ (p : P), NP (freeStreams before p infos) := by
  induction infos with
  | nil => intro p; simp only [freeStreams]; exact NP.ok _
  | cons i rest ih =>
    intro p
    simp only [freeStreams]
    split
    · split
      · split
        · exact ih _
        · exact NP.err _
        · rename_i m hf
          exact absurd hf (np_freeStream _ _ _ m)
        · exact NP.hang _
      · exact ih _
    · exact ih _

theorem kw_freeStreams (before : Tree) (infos : List Info) : ∀ {p p' : P}, freeStreams before p infos = .ok p' → KW p p' := by
  induction infos with
  | nil => intro p p' h; simp only [freeStreams] at h; cases h; exact KW.refl _
  | cons i rest ih =>
    intro p p' h
    simp only [freeStreams] at h
    split at h
    · split at h
      · split at h
        · rename_i q hf
          exact (kw_freeStream hf).trans (ih h)
        · cases h
        · cases h
        · cases h
      · exact ih h
    · exact ih h

theorem np_dropAllPhys (s : SState) (hs : List HandleRec) : ∀ (p : P), WK p → NP (dropAllPhys s p hs) := by
  induction hs with
  | nil => intro p _; simp only [dropAllPhys]; exact NP.ok _
  | cons r rest ih =>
    intro p w
    simp only [dropAllPhys]
    split
    · exact ih p w
    · split
      · rename_i q hl
        exact ih q (kw_applyLogPhys _ _ hl w)
      · exact NP.err _
      · rename_i m hl
        exact absurd hl (np_applyLogPhys _ _ _ _ w m)
      · exact NP.hang _

theorem kw_dropAllPhys (s : SState) (hs : List HandleRec) : ∀ {p p' : P}, dropAllPhys s p hs = .ok p' → KW p p' := by
  induction hs with
  | nil => intro p p' h; simp only [dropAllPhys] at h; cases h; exact KW.refl _
  | cons r rest ih =>
    intro p p' h
    simp only [dropAllPhys] at h
    split at h
    · exact ih h
    · split at h
      · rename_i q hl
        exact (kw_applyLogPhys _ _ hl).trans (ih h)
      · cases h
      · cases h
      · cases h

theorem np_handlePhys (s : SState) (p : P) (id : Nat) (log : Handle.H → Handle.Bytes → List StoreOp) (w : WK p) :
    NP (handlePhys s p id log) := by
  unfold handlePhys
  split
  · exact NP.ok _
  · split
    · exact NP.ok _
    · exact np_applyLogPhys _ _ _ _ w

theorem kw_handlePhys {s : SState} {p p' : P} {id : Nat} {log : Handle.H → Handle.Bytes → List StoreOp}
    (h : handlePhys s p id log = .ok p') : KW p p' := by
  unfold handlePhys at h
  split at h
  · cases h; exact KW.refl _
  · split at h
    · cases h; exact KW.refl _
    · exact kw_applyLogPhys _ _ h

/-- **the allocation-level effects of any API call never reach a panic exit** -/
theorem np_physOf (before after : SState) (out : HOut) (p : P) (op : HOp) (w : WK p) :
    NP (physOf before after out p op) := by
  unfold physOf
  split
  · exact np_ensureSlots _ _ w
  · exact np_ensureSlots _ _ w
  all_goals first
    | (split
       · exact NP.obind (np_createStreamPhys _ _ _ _ w) (fun _ _ => NP.ok _)
       · exact NP.obind (np_createStreamPhys _ _ _ _ w) (fun _ _ => NP.ok _)
       · exact NP.ok _)
    | (split
       · refine NP.obind (np_createStreamPhys _ _ _ _ w) ?_
         intro r hc
         obtain ⟨p1, slot?⟩ := r
         dsimp only
         split
         · exact NP.ok _
         · exact np_applyLogPhys _ _ _ _ (kw_createStreamPhys hc w)
       · exact NP.ok _)
    | (split
       · exact np_freeStream _ _ _
       · exact NP.ok _)
    | (split
       · exact np_freeStreams _ _ _
       · exact NP.ok _)
    | (refine NP.obind (np_dropAllPhys _ _ _ w) ?_
       intro q _
       exact np_reopen _)
    | exact np_handlePhys _ _ _ _ w
    | exact NP.ok _

theorem kw_physOf {before after : SState} {out : HOut} {p p' : P} {op : HOp}
    (h : physOf before after out p op = .ok p') : KW p p' := by
  unfold physOf at h
  split at h
  · exact kw_ensureSlots _ h
  · exact kw_ensureSlots _ h
  all_goals first
    | (split at h
       · obtain ⟨q, hc, h⟩ := obind_ok h
         cases h
         exact kw_createStreamPhys hc
       · obtain ⟨q, hc, h⟩ := obind_ok h
         cases h
         exact kw_createStreamPhys hc
       · cases h; exact KW.refl _)
    | (split at h
       · obtain ⟨⟨p1, slot?⟩, hc, h⟩ := obind_ok h
         dsimp only at h
         split at h
         · cases h; exact kw_createStreamPhys hc
         · exact (kw_createStreamPhys hc).trans (kw_applyLogPhys _ _ h)
       · cases h; exact KW.refl _)
    | (split at h
       · exact kw_freeStream h
       · cases h; exact KW.refl _)
    | (split at h
       · exact kw_freeStreams _ _ h
       · cases h; exact KW.refl _)
    | (obtain ⟨q, hd, h⟩ := obind_ok h
       exact fun _ => wk_reopen h)
    | exact kw_handlePhys h
    | (cases h; exact KW.refl _)

/-- the two conditions survive every API call — also one whose allocation-level effects ended in an
error (the model keeps the allocation state then) -/
theorem wk_pstep (ps : PState) (op : HOp) (w : WK ps.p) : WK (pstep ps op).1.p := by
  unfold pstep
  generalize hstep ps.s op = r
  obtain ⟨s', out⟩ := r
  cases out with
  | noHandle => exact w
  | base o =>
    dsimp only
    split
    · rename_i p' hp; exact kw_physOf hp w
    · exact w
    · exact w
    · exact w

/-- no step of the history reaches a panic exit of the allocation level -/
def NoPanicRun : PState → List HOp → Prop
  | _, [] => True
  | ps, op :: rest =>
    NP (physOf ps.s (hstep ps.s op).1 (hstep ps.s op).2 ps.p op) ∧ NoPanicRun (pstep ps op).1 rest

/-- **along every API history from any state with the two range conditions, no call reaches a panic
exit of the allocation level** -/
theorem noPanicRun (ops : List HOp) : ∀ ps : PState, WK ps.p → NoPanicRun ps ops := by
  induction ops with
  | nil => intro ps _; trivial
  | cons op rest ih =>
    intro ps w
    exact ⟨np_physOf _ _ _ _ _ w, ih _ (wk_pstep ps op w)⟩

end CfbVerif.Phys
