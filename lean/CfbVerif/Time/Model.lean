import CfbVerif.Gen.Consts
/-!
# `Time`: timestamp.rs — FILETIME ↔ `SystemTime`, and the CLSID field codec of direntry.rs

`SystemTime` on 64-bit Linux is `(i64 seconds, u32 nanoseconds < 10^9)` relative to the Unix epoch
(`std::sys::pal::unix::time::Timespec`); that is the representation modelled here.
-/
namespace CfbVerif.Time

def U64MAX : Nat := 2 ^ 64 - 1
def NANOS : Nat := 1000000000

structure SysTime where
  secs : Int
  nanos : Nat
deriving Repr, DecidableEq

def SysTime.WF (t : SysTime) : Prop := t.nanos < NANOS

/-- total nanoseconds relative to the Unix epoch -/
def SysTime.toNanos (t : SysTime) : Int := t.secs * NANOS + t.nanos

structure Duration where
  secs : Nat
  nanos : Nat
deriving Repr, DecidableEq

def satAdd (a b : Nat) : Nat := min U64MAX (a + b)
def satSub (a b : Nat) : Nat := a - b
def satMul (a b : Nat) : Nat := min U64MAX (a * b)

/-- `system_time.duration_since(UNIX_EPOCH)`: `inl d` = `Ok(d)`, `inr d` = `Err` with `d` the
distance before the epoch -/
def durationSinceEpoch (t : SysTime) : Duration ⊕ Duration :=
  if t.secs ≥ 0 then .inl ⟨t.secs.toNat, t.nanos⟩
  else if t.nanos = 0 then .inr ⟨(-t.secs).toNat, 0⟩
  else .inr ⟨(-t.secs).toNat - 1, NANOS - t.nanos⟩

/-- `duration_to_timestamp_delta` -/
def durationToDelta (d : Duration) : Nat :=
  satAdd (satMul d.secs Gen.ticksPerSecond) (d.nanos / Gen.nanosPerTick)

/-- `timestamp_from_system_time` -/
def tsOf (t : SysTime) : Nat :=
  match durationSinceEpoch t with
  | .inl d => satAdd Gen.UNIX_EPOCH_TIMESTAMP (durationToDelta d)
  | .inr d => satSub Gen.UNIX_EPOCH_TIMESTAMP (durationToDelta d)

/-- `timestamp_delta_to_duration` -/
def deltaToDuration (delta : Nat) : Duration :=
  ⟨delta / Gen.backTicksPerSecond, (delta % Gen.backTicksMod) * Gen.backNanosPerTick⟩

/-- `UNIX_EPOCH.checked_add(d)` / `checked_sub(d)` on `(i64, u32)`; `none` on `i64` overflow -/
def checkedAdd (d : Duration) : Option SysTime :=
  if (d.secs : Int) ≤ 2 ^ 63 - 1 then some ⟨d.secs, d.nanos⟩ else none

def checkedSub (d : Duration) : Option SysTime :=
  if d.nanos = 0 then (if (d.secs : Int) ≤ 2 ^ 63 then some ⟨-(d.secs : Int), 0⟩ else none)
  else (if (d.secs : Int) + 1 ≤ 2 ^ 63 then some ⟨-(d.secs : Int) - 1, NANOS - d.nanos⟩ else none)

/-- `system_time_from_timestamp` -/
def timeOf (v : Nat) : SysTime :=
  let r := if v ≥ Gen.UNIX_EPOCH_TIMESTAMP then checkedAdd (deltaToDuration (v - Gen.UNIX_EPOCH_TIMESTAMP))
           else checkedSub (deltaToDuration (Gen.UNIX_EPOCH_TIMESTAMP - v))
  r.getD ⟨0, 0⟩

/-! ## CLSID on disk: `d1:u32 LE, d2:u16 LE, d3:u16 LE, d4:[u8;8]` of `Uuid::as_fields` -/

/-- `write_clsid` on the 16 bytes of `Uuid::as_bytes` (big-endian fields) -/
def encodeClsid : List UInt8 → List UInt8
  | [b0, b1, b2, b3, b4, b5, b6, b7, b8, b9, b10, b11, b12, b13, b14, b15] =>
    [b3, b2, b1, b0, b5, b4, b7, b6, b8, b9, b10, b11, b12, b13, b14, b15]
  | l => l

/-- `read_clsid` -/
def decodeClsid : List UInt8 → List UInt8
  | [c0, c1, c2, c3, c4, c5, c6, c7, c8, c9, c10, c11, c12, c13, c14, c15] =>
    [c3, c2, c1, c0, c5, c4, c7, c6, c8, c9, c10, c11, c12, c13, c14, c15]
  | l => l

/-- little-endian integers -/
def leBytes : Nat → Nat → List UInt8
  | 0, _ => []
  | k + 1, n => UInt8.ofNat (n % 256) :: leBytes k (n / 256)

def leValue : List UInt8 → Nat
  | [] => 0
  | b :: bs => b.toNat + 256 * leValue bs

end CfbVerif.Time
