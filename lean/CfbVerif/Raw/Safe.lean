import CfbVerif.Raw.Model
/-!
# `openImg` has no reachable `panic` or `hang` exit (C05, open path)
-/
set_option linter.unusedSimpArgs false
set_option linter.unusedVariables false
namespace CfbVerif.Raw

def Outcome.Safe {α : Type} : Outcome α → Prop
  | .ok _ => True
  | .err _ => True
  | .panic _ => False
  | .hang _ => False

@[simp] theorem safe_ok {α : Type} (a : α) : (Outcome.ok a).Safe := trivial
@[simp] theorem safe_err {α : Type} (k : Kind) : (Outcome.err k : Outcome α).Safe := trivial
@[simp] theorem safe_bad {α : Type} : (bad : Outcome α).Safe := trivial

theorem safe_liftE {α : Type} (x : E α) : (liftE x).Safe := by
  cases x <;> trivial

theorem safe_bind {α β : Type} {x : Outcome α} {f : α → Outcome β}
    (hx : x.Safe) (hf : ∀ a, x = .ok a → (f a).Safe) : (x >>= f).Safe := by
  cases x with
  | ok a => exact hf a rfl
  | err k => trivial
  | panic s => exact hx
  | hang s => exact hx

/-! ## pigeonhole -/

theorem length_le_of_nodup_lt : ∀ (n : Nat) (l : List Nat), l.Nodup → (∀ x ∈ l, x < n) → l.length ≤ n := by
  intro n
  induction n with
  | zero =>
    intro l _ h
    cases l with
    | nil => simp
    | cons a as => exact absurd (h a (by simp)) (by omega)
  | succ n ih =>
    intro l hnd h
    by_cases hm : n ∈ l
    · have h1 : (l.erase n).length = l.length - 1 := List.length_erase_of_mem hm
      have h2 : (l.erase n).Nodup := hnd.erase n
      have h3 : ∀ x ∈ l.erase n, x < n := by
        intro x hx
        have hxl : x ∈ l := List.mem_of_mem_erase hx
        have hne : x ≠ n := by
          intro e; subst e
          exact (List.Nodup.not_mem_erase hnd) hx
        have := h x hxl
        omega
      have := ih _ h2 h3
      have : 0 < l.length := List.length_pos_of_mem hm
      omega
    · have h3 : ∀ x ∈ l, x < n := by
        intro x hx
        have := h x hx
        have : x ≠ n := fun e => hm (e ▸ hx)
        omega
      have := ih l hnd h3
      omega

/-! ## the DIFAT and directory-chain loops: the seen-set bounds them -/

theorem contains_false_not_mem {l : List Nat} {x : Nat} (h : ¬ (l.contains x = true)) : x ∉ l := by
  simpa using h

theorem safe_difatLoop (m : Mode) (img : Img) (S numSectors : Nat) :
    ∀ (fuel cur : Nat) (seen ids difat : List Nat), seen.Nodup → (∀ x ∈ seen, x < numSectors) →
    numSectors < fuel + seen.length → (difatLoop m img S numSectors fuel cur seen ids difat).Safe := by
  intro fuel
  induction fuel with
  | zero =>
    intro cur seen ids difat hnd hlt hf
    have := length_le_of_nodup_lt numSectors seen hnd hlt
    omega
  | succ fuel ih =>
    intro cur seen ids difat hnd hlt hf
    unfold difatLoop
    split
    · trivial
    · split
      · trivial
      · split
        · trivial
        · split
          · trivial
          · rename_i h1 h2 h3 h4
            cases readDifatEntries img (sectorOff S cur 0) (S / 4 - 1) with
            | error k => trivial
            | ok entries =>
              simp only
              cases rd img (sectorOff S cur (4 * (S / 4 - 1))) 4 with
              | error k => trivial
              | ok next =>
                simp only
                split
                · trivial
                · apply ih
                  · exact List.nodup_cons.mpr ⟨contains_false_not_mem h4, hnd⟩
                  · intro x hx
                    rcases List.mem_cons.mp hx with rfl | hx
                    · omega
                    · exact hlt x hx
                  · simp only [List.length_cons]; omega

theorem safe_dirLoop (m : Mode) (h : Header) (img : Img) (numSectors : Nat) (fat : Array Nat) :
    ∀ (fuel cur count : Nat) (seen : List Nat) (acc : List DirEntry), seen.Nodup →
    (∀ x ∈ seen, x < numSectors) → numSectors < fuel + seen.length →
    (dirLoop m h img numSectors fat fuel cur count seen acc).Safe := by
  intro fuel
  induction fuel with
  | zero =>
    intro cur count seen acc hnd hlt hf
    have := length_le_of_nodup_lt numSectors seen hnd hlt
    omega
  | succ fuel ih =>
    intro cur count seen acc hnd hlt hf
    unfold dirLoop
    split
    · trivial
    · split
      · trivial
      · split
        · trivial
        · split
          · trivial
          · split
            · trivial
            · rename_i h1 h2 h3 h4 h5
              cases readDirSector m h.v4 img (sectorOff h.sectorLen cur 0) (h.sectorLen / Gen.DIR_ENTRY_LEN) 0 with
              | error k => trivial
              | ok entries =>
                simp only
                cases nextSector fat cur with
                | error k => trivial
                | ok next =>
                  simp only
                  apply ih
                  · exact List.nodup_cons.mpr ⟨contains_false_not_mem h5, hnd⟩
                  · intro x hx
                    rcases List.mem_cons.mp hx with rfl | hx
                    · omega
                    · exact hlt x hx
                  · simp only [List.length_cons]; omega


/-! ## `Directory::validate`: the visited set bounds the DFS, pushed ids are in range -/

theorem pushLink_range {dir : Array DirEntry} {link : Nat} {check : DirEntry → Bool} {flag : Bool}
    {stack st' : List (Nat × Bool)} (h : pushLink dir link check flag stack = .ok st')
    (hs : ∀ p ∈ stack, p.1 < dir.size) : ∀ p ∈ st', p.1 < dir.size := by
  unfold pushLink at h
  split at h
  · split at h
    · split at h
      · cases h
      · simp only [Except.ok.injEq] at h
        subst h
        intro p hp
        rcases List.mem_cons.mp hp with rfl | hp
        · assumption
        · exact hs p hp
    · cases h
  · simp only [Except.ok.injEq] at h
    subst h; exact hs

theorem safe_validateDirLoop (m : Mode) (dir : Array DirEntry) :
    ∀ (fuel : Nat) (stack : List (Nat × Bool)) (visited : List Nat),
    (∀ p ∈ stack, p.1 < dir.size) → visited.Nodup → (∀ x ∈ visited, x < dir.size) →
    dir.size < fuel + visited.length → (validateDirLoop m dir fuel stack visited).Safe := by
  intro fuel
  induction fuel with
  | zero =>
    intro stack visited _ hnd hlt hf
    have := length_le_of_nodup_lt dir.size visited hnd hlt
    omega
  | succ fuel ih =>
    intro stack visited hs hnd hlt hf
    cases stack with
    | nil => simp [validateDirLoop]
    | cons top rest =>
      obtain ⟨id, parentRed⟩ := top
      have hid : id < dir.size := hs (id, parentRed) (by simp)
      have hrest : ∀ p ∈ rest, p.1 < dir.size := fun p hp => hs p (by simp [hp])
      unfold validateDirLoop
      split
      · trivial
      · rename_i hvis
        simp only [hid, dite_true]
        split
        · trivial
        · split
          · trivial
          · split
            · trivial
            · cases h1 : pushLink dir dir[id].left _ dir[id].red rest with
              | error k => trivial
              | ok st1 =>
                simp only
                cases h2 : pushLink dir dir[id].right _ dir[id].red st1 with
                | error k => trivial
                | ok st2 =>
                  simp only
                  cases h3 : pushLink dir dir[id].child _ false st2 with
                  | error k => trivial
                  | ok st3 =>
                    simp only
                    apply ih
                    · exact pushLink_range h3 (pushLink_range h2 (pushLink_range h1 hrest))
                    · exact List.nodup_cons.mpr ⟨contains_false_not_mem hvis, hnd⟩
                    · intro x hx
                      rcases List.mem_cons.mp hx with rfl | hx
                      · exact hid
                      · exact hlt x hx
                    · simp only [List.length_cons]; omega

theorem safe_validateDir (m : Mode) (dir : Array DirEntry) : (validateDir m dir).Safe := by
  unfold validateDir
  split
  · split
    · trivial
    · rename_i h _
      apply safe_validateDirLoop
      · intro p hp; simp at hp; subst hp; exact h
      · simp
      · intro x hx; simp at hx
      · simp
  · trivial


/-! ## chain walks: after `validate`, "back at the first id" is the only possible cycle -/

/-- what `Allocator::validate` / `MiniAllocator::validate` establish about pointers -/
def RegInj (fat : Array Nat) : Prop :=
  ∀ (i j : Nat) (hi : i < fat.size) (hj : j < fat.size), fat[i] ≤ MAXREG → fat[i] = fat[j] → i = j

theorem nextSector_spec {fat : Array Nat} {id next : Nat} (h : nextSector fat id = .ok next) :
    ∃ hid : id < fat.size, fat[id] = next ∧ (next = END ∨ (next ≤ MAXREG ∧ next < fat.size)) := by
  unfold nextSector at h
  split at h
  · rename_i hid
    simp only at h
    split at h
    · cases h
    · rename_i hc
      simp only [Except.ok.injEq] at h
      refine ⟨hid, h, ?_⟩
      subst h
      by_cases he : fat[id] = END
      · exact Or.inl he
      · right
        simp only [ne_eq, he, not_false_eq_true, true_and, not_or, Nat.not_lt, ge_iff_le] at hc
        omega
  · cases h

theorem safe_chainLoop (fat : Array Nat) (hinj : RegInj fat) (first : Nat) :
    ∀ (fuel cur : Nat) (acc : List Nat),
    acc.Nodup → (∀ x ∈ acc, x < fat.size) → fat.size < fuel + acc.length →
    (acc = [] → cur = first) →
    (∀ hd tl, acc = hd :: tl → cur ≠ first ∧ ∃ hh : hd < fat.size, fat[hd] = cur ∧ (cur = END ∨ cur ≤ MAXREG)) →
    (∀ x ∈ acc, x ≠ first → ∃ y ∈ acc.tail, ∃ hy : y < fat.size, fat[y] = x) →
    (chainLoop fat first fuel cur acc).Safe := by
  intro fuel
  induction fuel with
  | zero =>
    intro cur acc hnd hlt hf _ _ _
    have := length_le_of_nodup_lt fat.size acc hnd hlt
    omega
  | succ fuel ih =>
    intro cur acc hnd hlt hf hnil hcons hpred
    unfold chainLoop
    split
    · trivial
    · rename_i hcurEnd
      cases hn : nextSector fat cur with
      | error k => trivial
      | ok next =>
        simp only
        split
        · trivial
        · rename_i hnf
          obtain ⟨hcur, hfc, hnext⟩ := nextSector_spec hn
          -- `cur` is new
          have hnotin : cur ∉ acc := by
            intro hmem
            cases acc with
            | nil => simp at hmem
            | cons hd tl =>
              obtain ⟨hne, hh, hfh, hreg⟩ := hcons hd tl rfl
              obtain ⟨y, hy, hyl, hfy⟩ := hpred cur hmem hne
              have hcreg : cur ≤ MAXREG := by
                rcases hreg with h | h
                · exact absurd h hcurEnd
                · exact h
              have : hd = y := hinj hd y hh hyl (by rw [hfh]; exact hcreg) (by rw [hfh, hfy])
              subst this
              simp only [List.tail_cons] at hy
              exact (List.nodup_cons.mp hnd).1 hy
          apply ih
          · exact List.nodup_cons.mpr ⟨hnotin, hnd⟩
          · intro x hx
            rcases List.mem_cons.mp hx with rfl | hx
            · exact hcur
            · exact hlt x hx
          · simp only [List.length_cons]; omega
          · intro h; cases h
          · intro hd tl he
            simp only [List.cons.injEq] at he
            obtain ⟨rfl, rfl⟩ := he
            refine ⟨hnf, hcur, hfc, ?_⟩
            rcases hnext with h | h
            · exact Or.inl h
            · exact Or.inr h.1
          · intro x hx hxf
            simp only [List.tail_cons]
            rcases List.mem_cons.mp hx with rfl | hx
            · -- x = cur: its predecessor is the old head (or it is `first`)
              cases acc with
              | nil => exact absurd (hnil rfl) hxf
              | cons hd tl =>
                obtain ⟨_, hh, hfh, _⟩ := hcons hd tl rfl
                exact ⟨hd, by simp, hh, hfh⟩
            · obtain ⟨y, hy, hyl, hfy⟩ := hpred x hx hxf
              exact ⟨y, List.mem_of_mem_tail hy, hyl, hfy⟩

theorem safe_chainFrom (fat : Array Nat) (hinj : RegInj fat) (start : Nat) : (chainFrom fat start).Safe := by
  unfold chainFrom
  apply safe_chainLoop fat hinj start
  · simp
  · intro x hx; simp at hx
  · simp
  · intro _; rfl
  · intro hd tl h; cases h
  · intro x hx; simp at hx


/-! ## what the pointee check establishes -/

theorem checkPointees_spec (fat : Array Nat) (i : Nat) (seen : List Nat)
    (h : checkPointees fat i seen = .ok ()) :
    (∀ j (hj : j < fat.size), i ≤ j → fat[j] ≤ MAXREG → fat[j] ∉ seen) ∧
    (∀ j k (hj : j < fat.size) (hk : k < fat.size), i ≤ j → j < k → fat[j] ≤ MAXREG → fat[j] ≠ fat[k]) := by
  fun_induction checkPointees fat i seen with
  | case1 i seen hi to hreg hge => simp [badE] at h
  | case2 i seen hi to hreg hlt hc => simp [badE] at h
  | case3 i seen hi to hreg hlt hc ih =>
    have ih' := ih h
    constructor
    · intro j hj hij hr
      by_cases hji : j = i
      · subst hji; simpa using hc
      · have := ih'.1 j hj (by omega) hr
        intro hm; exact this (List.mem_cons_of_mem _ hm)
    · intro j k hj hk hij hjk hr
      by_cases hji : j = i
      · subst hji
        by_cases hkr : fat[k] ≤ MAXREG
        · have := ih'.1 k hk (by omega) hkr
          intro he; apply this; rw [← he]; exact List.mem_cons_self
        · intro he; rw [he] at hr; exact hkr hr
      · exact ih'.2 j k hj hk (by omega) hjk hr
  | case4 i seen hi to hnreg hinv => simp [badE] at h
  | case5 i seen hi to hnreg hinv ih =>
    have ih' := ih h
    constructor
    · intro j hj hij hr
      by_cases hji : j = i
      · subst hji; exact absurd hr hnreg
      · exact ih'.1 j hj (by omega) hr
    · intro j k hj hk hij hjk hr
      by_cases hji : j = i
      · subst hji; exact absurd hr hnreg
      · exact ih'.2 j k hj hk (by omega) hjk hr
  | case6 i seen hi =>
    exact ⟨fun j hj hij => by omega, fun j k hj hk hij hjk => by omega⟩

theorem regInj_of_checkPointees (fat : Array Nat) (h : checkPointees fat 0 [] = .ok ()) : RegInj fat := by
  have sp := (checkPointees_spec fat 0 [] h).2
  intro i j hi hj hr he
  rcases Nat.lt_trichotomy i j with hlt | heq | hgt
  · exact absurd he (sp i j hi hj (Nat.zero_le _) hlt hr)
  · exact heq
  · have hr' : fat[j] ≤ MAXREG := by rw [← he]; exact hr
    exact absurd he.symm (sp j i hj hi (Nat.zero_le _) hgt hr')

theorem regInj_of_validateFat {m : Mode} {n : Nat} {ids difat : List Nat} {fat f : Array Nat}
    (h : validateFat m n ids difat fat = .ok f) : RegInj f := by
  unfold validateFat at h
  simp only [bind, Except.bind] at h
  split at h
  · cases h
  · cases h1 : markSectors m DIFSECT ids fat with
    | error k => simp [h1] at h
    | ok fat1 =>
      simp only [h1] at h
      cases h2 : markSectors m FATSECT difat fat1 with
      | error k => simp [h2] at h
      | ok fat2 =>
        simp only [h2] at h
        cases h3 : checkPointees fat2 0 [] with
        | error k => simp [h3] at h
        | ok u =>
          simp only [h3, pure, Except.pure, Except.ok.injEq] at h
          subst h
          exact regInj_of_checkPointees fat2 h3

/-! ## reading the MiniFAT out of its chain -/

theorem safe_readChainU32s (img : Img) (S : Nat) (hS : 0 < S) (ids : Array Nat) :
    ∀ (n i : Nat), 4 * (i + n) ≤ ids.size * S → (readChainU32s img S ids n i).Safe := by
  intro n
  induction n with
  | zero => intro i _; trivial
  | succ n ih =>
    intro i hb
    unfold readChainU32s
    have hidx : 4 * i / S < ids.size := by
      apply (Nat.div_lt_iff_lt_mul hS).mpr; omega
    simp only [Array.getElem?_eq_getElem hidx]
    apply safe_bind (safe_liftE _)
    intro v _
    apply safe_bind (ih (i + 1) (by omega))
    intro rest _
    trivial

end CfbVerif.Raw
