import CfbVerif.Raw.Model
import CfbVerif.Handle.Model
/-!
# `Raw` read-only operations: lookup, the `Entries` iterator, reading a stream

On the tables `openImg` built — which for a damaged file are only as consistent as the three
`validate`s make them.  Unchecked indexing in the Rust (`dir_entries[id]`, `sector_ids[i]`) is a
`panic` exit here; loops are fuelled with a `hang` exit.
-/
namespace CfbVerif.Raw
open CfbVerif.Names

def slash : Nat := 47

def joinPath (parent : List Nat) (name : Name) : List Nat :=
  if parent.getLast? = some slash then parent ++ name else parent ++ [slash] ++ name

/-- `stream_id_for_name_chain`: descend from the root, one BST search per name -/
def findChild (r : RawState) (name : Name) : Nat → Nat → Outcome (Option Nat)
  | 0, _ => .hang "sibling search"
  | fuel + 1, id =>
    if id = NOSTREAM then .ok none else
    match r.dir[id]? with
    | none => .panic "directory.rs:89 dir_entries[stream_id]"
    | some e =>
      match cmpNames Gen.upper name e.name with
      | .eq => .ok (some id)
      | .lt => findChild r name fuel e.left
      | .gt => findChild r name fuel e.right

def lookup (r : RawState) : List Name → Nat → Outcome (Option Nat)
  | [], id => .ok (some id)
  | n :: ns, id =>
    match r.dir[id]? with
    | none => .panic "directory.rs:89 dir_entries[stream_id]"
    | some e =>
      match findChild r n (r.dir.size + 1) e.child with
      | .ok (some c) => lookup r ns c
      | .ok none => .ok none
      | .err k => .err k
      | .panic s => .panic s
      | .hang s => .hang s

/-- the `Entries` stack machine in pre-order (entry.rs), yielding `(path, id)` -/
def leftSpine (r : RawState) (parent : List Nat) : Nat → Nat → List (List Nat × Nat × Bool) →
    Outcome (List (List Nat × Nat × Bool))
  | 0, _, _ => .hang "left spine"
  | fuel + 1, id, st =>
    if id = NOSTREAM then .ok st else
    match r.dir[id]? with
    | none => .panic "directory.rs:89 dir_entries[stream_id]"
    | some e => leftSpine r parent fuel e.left ((parent, id, true) :: st)

def walkLoop (r : RawState) : Nat → List (List Nat × Nat × Bool) → List (List Nat × Nat) →
    Outcome (List (List Nat × Nat))
  | 0, _, _ => .hang "walk"
  | _ + 1, [], acc => .ok acc.reverse
  | fuel + 1, (parent, id, vis) :: st, acc =>
    match r.dir[id]? with
    | none => .panic "directory.rs:89 dir_entries[stream_id]"
    | some e =>
      let path := if e.objType = Gen.OBJ_TYPE_ROOT then parent else joinPath parent e.name
      let st1 := if vis then leftSpine r parent (r.dir.size + 1) e.right st else .ok st
      match st1 with
      | .ok st1 =>
        let st2 := if e.objType ≠ Gen.OBJ_TYPE_STREAM ∧ e.child ≠ NOSTREAM
          then leftSpine r path (r.dir.size + 1) e.child st1 else .ok st1
        match st2 with
        | .ok st2 => walkLoop r fuel st2 ((path, id) :: acc)
        | .err k => .err k
        | .panic s => .panic s
        | .hang s => .hang s
      | .err k => .err k
      | .panic s => .panic s
      | .hang s => .hang s

def walk (r : RawState) : Outcome (List (List Nat × Nat)) :=
  walkLoop r (r.dir.size + 1) [([slash], Gen.ROOT_STREAM_ID, false)] []

/-! ## reading stream bytes (stream.rs:276-310, chain.rs, minichain.rs) -/

def miniChainLoop (mf : Array Nat) (first : Nat) : Nat → Nat → List Nat → Outcome (List Nat)
  | 0, _, _ => .hang "mini chain walk"
  | fuel + 1, cur, acc =>
    if cur = END then .ok acc.reverse
    else
      match nextSector mf cur with      -- `next_mini_sector` has the same checks as `next`
      | .ok next => if next = first then bad else miniChainLoop mf first fuel next (cur :: acc)
      | .error k => .err k

/-- `read_exact` of `n` bytes from a regular chain at chain offset `off` -/
def readChainBytes (img : Img) (S : Nat) (ids : Array Nat) : Nat → Nat → List UInt8 → Outcome (List UInt8)
  | 0, _, acc => .ok acc.reverse
  | n + 1, off, acc =>
    match ids[off / S]? with
    | none => .err .unexpectedEof          -- `Chain::read` returns 0 at the end of the chain
    | some id =>
      match u8 img (sectorOff S id (off % S)) with
      | none => .err .unexpectedEof
      | some b => readChainBytes img S ids n (off + 1) (UInt8.ofNat b :: acc)

/-- the same through the mini stream: mini sector → (sector of the root chain, offset) -/
def readMiniBytes (img : Img) (S : Nat) (rootChain : Outcome (List Nat)) (ids : Array Nat) :
    Nat → Nat → List UInt8 → Outcome (List UInt8)
  | 0, _, acc => .ok acc.reverse
  | n + 1, off, acc =>
    match ids[off / Gen.MINI_SECTOR_LEN]? with
    | none => .err .unexpectedEof
    | some mid =>
      -- `seek_within_mini_sector` opens the root chain (it may fail) and indexes it
      match rootChain with
      | .ok rc =>
        let perSector := S / Gen.MINI_SECTOR_LEN
        match rc.toArray[mid / perSector]? with
        | none => bad
        | some sid =>
          match u8 img (sectorOff S sid ((mid % perSector) * Gen.MINI_SECTOR_LEN + off % Gen.MINI_SECTOR_LEN)) with
          | none => .err .unexpectedEof
          | some b => readMiniBytes img S rootChain ids n (off + 1) (UInt8.ofNat b :: acc)
      | .err k => .err k
      | .panic s => .panic s
      | .hang s => .hang s

/-- `read_data_from_stream(offset, buf)` for a buffer of `n ≤ len - off` bytes -/
def readData (r : RawState) (img : Img) (e : DirEntry) (off n : Nat) : Outcome (List UInt8) :=
  if n = 0 then .ok [] else
  let S := r.sectorLen
  if e.streamLen < Gen.MINI_STREAM_CUTOFF then
    match miniChainLoop r.miniFat e.startSector (r.miniFat.size + 1) e.startSector [] with
    | .ok ids =>
      if off > ids.length * Gen.MINI_SECTOR_LEN then .err .invalidInput
      else
        let rootStart := (r.dir[0]?.map (·.startSector)).getD END
        readMiniBytes img S (chainFrom r.fat rootStart) ids.toArray n off []
    | .err k => .err k
    | .panic s => .panic s
    | .hang s => .hang s
  else
    match chainFrom r.fat e.startSector with
    | .ok ids =>
      if off > ids.length * S then .err .invalidInput
      else readChainBytes img S ids.toArray n off []
    | .err k => .err k
    | .panic s => .panic s
    | .hang s => .hang s

/-- `read_to_end` through a fresh handle: chunks as `fill_buf` makes them -/
def readAllLoop (r : RawState) (img : Img) (e : DirEntry) (maxBuf : Nat) :
    Nat → Nat → Nat → List UInt8 → Outcome (List UInt8)
  | 0, _, _, _ => .hang "read_to_end"
  | fuel + 1, off, dataLen, acc =>
    if off ≥ e.streamLen then .ok acc else
    let remaining := e.streamLen - off
    let dl := Handle.growForRead dataLen maxBuf remaining
    let n := min dl remaining
    match readData r img e off n with
    | .ok bs => readAllLoop r img e maxBuf fuel (off + n) dl (acc ++ bs)
    | .err k => .err k
    | .panic s => .panic s
    | .hang s => .hang s

def readAll (r : RawState) (img : Img) (e : DirEntry) : Outcome (List UInt8) :=
  readAllLoop r img e (max Gen.DEFAULT_STREAM_MAX_BUFFER_SIZE Handle.bufMin)
    (e.streamLen / Handle.bufMin + 2) 0 Handle.bufMin []

end CfbVerif.Raw
