import CfbVerif.Names.Model
/-!
# `Raw`: the reader at table level — `open_internal` and the three `validate`s, loop for loop

`Raw.openImg m img` ports lib.rs:429-702 together with header.rs, direntry.rs (`read_from`),
alloc.rs (`validate`, `next`), chain.rs (`Chain::new`), directory.rs (`validate`), minialloc.rs
(`validate`).  It must make sense on *arbitrary* bytes, so it works on index-linked tables.

Every Rust indexing expression or unchecked arithmetic on the path has its own `panic` exit and
every loop whose termination rests on a guard in the code has a `hang` exit (the loop carries fuel
equal to the bound that guard is supposed to give).  "Never panics, never hangs" (C05) is then the
statement that these exits are unreachable.
-/
namespace CfbVerif.Raw
open CfbVerif.Names

inductive Mode | permissive | strict
deriving Repr, DecidableEq

def Mode.isStrict : Mode → Bool
  | .strict => true
  | .permissive => false

inductive Kind | invalidData | unexpectedEof | invalidInput | other
deriving Repr, DecidableEq

inductive Outcome (α : Type) where
  | ok (a : α)
  | err (k : Kind)
  | panic (site : String)
  | hang (site : String)
deriving Repr

def Outcome.bind {α β : Type} (x : Outcome α) (f : α → Outcome β) : Outcome β :=
  match x with
  | .ok a => f a
  | .err k => .err k
  | .panic s => .panic s
  | .hang s => .hang s

instance : Monad Outcome where
  pure := .ok
  bind := Outcome.bind

def bad {α : Type} : Outcome α := .err .invalidData

/-- the stages that can only succeed or fail with an error value live in `E`: they have no way
to panic or to run out of fuel, by type -/
abbrev E (α : Type) := Except Kind α

def badE {α : Type} : E α := .error .invalidData

def liftE {α : Type} : E α → Outcome α
  | .ok a => .ok a
  | .error k => .err k

/-! ## bytes -/

abbrev Img := ByteArray

def u8 (img : Img) (off : Nat) : Option Nat :=
  if off < img.size then some (img.get! off).toNat else none

def leN (img : Img) (off : Nat) : Nat → Option Nat
  | 0 => some 0
  | n + 1 => match u8 img off, leN img (off + 1) n with
    | some b, some rest => some (b + 256 * rest)
    | _, _ => none

/-- `read_exact` of an integer; past the end is `UnexpectedEof` -/
def rd (img : Img) (off n : Nat) : E Nat :=
  match leN img off n with
  | some v => .ok v
  | none => .error .unexpectedEof

/-! ## constants (generated) -/

def END : Nat := Gen.END_OF_CHAIN
def FREE : Nat := Gen.FREE_SECTOR
def FATSECT : Nat := Gen.FAT_SECTOR
def DIFSECT : Nat := Gen.DIFAT_SECTOR
def INVALID : Nat := Gen.INVALID_SECTOR
def MAXREG : Nat := Gen.MAX_REGULAR_SECTOR
def NOSTREAM : Nat := Gen.NO_STREAM
def MAXREGID : Nat := Gen.MAX_REGULAR_STREAM_ID

/-! ## header (header.rs:52-183) -/

structure Header where
  v4 : Bool
  numDirSectors : Nat
  numFatSectors : Nat
  firstDirSector : Nat
  firstMiniFatSector : Nat
  numMiniFatSectors : Nat
  firstDifatSector : Nat
  numDifatSectors : Nat
  initialDifat : List Nat     -- entries up to the first FREE (the rest of the 109 stay FREE)
deriving Repr, DecidableEq

def Header.sectorLen (h : Header) : Nat := if h.v4 then 2 ^ Gen.sectorShiftV4 else 2 ^ Gen.sectorShiftV3

/-- the 109 header DIFAT slots: stop at the first FREE; an entry above MAX_REGULAR is an error -/
def readInitialDifat (img : Img) : Nat → Nat → List Nat → E (List Nat)
  | 0, _, acc => .ok acc.reverse
  | n + 1, off, acc =>
    match rd img off 4 with
    | .ok next =>
      if next = FREE then .ok acc.reverse
      else if next > MAXREG then badE
      else readInitialDifat img n (off + 4) (next :: acc)
    | .error k => .error k

def readHeader (m : Mode) (img : Img) : E Header := do
  let magic ← rd img 0 8
  if magic ≠ (Gen.MAGIC_NUMBER.foldr (fun b acc => b + 256 * acc) 0) then badE else
  let versionNumber ← rd img 26 2
  let bom ← rd img 28 2
  if bom ≠ Gen.BYTE_ORDER_MARK then badE else
  if versionNumber ≠ Gen.versionNumberV3 ∧ versionNumber ≠ Gen.versionNumberV4 then badE else
  let v4 := versionNumber = Gen.versionNumberV4
  let sectorShift ← rd img 30 2
  if sectorShift ≠ (if v4 then Gen.sectorShiftV4 else Gen.sectorShiftV3) then badE else
  let miniShift ← rd img 32 2
  if miniShift ≠ Gen.MINI_SECTOR_SHIFT then badE else
  let numDir0 ← rd img 40 4
  if !v4 ∧ numDir0 ≠ 0 ∧ m.isStrict then badE else
  let numDir := if !v4 then 0 else numDir0
  let numFat ← rd img 44 4
  let firstDir ← rd img 48 4
  let cutoff ← rd img 56 4
  if cutoff ≠ Gen.MINI_STREAM_CUTOFF then badE else
  let firstMiniFat ← rd img 60 4
  let numMiniFat ← rd img 64 4
  let firstDifat0 ← rd img 68 4
  let numDifat ← rd img 72 4
  if firstDifat0 = FREE ∧ m.isStrict then badE else
  let firstDifat := if firstDifat0 = FREE then END else firstDifat0
  let initial ← readInitialDifat img Gen.NUM_DIFAT_ENTRIES_IN_HEADER 76 []
  pure { v4 := decide v4, numDirSectors := numDir, numFatSectors := numFat, firstDirSector := firstDir,
         firstMiniFatSector := firstMiniFat, numMiniFatSectors := numMiniFat,
         firstDifatSector := firstDifat, numDifatSectors := numDifat, initialDifat := initial }

/-! ## directory entries (direntry.rs:110-262) -/

structure DirEntry where
  name : Name
  objType : Nat     -- 0 unallocated, 1 storage, 2 stream, 5 root
  red : Bool
  left : Nat
  right : Nat
  child : Nat
  clsid : List UInt8
  stateBits : Nat
  ctime : Nat
  mtime : Nat
  startSector : Nat
  streamLen : Nat
deriving Repr, DecidableEq

/-- `String::from_utf16`: `none` on an unpaired surrogate -/
def decodeUtf16 : List Nat → Option (List Nat)
  | [] => some []
  | u :: rest =>
    if 0xD800 ≤ u ∧ u < 0xDC00 then
      match rest with
      | l :: rest' =>
        if 0xDC00 ≤ l ∧ l < 0xE000 then
          (decodeUtf16 rest').map (fun t => (0x10000 + (u - 0xD800) * 0x400 + (l - 0xDC00)) :: t)
        else none
      | [] => none
    else if 0xDC00 ≤ u ∧ u < 0xE000 then none
    else (decodeUtf16 rest).map (fun t => u :: t)
termination_by l => l.length

def readUnits (img : Img) (off : Nat) : Nat → E (List Nat)
  | 0 => .ok []
  | n + 1 => do
    let u ← rd img off 2
    let rest ← readUnits img (off + 2) n
    pure (u :: rest)

def readBytes (img : Img) (off : Nat) : Nat → E (List UInt8)
  | 0 => .ok []
  | n + 1 => do
    let b ← rd img off 1
    let rest ← readBytes img (off + 1) n
    pure (UInt8.ofNat b :: rest)

def rootName : Name := Gen.ROOT_DIR_NAME.toList.map Char.toNat

def nilClsid : List UInt8 := List.replicate 16 0

/-- `read_clsid`: d1 u32 LE, d2 u16 LE, d3 u16 LE, d4 — as the 16 bytes of `Uuid::as_bytes` -/
def clsidOfDisk : List UInt8 → List UInt8
  | [c0, c1, c2, c3, c4, c5, c6, c7, c8, c9, c10, c11, c12, c13, c14, c15] =>
    [c3, c2, c1, c0, c5, c4, c7, c6, c8, c9, c10, c11, c12, c13, c14, c15]
  | l => l

def readDirEntry (m : Mode) (v4 : Bool) (img : Img) (off : Nat) : E DirEntry := do
  let units ← readUnits img off 32
  let nameLenBytes ← rd img (off + 64) 2
  if nameLenBytes > 64 then badE else
  if nameLenBytes % 2 ≠ 0 then badE else
  let nameLenChars := if nameLenBytes > 0 then nameLenBytes / 2 - 1 else 0
  -- `name_chars[name_len_chars]`: name_len_chars ≤ 31 < 32, asserted in the source
  if m.isStrict ∧ units.getD nameLenChars 0 ≠ 0 then badE else
  match decodeUtf16 (units.take nameLenChars) with
  | none => badE
  | some name0 =>
  let typeByte ← rd img (off + 66) 1
  if typeByte ≠ Gen.OBJ_TYPE_UNALLOCATED ∧ typeByte ≠ Gen.OBJ_TYPE_STORAGE ∧
     typeByte ≠ Gen.OBJ_TYPE_STREAM ∧ typeByte ≠ Gen.OBJ_TYPE_ROOT then badE else
  let isRoot := typeByte = Gen.OBJ_TYPE_ROOT
  let isStream := typeByte = Gen.OBJ_TYPE_STREAM
  let isStorage := typeByte = Gen.OBJ_TYPE_STORAGE
  if isRoot ∧ name0 ≠ rootName ∧ m.isStrict then badE else
  -- a non-root name goes through `validate_name`, whose error kind is InvalidInput
  if !isRoot ∧ !validateName name0 then .error .invalidInput else
  let name := if isRoot then rootName else name0
  let colorByte ← rd img (off + 67) 1
  if colorByte ≠ Gen.COLOR_RED ∧ colorByte ≠ Gen.COLOR_BLACK then badE else
  let left ← rd img (off + 68) 4
  if left ≠ NOSTREAM ∧ left > MAXREGID then badE else
  let right ← rd img (off + 72) 4
  if right ≠ NOSTREAM ∧ right > MAXREGID then badE else
  let child ← rd img (off + 76) 4
  if child ≠ NOSTREAM ∧ isStream then badE else
  if child ≠ NOSTREAM ∧ child > MAXREGID then badE else
  let clsidDisk ← readBytes img (off + 80) 16
  let clsid0 := clsidOfDisk clsidDisk
  if isStream ∧ clsid0 ≠ nilClsid ∧ m.isStrict then badE else
  let clsid := if isStream then nilClsid else clsid0
  let stateBits ← rd img (off + 96) 4
  let ctime0 ← rd img (off + 100) 8
  if isStream ∧ ctime0 ≠ 0 ∧ m.isStrict then badE else
  let mtime0 ← rd img (off + 108) 8
  if isStream ∧ mtime0 ≠ 0 ∧ m.isStrict then badE else
  let start0 ← rd img (off + 116) 4
  let len0 ← rd img (off + 120) 8
  let len1 := len0 % (if v4 then Gen.streamLenMaskV4 + 1 else Gen.streamLenMaskV3 + 1)
  if isStorage ∧ m.isStrict ∧ start0 ≠ 0 then badE else
  if isStorage ∧ m.isStrict ∧ len1 ≠ 0 then badE else
  pure { name := name, objType := typeByte, red := colorByte = Gen.COLOR_RED, left := left, right := right,
         child := child, clsid := clsid, stateBits := stateBits,
         ctime := if isStream then 0 else ctime0, mtime := if isStream then 0 else mtime0,
         startSector := if isStorage then 0 else start0, streamLen := if isStorage then 0 else len1 }

/-! ## the state `open` builds -/

structure RawState where
  v4 : Bool
  numSectors : Nat
  difatSectorIds : List Nat
  difat : List Nat
  fat : Array Nat
  dirStart : Nat
  dir : Array DirEntry
  miniFatStart : Nat
  miniFat : Array Nat
deriving Repr

def sectorLenOf (v4 : Bool) : Nat := if v4 then 2 ^ Gen.sectorShiftV4 else 2 ^ Gen.sectorShiftV3

def RawState.sectorLen (r : RawState) : Nat := sectorLenOf r.v4

/-- file offset of byte `k` of sector `id` -/
def sectorOff (S id k : Nat) : Nat := (id + 1) * S + k

/-! ## DIFAT (lib.rs:466-554) -/

def readU32s (img : Img) (off : Nat) : Nat → E (List Nat)
  | 0 => .ok []
  | n + 1 => do
    let u ← rd img off 4
    let rest ← readU32s img (off + 4) n
    pure (u :: rest)

/-- one DIFAT sector: `S/4 - 1` entries, each FREE or ≤ MAX_REGULAR, checked as they are read -/
def readDifatEntries (img : Img) (off : Nat) : Nat → E (List Nat)
  | 0 => .ok []
  | n + 1 =>
    match rd img off 4 with
    | .ok x =>
      if x ≠ FREE ∧ x > MAXREG then badE else
      match readDifatEntries img (off + 4) n with
      | .ok rest => .ok (x :: rest)
      | .error k => .error k
    | .error k => .error k

/-- the DIFAT chain loop; the `seen` set bounds it by the number of sectors -/
def difatLoop (m : Mode) (img : Img) (S numSectors : Nat) :
    Nat → Nat → List Nat → List Nat → List Nat → Outcome (List Nat × List Nat)
  | 0, _, _, _, _ => .hang "difat chain"
  | fuel + 1, cur, seen, ids, difat =>
    if cur = END ∨ cur = FREE then .ok (ids.reverse, difat)
    else if cur > MAXREG then bad
    else if cur ≥ numSectors then bad
    else if seen.contains cur then bad
    else
      match readDifatEntries img (sectorOff S cur 0) (S / 4 - 1) with
      | .ok entries =>
          match rd img (sectorOff S cur (4 * (S / 4 - 1))) 4 with
          | .ok next =>
            if m.isStrict ∧ next = FREE then bad
            else difatLoop m img S numSectors fuel next (cur :: seen) (cur :: ids) (difat ++ entries)
          | .error k => .err k
      | .error k => .err k

def popWhile (p : Nat → Bool) : List Nat → List Nat
  | l => (l.reverse.dropWhile p).reverse

/-- permissive: strip zero padding of the DIFAT beyond the header part and beyond num_fat_sectors -/
def popZeros (numFat : Nat) : Nat → List Nat → List Nat
  | 0, l => l
  | fuel + 1, l =>
    if l.length > Gen.NUM_DIFAT_ENTRIES_IN_HEADER ∧ l.length > numFat ∧ l.getLast? = some 0
    then popZeros numFat fuel l.dropLast else l

/-! ## FAT (lib.rs:556-603, alloc.rs:92-162) -/

def readFat (img : Img) (S numSectors : Nat) : List Nat → E (List Nat)
  | [] => .ok []
  | idx :: rest =>
    if idx ≥ numSectors then badE else
    match readU32s img (sectorOff S idx 0) (S / 4) with
    | .ok cells => do
      let more ← readFat img S numSectors rest
      pure (cells ++ more)
    | .error k => .error k

def isPadding (x : Nat) : Bool := x = 0 || x = DIFSECT || x = FATSECT || x = FREE

/-- permissive trimming of entries beyond the file's sector count -/
def trimPermissive (numSectors : Nat) : Nat → List Nat → List Nat
  | 0, l => l
  | fuel + 1, l =>
    if l.length > numSectors then
      match l.getLast? with
      | some x => if isPadding x then trimPermissive numSectors fuel l.dropLast else l
      | none => l
    else l

def trimFree (numSectors : Nat) : Nat → List Nat → List Nat
  | 0, l => l
  | fuel + 1, l =>
    if l.length > numSectors ∧ l.getLast? = some FREE then trimFree numSectors fuel l.dropLast else l

def padFree (numSectors : Nat) (l : List Nat) : List Nat :=
  l ++ List.replicate (numSectors - l.length) FREE

/-- mark the DIFAT / FAT sectors in the FAT (`Allocator::validate`, first two loops) -/
def markSectors (m : Mode) (mark : Nat) : List Nat → Array Nat → E (Array Nat)
  | [], fat => .ok fat
  | id :: rest, fat =>
    if h : id < fat.size then
      if fat[id] ≠ mark ∧ m.isStrict then badE
      else markSectors m mark rest (fat.set id mark)
    else badE

/-- third loop: regular entries in range and nobody pointed to twice; no INVALID entry -/
def checkPointees (fat : Array Nat) : Nat → List Nat → E Unit
  | i, seen =>
    if h : i < fat.size then
      let to := fat[i]
      if to ≤ MAXREG then
        if to ≥ fat.size then badE
        else if seen.contains to then badE
        else checkPointees fat (i + 1) (to :: seen)
      else if to = INVALID then badE
      else checkPointees fat (i + 1) seen
    else .ok ()
termination_by i _ => fat.size - i

def validateFat (m : Mode) (numSectors : Nat) (difatSectorIds difat : List Nat) (fat : Array Nat) :
    E (Array Nat) := do
  if fat.size > numSectors then badE else
  let fat1 ← markSectors m DIFSECT difatSectorIds fat
  let fat2 ← markSectors m FATSECT difat fat1
  checkPointees fat2 0 []
  pure fat2

/-- `Allocator::next` -/
def nextSector (fat : Array Nat) (id : Nat) : E Nat :=
  if h : id < fat.size then
    let next := fat[id]
    if next ≠ END ∧ (next > MAXREG ∨ next ≥ fat.size) then badE else .ok next
  else badE

/-! ## directory chain (lib.rs:608-664) -/

def readDirSector (m : Mode) (v4 : Bool) (img : Img) (base : Nat) : Nat → Nat → E (List DirEntry)
  | 0, _ => .ok []
  | n + 1, i => do
    let e ← readDirEntry m v4 img (base + i * Gen.DIR_ENTRY_LEN)
    let rest ← readDirSector m v4 img base n (i + 1)
    pure (e :: rest)

def dirLoop (m : Mode) (h : Header) (img : Img) (numSectors : Nat) (fat : Array Nat) :
    Nat → Nat → Nat → List Nat → List DirEntry → Outcome (List DirEntry)
  | 0, _, _, _, _ => .hang "directory chain"
  | fuel + 1, cur, count, seen, acc =>
    if cur = END then .ok acc
    else if m.isStrict ∧ h.v4 ∧ count > h.numDirSectors then bad
    else if cur > MAXREG then bad
    else if cur ≥ numSectors then bad
    else if seen.contains cur then bad
    else
      match readDirSector m h.v4 img (sectorOff h.sectorLen cur 0) (h.sectorLen / Gen.DIR_ENTRY_LEN) 0 with
      | .ok entries =>
        match nextSector fat cur with
        | .ok next => dirLoop m h img numSectors fat fuel next (count + 1) (cur :: seen) (acc ++ entries)
        | .error k => .err k
      | .error k => .err k

/-! ## `Directory::validate` (directory.rs:96-196): DFS over sibling/child links with a visited set -/

/-- follow one link of an entry: absent, or in range and satisfying `check`, then pushed -/
def pushLink (dir : Array DirEntry) (link : Nat) (check : DirEntry → Bool) (flag : Bool)
    (stack : List (Nat × Bool)) : E (List (Nat × Bool)) :=
  if link ≠ NOSTREAM then
    if h : link < dir.size then
      if !check dir[link] then badE else .ok ((link, flag) :: stack)
    else badE
  else .ok stack

def validateDirLoop (m : Mode) (dir : Array DirEntry) :
    Nat → List (Nat × Bool) → List Nat → Outcome Unit
  | 0, _, _ => .hang "directory tree"
  | _ + 1, [], _ => .ok ()
  | fuel + 1, (id, parentRed) :: stack, visited =>
    if visited.contains id then bad else
    if h : id < dir.size then
      let e := dir[id]
      if id = Gen.ROOT_STREAM_ID ∧ e.objType ≠ Gen.OBJ_TYPE_ROOT then bad else
      if id ≠ Gen.ROOT_STREAM_ID ∧ e.objType ≠ Gen.OBJ_TYPE_STORAGE ∧ e.objType ≠ Gen.OBJ_TYPE_STREAM then bad else
      if parentRed ∧ e.red ∧ m.isStrict then bad else
      match pushLink dir e.left (fun x => cmpNames Gen.upper x.name e.name == .lt) e.red stack with
      | .error k => .err k
      | .ok st1 =>
        match pushLink dir e.right (fun x => cmpNames Gen.upper e.name x.name == .lt) e.red st1 with
        | .error k => .err k
        | .ok st2 =>
          match pushLink dir e.child (fun _ => true) false st2 with
          | .error k => .err k
          | .ok st3 => validateDirLoop m dir fuel st3 (id :: visited)
    else .panic "directory.rs:89 dir_entries[stream_id]"

def validateDir (m : Mode) (dir : Array DirEntry) : Outcome Unit :=
  if h : 0 < dir.size then
    if dir[0].streamLen % Gen.MINI_SECTOR_LEN ≠ 0 then bad
    else validateDirLoop m dir (dir.size + 1) [(Gen.ROOT_STREAM_ID, false)] []
  else bad

/-! ## chains (chain.rs:15-34) -/

/-- `Chain::new`: walk the FAT from `start`; the only cycle test is "back at the first id" -/
def chainLoop (fat : Array Nat) (first : Nat) : Nat → Nat → List Nat → Outcome (List Nat)
  | 0, _, _ => .hang "chain walk"
  | fuel + 1, cur, acc =>
    if cur = END then .ok acc.reverse
    else
      match nextSector fat cur with
      | .ok next => if next = first then bad else chainLoop fat first fuel next (cur :: acc)
      | .error k => .err k

def chainFrom (fat : Array Nat) (start : Nat) : Outcome (List Nat) :=
  chainLoop fat start (fat.size + 1) start []

/-- read `n` little-endian u32 from a chain of sectors, starting at chain offset 0 -/
def readChainU32s (img : Img) (S : Nat) (ids : Array Nat) : Nat → Nat → Outcome (List Nat)
  | 0, _ => .ok []
  | n + 1, i =>
    let off := 4 * i
    match ids[off / S]? with
    | none => .panic "chain.rs read beyond chain"
    | some id => do
      let v ← liftE (rd img (sectorOff S id (off % S)) 4)
      let rest ← readChainU32s img S ids n (i + 1)
      pure (v :: rest)

/-! ## MiniFAT validation (minialloc.rs:108-155) -/

def checkMiniPointees (mf : Array Nat) : Nat → List Nat → E Unit
  | i, seen =>
    if h : i < mf.size then
      let to := mf[i]
      if to ≤ MAXREG then
        if to ≥ mf.size then badE
        else if seen.contains to then badE
        else checkMiniPointees mf (i + 1) (to :: seen)
      else checkMiniPointees mf (i + 1) seen
    else .ok ()
termination_by i _ => mf.size - i

def validateMiniFat (m : Mode) (rootLen : Nat) (mf : List Nat) : E (List Nat) :=
  let rootMini := rootLen / Gen.MINI_SECTOR_LEN
  let mf' : E (List Nat) :=
    if rootMini < mf.length then (if m.isStrict then badE else .ok (mf.take rootMini)) else .ok mf
  match mf' with
  | .ok l => match checkMiniPointees l.toArray 0 [] with
    | .ok () => .ok l
    | .error k => .error k
  | .error k => .error k

/-! ## `open_internal` -/

def numSectorsOf (len S : Nat) : Nat := (len + S - 1) / S - 1

/-- the DIFAT as `open` uses it: permissive strips zero padding, both strip trailing FREE -/
def normDifat (m : Mode) (numFat : Nat) (difat0 : List Nat) : List Nat :=
  popWhile (fun x => x == FREE)
    (if m.isStrict then difat0 else popZeros numFat (difat0.length + 1) difat0)

/-- the FAT as `open` hands it to `Allocator::validate` -/
def normFat (m : Mode) (numSectors : Nat) (fat0 : List Nat) : List Nat :=
  let fat1 := if m.isStrict then fat0 else trimPermissive numSectors (fat0.length + 1) fat0
  padFree numSectors (trimFree numSectors (fat1.length + 1) fat1)

/-- everything after the DIFAT is known -/
def openTail (m : Mode) (img : Img) (h : Header) (numSectors : Nat) (difatIds difat : List Nat) :
    Outcome RawState := do
  let S := h.sectorLen
  if m.isStrict ∧ h.numFatSectors ≠ difat.length then bad else
  -- FAT
  let fat0 ← liftE (readFat img S numSectors difat)
  let fat ← liftE (validateFat m numSectors difatIds difat (normFat m numSectors fat0).toArray)
  -- directory
  let entries ← dirLoop m h img numSectors fat (numSectors + 1) h.firstDirSector 1 [] []
  let dir := entries.toArray
  validateDir m dir
  -- MiniFAT
  let mfChain ← chainFrom fat h.firstMiniFatSector
  if m.isStrict ∧ h.numMiniFatSectors ≠ mfChain.length then bad else
  let mf0 ← readChainU32s img S mfChain.toArray (mfChain.length * S / 4) 0
  let mf1 := popWhile (fun x => x == FREE) mf0
  let rootLen := (dir[0]?.map (·.streamLen)).getD 0
  let mf ← liftE (validateMiniFat m rootLen mf1)
  pure { v4 := h.v4, numSectors := numSectors, difatSectorIds := difatIds, difat := difat, fat := fat,
         dirStart := h.firstDirSector, dir := dir, miniFatStart := h.firstMiniFatSector,
         miniFat := mf.toArray }

def openImg (m : Mode) (img : Img) : Outcome RawState := do
  let len := img.size
  if len < Gen.HEADER_LEN then bad else
  let h ← liftE (readHeader m img)
  let S := h.sectorLen
  if len > (MAXREG + 1) * S then bad else
  if len < S then bad else
  let numSectors := numSectorsOf len S
  let (difatIds, difat0) ← difatLoop m img S numSectors (numSectors + 1) h.firstDifatSector [] [] h.initialDifat
  if m.isStrict ∧ h.numDifatSectors ≠ difatIds.length then bad else
  openTail m img h numSectors difatIds (normDifat m h.numFatSectors difat0)

end CfbVerif.Raw
