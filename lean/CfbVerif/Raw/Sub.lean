import CfbVerif.Raw.Model
/-!
# Strict acceptance implies permissive acceptance with the same result (C16)

`x ≼ y` : whenever `x` succeeds, `y` succeeds with the same value.  The strict and the permissive
run of every stage are the same program except for guards of the form
`if … ∧ m.isStrict then error else …`, so `stage .strict ≼ stage .permissive` follows by walking
the program once.
-/
set_option linter.unusedSimpArgs false
set_option linter.unusedVariables false
namespace CfbVerif.Raw

def E.le {α : Type} (x y : E α) : Prop := ∀ a, x = .ok a → y = .ok a
infix:50 " ≼ " => E.le

theorem E.le_refl {α : Type} (x : E α) : x ≼ x := fun _ h => h

theorem E.bind_mono {α β : Type} {x x' : E α} {f g : α → E β} (hx : x ≼ x') (hf : ∀ a, f a ≼ g a) :
    (x >>= f) ≼ (x' >>= g) := by
  intro b h
  cases x with
  | error k => simp [bind, Except.bind] at h
  | ok a =>
    rw [hx a rfl]
    simp only [bind, Except.bind] at h ⊢
    exact hf a b h

/-- a guard may only disappear (or stay) when going from strict to permissive -/
theorem E.ite_mono {α : Type} {c c' : Prop} [Decidable c] [Decidable c'] {k k' : E α}
    (hc : c' → c) (hk : k ≼ k') : (if c then badE else k) ≼ (if c' then badE else k') := by
  intro a h
  by_cases h1 : c
  · simp [h1, badE] at h
  · have : ¬ c' := fun h' => h1 (hc h')
    simp only [h1, this, if_false] at h ⊢
    exact hk a h

theorem E.ite_mono' {α : Type} {c c' : Prop} [Decidable c] [Decidable c'] {e : Kind} {k k' : E α}
    (hc : c' → c) (hk : k ≼ k') : (if c then .error e else k) ≼ (if c' then .error e else k') := by
  intro a h
  by_cases h1 : c
  · simp [h1] at h
  · have : ¬ c' := fun h' => h1 (hc h')
    simp only [h1, this, if_false] at h ⊢
    exact hk a h

theorem strict_true : Mode.strict.isStrict = true := rfl
theorem perm_false : Mode.permissive.isStrict = false := rfl

/-- one step through a stage written in `do` notation -/
macro "guard_imp" : tactic => `(tactic| (intro h; first
  | exact h
  | (simp only [strict_true, perm_false, Bool.false_eq_true, and_false, false_and, and_true, true_and] at h ⊢; done)
  | (simp only [strict_true, perm_false, Bool.false_eq_true, and_false, false_and, and_true, true_and] at h ⊢; first | exact h | exact h.elim | trivial | assumption)))

/-- one step through a stage written in `do` notation -/
macro "mono_step" : tactic => `(tactic| first
  | exact E.le_refl _
  | (apply E.bind_mono (E.le_refl _); intro _)
  | (apply E.ite_mono (by guard_imp))
  | (apply E.ite_mono' (by guard_imp)))

theorem readHeader_sub (img : Img) : readHeader .strict img ≼ readHeader .permissive img := by
  unfold readHeader
  repeat mono_step


theorem readDirEntry_sub (v4 : Bool) (img : Img) (off : Nat) :
    readDirEntry .strict v4 img off ≼ readDirEntry .permissive v4 img off := by
  unfold readDirEntry
  repeat mono_step
  -- the `match` on the decoded name
  cases decodeUtf16 _ with
  | none => exact E.le_refl _
  | some name0 =>
    simp only
    repeat mono_step

theorem readDirSector_sub (v4 : Bool) (img : Img) (base : Nat) : ∀ (n i : Nat),
    readDirSector .strict v4 img base n i ≼ readDirSector .permissive v4 img base n i := by
  intro n
  induction n with
  | zero => intro i; exact E.le_refl _
  | succ n ih =>
    intro i
    unfold readDirSector
    apply E.bind_mono (readDirEntry_sub _ _ _)
    intro e
    apply E.bind_mono (ih _)
    intro rest
    exact E.le_refl _

theorem markSectors_sub (mark : Nat) : ∀ (ids : List Nat) (fat : Array Nat),
    markSectors .strict mark ids fat ≼ markSectors .permissive mark ids fat := by
  intro ids
  induction ids with
  | nil => intro fat; exact E.le_refl _
  | cons id rest ih =>
    intro fat
    unfold markSectors
    split
    · apply E.ite_mono (by guard_imp)
      exact ih _
    · exact E.le_refl _

theorem validateFat_sub (n : Nat) (ids difat : List Nat) (fat : Array Nat) :
    validateFat .strict n ids difat fat ≼ validateFat .permissive n ids difat fat := by
  unfold validateFat
  apply E.ite_mono (fun h => h)
  apply E.bind_mono (markSectors_sub _ _ _)
  intro fat1
  apply E.bind_mono (markSectors_sub _ _ _)
  intro fat2
  exact E.le_refl _

/-- a MiniFAT that is not longer than the root stream is taken as it is in both modes -/
theorem validateMiniFat_sub (rootLen : Nat) (mf : List Nat) :
    validateMiniFat .strict rootLen mf ≼ validateMiniFat .permissive rootLen mf := by
  unfold validateMiniFat
  intro l h
  by_cases hlen : rootLen / Gen.MINI_SECTOR_LEN < mf.length
  · simp [hlen, strict_true, badE] at h
  · simp only [hlen, if_false] at h ⊢
    exact h


/-! ## the loops (in `Outcome`) -/

def O.le {α : Type} (x y : Outcome α) : Prop := ∀ a, x = .ok a → y = .ok a
infix:50 " ≼o " => O.le

theorem O.le_refl {α : Type} (x : Outcome α) : x ≼o x := fun _ h => h

theorem O.bind_mono {α β : Type} {x x' : Outcome α} {f g : α → Outcome β} (hx : x ≼o x')
    (hf : ∀ a, f a ≼o g a) : (x >>= f) ≼o (x' >>= g) := by
  intro b h
  cases x with
  | ok a => rw [hx a rfl]; exact hf a b h
  | err k => simp [bind, Outcome.bind] at h
  | panic s => simp [bind, Outcome.bind] at h
  | hang s => simp [bind, Outcome.bind] at h

theorem O.ite_mono {α : Type} {c c' : Prop} [Decidable c] [Decidable c'] {k k' : Outcome α}
    (hc : c' → c) (hk : k ≼o k') : (if c then bad else k) ≼o (if c' then bad else k') := by
  intro a h
  by_cases h1 : c
  · simp [h1, bad] at h
  · have : ¬ c' := fun h' => h1 (hc h')
    simp only [h1, this, if_false] at h ⊢
    exact hk a h

theorem liftE_mono {α : Type} {x y : E α} (h : x ≼ y) : liftE x ≼o liftE y := by
  intro a ha
  cases x with
  | error k => simp [liftE] at ha
  | ok b =>
    simp only [liftE, Outcome.ok.injEq] at ha
    subst ha
    rw [h b rfl]; rfl

theorem difatLoop_sub (img : Img) (S n : Nat) : ∀ (fuel cur : Nat) (seen ids difat : List Nat),
    difatLoop .strict img S n fuel cur seen ids difat ≼o difatLoop .permissive img S n fuel cur seen ids difat := by
  intro fuel
  induction fuel with
  | zero => intro cur seen ids difat; exact O.le_refl _
  | succ fuel ih =>
    intro cur seen ids difat
    unfold difatLoop
    split
    · exact O.le_refl _
    · split
      · exact O.le_refl _
      · split
        · exact O.le_refl _
        · split
          · exact O.le_refl _
          · cases readDifatEntries img (sectorOff S cur 0) (S / 4 - 1) with
            | error k => exact O.le_refl _
            | ok entries =>
              simp only
              cases rd img (sectorOff S cur (4 * (S / 4 - 1))) 4 with
              | error k => exact O.le_refl _
              | ok next =>
                simp only
                apply O.ite_mono (by guard_imp)
                exact ih _ _ _ _

theorem dirLoop_sub (h : Header) (img : Img) (n : Nat) (fat : Array Nat) :
    ∀ (fuel cur count : Nat) (seen : List Nat) (acc : List DirEntry),
    dirLoop .strict h img n fat fuel cur count seen acc ≼o dirLoop .permissive h img n fat fuel cur count seen acc := by
  intro fuel
  induction fuel with
  | zero => intro cur count seen acc; exact O.le_refl _
  | succ fuel ih =>
    intro cur count seen acc
    unfold dirLoop
    split
    · exact O.le_refl _
    · apply O.ite_mono (by guard_imp)
      split
      · exact O.le_refl _
      · split
        · exact O.le_refl _
        · split
          · exact O.le_refl _
          · intro r hr
            cases hs : readDirSector .strict h.v4 img (sectorOff h.sectorLen cur 0) (h.sectorLen / Gen.DIR_ENTRY_LEN) 0 with
            | error k => rw [hs] at hr; simp at hr
            | ok entries =>
              rw [hs] at hr
              rw [readDirSector_sub _ _ _ _ _ entries hs]
              simp only at hr ⊢
              cases hn : nextSector fat cur with
              | error k => rw [hn] at hr; simp at hr
              | ok next =>
                rw [hn] at hr
                simp only at hr ⊢
                exact ih _ _ _ _ r hr

theorem validateDirLoop_sub (dir : Array DirEntry) : ∀ (fuel : Nat) (stack : List (Nat × Bool)) (visited : List Nat),
    validateDirLoop .strict dir fuel stack visited ≼o validateDirLoop .permissive dir fuel stack visited := by
  intro fuel
  induction fuel with
  | zero => intro stack visited; exact O.le_refl _
  | succ fuel ih =>
    intro stack visited
    cases stack with
    | nil => exact O.le_refl _
    | cons top rest =>
      obtain ⟨id, pr⟩ := top
      unfold validateDirLoop
      split
      · exact O.le_refl _
      · split
        · simp only
          split
          · exact O.le_refl _
          · split
            · exact O.le_refl _
            · apply O.ite_mono (by guard_imp)
              cases pushLink dir _ _ _ rest with
              | error k => exact O.le_refl _
              | ok st1 =>
                simp only
                cases pushLink dir _ _ _ st1 with
                | error k => exact O.le_refl _
                | ok st2 =>
                  simp only
                  cases pushLink dir _ _ _ st2 with
                  | error k => exact O.le_refl _
                  | ok st3 => simp only; exact ih _ _
        · exact O.le_refl _

theorem validateDir_sub (dir : Array DirEntry) : validateDir .strict dir ≼o validateDir .permissive dir := by
  unfold validateDir
  split
  · split
    · exact O.le_refl _
    · exact validateDirLoop_sub _ _ _ _
  · exact O.le_refl _


/-! ## the mode-dependent normalisations are no-ops on what strict accepts -/

theorem trimFree_of_le (n : Nat) : ∀ (fuel : Nat) (l : List Nat), l.length ≤ n → trimFree n fuel l = l := by
  intro fuel
  cases fuel with
  | zero => intro l _; rfl
  | succ f => intro l h; unfold trimFree; simp; intro h1; omega

theorem getLast?_isSome_of_ne_nil {l : List Nat} (h : l ≠ []) : ∃ x, l.getLast? = some x := by
  cases hl : l.getLast? with
  | none => simp at hl; exact absurd hl h
  | some x => exact ⟨x, rfl⟩

/-- if stripping FREE cells gets the FAT down to the sector count, then the permissive stripping
(of zero / FATSECT / DIFSECT / FREE padding) strips exactly the same cells -/
theorem trimPermissive_eq_trimFree (n : Nat) : ∀ (fuel : Nat) (l : List Nat),
    l.length - n < fuel → (trimFree n fuel l).length ≤ n → trimPermissive n fuel l = trimFree n fuel l := by
  intro fuel
  induction fuel with
  | zero => intro l h _; omega
  | succ fuel ih =>
    intro l hf hlen
    unfold trimPermissive
    unfold trimFree at hlen ⊢
    by_cases hgt : l.length > n
    · simp only [hgt, true_and, if_true] at hlen ⊢
      have hne : l ≠ [] := by intro h; subst h; simp at hgt
      obtain ⟨x, hx⟩ := getLast?_isSome_of_ne_nil hne
      rw [hx] at hlen ⊢
      simp only [Option.some.injEq] at hlen ⊢
      by_cases hfree : x = FREE
      · subst hfree
        simp only [if_true] at hlen ⊢
        have : isPadding FREE = true := by simp [isPadding]
        simp only [this, if_true]
        apply ih
        · simp only [List.length_dropLast]; omega
        · exact hlen
      · simp only [hfree, if_false] at hlen
        omega
    · have hle : ¬ (l.length > n ∧ l.getLast? = some FREE) := fun h => hgt h.1
      rw [if_neg hgt, if_neg hle]

theorem padFree_length (n : Nat) (l : List Nat) : (padFree n l).length = max l.length n := by
  simp [padFree]; omega

theorem normFat_eq (n : Nat) (fat0 : List Nat) (h : (normFat .strict n fat0).length ≤ n) :
    normFat .permissive n fat0 = normFat .strict n fat0 := by
  unfold normFat at *
  simp only [strict_true, perm_false, if_true, Bool.false_eq_true, if_false] at *
  rw [padFree_length] at h
  have hlen : (trimFree n (fat0.length + 1) fat0).length ≤ n := by omega
  have e1 := trimPermissive_eq_trimFree n (fat0.length + 1) fat0 (by omega) hlen
  rw [e1, trimFree_of_le n _ _ hlen]

theorem popWhile_length_le (p : Nat → Bool) (l : List Nat) : (popWhile p l).length ≤ l.length := by
  unfold popWhile
  simp only [List.length_reverse]
  have := (List.dropWhile_sublist p (l := l.reverse)).length_le
  simpa using this

theorem popWhile_lt_last (p : Nat → Bool) (l : List Nat) (h : (popWhile p l).length < l.length) :
    ∃ x, l.getLast? = some x ∧ p x = true := by
  unfold popWhile at h
  simp only [List.length_reverse] at h
  cases hr : l.reverse with
  | nil =>
    have := congrArg List.length hr
    simp only [List.length_reverse, List.length_nil] at this
    rw [hr] at h; simp only [List.dropWhile_nil, List.length_nil] at h; omega
  | cons x xs =>
    rw [hr] at h
    refine ⟨x, ?_, ?_⟩
    · have : l = (x :: xs).reverse := by rw [← hr]; simp
      rw [this]; simp
    · by_cases hp : p x = true
      · exact hp
      · simp only [List.dropWhile_cons, hp, if_false, Bool.false_eq_true] at h
        have := congrArg List.length hr
        simp only [List.length_reverse, List.length_cons] at this h; omega

theorem FREE_ne_zero : FREE ≠ 0 := by decide

theorem normDifat_eq (numFat : Nat) (difat0 : List Nat) (h : numFat = (normDifat .strict numFat difat0).length) :
    normDifat .permissive numFat difat0 = normDifat .strict numFat difat0 := by
  unfold normDifat at *
  simp only [strict_true, perm_false, if_true, Bool.false_eq_true, if_false] at *
  suffices hz : popZeros numFat (difat0.length + 1) difat0 = difat0 by rw [hz]
  unfold popZeros
  by_cases hgt : difat0.length > numFat
  · have hlt : (popWhile (fun x => x == FREE) difat0).length < difat0.length := by omega
    obtain ⟨x, hx, hpx⟩ := popWhile_lt_last _ _ hlt
    have hxf : x = FREE := by simpa using hpx
    subst hxf
    have : ¬ (difat0.getLast? = some 0) := by
      rw [hx]; intro he; exact FREE_ne_zero (Option.some.inj he)
    simp [this]
  · simp [hgt]

theorem validateFat_size {m : Mode} {n : Nat} {ids difat : List Nat} {fat f : Array Nat}
    (h : validateFat m n ids difat fat = .ok f) : fat.size ≤ n := by
  unfold validateFat at h
  by_cases hs : fat.size > n
  · simp [hs, badE] at h
  · omega

end CfbVerif.Raw
