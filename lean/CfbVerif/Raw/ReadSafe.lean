import CfbVerif.Raw.Read
import CfbVerif.Raw.Safe
import CfbVerif.Handle.Lemmas
/-!
# After `open`: reading never panics and never hangs

`Raw/Safe.lean` shows that `open` itself is total.  Here: on the tables a successful `open`
returns — for *any* byte string, so for any damaged file the three `validate`s let through —
every chain walk, every stream read (at any offset and length, and `read_to_end` through a fresh
handle), every lookup, every listing and the whole walk end in `Ok` or an error value: no
unchecked index is out of range and every loop ends within the fuel the model gives it.
-/
namespace CfbVerif.Raw
open CfbVerif.Names

theorem bindO_ok {α β : Type} {x : Outcome α} {f : α → Outcome β} {b : β}
    (h : (x >>= f) = .ok b) : ∃ a, x = .ok a ∧ f a = .ok b := by
  cases x with
  | ok a => exact ⟨a, rfl, h⟩
  | err k => cases h
  | panic s => cases h
  | hang s => cases h

theorem liftE_ok' {α : Type} {x : E α} {a : α} (h : liftE x = .ok a) : x = .ok a := by
  cases x with
  | ok v => simp [liftE] at h; rw [h]
  | error k => simp [liftE] at h

/-! ## the MiniFAT's pointee check gives the same injectivity -/

theorem checkMiniPointees_spec (mf : Array Nat) (i : Nat) (seen : List Nat)
    (h : checkMiniPointees mf i seen = .ok ()) :
    (∀ j (hj : j < mf.size), i ≤ j → mf[j] ≤ MAXREG → mf[j] ∉ seen) ∧
    (∀ j k (hj : j < mf.size) (hk : k < mf.size), i ≤ j → j < k → mf[j] ≤ MAXREG → mf[j] ≠ mf[k]) := by
  fun_induction checkMiniPointees mf i seen with
  | case1 i seen hi to hreg hge => simp [badE] at h
  | case2 i seen hi to hreg hlt hc => simp [badE] at h
  | case3 i seen hi to hreg hlt hc ih =>
    have ih' := ih h
    constructor
    · intro j hj hij hr
      by_cases hji : j = i
      · subst hji; simpa using hc
      · have := ih'.1 j hj (by omega) hr
        intro hm; exact this (List.mem_cons_of_mem _ hm)
    · intro j k hj hk hij hjk hr
      by_cases hji : j = i
      · subst hji
        by_cases hkr : mf[k] ≤ MAXREG
        · have := ih'.1 k hk (by omega) hkr
          intro he; apply this; rw [← he]; exact List.mem_cons_self
        · intro he; rw [he] at hr; exact hkr hr
      · exact ih'.2 j k hj hk (by omega) hjk hr
  | case4 i seen hi to hnreg ih =>
    have ih' := ih h
    constructor
    · intro j hj hij hr
      by_cases hji : j = i
      · subst hji; exact absurd hr hnreg
      · exact ih'.1 j hj (by omega) hr
    · intro j k hj hk hij hjk hr
      by_cases hji : j = i
      · subst hji; exact absurd hr hnreg
      · exact ih'.2 j k hj hk (by omega) hjk hr
  | case5 i seen hi =>
    exact ⟨fun j hj hij => by omega, fun j k hj hk hij hjk => by omega⟩

theorem regInj_of_checkMiniPointees (mf : Array Nat) (h : checkMiniPointees mf 0 [] = .ok ()) : RegInj mf := by
  have sp := (checkMiniPointees_spec mf 0 [] h).2
  intro i j hi hj hr he
  rcases Nat.lt_trichotomy i j with hlt | heq | hgt
  · exact absurd he (sp i j hi hj (Nat.zero_le _) hlt hr)
  · exact heq
  · have hr' : mf[j] ≤ MAXREG := by rw [← he]; exact hr
    exact absurd he.symm (sp j i hj hi (Nat.zero_le _) hgt hr')

theorem regInj_of_validateMiniFat {m : Mode} {rootLen : Nat} {mf l : List Nat}
    (h : validateMiniFat m rootLen mf = .ok l) : RegInj l.toArray := by
  unfold validateMiniFat at h
  dsimp only at h
  split at h
  · rename_i l' hl'
    split at h
    · rename_i hc
      cases h
      exact regInj_of_checkMiniPointees _ hc
    · cases h
  · cases h

/-! ## what a successful `open` establishes -/

structure Opened (m : Mode) (r : RawState) : Prop where
  fat : RegInj r.fat
  mini : RegInj r.miniFat
  dir : validateDir m r.dir = .ok ()

theorem opened_of_openTail {m : Mode} {img : Img} {h : Header} {numSectors : Nat} {difatIds difat : List Nat}
    {r : RawState} (ho : openTail m img h numSectors difatIds difat = .ok r) : Opened m r := by
  unfold openTail at ho
  simp only [bind, pure] at ho
  split at ho
  · cases ho
  · obtain ⟨fat0, _, ho⟩ := bindO_ok ho
    obtain ⟨fat, hfat, ho⟩ := bindO_ok ho
    have hinj : RegInj fat := regInj_of_validateFat (liftE_ok' hfat)
    obtain ⟨entries, _, ho⟩ := bindO_ok ho
    obtain ⟨u, hv, ho⟩ := bindO_ok ho
    obtain ⟨mfChain, _, ho⟩ := bindO_ok ho
    split at ho
    · cases ho
    · obtain ⟨mf0, _, ho⟩ := bindO_ok ho
      obtain ⟨mf, hmf, ho⟩ := bindO_ok ho
      cases ho
      exact ⟨hinj, regInj_of_validateMiniFat (liftE_ok' hmf), by cases u; exact hv⟩

theorem opened_of_open {m : Mode} {img : Img} {r : RawState} (ho : openImg m img = .ok r) : Opened m r := by
  unfold openImg at ho
  simp only [bind, pure] at ho
  split at ho
  · cases ho
  · obtain ⟨h, _, ho⟩ := bindO_ok ho
    split at ho
    · cases ho
    · split at ho
      · cases ho
      · obtain ⟨⟨difatIds, difat0⟩, _, ho⟩ := bindO_ok ho
        simp only at ho
        split at ho
        · cases ho
        · exact opened_of_openTail ho

/-! ## stream reads -/

/-- `MiniChain::new` walks the MiniFAT exactly as `Chain::new` walks the FAT -/
theorem safe_miniChainLoop (mf : Array Nat) (first : Nat) : ∀ (fuel cur : Nat) (acc : List Nat),
    (chainLoop mf first fuel cur acc).Safe → (miniChainLoop mf first fuel cur acc).Safe := by
  intro fuel
  induction fuel with
  | zero => intro cur acc h; exact h
  | succ fuel ih =>
    intro cur acc h
    unfold miniChainLoop
    unfold chainLoop at h
    split
    · trivial
    · rename_i hne
      rw [if_neg hne] at h
      cases hn : nextSector mf cur with
      | error k => trivial
      | ok next =>
        simp only [hn] at h ⊢
        split
        · trivial
        · rename_i hnf
          rw [if_neg hnf] at h
          exact ih _ _ h

theorem safe_readChainBytes (img : Img) (S : Nat) (ids : Array Nat) : ∀ (n off : Nat) (acc : List UInt8),
    (readChainBytes img S ids n off acc).Safe := by
  intro n
  induction n with
  | zero => intro off acc; trivial
  | succ n ih =>
    intro off acc
    unfold readChainBytes
    split
    · trivial
    · split
      · trivial
      · exact ih _ _

theorem safe_readMiniBytes (img : Img) (S : Nat) (rootChain : Outcome (List Nat)) (hrc : rootChain.Safe) (ids : Array Nat) :
    ∀ (n off : Nat) (acc : List UInt8), (readMiniBytes img S rootChain ids n off acc).Safe := by
  intro n
  induction n with
  | zero => intro off acc; trivial
  | succ n ih =>
    intro off acc
    unfold readMiniBytes
    split
    · trivial
    · cases rootChain with
      | ok rc =>
        simp only
        split
        · trivial
        · split
          · trivial
          · exact ih _ _
      | err k => trivial
      | panic s => exact hrc
      | hang s => exact hrc

/-- **`read_data_from_stream` never panics or hangs**, for any entry, offset and length -/
theorem safe_readData {m : Mode} {r : RawState} (o : Opened m r) (img : Img) (e : DirEntry) (off n : Nat) :
    (readData r img e off n).Safe := by
  unfold readData
  split
  · trivial
  · dsimp only
    split
    · have hs : (miniChainLoop r.miniFat e.startSector (r.miniFat.size + 1) e.startSector []).Safe :=
        safe_miniChainLoop _ _ _ _ _ (safe_chainFrom r.miniFat o.mini e.startSector)
      split
      · split
        · trivial
        · exact safe_readMiniBytes _ _ _ (safe_chainFrom r.fat o.fat _) _ _ _ _
      · trivial
      · rename_i s hp; rw [hp] at hs; exact hs
      · rename_i s hp; rw [hp] at hs; exact hs
    · have hs := safe_chainFrom r.fat o.fat e.startSector
      split
      · split
        · trivial
        · exact safe_readChainBytes _ _ _ _ _ _
      · trivial
      · rename_i s hp; rw [hp] at hs; exact hs
      · rename_i s hp; rw [hp] at hs; exact hs

theorem safe_readAllLoop {m : Mode} {r : RawState} (o : Opened m r) (img : Img) (e : DirEntry) (maxBuf : Nat)
    (hmax : Handle.bufMin ≤ maxBuf) : ∀ (fuel off dataLen : Nat) (acc : List UInt8),
    Handle.bufMin ≤ dataLen → dataLen ≤ maxBuf →
    (e.streamLen - off) / Handle.bufMin + 2 ≤ fuel + (if off ≥ e.streamLen then 1 else 0) →
    (readAllLoop r img e maxBuf fuel off dataLen acc).Safe := by
  intro fuel
  induction fuel with
  | zero =>
    intro off dataLen acc h1 h2 hf
    exfalso
    split at hf
    · rename_i hge
      have : e.streamLen - off = 0 := by omega
      rw [this] at hf
      simp at hf
    · generalize (e.streamLen - off) / Handle.bufMin = q at hf
      omega
  | succ fuel ih =>
    intro off dataLen acc h1 h2 hf
    unfold readAllLoop
    split
    · trivial
    · rename_i hlt
      dsimp only
      have hsd := safe_readData o img e off (min (Handle.growForRead dataLen maxBuf (e.streamLen - off)) (e.streamLen - off))
      split
      · have gb := Handle.growForRead_bounds dataLen maxBuf (e.streamLen - off) h1 h2
        refine ih _ _ _ gb.1 gb.2 ?_
        have hb : 0 < Handle.bufMin := Handle.bufMin_pos
        rw [if_neg hlt] at hf
        generalize hg : Handle.growForRead dataLen maxBuf (e.streamLen - off) = g at gb
        generalize hB : Handle.bufMin = B at *
        generalize hR : e.streamLen - off = R at *
        have hRpos : 0 < R := by omega
        by_cases hc : off + min g R ≥ e.streamLen
        · rw [if_pos hc]
          have h0 : e.streamLen - (off + min g R) = 0 := by omega
          rw [h0, Nat.zero_div]
          generalize R / B = Q at hf
          omega
        · rw [if_neg hc]
          have hmin : min g R = g := by omega
          rw [hmin] at hc ⊢
          have hsub : e.streamLen - (off + g) = R - g := by omega
          rw [hsub]
          have hdiv : (R - g) / B + 1 ≤ R / B := by
            have h1' : (R - g) / B ≤ (R - B) / B := Nat.div_le_div_right (by omega)
            have h2' : (R - B) / B + 1 = R / B := by
              have hRB : B ≤ R := by omega
              have := Nat.sub_add_cancel hRB
              have e2 : R / B = (R - B + B) / B := by rw [this]
              rw [e2, Nat.add_div_right _ hb]
            omega
          generalize R / B = Q at hf hdiv
          generalize (R - g) / B = Q' at hdiv ⊢
          omega
      · trivial
      · rename_i s hp; rw [hp] at hsd; exact hsd
      · rename_i s hp; rw [hp] at hsd; exact hsd

/-- **`read_to_end` on any stream never panics or hangs** -/
theorem safe_readAll {m : Mode} {r : RawState} (o : Opened m r) (img : Img) (e : DirEntry) : (readAll r img e).Safe := by
  unfold readAll
  refine safe_readAllLoop o img e _ (Nat.le_max_right _ _) _ _ _ _ (Nat.le_refl _) (Nat.le_max_right _ _) ?_
  simp only [Nat.sub_zero]
  split <;> omega

/-! ## what the DFS of `Directory::validate` establishes: the reachable entries form a tree -/

def opt (x : Nat) : List Nat := if x = NOSTREAM then [] else [x]

/-- the entries an entry links to -/
def linksOf (dir : Array DirEntry) (id : Nat) : List Nat :=
  match dir[id]? with
  | none => []
  | some e => opt e.left ++ (opt e.right ++ opt e.child)

theorem pushLink_shape {dir : Array DirEntry} {link : Nat} {check : DirEntry → Bool} {flag : Bool}
    {stack st' : List (Nat × Bool)} (h : pushLink dir link check flag stack = .ok st') :
    st'.map (·.1) = opt link ++ stack.map (·.1) ∧ (∀ x ∈ opt link, x < dir.size) := by
  unfold pushLink at h
  unfold opt
  split at h
  · rename_i hne
    split at h
    · rename_i hlt
      split at h
      · cases h
      · simp only [Except.ok.injEq] at h
        subst h
        rw [if_neg hne]
        exact ⟨rfl, fun x hx => by simp at hx; subst hx; exact hlt⟩
    · cases h
  · rename_i he
    simp only [Except.ok.injEq] at h
    subst h
    have : link = NOSTREAM := by
      by_cases hc : link = NOSTREAM
      · exact hc
      · exact absurd hc he
    rw [if_pos this]
    exact ⟨rfl, fun x hx => by simp at hx⟩

/-- the loop invariant of the DFS.  `visited` is newest first: what an entry links to is either
visited *later* than the entry or still waiting on the stack; and stack plus visited is, as a
multiset, the root plus every link target of the visited entries -/
structure DfsInv (dir : Array DirEntry) (stack : List Nat) (visited : List Nat) : Prop where
  nd : visited.Nodup
  lt : ∀ x ∈ visited, x < dir.size
  st : ∀ x ∈ stack, x < dir.size
  fwd : ∀ a v b, visited = a ++ v :: b → ∀ t ∈ linksOf dir v, t ∈ a ∨ t ∈ stack
  perm : (stack ++ visited).Perm (Gen.ROOT_STREAM_ID :: visited.flatMap (linksOf dir))

theorem validateDirLoop_post (m : Mode) (dir : Array DirEntry) :
    ∀ (fuel : Nat) (stack : List (Nat × Bool)) (visited : List Nat),
    validateDirLoop m dir fuel stack visited = .ok () → DfsInv dir (stack.map (·.1)) visited →
    ∃ V, (∃ pre, V = pre ++ visited) ∧ DfsInv dir [] V ∧ ∀ x ∈ stack.map (·.1), x ∈ V := by
  intro fuel
  induction fuel with
  | zero => intro stack visited h; simp [validateDirLoop] at h
  | succ fuel ih =>
    intro stack visited h inv
    cases stack with
    | nil =>
      exact ⟨visited, ⟨[], rfl⟩, by simpa using inv, fun x hx => by simp at hx⟩
    | cons top rest =>
      obtain ⟨id, parentRed⟩ := top
      have hid : id < dir.size := inv.st id (by simp)
      unfold validateDirLoop at h
      split at h
      · cases h
      · rename_i hvis
        simp only [hid, dite_true] at h
        split at h
        · cases h
        · split at h
          · cases h
          · split at h
            · cases h
            · split at h
              · cases h
              · rename_i st1 h1
                split at h
                · cases h
                · rename_i st2 h2
                  split at h
                  · cases h
                  · rename_i st3 h3
                    obtain ⟨e1, r1⟩ := pushLink_shape h1
                    obtain ⟨e2, r2⟩ := pushLink_shape h2
                    obtain ⟨e3, r3⟩ := pushLink_shape h3
                    have hnot : id ∉ visited := contains_false_not_mem hvis
                    have hlinks : linksOf dir id = opt dir[id].left ++ (opt dir[id].right ++ opt dir[id].child) := by
                      unfold linksOf
                      rw [Array.getElem?_eq_getElem hid]
                    have hst3 : st3.map (·.1) = opt dir[id].child ++ (opt dir[id].right ++ (opt dir[id].left ++ rest.map (·.1))) := by
                      rw [e3, e2, e1]
                    have inv' : DfsInv dir (st3.map (·.1)) (id :: visited) := by
                      refine ⟨List.nodup_cons.mpr ⟨hnot, inv.nd⟩, ?_, ?_, ?_, ?_⟩
                      · intro x hx
                        rcases List.mem_cons.mp hx with rfl | hx
                        · exact hid
                        · exact inv.lt x hx
                      · intro x hx
                        rw [hst3] at hx
                        simp only [List.mem_append] at hx
                        rcases hx with hx | hx | hx | hx
                        · exact r3 x hx
                        · exact r2 x hx
                        · exact r1 x hx
                        · exact inv.st x (by simp [hx])
                      · intro a v b hdec t ht
                        cases a with
                        | nil =>
                          simp only [List.nil_append, List.cons.injEq] at hdec
                          obtain ⟨rfl, rfl⟩ := hdec
                          right
                          rw [hlinks] at ht
                          rw [hst3]
                          simp only [List.mem_append] at ht ⊢
                          rcases ht with ht | ht | ht
                          · exact Or.inr (Or.inr (Or.inl ht))
                          · exact Or.inr (Or.inl ht)
                          · exact Or.inl ht
                        | cons a0 a' =>
                          simp only [List.cons_append, List.cons.injEq] at hdec
                          obtain ⟨rfl, hdec⟩ := hdec
                          rcases inv.fwd a' v b hdec t ht with hm | hm
                          · exact Or.inl (List.mem_cons_of_mem _ hm)
                          · simp only [List.map_cons, List.mem_cons] at hm
                            rcases hm with rfl | hm
                            · exact Or.inl (by simp)
                            · right; rw [hst3]; simp [hm]
                      · rw [hst3]
                        have hp := inv.perm
                        simp only [List.map_cons, List.cons_append] at hp
                        simp only [List.flatMap_cons, hlinks]
                        -- new: c ++ r ++ l ++ rest ++ id :: visited   ~   root :: (l ++ r ++ c) ++ flat
                        have hp2 : (rest.map (·.1) ++ id :: visited).Perm (id :: (rest.map (·.1) ++ visited)) :=
                          List.perm_middle
                        have hp3 : (rest.map (·.1) ++ id :: visited).Perm
                            (Gen.ROOT_STREAM_ID :: visited.flatMap (linksOf dir)) := hp2.trans hp
                        have e : opt dir[id].child ++ (opt dir[id].right ++ (opt dir[id].left ++ List.map (fun x => x.fst) rest)) ++ id :: visited =
                            opt dir[id].child ++ (opt dir[id].right ++ (opt dir[id].left ++ (List.map (fun x => x.fst) rest ++ id :: visited))) := by
                          simp [List.append_assoc]
                        rw [e]
                        rw [List.perm_iff_count]
                        intro a
                        have hc := hp3.count_eq a
                        simp only [List.count_append, List.count_cons] at hc ⊢
                        omega
                    obtain ⟨V, ⟨pre, hV⟩, invV, hall⟩ := ih st3 (id :: visited) h inv'
                    refine ⟨V, ⟨pre ++ [id], by rw [hV]; simp⟩, invV, ?_⟩
                    intro x hx
                    simp only [List.map_cons, List.mem_cons] at hx
                    rcases hx with rfl | hx
                    · rw [hV]; simp
                    · refine hall x ?_
                      rw [hst3]; simp [hx]

/-- the entries reachable from the root, in the order the DFS visited them (newest first): no
repetition, all in range, every link leads to an entry visited later (so there is no cycle), and
the link targets are, as a multiset, exactly the visited entries without the root (so no entry has
two parents) -/
structure DirTree (dir : Array DirEntry) (V : List Nat) : Prop where
  nd : V.Nodup
  lt : ∀ x ∈ V, x < dir.size
  root : Gen.ROOT_STREAM_ID ∈ V
  fwd : ∀ a v b, V = a ++ v :: b → ∀ t ∈ linksOf dir v, t ∈ a
  perm : V.Perm (Gen.ROOT_STREAM_ID :: V.flatMap (linksOf dir))

theorem dirTree_of_validateDir {m : Mode} {dir : Array DirEntry} (h : validateDir m dir = .ok ()) :
    ∃ V, DirTree dir V := by
  unfold validateDir at h
  split at h
  · rename_i hpos
    split at h
    · cases h
    · have inv0 : DfsInv dir ([(Gen.ROOT_STREAM_ID, false)].map (·.1)) [] := by
        refine ⟨List.nodup_nil, fun x hx => by simp at hx, ?_, ?_, ?_⟩
        · intro x hx
          simp at hx; subst hx; exact hpos
        · intro a v b hdec; simp at hdec
        · simp
      obtain ⟨V, _, invV, hall⟩ := validateDirLoop_post m dir _ _ _ h inv0
      refine ⟨V, invV.nd, invV.lt, hall _ (by simp), ?_, by simpa using invV.perm⟩
      intro a v b hdec t ht
      rcases invV.fwd a v b hdec t ht with hm | hm
      · exact hm
      · simp at hm
  · cases h

theorem DirTree.length_le {dir : Array DirEntry} {V : List Nat} (tr : DirTree dir V) : V.length ≤ dir.size :=
  length_le_of_nodup_lt dir.size V tr.nd tr.lt

theorem mem_opt {x y : Nat} : x ∈ opt y ↔ y ≠ NOSTREAM ∧ x = y := by
  unfold opt
  split
  · rename_i h; simp [h]
  · rename_i h; simp [h]

/-- a link of a visited entry is absent or leads to an entry visited later -/
theorem DirTree.link {dir : Array DirEntry} {V : List Nat} (tr : DirTree dir V) {a b : List Nat} {v : Nat}
    (hdec : V = a ++ v :: b) {e : DirEntry} (he : dir[v]? = some e) {t : Nat} (ht : t = e.left ∨ t = e.right ∨ t = e.child) :
    t = NOSTREAM ∨ ∃ a1 a2, V = a1 ++ t :: a2 ∧ a1.length < a.length := by
  by_cases hn : t = NOSTREAM
  · exact Or.inl hn
  · right
    have hm : t ∈ linksOf dir v := by
      unfold linksOf
      rw [he]
      simp only [List.mem_append, mem_opt]
      rcases ht with rfl | rfl | rfl
      · exact Or.inl ⟨hn, rfl⟩
      · exact Or.inr (Or.inl ⟨hn, rfl⟩)
      · exact Or.inr (Or.inr ⟨hn, rfl⟩)
    have hta := tr.fwd a v b hdec t hm
    obtain ⟨a1, a2, ea⟩ := List.append_of_mem hta
    refine ⟨a1, a2 ++ v :: b, by rw [hdec, ea]; simp, ?_⟩
    rw [ea]; simp

theorem DirTree.get {dir : Array DirEntry} {V : List Nat} (tr : DirTree dir V) {v : Nat} (hv : v ∈ V) :
    ∃ e, dir[v]? = some e := ⟨dir[v]'(tr.lt v hv), Array.getElem?_eq_getElem (tr.lt v hv)⟩

/-- the BST search below one storage stays inside the tree and ends -/
theorem safe_findChild {r : RawState} {V : List Nat} (tr : DirTree r.dir V) (name : Name) :
    ∀ (fuel id : Nat), ((id = NOSTREAM ∧ 0 < fuel) ∨ ∃ a b, V = a ++ id :: b ∧ a.length + 1 < fuel) →
    (findChild r name fuel id).Safe ∧ ∀ c, findChild r name fuel id = .ok (some c) → c ∈ V := by
  intro fuel
  induction fuel with
  | zero =>
    intro id h
    rcases h with ⟨_, hl⟩ | ⟨a, b, _, hl⟩
    · exact absurd hl (Nat.lt_irrefl 0)
    · exact absurd hl (Nat.not_lt_zero _)
  | succ fuel ih =>
    intro id h
    unfold findChild
    split
    · exact ⟨trivial, fun c hc => by cases hc⟩
    · rename_i hne
      rcases h with ⟨rfl, _⟩ | ⟨a, b, hdec, hl⟩
      · exact absurd rfl hne
      · have hid : id ∈ V := by rw [hdec]; simp
        obtain ⟨e, he⟩ := tr.get hid
        rw [he]
        simp only
        have next : ∀ t, (t = e.left ∨ t = e.right ∨ t = e.child) →
            ((t = NOSTREAM ∧ 0 < fuel) ∨ ∃ a1 a2, V = a1 ++ t :: a2 ∧ a1.length + 1 < fuel) := by
          intro t ht
          rcases tr.link hdec he ht with h0 | ⟨a1, a2, e1, hl1⟩
          · exact Or.inl ⟨h0, by omega⟩
          · exact Or.inr ⟨a1, a2, e1, by omega⟩
        split
        · exact ⟨trivial, fun c hc => by cases hc; exact hid⟩
        · exact ih _ (next _ (Or.inl rfl))
        · exact ih _ (next _ (Or.inr (Or.inl rfl)))

/-- **path lookup never panics or hangs**, and what it finds is an entry of the tree -/
theorem safe_lookup {r : RawState} {V : List Nat} (tr : DirTree r.dir V) :
    ∀ (names : List Name) (id : Nat), id ∈ V →
    (lookup r names id).Safe ∧ ∀ c, lookup r names id = .ok (some c) → c ∈ V := by
  intro names
  induction names with
  | nil => intro id hid; exact ⟨trivial, fun c hc => by cases hc; exact hid⟩
  | cons n ns ih =>
    intro id hid
    unfold lookup
    obtain ⟨e, he⟩ := tr.get hid
    rw [he]
    simp only
    obtain ⟨a, b, hdec⟩ := List.append_of_mem hid
    have hstart : (e.child = NOSTREAM ∧ 0 < r.dir.size + 1) ∨
        ∃ a1 a2, V = a1 ++ e.child :: a2 ∧ a1.length + 1 < r.dir.size + 1 := by
      rcases tr.link hdec he (Or.inr (Or.inr rfl)) with h0 | ⟨a1, a2, e1, hl1⟩
      · exact Or.inl ⟨h0, Nat.succ_pos _⟩
      · refine Or.inr ⟨a1, a2, e1, ?_⟩
        have := tr.length_le
        have : a.length + 1 ≤ V.length := by rw [hdec]; simp
        omega
    obtain ⟨hs, hc⟩ := safe_findChild tr n _ _ hstart
    split
    · rename_i c hf; exact ih c (hc c hf)
    · exact ⟨trivial, fun c hc' => by cases hc'⟩
    · exact ⟨trivial, fun c hc' => by cases hc'⟩
    · rename_i s hp; rw [hp] at hs; exact ⟨hs, fun c hc' => by cases hc'⟩
    · rename_i s hp; rw [hp] at hs; exact ⟨hs, fun c hc' => by cases hc'⟩

/-! ## the walk: every entry is pushed at most once -/

theorem pw_of_mem {α : Type} {R : α → α → Prop} {l : List α} (h : l.Pairwise R) (hs : ∀ a b, R a b → R b a)
    {x y : α} (hx : x ∈ l) (hy : y ∈ l) (hne : x ≠ y) : R x y := by
  induction h with
  | nil => cases hx
  | cons hhead _ ih =>
    rcases List.mem_cons.mp hx with hxa | hx
    · rcases List.mem_cons.mp hy with hya | hy
      · exact absurd (hxa.trans hya.symm) hne
      · rw [hxa]; exact hhead y hy
    · rcases List.mem_cons.mp hy with hya | hy
      · rw [hya]; exact hs _ _ (hhead x hx)
      · exact ih hx hy

theorem DirTree.flat {dir : Array DirEntry} {V : List Nat} (tr : DirTree dir V) :
    (Gen.ROOT_STREAM_ID :: V.flatMap (linksOf dir)).Nodup := (tr.perm.nodup_iff).mp tr.nd

theorem DirTree.not_root {dir : Array DirEntry} {V : List Nat} (tr : DirTree dir V) {w t : Nat} (hw : w ∈ V)
    (ht : t ∈ linksOf dir w) : t ≠ Gen.ROOT_STREAM_ID := by
  intro e
  have := (List.nodup_cons.mp tr.flat).1
  exact this (List.mem_flatMap.mpr ⟨w, hw, e ▸ ht⟩)

theorem DirTree.links_nodup {dir : Array DirEntry} {V : List Nat} (tr : DirTree dir V) {w : Nat} (hw : w ∈ V) :
    (linksOf dir w).Nodup := by
  have h := (List.nodup_cons.mp tr.flat).2
  exact (List.pairwise_flatMap.mp h).1 w hw

theorem DirTree.unique_parent {dir : Array DirEntry} {V : List Nat} (tr : DirTree dir V) {w1 w2 t : Nat}
    (h1 : w1 ∈ V) (h2 : w2 ∈ V) (t1 : t ∈ linksOf dir w1) (t2 : t ∈ linksOf dir w2) : w1 = w2 := by
  by_cases hne : w1 = w2
  · exact hne
  · exfalso
    have h := (List.nodup_cons.mp tr.flat).2
    have pw := (List.pairwise_flatMap.mp h).2
    have := pw_of_mem pw (fun a b hab x hx y hy => (hab y hy x hx).symm) h1 h2 hne
    exact this t t1 t t2 rfl

theorem DirTree.closed {dir : Array DirEntry} {V : List Nat} (tr : DirTree dir V) {w t : Nat} (hw : w ∈ V)
    (ht : t ∈ linksOf dir w) : t ∈ V ∧ t ≠ w := by
  obtain ⟨a, b, hdec⟩ := List.append_of_mem hw
  have hta := tr.fwd a w b hdec t ht
  refine ⟨by rw [hdec]; exact List.mem_append_left _ hta, ?_⟩
  intro e
  subst e
  have hnd := tr.nd
  rw [hdec] at hnd
  have := (List.nodup_append.mp hnd).2.2 t hta t (by simp)
  exact this rfl

/-- `x` is the right sibling or the first child of `w` -/
def RC (dir : Array DirEntry) (w x : Nat) : Prop := ∃ e, dir[w]? = some e ∧ x ≠ NOSTREAM ∧ (x = e.right ∨ x = e.child)
/-- `x` is the left sibling link of `w` -/
def LF (dir : Array DirEntry) (w x : Nat) : Prop := ∃ e, dir[w]? = some e ∧ x ≠ NOSTREAM ∧ x = e.left

theorem RC.mem {dir : Array DirEntry} {w x : Nat} (h : RC dir w x) : x ∈ linksOf dir w := by
  obtain ⟨e, he, hn, hx⟩ := h
  unfold linksOf; rw [he]
  simp only [List.mem_append, mem_opt]
  rcases hx with rfl | rfl
  · exact Or.inr (Or.inl ⟨hn, rfl⟩)
  · exact Or.inr (Or.inr ⟨hn, rfl⟩)

theorem LF.mem {dir : Array DirEntry} {w x : Nat} (h : LF dir w x) : x ∈ linksOf dir w := by
  obtain ⟨e, he, hn, hx⟩ := h
  unfold linksOf; rw [he]
  simp only [List.mem_append, mem_opt]
  exact Or.inl ⟨hx ▸ hn, hx⟩

/-- the left spine below an entry -/
inductive LChain (dir : Array DirEntry) : Nat → List Nat → Prop
  | nil : LChain dir NOSTREAM []
  | cons {id : Nat} {e : DirEntry} {l : List Nat} : id ≠ NOSTREAM → dir[id]? = some e → LChain dir e.left l →
      LChain dir id (id :: l)

theorem LChain.inv {dir : Array DirEntry} {id : Nat} {l : List Nat} (c : LChain dir id l) :
    (id = NOSTREAM ∧ l = []) ∨
    (id ≠ NOSTREAM ∧ ∃ e l', dir[id]? = some e ∧ l = id :: l' ∧ LChain dir e.left l') := by
  cases c with
  | nil => exact Or.inl ⟨rfl, rfl⟩
  | cons hne he c => exact Or.inr ⟨hne, _, _, he, rfl, c⟩

theorem LChain.parents {dir : Array DirEntry} {id : Nat} {l : List Nat} (c : LChain dir id l) :
    ∀ x ∈ l, x = id ∨ ∃ w ∈ l, LF dir w x := by
  induction c with
  | nil => intro x hx; cases hx
  | @cons id e l hne he c ih =>
    intro x hx
    rcases List.mem_cons.mp hx with rfl | hx
    · exact Or.inl rfl
    · right
      rcases ih x hx with rfl | ⟨w, hw, hl⟩
      · refine ⟨id, by simp, e, he, ?_, rfl⟩
        rcases c.inv with ⟨_, hl⟩ | ⟨h, _⟩
        · rw [hl] at hx; cases hx
        · exact h
      · exact ⟨w, List.mem_cons_of_mem _ hw, hl⟩

/-- the walk's invariant: popped entries `A`, entries on the stack `S` -/
structure WInv (dir : Array DirEntry) (V A S : List Nat) : Prop where
  nd : (A ++ S).Nodup
  sub : ∀ x ∈ A ++ S, x ∈ V
  par : ∀ x ∈ A ++ S, x = Gen.ROOT_STREAM_ID ∨ (∃ w ∈ A, RC dir w x) ∨ (∃ w ∈ A ++ S, LF dir w x)

/-- pushing the left spine below a new entry keeps the invariant -/
theorem chain_push {dir : Array DirEntry} {V : List Nat} (tr : DirTree dir V) {id : Nat} {l : List Nat}
    (c : LChain dir id l) : ∀ {A S : List Nat}, WInv dir V A S → id ∈ V → id ∉ A ++ S →
    ((∃ w ∈ A, RC dir w id) ∨ (∃ w ∈ A ++ S, LF dir w id)) → WInv dir V A (l.reverse ++ S) := by
  induction c with
  | nil => intro A S w _ _ _; simpa using w
  | @cons id e l hne he c ih =>
    intro A S w hidV hnot hpar
    have w1 : WInv dir V A (id :: S) := by
      refine ⟨?_, ?_, ?_⟩
      · have : (A ++ id :: S).Perm (id :: (A ++ S)) := List.perm_middle
        exact this.nodup_iff.mpr (List.nodup_cons.mpr ⟨hnot, w.nd⟩)
      · intro x hx
        simp only [List.mem_append, List.mem_cons] at hx
        rcases hx with hx | rfl | hx
        · exact w.sub x (List.mem_append_left _ hx)
        · exact hidV
        · exact w.sub x (List.mem_append_right _ hx)
      · intro x hx
        have up : ∀ y, y ∈ A ++ S → y ∈ A ++ id :: S := by
          intro y hy
          simp only [List.mem_append, List.mem_cons] at hy ⊢
          rcases hy with hy | hy
          · exact Or.inl hy
          · exact Or.inr (Or.inr hy)
        simp only [List.mem_append, List.mem_cons] at hx
        have old : x ∈ A ++ S → x = Gen.ROOT_STREAM_ID ∨ (∃ w ∈ A, RC dir w x) ∨ (∃ w ∈ A ++ id :: S, LF dir w x) := by
          intro hxo
          rcases w.par x hxo with h | h | ⟨w', hw', hl⟩
          · exact Or.inl h
          · exact Or.inr (Or.inl h)
          · exact Or.inr (Or.inr ⟨w', up w' hw', hl⟩)
        rcases hx with hx | rfl | hx
        · exact old (List.mem_append_left _ hx)
        · rcases hpar with h | ⟨w', hw', hl⟩
          · exact Or.inr (Or.inl h)
          · exact Or.inr (Or.inr ⟨w', up w' hw', hl⟩)
        · exact old (List.mem_append_right _ hx)
    have hrev : (id :: l).reverse ++ S = l.reverse ++ (id :: S) := by simp
    rw [hrev]
    rcases c.inv with ⟨_, hl⟩ | ⟨htne, e', l', hte, hl, c'⟩
    · rw [hl]; simpa using w1
    · generalize ht : e.left = t at htne hte c' c ih
      have htl : LF dir id t := ⟨e, he, htne, ht.symm⟩
      obtain ⟨htV, htid⟩ := tr.closed hidV htl.mem
      have htnot : t ∉ A ++ id :: S := by
        intro hm
        rcases w1.par t hm with h | ⟨w', hw', hr⟩ | ⟨w', hw', hl⟩
        · exact tr.not_root hidV htl.mem h
        · have hw'V : w' ∈ V := w1.sub w' (List.mem_append_left _ hw')
          have : w' = id := tr.unique_parent hw'V hidV hr.mem htl.mem
          subst this
          exact hnot (List.mem_append_left _ hw')
        · have hw'V : w' ∈ V := w1.sub w' hw'
          have e1 : w' = id := tr.unique_parent hw'V hidV hl.mem htl.mem
          subst e1
          -- `t` is in the set and is the left link of `w'`, which is new: then `t` itself must be old
          simp only [List.mem_append, List.mem_cons] at hm
          rcases hm with hm | hm | hm
          · -- t ∈ A: its parents; run the argument on the old invariant
            rcases w.par t (List.mem_append_left _ hm) with h | ⟨w2, hw2, hr2⟩ | ⟨w2, hw2, hl2⟩
            · exact tr.not_root hidV htl.mem h
            · have : w2 = w' := tr.unique_parent (w.sub w2 (List.mem_append_left _ hw2)) hidV hr2.mem htl.mem
              subst this; exact hnot (List.mem_append_left _ hw2)
            · have : w2 = w' := tr.unique_parent (w.sub w2 hw2) hidV hl2.mem htl.mem
              subst this; exact hnot hw2
          · exact htid hm
          · rcases w.par t (List.mem_append_right _ hm) with h | ⟨w2, hw2, hr2⟩ | ⟨w2, hw2, hl2⟩
            · exact tr.not_root hidV htl.mem h
            · have : w2 = w' := tr.unique_parent (w.sub w2 (List.mem_append_left _ hw2)) hidV hr2.mem htl.mem
              subst this; exact hnot (List.mem_append_left _ hw2)
            · have : w2 = w' := tr.unique_parent (w.sub w2 hw2) hidV hl2.mem htl.mem
              subst this; exact hnot hw2
      exact ih w1 htV htnot (Or.inr ⟨id, by simp, htl⟩)

/-- `leftSpine` pushes exactly the left spine, topmost last -/
theorem leftSpine_spec {r : RawState} {V : List Nat} (tr : DirTree r.dir V) (parent : List Nat) :
    ∀ (fuel id : Nat) (st : List (List Nat × Nat × Bool)),
    ((id = NOSTREAM ∧ 0 < fuel) ∨ ∃ a b, V = a ++ id :: b ∧ a.length + 1 < fuel) →
    ∃ l, LChain r.dir id l ∧
      leftSpine r parent fuel id st = .ok (l.reverse.map (fun x => (parent, x, true)) ++ st) := by
  intro fuel
  induction fuel with
  | zero =>
    intro id st h
    rcases h with ⟨_, hl⟩ | ⟨a, b, _, hl⟩
    · exact absurd hl (Nat.lt_irrefl 0)
    · exact absurd hl (Nat.not_lt_zero _)
  | succ fuel ih =>
    intro id st h
    unfold leftSpine
    split
    · rename_i he
      subst he
      exact ⟨[], LChain.nil, by simp⟩
    · rename_i hne
      rcases h with ⟨rfl, _⟩ | ⟨a, b, hdec, hl⟩
      · exact absurd rfl hne
      · have hid : id ∈ V := by rw [hdec]; simp
        obtain ⟨e, he⟩ := tr.get hid
        rw [he]
        simp only
        have next : (e.left = NOSTREAM ∧ 0 < fuel) ∨ ∃ a1 a2, V = a1 ++ e.left :: a2 ∧ a1.length + 1 < fuel := by
          rcases tr.link hdec he (Or.inl rfl) with h0 | ⟨a1, a2, e1, hl1⟩
          · exact Or.inl ⟨h0, by omega⟩
          · exact Or.inr ⟨a1, a2, e1, by omega⟩
        obtain ⟨l, c, hl'⟩ := ih e.left ((parent, id, true) :: st) next
        refine ⟨id :: l, LChain.cons hne he c, ?_⟩
        rw [hl']
        simp

/-- a right-sibling or child link of the entry on top of the stack leads to an entry not seen yet -/
theorem new_start {dir : Array DirEntry} {V : List Nat} (tr : DirTree dir V) {A st : List Nat} {id t : Nat}
    (w : WInv dir V A (id :: st)) (h : RC dir id t) : t ∉ A ++ id :: st := by
  have hidV : id ∈ V := w.sub id (by simp)
  obtain ⟨htV, htid⟩ := tr.closed hidV h.mem
  intro hm
  rcases w.par t hm with h0 | ⟨w', hw', hr⟩ | ⟨w', hw', hl⟩
  · exact tr.not_root hidV h.mem h0
  · have : w' = id := tr.unique_parent (w.sub w' (List.mem_append_left _ hw')) hidV hr.mem h.mem
    subst this
    have := (List.nodup_append.mp w.nd).2.2 w' hw' w' (by simp)
    exact this rfl
  · have : w' = id := tr.unique_parent (w.sub w' hw') hidV hl.mem h.mem
    subst this
    -- `t` would be both the left link and the right/child link of the same entry
    obtain ⟨e, he, hn, hx⟩ := h
    obtain ⟨e2, he2, _, hx2⟩ := hl
    rw [he] at he2
    cases he2
    have hnd := tr.links_nodup hidV
    unfold linksOf at hnd
    rw [he] at hnd
    simp only at hnd
    have hl1 : t ∈ opt e.left := mem_opt.mpr ⟨hx2 ▸ hn, hx2⟩
    have hl2 : t ∈ opt e.right ++ opt e.child := by
      simp only [List.mem_append, mem_opt]
      rcases hx with rfl | rfl
      · exact Or.inl ⟨hn, rfl⟩
      · exact Or.inr ⟨hn, rfl⟩
    exact (List.nodup_append.mp hnd).2.2 t hl1 t hl2 rfl

def idsS (st : List (List Nat × Nat × Bool)) : List Nat := st.map (·.2.1)
def idsA (acc : List (List Nat × Nat)) : List Nat := acc.map (·.2)

theorem idsS_spine (parent : List Nat) (l : List Nat) (st : List (List Nat × Nat × Bool)) :
    idsS (l.reverse.map (fun x => (parent, x, true)) ++ st) = l.reverse ++ idsS st := by
  unfold idsS
  simp [List.map_append, List.map_map, Function.comp_def]

/-- moving the popped entry from the stack to the output -/
theorem winv_pop {dir : Array DirEntry} {V A st : List Nat} {id : Nat} (w : WInv dir V A (id :: st)) :
    WInv dir V (id :: A) st := by
  have hp : ((id :: A) ++ st).Perm (A ++ id :: st) := List.perm_middle.symm
  refine ⟨hp.nodup_iff.mpr w.nd, fun x hx => w.sub x (hp.mem_iff.mp hx), ?_⟩
  intro x hx
  rcases w.par x (hp.mem_iff.mp hx) with h | ⟨w', hw', hr⟩ | ⟨w', hw', hl⟩
  · exact Or.inl h
  · exact Or.inr (Or.inl ⟨w', List.mem_cons_of_mem _ hw', hr⟩)
  · exact Or.inr (Or.inr ⟨w', hp.mem_iff.mpr hw', hl⟩)

/-- **the walk never panics or hangs** -/
theorem safe_walkLoop {r : RawState} {V : List Nat} (tr : DirTree r.dir V) :
    ∀ (fuel : Nat) (st : List (List Nat × Nat × Bool)) (acc : List (List Nat × Nat)),
    WInv r.dir V (idsA acc) (idsS st) → r.dir.size < fuel + acc.length →
    (walkLoop r fuel st acc).Safe := by
  intro fuel
  induction fuel with
  | zero =>
    intro st acc w hf
    exfalso
    have hlen : (idsA acc ++ idsS st).length ≤ r.dir.size :=
      length_le_of_nodup_lt _ _ w.nd (fun x hx => tr.lt x (w.sub x hx))
    have : (idsA acc).length = acc.length := by unfold idsA; simp
    rw [List.length_append, this] at hlen
    omega
  | succ fuel ih =>
    intro st acc w hf
    cases st with
    | nil => unfold walkLoop; trivial
    | cons top st =>
      obtain ⟨parent, id, vis⟩ := top
      have w0 : WInv r.dir V (idsA acc) (id :: idsS st) := w
      have hidV : id ∈ V := w0.sub id (by simp)
      obtain ⟨e, he⟩ := tr.get hidV
      obtain ⟨a, b, hdec⟩ := List.append_of_mem hidV
      have hAlen : a.length + 1 ≤ V.length := by rw [hdec]; simp
      have hVlen := tr.length_le
      -- a link of `id`, as a start for `leftSpine`
      have start : ∀ t, (t = e.left ∨ t = e.right ∨ t = e.child) →
          ((t = NOSTREAM ∧ 0 < r.dir.size + 1) ∨ ∃ a1 a2, V = a1 ++ t :: a2 ∧ a1.length + 1 < r.dir.size + 1) := by
        intro t ht
        rcases tr.link hdec he ht with h0 | ⟨a1, a2, e1, hl1⟩
        · exact Or.inl ⟨h0, Nat.succ_pos _⟩
        · exact Or.inr ⟨a1, a2, e1, by omega⟩
      unfold walkLoop
      rw [he]
      simp only
      generalize hpath : (if e.objType = Gen.OBJ_TYPE_ROOT then parent else joinPath parent e.name) = path
      -- after the pop
      have w1 : WInv r.dir V (id :: idsA acc) (idsS st) := winv_pop w0
      -- first spine: the right sibling (when the entry is a sibling-tree member)
      have step1 : ∃ st1, (if vis = true then leftSpine r parent (r.dir.size + 1) e.right st else .ok st) = .ok st1 ∧
          WInv r.dir V (id :: idsA acc) (idsS st1) ∧
          (e.child ≠ NOSTREAM → e.child ∉ (id :: idsA acc) ++ idsS st1) := by
        have hchild_old : e.child ≠ NOSTREAM → e.child ∉ idsA acc ++ id :: idsS st :=
          fun hn => new_start tr w0 ⟨e, he, hn, Or.inr rfl⟩
        have hchild_old' : e.child ≠ NOSTREAM → e.child ∉ (id :: idsA acc) ++ idsS st := by
          intro hn hm
          exact hchild_old hn ((List.perm_middle (l₁ := idsA acc) (a := id) (l₂ := idsS st)).mem_iff.mpr hm)
        by_cases hv : vis = true
        · rw [if_pos hv]
          obtain ⟨l, c, hl⟩ := leftSpine_spec tr parent _ e.right st (start _ (Or.inr (Or.inl rfl)))
          refine ⟨_, hl, ?_, ?_⟩
          · rw [idsS_spine]
            rcases c.inv with ⟨_, hnil⟩ | ⟨hrne, _, _, _, _, _⟩
            · rw [hnil]; simpa using w1
            · have hrc : RC r.dir id e.right := ⟨e, he, hrne, Or.inl rfl⟩
              have hnew : e.right ∉ (id :: idsA acc) ++ idsS st := by
                intro hm
                exact new_start tr w0 hrc ((List.perm_middle (l₁ := idsA acc) (a := id) (l₂ := idsS st)).mem_iff.mpr hm)
              exact chain_push tr c w1 (tr.closed hidV hrc.mem).1 hnew (Or.inl ⟨id, by simp, hrc⟩)
          · intro hn hm
            rw [idsS_spine] at hm
            have hcc : RC r.dir id e.child := ⟨e, he, hn, Or.inr rfl⟩
            simp only [List.mem_append, List.mem_reverse] at hm
            rcases hm with hm | hm | hm
            · exact hchild_old' hn (List.mem_append_left _ hm)
            · -- on the right spine
              rcases c.parents e.child hm with heq | ⟨w', hw', hlf⟩
              · -- child = right
                have hnd := tr.links_nodup hidV
                unfold linksOf at hnd
                rw [he] at hnd
                simp only at hnd
                have h1 : e.child ∈ opt e.right := mem_opt.mpr ⟨heq ▸ hn, heq⟩
                have h2 : e.child ∈ opt e.child := mem_opt.mpr ⟨hn, rfl⟩
                exact (List.nodup_append.mp (List.nodup_append.mp hnd).2.1).2.2 _ h1 _ h2 rfl
              · -- child = left link of an entry of the spine: that entry would be `id`
                have hw'V : w' ∈ V := by
                  rcases c.inv with ⟨_, hnil⟩ | ⟨hrne, _, _, _, _, _⟩
                  · rw [hnil] at hw'; cases hw'
                  · have hrc : RC r.dir id e.right := ⟨e, he, hrne, Or.inl rfl⟩
                    have hnew : e.right ∉ (id :: idsA acc) ++ idsS st := by
                      intro hm'
                      exact new_start tr w0 hrc ((List.perm_middle (l₁ := idsA acc) (a := id) (l₂ := idsS st)).mem_iff.mpr hm')
                    have w2 := chain_push tr c w1 (tr.closed hidV hrc.mem).1 hnew (Or.inl ⟨id, by simp, hrc⟩)
                    exact w2.sub w' (by simp [hw'])
                have : w' = id := tr.unique_parent hw'V hidV hlf.mem hcc.mem
                subst this
                -- `id` is in A, the spine is disjoint from A
                rcases c.inv with ⟨_, hnil⟩ | ⟨hrne, _, _, _, _, _⟩
                · rw [hnil] at hw'; cases hw'
                · have hrc : RC r.dir w' e.right := ⟨e, he, hrne, Or.inl rfl⟩
                  have hnew : e.right ∉ (w' :: idsA acc) ++ idsS st := by
                    intro hm'
                    exact new_start tr w0 hrc ((List.perm_middle (l₁ := idsA acc) (a := w') (l₂ := idsS st)).mem_iff.mpr hm')
                  have w2 := chain_push tr c w1 (tr.closed hidV hrc.mem).1 hnew (Or.inl ⟨w', by simp, hrc⟩)
                  have := (List.nodup_append.mp w2.nd).2.2 w' (by simp) w' (by simp [hw'])
                  exact this rfl
            · exact hchild_old' hn (List.mem_append_right _ hm)
        · rw [if_neg hv]
          exact ⟨st, rfl, w1, hchild_old'⟩
      obtain ⟨st1, hs1, w2, hchild⟩ := step1
      rw [hs1]
      simp only
      -- second spine: the children
      have step2 : ∃ st2, (if e.objType ≠ Gen.OBJ_TYPE_STREAM ∧ e.child ≠ NOSTREAM
            then leftSpine r path (r.dir.size + 1) e.child st1 else .ok st1) = .ok st2 ∧
          WInv r.dir V (id :: idsA acc) (idsS st2) := by
        by_cases hc : e.objType ≠ Gen.OBJ_TYPE_STREAM ∧ e.child ≠ NOSTREAM
        · rw [if_pos hc]
          obtain ⟨l, c, hl⟩ := leftSpine_spec tr path _ e.child st1 (start _ (Or.inr (Or.inr rfl)))
          refine ⟨_, hl, ?_⟩
          rw [idsS_spine]
          have hcc : RC r.dir id e.child := ⟨e, he, hc.2, Or.inr rfl⟩
          exact chain_push tr c w2 (tr.closed hidV hcc.mem).1 (hchild hc.2) (Or.inl ⟨id, by simp, hcc⟩)
        · rw [if_neg hc]
          exact ⟨st1, rfl, w2⟩
      obtain ⟨st2, hs2, w3⟩ := step2
      rw [hs2]
      simp only
      exact ih st2 ((path, id) :: acc) w3 (by simp only [List.length_cons]; omega)

theorem safe_walk {r : RawState} {V : List Nat} (tr : DirTree r.dir V) : (walk r).Safe := by
  unfold walk
  refine safe_walkLoop tr _ _ _ ?_ (by simp)
  refine ⟨by simp [idsA, idsS], ?_, ?_⟩
  · intro x hx
    simp [idsA, idsS] at hx
    subst hx; exact tr.root
  · intro x hx
    simp [idsA, idsS] at hx
    exact Or.inl hx

end CfbVerif.Raw
