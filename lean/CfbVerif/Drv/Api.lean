import CfbVerif.Dir.Handles
import CfbVerif.Time.Model
import CfbVerif.Drv.Util
import CfbVerif.Drv.Names
import CfbVerif.Drv.Time
/-! `driver api`: replay API histories (C01 and the properties sharing the engine) on `Dir`. -/
namespace CfbVerif.Drv.Api
open CfbVerif.Dir CfbVerif.Drv CfbVerif.Drv.Names

def showKind : Kind → String
  | .root => "root" | .storage => "storage" | .stream => "stream"

def showInfo (i : Info) : String :=
  s!"E({encName i.name}|{encName i.path}|{showKind i.kind}|{i.len}|{hexOfBytes i.md.clsid}|{i.md.bits}|{i.md.ctime}|{i.md.mtime})"

def showErr : Err → String
  | .notFound => "notFound" | .alreadyExists => "alreadyExists" | .invalidInput => "invalidInput"

def showOut : Out → String
  | .ok => "ok"
  | .bool b => if b then "ok true" else "ok false"
  | .info i => "ok " ++ showInfo i
  | .infos l => "ok [" ++ ",".intercalate (l.map showInfo) ++ "]"
  | .bytes b => "ok " ++ hexOfBytes b
  | .num n => s!"ok {n}"
  | .err e => "err " ++ showErr e

def showRow (r : Row) : String :=
  s!"{r.slot}:{encName r.name}:{r.typ}:{if r.black then 1 else 0}:{r.left}:{r.right}:{r.child}:{r.len}:{r.md.bits}:{hexOfBytes r.md.clsid}:{r.md.ctime}:{r.md.mtime}"

def insertRow (r : Row) : List Row → List Row
  | [] => [r]
  | x :: xs => if r.slot ≤ x.slot then r :: x :: xs else x :: insertRow r xs

def showTable (s : State) : String :=
  ";".intercalate (((dirtable s).foldr insertRow []).map showRow)

structure St where
  s : SState
  live : Bool

def showHandles (hs : List HandleRec) : String :=
  if hs.isEmpty then "-" else
  ";".intercalate ((hs.foldr insertById []).map (fun r =>
    s!"{r.id}:{r.slot}:{r.h.totalLen}:{r.h.off}:{r.h.pos}:{r.h.win.length}:{r.h.dataLen}:{if r.h.dirty then 1 else 0}"))

def tail (s : SState) : String := showTable s.base ++ " | " ++ showHandles s.handles

def streamsOf (infos : List Info) (s : State) : List String :=
  infos.filterMap (fun i =>
    if i.kind = .stream then
      match CfbVerif.Names.nameChain i.path with
      | some ch => match resolve s.top ch with
        | some (.ent e _) => some (hexOfBytes e.content)
        | _ => some "?"
      | none => some "?"
    else none)

def dump (s : State) : String :=
  let infos := walkAll s
  " ".intercalate (("ok [" ++ ",".intercalate (infos.map showInfo) ++ "]") :: streamsOf infos s)

def parseOp (ws : List String) : Option (Option Op) :=
  -- `some none` = recognised but without effect on the model (unrepresentable instant)
  match ws with
  | ["mkdir", p] => some (some (.mkdir (decName p)))
  | ["mkdirs", p] => some (some (.mkdirs (decName p)))
  | ["mkstream", p] => some (some (.mkstream (decName p)))
  | ["mknew", p] => some (some (.mknew (decName p)))
  | ["put", p, h] => some (some (.put (decName p) (bytesOfHex h)))
  | ["putpat", p, n, salt] =>
    match n.toNat?, salt.toNat? with
    | some n, some salt => some (some (.put (decName p) ((List.range n).map (fun i => UInt8.ofNat ((i * 31 + salt * 7 + 1) % 251)))))
    | _, _ => none
  | ["get", p] => some (some (.get (decName p)))
  | ["open", p] => some (some (.open_ (decName p)))
  | ["rm", p] => some (some (.rm (decName p)))
  | ["rmdir", p] => some (some (.rmdir (decName p)))
  | ["rmall", p] => some (some (.rmall (decName p)))
  | ["exists", p] => some (some (.exists_ (decName p)))
  | ["isstream", p] => some (some (.isStream (decName p)))
  | ["isstorage", p] => some (some (.isStorage (decName p)))
  | ["entry", p] => some (some (.entry (decName p)))
  | ["rootentry"] => some (some .rootEntry)
  | ["ls", p] => some (some (.ls (decName p)))
  | ["lsroot"] => some (some .lsRoot)
  | ["walk"] => some (some .walk)
  | ["walkfrom", p] => some (some (.walkFrom (decName p)))
  | ["setbits", p, b] => b.toNat?.map (fun b => some (.setMeta (decName p) (.bits b)))
  | ["setclsid", p, h] => some (some (.setMeta (decName p) (.clsid (bytesOfHex h))))
  | ["setctime", p, s, n] =>
    match s.toInt?, n.toNat? with
    | some s, some n => if CfbVerif.Drv.Time.representable s n
        then some (some (.setMeta (decName p) (.ctime (CfbVerif.Time.tsOf ⟨s, n⟩)))) else some none
    | _, _ => none
  | ["setmtime", p, s, n] =>
    match s.toInt?, n.toNat? with
    | some s, some n => if CfbVerif.Drv.Time.representable s n
        then some (some (.setMeta (decName p) (.mtime (CfbVerif.Time.tsOf ⟨s, n⟩)))) else some none
    | _, _ => none
  | ["reopen", _] => some (some .reopen)
  | ["flush"] => some (some .flush)
  | _ => none

def parseHOp (ws : List String) : Option HOp :=
  match ws with
  | ["hopen", id, p] => id.toNat?.map (fun i => .hopen i (decName p))
  | ["hcreate", id, p] => id.toNat?.map (fun i => .hcreate i (decName p) true)
  | ["hnew", id, p] => id.toNat?.map (fun i => .hcreate i (decName p) false)
  | ["hwrite", id, h] => id.toNat?.map (fun i => .hwrite i (bytesOfHex h))
  | ["hread", id, n] => match id.toNat?, n.toNat? with
    | some i, some n => some (.hread i n)
    | _, _ => none
  | ["hseek", id, n] => match id.toNat?, n.toNat? with
    | some i, some n => some (.hseek i n)
    | _, _ => none
  | ["hsetlen", id, n] => match id.toNat?, n.toNat? with
    | some i, some n => some (.hsetlen i n)
    | _, _ => none
  | ["hflush", id] => id.toNat?.map .hflush
  | ["hlen", id] => id.toNat?.map .hlen
  | ["hclose", id] => id.toNat?.map .hclose
  | _ => none

def showHOut : HOut → String
  | .base o => showOut o
  | .noHandle => "err nohandle"

def stepLine (st : St) (line : String) : St × String :=
  match words line with
  | ["create", _v] =>
    let s : SState := { base := State.create, handles := [], maxBuf := CfbVerif.Gen.DEFAULT_STREAM_MAX_BUFFER_SIZE }
    ({ s := s, live := true }, "ok | " ++ tail s)
  | ["create", _v, mb] =>
    -- a history that names its stream buffer size
    let s : SState := { base := State.create, handles := [], maxBuf := mb.toNat?.getD CfbVerif.Gen.DEFAULT_STREAM_MAX_BUFFER_SIZE }
    ({ s := s, live := true }, "ok | " ++ tail s)
  | ["create", _v, mb, _backend] =>
    -- … and how its underlying file splits transfers (nothing in the model depends on that)
    let s : SState := { base := State.create, handles := [], maxBuf := mb.toNat?.getD CfbVerif.Gen.DEFAULT_STREAM_MAX_BUFFER_SIZE }
    ({ s := s, live := true }, "ok | " ++ tail s)
  | ["snap", _] => (st, dump st.s.base ++ " | " ++ tail st.s)
  | ws =>
    if !st.live then (st, "err nofile | - | -") else
    match parseHOp ws with
    | some hop =>
      let (s', o) := hstep st.s hop
      ({ st with s := s' }, showHOut o ++ " | " ++ tail s')
    | none =>
      match parseOp ws with
      | some (some op) =>
        let (s', o) := hstep st.s (.base op)
        ({ st with s := s' }, showHOut o ++ " | " ++ tail s')
      | some none => (st, "unrepresentable | " ++ tail st.s)
      | none => (st, "bad-op | - | -")

def main : IO Unit := do
  lineLoop (← IO.getStdin) (← IO.getStdout)
    ({ s := { base := State.create, handles := [], maxBuf := 0 }, live := false } : St) stepLine

end CfbVerif.Drv.Api
