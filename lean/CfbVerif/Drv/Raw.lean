import CfbVerif.Raw.Read
import CfbVerif.Drv.Util
import CfbVerif.Drv.Names
/-! `driver raw`: `open <permissive|strict> <file>` → the logical dump the reader model sees. -/
namespace CfbVerif.Drv.Raw
open CfbVerif.Raw CfbVerif.Drv CfbVerif.Drv.Names

def showKind : Kind → String
  | .invalidData => "invalidData" | .unexpectedEof => "unexpectedEof"
  | .invalidInput => "invalidInput" | .other => "other"

def kindName (t : Nat) : String :=
  if t = CfbVerif.Gen.OBJ_TYPE_ROOT then "root" else if t = CfbVerif.Gen.OBJ_TYPE_STREAM then "stream" else "storage"

def showEntry (path : List Nat) (e : DirEntry) : String :=
  let len := if e.objType = CfbVerif.Gen.OBJ_TYPE_ROOT then 0 else e.streamLen
  s!"E({encName e.name}|{encName path}|{kindName e.objType}|{len}|{hexOfBytes e.clsid}|{e.stateBits}|{e.ctime}|{e.mtime})"

/-- content of the stream at `path`, re-resolved by name as the harness does -/
def streamAt (r : RawState) (img : Img) (path : List Nat) : String :=
  match CfbVerif.Names.nameChain path with
  | none => "err"
  | some names =>
    match lookup r names CfbVerif.Gen.ROOT_STREAM_ID with
    | .ok (some id) =>
      match r.dir[id]? with
      | some e =>
        if e.objType = CfbVerif.Gen.OBJ_TYPE_STREAM then
          match readAll r img e with
          | .ok bs => hexOfBytes bs
          | .err _ => "err"
          | .panic s => "panic:" ++ s
          | .hang s => "hang:" ++ s
        else "err"
      | none => "panic:dir index"
    | .ok none => "err"
    | .err _ => "err"
    | .panic s => "panic:" ++ s
    | .hang s => "hang:" ++ s

def dump (r : RawState) (img : Img) : String :=
  match walk r with
  | .ok items =>
    let ents := items.filterMap (fun (p, id) => (r.dir[id]?).map (fun e => (p, e)))
    let listing := "[" ++ ",".intercalate (ents.map (fun (p, e) => showEntry p e)) ++ "]"
    let streams := ents.filterMap (fun (p, e) =>
      if e.objType = CfbVerif.Gen.OBJ_TYPE_STREAM then some (streamAt r img p) else none)
    " ".intercalate (("ok " ++ listing) :: streams)
  | .err k => "walk-err " ++ showKind k
  | .panic s => "panic " ++ s
  | .hang s => "hang " ++ s

def openLine (mode : String) (file : String) : IO String := do
  let img ← IO.FS.readBinFile file
  let m := if mode == "strict" then Mode.strict else Mode.permissive
  match openImg m img with
  | .ok r => return dump r img
  | .err k => return "err " ++ showKind k
  | .panic s => return "panic " ++ s
  | .hang s => return "hang " ++ s

partial def loop (h : IO.FS.Stream) (out : IO.FS.Stream) : IO Unit := do
  let line ← h.getLine
  if line.isEmpty then out.flush; return ()
  match words line with
  | ["open", mode, file] => out.putStrLn (← openLine mode file)
  | _ => out.putStrLn "bad-op"
  loop h out

def main : IO Unit := do loop (← IO.getStdin) (← IO.getStdout)

end CfbVerif.Drv.Raw
