import CfbVerif.Names.Model
import CfbVerif.Drv.Util
/-! `driver names`: validate / cmp / chain on the model. -/
namespace CfbVerif.Drv.Names
open CfbVerif.Names CfbVerif.Drv

def hexNat (s : String) : Nat := s.toList.foldl (fun acc c => acc * 16 + hexVal c) 0

def decName (s : String) : Name :=
  if s == "-" then [] else (s.splitOn ",").map hexNat

def natHex (n : Nat) : String := String.ofList (Nat.toDigits 16 n)

def encName (n : Name) : String :=
  if n.isEmpty then "-" else ",".intercalate (n.map natHex)

def showOrd : Ordering → String
  | .lt => "lt" | .eq => "eq" | .gt => "gt"

def stepLine (_ : Unit) (line : String) : Unit × String :=
  match words line with
  | ["validate", n] => ((), if validateName (decName n) then "ok" else "err invalidInput")
  | ["cmp", a, b] => ((), showOrd (cmpNames Gen.upper (decName a) (decName b)))
  | ["chain", p] =>
    match nameChain (decName p) with
    | none => ((), "err invalidInput")
    | some names => ((), if names.isEmpty then "ok" else "ok " ++ "/".intercalate (names.map encName))
  | _ => ((), "bad-op")

def main : IO Unit := do
  lineLoop (← IO.getStdin) (← IO.getStdout) () stepLine

end CfbVerif.Drv.Names
