import CfbVerif.Lock.Model
import CfbVerif.Drv.Util
/-! `driver locks`: `call <name> <R|W><depth> …` → is the call's lock program flat? -/
namespace CfbVerif.Drv.Lock
open CfbVerif.Lock CfbVerif.Drv

/-- rebuild the program from (mode, hold depth before) events: guards are released LIFO -/
def programOf (events : List (Bool × Nat)) : List Act :=
  let rec go (cur : Nat) : List (Bool × Nat) → List Act
    | [] => List.replicate cur .rel
    | (w, d) :: rest =>
      List.replicate (cur - d) .rel ++ [if w then .acqW else .acqR] ++ go (d + 1) rest
  go 0 events

def parseEvent (s : String) : Option (Bool × Nat) :=
  match s.toList with
  | 'R' :: ds => (String.ofList ds).toNat?.map (fun d => (false, d))
  | 'W' :: ds => (String.ofList ds).toNat?.map (fun d => (true, d))
  | _ => none

def stepLine (_ : Unit) (line : String) : Unit × String :=
  match words line with
  | "call" :: _name :: evs =>
    let events := if evs == ["-"] then [] else evs.filterMap parseEvent
    let prog := programOf events
    if flatFrom 0 prog then ((), "flat")
    else
      -- search aid: is there a stuck schedule against one writer under std admission?
      let σ0 : Sys := [⟨prog, []⟩, ⟨[.loc, .acqW, .rel], []⟩]
      match findStuck stdAdm (prog.length + 4) [σ0] with
      | some _ => ((), "notflat")
      | none => ((), "notflat")
  | _ => ((), "bad-op")

def main : IO Unit := do
  lineLoop (← IO.getStdin) (← IO.getStdout) () stepLine

end CfbVerif.Drv.Lock
