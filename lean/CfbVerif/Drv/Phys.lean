import CfbVerif.Phys.Api
import CfbVerif.Drv.Api
import CfbVerif.Spec.Check
import CfbVerif.Phys.Load
import CfbVerif.Phys.OpenBack
import CfbVerif.Phys.MiniContent
/-! `driver phys`: API histories on the two-level model; prints result, image hash and caches. -/
namespace CfbVerif.Drv.Phys
open CfbVerif.Phys CfbVerif.Dir CfbVerif.Drv CfbVerif.Drv.Api

structure St where
  ps : PState
  live : Bool
  /-- `--damaged`: the states come from damaged images, where `MiniFit` need not hold -/
  fit : Bool := true

def showList (l : List Nat) : String := if l.isEmpty then "-" else ",".intercalate (l.map toString)

def tail (ps : PState) (status : PhysStatus) (fit : Bool := true) : String :=
  match status with
  | .failed w => s!"PHYSFAIL {w}"
  | .fine =>
    let img := ps.image
    let p := ps.p
    -- the hypothesis `MiniFit` of `C02_reopens`, evaluated on every state the replay reaches
    if fit && !miniFitB p then "PHYSFAIL the model state violates MiniFit (MiniFAT not trimmed / beyond its chain / beyond the mini stream)" else
    -- the range premise of the mini-chain content theorems (`mini_in_root`): the mini stream's chain covers its length
    if fit && !rootCoverB p then "PHYSFAIL the model state's mini stream is longer than its chain (rootCoverB)" else
    s!"P {img.size} {fnv64 img} | C {p.numSectors} {p.fat.size} {showList p.free} {p.miniFat.size} {showList p.freeMini} {p.dirLen} {p.miniFatStart} {p.rootStart} {p.rootLen}"

def stepLine (st : St) (line : String) : IO (St × String) := do
  match words line with
  | ["create", v] =>
    let ps := PState.create (v == "4") CfbVerif.Gen.DEFAULT_STREAM_MAX_BUFFER_SIZE
    pure ({ st with ps := ps, live := true }, "ok | " ++ tail ps .fine st.fit)
  | ["create", v, mb, _backend] =>
    -- a history that names its stream buffer size (`-` = default) and how its underlying file splits transfers
    let ps := PState.create (v == "4") (mb.toNat?.getD CfbVerif.Gen.DEFAULT_STREAM_MAX_BUFFER_SIZE)
    pure ({ st with ps := ps, live := true }, "ok | " ++ tail ps .fine st.fit)
  | ["load", path] =>
    -- start from a file somebody else wrote (C04)
    let img ← IO.FS.readBinFile path
    match ofImage img CfbVerif.Gen.DEFAULT_STREAM_MAX_BUFFER_SIZE with
    | some ps => pure ({ st with ps := ps, live := true }, "ok | " ++ tail ps .fine st.fit)
    | none => pure ({ st with live := false }, "unloadable | -")
  | ["image", path] =>
    IO.FS.writeBinFile path st.ps.image
    pure (st, "ok | " ++ tail st.ps .fine)
  | "cyc" :: _ => pure (st, "ok | " ++ tail st.ps .fine)
  | ["snap", _] => pure (st, dump st.ps.s.base ++ " | " ++ tail st.ps .fine)
  | ws =>
    if !st.live then pure (st, "err nofile | -") else
    let hop? : Option (Option HOp) := match parseHOp ws with
      | some h => some (some h)
      | none => match parseOp ws with
        | some (some op) => some (some (.base op))
        | some none => some none
        | none => none
    match hop? with
    | some (some hop) =>
      let (ps', o, status) := pstep st.ps hop
      pure ({ st with ps := ps' }, showHOut o ++ " | " ++ tail ps' status st.fit)
    | some none => pure (st, "unrepresentable | " ++ tail st.ps .fine)
    | none => pure (st, "bad-op | -")

def specLine (ps : PState) : String :=
  match CfbVerif.Spec.check CfbVerif.Names.Gen.upper ps.image with
  | [] => "ok"
  | l => "bad " ++ " ;; ".intercalate (l.take 4)

partial def loop (hin hout : IO.FS.Stream) (spec : Option IO.FS.Handle) (st : St) : IO Unit := do
  let line ← hin.getLine
  if line.isEmpty then return ()
  let (st', out) ← stepLine st line
  hout.putStrLn out
  if let some h := spec then
    h.putStrLn (if st'.live then specLine st'.ps else "-")
  loop hin hout spec st'

/-- `driver phys [--spec <file>]`: with `--spec`, SpecCheck's verdict on the model image after
every line goes to `<file>` -/
def main (args : List String) : IO Unit := do
  let hin ← IO.getStdin
  let hout ← IO.getStdout
  let spec ← match args with
    | ["--spec", path] => some <$> IO.FS.Handle.mk path .write
    | _ => pure none
  loop hin hout spec { ps := PState.create false 0, live := false, fit := !args.contains "--damaged" }
  hout.flush

/-- `driver speccheck`: one image path per input line -/
partial def specFiles : IO Unit := do
  let hin ← IO.getStdin
  let hout ← IO.getStdout
  let rec go : IO Unit := do
    let line ← hin.getLine
    if line.isEmpty then return ()
    let path := line.trimAscii.toString
    let b ← IO.FS.readBinFile path
    match CfbVerif.Spec.check CfbVerif.Names.Gen.upper b with
    | [] => hout.putStrLn "ok"
    | l => hout.putStrLn ("bad " ++ " ;; ".intercalate (l.take 6))
    go
  go
  hout.flush

end CfbVerif.Drv.Phys
