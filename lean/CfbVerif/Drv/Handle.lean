import CfbVerif.Handle.Faults
import CfbVerif.Drv.Util
/-! `driver handle`: replay a handle script (C06) on the model. -/
namespace CfbVerif.Drv.Handle
open CfbVerif.Handle CfbVerif.Drv

structure St where
  h : H
  st : Bytes
  live : Bool

def showOut : Out → String
  | .bytes bs => "bytes " ++ hexOfBytes bs
  | .num n => s!"num {n}"
  | .unit => "unit"
  | .err .invalidInput => "err invalidInput"
  | .err .other => "err other"
  | .panic => "panic"

def showState (s : St) : String :=
  if s.live then
    s!"{s.h.totalLen} {s.h.off} {s.h.pos} {s.h.win.length} {s.h.dataLen} {if s.h.dirty then 1 else 0}"
  else "-"

def parseOp : List String → Option HOp
  | ["read", n] => n.toNat?.map .read
  | ["fill"] => some .fillBuf
  | ["consume", k] => k.toNat?.map .consume
  | ["write", b] => some (.write (bytesOfHex b))
  | ["seek", "start", n] => n.toNat?.map (fun n => .seek (.start n))
  | ["seek", "end", d] => d.toInt?.map (fun d => .seek (.fromEnd d))
  | ["seek", "cur", d] => d.toInt?.map (fun d => .seek (.current d))
  | ["setlen", n] => n.toNat?.map .setLen
  -- `set_len` beyond the format's capacity is refused before anything happens (F26): the identity; the harness
  -- answers with the length when the call was refused with InvalidInput
  | ["setlen-over", _] => some .len
  | ["flush"] => some .flush
  | ["len"] => some .len
  | _ => none

def stepLine (s : St) (line : String) : St × String :=
  match words line with
  | ["new", _v, m, c] =>
    match m.toNat? with
    | some m =>
      let c := bytesOfHex c
      let s' : St := { h := H.new c.length m, st := c, live := true }
      (s', "unit | " ++ showState s')
    | none => (s, "bad-op")
  | ["final"] =>
    -- drop the handle (flush_changes), then a fresh handle reads everything
    let (_, st1) := flushChanges s.h s.st
    let s' : St := { s with st := st1, live := false }
    (s', "bytes " ++ hexOfBytes st1 ++ " | -")
  | ws =>
    match parseOp ws with
    | some op =>
      let (h1, st1, o) := step s.h s.st op
      let s' : St := { s with h := h1, st := st1 }
      (s', showOut o ++ " | " ++ showState s')
    | none => (s, "bad-op")

/-! ### `driver handlef`: scripts with fault annotations (` F flush|refill|resize`), coarse results -/

def splitFault (ws : List String) : List String × Fault :=
  match ws.reverse with
  | "flush" :: "F" :: rest => (rest.reverse, .flush)
  | "refill" :: "F" :: rest => (rest.reverse, .refill)
  | "resize" :: "F" :: rest => (rest.reverse, .resize)
  | _ => (ws, .none)

def coarse : Out → String
  | .err .other => "ioerr"
  | .err .invalidInput => "err"
  | .panic => "panic"
  | _ => "ok"

/-- `write_all` under a fault: the loop of `write` calls; the fault fires in the first call that
reaches its phase, and the loop stops there -/
def writeAllF : Nat → H → Bytes → Fault → Bytes → H × Bytes × Out
  | 0, h, st, _, _ => (h, st, .unit)
  | fuel + 1, h, st, ft, bs =>
    if bs.isEmpty then (h, st, .unit) else
    match stepF h st ft (.write bs) with
    | (h1, st1, .num k) => if k = 0 then (h1, st1, .unit) else writeAllF fuel h1 st1 ft (bs.drop k)
    | (h1, st1, o) => (h1, st1, o)

def stepLineF (s : St) (line : String) : St × String :=
  match words line with
  | ["new", _v, m, c] =>
    match m.toNat? with
    | some m =>
      let c := bytesOfHex c
      let s' : St := { h := H.new c.length m, st := c, live := true }
      (s', "unit | " ++ showState s')
    | none => (s, "bad-op")
  | ws =>
    let (ws', ft) := splitFault ws
    match ws' with
    | ["writeall", hx] =>
      let bs := bytesOfHex hx
      let (h1, st1, o) := writeAllF (bs.length + 1) s.h s.st ft bs
      let s' : St := { s with h := h1, st := st1 }
      (s', coarse o ++ " | " ++ showState s')
    | _ =>
    match parseOp ws' with
    | some op =>
      let (h1, st1, o) := stepF s.h s.st ft op
      let s' : St := { s with h := h1, st := st1 }
      (s', coarse o ++ " | " ++ showState s')
    | none => (s, "bad-op")

def mainF : IO Unit := do
  lineLoop (← IO.getStdin) (← IO.getStdout) ({ h := H.new 0 0, st := [], live := false } : St) stepLineF

def main : IO Unit := do
  let stdin ← IO.getStdin
  let stdout ← IO.getStdout
  lineLoop stdin stdout ({ h := H.new 0 0, st := [], live := false } : St) stepLine

end CfbVerif.Drv.Handle
