import CfbVerif.Time.Model
import CfbVerif.Drv.Util
/-! `driver time`: FILETIME conversions on the model. -/
namespace CfbVerif.Drv.Time
open CfbVerif.Time CfbVerif.Drv

/-- `mk_time` of the harness can represent `(secs, nanos)` unless the intermediate overflows `i64` -/
def representable (secs : Int) (_nanos : Nat) : Bool :=
  decide (-(2 ^ 63) ≤ secs ∧ secs ≤ 2 ^ 63 - 1)

def stepLine (_ : Unit) (line : String) : Unit × String :=
  match words line with
  | ["ts", s, n] =>
    match s.toInt?, n.toNat? with
    | some s, some n => ((), if representable s n then s!"num {tsOf ⟨s, n⟩}" else "unrepresentable")
    | _, _ => ((), "bad-op")
  | ["time", v] =>
    match v.toNat? with
    | some v => let t := timeOf v; ((), s!"time {t.secs} {t.nanos}")
    | none => ((), "bad-op")
  | _ => ((), "bad-op")

def main : IO Unit := do
  lineLoop (← IO.getStdin) (← IO.getStdout) () stepLine

end CfbVerif.Drv.Time
