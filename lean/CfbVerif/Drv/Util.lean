/-! Helpers for the line-protocol drivers (no proofs here). -/
namespace CfbVerif.Drv

def hexDigit (n : Nat) : Char :=
  if n < 10 then Char.ofNat (48 + n) else Char.ofNat (87 + n)

def hexOfBytes (bs : List UInt8) : String :=
  if bs.isEmpty then "-" else
  String.ofList (bs.foldr (fun b acc => hexDigit (b.toNat / 16) :: hexDigit (b.toNat % 16) :: acc) [])

def hexVal (c : Char) : Nat :=
  let n := c.toNat
  if 48 ≤ n ∧ n ≤ 57 then n - 48 else if 97 ≤ n ∧ n ≤ 102 then n - 87 else 0

def bytesOfHex (s : String) : List UInt8 :=
  if s == "-" then [] else
  let rec go : List Char → List UInt8
    | a :: b :: rest => UInt8.ofNat (hexVal a * 16 + hexVal b) :: go rest
    | _ => []
  go s.toList

def words (line : String) : List String :=
  (line.trimAscii.toString.splitOn " ").filter (· ≠ "")

/-- process stdin line by line with a state -/
partial def lineLoop {σ : Type} (h : IO.FS.Stream) (out : IO.FS.Stream) (s : σ)
    (f : σ → String → σ × String) : IO Unit := do
  let line ← h.getLine
  if line.isEmpty then
    out.flush
    return ()
  let (s', o) := f s line
  out.putStrLn o
  lineLoop h out s' f

end CfbVerif.Drv
