import CfbVerif.Names.Model
/-!
# `SpecCheck`: an independent judge of MS-CFB well-formedness (C03)

Reads a byte image with its own little parser (no code shared with the library, nor with the
`Raw` reader model) and reports every structural rule of the property that the image breaks:

* H  header: signature, version/sector shift, byte order, mini shift, cutoff; whole sectors
* D  DIFAT: chain length = header count, sectors marked DIFSECT, unused entries FREE, ends END
* F  FAT: count = header count, FAT sectors marked FATSECT, FAT covers the file
* O  ownership: every sector in at most one chain; every non-free sector has an owner
* C  header counts match the chains (directory sectors in V4, 0 in V3; MiniFAT sectors)
* S  streams: chain length matches size; placement obeys the 4096 cutoff; empty ⇒ no chain
* M  mini sectors: at most one chain each, every non-free one owned, inside the mini stream
* T  directory trees: search tree under CFB order, no two adjacent red nodes, no entry twice
* E  entries: name length field, stream entries without CLSID/times, storages without
     start/size, unallocated entries blank, root entry in slot 0
-/
namespace CfbVerif.Spec
open CfbVerif.Names

def END : Nat := 0xFFFFFFFE
def FREE : Nat := 0xFFFFFFFF
def FATSECT : Nat := 0xFFFFFFFD
def DIFSECT : Nat := 0xFFFFFFFC
def NOSTREAM : Nat := 0xFFFFFFFF

def le (b : ByteArray) (off w : Nat) : Nat :=
  (List.range w).foldr (fun i acc => (b.get! (off + i)).toNat + 256 * acc) 0

structure Ent where
  slot : Nat
  units : List Nat      -- UTF-16 units of the name (as many as the length field says)
  terminated : Bool     -- the unit behind the name is U+0000
  nameLen : Nat
  typ : Nat
  color : Nat
  left : Nat
  right : Nat
  child : Nat
  clsidZero : Bool
  bits : Nat
  ctime : Nat
  mtime : Nat
  start : Nat
  len : Nat
  rawZeroExceptLinks : Bool
deriving Inhabited

def decodeUnits : List Nat → List Nat
  | [] => []
  | u :: rest =>
    if 0xD800 ≤ u ∧ u < 0xDC00 then
      match rest with
      | l :: rest' => (0x10000 + (u - 0xD800) * 0x400 + (l - 0xDC00)) :: decodeUnits rest'
      | [] => [u]
    else u :: decodeUnits rest
termination_by l => l.length

/-- `v3`: in a version 3 file the most significant 32 bits of the size field are ignored (2.6.3) -/
def readEnt (v3 : Bool) (b : ByteArray) (off slot : Nat) : Ent :=
  let allUnits := (List.range 32).map (fun i => le b (off + 2 * i) 2)
  -- the name is what the length field (bytes, terminator included) says it is: U+0000 is not one of the
  -- characters MS-CFB forbids in a name, so a name may contain it; an unusable length field falls back
  -- to "up to the first terminator" and is reported by the length rule below
  let nameLen := le b (off + 64) 2
  let units := if nameLen % 2 = 0 ∧ 2 ≤ nameLen ∧ nameLen ≤ 64 then allUnits.take (nameLen / 2 - 1)
    else allUnits.takeWhile (· ≠ 0)
  let zeroRange (a n : Nat) : Bool := (List.range n).all (fun i => b.get! (off + a + i) == 0)
  { slot := slot, units := units, terminated := (allUnits.getD units.length 0 == 0), nameLen := nameLen, typ := (b.get! (off + 66)).toNat,
    color := (b.get! (off + 67)).toNat, left := le b (off + 68) 4, right := le b (off + 72) 4,
    child := le b (off + 76) 4, clsidZero := zeroRange 80 16, bits := le b (off + 96) 4,
    ctime := le b (off + 100) 8, mtime := le b (off + 108) 8, start := le b (off + 116) 4,
    len := (if v3 then le b (off + 120) 8 % 4294967296 else le b (off + 120) 8), rawZeroExceptLinks := zeroRange 0 68 && zeroRange 80 48 }

/-- follow a chain in `tab`; `none` on a bad pointer or a cycle -/
def walk (tab : Array Nat) (start : Nat) : Option (List Nat) :=
  let rec go : Nat → Nat → List Nat → Option (List Nat)
    | 0, _, _ => none
    | fuel + 1, cur, acc =>
      if cur = END then some acc.reverse
      else if cur ≥ tab.size then none
      else go fuel tab[cur]! (cur :: acc)
  go (tab.size + 1) start []

structure Acc where
  bad : List String := []
  owner : Array Nat       -- per sector: 0 = none, else an owner tag
  mowner : Array Nat

def Acc.flag (a : Acc) (s : String) : Acc := { a with bad := s :: a.bad }

def claim (a : Acc) (ids : List Nat) (tag : Nat) (what : String) : Acc :=
  ids.foldl (fun a id =>
    if id < a.owner.size then
      if a.owner[id]! ≠ 0 then a.flag s!"O sector {id} belongs to two chains ({what})"
      else { a with owner := a.owner.set! id tag }
    else a.flag s!"O sector {id} of {what} is beyond the file") a

def claimMini (a : Acc) (ids : List Nat) (tag : Nat) (what : String) : Acc :=
  ids.foldl (fun a id =>
    if id < a.mowner.size then
      if a.mowner[id]! ≠ 0 then a.flag s!"M mini sector {id} belongs to two chains ({what})"
      else { a with mowner := a.mowner.set! id tag }
    else a.flag s!"M mini sector {id} of {what} is beyond the MiniFAT") a

def ceilDiv (a b : Nat) : Nat := (a + b - 1) / b

/-- the tree of one storage: BST order, red-red, each entry once; returns the visited slots -/
def checkTree (ents : Array Ent) (upper : Nat → Nat) (root : Nat) : List String × List Nat :=
  let rec go : Nat → Nat → Option (List Nat) → Option (List Nat) → Bool → List String × List Nat
    | 0, _, _, _, _ => (["T sibling tree too deep or cyclic"], [])
    | fuel + 1, id, lo, hi, parentRed =>
      if id = NOSTREAM then ([], [])
      else if id ≥ ents.size then ([s!"T link to slot {id} beyond the directory"], [])
      else
        let e := ents[id]!
        let name := decodeUnits e.units
        let b1 := if e.typ = 0 then [s!"T slot {id} is linked but unallocated"] else []
        let b2 := match lo with
          | some l => if cmpNames upper l name = .lt then [] else [s!"T slot {id} is not greater than its left bound"]
          | none => []
        let b3 := match hi with
          | some h => if cmpNames upper name h = .lt then [] else [s!"T slot {id} is not smaller than its right bound"]
          | none => []
        let red := e.color = 0
        let b4 := if red && parentRed then [s!"T slot {id} is red under a red parent"] else []
        let (bl, vl) := go fuel e.left lo (some name) red
        let (br, vr) := go fuel e.right (some name) hi red
        (b1 ++ b2 ++ b3 ++ b4 ++ bl ++ br, id :: (vl ++ vr))
  go (ents.size + 1) root none none false

def rootNameUnits : List Nat := "Root Entry".toList.map Char.toNat

def check (upper : Nat → Nat) (b : ByteArray) : List String := Id.run do
  let mut bad : List String := []
  if b.size < 512 then return ["H shorter than a header"]
  if (List.range 8).map (fun i => (b.get! i).toNat) ≠ [0xD0, 0xCF, 0x11, 0xE0, 0xA1, 0xB1, 0x1A, 0xE1] then
    return ["H signature"]
  let version := le b 26 2
  let shift := le b 30 2
  if ¬ ((version = 3 ∧ shift = 9) ∨ (version = 4 ∧ shift = 12)) then return [s!"H version {version} with sector shift {shift}"]
  let S := 2 ^ shift
  if le b 28 2 ≠ 0xFFFE then bad := "H byte order mark" :: bad
  if le b 32 2 ≠ 6 then bad := "H mini sector shift" :: bad
  if le b 56 4 ≠ 4096 then bad := "H mini stream cutoff" :: bad
  if (List.range 16).any (fun i => b.get! (8 + i) != 0) then bad := "H CLSID field not zero" :: bad
  if b.size % S ≠ 0 then bad := s!"H file length {b.size} is not a whole number of sectors" :: bad
  if b.size < 2 * S then return ("H no sectors" :: bad)
  let nSec := b.size / S - 1
  let secOff := fun (id : Nat) => (id + 1) * S
  let numDirH := le b 40 4
  let numFatH := le b 44 4
  let firstDir := le b 48 4
  let firstMf := le b 60 4
  let numMfH := le b 64 4
  let firstDifat := le b 68 4
  let numDifatH := le b 72 4
  -- DIFAT
  let mut difat : List Nat := (List.range 109).map (fun i => le b (76 + 4 * i) 4)
  let mut difatSecs : List Nat := []
  let mut cur := firstDifat
  let mut fuel := nSec + 1
  while cur ≠ END ∧ fuel > 0 do
    fuel := fuel - 1
    if cur ≥ nSec then
      bad := s!"D DIFAT sector {cur} beyond the file" :: bad
      break
    difatSecs := difatSecs ++ [cur]
    let base := secOff cur
    difat := difat ++ (List.range (S / 4 - 1)).map (fun i => le b (base + 4 * i) 4)
    cur := le b (base + S - 4) 4
  if fuel = 0 then bad := "D DIFAT chain does not end" :: bad
  if difatSecs.length ≠ numDifatH then bad := s!"D DIFAT chain has {difatSecs.length} sectors, header says {numDifatH}" :: bad
  let fatSecs := difat.takeWhile (· ≠ FREE)
  if (difat.drop fatSecs.length).any (· ≠ FREE) then bad := "D DIFAT entries after the last FAT sector are not all FREE" :: bad
  if fatSecs.length ≠ numFatH then bad := s!"F {fatSecs.length} FAT sectors in the DIFAT, header says {numFatH}" :: bad
  if fatSecs.any (· ≥ nSec) then return (s!"F a FAT sector lies beyond the file" :: bad)
  -- FAT
  let fat : Array Nat := (fatSecs.flatMap (fun s => (List.range (S / 4)).map (fun i => le b (secOff s + 4 * i) 4))).toArray
  if fat.size < nSec then bad := s!"F the FAT covers {fat.size} sectors, the file has {nSec}" :: bad
  if (List.range (fat.size - nSec)).any (fun i => fat[nSec + i]! ≠ FREE) then
    bad := "F FAT entries beyond the end of the file are not FREE" :: bad
  for s in fatSecs do
    if fat[s]? ≠ some FATSECT then bad := s!"F FAT sector {s} is not marked FATSECT" :: bad
  for s in difatSecs do
    if fat[s]? ≠ some DIFSECT then bad := s!"D DIFAT sector {s} is not marked DIFSECT" :: bad
  let mut acc : Acc := { owner := Array.replicate nSec 0, mowner := #[] }
  acc := claim acc fatSecs 1 "FAT"
  acc := claim acc difatSecs 2 "DIFAT"
  -- directory
  let dirChain ← match walk fat firstDir with
    | some c => pure c
    | none => return ("C directory chain is broken" :: bad)
  if dirChain.isEmpty then return ("C no directory" :: bad)
  acc := claim acc dirChain 3 "directory"
  if version = 4 ∧ numDirH ≠ dirChain.length then bad := s!"C directory chain has {dirChain.length} sectors, header says {numDirH}" :: bad
  if version = 3 ∧ numDirH ≠ 0 then bad := s!"C version 3 header has directory sector count {numDirH}" :: bad
  let per := S / 128
  let ents : Array Ent := ((dirChain.zipIdx).flatMap (fun (s, k) =>
    (List.range per).map (fun j => readEnt (version == 3) b (secOff s + 128 * j) (k * per + j)))).toArray
  -- MiniFAT
  let mfChain ← match walk fat firstMf with
    | some c => pure c
    | none => return ("C MiniFAT chain is broken" :: bad)
  acc := claim acc mfChain 4 "MiniFAT"
  if mfChain.length ≠ numMfH then bad := s!"C MiniFAT chain has {mfChain.length} sectors, header says {numMfH}" :: bad
  let minifat : Array Nat := (mfChain.flatMap (fun s => (List.range (S / 4)).map (fun i => le b (secOff s + 4 * i) 4))).toArray
  acc := { acc with mowner := Array.replicate minifat.size 0 }
  let root := ents[0]!
  if root.typ ≠ 5 then bad := "E slot 0 is not the root entry" :: bad
  if root.units ≠ rootNameUnits then bad := "E root entry name" :: bad
  let rootChain ← match walk fat root.start with
    | some c => pure c
    | none => return ("S mini stream chain is broken" :: bad)
  acc := claim acc rootChain 5 "mini stream"
  if rootChain.length * S < root.len then bad := s!"S mini stream of {root.len} bytes has only {rootChain.length} sectors" :: bad
  if root.len % 64 ≠ 0 then bad := s!"S mini stream length {root.len} is not a multiple of 64" :: bad
  -- entries
  let mut reach : Array Bool := Array.replicate ents.size false
  reach := reach.set! 0 true
  -- trees: breadth-first over storages
  let mut todo : List Nat := [0]
  let mut steps := ents.size + 1
  while !todo.isEmpty ∧ steps > 0 do
    steps := steps - 1
    let sid := todo.head!
    todo := todo.tail
    let e := ents[sid]!
    let (tb, visited) := checkTree ents upper e.child
    bad := tb.reverse ++ bad
    for v in visited do
      if v < reach.size then
        if reach[v]! then bad := s!"T slot {v} is reachable twice" :: bad
        else
          reach := reach.set! v true
          if ents[v]!.typ = 1 then todo := todo ++ [v]
  for e in ents.toList do
    let expectLen := (e.units.length + 1) * 2
    if e.typ = 0 then
      if !(e.rawZeroExceptLinks ∧ e.left = NOSTREAM ∧ e.right = NOSTREAM ∧ e.child = NOSTREAM) then
        bad := s!"E unallocated slot {e.slot} is not blank" :: bad
      if reach[e.slot]! then bad := s!"T unallocated slot {e.slot} is reachable" :: bad
    else
      if !reach[e.slot]! then bad := s!"T allocated slot {e.slot} is not reachable from the root" :: bad
      if e.nameLen ≠ expectLen then bad := s!"E slot {e.slot}: name length field {e.nameLen}, name has {e.units.length} units" :: bad
      if e.units.length > 31 ∨ !e.terminated then bad := s!"E slot {e.slot}: name not terminated" :: bad
      if e.typ = 2 then
        if !e.clsidZero ∨ e.ctime ≠ 0 ∨ e.mtime ≠ 0 then bad := s!"E stream slot {e.slot} carries a CLSID or timestamps" :: bad
        if e.child ≠ NOSTREAM then bad := s!"E stream slot {e.slot} has a child" :: bad
        if e.len = 0 then
          if e.start ≠ END then bad := s!"S empty stream slot {e.slot} has a start sector" :: bad
        else if e.len < 4096 then
          match walk minifat e.start with
          | none => bad := s!"S mini chain of slot {e.slot} is broken" :: bad
          | some c =>
            acc := claimMini acc c (e.slot + 10) s!"slot {e.slot}"
            if c.length ≠ ceilDiv e.len 64 then bad := s!"S slot {e.slot}: {e.len} bytes in {c.length} mini sectors" :: bad
            if c.any (fun m => (m + 1) * 64 > root.len) then bad := s!"M slot {e.slot} uses a mini sector beyond the mini stream" :: bad
        else
          match walk fat e.start with
          | none => bad := s!"S chain of slot {e.slot} is broken" :: bad
          | some c =>
            acc := claim acc c (e.slot + 10) s!"slot {e.slot}"
            if c.length ≠ ceilDiv e.len S then bad := s!"S slot {e.slot}: {e.len} bytes in {c.length} sectors" :: bad
      else if e.typ = 1 then
        if e.start ≠ 0 ∨ e.len ≠ 0 then bad := s!"E storage slot {e.slot} has a start sector or size" :: bad
      else if e.typ = 5 then
        if e.slot ≠ 0 then bad := s!"E a second root entry in slot {e.slot}" :: bad
      else bad := s!"E slot {e.slot} has object type {e.typ}" :: bad
  -- every non-free sector / mini sector has an owner
  for i in List.range (min nSec fat.size) do
    if fat[i]! ≠ FREE ∧ acc.owner[i]! = 0 then bad := s!"O sector {i} is not free but belongs to nothing" :: bad
    if fat[i]! = FREE ∧ acc.owner[i]! ≠ 0 then bad := s!"O sector {i} is in a chain but marked free" :: bad
  for i in List.range minifat.size do
    if minifat[i]! ≠ FREE ∧ acc.mowner[i]! = 0 then bad := s!"M mini sector {i} is not free but belongs to nothing" :: bad
  return (acc.bad ++ bad).reverse

end CfbVerif.Spec
