import CfbVerif.Gen.Consts
/-!
# The generated constants are the ones MS-CFB states

`Gen/Consts.lean` is regenerated from the Rust source on every run, so the models follow the code.
For the quantities the *file format* fixes that must not happen silently: a changed constant would
change model and code together and the lock-step would see nothing.  This theorem pins them to the
values of [MS-CFB] (sections 2.1, 2.2, 2.6); it is an obligation of every property whose statement
is about the format (C02, C03, C04, C05, C09, C16).  It is a `decide` over literals — when it fails,
the source's constant is no longer the format's.
-/
namespace CfbVerif.Spec

theorem gen_eq_spec :
    Gen.HEADER_LEN = 512 ∧ Gen.DIR_ENTRY_LEN = 128 ∧ Gen.NUM_DIFAT_ENTRIES_IN_HEADER = 109 ∧
    Gen.MINOR_VERSION = 0x3E ∧ Gen.BYTE_ORDER_MARK = 0xFFFE ∧ Gen.MINI_SECTOR_SHIFT = 6 ∧
    Gen.MINI_SECTOR_LEN = 64 ∧ Gen.MINI_STREAM_CUTOFF = 4096 ∧
    Gen.MAX_REGULAR_SECTOR = 0xFFFFFFFA ∧ Gen.DIFAT_SECTOR = 0xFFFFFFFC ∧ Gen.FAT_SECTOR = 0xFFFFFFFD ∧
    Gen.END_OF_CHAIN = 0xFFFFFFFE ∧ Gen.FREE_SECTOR = 0xFFFFFFFF ∧
    Gen.OBJ_TYPE_UNALLOCATED = 0 ∧ Gen.OBJ_TYPE_STORAGE = 1 ∧ Gen.OBJ_TYPE_STREAM = 2 ∧ Gen.OBJ_TYPE_ROOT = 5 ∧
    Gen.COLOR_RED = 0 ∧ Gen.COLOR_BLACK = 1 ∧ Gen.ROOT_STREAM_ID = 0 ∧
    Gen.MAX_REGULAR_STREAM_ID = 0xFFFFFFFA ∧ Gen.NO_STREAM = 0xFFFFFFFF ∧
    Gen.MAGIC_NUMBER = [0xD0, 0xCF, 0x11, 0xE0, 0xA1, 0xB1, 0x1A, 0xE1] ∧
    Gen.versionNumberV3 = 3 ∧ Gen.versionNumberV4 = 4 ∧ Gen.sectorShiftV3 = 9 ∧ Gen.sectorShiftV4 = 12 ∧
    Gen.streamLenMaskV3 = 0xFFFFFFFF ∧ Gen.streamLenMaskV4 = 0xFFFFFFFFFFFFFFFF ∧
    Gen.hdrDifatSlotBase = 76 ∧ Gen.hdrDifatSlotStride = 4 := by decide

/-- names: at most 31 UTF-16 units, and none of `/ \ : !` -/
theorem names_eq_spec : Gen.MAX_NAME_LEN = 31 ∧ Gen.forbiddenNameChars = [0x2F, 0x5C, 0x3A, 0x21] := by decide

end CfbVerif.Spec
