import CfbVerif.Dir.Paths
/-!
# The directory invariant and its preservation

`Tree.WF`: every sibling tree at every level is a search tree under the CFB name order, and a
stream has no children.  (`RB` — no adjacent red nodes — and slot distinctness are separate.)
-/
set_option linter.unusedSimpArgs false
set_option linter.unusedVariables false
namespace CfbVerif.Dir
open CfbVerif.Names

def Tree.WF : Tree → Prop
  | .leaf => True
  | .node l e k r => l.WF ∧ r.WF ∧ k.WF ∧
      l.AllSib (fun x => cmp x.name e.name = .lt) ∧ r.AllSib (fun x => cmp x.name e.name = .gt) ∧
      (e.isStream = true → k = .leaf)

theorem Tree.WF.orderedSib : ∀ {t : Tree}, t.WF → t.OrderedSib
  | .leaf, _ => trivial
  | .node l e k r, ⟨hl, hr, _, hlt, hgt, _⟩ => ⟨hl.orderedSib, hr.orderedSib, hlt, hgt⟩

theorem wf_paintRoot {t : Tree} (h : t.WF) : t.paintRoot.WF := by
  cases t with
  | leaf => trivial
  | node l e k r => exact h

theorem wf_insert {t : Tree} {x : Entry} (h : t.WF) : (t.insert x).WF := by
  induction t with
  | leaf => exact ⟨trivial, trivial, trivial, trivial, trivial, fun _ => rfl⟩
  | node l e k r ihl _ ihr =>
    obtain ⟨hl, hr, hk, hlt, hgt, hs⟩ := h
    simp only [Tree.insert]
    split
    · rename_i hc; exact ⟨ihl hl, hr, hk, allSib_insert hlt hc, hgt, hs⟩
    · rename_i hc; exact ⟨hl, ihr hr, hk, hlt, allSib_insert hgt hc, hs⟩
    · exact ⟨hl, hr, hk, hlt, hgt, hs⟩

/-- what `popMax` hands out is well-formed too -/
theorem wf_popMax : ∀ (t t' : Tree) (p : Entry) (pk : Tree), t.popMax = some (t', p, pk) → t.WF →
    t'.WF ∧ pk.WF ∧ (p.isStream = true → pk = .leaf) := by
  intro t
  induction t with
  | leaf => intro t' p pk h; simp [Tree.popMax] at h
  | node l e k r _ _ ihr =>
    intro t' p pk h hw
    obtain ⟨hl, hr, hk, hlt, hgt, hs⟩ := hw
    cases r with
    | leaf =>
      rw [popMax_leaf_right] at h
      simp only [Option.some.injEq, Prod.mk.injEq] at h
      obtain ⟨rfl, rfl, rfl⟩ := h
      exact ⟨wf_paintRoot hl, hk, hs⟩
    | node rl re rk rr =>
      cases hp : (Tree.node rl re rk rr).popMax with
      | none => have := popMax_isSome rl re rk rr; simp [hp] at this
      | some v =>
        obtain ⟨r', p', pk'⟩ := v
        rw [popMax_node_right _ _ _ _ _ _ _ _ _ _ hp] at h
        simp only [Option.some.injEq, Prod.mk.injEq] at h
        obtain ⟨rfl, rfl, rfl⟩ := h
        have sp := ihr r' p' pk' hp hr
        have ps := popMax_spec _ _ _ _ hp
        exact ⟨⟨hl, sp.1, hk, hlt, (ps.allName (fun y => cmp y e.name = .gt) hgt).1, hs⟩, sp.2.1, sp.2.2⟩

theorem wf_removeRoot {t : Tree} (h : t.WF) : t.removeRoot.WF := by
  cases t with
  | leaf => trivial
  | node l e k r =>
    obtain ⟨hl, hr, hk, hlt, hgt, hs⟩ := h
    cases l with
    | leaf => exact wf_paintRoot hr
    | node ll le lk lr =>
      cases r with
      | leaf => exact wf_paintRoot hl
      | node rl re rk rr =>
        simp only [Tree.removeRoot]
        cases hp : (Tree.node ll le lk lr).popMax with
        | none => exact hr
        | some v =>
          obtain ⟨l', p, pk⟩ := v
          have sp := popMax_spec _ _ _ _ hp
          have wp := wf_popMax _ _ _ _ hp hl
          have hplt : cmp p.name e.name = .lt := (sp.allName (fun y => cmp y e.name = .lt) hlt).2
          exact ⟨wp.1, hr, wp.2.1, sp.isMax hl.orderedSib,
            hgt.imp (fun x hx => cmp_trans_gt hx ((cmp_gt_iff _ _).mpr hplt)), wp.2.2⟩

theorem wf_remove {t : Tree} (n : Name) (h : t.WF) : (t.remove n).WF := by
  induction t with
  | leaf => trivial
  | node l e k r ihl _ ihr =>
    simp only [Tree.remove]
    split
    · exact wf_removeRoot h
    · obtain ⟨hl, hr, hk, hlt, hgt, hs⟩ := h
      exact ⟨ihl hl, hr, hk, allSib_remove (q := fun y => cmp y e.name = .lt) n hlt, hgt, hs⟩
    · obtain ⟨hl, hr, hk, hlt, hgt, hs⟩ := h
      exact ⟨hl, ihr hr, hk, hlt, allSib_remove (q := fun y => cmp y e.name = .gt) n hgt, hs⟩

theorem allSib_update {q : Name → Prop} {t : Tree} (n : Name) (f : Entry → Tree → Entry × Tree)
    (hname : ∀ e k, (f e k).1.name = e.name) (h : t.AllSib (fun x => q x.name)) :
    (t.update n f).AllSib (fun x => q x.name) := by
  induction t with
  | leaf => trivial
  | node l e k r ihl _ ihr =>
    simp only [Tree.update]
    split
    · exact ⟨h.1, by show q (f e k).1.name; rw [hname]; exact h.2.1, h.2.2⟩
    · exact ⟨ihl h.1, h.2.1, h.2.2⟩
    · exact ⟨h.1, h.2.1, ihr h.2.2⟩

theorem wf_update {t : Tree} (n : Name) (f : Entry → Tree → Entry × Tree)
    (hname : ∀ e k, (f e k).1.name = e.name)
    (hf : ∀ e k, t.find? n = some (e, k) → k.WF → (e.isStream = true → k = .leaf) →
      (f e k).2.WF ∧ ((f e k).1.isStream = true → (f e k).2 = .leaf))
    (h : t.WF) : (t.update n f).WF := by
  induction t with
  | leaf => trivial
  | node l e k r ihl _ ihr =>
    obtain ⟨hl, hr, hk, hlt, hgt, hs⟩ := h
    simp only [Tree.update]
    split
    · rename_i hc
      have := hf e k (find?_node_eq hc) hk hs
      refine ⟨hl, hr, this.1, ?_, ?_, this.2⟩
      · rw [hname]; exact hlt
      · rw [hname]; exact hgt
    · rename_i hc
      exact ⟨ihl (fun e' k' h' => hf e' k' (by rw [find?_node_lt hc]; exact h')) hl, hr, hk,
        allSib_update (q := fun y => cmp y e.name = .lt) n f hname hlt, hgt, hs⟩
    · rename_i hc
      exact ⟨hl, ihr (fun e' k' h' => hf e' k' (by rw [find?_node_gt hc]; exact h')) hr, hk, hlt,
        allSib_update (q := fun y => cmp y e.name = .gt) n f hname hgt, hs⟩

/-- the entry a lookup finds, and its children, are well-formed -/
theorem wf_find? {t : Tree} (h : t.WF) {n : Name} {e : Entry} {k : Tree} (hf : t.find? n = some (e, k)) :
    k.WF ∧ (e.isStream = true → k = .leaf) := by
  induction t with
  | leaf => simp [Tree.find?] at hf
  | node l x xk r ihl _ ihr =>
    obtain ⟨hl, hr, hk, _, _, hs⟩ := h
    simp only [Tree.find?] at hf
    split at hf
    · simp only [Option.some.injEq, Prod.mk.injEq] at hf; obtain ⟨rfl, rfl⟩ := hf; exact ⟨hk, hs⟩
    · exact ihl hl hf
    · exact ihr hr hf

/-- modifying the children of the storage at `P` by a WF-preserving function keeps `WF`, provided
`P` does not run through a stream -/
theorem wf_modifyKids (f : Tree → Tree) (hf : ∀ K, K.WF → (f K).WF) :
    ∀ (P : List Name) (t : Tree), t.WF → (∀ e k, resolve t P = some (.ent e k) → e.isStream = false) →
    (modifyKids t P f).WF := by
  intro P
  induction P with
  | nil => intro t h _; exact hf t h
  | cons p ps ih =>
    intro t h hstor
    simp only [modifyKids]
    apply wf_update p _ (fun _ _ => rfl) _ h
    intro e k hfind hk hs
    simp only
    have hres := resolve_cons t p ps
    rw [hfind] at hres
    simp only at hres
    constructor
    · apply ih k hk
      intro e' k' hr'
      cases ps with
      | nil => simp [resolve] at hr'
      | cons q qs =>
        simp only [List.cons_ne_nil, if_false] at hres
        exact hstor e' k' (hres ▸ hr')
    · intro hstream
      cases ps with
      | nil =>
        simp only [if_true] at hres
        have := hstor e k hres
        rw [this] at hstream; exact absurd hstream (by simp)
      | cons q qs =>
        rw [hs hstream]; rfl

end CfbVerif.Dir
