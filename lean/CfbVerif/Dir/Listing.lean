import CfbVerif.Dir.Spec
/-!
# Listings: membership, order, pre-order structure
-/
set_option linter.unusedSimpArgs false
set_option linter.unusedVariables false
namespace CfbVerif.Dir
open CfbVerif.Names

theorem allSib_of_mem {p : Entry → Prop} {t : Tree} (h : t.AllSib p) {x : Entry} {k : Tree}
    (hm : (x, k) ∈ t.inorder) : p x := by
  induction t with
  | leaf => simp [Tree.inorder] at hm
  | node l e ek r ihl _ ihr =>
    simp only [Tree.inorder, List.mem_append, List.mem_singleton, Prod.mk.injEq] at hm
    rcases hm with (hm | ⟨rfl, _⟩) | hm
    · exact ihl h.1 hm
    · exact h.2.1
    · exact ihr h.2.2 hm

/-- what is listed is exactly what a lookup by that name finds -/
theorem mem_inorder_find? {t : Tree} (h : t.OrderedSib) {x : Entry} {k : Tree}
    (hm : (x, k) ∈ t.inorder) : t.find? x.name = some (x, k) := by
  induction t with
  | leaf => simp [Tree.inorder] at hm
  | node l e ek r ihl _ ihr =>
    obtain ⟨hl, hr, hlt, hgt⟩ := h
    simp only [Tree.inorder, List.mem_append, List.mem_singleton, Prod.mk.injEq] at hm
    rcases hm with (hm | ⟨rfl, rfl⟩) | hm
    · rw [find?_node_lt (allSib_of_mem hlt hm)]; exact ihl hl hm
    · exact find?_node_eq (cmp_refl _)
    · rw [find?_node_gt (allSib_of_mem hgt hm)]; exact ihr hr hm

theorem find?_mem_inorder {t : Tree} {n : Name} {x : Entry} {k : Tree} (hf : t.find? n = some (x, k)) :
    (x, k) ∈ t.inorder ∧ cmp n x.name = .eq := by
  induction t with
  | leaf => simp [Tree.find?] at hf
  | node l e ek r ihl _ ihr =>
    simp only [Tree.find?] at hf
    simp only [Tree.inorder, List.mem_append, List.mem_singleton]
    split at hf
    · rename_i hc
      simp only [Option.some.injEq, Prod.mk.injEq] at hf
      obtain ⟨rfl, rfl⟩ := hf
      exact ⟨Or.inl (Or.inr rfl), hc⟩
    · exact ⟨Or.inl (Or.inl (ihl hf).1), (ihl hf).2⟩
    · exact ⟨Or.inr (ihr hf).1, (ihr hf).2⟩

/-- **listing order**: the in-order sequence is strictly increasing in the CFB name order -/
theorem inorder_sorted {t : Tree} (h : t.OrderedSib) :
    t.inorder.Pairwise (fun a b => cmp a.1.name b.1.name = .lt) := by
  induction t with
  | leaf => simp [Tree.inorder]
  | node l e ek r ihl _ ihr =>
    obtain ⟨hl, hr, hlt, hgt⟩ := h
    simp only [Tree.inorder, List.append_assoc, List.singleton_append]
    rw [List.pairwise_append]
    refine ⟨ihl hl, ?_, ?_⟩
    · rw [List.pairwise_cons]
      refine ⟨?_, ihr hr⟩
      intro b hb
      obtain ⟨b1, b2⟩ := b
      exact (cmp_lt_iff _ _).mpr (allSib_of_mem hgt hb)
    · intro a ha b hb
      obtain ⟨a1, a2⟩ := a
      have ha' : cmp a1.name e.name = .lt := allSib_of_mem hlt ha
      simp only [List.mem_cons] at hb
      rcases hb with rfl | hb
      · exact ha'
      · obtain ⟨b1, b2⟩ := b
        exact cmp_trans_lt ha' ((cmp_lt_iff _ _).mpr (allSib_of_mem hgt hb))

/-- `read_storage` = the in-order sequence, rendered -/
theorem full_false_eq (parent : List Nat) (t : Tree) :
    full false parent t = t.inorder.map (fun (e, _) => infoOf (joinPath parent e.name) e) := by
  induction t with
  | leaf => rfl
  | node l e k r ihl _ ihr => simp [full, Tree.inorder, ihl, ihr]

/-- `walk` = pre-order over storages: every entry is followed directly by its subtree -/
theorem full_true_eq (parent : List Nat) (t : Tree) :
    full true parent t = t.inorder.flatMap (fun (e, k) =>
      infoOf (joinPath parent e.name) e ::
        (if e.isStream then [] else full true (joinPath parent e.name) k)) := by
  induction t with
  | leaf => rfl
  | node l e k r ihl _ ihr =>
    simp only [full, Tree.inorder, ihl, ihr, List.flatMap_append, List.flatMap_cons, List.flatMap_nil,
      List.append_nil, Bool.true_and]
    cases e.isStream <;> simp

/-- the children listed for the storage at `P` are exactly the paths `P ++ [n]` of the map -/
theorem listing_complete (t : Tree) (hw : t.WF) (P : List Name) (K : Tree) (hK : kidsAt t P = some K)
    (hKo : K.OrderedSib) (n : Name) (v : View) :
    view t (P ++ [n]) = some v ↔ ∃ e k, (e, k) ∈ K.inorder ∧ cmp n e.name = .eq ∧ v = .ent e.core := by
  simp only [view, resolve_snoc, hK, Option.bind_some]
  constructor
  · intro h
    cases hf : K.find? n with
    | none => rw [hf] at h; simp at h
    | some x =>
      obtain ⟨e, k⟩ := x
      rw [hf] at h
      simp only [Option.map_some, viewOf, Option.some.injEq] at h
      exact ⟨e, k, (find?_mem_inorder hf).1, (find?_mem_inorder hf).2, h.symm⟩
  · rintro ⟨e, k, hm, hc, rfl⟩
    rw [find?_congr_eq hc K, mem_inorder_find? hKo hm]
    rfl

end CfbVerif.Dir
