import CfbVerif.Dir.Model
import CfbVerif.Props.C09
/-!
# One sibling tree: search, leaf insertion, the library's removal, colours, slots

All lemmas are about `Dir.cmp`, i.e. `compare_names` with the library's generated upper-casing
table; the only facts used about it are the order laws of `Props.C09.C09_cmp_laws`.
-/
set_option linter.unusedSimpArgs false
set_option linter.unusedVariables false
namespace CfbVerif.Dir
open CfbVerif.Names

/-! ## comparator laws -/

theorem cmp_refl (a : Name) : cmp a a = .eq := (Props.C09.C09_cmp_laws a a a).1
theorem cmp_swap (a b : Name) : cmp a b = (cmp b a).swap := (Props.C09.C09_cmp_laws a b a).2.1
theorem cmp_trans_lt {a b c : Name} : cmp a b = .lt → cmp b c = .lt → cmp a c = .lt :=
  (Props.C09.C09_cmp_laws a b c).2.2.1
theorem cmp_eq_left {a b : Name} (c : Name) (h : cmp a b = .eq) : cmp b c = cmp a c :=
  (Props.C09.C09_cmp_laws a b c).2.2.2 h

theorem cmp_gt_iff (a b : Name) : cmp a b = .gt ↔ cmp b a = .lt := by
  rw [cmp_swap a b]; cases cmp b a <;> simp [Ordering.swap]

theorem cmp_lt_iff (a b : Name) : cmp a b = .lt ↔ cmp b a = .gt := by
  rw [cmp_swap a b]; cases cmp b a <;> simp [Ordering.swap]

theorem cmp_eq_symm {a b : Name} (h : cmp a b = .eq) : cmp b a = .eq := by
  rw [cmp_swap b a, h]; rfl

theorem cmp_eq_right {a b : Name} (c : Name) (h : cmp a b = .eq) : cmp c b = cmp c a := by
  rw [cmp_swap c b, cmp_swap c a, cmp_eq_left c h]

theorem cmp_trans_gt {a b c : Name} (h1 : cmp a b = .gt) (h2 : cmp b c = .gt) : cmp a c = .gt := by
  rw [cmp_gt_iff] at *; exact cmp_trans_lt h2 h1

theorem cmp_eq_trans {a b c : Name} (h1 : cmp a b = .eq) (h2 : cmp b c = .eq) : cmp a c = .eq := by
  rw [← cmp_eq_left c h1]; exact h2

/-! ## predicates on one sibling tree -/

/-- `p` holds for every entry of this sibling tree (children trees are not entered) -/
def Tree.AllSib (p : Entry → Prop) : Tree → Prop
  | .leaf => True
  | .node l e _ r => l.AllSib p ∧ p e ∧ r.AllSib p

/-- search-tree order of this sibling tree under `cmp` -/
def Tree.OrderedSib : Tree → Prop
  | .leaf => True
  | .node l e _ r => l.OrderedSib ∧ r.OrderedSib ∧
      l.AllSib (fun x => cmp x.name e.name = .lt) ∧ r.AllSib (fun x => cmp x.name e.name = .gt)

theorem Tree.AllSib.imp {p q : Entry → Prop} (h : ∀ e, p e → q e) : ∀ {t : Tree}, t.AllSib p → t.AllSib q
  | .leaf, _ => trivial
  | .node l e k r, ⟨hl, he, hr⟩ => ⟨AllSib.imp h hl, h e he, AllSib.imp h hr⟩

/-- the entry without its colour (removal repaints; nothing else of an entry ever changes) -/
def Entry.core (e : Entry) : Entry := { e with black := true }

@[simp] theorem Entry.core_name (e : Entry) : e.core.name = e.name := rfl
@[simp] theorem Entry.core_slot (e : Entry) : e.core.slot = e.slot := rfl

def coreRes (r : Option (Entry × Tree)) : Option (Entry × Tree) := r.map (fun (e, k) => (e.core, k))

/-! ## find / insert -/

theorem find?_node_lt {l r k : Tree} {e : Entry} {n : Name} (h : cmp n e.name = .lt) :
    (Tree.node l e k r).find? n = l.find? n := by simp [Tree.find?, h]
theorem find?_node_gt {l r k : Tree} {e : Entry} {n : Name} (h : cmp n e.name = .gt) :
    (Tree.node l e k r).find? n = r.find? n := by simp [Tree.find?, h]
theorem find?_node_eq {l r k : Tree} {e : Entry} {n : Name} (h : cmp n e.name = .eq) :
    (Tree.node l e k r).find? n = some (e, k) := by simp [Tree.find?, h]

theorem find?_none_of_allSib_lt {t : Tree} {n m : Name} (h : t.AllSib (fun x => cmp x.name m = .lt))
    (hn : cmp n m = .gt ∨ cmp n m = .eq) : t.find? n = none := by
  induction t with
  | leaf => rfl
  | node l e k r ihl _ ihr =>
    obtain ⟨hl, he, hr⟩ := h
    have hne : cmp n e.name = .gt := by
      rcases hn with hn | hn
      · exact cmp_trans_gt hn ((cmp_gt_iff _ _).mpr he)
      · rw [cmp_eq_left e.name (cmp_eq_symm hn)]; exact (cmp_gt_iff _ _).mpr he
    simp only [Tree.find?, hne]
    exact ihr hr

theorem find?_none_of_allSib_gt {t : Tree} {n m : Name} (h : t.AllSib (fun x => cmp x.name m = .gt))
    (hn : cmp n m = .lt ∨ cmp n m = .eq) : t.find? n = none := by
  induction t with
  | leaf => rfl
  | node l e k r ihl _ ihr =>
    obtain ⟨hl, he, hr⟩ := h
    have hne : cmp n e.name = .lt := by
      rcases hn with hn | hn
      · exact cmp_trans_lt hn ((cmp_lt_iff _ _).mpr he)
      · rw [cmp_eq_left e.name (cmp_eq_symm hn)]; exact (cmp_lt_iff _ _).mpr he
    simp only [Tree.find?, hne]
    exact ihl hl

theorem allSib_insert {p : Entry → Prop} {t : Tree} {x : Entry} (ht : t.AllSib p) (hx : p x) :
    (t.insert x).AllSib p := by
  induction t with
  | leaf => exact ⟨trivial, hx, trivial⟩
  | node l e k r ihl _ ihr =>
    obtain ⟨hl, he, hr⟩ := ht
    simp only [Tree.insert]
    split
    · exact ⟨ihl hl, he, hr⟩
    · exact ⟨hl, he, ihr hr⟩
    · exact ⟨hl, he, hr⟩

theorem orderedSib_insert {t : Tree} {x : Entry} (ht : t.OrderedSib) : (t.insert x).OrderedSib := by
  induction t with
  | leaf => exact ⟨trivial, trivial, trivial, trivial⟩
  | node l e k r ihl _ ihr =>
    obtain ⟨hl, hr, hlt, hgt⟩ := ht
    simp only [Tree.insert]
    split
    · rename_i h; exact ⟨ihl hl, hr, allSib_insert hlt h, hgt⟩
    · rename_i h; exact ⟨hl, ihr hr, hlt, allSib_insert hgt h⟩
    · exact ⟨hl, hr, hlt, hgt⟩

/-- a newly inserted name is found, with the entry as given and no children -/
theorem find?_insert_self {t : Tree} {x : Entry} (hn : t.find? x.name = none) :
    (t.insert x).find? x.name = some (x, .leaf) := by
  induction t with
  | leaf => simp [Tree.insert, Tree.find?, cmp_refl]
  | node l e k r ihl _ ihr =>
    simp only [Tree.find?] at hn
    simp only [Tree.insert]
    cases h : cmp x.name e.name with
    | lt => simp only [h] at hn ⊢; simp only [Tree.find?, h]; exact ihl hn
    | gt => simp only [h] at hn ⊢; simp only [Tree.find?, h]; exact ihr hn
    | eq => simp [h] at hn

/-- inserting does not disturb the lookup of any other name -/
theorem find?_insert_other {t : Tree} {x : Entry} {n : Name} (hne : cmp n x.name ≠ .eq) :
    (t.insert x).find? n = t.find? n := by
  induction t with
  | leaf =>
    simp only [Tree.insert, Tree.find?]
    cases h : cmp n x.name with
    | eq => exact absurd h hne
    | lt => rfl
    | gt => rfl
  | node l e k r ihl _ ihr =>
    simp only [Tree.insert]
    cases h : cmp x.name e.name with
    | lt => simp only [Tree.find?]; cases cmp n e.name <;> simp [ihl]
    | gt => simp only [Tree.find?]; cases cmp n e.name <;> simp [ihr]
    | eq => rfl

end CfbVerif.Dir

namespace CfbVerif.Dir
open CfbVerif.Names

/-! ## removal -/

theorem find?_paintRoot (t : Tree) (n : Name) : coreRes (t.paintRoot.find? n) = coreRes (t.find? n) := by
  cases t with
  | leaf => rfl
  | node l e k r =>
    simp only [Tree.paintRoot, Tree.find?]
    cases cmp n e.name <;> simp [coreRes, Entry.core]

theorem allSib_paintRoot {q : Name → Prop} {t : Tree} (h : t.AllSib (fun x => q x.name)) :
    t.paintRoot.AllSib (fun x => q x.name) := by
  cases t with
  | leaf => trivial
  | node l e k r => exact h

theorem orderedSib_paintRoot {t : Tree} (h : t.OrderedSib) : t.paintRoot.OrderedSib := by
  cases t with
  | leaf => trivial
  | node l e k r => exact h

theorem popMax_isSome (l : Tree) (e : Entry) (k r : Tree) : ((Tree.node l e k r).popMax).isSome := by
  simp only [Tree.popMax]
  cases r.popMax with
  | none => rfl
  | some v => rfl

theorem popMax_leaf_right (l : Tree) (e : Entry) (k : Tree) :
    (Tree.node l e k .leaf).popMax = some (l.paintRoot, e, k) := rfl

theorem popMax_node_right (l : Tree) (e : Entry) (k rl : Tree) (re : Entry) (rk rr r' : Tree) (p : Entry) (pk : Tree)
    (h : (Tree.node rl re rk rr).popMax = some (r', p, pk)) :
    (Tree.node l e k (.node rl re rk rr)).popMax = some (.node l e k r', p, pk) := by
  simp only [Tree.popMax] at h ⊢
  rw [h]

structure PopSpec (t t' : Tree) (p : Entry) (pk : Tree) : Prop where
  found : t.OrderedSib → t.find? p.name = some (p, pk)
  isMax : t.OrderedSib → t'.AllSib (fun x => cmp x.name p.name = .lt)
  ordered : t.OrderedSib → t'.OrderedSib
  allName : ∀ (q : Name → Prop), t.AllSib (fun x => q x.name) → t'.AllSib (fun x => q x.name) ∧ q p.name
  others : t.OrderedSib → ∀ n, cmp n p.name ≠ .eq → coreRes (t'.find? n) = coreRes (t.find? n)

theorem popMax_spec : ∀ (t t' : Tree) (p : Entry) (pk : Tree), t.popMax = some (t', p, pk) → PopSpec t t' p pk := by
  intro t
  induction t with
  | leaf => intro t' p pk h; simp [Tree.popMax] at h
  | node l e k r _ _ ihr =>
    intro t' p pk h
    cases r with
    | leaf =>
      rw [popMax_leaf_right] at h
      simp only [Option.some.injEq, Prod.mk.injEq] at h
      obtain ⟨rfl, rfl, rfl⟩ := h
      refine ⟨?_, ?_, ?_, ?_, ?_⟩
      · intro _; simp [Tree.find?, cmp_refl]
      · intro ⟨_, _, hlt, _⟩; exact allSib_paintRoot (q := fun y => cmp y e.name = .lt) hlt
      · intro ⟨hl, _, _, _⟩; exact orderedSib_paintRoot hl
      · intro q ⟨hl, he, _⟩; exact ⟨allSib_paintRoot hl, he⟩
      · intro ⟨_, _, hlt, _⟩ n hne
        rw [find?_paintRoot]
        cases hc : cmp n e.name with
        | eq => exact absurd hc hne
        | lt => rw [find?_node_lt hc]
        | gt => rw [find?_node_gt hc, find?_none_of_allSib_lt hlt (Or.inl hc)]; rfl
    | node rl re rk rr =>
      cases hp : (Tree.node rl re rk rr).popMax with
      | none => have := popMax_isSome rl re rk rr; simp [hp] at this
      | some v =>
        obtain ⟨r', p', pk'⟩ := v
        rw [popMax_node_right _ _ _ _ _ _ _ _ _ _ hp] at h
        simp only [Option.some.injEq, Prod.mk.injEq] at h
        obtain ⟨rfl, rfl, rfl⟩ := h
        have sp := ihr r' p' pk' hp
        refine ⟨?_, ?_, ?_, ?_, ?_⟩
        · intro ⟨_, hr, _, hgt⟩
          have hpgt : cmp p'.name e.name = .gt := (sp.allName (fun y => cmp y e.name = .gt) hgt).2
          simp only [Tree.find?, hpgt]
          exact sp.found hr
        · intro ⟨_, hr, hlt, hgt⟩
          have hpgt : cmp p'.name e.name = .gt := (sp.allName (fun y => cmp y e.name = .gt) hgt).2
          have helt : cmp e.name p'.name = .lt := (cmp_gt_iff _ _).mp hpgt
          exact ⟨hlt.imp (fun x hx => cmp_trans_lt hx helt), helt, sp.isMax hr⟩
        · intro ⟨hl, hr, hlt, hgt⟩
          exact ⟨hl, sp.ordered hr, hlt, (sp.allName (fun y => cmp y e.name = .gt) hgt).1⟩
        · intro q ⟨hl, he, hr⟩
          exact ⟨⟨hl, he, (sp.allName q hr).1⟩, (sp.allName q hr).2⟩
        · intro ⟨_, hr, hlt, hgt⟩ n hne
          simp only [Tree.find?]
          cases hc : cmp n e.name with
          | eq => rfl
          | lt => rfl
          | gt => exact sp.others hr n hne

theorem find?_removeRoot_self {l r k : Tree} {e : Entry} (h : (Tree.node l e k r).OrderedSib) :
    ((Tree.node l e k r).removeRoot).find? e.name = none := by
  obtain ⟨hl, hr, hlt, hgt⟩ := h
  cases l with
  | leaf =>
    simp only [Tree.removeRoot]
    have := find?_paintRoot r e.name
    rw [find?_none_of_allSib_gt hgt (Or.inr (cmp_refl _))] at this
    cases h : r.paintRoot.find? e.name with
    | none => rfl
    | some v => rw [h] at this; simp [coreRes] at this
  | node ll le lk lr =>
    cases r with
    | leaf =>
      simp only [Tree.removeRoot]
      have := find?_paintRoot (Tree.node ll le lk lr) e.name
      rw [find?_none_of_allSib_lt hlt (Or.inr (cmp_refl _))] at this
      cases h : (Tree.node ll le lk lr).paintRoot.find? e.name with
      | none => rfl
      | some v => rw [h] at this; simp [coreRes] at this
    | node rl re rk rr =>
      simp only [Tree.removeRoot]
      cases hp : (Tree.node ll le lk lr).popMax with
      | none => have := popMax_isSome ll le lk lr; simp [hp] at this
      | some v =>
        obtain ⟨l', p, pk⟩ := v
        have sp := popMax_spec _ _ _ _ hp
        have hplt : cmp p.name e.name = .lt := (sp.allName (fun y => cmp y e.name = .lt) hlt).2
        have : cmp e.name p.name = .gt := (cmp_gt_iff _ _).mpr hplt
        simp only [Tree.find?, this]
        exact find?_none_of_allSib_gt hgt (Or.inr (cmp_refl _))

theorem find?_congr_eq {n n' : Name} (h : cmp n n' = .eq) (t : Tree) : t.find? n = t.find? n' := by
  induction t with
  | leaf => rfl
  | node a b c d iha _ ihd =>
    simp only [Tree.find?]
    rw [cmp_eq_left b.name (cmp_eq_symm h)]
    cases cmp n' b.name <;> simp [iha, ihd]

theorem find?_removeRoot_other {l r k : Tree} {e : Entry} (h : (Tree.node l e k r).OrderedSib)
    {m : Name} (hne : cmp m e.name ≠ .eq) :
    coreRes (((Tree.node l e k r).removeRoot).find? m) = coreRes ((Tree.node l e k r).find? m) := by
  obtain ⟨hl, hr, hlt, hgt⟩ := h
  cases l with
  | leaf =>
    simp only [Tree.removeRoot, find?_paintRoot]
    cases hc : cmp m e.name with
    | eq => exact absurd hc hne
    | lt => rw [find?_node_lt hc, find?_none_of_allSib_gt hgt (Or.inl hc)]; rfl
    | gt => rw [find?_node_gt hc]
  | node ll le lk lr =>
    cases r with
    | leaf =>
      simp only [Tree.removeRoot, find?_paintRoot]
      cases hc : cmp m e.name with
      | eq => exact absurd hc hne
      | lt => rw [find?_node_lt hc]
      | gt => rw [find?_node_gt hc, find?_none_of_allSib_lt hlt (Or.inl hc)]; rfl
    | node rl re rk rr =>
      simp only [Tree.removeRoot]
      cases hp : (Tree.node ll le lk lr).popMax with
      | none => have := popMax_isSome ll le lk lr; simp [hp] at this
      | some v =>
        obtain ⟨l', p, pk⟩ := v
        have sp := popMax_spec _ _ _ _ hp
        have hplt : cmp p.name e.name = .lt := (sp.allName (fun y => cmp y e.name = .lt) hlt).2
        simp only
        generalize hL : Tree.node ll le lk lr = L at *
        generalize hR : Tree.node rl re rk rr = R at *
        cases hc : cmp m e.name with
        | eq => exact absurd hc hne
        | lt =>
          rw [find?_node_lt hc]
          cases hcp : cmp m p.name with
          | eq =>
            rw [find?_node_eq (by exact hcp), find?_congr_eq hcp L, sp.found hl]
            simp [coreRes, Entry.core]
          | lt =>
            rw [find?_node_lt (by exact hcp)]
            exact sp.others hl m (by rw [hcp]; simp)
          | gt =>
            rw [find?_node_gt (by exact hcp)]
            have h1 : L.find? m = none := by
              have := sp.others hl m (by rw [hcp]; simp)
              rw [find?_none_of_allSib_lt (sp.isMax hl) (Or.inl hcp)] at this
              cases hh : L.find? m with
              | none => rfl
              | some v => rw [hh] at this; simp [coreRes] at this
            rw [h1, find?_none_of_allSib_gt hgt (Or.inl hc)]
        | gt =>
          have : cmp m p.name = .gt := cmp_trans_gt hc ((cmp_gt_iff _ _).mpr hplt)
          rw [find?_node_gt hc, find?_node_gt (by exact this)]

theorem find?_remove_self {t : Tree} (h : t.OrderedSib) (n : Name) : (t.remove n).find? n = none := by
  induction t with
  | leaf => rfl
  | node l e k r ihl _ ihr =>
    simp only [Tree.remove]
    cases hc : cmp n e.name with
    | eq =>
      simp only []
      have := find?_removeRoot_self h
      -- lookups of key-equal names coincide
      have key : ∀ (t : Tree), t.find? n = t.find? e.name := by
        intro t
        induction t with
        | leaf => rfl
        | node a b c d iha _ ihd =>
          simp only [Tree.find?]
          rw [cmp_eq_left b.name (cmp_eq_symm hc)]
          cases cmp e.name b.name <;> simp [iha, ihd]
      rw [key]; exact this
    | lt => simp only [Tree.find?, hc]; exact ihl h.1
    | gt => simp only [Tree.find?, hc]; exact ihr h.2.1

theorem find?_remove_other {t : Tree} (h : t.OrderedSib) {n m : Name} (hne : cmp m n ≠ .eq) :
    coreRes ((t.remove n).find? m) = coreRes (t.find? m) := by
  induction t with
  | leaf => rfl
  | node l e k r ihl _ ihr =>
    simp only [Tree.remove]
    cases hc : cmp n e.name with
    | eq =>
      simp only []
      apply find?_removeRoot_other h
      intro hme
      apply hne
      exact cmp_eq_trans hme (cmp_eq_symm hc)
    | lt =>
      simp only [Tree.find?]
      cases cmp m e.name <;> simp [ihl h.1]
    | gt =>
      simp only [Tree.find?]
      cases cmp m e.name <;> simp [ihr h.2.1]

end CfbVerif.Dir

namespace CfbVerif.Dir
open CfbVerif.Names

/-! ## order is preserved by removal -/

theorem orderedSib_removeRoot {t : Tree} (h : t.OrderedSib) : t.removeRoot.OrderedSib := by
  cases t with
  | leaf => trivial
  | node l e k r =>
    obtain ⟨hl, hr, hlt, hgt⟩ := h
    cases l with
    | leaf => exact orderedSib_paintRoot hr
    | node ll le lk lr =>
      cases r with
      | leaf => exact orderedSib_paintRoot hl
      | node rl re rk rr =>
        simp only [Tree.removeRoot]
        cases hp : (Tree.node ll le lk lr).popMax with
        | none => exact hr
        | some v =>
          obtain ⟨l', p, pk⟩ := v
          have sp := popMax_spec _ _ _ _ hp
          have hplt : cmp p.name e.name = .lt := (sp.allName (fun y => cmp y e.name = .lt) hlt).2
          refine ⟨sp.ordered hl, hr, sp.isMax hl, ?_⟩
          exact hgt.imp (fun x hx => cmp_trans_gt hx ((cmp_gt_iff _ _).mpr hplt))

theorem allSib_removeRoot {q : Name → Prop} {t : Tree} (h : t.AllSib (fun x => q x.name)) :
    t.removeRoot.AllSib (fun x => q x.name) := by
  cases t with
  | leaf => trivial
  | node l e k r =>
    obtain ⟨hl, he, hr⟩ := h
    cases l with
    | leaf => exact allSib_paintRoot hr
    | node ll le lk lr =>
      cases r with
      | leaf => exact allSib_paintRoot hl
      | node rl re rk rr =>
        simp only [Tree.removeRoot]
        cases hp : (Tree.node ll le lk lr).popMax with
        | none => exact hr
        | some v =>
          obtain ⟨l', p, pk⟩ := v
          have sp := popMax_spec _ _ _ _ hp
          exact ⟨(sp.allName q hl).1, (sp.allName q hl).2, hr⟩

theorem allSib_remove {q : Name → Prop} {t : Tree} (n : Name) (h : t.AllSib (fun x => q x.name)) :
    (t.remove n).AllSib (fun x => q x.name) := by
  induction t with
  | leaf => trivial
  | node l e k r ihl _ ihr =>
    simp only [Tree.remove]
    split
    · exact allSib_removeRoot h
    · exact ⟨ihl h.1, h.2.1, h.2.2⟩
    · exact ⟨h.1, h.2.1, ihr h.2.2⟩

theorem orderedSib_remove {t : Tree} (n : Name) (h : t.OrderedSib) : (t.remove n).OrderedSib := by
  induction t with
  | leaf => trivial
  | node l e k r ihl _ ihr =>
    simp only [Tree.remove]
    split
    · exact orderedSib_removeRoot h
    · exact ⟨ihl h.1, h.2.1, allSib_remove (q := fun y => cmp y e.name = .lt) n h.2.2.1, h.2.2.2⟩
    · exact ⟨h.1, ihr h.2.1, h.2.2.1, allSib_remove (q := fun y => cmp y e.name = .gt) n h.2.2.2⟩

/-! ## colours: no red node directly below a red node -/

def Tree.isRed : Tree → Bool
  | .leaf => false
  | .node _ e _ _ => !e.black

def Tree.RBSib : Tree → Prop
  | .leaf => True
  | .node l e _ r => l.RBSib ∧ r.RBSib ∧ (e.black = false → l.isRed = false ∧ r.isRed = false)

theorem isRed_paintRoot (t : Tree) : t.paintRoot.isRed = false := by
  cases t <;> simp [Tree.paintRoot, Tree.isRed]

theorem rbSib_paintRoot {t : Tree} (h : t.RBSib) : t.paintRoot.RBSib := by
  cases t with
  | leaf => trivial
  | node l e k r => exact ⟨h.1, h.2.1, fun hb => by simp at hb⟩

theorem rb_insert {t : Tree} {x : Entry} (hx : x.black = true) (h : t.RBSib) :
    (t.insert x).RBSib ∧ ((t.insert x).isRed = true → t.isRed = true) := by
  induction t with
  | leaf => exact ⟨⟨trivial, trivial, fun hb => by simp [hx] at hb⟩, by simp [Tree.insert, Tree.isRed, hx]⟩
  | node l e k r ihl _ ihr =>
    obtain ⟨hl, hr, hc⟩ := h
    simp only [Tree.insert]
    split
    · refine ⟨⟨(ihl hl).1, hr, fun hb => ⟨?_, (hc hb).2⟩⟩, fun h => h⟩
      cases hh : (l.insert x).isRed with
      | false => rfl
      | true => have := (ihl hl).2 hh; rw [(hc hb).1] at this; exact absurd this (by simp)
    · refine ⟨⟨hl, (ihr hr).1, fun hb => ⟨(hc hb).1, ?_⟩⟩, fun h => h⟩
      cases hh : (r.insert x).isRed with
      | false => rfl
      | true => have := (ihr hr).2 hh; rw [(hc hb).2] at this; exact absurd this (by simp)
    · exact ⟨⟨hl, hr, hc⟩, fun h => h⟩

theorem rb_popMax : ∀ (t t' : Tree) (p : Entry) (pk : Tree), t.popMax = some (t', p, pk) → t.RBSib →
    t'.RBSib ∧ (t'.isRed = true → t.isRed = true) := by
  intro t
  induction t with
  | leaf => intro t' p pk h; simp [Tree.popMax] at h
  | node l e k r _ _ ihr =>
    intro t' p pk h hrb
    obtain ⟨hl, hr, hc⟩ := hrb
    cases r with
    | leaf =>
      rw [popMax_leaf_right] at h
      simp only [Option.some.injEq, Prod.mk.injEq] at h
      obtain ⟨rfl, rfl, rfl⟩ := h
      exact ⟨rbSib_paintRoot hl, fun hh => by rw [isRed_paintRoot] at hh; simp at hh⟩
    | node rl re rk rr =>
      cases hp : (Tree.node rl re rk rr).popMax with
      | none => have := popMax_isSome rl re rk rr; simp [hp] at this
      | some v =>
        obtain ⟨r', p', pk'⟩ := v
        rw [popMax_node_right _ _ _ _ _ _ _ _ _ _ hp] at h
        simp only [Option.some.injEq, Prod.mk.injEq] at h
        obtain ⟨rfl, rfl, rfl⟩ := h
        have sp := ihr r' p' pk' hp hr
        refine ⟨⟨hl, sp.1, fun hb => ⟨(hc hb).1, ?_⟩⟩, fun h => h⟩
        cases hh : r'.isRed with
        | false => rfl
        | true => have := sp.2 hh; rw [(hc hb).2] at this; exact absurd this (by simp)

theorem rb_removeRoot {t : Tree} (h : t.RBSib) :
    t.removeRoot.RBSib ∧ (t.removeRoot.isRed = true → t.isRed = true) := by
  cases t with
  | leaf => exact ⟨trivial, fun h => h⟩
  | node l e k r =>
    obtain ⟨hl, hr, hc⟩ := h
    cases l with
    | leaf => exact ⟨rbSib_paintRoot hr, fun hh => by simp [Tree.removeRoot, isRed_paintRoot] at hh⟩
    | node ll le lk lr =>
      cases r with
      | leaf => exact ⟨rbSib_paintRoot hl, fun hh => by simp [Tree.removeRoot, isRed_paintRoot] at hh⟩
      | node rl re rk rr =>
        simp only [Tree.removeRoot]
        cases hp : (Tree.node ll le lk lr).popMax with
        | none => have := popMax_isSome ll le lk lr; simp [hp] at this
        | some v =>
          obtain ⟨l', p, pk⟩ := v
          have sp := rb_popMax _ _ _ _ hp hl
          refine ⟨⟨sp.1, hr, fun hb => ⟨?_, (hc hb).2⟩⟩, fun hh => by simpa [Tree.isRed] using hh⟩
          cases hh : l'.isRed with
          | false => rfl
          | true => have := sp.2 hh; rw [(hc hb).1] at this; exact absurd this (by simp)

/-- **removal never creates two adjacent red nodes**, whatever (valid) colouring the file had -/
theorem rb_remove {t : Tree} (n : Name) (h : t.RBSib) :
    (t.remove n).RBSib ∧ ((t.remove n).isRed = true → t.isRed = true) := by
  induction t with
  | leaf => exact ⟨trivial, fun h => h⟩
  | node l e k r ihl _ ihr =>
    simp only [Tree.remove]
    split
    · exact rb_removeRoot h
    · obtain ⟨hl, hr, hc⟩ := h
      refine ⟨⟨(ihl hl).1, hr, fun hb => ⟨?_, (hc hb).2⟩⟩, fun h => h⟩
      cases hh : (l.remove n).isRed with
      | false => rfl
      | true => have := (ihl hl).2 hh; rw [(hc hb).1] at this; exact absurd this (by simp)
    · obtain ⟨hl, hr, hc⟩ := h
      refine ⟨⟨hl, (ihr hr).1, fun hb => ⟨(hc hb).1, ?_⟩⟩, fun h => h⟩
      cases hh : (r.remove n).isRed with
      | false => rfl
      | true => have := (ihr hr).2 hh; rw [(hc hb).2] at this; exact absurd this (by simp)

end CfbVerif.Dir
