import CfbVerif.Dir.Bst
/-!
# The `Entries` iterator is the in-order / pre-order traversal

`entry.rs` walks the sibling trees with an explicit stack (`stack_left_spine` + `next`).  Here the
stack machine of the model (`Dir.iterate`) is shown to produce exactly the recursive traversal
`full`, so listings are in-order per storage and `walk` is pre-order over storages.
-/
set_option linter.unusedSimpArgs false
set_option linter.unusedVariables false
namespace CfbVerif.Dir
open CfbVerif.Names

/-- the traversal as a recursive function: siblings in order; with `pre`, a storage's children
directly after the storage -/
def full (pre : Bool) (parent : List Nat) : Tree → List Info
  | .leaf => []
  | .node l e k r =>
    full pre parent l ++ [infoOf (joinPath parent e.name) e] ++
      (if pre && !e.isStream then full pre (joinPath parent e.name) k else []) ++ full pre parent r

/-- what one pending stack item still has to yield -/
def outItem (pre : Bool) (it : Item) : List Info :=
  match it.node with
  | .leaf => []
  | .node _ e k r =>
    [infoOf (joinPath it.parent e.name) e] ++
      (if pre && !e.isStream then full pre (joinPath it.parent e.name) k else []) ++
      (if it.visitSiblings then full pre it.parent r else [])

def outs (pre : Bool) (st : List Item) : List Info := st.flatMap (outItem pre)

theorem outs_leftSpine (pre : Bool) (parent : List Nat) (t : Tree) (st : List Item) :
    outs pre (leftSpine parent t st) = full pre parent t ++ outs pre st := by
  induction t generalizing st with
  | leaf => simp [leftSpine, full]
  | node l e k r ihl _ _ =>
    simp only [leftSpine, ihl, full]
    simp [outs, outItem, List.append_assoc]

theorem flatMap_leftSpine (pre : Bool) (parent : List Nat) (t : Tree) (st : List Item) :
    List.flatMap (outItem pre) (leftSpine parent t st) = full pre parent t ++ List.flatMap (outItem pre) st :=
  outs_leftSpine pre parent t st

def NonLeaf (st : List Item) : Prop := ∀ it ∈ st, it.node ≠ .leaf

theorem nonLeaf_leftSpine (parent : List Nat) (t : Tree) (st : List Item) (h : NonLeaf st) :
    NonLeaf (leftSpine parent t st) := by
  induction t generalizing st with
  | leaf => exact h
  | node l e k r ihl _ _ =>
    simp only [leftSpine]
    apply ihl
    intro it hit
    rcases List.mem_cons.mp hit with rfl | h'
    · simp
    · exact h it h'

theorem iterate_eq (pre : Bool) (fuel : Nat) : ∀ (st : List Item) (acc : List Info),
    NonLeaf st → (outs pre st).length ≤ fuel →
    iterate pre fuel st acc = acc.reverse ++ outs pre st := by
  induction fuel with
  | zero =>
    intro st acc hn hl
    cases st with
    | nil => simp [iterate, outs]
    | cons it st =>
      exfalso
      have := hn it (by simp)
      cases hnode : it.node with
      | leaf => exact this hnode
      | node l e k r => simp [outs, outItem, hnode] at hl
  | succ fuel ih =>
    intro st acc hn hl
    cases st with
    | nil => simp [iterate, outs]
    | cons it st =>
      have hnl := hn it (by simp)
      have hn' : NonLeaf st := fun x hx => hn x (by simp [hx])
      cases hnode : it.node with
      | leaf => exact absurd hnode hnl
      | node l e k r =>
        simp only [iterate, hnode]
        have hstep : outs pre (it :: st) = infoOf (joinPath it.parent e.name) e ::
            outs pre (if (pre && !e.isStream) = true then
              leftSpine (joinPath it.parent e.name) k (if it.visitSiblings = true then leftSpine it.parent r st else st)
              else (if it.visitSiblings = true then leftSpine it.parent r st else st)) := by
          simp only [outs, List.flatMap_cons, outItem, hnode]
          by_cases h1 : (pre && !e.isStream) = true <;> by_cases h2 : it.visitSiblings = true <;>
            simp [h1, h2, flatMap_leftSpine, List.append_assoc]
        rw [hstep] at hl ⊢
        rw [ih]
        · simp
        · by_cases h1 : (pre && !e.isStream) = true <;> by_cases h2 : it.visitSiblings = true <;>
            simp only [h1, h2, if_true, if_false] <;>
            first
              | exact hn'
              | exact nonLeaf_leftSpine _ _ _ hn'
              | exact nonLeaf_leftSpine _ _ _ (nonLeaf_leftSpine _ _ _ hn')
        · simp only [List.length_cons] at hl; omega

theorem full_length_le (pre : Bool) (parent : List Nat) (t : Tree) : (full pre parent t).length ≤ t.size := by
  induction t generalizing parent with
  | leaf => simp [full, Tree.size]
  | node l e k r ihl ihk ihr =>
    simp only [full, Tree.size, List.length_append, List.length_cons, List.length_nil]
    have := ihl parent; have := ihr parent; have := ihk (joinPath parent e.name)
    split <;> simp <;> omega

/-- `read_storage` lists the children in order -/
theorem listKids_eq (parent : List Nat) (kids : Tree) : listKids parent kids = full false parent kids := by
  unfold listKids
  rw [iterate_eq false _ _ _ (nonLeaf_leftSpine _ _ _ (fun _ h => by simp at h))]
  · rw [outs_leftSpine]; simp [outs]
  · rw [outs_leftSpine]; simp only [outs, List.flatMap_nil, List.append_nil]
    have := full_length_le false parent kids; omega

/-- `walk_storage` yields the entry, then its subtree in pre-order -/
theorem walkFrom_eq (parentPath : List Nat) (e : Entry) (kids : Tree) :
    walkFrom parentPath e kids = infoOf (joinPath parentPath e.name) e ::
      (if e.isStream then [] else full true (joinPath parentPath e.name) kids) := by
  unfold walkFrom
  rw [iterate_eq true _ _ _ (by intro it hit; simp at hit; subst hit; simp)]
  · cases hs : e.isStream <;> simp [outs, outItem, hs]
  · simp only [outs, List.flatMap_cons, List.flatMap_nil, outItem, List.append_nil, Tree.size]
    have := full_length_le true (joinPath parentPath e.name) kids
    split <;> simp <;> omega

/-- `walk` yields the root, then everything in pre-order -/
theorem walkAll_eq (s : State) : walkAll s = rootInfo s [slash] :: full true [slash] s.top := by
  unfold walkAll
  rw [iterate_eq true _ _ _ (nonLeaf_leftSpine _ _ _ (fun _ h => by simp at h))]
  · rw [outs_leftSpine]; simp [outs]
  · rw [outs_leftSpine]; simp only [outs, List.flatMap_nil, List.append_nil]
    have := full_length_le true [slash] s.top; omega

end CfbVerif.Dir
