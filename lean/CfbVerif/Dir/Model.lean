import CfbVerif.Names.Model
import CfbVerif.Handle.Model
/-!
# `Dir`: the directory tree and the path-level API (directory.rs, entry.rs, lib.rs:211-1123)

The directory is modelled at *meaning level*: each storage's children are a binary search tree
(`Tree`), a node carries its directory slot (`stream_id`), name, colour, metadata, and — for a
stream — its bytes; for a storage its children tree.  Sibling/child links of the on-disk table are
the tree edges; `dirtable` renders them back to slot numbers so that the lock-step can compare the
model with the library's in-memory `dir_entries` row by row (level D).

What is *not* here: sectors, FAT, mini stream — a stream's content is a byte list.  That the chain
layer stores and returns those bytes is checked by lock-step (`get`/`snap`) and is the business of
the allocation model.
-/
namespace CfbVerif.Dir
open CfbVerif.Names

abbrev Bytes := List UInt8

structure Meta where
  clsid : Bytes
  bits : Nat
  ctime : Nat
  mtime : Nat
deriving Repr, DecidableEq

def nilClsid : Bytes := List.replicate 16 0
def Meta.blank : Meta := ⟨nilClsid, 0, 0, 0⟩

structure Entry where
  slot : Nat
  name : Name
  isStream : Bool
  black : Bool
  md : Meta
  content : Bytes
deriving Repr, DecidableEq

inductive Tree where
  | leaf
  | node (l : Tree) (e : Entry) (kids : Tree) (r : Tree)
deriving Repr, DecidableEq

/-- the comparator of the library -/
def cmp (a b : Name) : Ordering := cmpNames Gen.upper a b

/-- the instant the harness pins new storages to (see harness/src/api.rs `PIN_TS`) -/
def PIN_TS : Nat := 132000000000000000

/-! ## one sibling tree -/

/-- BST descent of `stream_id_for_name_chain` / `remove_dir_entry` -/
def Tree.find? : Tree → Name → Option (Entry × Tree)
  | .leaf, _ => none
  | .node l e k r, n =>
    match cmp n e.name with
    | .eq => some (e, k)
    | .lt => l.find? n
    | .gt => r.find? n

/-- `insert_dir_entry`: leaf insertion (the library does not rebalance).  Inserting a name that is
already present is an internal error in the library (`panic!`); every API path excludes it. -/
def Tree.insert : Tree → Entry → Tree
  | .leaf, x => .node .leaf x .leaf .leaf
  | .node l e k r, x =>
    match cmp x.name e.name with
    | .lt => .node (l.insert x) e k r
    | .gt => .node l e k (r.insert x)
    | .eq => .node l e k r

/-- `paint_black` of the root of a subtree that moves up -/
def Tree.paintRoot : Tree → Tree
  | .leaf => .leaf
  | .node l e k r => .node l { e with black := true } k r

/-- remove the in-order last node; its left subtree (painted black) takes its place -/
def Tree.popMax : Tree → Option (Tree × Entry × Tree)
  | .leaf => none
  | .node l e k r =>
    match r.popMax with
    | none => some (l.paintRoot, e, k)
    | some (r', p, pk) => some (.node l e k r', p, pk)

/-- the node at the root of `t` is taken out (`remove_dir_entry` after the descent) -/
def Tree.removeRoot : Tree → Tree
  | .leaf => .leaf
  | .node .leaf _ _ r => r.paintRoot
  | .node l@(.node _ _ _ _) _ _ .leaf => l.paintRoot
  | .node l@(.node _ _ _ _) x _ r@(.node _ _ _ _) =>
    match l.popMax with
    | none => r
    | some (l', p, pk) => .node l' { p with black := x.black } pk r

/-- `remove_dir_entry(parent, name)` on the parent's children tree -/
def Tree.remove : Tree → Name → Tree
  | .leaf, _ => .leaf
  | .node l e k r, n =>
    match cmp n e.name with
    | .eq => (Tree.node l e k r).removeRoot
    | .lt => .node (l.remove n) e k r
    | .gt => .node l e k (r.remove n)

/-- replace entry and children of the node named `n` -/
def Tree.update : Tree → Name → (Entry → Tree → Entry × Tree) → Tree
  | .leaf, _, _ => .leaf
  | .node l e k r, n, f =>
    match cmp n e.name with
    | .eq => let (e', k') := f e k; .node l e' k' r
    | .lt => .node (l.update n f) e k r
    | .gt => .node l e k (r.update n f)

def Tree.inorder : Tree → List (Entry × Tree)
  | .leaf => []
  | .node l e k r => l.inorder ++ [(e, k)] ++ r.inorder

def Tree.size : Tree → Nat
  | .leaf => 0
  | .node l _ k r => l.size + 1 + k.size + r.size

def Tree.slots : Tree → List Nat
  | .leaf => []
  | .node l e k r => l.slots ++ [e.slot] ++ k.slots ++ r.slots

def Tree.rootSlot : Tree → Int
  | .leaf => -1
  | .node _ e _ _ => e.slot

/-! ## nested paths -/

inductive Res where
  | root
  | ent (e : Entry) (kids : Tree)
deriving Repr

/-- `stream_id_for_name_chain` -/
def resolve : Tree → List Name → Option Res
  | _, [] => some .root
  | t, [n] => (t.find? n).map (fun (e, k) => .ent e k)
  | t, n :: ns => match t.find? n with
    | none => none
    | some (_, k) => resolve k ns

/-- apply `f` to the children tree of the storage at `path` (the root's children for `[]`) -/
def modifyKids : Tree → List Name → (Tree → Tree) → Tree
  | t, [], f => f t
  | t, n :: ns, f => t.update n (fun e k => (e, modifyKids k ns f))

/-- apply `f` to the entry (and children) at a non-empty path -/
def modifyEntry : Tree → List Name → (Entry → Tree → Entry × Tree) → Tree
  | t, [], _ => t
  | t, [n], f => t.update n f
  | t, n :: ns, f => t.update n (fun e k => (e, modifyEntry k ns f))

/-! ## state and slot allocation -/

/-- the format version does not occur: it only selects sector sizes, which are below this model -/
structure State where
  rootMeta : Meta
  top : Tree
deriving Repr

def State.create : State := ⟨Meta.blank, .leaf⟩

/-- `allocate_dir_entry`: the first unallocated slot, else a new one — the least slot number not
in use (slot 0 is the root) -/
def freshSlotFrom (used : List Nat) : Nat → Nat → Nat
  | 0, c => c
  | fuel + 1, c => if used.contains c then freshSlotFrom used fuel (c + 1) else c

def freshSlot (t : Tree) : Nat := freshSlotFrom t.slots (t.slots.length + 1) 1

/-! ## paths as strings -/

def slash : Nat := 47

/-- `path_from_name_chain` -/
def pathOfChain (names : List Name) : List Nat :=
  slash :: (names.intersperse [slash]).flatten

/-- `PathBuf::join` for a relative, slash-free component -/
def joinPath (parent : List Nat) (name : Name) : List Nat :=
  if parent.getLast? = some slash then parent ++ name else parent ++ [slash] ++ name

def rootName : Name := Gen.ROOT_DIR_NAME.toList.map Char.toNat

/-! ## results -/

inductive Err | notFound | alreadyExists | invalidInput
deriving Repr, DecidableEq

inductive Kind | root | storage | stream
deriving Repr, DecidableEq

/-- what `Entry` exposes -/
structure Info where
  name : Name
  path : List Nat
  kind : Kind
  len : Nat
  md : Meta
deriving Repr, DecidableEq

def infoOf (path : List Nat) (e : Entry) : Info :=
  if e.isStream then ⟨e.name, path, .stream, e.content.length, ⟨nilClsid, e.md.bits, 0, 0⟩⟩
  else ⟨e.name, path, .storage, 0, e.md⟩

def rootInfo (s : State) (path : List Nat) : Info := ⟨rootName, path, .root, 0, s.rootMeta⟩

inductive Out
  | ok
  | bool (b : Bool)
  | info (i : Info)
  | infos (l : List Info)
  | bytes (b : Bytes)
  | num (n : Nat)
  | err (e : Err)
deriving Repr, DecidableEq

/-! ## the `Entries` iterator (entry.rs:131-181) as the explicit stack machine it is -/

structure Item where
  parent : List Nat
  node : Tree
  visitSiblings : Bool

/-- `stack_left_spine` -/
def leftSpine (parent : List Nat) : Tree → List Item → List Item
  | .leaf, st => st
  | t@(.node l _ _ _), st => leftSpine parent l (⟨parent, t, true⟩ :: st)

/-- `Entries::next`, run to exhaustion; `fuel` bounds the number of yielded entries -/
def iterate (preorder : Bool) : Nat → List Item → List Info → List Info
  | 0, _, acc => acc.reverse
  | _ + 1, [], acc => acc.reverse
  | fuel + 1, it :: st, acc =>
    match it.node with
    | .leaf => iterate preorder fuel st acc
    | .node _ e k r =>
      let path := joinPath it.parent e.name
      let st1 := if it.visitSiblings then leftSpine it.parent r st else st
      let st2 := if preorder && !e.isStream then leftSpine path k st1 else st1
      iterate preorder fuel st2 (infoOf path e :: acc)

/-- `read_storage`: the children of one storage, in order -/
def listKids (parent : List Nat) (kids : Tree) : List Info :=
  iterate false (kids.size + 1) (leftSpine parent kids []) []

/-- `walk_storage` from an entry: the entry itself, then everything below it, in pre-order -/
def walkFrom (parentPath : List Nat) (e : Entry) (kids : Tree) : List Info :=
  iterate true ((Tree.node .leaf e kids .leaf).size + 1)
    [⟨parentPath, .node .leaf e kids .leaf, false⟩] []

/-- `walk`: the root, then everything -/
def walkAll (s : State) : List Info :=
  rootInfo s [slash] :: iterate true (s.top.size + 1) (leftSpine [slash] s.top []) []

/-! ## the API (lib.rs) -/

def validChain (names : List Name) : Bool := names.all validateName

def newEntry (slot : Nat) (name : Name) (isStream : Bool) : Entry :=
  { slot := slot, name := name, isStream := isStream, black := true,
    md := if isStream then Meta.blank else ⟨nilClsid, 0, PIN_TS, PIN_TS⟩, content := [] }

/-- the entry `insert_dir_entry` writes, with the bytes a following `write_all` puts into it -/
def mkEntry (slot : Nat) (name : Name) (stream : Option (Bool × Bytes)) : Entry :=
  { newEntry slot name stream.isSome with content := (stream.map (·.2)).getD [] }

def isStreamRes : Res → Bool
  | .root => false
  | .ent e _ => e.isStream

/-- `create_storage_with_path` / `create_stream_with_path` after the chain is known.
`content = none`: a storage; `some (overwrite, data)`: a stream that ends up holding `data`
(`create_stream` + `write_all` + drop, or just created/truncated when `data = []`). -/
def createAt (s : State) (names : List Name) (stream : Option (Bool × Bytes)) : State × Out :=
  if !validChain names then (s, .err .invalidInput) else
  match resolve s.top names with
  | some r =>
    match stream with
    | none => (s, .err .alreadyExists)
    | some (overwrite, data) =>
      if !isStreamRes r then (s, .err .alreadyExists)
      else if !overwrite then (s, .err .alreadyExists)
      else ({ s with top := modifyEntry s.top names (fun e k => ({ e with content := data }, k)) }, .ok)
  | none =>
    match names.reverse with
    | [] => (s, .err .alreadyExists)   -- unreachable: the root always resolves
    | name :: revParent =>
      let parent := revParent.reverse
      match resolve s.top parent with
      | none => (s, .err .notFound)
      | some r =>
        if isStreamRes r then (s, .err .notFound) else
        ({ s with top := modifyKids s.top parent (fun t => t.insert (mkEntry (freshSlot s.top) name stream)) }, .ok)

/-- `is_storage` on an already parsed chain -/
def isStorageAt (t : Tree) (names : List Name) : Bool :=
  match resolve t names with
  | some r => !isStreamRes r
  | none => false

/-- `create_storage_all_with_path` -/
def createAll (s : State) (names : List Name) : State × Out :=
  if !validChain names then (s, .err .invalidInput) else
  let rec go (s : State) : List (List Name) → State × Out
    | [] => (s, .ok)
    | pre :: rest =>
      if isStorageAt s.top pre then go s rest else
      match createAt s pre none with
      | (s', .ok) => go s' rest
      | (s', o) => (s', o)
  go s ((List.range names.length).map (fun i => names.take (i + 1)))

/-- `remove_stream_with_path` / `remove_storage_with_path` -/
def removeAt (s : State) (names : List Name) (wantStream : Bool) : State × Out :=
  match resolve s.top names with
  | none => (s, .err .notFound)
  | some .root => (s, .err .invalidInput)
  | some (.ent e k) =>
    if wantStream then
      if !e.isStream then (s, .err .invalidInput) else
      let parent := names.dropLast
      match names.getLast? with
      | none => (s, .err .invalidInput)
      | some name => ({ s with top := modifyKids s.top parent (fun t => t.remove name) }, .ok)
    else
      if e.isStream then (s, .err .invalidInput)
      else if k != .leaf then (s, .err .invalidInput)
      else
        let parent := names.dropLast
        match names.getLast? with
        | none => (s, .err .invalidInput)
        | some name => ({ s with top := modifyKids s.top parent (fun t => t.remove name) }, .ok)

def walkOf (s : State) (names : List Name) : Option (List Info) :=
  match resolve s.top names with
  | none => none
  | some .root => some (walkAll s)
  | some (.ent e k) => some (walkFrom (pathOfChain names.dropLast) e k)

/-- `remove_storage_all_with_path`: collect the walk, then remove from the end -/
def removeAll (s : State) (names : List Name) : State × Out :=
  match walkOf s names with
  | none => (s, .err .notFound)
  | some infos =>
    let rec go (s : State) : List Info → State × Out
      | [] => (s, .ok)
      | i :: rest =>
        if i.kind = .root then go s rest else
        match nameChain i.path with
        | none => (s, .err .invalidInput)
        | some ch =>
          match removeAt s ch (i.kind = .stream) with
          | (s', .ok) => go s' rest
          | (s', o) => (s', o)
    go s infos.reverse

inductive MetaOp
  | bits (b : Nat)
  | clsid (c : Bytes)
  | ctime (t : Nat)
  | mtime (t : Nat)
deriving Repr

def applyMeta (m : Meta) (isStream : Bool) : MetaOp → Meta
  | .bits b => { m with bits := b }
  | .clsid c => { m with clsid := c }
  | .ctime t => if isStream then m else { m with ctime := t }
  | .mtime t => if isStream then m else { m with mtime := t }

/-- `set_state_bits`, `set_storage_clsid`, `set_created_time`, `set_modified_time` -/
def setMeta (s : State) (names : List Name) (op : MetaOp) : State × Out :=
  match resolve s.top names with
  | none => (s, .err .notFound)
  | some .root =>
    ({ s with rootMeta := applyMeta s.rootMeta false op }, .ok)
  | some (.ent e _) =>
    match op with
    | .clsid _ => if e.isStream then (s, .err .invalidInput) else
        ({ s with top := modifyEntry s.top names (fun e k => ({ e with md := applyMeta e.md e.isStream op }, k)) }, .ok)
    | _ => ({ s with top := modifyEntry s.top names (fun e k => ({ e with md := applyMeta e.md e.isStream op }, k)) }, .ok)

inductive Op
  | mkdir (p : List Nat) | mkdirs (p : List Nat)
  | mkstream (p : List Nat) | mknew (p : List Nat) | put (p : List Nat) (data : Bytes)
  | get (p : List Nat) | open_ (p : List Nat)
  | rm (p : List Nat) | rmdir (p : List Nat) | rmall (p : List Nat)
  | exists_ (p : List Nat) | isStream (p : List Nat) | isStorage (p : List Nat)
  | entry (p : List Nat) | rootEntry
  | ls (p : List Nat) | lsRoot | walk | walkFrom (p : List Nat)
  | setMeta (p : List Nat) (m : MetaOp)
  | reopen | flush
deriving Repr

def step (s : State) : Op → State × Out
  | .mkdir p => match nameChain p with
    | none => (s, .err .invalidInput)
    | some ch => createAt s ch none
  | .mkdirs p => match nameChain p with
    | none => (s, .err .invalidInput)
    | some ch => createAll s ch
  | .mkstream p => match nameChain p with
    | none => (s, .err .invalidInput)
    | some ch => createAt s ch (some (true, []))
  | .mknew p => match nameChain p with
    | none => (s, .err .invalidInput)
    | some ch => createAt s ch (some (false, []))
  | .put p d => match nameChain p with
    | none => (s, .err .invalidInput)
    | some ch => createAt s ch (some (true, d))
  | .get p => match nameChain p with
    | none => (s, .err .invalidInput)
    | some ch => match resolve s.top ch with
      | none => (s, .err .notFound)
      | some .root => (s, .err .invalidInput)
      | some (.ent e _) => if e.isStream then (s, .bytes e.content) else (s, .err .invalidInput)
  | .open_ p => match nameChain p with
    | none => (s, .err .invalidInput)
    | some ch => match resolve s.top ch with
      | none => (s, .err .notFound)
      | some .root => (s, .err .invalidInput)
      | some (.ent e _) => if e.isStream then (s, .num e.content.length) else (s, .err .invalidInput)
  | .rm p => match nameChain p with
    | none => (s, .err .invalidInput)
    | some ch => removeAt s ch true
  | .rmdir p => match nameChain p with
    | none => (s, .err .invalidInput)
    | some ch => removeAt s ch false
  | .rmall p => match nameChain p with
    | none => (s, .err .invalidInput)
    | some ch => removeAll s ch
  | .exists_ p => match nameChain p with
    | none => (s, .bool false)
    | some ch => (s, .bool (resolve s.top ch).isSome)
  | .isStream p => match nameChain p with
    | none => (s, .bool false)
    | some ch => (s, .bool (match resolve s.top ch with | some r => isStreamRes r | none => false))
  | .isStorage p => match nameChain p with
    | none => (s, .bool false)
    | some ch => (s, .bool (match resolve s.top ch with | some r => !isStreamRes r | none => false))
  | .entry p => match nameChain p with
    | none => (s, .err .invalidInput)
    | some ch => match resolve s.top ch with
      | none => (s, .err .notFound)
      | some .root => (s, .info (rootInfo s (pathOfChain ch)))
      | some (.ent e _) => (s, .info (infoOf (pathOfChain ch) e))
  | .rootEntry => (s, .info (rootInfo s [slash]))
  | .ls p => match nameChain p with
    | none => (s, .err .invalidInput)
    | some ch => match resolve s.top ch with
      | none => (s, .err .notFound)
      | some .root => (s, .infos (listKids (pathOfChain ch) s.top))
      | some (.ent e k) => if e.isStream then (s, .err .invalidInput) else (s, .infos (listKids (pathOfChain ch) k))
  | .lsRoot => (s, .infos (listKids [slash] s.top))
  | .walk => (s, .infos (walkAll s))
  | .walkFrom p => match nameChain p with
    | none => (s, .err .invalidInput)
    | some ch => match walkOf s ch with
      | none => (s, .err .notFound)
      | some l => (s, .infos l)
  | .setMeta p m => match nameChain p with
    | none => (s, .err .invalidInput)
    | some ch => setMeta s ch m
  | .reopen => (s, .ok)
  | .flush => (s, .ok)

/-! ## the directory table (level D of the lock-step) -/

structure Row where
  slot : Nat
  name : Name
  typ : Nat
  black : Bool
  left : Int
  right : Int
  child : Int
  len : Nat
  md : Meta

def Tree.rows : Tree → List Row
  | .leaf => []
  | .node l e k r =>
    l.rows ++ [{ slot := e.slot, name := e.name,
                 typ := if e.isStream then Gen.OBJ_TYPE_STREAM else Gen.OBJ_TYPE_STORAGE,
                 black := e.black, left := l.rootSlot, right := r.rootSlot, child := k.rootSlot,
                 len := e.content.length, md := if e.isStream then ⟨nilClsid, e.md.bits, 0, 0⟩ else e.md }]
      ++ k.rows ++ r.rows

def dirtable (s : State) : List Row :=
  { slot := 0, name := rootName, typ := Gen.OBJ_TYPE_ROOT, black := true, left := -1, right := -1,
    child := s.top.rootSlot, len := 0, md := s.rootMeta } :: s.top.rows

end CfbVerif.Dir
