import CfbVerif.Dir.Wf
/-!
# The abstract model: a partial map from case-insensitive paths to objects

`PMap` is the abstract tree of the property text, presented as the partial function from paths
(lists of names, compared up to case with `PathEq`) to what lives there.  The relations below are
the abstract model's transitions; `Props/C01.lean` proves that the directory model (`Dir.step`)
realises them.
-/
set_option linter.unusedSimpArgs false
set_option linter.unusedVariables false
namespace CfbVerif.Dir
open CfbVerif.Names

abbrev PMap := List Name → Option View

def View.isStream : View → Bool
  | .root => false
  | .ent e => e.isStream

/-- `M'` is `M` except at path `p`, where it holds `v` -/
def PMap.UpdatedAt (M M' : PMap) (p : List Name) (v : Option View) : Prop :=
  (∀ q, ¬ PathEq q p → M' q = M q) ∧ M' p = v

/-- creating a storage (`stream = none`) or a stream holding `data` (`some (overwrite, data)`) -/
inductive CreateSpec (M M' : PMap) (names : List Name) (stream : Option (Bool × Bytes)) : Out → Prop
  | invalidName : validChain names = false → M' = M → CreateSpec M M' names stream (.err .invalidInput)
  | alreadyExists (v : View) : validChain names = true → M names = some v →
      (stream = none ∨ v.isStream = false ∨ ∃ d, stream = some (false, d)) → M' = M →
      CreateSpec M M' names stream (.err .alreadyExists)
  | overwritten (e : Entry) (d : Bytes) : validChain names = true → M names = some (.ent e) →
      e.isStream = true → stream = some (true, d) →
      PMap.UpdatedAt M M' names (some (.ent { e with content := d })) →
      CreateSpec M M' names stream .ok
  | noParent : validChain names = true → M names = none →
      (∀ parent name, names = parent ++ [name] → M parent = none ∨ ∃ v, M parent = some v ∧ v.isStream = true) →
      M' = M → CreateSpec M M' names stream (.err .notFound)
  | created (parent : List Name) (name : Name) (x : Entry) (pv : View) :
      validChain names = true → M names = none → names = parent ++ [name] →
      M parent = some pv → pv.isStream = false →
      x.name = name → x.isStream = stream.isSome → x.content = (stream.map (·.2)).getD [] →
      x.md = (if stream.isSome then Meta.blank else ⟨nilClsid, 0, PIN_TS, PIN_TS⟩) →
      PMap.UpdatedAt M M' names (some (.ent x.core)) →
      CreateSpec M M' names stream .ok

/-- removing a stream (`wantStream`) or an empty storage -/
inductive RemoveSpec (M M' : PMap) (names : List Name) (wantStream : Bool) (noKids : Prop) : Out → Prop
  | missing : M names = none → M' = M → RemoveSpec M M' names wantStream noKids (.err .notFound)
  | isRoot : M names = some .root → M' = M → RemoveSpec M M' names wantStream noKids (.err .invalidInput)
  | wrongType (e : Entry) : M names = some (.ent e) → e.isStream ≠ wantStream → M' = M →
      RemoveSpec M M' names wantStream noKids (.err .invalidInput)
  | notEmpty (e : Entry) : M names = some (.ent e) → e.isStream = false → wantStream = false → ¬ noKids →
      M' = M → RemoveSpec M M' names wantStream noKids (.err .invalidInput)
  | removed (e : Entry) : M names = some (.ent e) → e.isStream = wantStream → (wantStream = false → noKids) →
      PMap.UpdatedAt M M' names none → RemoveSpec M M' names wantStream noKids .ok

theorem resolve_cons_ne_root (t : Tree) (n : Name) (ns : List Name) : resolve t (n :: ns) ≠ some .root := by
  induction ns generalizing t n with
  | nil => rw [resolve_cons]; cases t.find? n with
    | none => simp
    | some v => obtain ⟨e, k⟩ := v; simp
  | cons m ms ih =>
    rw [resolve_cons]
    cases t.find? n with
    | none => simp
    | some v => obtain ⟨e, k⟩ := v; simp only [List.cons_ne_nil, if_false]; exact ih k m

/-- the children tree of whatever a path resolves to -/
theorem kidsAt_eq (P : List Name) : ∀ (t : Tree), kidsAt t P = match resolve t P with
    | none => none
    | some .root => some t
    | some (.ent _ k) => some k := by
  induction P with
  | nil => intro t; rfl
  | cons p ps ih =>
    intro t
    rw [resolve_cons]
    simp only [kidsAt]
    cases t.find? p with
    | none => rfl
    | some v =>
      obtain ⟨e, k⟩ := v
      simp only
      cases ps with
      | nil => simp [kidsAt]
      | cons q qs =>
        simp only [List.cons_ne_nil, if_false]
        rw [ih k]
        have := resolve_cons_ne_root k q qs
        cases h : resolve k (q :: qs) with
        | none => rfl
        | some r => cases r with
          | root => exact absurd h this
          | ent _ _ => rfl

/-- resolving a path = finding its last name among the children of its parent -/
theorem resolve_snoc (P : List Name) (n : Name) : ∀ (t : Tree),
    resolve t (P ++ [n]) = (kidsAt t P).bind (fun K => (K.find? n).map (fun (e, k) => Res.ent e k)) := by
  induction P with
  | nil =>
    intro t
    simp only [List.nil_append, kidsAt, Option.bind_some]
    rw [resolve_cons]
    cases t.find? n with
    | none => rfl
    | some v => obtain ⟨e, k⟩ := v; simp
  | cons p ps ih =>
    intro t
    simp only [List.cons_append, kidsAt]
    rw [resolve_cons]
    cases t.find? p with
    | none => rfl
    | some v =>
      obtain ⟨e, k⟩ := v
      have : ps ++ [n] ≠ [] := by simp
      simp only [this, if_false]
      exact ih k

theorem view_eq_none_iff (t : Tree) (q : List Name) : view t q = none ↔ resolve t q = none := by
  simp [view]

end CfbVerif.Dir
