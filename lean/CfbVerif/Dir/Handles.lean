import CfbVerif.Dir.Model
/-!
# Open stream handles over the directory model (C07)

A `Stream` refers to its directory entry by *slot* (`stream_id`), for its whole life.  The handle
itself is the window state machine of `CfbVerif.Handle`; its flushed store is the `content` of the
entry that currently sits in that slot.
-/
namespace CfbVerif.Dir
open CfbVerif.Names

structure HandleRec where
  id : Nat
  slot : Nat
  h : Handle.H
deriving Repr

structure SState where
  base : State
  handles : List HandleRec
  maxBuf : Nat
deriving Repr

/-- the stream bytes stored in the entry at `slot` (`none`: no allocated stream entry there) -/
def Tree.contentOfSlot : Tree → Nat → Option Bytes
  | .leaf, _ => none
  | .node l e k r, s =>
    if e.slot = s then (if e.isStream then some e.content else none)
    else match l.contentOfSlot s with
      | some c => some c
      | none => match k.contentOfSlot s with
        | some c => some c
        | none => r.contentOfSlot s

/-- `with_dir_entry_mut(stream_id, …)` restricted to the stream bytes -/
def Tree.setContentOfSlot : Tree → Nat → Bytes → Tree
  | .leaf, _, _ => .leaf
  | .node l e k r, s, c =>
    .node (l.setContentOfSlot s c) (if e.slot = s then { e with content := c } else e)
      (k.setContentOfSlot s c) (r.setContentOfSlot s c)

inductive HOp
  | hopen (id : Nat) (p : List Nat)
  | hcreate (id : Nat) (p : List Nat) (overwrite : Bool)
  | hwrite (id : Nat) (bs : Bytes)
  | hread (id : Nat) (n : Nat)
  | hseek (id : Nat) (n : Nat)
  | hsetlen (id : Nat) (n : Nat)
  | hflush (id : Nat)
  | hlen (id : Nat)
  | hclose (id : Nat)
  | base (op : Op)
deriving Repr

inductive HOut
  | base (o : Out)
  | noHandle
deriving Repr

def findHandle (hs : List HandleRec) (id : Nat) : Option HandleRec := hs.find? (·.id == id)

def putHandle (hs : List HandleRec) (r : HandleRec) : List HandleRec :=
  r :: hs.filter (·.id != r.id)

/-- run a handle operation `f` on handle `id` against the entry in its slot -/
def withHandle (s : SState) (id : Nat)
    (f : Handle.H → Handle.Bytes → Handle.H × Handle.Bytes × Out) : SState × HOut :=
  match findHandle s.handles id with
  | none => (s, .noHandle)
  | some r =>
    match s.base.top.contentOfSlot r.slot with
    | none => (s, .noHandle)       -- the stream no longer exists: outside the property
    | some st =>
      let (h', st', o) := f r.h st
      ({ s with base := { s.base with top := s.base.top.setContentOfSlot r.slot st' },
                handles := putHandle s.handles { r with h := h' } }, .base o)

/-- `Drop for Stream`: write back what is buffered -/
def dropHandle (top : Tree) (r : HandleRec) : Tree :=
  match top.contentOfSlot r.slot with
  | none => top
  | some st => top.setContentOfSlot r.slot (Handle.flushChanges r.h st).2

def insertById (r : HandleRec) : List HandleRec → List HandleRec
  | [] => [r]
  | x :: xs => if r.id ≤ x.id then r :: x :: xs else x :: insertById r xs

/-- all handles are dropped (ascending id, as `BTreeMap::clear` does in the harness) -/
def dropAll (s : SState) : SState :=
  let sorted := s.handles.foldr insertById []
  { s with base := { s.base with top := sorted.foldl dropHandle s.base.top }, handles := [] }

def openAt (s : SState) (id : Nat) (p : List Nat) : SState × HOut :=
  match nameChain p with
  | none => (s, .base (.err .invalidInput))
  | some ch => match resolve s.base.top ch with
    | none => (s, .base (.err .notFound))
    | some .root => (s, .base (.err .invalidInput))
    | some (.ent e _) =>
      if e.isStream then
        ({ s with handles := putHandle s.handles ⟨id, e.slot, Handle.H.new e.content.length s.maxBuf⟩ },
         .base (.num e.content.length))
      else (s, .base (.err .invalidInput))

def hstep (s : SState) : HOp → SState × HOut
  | .hopen id p => openAt s id p
  | .hcreate id p overwrite =>
    match nameChain p with
    | none => (s, .base (.err .invalidInput))
    | some ch =>
      match createAt s.base ch (some (overwrite, [])) with
      | (b', .ok) => openAt { s with base := b' } id p
      | (b', o) => ({ s with base := b' }, .base o)
  | .hwrite id bs => withHandle s id (fun h st => let (h', st') := Handle.writeAll h st bs; (h', st', .ok))
  | .hread id n => withHandle s id (fun h st => let (h', st', bs) := Handle.readAll h st n; (h', st', .bytes bs))
  | .hseek id n => withHandle s id (fun h st =>
      match Handle.seek h st (.start n) with
      | (h', st', .num k) => (h', st', .num k)
      | (h', st', _) => (h', st', .err .invalidInput))
  | .hsetlen id n => withHandle s id (fun h st => let (h', st', _) := Handle.setLen h st n; (h', st', .ok))
  | .hflush id => withHandle s id (fun h st => let (h', st') := Handle.flushChanges h st; (h', st', .ok))
  | .hlen id => withHandle s id (fun h st => (h, st, .num h.totalLen))
  | .hclose id =>
    match findHandle s.handles id with
    | none => (s, .base .ok)
    | some r => ({ s with base := { s.base with top := dropHandle s.base.top r },
                          handles := s.handles.filter (·.id != id) }, .base .ok)
  | .base .reopen => (dropAll s, .base .ok)
  | .base op => let (b', o) := step s.base op; ({ s with base := b' }, .base o)

end CfbVerif.Dir
