import CfbVerif.Dir.Iter
/-!
# Nested paths: the namespace as a partial map from (case-insensitive) paths to entries

`view t Q` is what a lookup of path `Q` observes: nothing, the root, or an entry (without its
colour, which only removal repaints).  The theorems below say that create / remove / update act on
this partial map at exactly one path and leave every other path alone — i.e. the directory trees
implement "a tree of storages holding case-insensitively unique names".
-/
set_option linter.unusedSimpArgs false
set_option linter.unusedVariables false
namespace CfbVerif.Dir
open CfbVerif.Names

/-- componentwise equality up to case -/
def PathEq : List Name → List Name → Prop
  | [], [] => True
  | a :: as, b :: bs => cmp a b = .eq ∧ PathEq as bs
  | _, _ => False

theorem PathEq.refl : ∀ p, PathEq p p
  | [] => trivial
  | a :: as => ⟨cmp_refl a, PathEq.refl as⟩

inductive View where
  | root
  | ent (e : Entry)
deriving DecidableEq

def viewOf : Res → View
  | .root => .root
  | .ent e _ => .ent e.core

def view (t : Tree) (q : List Name) : Option View := (resolve t q).map viewOf

theorem resolve_cons (t : Tree) (n : Name) (ns : List Name) :
    resolve t (n :: ns) = match t.find? n with
      | none => none
      | some (e, k) => if ns = [] then some (.ent e k) else resolve k ns := by
  cases ns with
  | nil => simp only [resolve]; cases t.find? n <;> simp
  | cons m ms => simp only [resolve]; cases h : t.find? n <;> simp

theorem view_nil (t : Tree) : view t [] = some .root := rfl

theorem view_cons (t : Tree) (n : Name) (ns : List Name) :
    view t (n :: ns) = match t.find? n with
      | none => none
      | some (e, k) => if ns = [] then some (.ent e.core) else view k ns := by
  simp only [view, resolve_cons]
  cases t.find? n with
  | none => rfl
  | some v => obtain ⟨e, k⟩ := v; simp only; split <;> simp [viewOf]

/-- lookups see names only up to case -/
theorem view_congr {q q' : List Name} (h : PathEq q q') : ∀ t : Tree, view t q = view t q' := by
  induction q generalizing q' with
  | nil => cases q' with
    | nil => intro _; rfl
    | cons _ _ => exact absurd h (by simp [PathEq])
  | cons a as ih =>
    cases q' with
    | nil => exact absurd h (by simp [PathEq])
    | cons b bs =>
      obtain ⟨hab, hrest⟩ := h
      intro t
      rw [view_cons, view_cons, find?_congr_eq hab t]
      have hl : as = [] ↔ bs = [] := by
        cases as <;> cases bs <;> simp_all [PathEq]
      cases t.find? b with
      | none => rfl
      | some v =>
        obtain ⟨e, k⟩ := v
        simp only
        by_cases h1 : as = []
        · simp [h1, hl.mp h1]
        · have h2 : bs ≠ [] := fun hb => h1 (hl.mpr hb)
          simp only [h1, h2, if_false]
          exact ih hrest k

/-! ## `update`: rewriting the node found under a name -/

theorem find?_update (t : Tree) (n : Name) (f : Entry → Tree → Entry × Tree)
    (hf : ∀ e k, (f e k).1.name = e.name) (m : Name) :
    (t.update n f).find? m =
      if cmp m n = .eq then (t.find? m).map (fun (e, k) => f e k) else t.find? m := by
  induction t with
  | leaf => simp [Tree.update, Tree.find?]
  | node l e k r ihl _ ihr =>
    simp only [Tree.update]
    cases hn : cmp n e.name with
    | eq =>
      simp only [Tree.find?, hf]
      by_cases hm : cmp m n = .eq
      · have : cmp m e.name = .eq := cmp_eq_trans hm hn
        simp [hm, this]
      · have : cmp m e.name ≠ .eq := fun h => hm (cmp_eq_trans h (cmp_eq_symm hn))
        simp only [hm, if_false]
        cases hc : cmp m e.name with
        | eq => exact absurd hc this
        | lt => rfl
        | gt => rfl
    | lt =>
      simp only [Tree.find?]
      by_cases hm : cmp m n = .eq
      · have : cmp m e.name = .lt := by rw [cmp_eq_left e.name (cmp_eq_symm hm)]; exact hn
        simp only [this, ihl, hm, if_true]
      · simp only [hm, if_false]
        cases cmp m e.name <;> simp [ihl, hm]
    | gt =>
      simp only [Tree.find?]
      by_cases hm : cmp m n = .eq
      · have : cmp m e.name = .gt := by rw [cmp_eq_left e.name (cmp_eq_symm hm)]; exact hn
        simp only [this, ihr, hm, if_true]
      · simp only [hm, if_false]
        cases cmp m e.name <;> simp [ihr, hm]

end CfbVerif.Dir

namespace CfbVerif.Dir
open CfbVerif.Names

/-- the children tree of the storage at path `P` -/
def kidsAt : Tree → List Name → Option Tree
  | t, [] => some t
  | t, n :: ns => match t.find? n with
    | none => none
    | some (_, k) => kidsAt k ns

theorem view_leaf_cons (a : Name) (as : List Name) : view .leaf (a :: as) = none := by
  rw [view_cons]; rfl

theorem pathEq_cons_iff {a b : Name} {as bs : List Name} :
    PathEq (a :: as) (b :: bs) ↔ cmp a b = .eq ∧ PathEq as bs := Iff.rfl

theorem not_pathEq_single {q : Name} {qs : List Name} {n : Name}
    (h : ¬ PathEq (q :: qs) [n]) (hq : cmp q n = .eq) : qs ≠ [] := by
  intro hqs; subst hqs; exact h ⟨hq, trivial⟩

/-! ## creation -/

theorem view_insert_frame (x : Entry) : ∀ (P : List Name) (t K : Tree),
    kidsAt t P = some K → K.find? x.name = none →
    (∀ Q, ¬ PathEq Q (P ++ [x.name]) → view (modifyKids t P (fun u => u.insert x)) Q = view t Q) ∧
    view (modifyKids t P (fun u => u.insert x)) (P ++ [x.name]) = some (.ent x.core) := by
  intro P
  induction P with
  | nil =>
    intro t K hK habs
    simp only [kidsAt, Option.some.injEq] at hK
    subst hK
    simp only [modifyKids, List.nil_append]
    constructor
    · intro Q hQ
      cases Q with
      | nil => rfl
      | cons q qs =>
        rw [view_cons, view_cons]
        by_cases hq : cmp q x.name = .eq
        · have hqs := not_pathEq_single hQ hq
          rw [find?_congr_eq hq, find?_congr_eq hq t, find?_insert_self habs, habs]
          simp only [hqs, if_false]
          cases qs with
          | nil => exact absurd rfl hqs
          | cons a as => exact view_leaf_cons a as
        · rw [find?_insert_other hq]
    · rw [view_cons, find?_insert_self habs]; simp
  | cons p ps ih =>
    intro t K hK habs
    simp only [kidsAt] at hK
    cases hf : t.find? p with
    | none => simp [hf] at hK
    | some v =>
      obtain ⟨e0, k0⟩ := v
      simp only [hf] at hK
      have ih' := ih k0 K hK habs
      simp only [modifyKids, List.cons_append]
      have hupd := find?_update t p (fun e k => (e, modifyKids k ps (fun u => u.insert x))) (fun _ _ => rfl)
      constructor
      · intro Q hQ
        cases Q with
        | nil => rfl
        | cons q qs =>
          rw [view_cons, view_cons, hupd]
          by_cases hq : cmp q p = .eq
          · simp only [hq, if_true, find?_congr_eq hq t, hf, Option.map_some]
            by_cases hqs : qs = []
            · simp [hqs]
            · simp only [hqs, if_false]
              apply ih'.1
              intro hpe
              exact hQ ⟨hq, hpe⟩
          · simp only [hq, if_false]
      · rw [view_cons, hupd]
        simp only [cmp_refl, if_true, hf, Option.map_some]
        have : ps ++ [x.name] ≠ [] := by simp
        simp only [this, if_false]
        exact ih'.2

/-! ## removal -/

theorem view_remove_frame (n : Name) : ∀ (P : List Name) (t K : Tree),
    kidsAt t P = some K → K.OrderedSib → (∀ e ek, K.find? n = some (e, ek) → ek = .leaf) →
    (∀ Q, ¬ PathEq Q (P ++ [n]) → view (modifyKids t P (fun u => u.remove n)) Q = view t Q) ∧
    view (modifyKids t P (fun u => u.remove n)) (P ++ [n]) = none := by
  intro P
  induction P with
  | nil =>
    intro t K hK hord hleaf
    simp only [kidsAt, Option.some.injEq] at hK
    subst hK
    simp only [modifyKids, List.nil_append]
    constructor
    · intro Q hQ
      cases Q with
      | nil => rfl
      | cons q qs =>
        rw [view_cons, view_cons]
        by_cases hq : cmp q n = .eq
        · have hqs := not_pathEq_single hQ hq
          rw [find?_congr_eq hq, find?_congr_eq hq t, find?_remove_self hord]
          cases hf : t.find? n with
          | none => rfl
          | some v =>
            obtain ⟨e, ek⟩ := v
            have := hleaf e ek hf
            subst this
            simp only [hqs, if_false]
            cases qs with
            | nil => exact absurd rfl hqs
            | cons a as => exact (view_leaf_cons a as).symm
        · have := find?_remove_other hord (n := n) (m := q) hq
          cases h1 : (t.remove n).find? q with
          | none =>
            rw [h1] at this
            cases h2 : t.find? q with
            | none => rfl
            | some v => rw [h2] at this; simp [coreRes] at this
          | some v1 =>
            rw [h1] at this
            cases h2 : t.find? q with
            | none => rw [h2] at this; simp [coreRes] at this
            | some v2 =>
              rw [h2] at this
              obtain ⟨e1, k1⟩ := v1; obtain ⟨e2, k2⟩ := v2
              simp only [coreRes, Option.map_some, Option.some.injEq, Prod.mk.injEq] at this
              simp only [this.1, this.2]
    · rw [view_cons, find?_remove_self hord]
  | cons p ps ih =>
    intro t K hK hord hleaf
    simp only [kidsAt] at hK
    cases hf : t.find? p with
    | none => simp [hf] at hK
    | some v =>
      obtain ⟨e0, k0⟩ := v
      simp only [hf] at hK
      have ih' := ih k0 K hK hord hleaf
      simp only [modifyKids, List.cons_append]
      have hupd := find?_update t p (fun e k => (e, modifyKids k ps (fun u => u.remove n))) (fun _ _ => rfl)
      constructor
      · intro Q hQ
        cases Q with
        | nil => rfl
        | cons q qs =>
          rw [view_cons, view_cons, hupd]
          by_cases hq : cmp q p = .eq
          · simp only [hq, if_true, find?_congr_eq hq t, hf, Option.map_some]
            by_cases hqs : qs = []
            · simp [hqs]
            · simp only [hqs, if_false]
              apply ih'.1
              intro hpe
              exact hQ ⟨hq, hpe⟩
          · simp only [hq, if_false]
      · rw [view_cons, hupd]
        simp only [cmp_refl, if_true, hf, Option.map_some]
        have : ps ++ [n] ≠ [] := by simp
        simp only [this, if_false]
        exact ih'.2

/-! ## in-place update of one entry (metadata, stream bytes) -/

theorem view_modifyEntry (f : Entry → Tree → Entry × Tree)
    (hname : ∀ e k, (f e k).1.name = e.name) (hkids : ∀ e k, (f e k).2 = k) :
    ∀ (names : List Name) (t : Tree), names ≠ [] →
    (∀ Q, ¬ PathEq Q names → view (modifyEntry t names f) Q = view t Q) ∧
    (∀ e k, resolve t names = some (.ent e k) →
      view (modifyEntry t names f) names = some (.ent (f e k).1.core)) := by
  intro names
  induction names with
  | nil => intro t h; exact absurd rfl h
  | cons p ps ih =>
    intro t _
    cases ps with
    | nil =>
      simp only [modifyEntry]
      have hupd := find?_update t p f hname
      constructor
      · intro Q hQ
        cases Q with
        | nil => rfl
        | cons q qs =>
          rw [view_cons, view_cons, hupd]
          by_cases hq : cmp q p = .eq
          · have hqs := not_pathEq_single hQ hq
            simp only [hq, if_true]
            cases t.find? q with
            | none => rfl
            | some v => obtain ⟨e, k⟩ := v; simp [hqs, hkids]
          · simp only [hq, if_false]
      · intro e k hres
        rw [resolve_cons] at hres
        rw [view_cons, hupd]
        simp only [cmp_refl, if_true]
        cases hf : t.find? p with
        | none => simp [hf] at hres
        | some v =>
          obtain ⟨e', k'⟩ := v
          simp only [hf, if_true, Option.some.injEq, Res.ent.injEq] at hres
          simp [hres.1, hres.2]
    | cons p2 ps2 =>
      simp only [modifyEntry]
      have hupd := find?_update t p (fun e k => (e, modifyEntry k (p2 :: ps2) f)) (fun _ _ => rfl)
      constructor
      · intro Q hQ
        cases Q with
        | nil => rfl
        | cons q qs =>
          rw [view_cons, view_cons, hupd]
          by_cases hq : cmp q p = .eq
          · simp only [hq, if_true]
            cases hf : t.find? q with
            | none => rfl
            | some v =>
              obtain ⟨e0, k0⟩ := v
              simp only [Option.map_some]
              by_cases hqs : qs = []
              · simp [hqs]
              · simp only [hqs, if_false]
                apply (ih k0 (by simp)).1
                intro hpe
                exact hQ ⟨hq, hpe⟩
          · simp only [hq, if_false]
      · intro e k hres
        rw [resolve_cons] at hres
        rw [view_cons, hupd]
        simp only [cmp_refl, if_true]
        cases hf : t.find? p with
        | none => simp [hf] at hres
        | some v =>
          obtain ⟨e0, k0⟩ := v
          simp only [hf, List.cons_ne_nil, if_false] at hres
          simp only [Option.map_some, List.cons_ne_nil, if_false]
          exact (ih k0 (by simp)).2 e k hres

end CfbVerif.Dir
