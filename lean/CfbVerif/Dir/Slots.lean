import CfbVerif.Dir.Spec
import CfbVerif.Dir.Handles
/-!
# Directory slots: freshness, and what writing through a handle's slot touches
-/
set_option linter.unusedSimpArgs false
set_option linter.unusedVariables false
namespace CfbVerif.Dir
open CfbVerif.Names

/-! ## `allocate_dir_entry` hands out a slot nobody uses -/

theorem countP_ge_split (used : List Nat) (c : Nat) :
    used.countP (fun x => decide (x ≥ c)) = used.countP (fun x => decide (x ≥ c + 1)) + used.countP (fun x => decide (x = c)) := by
  induction used with
  | nil => rfl
  | cons a as ih =>
    simp only [List.countP_cons, ih]
    by_cases h1 : a ≥ c + 1
    · have h2 : a ≥ c := by omega
      have h3 : ¬ a = c := by omega
      simp only [h1, h2, h3, decide_true, decide_false, if_true, if_false, Bool.false_eq_true]; omega
    · by_cases h2 : a = c
      · subst h2
        have h4 : ¬ a ≥ a + 1 := by omega
        simp only [h4, Nat.le_refl, ge_iff_le, decide_true, decide_false, if_true, if_false, Bool.false_eq_true]; omega
      · have h3 : ¬ a ≥ c := by omega
        simp only [h1, h2, h3, decide_true, decide_false, if_true, if_false, Bool.false_eq_true]; omega

theorem freshSlotFrom_spec (used : List Nat) : ∀ (fuel c : Nat),
    used.countP (fun x => decide (x ≥ c)) < fuel →
    freshSlotFrom used fuel c ∉ used ∧ c ≤ freshSlotFrom used fuel c := by
  intro fuel
  induction fuel with
  | zero => intro c h; omega
  | succ fuel ih =>
    intro c h
    simp only [freshSlotFrom]
    by_cases hc : used.contains c = true
    · simp only [hc, if_true]
      have hmem : c ∈ used := by simpa using hc
      have hpos : 0 < used.countP (fun x => decide (x = c)) := List.countP_pos_iff.mpr ⟨c, hmem, by simp⟩
      have := countP_ge_split used c
      have := ih (c + 1) (by omega)
      exact ⟨this.1, by omega⟩
    · simp only [hc, Bool.false_eq_true, if_false]
      exact ⟨by simpa using hc, Nat.le_refl _⟩

/-- the slot given to a new entry is not the root's and not in use -/
theorem freshSlot_spec (t : Tree) : freshSlot t ∉ t.slots ∧ 1 ≤ freshSlot t := by
  apply freshSlotFrom_spec
  have := List.countP_le_length (p := fun x => decide (x ≥ 1)) (l := t.slots)
  omega

/-! ## writing through a slot touches only entries in that slot -/

/-- entries, in any fixed traversal order, of all levels -/
def Tree.entries : Tree → List Entry
  | .leaf => []
  | .node l e k r => l.entries ++ [e] ++ k.entries ++ r.entries

theorem slots_eq_entries (t : Tree) : t.slots = t.entries.map (·.slot) := by
  induction t with
  | leaf => rfl
  | node l e k r ihl ihk ihr => simp [Tree.slots, Tree.entries, ihl, ihk, ihr]

/-- **frame**: `setContentOfSlot` rewrites the bytes of the entries in that slot and nothing
else — no name, no link, no metadata, no other entry's bytes -/
theorem entries_setContentOfSlot (t : Tree) (slot : Nat) (c : Bytes) :
    (t.setContentOfSlot slot c).entries =
      t.entries.map (fun e => if e.slot = slot then { e with content := c } else e) := by
  induction t with
  | leaf => rfl
  | node l e k r ihl ihk ihr =>
    simp only [Tree.setContentOfSlot, Tree.entries, ihl, ihk, ihr, List.map_append, List.map_cons, List.map_nil]

end CfbVerif.Dir
