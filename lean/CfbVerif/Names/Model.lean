import CfbVerif.Gen.Consts
import CfbVerif.Gen.Upper
/-!
# `Names`: path.rs — name validation, CFB name order, path → name chain

Names are lists of Unicode scalar values (`Nat`); the driver converts.  `upper` is a parameter in
all definitions the laws are proved for; the library's effective `cfb_uppercase_char` is
`Gen.upper` (generated from a dump of the running function through hook H2).
-/
namespace CfbVerif.Names

abbrev Name := List Nat

/-- UTF-16 code units of one scalar (`char::encode_utf16`). -/
def units (c : Nat) : List Nat :=
  if c < 0x10000 then [c] else [0xD800 + (c - 0x10000) / 0x400, 0xDC00 + (c - 0x10000) % 0x400]

def utf16 (n : Name) : List Nat := n.flatMap units

def utf16Len (n : Name) : Nat := (utf16 n).length

/-- `validate_name` (path.rs:86-103): at most `MAX_NAME_LEN` UTF-16 units — the code looks at the
first `MAX_NAME_LEN + 1` units only — and none of the forbidden characters. -/
def validateName (n : Name) : Bool :=
  !(((utf16 n).take (Gen.MAX_NAME_LEN + 1)).length > Gen.MAX_NAME_LEN) &&
  Gen.forbiddenNameChars.all (fun c => !n.contains c)

def isAscii (n : Name) : Bool := n.all (· < 128)

/-- `u8::to_ascii_uppercase` -/
def asciiUpper (c : Nat) : Nat := if 97 ≤ c ∧ c ≤ 122 then c - 32 else c

/-- lexicographic comparison of two sequences (`Iterator::cmp`) -/
def cmpList : List Nat → List Nat → Ordering
  | [], [] => .eq
  | [], _ :: _ => .lt
  | _ :: _, [] => .gt
  | x :: xs, y :: ys => (compare x y).then (cmpList xs ys)

/-- `compare_names` (path.rs:46-80), with both of its paths; the general path compares the
upper-cased names as UTF-16 code unit sequences. -/
def cmpNames (upper : Nat → Nat) (a b : Name) : Ordering :=
  if isAscii a && isAscii b then
    (compare a.length b.length).then (cmpList (a.map asciiUpper) (b.map asciiUpper))
  else
    (compare (utf16Len a) (utf16Len b)).then (cmpList (utf16 (a.map upper)) (utf16 (b.map upper)))

/-- the sort key the order is the comparison of -/
def key (upper : Nat → Nat) (a : Name) : Nat × List Nat := (utf16Len a, utf16 (a.map upper))

def cmpKey (x y : Nat × List Nat) : Ordering := (compare x.1 y.1).then (cmpList x.2 y.2)

/-- the library's effective `cfb_uppercase_char`: the generated search tree of all scalars whose
image differs from themselves; identity elsewhere -/
def Gen.upper (c : Nat) : Nat := (CfbVerif.Gen.upperTree.find c).getD c

/-! ## Paths (Unix `Path::components` + the fold of `name_chain_from_path`) -/

inductive Comp
  | root | cur | parent
  | normal (n : Name)
deriving Repr, DecidableEq

/-- split on `/` -/
def splitSlash : List Nat → List (List Nat)
  | [] => [[]]
  | c :: cs =>
    match splitSlash cs with
    | [] => [[]]   -- unreachable
    | seg :: segs => if c = 47 then [] :: seg :: segs else (c :: seg) :: segs

/-- `Path::components()` on Unix: a leading `/` is `RootDir`; empty segments and `.` segments are
dropped, except that a leading `.` of a relative path is `CurDir`; `..` is `ParentDir`. -/
def components (p : List Nat) : List Comp :=
  let segs := splitSlash p
  let isAbs := p.head? = some 47
  let body := segs.filterMap (fun s =>
    if s = [] then none else if s = [46] then none else if s = [46, 46] then some .parent else some (.normal s))
  let lead := if isAbs then [Comp.root] else if segs.head? = some [46] then [Comp.cur] else []
  lead ++ body

/-- a path component that is text: every element is a Unicode scalar.  The line protocol writes a
byte that is not part of valid UTF-8 as `0x110000 + byte`; `OsStr::to_str` fails on such a component -/
def isText (n : Name) : Bool := n.all (fun c => decide (c < 0x110000))

/-- the fold of `name_chain_from_path`; `none` = `InvalidInput` ("must be within root", "Non UTF-8 path") -/
def chainFold : List Name → List Comp → Option (List Name)
  | acc, [] => some acc
  | _, .root :: cs => chainFold [] cs
  | acc, .cur :: cs => chainFold acc cs
  | acc, .parent :: cs =>
    match acc.reverse with
    | [] => none
    | _ :: rest => chainFold rest.reverse cs
  | acc, .normal n :: cs => if isText n then chainFold (acc ++ [n]) cs else none

def nameChain (p : List Nat) : Option (List Name) := chainFold [] (components p)

end CfbVerif.Names
