import CfbVerif.Names.Model
set_option linter.unusedSimpArgs false
set_option linter.unusedVariables false
namespace CfbVerif.Names

/-! ## lexicographic comparison -/

theorem cmpList_refl (a : List Nat) : cmpList a a = .eq := by
  induction a with
  | nil => rfl
  | cons x xs ih => simp [cmpList, ih, Nat.compare_eq_eq.mpr rfl]

theorem cmpList_swap (a : List Nat) : ∀ b, cmpList a b = (cmpList b a).swap := by
  induction a with
  | nil => intro b; cases b <;> rfl
  | cons x xs ih =>
    intro b
    cases b with
    | nil => rfl
    | cons y ys =>
      simp only [cmpList]
      rw [ih ys, Nat.compare_swap y x |>.symm]
      cases compare y x <;> simp [Ordering.then, Ordering.swap]

theorem cmpList_eq_iff (a : List Nat) : ∀ b, cmpList a b = .eq ↔ a = b := by
  induction a with
  | nil => intro b; cases b <;> simp [cmpList]
  | cons x xs ih =>
    intro b
    cases b with
    | nil => simp [cmpList]
    | cons y ys =>
      simp only [cmpList, List.cons.injEq]
      rcases Nat.lt_trichotomy x y with h | h | h
      · simp [Nat.compare_eq_lt.mpr h, Ordering.then]; omega
      · simp [Nat.compare_eq_eq.mpr h, Ordering.then, ih ys, h]
      · simp [Nat.compare_eq_gt.mpr h, Ordering.then]; omega

theorem cmpList_trans_lt (a : List Nat) : ∀ b c, cmpList a b = .lt → cmpList b c = .lt → cmpList a c = .lt := by
  induction a with
  | nil => intro b c h1 h2; cases b <;> cases c <;> simp_all [cmpList]
  | cons x xs ih =>
    intro b c h1 h2
    cases b with
    | nil => simp [cmpList] at h1
    | cons y ys =>
      cases c with
      | nil => simp [cmpList] at h2
      | cons z zs =>
        simp only [cmpList] at h1 h2 ⊢
        rcases Nat.lt_trichotomy x y with hxy | hxy | hxy
        · rcases Nat.lt_trichotomy y z with hyz | hyz | hyz
          · simp [Nat.compare_eq_lt.mpr (Nat.lt_trans hxy hyz), Ordering.then]
          · subst hyz; simp [Nat.compare_eq_lt.mpr hxy, Ordering.then]
          · simp [Nat.compare_eq_gt.mpr hyz, Ordering.then] at h2
        · subst hxy
          rcases Nat.lt_trichotomy x z with hyz | hyz | hyz
          · simp [Nat.compare_eq_lt.mpr hyz, Ordering.then]
          · subst hyz
            simp only [Nat.compare_eq_eq.mpr rfl, Ordering.then] at h1 h2 ⊢
            exact ih ys zs h1 h2
          · simp [Nat.compare_eq_gt.mpr hyz, Ordering.then] at h2
        · simp [Nat.compare_eq_gt.mpr hxy, Ordering.then] at h1

/-! ## the key order -/

theorem cmpKey_refl (k : Nat × List Nat) : cmpKey k k = .eq := by
  simp [cmpKey, cmpList_refl, Nat.compare_eq_eq.mpr rfl, Ordering.then]

theorem cmpKey_swap (a b : Nat × List Nat) : cmpKey a b = (cmpKey b a).swap := by
  simp only [cmpKey]
  rw [cmpList_swap a.2 b.2, (Nat.compare_swap b.1 a.1).symm]
  cases compare b.1 a.1 <;> simp [Ordering.then, Ordering.swap]

theorem cmpKey_eq_iff (a b : Nat × List Nat) : cmpKey a b = .eq ↔ a = b := by
  obtain ⟨a1, a2⟩ := a; obtain ⟨b1, b2⟩ := b
  simp only [cmpKey, Prod.mk.injEq]
  rcases Nat.lt_trichotomy a1 b1 with h | h | h
  · simp [Nat.compare_eq_lt.mpr h, Ordering.then]; omega
  · simp [Nat.compare_eq_eq.mpr h, Ordering.then, cmpList_eq_iff, h]
  · simp [Nat.compare_eq_gt.mpr h, Ordering.then]; omega

theorem cmpKey_trans_lt (a b c : Nat × List Nat) :
    cmpKey a b = .lt → cmpKey b c = .lt → cmpKey a c = .lt := by
  obtain ⟨a1, a2⟩ := a; obtain ⟨b1, b2⟩ := b; obtain ⟨c1, c2⟩ := c
  simp only [cmpKey]
  intro h1 h2
  rcases Nat.lt_trichotomy a1 b1 with hxy | hxy | hxy
  · rcases Nat.lt_trichotomy b1 c1 with hyz | hyz | hyz
    · simp [Nat.compare_eq_lt.mpr (Nat.lt_trans hxy hyz), Ordering.then]
    · subst hyz; simp [Nat.compare_eq_lt.mpr hxy, Ordering.then]
    · simp [Nat.compare_eq_gt.mpr hyz, Ordering.then] at h2
  · subst hxy
    rcases Nat.lt_trichotomy a1 c1 with hyz | hyz | hyz
    · simp [Nat.compare_eq_lt.mpr hyz, Ordering.then]
    · subst hyz
      simp only [Nat.compare_eq_eq.mpr rfl, Ordering.then] at h1 h2 ⊢
      exact cmpList_trans_lt _ _ _ h1 h2
    · simp [Nat.compare_eq_gt.mpr hyz, Ordering.then] at h2
  · simp [Nat.compare_eq_gt.mpr hxy, Ordering.then] at h1

/-! ## the ASCII fast path is the general path -/

theorem units_small (c : Nat) (h : c < 0x10000) : units c = [c] := by simp [units, h]

theorem utf16_ascii (a : Name) (h : ∀ c ∈ a, c < 128) : utf16 a = a := by
  induction a with
  | nil => rfl
  | cons x xs ih =>
    have hx : x < 0x10000 := by have := h x (by simp); omega
    simp only [utf16, List.flatMap_cons, units_small x hx]
    have := ih (fun c hc => h c (by simp [hc]))
    simp only [utf16] at this
    simp [this]

theorem asciiUpper_lt (c : Nat) (h : c < 128) : asciiUpper c < 128 := by
  unfold asciiUpper; split <;> omega

theorem cmpNames_key (upper : Nat → Nat) (hup : ∀ c, c < 128 → upper c = asciiUpper c) (a b : Name) :
    cmpNames upper a b = cmpKey (key upper a) (key upper b) := by
  unfold cmpNames key cmpKey
  by_cases h : (isAscii a && isAscii b) = true
  · simp only [h, if_true]
    simp only [isAscii, Bool.and_eq_true, List.all_eq_true, decide_eq_true_eq] at h
    have ha : ∀ (x : Name), (∀ c ∈ x, c < 128) → utf16Len x = x.length ∧ utf16 (x.map upper) = x.map asciiUpper := by
      intro x hx
      refine ⟨by simp [utf16Len, utf16_ascii x hx], ?_⟩
      have e : x.map upper = x.map asciiUpper := List.map_congr_left (fun c hc => hup c (hx c hc))
      rw [e]
      apply utf16_ascii
      intro c hc
      obtain ⟨d, hd, rfl⟩ := List.mem_map.mp hc
      exact asciiUpper_lt d (hx d hd)
    rw [(ha a h.1).1, (ha b h.2).1, (ha a h.1).2, (ha b h.2).2]
  · simp only [h, if_false]; rfl

/-! ## validation -/

theorem validateName_iff (n : Name) :
    validateName n = true ↔ utf16Len n ≤ 31 ∧ 47 ∉ n ∧ 92 ∉ n ∧ 58 ∉ n ∧ 33 ∉ n := by
  simp only [validateName, utf16Len, Gen.MAX_NAME_LEN, Gen.forbiddenNameChars, Bool.and_eq_true,
    Bool.not_eq_true', decide_eq_false_iff_not, List.length_take, List.all_cons, List.all_nil,
    Bool.and_true, List.contains_eq_mem, decide_eq_true_eq]
  constructor
  · rintro ⟨h1, h2, h3, h4, h5⟩; exact ⟨by omega, h2, h3, h4, h5⟩
  · rintro ⟨h1, h2, h3, h4, h5⟩; exact ⟨by omega, h2, h3, h4, h5⟩

end CfbVerif.Names
