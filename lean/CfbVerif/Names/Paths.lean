import CfbVerif.Names.Lemmas
set_option linter.unusedSimpArgs false
set_option linter.unusedVariables false
namespace CfbVerif.Names

/-! ## the fold -/

theorem chainFold_append (pre : List Comp) : ∀ (acc : List Name) (post : List Comp),
    chainFold acc (pre ++ post) = (chainFold acc pre).bind (fun acc' => chainFold acc' post) := by
  induction pre with
  | nil => intro acc post; simp [chainFold]
  | cons c cs ih =>
    intro acc post
    cases c with
    | root => simp only [List.cons_append, chainFold]; exact ih [] post
    | cur => simp only [List.cons_append, chainFold]; exact ih acc post
    | parent =>
      simp only [List.cons_append, chainFold]
      cases acc.reverse with
      | nil => simp
      | cons x rest => simp only; exact ih _ post
    | normal n =>
      simp only [List.cons_append, chainFold]
      split
      · exact ih _ post
      · simp

theorem chainFold_normal_parent (acc : List Name) (x : Name) (hx : isText x = true) :
    chainFold acc [.normal x, .parent] = some acc := by
  simp [chainFold, hx]

/-- `a/x/../b` addresses the same object as `a/b` (for a component `x` that is text: a component
that is not valid UTF-8 makes the whole path `InvalidInput`, resolvable or not) -/
theorem chain_dotdot (pre post : List Comp) (x : Name) (acc : List Name) (hx : isText x = true) :
    chainFold acc (pre ++ [.normal x, .parent] ++ post) = chainFold acc (pre ++ post) := by
  rw [List.append_assoc, chainFold_append, chainFold_append pre acc post]
  cases chainFold acc pre with
  | none => rfl
  | some acc' =>
    simp only [Option.bind_some]
    rw [chainFold_append, chainFold_normal_parent _ _ hx]
    rfl

/-- `.` components are ignored -/
theorem chain_dot (pre post : List Comp) (acc : List Name) :
    chainFold acc (pre ++ [.cur] ++ post) = chainFold acc (pre ++ post) := by
  rw [List.append_assoc, chainFold_append, chainFold_append pre acc post]
  cases chainFold acc pre with
  | none => rfl
  | some acc' => simp [chainFold]

/-- a root component forgets everything before it -/
theorem chain_root (pre post : List Comp) (acc : List Name) (h : chainFold acc pre ≠ none) :
    chainFold acc (pre ++ [.root] ++ post) = chainFold [] post := by
  rw [List.append_assoc, chainFold_append]
  cases hh : chainFold acc pre with
  | none => exact absurd hh h
  | some acc' => simp [chainFold]

/-- a path that climbs above the root is refused -/
theorem chain_escape (post : List Comp) : chainFold [] (.parent :: post) = none := by
  simp [chainFold]

/-- only normal components reach the chain, in order, when nothing climbs -/
theorem chain_normals (ns : List Name) (acc : List Name) (ht : ∀ n ∈ ns, isText n = true) :
    chainFold acc (ns.map .normal) = some (acc ++ ns) := by
  induction ns generalizing acc with
  | nil => simp [chainFold]
  | cons n ns ih =>
    have h1 := ht n (by simp)
    have h2 := ih (acc ++ [n]) (fun m hm => ht m (List.mem_cons_of_mem _ hm))
    simp [chainFold, h1, h2]

/-- a component that is not text makes the path `InvalidInput` wherever it stands behind a prefix
that resolves -/
theorem chain_nontext (pre post : List Comp) (x : Name) (acc : List Name) (hx : isText x = false)
    (hp : chainFold acc pre ≠ none) : chainFold acc (pre ++ [.normal x] ++ post) = none := by
  rw [List.append_assoc, chainFold_append]
  cases hh : chainFold acc pre with
  | none => exact absurd hh hp
  | some acc' => simp [chainFold, hx]

/-! ## the string level: slashes -/

theorem splitSlash_ne_nil (p : List Nat) : splitSlash p ≠ [] := by
  cases p with
  | nil => simp [splitSlash]
  | cons c cs =>
    simp only [splitSlash]
    cases splitSlash cs with
    | nil => simp
    | cons s ss => simp only; split <;> simp

theorem splitSlash_snoc_slash (p : List Nat) : splitSlash (p ++ [47]) = splitSlash p ++ [[]] := by
  induction p with
  | nil => simp [splitSlash]
  | cons c cs ih =>
    simp only [List.cons_append, splitSlash, ih]
    have := splitSlash_ne_nil cs
    cases h : splitSlash cs with
    | nil => exact absurd h this
    | cons s ss => simp only [List.cons_append]; split <;> rfl

def bodyOf (segs : List (List Nat)) : List Comp :=
  segs.filterMap (fun s =>
    if s = [] then none else if s = [46] then none else if s = [46, 46] then some .parent else some (.normal s))

theorem components_eq (p : List Nat) :
    components p = (if p.head? = some 47 then [Comp.root]
                    else if (splitSlash p).head? = some [46] then [Comp.cur] else []) ++ bodyOf (splitSlash p) := rfl

/-- a trailing slash does not change the components -/
theorem components_trailing_slash (p : List Nat) (hp : p ≠ []) :
    components (p ++ [47]) = components p := by
  rw [components_eq, components_eq, splitSlash_snoc_slash]
  have h1 : (p ++ [47]).head? = p.head? := by cases p <;> simp_all
  have h2 : (splitSlash p ++ [[]]).head? = (splitSlash p).head? := by
    have := splitSlash_ne_nil p
    cases h : splitSlash p <;> simp_all
  rw [h1, h2]
  congr 1
  simp [bodyOf, List.filterMap_append]

/-- a leading slash does not change the name chain -/
theorem nameChain_leading_slash (p : List Nat) : nameChain (47 :: p) = nameChain p := by
  unfold nameChain
  rw [components_eq, components_eq]
  have hs : splitSlash (47 :: p) = [] :: splitSlash p := by
    have := splitSlash_ne_nil p
    simp only [splitSlash]
    cases h : splitSlash p with
    | nil => exact absurd h this
    | cons s ss => simp
  rw [hs]
  have hb : bodyOf ([] :: splitSlash p) = bodyOf (splitSlash p) := by simp [bodyOf]
  rw [hb]
  simp only [List.head?_cons, if_true]
  split
  · simp [chainFold]
  · split <;> simp [chainFold]

end CfbVerif.Names
