import CfbVerif.Props.C06
import CfbVerif.Props.C09
import CfbVerif.Drv.Handle
import CfbVerif.Drv.Names
import CfbVerif.Props.C17
import CfbVerif.Drv.Time
