import CfbVerif.Gen.Consts
import CfbVerif.Handle.Model
