"""C18 — results do not depend on buffering, I/O chunking, backend or run."""
import os, re
from . import common as C
from . import apilib as A
from . import rawlib as R

PID = "C18"
MODULE = "CfbVerif.Props.C18"
THM = "CfbVerif.Props.C18 / C01 (model no longer corresponds)"


def signature(msg):
    m = re.search(r"on backend `([^`]+)`", msg)
    if m:
        what = "file-differs" if "the file differs" in msg else ("table-differs" if "directory table" in msg else "result-differs")
        return "backend:%s:%s" % (m.group(1).replace(" ", "_"), what)
    if "max_buffer_size" in msg:
        return "bufsize:result-differs"
    if "in version" in msg:
        return "version:result-differs"
    return "variant:other"


def run(ctx):
    theorems = C.read_obligations(PID)
    harness_ok = C.build_harness(ctx)
    upper = None
    if harness_ok:
        upper = ctx.path("upper.txt")
        C.harness(["upper-dump", "--out", upper])
    C.regenerate(ctx, upper=upper)
    lean_ok = C.lean_build_and_audit(ctx, MODULE, theorems)
    ctx.assumptions += [
        "what the OS does with a real file is not in the model: the std::fs::File run (in a scratch directory) is the only evidence for it",
        "byte-identity is required across runs, backends and chunkings; across max_buffer_size values and versions only the observable results (allocation order legitimately depends on when a buffer is written back)",
    ]
    if not (lean_ok and harness_ok):
        return C.finish(ctx)
    quick = ctx.tier == "quick"
    total = 0
    try:
        scratch = R.scratch(ctx, "files")
        for tag, args in [("hist", ["--seed", ctx.seed, "--count", 300 if quick else 3000, "--max-ops", 40 if quick else 100, "--reopen-pct", 6]),
                          ("hist-h", ["--handles", "--seed", ctx.seed + 3, "--count", 150 if quick else 1500, "--max-ops", 60])]:
            stat, h, sample = A.campaign(ctx, args, tag, THM)   # baseline also against the Lean model (O+D)
            total += stat.get("ops", 0)
            rc, out = C.harness(["variants", "--ops", ctx.path(tag + ".ops"), "--scratch", scratch], timeout=3000)
            st2, _, oracle = C.parse_stats(out)
            total += st2.get("evaluations", 0)
            ops_lines = open(ctx.path(tag + ".ops")).read().splitlines()
            hs = A.split_histories(ops_lines)
            seen = set()
            for msg in oracle:
                sg = signature(msg)
                if sg in seen:
                    continue
                seen.add(sg)
                m = re.match(r"history (\d+) ", msg)
                lines = hs[int(m.group(1))][1] if m and int(m.group(1)) < len(hs) else []
                C.add_violation(ctx, sg, msg[:400], "# C18: %s\n# replay: put the history below into a file and run: harness variants --ops <file> --scratch <dir>\n%s\n" % (msg[:1500], "\n".join(lines)))
            if tag == "hist":
                ctx.coverage["samples"] = [sample[:10]]
    finally:
        R.cleanup(ctx)
    ctx.coverage.update({
        "evaluations": total,
        "distinct_nontrivial": total,
        "rule": "each generated history (C01 generator, and multi-handle histories) is executed on the in-memory backend (compared with the Lean model at levels O+D) and then re-executed: a second time in memory, on std::fs::File in a scratch directory, on backends delivering 1-byte transfers, random short transfers, and Interrupted-then-success for reads and writes — results, directory tables and the final file must be byte-identical — and with max_buffer_size 0/1025/1500/4096/65536 and in the other format version — results must be identical. Storage times are pinned. evaluations = calls of the baseline + variant runs",
    })
    return C.finish(ctx)
