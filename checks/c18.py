"""C18 — results do not depend on buffering, I/O chunking, backend or run."""
import os, re
from . import common as C
from . import apilib as A
from . import rawlib as R

PID = "C18"
MODULE = "CfbVerif.Props.C18"
THM = "CfbVerif.Props.C18 / C01 (model no longer corresponds)"


def signature(msg):
    m = re.search(r"on backend `([^`]+)`", msg)
    if m:
        what = "file-differs" if "the file differs" in msg else ("table-differs" if "directory table" in msg else "result-differs")
        return "backend:%s:%s" % (m.group(1).replace(" ", "_"), what)
    if "max_buffer_size" in msg:
        return "bufsize:result-differs"
    if "in version" in msg:
        return "version:result-differs"
    return "variant:other"


def run(ctx):
    theorems = C.read_obligations(PID)
    harness_ok = C.build_harness(ctx)
    upper = None
    if harness_ok:
        upper = ctx.path("upper.txt")
        C.harness(["upper-dump", "--out", upper])
    C.regenerate(ctx, upper=upper)
    lean_ok = C.lean_build_and_audit(ctx, MODULE, theorems)
    ctx.assumptions += [
        "what the OS does with a real file is not in the model: the std::fs::File run (in a scratch directory) is the only evidence for it",
        "byte-identity is required across runs, backends and chunkings; across max_buffer_size values and versions only the observable results (allocation order legitimately depends on when a buffer is written back)",
    ]
    if not (lean_ok and harness_ok):
        return C.finish(ctx)
    quick = ctx.tier == "quick"
    total = 0
    try:
        scratch = R.scratch(ctx, "files")
        for tag, args in [("hist", ["--seed", ctx.seed, "--count", 300 if quick else 3000, "--max-ops", 40 if quick else 100, "--reopen-pct", 6]),
                          ("hist-h", ["--handles", "--seed", ctx.seed + 3, "--count", 150 if quick else 1500, "--max-ops", 60])]:
            stat, h, sample = A.campaign(ctx, args, tag, THM)   # baseline also against the Lean model (O+D)
            total += stat.get("ops", 0)
            rc, out = C.harness(["variants", "--ops", ctx.path(tag + ".ops"), "--scratch", scratch], timeout=3000)
            st2, _, oracle = C.parse_stats(out)
            total += st2.get("evaluations", 0)
            ops_lines = open(ctx.path(tag + ".ops")).read().splitlines()
            hs = A.split_histories(ops_lines)
            seen = set()
            for msg in oracle:
                sg = signature(msg)
                if sg in seen:
                    continue
                seen.add(sg)
                m = re.match(r"history (\d+) ", msg)
                lines = hs[int(m.group(1))][1] if m and int(m.group(1)) < len(hs) else []
                C.add_violation(ctx, sg, msg[:400], "# C18: %s\n# replay: put the history below into a file and run: harness variants --ops <file> --scratch <dir>\n%s\n" % (msg[:1500], "\n".join(lines)))
            if tag == "hist":
                ctx.coverage["samples"] = [sample[:10]]
        # versions 3 and 4 at a size where their tables differ most: the 18 MB history (V3: 275 FAT sectors and two
        # DIFAT sectors, V4: 5 FAT sectors) — same results against the abstract model, the bytes of each reopen in
        # both modes to the live state, and the two logical dumps (walk with metadata + every stream's bytes) agree
        hdir = ctx.path("huge")
        os.makedirs(hdir, exist_ok=True)
        dumps = {}
        for v in (3, 4):
            rc, out = C.harness(["phys", "--huge", hdir, "--ops", ctx.path("huge%d.ops" % v), "--impl", ctx.path("huge%d.impl" % v)] + (["--v4"] if v == 4 else []))
            st3, _, orc = C.parse_stats(out)
            dumps[v] = st3.get("dump_hash")
            total += 8
            for msg in orc[:2]:
                C.add_violation(ctx, "version:huge-v%d" % v, ("version %d: " % v) + msg[:380],
                                "# C18: the 18 MB history in format version %d: %s\n# replay: harness phys --huge <dir> --ops o --impl i%s\n%s\n" % (v, msg[:1500], " --v4" if v == 4 else "", open(ctx.path("huge%d.ops" % v)).read() if os.path.exists(ctx.path("huge%d.ops" % v)) else ""))
            try:
                os.remove(os.path.join(hdir, "huge_v%d.cfb" % v))
            except OSError:
                pass
        if dumps.get(3) != dumps.get(4):
            C.add_violation(ctx, "version:huge-dump-differs", "the 18 MB history leaves different logical content in versions 3 and 4 (dump hashes %s / %s)" % (dumps.get(3), dumps.get(4)),
                            "# C18: harness phys --huge <dir> --ops o --impl i   and the same with --v4: STAT dump_hash differs\n")
    finally:
        R.cleanup(ctx)
    ctx.coverage.update({
        "evaluations": total,
        "distinct_nontrivial": total,
        "rule": "each generated history (C01 generator, and multi-handle histories) is executed on the in-memory backend (compared with the Lean model at levels O+D) and then re-executed: a second time in memory, on std::fs::File in a scratch directory, on backends delivering 1-byte transfers, random short transfers, and Interrupted-then-success for reads and writes — results, directory tables and the final file must be byte-identical — and with max_buffer_size 0/1025/1500/4096/65536 and in the other format version — results must be identical. Storage times are pinned. Plus the 18 MB history in both versions (results against the abstract model, reopen of the bytes in both modes, equal logical dumps). evaluations = calls of the baseline + variant runs",
    })
    return C.finish(ctx)
