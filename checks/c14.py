"""C14 — shared read access concurrent with stream I/O never deadlocks."""
import os
from . import common as C

PID = "C14"
MODULE = "CfbVerif.Props.C14"
THM = "CfbVerif.Props.C14.C14_no_deadlock (hypothesis `flat` no longer established for the code)"


def run(ctx):
    theorems = C.read_obligations(PID)
    harness_ok = C.build_harness(ctx)
    C.regenerate(ctx)
    lean_ok = C.lean_build_and_audit(ctx, MODULE, theorems)
    ctx.assumptions += [
        "RwLock is std's futex implementation with writer-preferring admission as described in its source; mutual exclusion of readers and a writer is the lock's contract (assumed)",
        "memory-model effects and fairness beyond the admission rule are not modelled; panics under a held guard are excluded by C05/C11",
        "the iteration as a whole is deliberately not atomic in the library; each `next()` is",
        "a `Stream` is not `Send`: the handle thread is the thread that created the handle",
    ]
    if not (lean_ok and harness_ok):
        return C.finish(ctx)
    quick = ctx.tier == "quick"
    ops, imp, mod = ctx.path("locks.ops"), ctx.path("locks.impl"), ctx.path("locks.model")
    rc, out = C.harness(["locks", "--ops", ops, "--impl", imp])
    _, _, oracle = C.parse_stats(out)
    dead = [l[9:] for l in out.splitlines() if l.startswith("DEADLOCK ")]
    if dead:
        # a call that never returns on a single thread: it takes the lock while its own thread holds it
        C.add_violation(ctx, "self-deadlock:" + dead[0],
                        (oracle or ["call %s does not return" % dead[0]])[0],
                        "# C14: the call sequence `%s` of harness/src/locks.rs (traces) does not return within 20 s on a single thread\n# replay: harness locks --ops o --impl i   (prints DEADLOCK %s)\n" % (dead[0], dead[0]))
        return C.finish(ctx)
    C.driver(["locks"], ops, mod)
    ops_lines = open(ops).read().splitlines()
    model = open(mod).read().splitlines()
    for (ln, a, b) in C.diff_lines(imp, mod)[:5]:
        ctx.disagreements.append({"origin": ops_lines[ln][:200], "level": "H1", "implementation": a, "model": b, "theorem": THM})
    notflat = [o for o, m in zip(ops_lines, model) if m != "flat"]
    steer_out = ""
    if notflat or oracle:
        # the hypothesis of the theorem fails for some call: search for the schedule on the implementation
        rc, steer_out = C.harness(["locks", "--steer"], timeout=60)
        msg = (oracle or ["a call acquires the lock while holding it"])[0]
        if "deadlock" in steer_out:
            C.add_violation(ctx, "nested-acquisition:deadlock",
                            "%s; steered schedule (reader parked between its two acquisitions, writer starts waiting): deadlock" % msg,
                            "# C14: %s\n# schedule: thread A = the call below; gate parks A before its acquisition at depth > 0; thread B (handle owner) then calls write+flush; A is released -> no progress within 8 s\n# replay: harness locks --steer   (prints `deadlock`)\n%s\n" % (msg, "\n".join(notflat[:10])))
        else:
            ctx.undischarged.append("a call is not flat (%s) but the steered schedule completed" % msg)
    else:
        rc, steer_out = C.harness(["locks", "--steer"], timeout=60)
        if "deadlock" in steer_out:
            C.add_violation(ctx, "steered:deadlock", "steered schedule deadlocks although all traces are flat", "harness locks --steer\n")
    # atomic views: every state a concurrent read-only call could see between two critical sections of a handle
    # operation (observed deterministically through the gate of hook H1) is the state before or after a whole
    # stream operation
    rc, at = C.harness(["locks", "--atomic"], timeout=300)
    astat, _, aor = C.parse_stats(at)
    if rc != 0 and not aor:
        ctx.undischarged.append("harness locks --atomic crashed: " + at[-300:])
    for msg in aor[:3]:
        C.add_violation(ctx, "atomic-view:" + (msg.split("`")[1] if "`" in msg else "?"), msg[:400],
                        "# C14: %s\n# schedule: the handle's thread runs the operation; between two of its critical sections (lock free) another thread calls entry(\"/obs\").len()\n# replay: harness locks --atomic\n" % msg[:1500])
    # unsteered stress
    rc, st = C.harness(["locks", "--stress", "--readers", 3, "--millis", 1500 if quick else 20000], timeout=120)
    for l in st.splitlines():
        if l.startswith("wrong "):
            C.add_violation(ctx, "stress:wrong-answer", "a read-only call made while other readers and a handle thread were running answered wrongly: " + l[6:300],
                            "# C14: %s\n# schedule: unsteered, 3 reader threads + the handle's thread\n# replay: harness locks --stress --readers 3 --millis 1500\n" % l[6:1500])
            break
    if "deadlock" in st:
        C.add_violation(ctx, "stress:deadlock", "3 reader threads + 1 handle thread made no progress (unsteered)", "# replay: harness locks --stress --readers 3 --millis 1500\n")
    ctx.coverage.update({
        "evaluations": len(ops_lines),
        "distinct_nontrivial": len(set(ops_lines)),
        "rule": "per-call lock traces (hook H1: mode and hold depth before every acquisition) of every public read-only method, both iterator orders to exhaustion and partially, every handle operation and every mutating API call, on trees with left/right spines and nested children, both versions; each call's program is rebuilt and checked flat by the Lean definition (the hypothesis of C14_no_deadlock); plus one steered two-thread schedule, an unsteered 3-readers-vs-writer stress run on the implementation in which every reader's answer is checked (lookups of non-ASCII sibling names of equal length included), and the atomic-view observation: during 19 handle operations per version (buffered writes of 300-900 KiB, flushes, set_len, reads) a read-only call is made at every point where the handle's thread is about to take the lock while holding none — every state a concurrent reader could see — and must see the stream's length before the operation, after a whole flush, or after the operation",
        "samples": ops_lines[6:9],
        "steered_schedule": steer_out.strip()[-40:],
        "atomic_view_operations": astat.get("evaluations", 0),
        "atomic_view_observations": astat.get("views", 0),
        "stress": st.strip()[-40:],
        "traces_validated_against_impl": len(ops_lines),
    })
    return C.finish(ctx)
