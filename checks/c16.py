"""C16 — strict acceptance implies permissive acceptance with the same meaning."""
import os, shutil, re
from . import common as C
from . import rawlib as R

PID = "C16"
MODULE = "CfbVerif.Props.C16"
THM = "CfbVerif.Props.C16 (model Raw no longer corresponds to the reader)"


def dev_signature(msg):
    m = re.search(r"deviation (\S+) on", msg)
    kind = m.group(1) if m else "?"
    if kind.startswith("combo:"):
        kind = "combo"
    which = "strict-accepts" if "strict open gave" in msg else "permissive-differs"
    return "%s:%s" % (kind, which)


def run(ctx):
    theorems = C.read_obligations(PID)
    harness_ok = C.build_harness(ctx)
    upper = None
    if harness_ok:
        upper = ctx.path("upper.txt")
        C.harness(["upper-dump", "--out", upper])
    C.regenerate(ctx, upper=upper)
    lean_ok = C.lean_build_and_audit(ctx, MODULE, theorems)
    ctx.assumptions += [
        "zero-padded DIFAT, unmarked DIFAT sectors and too-small DIFAT/FAT counts need > 109 FAT sectors: injected on one 18 MB base (two DIFAT sectors); in the quick tier those images are judged by the deviation oracle on the implementation only, in the thorough tier also through the Raw model",
        "valid files used as bases are the library's own images (snapshots inside API histories) and synthesised foreign layouts (C04's generator)",
    ]
    if not (lean_ok and harness_ok):
        return C.finish(ctx)
    quick = ctx.tier == "quick"
    try:
        snapdir, devdir, mutdir = R.scratch(ctx, "snaps"), R.scratch(ctx, "dev"), R.scratch(ctx, "mut")
        bases = R.snapshots(ctx, snapdir, ctx.seed, 50 if quick else 400, extra=["--meta-heavy"] if False else [])
        # foreign layouts (C04's generator): sectors anywhere, FAT not in sector 0, last sector linked to
        # sector 0 with the FAT exactly covering the file, balanced red-black trees, gaps
        laydir = R.scratch(ctx, "lay")
        C.harness(["layout", "--seed", ctx.seed + 21, "--count", 60 if quick else 1500, "--outdir", laydir])
        layouts = sorted(os.path.join(laydir, f) for f in os.listdir(laydir) if f.endswith(".cfb") and "_after" not in f)
        bases = layouts[:25 if quick else 300] + bases
        blist, dlist, mlist = ctx.path("bases.list"), ctx.path("dev.list"), ctx.path("mut.list")
        R.write_list(blist, bases[: 80 if quick else 2000])
        rc, out = C.harness(["deviate", "--seed", ctx.seed, "--bases", blist, "--outdir", devdir, "--combos", 3 if quick else 10, "--list", dlist])
        _, dhist, oracle = C.parse_stats(out)
        for msg in oracle:
            m = re.search(r"kept as (\S+?)\)", msg)
            keep = None
            if m and os.path.exists(m.group(1)):
                keep = os.path.join(ctx.replaydir, dev_signature(msg).replace(":", "_") + ".cfb")
                shutil.copy(m.group(1), keep)
            C.add_violation(ctx, dev_signature(msg), msg[:300],
                            "# C16: %s\n# the image is kept as %s\n# replay: harness raw --list <file with that path>\n" % (msg[:1000], keep))
        # one large base (18 MB, version 3, two DIFAT sectors): the DIFAT-specific deviations and the header
        # counts that can only be too SMALL when a chain exists (quick: judged by the deviation oracle on the
        # implementation; thorough: also through the model)
        bigdir, bigdev = R.scratch(ctx, "big"), R.scratch(ctx, "bigdev")
        C.harness(["phys", "--huge", bigdir, "--ops", ctx.path("huge.ops"), "--impl", ctx.path("huge.impl")])
        big = os.path.join(bigdir, "huge_v3.cfb")
        biglist_in, biglist = ctx.path("big.bases"), ctx.path("bigdev.list")
        R.write_list(biglist_in, [big])
        rc, out = C.harness(["deviate", "--seed", ctx.seed, "--bases", biglist_in, "--outdir", bigdev, "--combos", 2, "--list", biglist], timeout=3000)
        _, bhist, boracle = C.parse_stats(out)
        for k, v in bhist.items():
            dhist["big:" + k] = v
        for msg in boracle:
            m = re.search(r"kept as (\S+?)\)", msg)
            keep = None
            if m and os.path.exists(m.group(1)):
                keep = os.path.join(ctx.replaydir, "big_" + dev_signature(msg).replace(":", "_") + ".cfb")
                shutil.copy(m.group(1), keep)
            C.add_violation(ctx, "big:" + dev_signature(msg), msg[:300],
                            "# C16 (18 MB base with two DIFAT sectors): %s\n# the image is kept as %s\n# replay: harness raw --list <file with that path>\n" % (msg[:1000], keep))
        big_files = open(biglist).read().split() if (not quick and os.path.exists(biglist)) else []
        # part (a): every image of the valid / deviated / malformed families, both modes, vs the model;
        # whenever strict accepts, both dumps must be equal
        C.harness(["mutate", "--seed", ctx.seed + 5, "--bases", blist, "--outdir", mutdir, "--count", 1500 if quick else 100000, "--list", mlist])
        if not (os.path.exists(dlist) and os.path.exists(mlist)):
            ctx.undischarged.append("harness deviate/mutate crashed: " + out[-300:])
            return C.finish(ctx)
        files = bases + layouts[25 if quick else 300:] + open(dlist).read().split() + open(mlist).read().split() + big_files
        ops, imp, mod = R.run_raw(ctx, files, "c16")
        strict_ok = 0
        for i in range(0, len(ops) - 1, 2):
            p, s = imp[i], imp[i + 1]
            if s.startswith("ok"):
                strict_ok += 1
                if p != s:
                    dst = os.path.join(ctx.replaydir, "strict_vs_permissive_%d.cfb" % i)
                    shutil.copy(ops[i].split(" ")[2], dst)
                    C.add_violation(ctx, "modes-differ", "strict accepts %s but permissive gives %s" % (dst, p[:200]),
                                    "# C16: strict open accepts this image but permissive open differs\n%s\n" % dst)
        for i, (o, a, b) in enumerate(zip(ops, imp, mod)):
            if a != b and len(ctx.disagreements) < 5:
                dst = os.path.join(ctx.replaydir, "input_%d.cfb" % i)
                shutil.copy(o.split(" ")[2], dst)
                ctx.disagreements.append({"origin": o, "kept_as": dst, "level": "O+L", "implementation": a[:300], "model": b[:300], "theorem": THM})
        ctx.coverage.update({
            "evaluations": len(ops),
            "distinct_nontrivial": len(set(imp)) if imp else 0,
            "strict_accepted_images": strict_ok,
            "rule": "(a) images: valid snapshots, all single documented deviations at every applicable place + random combinations, and field-level corruptions; each opened in both modes by the real crate and by the Raw model (accept/reject, error kind, full logical dump compared); whenever strict accepts the two real dumps must be equal. (b) deviation oracle: permissive dump of the deviated image = dump of the undamaged image, strict = InvalidData. distinct_nontrivial = distinct result lines",
            "samples": ops[:2] + [imp[0][:200]] if ops else [],
            "histogram": dhist,
            "traces_validated_against_impl": len(ops),
        })
    finally:
        R.cleanup(ctx)
    return C.finish(ctx)
