"""Allocation-level campaigns (harness `phys` + driver `phys`): shared by C02, C03, C08, C15."""
import re
from . import common as C
from . import apilib as A

CONTENT_OPS = ("get", "hread", "hlen", "hsetlen", "hwrite", "hseek", "hflush")


def owner(msg):
    """Which property an oracle message of the phys campaign belongs to."""
    if "C15 " in msg:
        return "C15"
    if "do not reopen" in msg or "to a different state" in msg or "while reopening the bytes" in msg:
        return "C02"
    m = re.search(r": (\w+) .*? gave ", msg)
    if m and m.group(1) in CONTENT_OPS:
        return "C08"
    return "C02"


def signature(msg):
    if "C15 second-repetition growth" in msg:
        return "cycle:second-repetition-growth-by-mini-container-retention"
    if "keeps growing" in msg:
        return "cycle:keeps-growing"
    if "C15 cycle" in msg:
        return "cycle:second-repetition-changed-length"
    if "do not reopen" in msg:
        return "reopen:fails-" + ("strict" if "(strict)" in msg else "permissive")
    if "to a different state" in msg:
        return "reopen:different-state-" + ("strict" if "(strict)" in msg else "permissive")
    if "while reopening the bytes" in msg:
        return "reopen:panic"
    return A.signature(msg)


def campaign(ctx, args, tag, theorem, pid, max_report=5):
    return A.campaign(ctx, args, tag, theorem, sub="phys", max_report=max_report,
                      accept=lambda m: owner(m) == pid, sigfun=signature)


def corpus(ctx, theorem, pid):
    return A.corpus(ctx, theorem, sub="phys", ext=".phys", accept=lambda m: owner(m) == pid, sigfun=signature)


RULE = ("API histories (create; put/rm/mkdir/mkdirs/rmall with sizes on the 64-byte, 4096-byte and sector boundaries; up to 3 open handles "
        "with write/seek/set_len/read/flush/close; reopen in both modes; net-zero cycles repeated 3-4 times; `churn` histories that fill the mini stream over 2-3 MiniFAT sectors, drain it from the end and fill it again; `many` histories with 35-70 directory entries in nested storages, slots freed and reused, then a recursive removal) run on the real crate and on the "
        "two-level Lean model (Dir + Phys) in lock-step: after EVERY call the result, the length and FNV-64 of the complete file image "
        "(the model renders header, FAT, DIFAT, MiniFAT, directory and data sectors, stale bytes of freed sectors included) and the allocator "
        "caches (num_sectors, fat.len, free_sectors in order, minifat.len, free_mini_sectors in order, dir_entries.len, MiniFAT start, mini stream start/len; hook H3) are compared. "
        "distinct = distinct FNV hashes of history text")


def layout_lockstep(ctx, lops, limp, lmod, lspec):
    """Foreign layouts (harness `layout --ops/--impl`): the two-level model is loaded from each image
    (Phys.ofImage) and must reproduce the file (length + hash) and the allocator caches after the load and
    after every API call; SpecCheck judges the image after every call.  Returns the number of lines compared."""
    import os, shutil
    evaluations = 0
    # the two-level model loaded from each foreign image (Phys.ofImage), then the same API calls:
    # file image (length + hash) and allocator caches after the load and after every call
    if os.path.exists(lops):
        C.driver(["phys", "--spec", lspec], lops, lmod)
        lo, la, lb = open(lops).read().splitlines(), open(limp).read().splitlines(), open(lmod).read().splitlines()
        lv = open(lspec).read().splitlines()
        evaluations += len(lo)
        start, shown = 0, 0
        for i, (o, a, b) in enumerate(zip(lo, la, lb)):
            if o.startswith("load "):
                start = i
            if a != b and shown < 3 and not any(x.get("first_line") == start for x in ctx.disagreements):
                shown += 1
                img = o.split(" ")[1] if o.startswith("load ") else lo[start].split(" ")[1]
                keep = os.path.join(ctx.replaydir, "layout_lockstep_%d.cfb" % start)
                if os.path.exists(img):
                    shutil.copy(img, keep)
                ctx.disagreements.append({"origin": "layout history starting at line %d (%s)" % (start, keep), "first_line": start, "level": "P", "history": [l[:120] for l in lo[start:i + 1]],
                                          "implementation": a[-220:], "model": b[-220:], "theorem": "CfbVerif.Props.C04 (Phys.ofImage / Phys.pstep on a foreign layout no longer correspond to the library)"})
            elif a == b and i < len(lv) and lv[i].startswith("bad ") and not o.startswith("load "):
                keep = os.path.join(ctx.replaydir, "layout_mutated_illformed_%d.cfb" % start)
                if os.path.exists(lo[start].split(" ")[1]):
                    shutil.copy(lo[start].split(" ")[1], keep)
                C.add_violation(ctx, "mutate:spec:" + re.sub(r"\d+", "N", lv[i][4:60]).replace(" ", "_"), "a foreign layout mutated through the API is no longer well-formed: " + lv[i][4:300],
                                "# C04 (keeps C03): %s\n# foreign image kept as %s; calls applied to it:\n%s\n" % (lv[i][4:1500], keep, "\n".join(lo[start + 1:i + 1])))
    return evaluations
