"""Allocation-level campaigns (harness `phys` + driver `phys`): shared by C02, C03, C08, C15."""
import re
from . import common as C
from . import apilib as A

CONTENT_OPS = ("get", "hread", "hlen", "hsetlen", "hwrite", "hseek", "hflush")


def owner(msg):
    """Which property an oracle message of the phys campaign belongs to."""
    if "C15 " in msg:
        return "C15"
    if "do not reopen" in msg or "to a different state" in msg or "while reopening the bytes" in msg:
        return "C02"
    m = re.search(r": (\w+) .*? gave ", msg)
    if m and m.group(1) in CONTENT_OPS:
        return "C08"
    return "C02"


def signature(msg):
    if "C15 second-repetition growth" in msg:
        return "cycle:second-repetition-growth-by-mini-container-retention"
    if "keeps growing" in msg:
        return "cycle:keeps-growing"
    if "C15 cycle" in msg:
        return "cycle:second-repetition-changed-length"
    if "do not reopen" in msg:
        return "reopen:fails-" + ("strict" if "(strict)" in msg else "permissive")
    if "to a different state" in msg:
        return "reopen:different-state-" + ("strict" if "(strict)" in msg else "permissive")
    if "while reopening the bytes" in msg:
        return "reopen:panic"
    return A.signature(msg)


def campaign(ctx, args, tag, theorem, pid, max_report=5):
    return A.campaign(ctx, args, tag, theorem, sub="phys", max_report=max_report,
                      accept=lambda m: owner(m) == pid, sigfun=signature)


def corpus(ctx, theorem, pid):
    return A.corpus(ctx, theorem, sub="phys", ext=".phys", accept=lambda m: owner(m) == pid, sigfun=signature)


RULE = ("API histories (create; put/rm/mkdir/mkdirs/rmall with sizes on the 64-byte, 4096-byte and sector boundaries; up to 3 open handles "
        "with write/seek/set_len/read/flush/close; reopen in both modes; net-zero cycles repeated 3-4 times; `churn` histories that fill the mini stream over 2-3 MiniFAT sectors, drain it from the end and fill it again; `many` histories with 35-70 directory entries in nested storages, slots freed and reused, then a recursive removal) run on the real crate and on the "
        "two-level Lean model (Dir + Phys) in lock-step: after EVERY call the result, the length and FNV-64 of the complete file image "
        "(the model renders header, FAT, DIFAT, MiniFAT, directory and data sectors, stale bytes of freed sectors included) and the allocator "
        "caches (num_sectors, fat.len, free_sectors in order, minifat.len, free_mini_sectors in order, dir_entries.len, MiniFAT start, mini stream start/len; hook H3) are compared. "
        "distinct = distinct FNV hashes of history text")
