"""C05 — reading arbitrary bytes never panics, hangs or exhausts memory."""
import os, shutil
from . import common as C
from . import rawlib as R

PID = "C05"
MODULE = "CfbVerif.Props.All05"
THM = "CfbVerif.Props.C05 (model Raw no longer corresponds to lib.rs open_internal / validate / chain / entry / stream read)"


def run(ctx):
    theorems = C.read_obligations(PID)
    harness_ok = C.build_harness(ctx)
    upper = None
    if harness_ok:
        upper = ctx.path("upper.txt")
        C.harness(["upper-dump", "--out", upper])
    C.regenerate(ctx, upper=upper)
    lean_ok = C.lean_build_and_audit(ctx, MODULE, theorems)
    ctx.assumptions += [
        "memory: the model bounds what the code requests only through table sizes (FAT/DIFAT/directory/MiniFAT lengths are bounded by the file size; stream buffers by max_buffer_size); actual allocator behaviour is not modelled",
        "read-only calls after open (walk, lookups, whole-stream reads, seeks) are proved panic/hang-free only as far as stated in the obligations; the rest is lock-step on malformed inputs with a 10 s watchdog",
    ]
    if not (lean_ok and harness_ok):
        return C.finish(ctx)
    quick = ctx.tier == "quick"
    try:
        snapdir = R.scratch(ctx, "snaps")
        mutdir = R.scratch(ctx, "mut")
        bases = R.snapshots(ctx, snapdir, ctx.seed, 60 if quick else 300)
        # foreign layouts as bases too: FAT not in sector 0, sector 0 inside a chain, permuted chains,
        # red nodes — corruptions of those reach states no library-made file can be corrupted into
        laydir = R.scratch(ctx, "lay")
        C.harness(["layout", "--seed", ctx.seed + 31, "--count", 60 if quick else 600, "--outdir", laydir])
        bases += sorted(os.path.join(laydir, f) for f in os.listdir(laydir) if f.endswith(".cfb") and "_after" not in f)
        fuzz = []
        for d in ("infinite_loops_fuzzed", "panics_fuzzed"):
            p = os.path.join(C.REPO, "tests", d)
            if os.path.isdir(p):
                fuzz += sorted(os.path.join(p, f) for f in os.listdir(p))
        blist = ctx.path("bases.list")
        R.write_list(blist, bases + fuzz)
        # the thorough tier works through its 200 000 corrupted images in batches of 10 000, deleting
        # each batch before the next is written (disk: a batch is ~3 GB, all at once was ~65 GB)
        batches = [(ctx.seed, 8000)] if quick else [(ctx.seed + 7919 * k, 10000) for k in range(20)]
        classes, mhist = {}, {}
        bad = 0
        all_ops, all_imp = [], []
        for bi, (bseed, bcount) in enumerate(batches):
            shutil.rmtree(mutdir, ignore_errors=True)
            os.makedirs(mutdir, exist_ok=True)
            mlist = ctx.path("mut.list")
            rc, out = C.harness(["mutate", "--seed", bseed, "--bases", blist, "--outdir", mutdir, "--count", bcount, "--list", mlist])
            _, mh, _ = C.parse_stats(out)
            for k, v in mh.items():
                mhist[k] = mhist.get(k, 0) + v
            if rc != 0 or not os.path.exists(mlist):
                ctx.undischarged.append("harness mutate crashed: " + out[-300:])
                return C.finish(ctx)
            files = (fuzz if bi == 0 else []) + open(mlist).read().split()
            ops, imp, mod = R.run_raw(ctx, files, "malformed")
            all_ops += ops[:3] if not all_ops else []
            all_imp += imp
            base = bi * 1000000
            for i, (o, a, b) in enumerate(zip(ops, imp, mod)):
                k = " ".join(a.split(" ")[:2]) if a.startswith("err") else a.split(" ")[0]
                classes[k] = classes.get(k, 0) + 1
                if a.startswith("panic") or a == "timeout":
                    # the implementation itself violates the property on this input
                    dst = os.path.join(ctx.replaydir, "input_%d.cfb" % (base + i))
                    shutil.copy(o.split(" ")[2], dst)
                    C.add_violation(ctx, "open:" + a.split(" ")[0], "%s on %s gave %s" % (o.split(" ")[1], dst, a[:200]),
                                    "# C05: the implementation %s\n# replay: harness raw --list <file containing the path below>\n%s\n" % (a[:300], dst),
                                    name="open_%s_%d" % (a.split(" ")[0], base + i))
                    bad += 1
                elif a != b and len(ctx.disagreements) < 5:
                    dst = os.path.join(ctx.replaydir, "input_%d.cfb" % (base + i))
                    shutil.copy(o.split(" ")[2], dst)
                    ctx.disagreements.append({"origin": o, "kept_as": dst, "level": "O+L", "implementation": a[:300], "model": b[:300], "theorem": THM})
            if ctx.undischarged:
                break
        # files larger than 4 GiB (sparse source, harness/src/sparse.rs): a stream ending just below, at and beyond byte
        # 2^32, both versions, both modes — no call may panic, and on a tree that reads such files the bytes come back
        rc_s, out_s = C.harness(["sparse"], timeout=600)
        sst, _, sorc = C.parse_stats(out_s)
        if rc_s != 0:
            ctx.undischarged.append("harness sparse crashed: " + out_s[-300:])
        for msg in sorc[:2]:
            C.add_violation(ctx, "sparse-4gib:" + ("panic" if "panicked" in msg else "wrong-result"), msg[:400],
                            "# C05: %s\n# replay: harness sparse   (the file is synthesised by harness/src/sparse.rs: sector 0 FAT, 1 directory, DIFAT sectors, FAT sectors, the stream's last sector = last sector of the file)\n" % msg[:1500])
        classes["sparse-4gib:evaluations"] = sst.get("sparse_evaluations", 0)
        ops, imp = all_ops, all_imp
        nevals = len(all_imp) + sst.get("sparse_evaluations", 0)
        ctx.coverage.update({
            "evaluations": nevals,
            "distinct_nontrivial": len(set(imp)) if imp else 0,
            "rule": "byte strings = the repository's fuzz regression files + field-level corruptions (1-3 per image) of snapshots taken inside API histories and of synthesised foreign layouts (FAT not in sector 0, sector 0 inside chains, red nodes, gaps): header fields, header DIFAT slots, FAT/MiniFAT cells (self loops, cycles, rho shapes, out of range, every special value), directory entry name length/units/type/colour/links/start sector/size/CLSID/times, truncation and extension around sector boundaries, random bytes; each opened in both modes by the real crate (worker thread, 10 s watchdog, panic capture) followed by walk + whole-stream read of every stream, and by the Lean Raw model; compared on accept/reject + error kind + full logical dump. distinct_nontrivial = distinct result lines of the implementation",
            "samples": ops[:3] + [imp[0][:200]] if ops else [],
            "histogram": dict(classes, **mhist),
            "traces_validated_against_impl": nevals,
        })
    finally:
        R.cleanup(ctx)
    return C.finish(ctx)
