"""C03 — every produced image is a well-formed MS-CFB file by an independent checker."""
import os, re, bisect, glob, shutil
from . import common as C
from . import apilib as A
from . import physlib as P

PID = "C03"
MODULE = "CfbVerif.Props.C03"
THM = "CfbVerif.Props.C03 (model Phys.render no longer produces the bytes the library writes)"


def rule_sig(verdict):
    first = verdict[4:].split(" ;; ")[0]
    return "spec:" + re.sub(r"\d+", "N", first)[:70].strip().replace(" ", "_")


def run_spec_campaign(ctx, args, tag):
    """harness phys + driver phys --spec: SpecCheck's verdict on the model image after every call
    holds for the real image wherever the two images have the same length and hash."""
    ops, imp, mod, spec = ctx.path(tag + ".ops"), ctx.path(tag + ".impl"), ctx.path(tag + ".model"), ctx.path(tag + ".spec")
    snapdir = ctx.path(tag + ".snaps")
    os.makedirs(snapdir, exist_ok=True)
    for f in glob.glob(os.path.join(snapdir, "*")):
        os.remove(f)
    rc, out = C.harness(["phys"] + args + ["--ops", ops, "--impl", imp, "--snapdir", snapdir])
    if rc != 0:
        ctx.undischarged.append("harness phys campaign (%s) crashed: %s" % (tag, out[-300:]))
        return {}, {}, [], 0, 0
    stat, hist, _ = C.parse_stats(out)
    C.driver(["phys", "--spec", spec], ops, mod)
    ops_lines = open(ops).read().splitlines()
    hs = A.split_histories(ops_lines)
    starts = [h[0] for h in hs]
    a, b, verdicts = open(imp).read().splitlines(), open(mod).read().splitlines(), open(spec).read().splitlines()
    judged = 0
    seen_sig, seen_hist = set(), set()
    for i, (x, y) in enumerate(zip(a, b)):
        idx = bisect.bisect_right(starts, i) - 1
        if x != y:
            if idx not in seen_hist and len(seen_hist) < 3:
                seen_hist.add(idx)
                start, lines = hs[idx]
                prefix = lines[: i - start + 1]
                # the model's verdict does not transfer: judge the real image of this boundary directly
                imgpath = ctx.path(tag + ".mismatch.cfb")
                src, o2, i2 = ctx.path(tag + ".mm.src"), ctx.path(tag + ".mm.ops"), ctx.path(tag + ".mm.impl")
                with open(src, "w") as f:
                    f.write("\n".join(prefix + ["image " + imgpath]) + "\n")
                C.harness(["phys", "--replay", src, "--ops", o2, "--impl", i2])
                verdict = ""
                if os.path.exists(imgpath + ".impl"):
                    lst, res = ctx.path(tag + ".mm.list"), ctx.path(tag + ".mm.res")
                    open(lst, "w").write(imgpath + ".impl\n")
                    C.driver(["speccheck"], lst, res)
                    verdict = open(res).read().strip()
                    os.remove(imgpath + ".impl")
                if verdict.startswith("bad "):
                    C.add_violation(ctx, rule_sig(verdict), "after %s the real image breaks: %s" % (prefix[-1][:80], verdict[4:400]),
                                    "# C03 violation: SpecCheck on the real image after the last call below\n# %s\n"
                                    "# replay: append `image /tmp/x.cfb`, run `harness phys --replay <this file> --ops o --impl i`, then `echo /tmp/x.cfb.impl | driver speccheck`\n%s\n" % (verdict[4:1500], "\n".join(prefix)))
                else:
                    A.handle(ctx, prefix, [], [(i - start, x, y)], "%s history %d" % (tag, idx), THM, sub="phys", sigfun=P.signature)
            continue
        judged += 1
        v = verdicts[i] if i < len(verdicts) else "-"
        if v.startswith("bad "):
            sg = rule_sig(v)
            if sg in seen_sig:
                continue
            seen_sig.add(sg)
            start, lines = hs[idx]
            prefix = lines[: i - start + 1]
            C.add_violation(ctx, sg, "after %s the image breaks: %s" % (prefix[-1][:80], v[4:400]),
                            "# C03 violation: SpecCheck on the image after the last call below (model image = real image: same length and FNV-64)\n# %s\n"
                            "# replay: append `image /tmp/x.cfb`, run `harness phys --replay <this file> --ops o --impl i` (writes /tmp/x.cfb.impl), then `echo /tmp/x.cfb.impl | driver speccheck`\n%s\n" % (v[4:1500], "\n".join(prefix)))
    # real snapshots, judged directly
    snaps = sorted(glob.glob(os.path.join(snapdir, "*.cfb")))
    direct = 0
    if snaps:
        lst, res = ctx.path(tag + ".snaplist"), ctx.path(tag + ".snapres")
        with open(lst, "w") as f:
            f.write("\n".join(snaps) + "\n")
        C.driver(["speccheck"], lst, res)
        for path, v in zip(snaps, open(res).read().splitlines()):
            direct += 1
            if v.startswith("bad "):
                sg = rule_sig(v)
                m = re.search(r"h(\d+)_(\d+)\.cfb", path)
                hidx, step = int(m.group(1)), int(m.group(2))
                lines = hs[hidx][1][: step + 1] if hidx < len(hs) else []
                C.add_violation(ctx, sg, "real snapshot after step %d of history %d breaks: %s" % (step, hidx, v[4:400]),
                                "# C03 violation: SpecCheck on a real snapshot\n# %s\n%s\n" % (v[4:1500], "\n".join(lines)))
    for f in snaps:
        os.remove(f)
    sample = hs[min(2, len(hs) - 1)][1][:10] if hs else []
    return stat, hist, [l[:100] for l in sample], judged, direct


def run(ctx):
    theorems = C.read_obligations(PID)
    harness_ok = C.build_harness(ctx)
    upper = None
    if harness_ok:
        upper = ctx.path("upper.txt")
        C.harness(["upper-dump", "--out", upper])
    C.regenerate(ctx, upper=upper)
    lean_ok = C.lean_build_and_audit(ctx, MODULE, theorems)
    ctx.assumptions += [
        "SpecCheck (lean/CfbVerif/Spec/Check.lean) is the independent checker: its own parser, no code of the library or of the Raw reader model; its rule list is the property's; it is run, not proved complete",
        "a verdict on the model image counts for the real image only where both have the same length and FNV-64 (compared after every call); sampled real snapshots and the 18 MB image are judged directly",
        "the mini stream's chain may be longer than its length needs (it never shrinks): judged as `at least as long`; user streams must match exactly",
    ]
    if not (lean_ok and harness_ok):
        return C.finish(ctx)
    quick = ctx.tier == "quick"
    total_ops = total_h = distinct = judged = direct = 0
    hist, samples = {}, []
    plans = [
        ("spec", ["--seed", ctx.seed, "--count", 200 if quick else 4000, "--max-ops", 40 if quick else 80, "--reopen-pct", 5]),
        ("many", ["--seed", ctx.seed + 23, "--count", 6 if quick else 80, "--max-ops", 10, "--many-entries"]),
        ("churn", ["--seed", ctx.seed + 17, "--count", 10 if quick else 150, "--max-ops", 12, "--mini-churn"]),
        ("specbig", ["--seed", ctx.seed + 9, "--count", 25 if quick else 300, "--max-ops", 40, "--big"]),
    ]
    for tag, args in plans:
        stat, h, sample, j, d = run_spec_campaign(ctx, args, tag)
        total_ops += stat.get("ops", 0)
        total_h += stat.get("histories", 0)
        distinct += stat.get("distinct", 0)
        judged += j
        direct += d
        for k, v in h.items():
            hist[k] = hist.get(k, 0) + v
        if sample and len(samples) < 2:
            samples.append(sample)
    # files that start in a foreign layout (red nodes, permuted sectors, gaps) and are then mutated:
    # the result must still be well-formed (real images judged directly, model in lock-step)
    laydir = ctx.path("lay")
    os.makedirs(laydir, exist_ok=True)
    for f in glob.glob(os.path.join(laydir, "*")):
        os.remove(f)
    lops, limp, lmod, lspec = ctx.path("lay.ops"), ctx.path("lay.impl"), ctx.path("lay.model"), ctx.path("lay.spec")
    rc, out = C.harness(["layout", "--seed", ctx.seed + 41, "--count", 200 if quick else 3000, "--outdir", laydir, "--ops", lops, "--impl", limp], timeout=3000)
    if rc == 0:
        judged += P.layout_lockstep(ctx, lops, limp, lmod, lspec)
        after = sorted(glob.glob(os.path.join(laydir, "*_after.cfb")))
        lst, res = ctx.path("lay.list"), ctx.path("lay.res")
        open(lst, "w").write("\n".join(after) + "\n")
        C.driver(["speccheck"], lst, res)
        for f, v in zip(after, open(res).read().splitlines()):
            direct += 1
            if v.startswith("bad "):
                keep = os.path.join(ctx.replaydir, "foreign_layout_mutated.cfb")
                shutil.copy(f, keep)
                shutil.copy(f.replace("_after", ""), keep.replace(".cfb", "_before.cfb"))
                C.add_violation(ctx, "foreign:" + rule_sig(v), "a foreign (spec-valid) layout mutated through the API is no longer well-formed: " + v[4:300],
                                "# C03 violation: SpecCheck on %s (the layout before the calls: ..._before.cfb; the calls are in the evidence of C04's replay)\n# %s\n" % (keep, v[4:1500]))
    # histories in which handles outlive their streams (the stream is removed or overwritten, a storage or another
    # stream takes the freed slot) and are used afterwards, on the valid foreign layouts: whatever such a call
    # answers, the image the history leaves must be well-formed (strict reopen + SpecCheck on the final bytes)
    stale_stat = {}
    bases = sorted(f for f in glob.glob(os.path.join(laydir, "L*.cfb")) if "_after" not in f and "_highbits" not in f)
    if bases:
        sdir = ctx.path("stale")
        os.makedirs(sdir, exist_ok=True)
        blist, slist, sres = ctx.path("stale.bases"), ctx.path("stale.list"), ctx.path("stale.res")
        open(blist, "w").write("\n".join(bases) + "\n")
        rc, out = C.harness(["damage", "--stale", "--seed", ctx.seed + 5, "--bases", blist, "--count", 600 if quick else 8000, "--max-ops", 14, "--outdir", sdir, "--list", slist], timeout=3000)
        stale_stat, _, orc = C.parse_stats(out)
        orc = [m for m in orc if not m.startswith("C02 ") and not m.startswith("C10 ")]   # live-vs-reopened is C02's, refused handle calls are C10's
        for msg in orc[:2]:
            m = re.search(r"\[image (\S+) history (\S+)\]", msg)
            text = open(m.group(2)).read() if m and os.path.exists(m.group(2)) else ""
            keep = os.path.join(ctx.replaydir, "stale_handles.cfb")
            if m and os.path.exists(m.group(1)):
                shutil.copy(m.group(1), keep)
            C.add_violation(ctx, "stale-handles:strict-reopen", msg[:400], "# C03: %s\n# final image kept as %s; the calls (on a valid foreign layout, see C04 for the generator):\n%s\n" % (msg[:1500], keep, text))
        if rc == 0 and os.path.exists(slist):
            C.driver(["speccheck"], slist, sres)
            for f, v in zip(open(slist).read().splitlines(), open(sres).read().splitlines()):
                direct += 1
                if v.startswith("bad "):
                    keep = os.path.join(ctx.replaydir, "stale_handles_illformed.cfb")
                    shutil.copy(f, keep)
                    hist_file = f.replace(".cfb", ".history")
                    C.add_violation(ctx, "stale-handles:" + rule_sig(v), "after a history in which handles outlive their streams the image is no longer well-formed: " + v[4:300],
                                    "# C03 violation: SpecCheck on %s\n# %s\n# the calls (on a valid foreign layout):\n%s\n" % (keep, v[4:1500], open(hist_file).read() if os.path.exists(hist_file) else ""))
                    break
        shutil.rmtree(sdir, ignore_errors=True)
    for f in glob.glob(os.path.join(laydir, "*")):
        os.remove(f)
    # the large file: > 236 FAT sectors in version 3 (two DIFAT sectors)
    hdir = ctx.path("huge")
    os.makedirs(hdir, exist_ok=True)
    ops, imp, mod = ctx.path("huge.ops"), ctx.path("huge.impl"), ctx.path("huge.model")
    rc, out = C.harness(["phys", "--huge", hdir, "--ops", ops, "--impl", imp])
    stat, _, oracle = C.parse_stats(out)
    for msg in oracle:
        C.add_violation(ctx, P.signature(msg), msg[:400], "# C03/C02 on the 18 MB history: %s\n%s\n" % (msg[:1500], open(ops).read()))
    img = os.path.join(hdir, "huge_v3.cfb")
    if os.path.exists(img):
        lst, res = ctx.path("huge.list"), ctx.path("huge.res")
        open(lst, "w").write(img + "\n")
        C.driver(["speccheck"], lst, res)
        v = open(res).read().strip()
        direct += 1
        if v.startswith("bad "):
            C.add_violation(ctx, rule_sig(v), "the %d-byte image with two DIFAT sectors breaks: %s" % (stat.get("huge_bytes", 0), v[4:400]),
                            "# C03 violation on the large file (harness phys --huge <dir>; driver speccheck)\n# %s\n%s\n" % (v[4:1500], open(ops).read()))
        os.remove(img)
    if not quick:
        C.driver(["phys"], ops, mod)
        for (ln, a, b) in C.diff_lines(imp, mod)[:2]:
            ctx.disagreements.append({"origin": "huge history line %d" % ln, "level": "P", "implementation": a[-200:], "model": b[-200:], "theorem": THM})
        total_ops += 8
    ctx.coverage.update({
        "evaluations": judged + direct,
        "distinct_nontrivial": distinct,
        "rule": P.RULE + ". C03: after every call SpecCheck (independent Lean checker: header, DIFAT, FAT marks and coverage, single ownership of sectors and mini sectors, no unowned non-free sector, header counts, chain length vs size, cutoff placement, search-tree order under CFB order, red-red, entry field rules, blank unallocated entries, whole sectors) judges the model image; the verdict counts where model and real image agree (length + hash); plus direct judgement of sampled real snapshots and of an 18 MB version-3 image with 275 FAT sectors and two DIFAT sectors (thorough: that history also in lock-step); plus histories on valid foreign layouts in which handles outlive their streams and are used afterwards, the final bytes reopened strictly and judged by SpecCheck. evaluations = images judged",
        "samples": samples,
        "traces_validated_against_impl": total_h,
        "images_judged_via_equal_hash": judged,
        "real_images_judged_directly": direct,
        "stale_handle_histories": stale_stat.get("stale_histories", 0),
        "stale_handle_calls": stale_stat.get("stale_handle_calls", 0),
        "histogram": hist,
    })
    return C.finish(ctx)
