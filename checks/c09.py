"""C09 — names are validated, case-insensitive, and paths are normalised consistently."""
import os, re
from . import common as C
from . import apilib as A

PID = "C09"
MODULE = "CfbVerif.Props.C10"


def signature(msg):
    if msg.startswith("cmp"):
        return "cmp:order-differs-from-cfb-order"
    if msg.startswith("validate"):
        return "validate:wrong-verdict"
    if "panicked" in msg:
        return msg.split(" ")[0] + ":panic"
    return "names:other"


def dump_upper(ctx):
    path = ctx.path("upper.txt")
    rc, out = C.harness(["upper-dump", "--out", path])
    if rc != 0:
        ctx.undischarged.append("upper-casing dump failed: " + out[-200:])
        return None
    stats, _, oracle = C.parse_stats(out)
    for msg in oracle:
        t = msg.split()
        if t[0] == "upper":
            c, table = t[1], t[5]
            what = "cfb_uppercase_char(U+%s) gave %s but uppercase.txt over char::to_uppercase gives U+%s: the names <U+%s> and <U+%s> are letter-case variants and no longer compare equal" % (c.upper(), t[3], table.upper(), c.upper(), table.upper())
            C.add_violation(ctx, "upper:%s" % c, what,
                            "# C09 violation: %s\n# replay: harness names --replay <this file> --ops o --impl i   (expected output: eq)\ncmp %s %s\n" % (what, c, table))
        else:
            C.add_violation(ctx, "upper-alias:%s" % t[1], msg, "# C09 violation: %s\ncmp %s %s\n" % (msg, t[1], t[4].rstrip(",")))
    return path


def run_pure(ctx, count, seed):
    ops, imp, mod = ctx.path("names.ops"), ctx.path("names.impl"), ctx.path("names.model")
    rc, out = C.harness(["names", "--seed", seed, "--count", count, "--ops", ops, "--impl", imp])
    if rc != 0:
        ctx.undischarged.append("harness names campaign crashed: " + out[-300:])
        return 0, {}, []
    _, hist, oracle = C.parse_stats(out)
    C.driver(["names"], ops, mod)
    diffs = C.diff_lines(imp, mod)
    ops_lines = open(ops).read().splitlines()
    for msg in oracle[:50]:
        line = " ".join(msg.split(" ")[:3]) if msg.startswith("cmp") else " ".join(msg.split(" ")[:2])
        C.add_violation(ctx, signature(msg), msg,
                        "# C09 violation found by the CFB-order / validation oracle on the implementation (hook H2)\n# %s\n# replay: harness names --replay <this file> --ops o --impl i\n%s\n" % (msg, line))
    flagged = set(" ".join(m.split(" ")[:3]) for m in oracle)
    for (ln, a, b) in diffs[:200]:
        if any(ops_lines[ln].startswith(f) for f in flagged):
            continue
        ctx.disagreements.append({"origin": "seed %d line %d" % (seed, ln), "level": "O", "op": ops_lines[ln],
                                  "implementation": a, "model": b,
                                  "theorem": "CfbVerif.Props.C09 (model Names no longer corresponds to path.rs)"})
        if len(ctx.disagreements) >= 5:
            break
    return len(ops_lines), hist, ops_lines[:6]


def run(ctx):
    theorems = C.read_obligations(PID)
    harness_ok = C.build_harness(ctx)
    upper = dump_upper(ctx) if harness_ok else None
    C.regenerate(ctx, upper=upper)
    lean_ok = C.lean_build_and_audit(ctx, MODULE, theorems)
    ctx.assumptions += [
        "letter case = uppercase.txt (read as data) over char::to_uppercase().next() of the running toolchain; the Lean table is generated from that, and cfb_uppercase_char (hook H2) is compared with it for all 0x10F800 scalars on every run; MS-CFB's normative table (note <3> of 2.6.4) is not available offline",
        "std::path::Path::components is modelled for Unix paths that are valid UTF-8; non-UTF-8 components are exercised on the implementation only",
    ]
    if not (lean_ok and harness_ok):
        return C.finish(ctx)
    quick = ctx.tier == "quick"
    total, hist, samples = 0, {}, []
    # corpus first
    cdir = os.path.join(C.VERIF, "corpus", PID)
    if os.path.isdir(cdir):
        for name in sorted(os.listdir(cdir)):
            if not name.endswith(".ops"):
                continue
            src = os.path.join(cdir, name)
            ops, imp, mod = ctx.path("corpus.ops"), ctx.path("corpus.impl"), ctx.path("corpus.model")
            lines = [l for l in open(src).read().splitlines() if l and not l.startswith("#")]
            open(ops, "w").write("\n".join(lines) + "\n")
            C.harness(["names", "--replay", ops, "--ops", ops, "--impl", imp])
            C.driver(["names"], ops, mod)
            for (ln, a, b) in C.diff_lines(imp, mod):
                ctx.disagreements.append({"origin": "corpus/" + name, "level": "O", "op": lines[ln], "implementation": a, "model": b})
            total += len(lines)
    n, h, s = run_pure(ctx, 200000 if quick else 3000000, ctx.seed)
    total += n
    samples += s
    for k, v in h.items():
        hist[k] = hist.get(k, 0) + v
    # API level: create / look up under case variants and path spellings / list / remove
    api_ops = api_h = 0
    cn, co = A.corpus(ctx, "CfbVerif.Props.C01/C10 (model Dir no longer corresponds to lib.rs/directory.rs)")
    api_h += cn
    api_ops += co
    for tag, args in [("names-api", ["--seed", ctx.seed, "--count", 900 if quick else 5000, "--max-ops", 40, "--invalid-names", "--no-meta", "--reopen-pct", 3]),
                      ("perm5", ["--perms", 5, "--seed", ctx.seed, "--sample", 2 if quick else 20])]:
        stat, h2, sample = A.campaign(ctx, args, tag, "CfbVerif.Props.C01/C10 (model Dir no longer corresponds to lib.rs/directory.rs)")
        api_ops += stat.get("ops", 0)
        api_h += stat.get("histories", 0)
        for k, v in h2.items():
            hist["api:" + k] = hist.get("api:" + k, 0) + v
    total += api_ops
    ctx.coverage["traces_validated_against_impl"] = api_h
    ctx.coverage.update({
        "evaluations": total,
        "distinct_nontrivial": total,
        "rule": "calls of validate_name / compare_names / name_chain_from_path through hook H2 on names drawn from classes (ASCII mixed case, cased and caseless non-ASCII, uppercase.txt keys, supplementary plane, U+E000..U+FFFF, forbidden characters, lengths 0..40 units) and on pairs related by case/prefix/one-character edits; path spellings with leading/trailing/double slashes, '.', '..'; every call compared with the Lean model (level O); counted as evaluations (distinctness not measured: count is conservative only in that trivial empty-name cases are < 6%)",
        "samples": samples,
        "histogram": hist,
        "upper_table_entries": sum(1 for _ in open(upper)) if upper else 0,
    })
    return C.finish(ctx)
