"""C11 — mutating any file the library agreed to open never panics or hangs."""
import os, re, shutil
from . import common as C
from . import rawlib as R
from . import physlib as P

PID = "C11"
MODULE = "CfbVerif.Props.C11"
THM = "CfbVerif.Props.C11 (model Phys no longer corresponds to the write path)"


def signature(msg):
    m = re.search(r"@ (\S+:\d+)", msg)
    if m:
        return "panic:" + m.group(1)
    if "hang" in msg:
        m = re.search(r"\): (\w+) ", msg)
        return "hang:" + (m.group(1) if m else "?")
    m = re.search(r"panicked: (.{0,60})", msg)
    return "panic:" + re.sub(r"\d+", "N", m.group(1) if m else "?").strip().replace(" ", "_")


def run(ctx):
    theorems = C.read_obligations(PID)
    harness_ok = C.build_harness(ctx)
    upper = None
    if harness_ok:
        upper = ctx.path("upper.txt")
        C.harness(["upper-dump", "--out", upper])
    C.regenerate(ctx, upper=upper)
    lean_ok = C.lean_build_and_audit(ctx, MODULE, theorems)
    ctx.assumptions += [
        "the theorems are about the allocation model's panic and hang exits under range conditions (free lists inside their tables, a successful chain walk before extend_chain); that the damaged states reachable from permissive open satisfy what each call needs is decided by the campaign, not proved",
        "the model's write path is tied to the code byte for byte on valid files (C02/C03/C15 lock-step); on damaged files it is loaded from every accepted image it can be loaded from (a directory that is a tree, streams whose chains can be read) and compared at the level of allocation decisions (result kind + allocator caches after every call, until one side refuses); error behaviour and file contents on damaged tables are not compared",
        "in half of the cases a stream that a handle is bound to is also removed, overwritten or opened a second time (what such a handle means is not judged — C07 speaks of a handle while its stream exists — only that nothing panics or hangs)",
        "debug assertions count as panics (the harness builds the crate with debug assertions on)",
    ]
    if not (lean_ok and harness_ok):
        return C.finish(ctx)
    quick = ctx.tier == "quick"
    try:
        snapdir, laydir, keep = R.scratch(ctx, "snaps"), R.scratch(ctx, "lay"), R.scratch(ctx, "keep")
        bases = R.snapshots(ctx, snapdir, ctx.seed, 40 if quick else 300, max_ops=30)
        C.harness(["layout", "--seed", ctx.seed + 3, "--count", 40 if quick else 400, "--outdir", laydir])
        bases += sorted(os.path.join(laydir, f) for f in os.listdir(laydir) if f.endswith(".cfb"))
        blist = ctx.path("bases.list")
        R.write_list(blist, bases)
        # corpus first: damaged images + histories that once panicked (kept minimal witnesses)
        cdir = os.path.join(C.VERIF, "corpus", PID)
        corpus_cases = 0
        if os.path.isdir(cdir):
            for name in sorted(os.listdir(cdir)):
                if not name.endswith(".cfb"):
                    continue
                img, hist_file = os.path.join(cdir, name), os.path.join(cdir, name[:-4] + ".history")
                rc0, out0 = C.harness(["damage", "--replay", img, "--history", hist_file], timeout=120)
                corpus_cases += 1
                for l in out0.splitlines():
                    if l.startswith("ORACLE "):
                        C.add_violation(ctx, signature(l), "corpus/%s: %s" % (name, re.sub(r"[0-9a-f]{60,}", "<bytes>", l)[:300]),
                                        "# C11: %s\n# replay: harness damage --replay %s --history %s\n%s" % (l[:1500], img, hist_file, open(hist_file).read()))
        rc, out = C.harness(["damage", "--seed", ctx.seed, "--bases", blist, "--count", 20000 if quick else 400000, "--max-ops", 12, "--keepdir", keep], timeout=20000)
        if rc != 0:
            ctx.undischarged.append("harness damage campaign crashed: " + out[-300:])
            return C.finish(ctx)
        stat, hist, oracle = C.parse_stats(out)
        for msg in oracle:
            sg = signature(msg)
            m = re.search(r"\[image (\S+) history (\S+)\]", msg)
            img = hist_path = None
            text = ""
            if m and os.path.exists(m.group(1)):
                name = sg.replace(":", "_").replace("/", "_")
                img = os.path.join(ctx.replaydir, name + ".cfb")
                hist_path = os.path.join(ctx.replaydir, name + ".history")
                shutil.copy(m.group(1), img)
                shutil.copy(m.group(2), hist_path)
                text = open(hist_path).read()
            C.add_violation(ctx, sg, re.sub(r"[0-9a-f]{60,}", "<bytes>", msg)[:400],
                            "# C11: %s\n# replay: harness damage --replay %s --history %s\n%s" % (re.sub(r"[0-9a-f]{60,}", "<bytes>", msg)[:1500], img, hist_path, text))
        # growth through every table-growth branch of the write path (second FAT sector ... first and second
        # DIFAT sector: a V3 file of 18 MB): no call may panic
        hdir = ctx.path("huge")
        os.makedirs(hdir, exist_ok=True)
        rc3, out3 = C.harness(["phys", "--huge", hdir, "--ops", ctx.path("huge.ops"), "--impl", ctx.path("huge.impl")])
        for msg in C.parse_stats(out3)[2]:
            if "panic" in msg:
                C.add_violation(ctx, "panic:growth", msg[:400], "# C11: %s\n# replay: harness phys --huge <dir> --ops o --impl i\n%s\n" % (msg[:1500], open(ctx.path("huge.ops")).read() if os.path.exists(ctx.path("huge.ops")) else ""))
        try:
            os.remove(os.path.join(hdir, "huge_v3.cfb"))
        except OSError:
            pass
        # the allocation model on DAMAGED tables (what the theorems of Phys/NoPanic*.lean are about): the two-level
        # model is loaded from each accepted damaged image it can be loaded from, the same calls are applied, and
        # as long as both sides proceed they must make the same allocation decisions: the same result kind and the
        # same allocator caches (num_sectors, fat.len, free_sectors in order, minifat.len, free_mini_sectors in
        # order, dir_entries.len, MiniFAT start, mini stream start/len) after every call.  Where one side refuses
        # and the other proceeds the history ends (the library checks some inconsistencies the model does not
        # look at, and the other way round: error behaviour on damaged tables is not claimed equal); file contents
        # are not compared (a sector that is table and data at once is rendered from the table by the model).
        lkdir = R.scratch(ctx, "lockstep")
        lops, limp, lmod = ctx.path("lk.ops"), ctx.path("lk.impl"), ctx.path("lk.model")
        rc4, out4 = C.harness(["damage", "--lockstep", "--seed", ctx.seed, "--bases", blist, "--count", 1500 if quick else 20000, "--max-ops", 10,
                               "--outdir", lkdir, "--ops", lops, "--impl", limp], timeout=6000)
        lk = {"histories": 0, "not_loadable_or_different_after_load": 0, "calls_compared": 0, "implementation_refuses_more": 0, "model_refuses_more": 0, "both_fail": 0}
        if rc4 == 0 and os.path.exists(lops):
            C.driver(["phys", "--damaged"], lops, lmod)
            lo, la, lb = open(lops).read().splitlines(), open(limp).read().splitlines(), open(lmod).read().splitlines()

            def res(x, op):
                r = x.split(" | ")[0]
                return "ok" if op.split(" ")[0] in ("get", "hread") and r.startswith("ok") else r

            def caches(x):
                parts = x.split(" | ")
                return parts[2] if len(parts) > 2 else ""
            i = 0
            while i < len(lo) and i < len(lb):
                j = i + 1
                while j < len(lo) and not lo[j].startswith("load "):
                    j += 1
                lk["histories"] += 1
                if lb[i].startswith("unloadable") or caches(la[i]) != caches(lb[i]):
                    lk["not_loadable_or_different_after_load"] += 1
                else:
                    for k in range(i + 1, min(j, len(lb))):
                        ra, rb = res(la[k], lo[k]), res(lb[k], lo[k])
                        fa = ra.startswith("err") or ra == "panic"
                        fb = "PHYSFAIL" in lb[k] or rb.startswith("err")
                        if fa or fb:
                            lk["both_fail" if fa and fb else "implementation_refuses_more" if fa else "model_refuses_more"] += 1
                            break
                        if ra != rb or caches(la[k]) != caches(lb[k]):
                            keep = os.path.join(ctx.replaydir, "damaged_lockstep_%d.cfb" % i)
                            img = lo[i].split(" ")[1]
                            if os.path.exists(img):
                                shutil.copy(img, keep)
                            if len([d for d in ctx.disagreements if d.get("level") == "H(damaged)"]) < 3:
                                ctx.disagreements.append({"origin": "damaged image %s, calls below" % keep, "level": "H(damaged)", "history": [l[:120] for l in lo[i + 1:k + 1]],
                                                          "implementation": la[k][-260:], "model": lb[k][-260:], "theorem": THM})
                            break
                        lk["calls_compared"] += 1
                i = j
        elif rc4 != 0:
            ctx.undischarged.append("harness damage --lockstep crashed: " + out4[-300:])
        # the model side of the tie: a small lock-step run of the write path on valid files
        stat2, h2, _ = P.campaign(ctx, ["--seed", ctx.seed, "--count", 40 if quick else 500, "--max-ops", 30], "tie", THM, PID)
        ctx.coverage.update({
            "evaluations": stat.get("ops", 0) + stat2.get("ops", 0),
            "distinct_nontrivial": stat.get("accepted", 0),
            "rule": "bases: library-made snapshots and synthesised foreign layouts; per case 1-3 corruptions — field-level (header fields, DIFAT/FAT/MiniFAT cells incl. cycles, self-loops, out-of-range and special values, directory links/types/sizes/start sectors/names, truncation/extension) and targeted at what open does not walk (mini stream length/start, stream length across the cutoff, stream start elsewhere, chain cells cut/looped/crossed, MiniFAT start/count) — kept when permissive open accepts; then 2-13 calls (in half of the cases also on streams a handle is bound to: removal, overwrite, a second handle) (open handles with write/set_len/seek/read/flush/close on sizes around 64/4096, put, remove_stream, create_storage, remove_storage_all, get, flush, final drop) in a worker thread; oracle: no panic (hook records file:line), no call longer than 15 s. distinct_nontrivial = accepted damaged images; evaluations = API calls on them + lock-step calls of the model tie",
            "cases": stat.get("cases", 0),
            "corpus_cases": corpus_cases,
            "accepted_damaged_images": stat.get("accepted", 0),
            "histogram": {k: v for k, v in hist.items() if not k.startswith("accepted:")},
            "accepted_by_corruption": {k[9:]: v for k, v in hist.items() if k.startswith("accepted:")},
            "traces_validated_against_impl": stat2.get("histories", 0) + lk["histories"] - lk["not_loadable_or_different_after_load"],
            "model_on_damaged_tables": lk,
            "samples": [],
        })
    finally:
        R.cleanup(ctx)
    return C.finish(ctx)
