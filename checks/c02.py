"""C02 — write-through persistence: the byte image always reopens to the same state."""
import os
from . import common as C
from . import physlib as P

PID = "C02"
MODULE = "CfbVerif.Props.C02"
THM = "CfbVerif.Props.C02 (model Phys.render / Phys.pstep no longer corresponds to what the library has written between calls)"


def run(ctx):
    theorems = C.read_obligations(PID)
    harness_ok = C.build_harness(ctx)
    upper = None
    if harness_ok:
        upper = ctx.path("upper.txt")
        C.harness(["upper-dump", "--out", upper])
    C.regenerate(ctx, upper=upper)
    lean_ok = C.lean_build_and_audit(ctx, MODULE, theorems)
    ctx.assumptions += [
        "the model is write-through by construction (its image is a function of the tables after each call); that the library's bytes equal that image at every call boundary, with no flush, is compared after every call (length + FNV-64), not proved",
        "that an image reopens to the logical state is decided per boundary on the implementation (both modes, full dump) at every 5th quiescent boundary and at the end of every history, and by continuing histories on the reopened file; the reader model (Raw) is run on sampled real snapshots in C05/C16",
    ]
    if not (lean_ok and harness_ok):
        return C.finish(ctx)
    quick = ctx.tier == "quick"
    total_ops = total_h = distinct = 0
    hist, samples = {}, []
    n, o = P.corpus(ctx, THM, PID)
    total_h += n
    total_ops += o
    plans = [
        ("wt", ["--seed", ctx.seed, "--count", 250 if quick else 5000, "--max-ops", 40 if quick else 80, "--reopen-pct", 10]),
        ("many", ["--seed", ctx.seed + 23, "--count", 6 if quick else 80, "--max-ops", 10, "--many-entries"]),
        ("churn", ["--seed", ctx.seed + 17, "--count", 12 if quick else 150, "--max-ops", 12, "--mini-churn"]),
        ("wtbig", ["--seed", ctx.seed + 11, "--count", 25 if quick else 300, "--max-ops", 40, "--big", "--reopen-pct", 10]),
    ]
    for tag, args in plans:
        stat, h, sample = P.campaign(ctx, args, tag, THM, PID)
        total_ops += stat.get("ops", 0)
        total_h += stat.get("histories", 0)
        distinct += stat.get("distinct", 0)
        for k, v in h.items():
            hist[k] = hist.get(k, 0) + v
        if sample and len(samples) < 2:
            samples.append([l[:100] for l in sample])
    # files another writer produced (red entries, entries in any slots, sectors in any order), mutated through
    # the API: the bytes must reopen to the live state as well ("starting from any previously produced file")
    from . import rawlib as R
    import re, shutil
    laydir = R.scratch(ctx, "lay02")
    try:
        lops, limp = ctx.path("lay02.ops"), ctx.path("lay02.impl")
        rc, out = C.harness(["layout", "--outdir", laydir, "--ops", lops, "--impl", limp, "--seed", ctx.seed + 77, "--count", 60 if quick else 1500], timeout=3000)
        if rc != 0:
            ctx.undischarged.append("harness layout crashed: " + out[-300:])
        else:
            st, _, oracle = C.parse_stats(out)
            total_ops += st.get("ops", 0)
            hist["foreign-layouts-mutated-and-reopened"] = st.get("images", st.get("ops", 0))
            seen = set()
            for msg in oracle:
                if "after mutating" not in msg and "reopen" not in msg:
                    continue  # reading the foreign file itself is C04's subject
                sg = "foreign:bytes-do-not-reopen-the-same"
                if sg in seen:
                    continue
                seen.add(sg)
                m = re.search(r"(/\S+?\.cfb)", msg)
                keep = None
                if m and os.path.exists(m.group(1)):
                    keep = os.path.join(ctx.replaydir, "foreign_layout.cfb")
                    shutil.copy(m.group(1), keep)
                C.add_violation(ctx, sg, msg[:400], "# C02 on a file another writer produced: %s\n# the synthesised image is kept as %s; the API calls are in the message\n" % (msg[:1500], keep))
            # histories on those layouts in which handles outlive their streams (removed, overwritten, the slot retaken by
            # a storage or another stream) and are used afterwards; when every handle is gone the live object must
            # report what the reopened bytes report
            import glob as _glob
            sbases = sorted(f for f in _glob.glob(os.path.join(laydir, "L*.cfb")) if "_after" not in f and "_highbits" not in f)
            if sbases:
                sdir = ctx.path("stale02")
                os.makedirs(sdir, exist_ok=True)
                blist, slist = ctx.path("stale02.bases"), ctx.path("stale02.list")
                open(blist, "w").write("\n".join(sbases) + "\n")
                rc2, out2 = C.harness(["damage", "--stale", "--seed", ctx.seed + 15, "--bases", blist, "--count", 600 if quick else 8000, "--max-ops", 14, "--outdir", sdir, "--list", slist], timeout=3000)
                sst, _, sorc = C.parse_stats(out2)
                hist["stale-handle-histories-reopened"] = sst.get("stale_histories", 0)
                total_ops += sst.get("stale_calls", 0)
                if rc2 != 0:
                    ctx.undischarged.append("harness damage --stale crashed: " + out2[-300:])
                for msg in [m for m in sorc if m.startswith("C02 ")][:1]:
                    m = re.search(r"\[image (\S+) history (\S+)\]", msg)
                    text, keep = "", None
                    if m and os.path.exists(m.group(1)):
                        keep = os.path.join(ctx.replaydir, "stale_handles_live_vs_reopened.cfb")
                        shutil.copy(m.group(1), keep)
                        text = open(m.group(2)).read() if os.path.exists(m.group(2)) else ""
                    C.add_violation(ctx, "stale-handles:live-differs-from-reopened", msg[:400], "# C02: %s\n# final bytes kept as %s; the calls (on a valid foreign layout, opened strictly):\n%s\n" % (msg[:1500], keep, text))
                shutil.rmtree(sdir, ignore_errors=True)
    finally:
        R.cleanup(ctx)
    # the large file (V3, > 236 FAT sectors, two DIFAT sectors): the bytes must reopen to the live state
    hdir = ctx.path("huge")
    os.makedirs(hdir, exist_ok=True)
    hops, himp = ctx.path("huge.ops"), ctx.path("huge.impl")
    rc, out = C.harness(["phys", "--huge", hdir, "--ops", hops, "--impl", himp])
    _, _, oracle = C.parse_stats(out)
    for msg in oracle:
        C.add_violation(ctx, P.signature(msg), msg[:400], "# C02 on the 18 MB history (harness phys --huge <dir>): %s\n%s\n" % (msg[:1500], open(hops).read() if os.path.exists(hops) else ""))
    img = os.path.join(hdir, "huge_v3.cfb")
    if os.path.exists(img):
        os.remove(img)
    total_ops += 8
    if not quick:
        hmod = ctx.path("huge.model")
        C.driver(["phys"], hops, hmod)
        for (ln, a, b) in C.diff_lines(himp, hmod)[:2]:
            ctx.disagreements.append({"origin": "huge history line %d" % ln, "level": "P", "implementation": a[-200:], "model": b[-200:], "theorem": THM})
    ctx.coverage.update({
        "evaluations": total_ops,
        "distinct_nontrivial": distinct,
        "rule": P.RULE + ". C02 oracle on the implementation: at sampled boundaries with no dirty handle the backing bytes (no flush) are opened with open and open_strict and the full logical dump (walk with metadata + every stream's bytes) is compared with the live object's; 10% of the calls are reopen (the history continues on the reopened bytes, results still compared with the abstract model); `--big` adds streams of 70-130 kB (several FAT sectors in V3); plus one 18 MB version-3 history (275 FAT sectors, two DIFAT sectors) whose bytes are reopened in both modes (thorough: also in lock-step with the model)",
        "samples": samples,
        "traces_validated_against_impl": total_h,
        "boundaries_reopened_both_modes": hist.get("c02:boundary-judged", 0),
        "histogram": hist,
    })
    return C.finish(ctx)
