"""C15 — released space is reused: repeating a net-zero cycle does not grow the file."""
from . import common as C
from . import physlib as P

PID = "C15"
MODULE = "CfbVerif.Props.C15"
THM = "CfbVerif.Props.C15 (model Phys no longer corresponds to alloc.rs / minialloc.rs / chain.rs / minichain.rs / stream.rs)"


def run(ctx):
    theorems = C.read_obligations(PID)
    harness_ok = C.build_harness(ctx)
    upper = None
    if harness_ok:
        upper = ctx.path("upper.txt")
        C.harness(["upper-dump", "--out", upper])
    C.regenerate(ctx, upper=upper)
    lean_ok = C.lean_build_and_audit(ctx, MODULE, theorems)
    ctx.assumptions += [
        "the theorems are about single allocations and releases (reuse from the free lists, no growth while they are non-empty, invariant kept); the statement about whole cycles is decided per history by the cycle oracle on the implementation and the byte-exact model, not by a theorem",
        "`from the second repetition on` is read as: the length after repetition 2 equals the length after repetition 1 (and so on); growth confined to the second repetition and explained by the MiniFAT / mini stream chains keeping sectors they took in the first repetition is the recorded known finding, any other growth is a violation",
        "the file is never truncated by the library, so `size unchanged` = no sector appended",
    ]
    if not (lean_ok and harness_ok):
        return C.finish(ctx)
    quick = ctx.tier == "quick"
    total_ops = total_h = distinct = 0
    hist, samples = {}, []
    n, o = P.corpus(ctx, THM, PID)
    total_h += n
    total_ops += o
    plans = [
        ("cyc", ["--seed", ctx.seed, "--count", 600 if quick else 4000, "--max-ops", 30 if quick else 60, "--reopen-pct", 4]),
        ("churn", ["--seed", ctx.seed + 17, "--count", 10 if quick else 150, "--max-ops", 12, "--mini-churn"]),
        ("cycbig", ["--seed", ctx.seed + 5, "--count", 30 if quick else 400, "--max-ops", 40, "--big"]),
    ]
    for tag, args in plans:
        stat, h, sample = P.campaign(ctx, args, tag, THM, PID)
        total_ops += stat.get("ops", 0)
        total_h += stat.get("histories", 0)
        distinct += stat.get("distinct", 0)
        for k, v in h.items():
            hist[k] = hist.get(k, 0) + v
        if sample and len(samples) < 2:
            samples.append([l[:100] for l in sample])
    # one repetition releases more than 65 536 sectors at once (a 34 MiB stream in a version-3 file): decided on
    # the implementation alone, by the length of the backing file after each of four repetitions
    rc_h, out_h = C.harness(["phys", "--huge-cycle", "--ops", ctx.path("hc.ops"), "--impl", ctx.path("hc.impl")], timeout=1800)
    st_h, _, oracle_h = C.parse_stats(out_h)
    for msg in oracle_h:
        C.add_violation(ctx, "huge-cycle", msg[:400], "# C15: %s\n# replay: harness phys --huge-cycle --ops o --impl i\ncreate 3\n(4 x) putpat /big 34MiB+77 ; rm /big ; file length\n" % msg[:1500])
    if rc_h != 0 and not oracle_h:
        ctx.undischarged.append("harness phys --huge-cycle crashed: " + out_h[-300:])
    total_ops += 9
    hist["cycle:huge(34MiB,V3)x4"] = 1
    ctx.coverage.update({
        "evaluations": total_ops,
        "distinct_nontrivial": distinct,
        "rule": P.RULE + ". C15 oracle: `cyc begin / cyc rep / cyc end` blocks of 6 cycle shapes (put+rm; put+overwrite+rm; create+write+set_len+close+rm; storage with two streams + remove_storage_all; put+open+write+close+rm; put+open+shrink+grow+close+rm) with sizes from the boundary set, after random prefixes; judged on the implementation's file length after each repetition",
        "samples": samples,
        "traces_validated_against_impl": total_h,
        "cycles_judged": hist.get("cycle:judged", 0),
        "histogram": hist,
    })
    return C.finish(ctx)
