"""C01 — namespace and content operations agree with an abstract tree model."""
import os
from . import common as C
from . import apilib as A
from . import physlib as P

PID = "C01"
MODULE = "CfbVerif.Props.C01"
THM = "CfbVerif.Props.C01 (model Dir no longer corresponds to directory.rs / entry.rs / lib.rs)"


def run(ctx):
    theorems = C.read_obligations(PID)
    harness_ok = C.build_harness(ctx)
    upper = None
    if harness_ok:
        upper = ctx.path("upper.txt")
        C.harness(["upper-dump", "--out", upper])
    C.regenerate(ctx, upper=upper)
    lean_ok = C.lean_build_and_audit(ctx, MODULE, theorems)
    ctx.assumptions += [
        "stream bytes are byte lists in the Dir model; that the sector/mini-sector chains store them is checked by lock-step only (`get`, `snap`), not proved (content half of C01)",
        "new storages are pinned to a fixed time right after creation by the harness (the clock-reading bounds are checked on the implementation before pinning)",
        "the format version and reopen do not occur in the model; both versions and reopen in both modes are exercised against the one model",
        "upper-casing table = the library's (see C09)",
    ]
    if not (lean_ok and harness_ok):
        return C.finish(ctx)
    quick = ctx.tier == "quick"
    total_ops = total_h = distinct = 0
    hist, samples = {}, []
    n, o = A.corpus(ctx, THM)
    total_h += n
    total_ops += o
    plans = [
        ("perm4", ["--perms", 4, "--seed", ctx.seed]),
        ("perm5", ["--perms", 5, "--seed", ctx.seed] + (["--sample", 4] if quick else [])),
        ("rand", ["--seed", ctx.seed, "--count", 1200 if quick else 6000, "--max-ops", 40 if quick else 120, "--reopen-pct", 8]),
        ("refuse", ["--seed", ctx.seed + 7, "--count", 500 if quick else 2000, "--max-ops", 40, "--refusals", "--invalid-names"]),
        ("deep", ["--seed", ctx.seed + 13, "--count", 200 if quick else 800, "--max-ops", 120, "--max-depth", 5]),
    ]
    if not quick:
        plans.append(("perm6", ["--perms", 6, "--seed", ctx.seed, "--sample", 2]))
    for tag, args in plans:
        stat, h, sample = A.campaign(ctx, args, tag, THM)
        total_ops += stat.get("ops", 0)
        total_h += stat.get("histories", 0)
        distinct += stat.get("distinct", 0)
        for k, v in h.items():
            hist[k] = hist.get(k, 0) + v
        if sample and len(samples) < 2:
            samples.append(sample)
    # "on files created fresh or reopened", at sizes the campaigns above do not reach: the 18 MB version-3
    # history (second FAT sector ... first and second DIFAT sector) against the abstract tree model, then the
    # bytes reopened in both modes against the live state
    hdir = ctx.path("huge")
    os.makedirs(hdir, exist_ok=True)
    rc, out = C.harness(["phys", "--huge", hdir, "--ops", ctx.path("huge.ops"), "--impl", ctx.path("huge.impl")])
    for msg in C.parse_stats(out)[2]:
        C.add_violation(ctx, "huge:" + P.signature(msg), msg[:400], "# C01 on the 18 MB history (harness phys --huge <dir>): %s\n%s\n" % (msg[:1500], open(ctx.path("huge.ops")).read() if os.path.exists(ctx.path("huge.ops")) else ""))
    try:
        os.remove(os.path.join(hdir, "huge_v3.cfb"))
    except OSError:
        pass
    total_ops += 8
    ctx.coverage.update({
        "evaluations": total_ops,
        "distinct_nontrivial": distinct,
        "rule": "API histories on the real crate and on the Lean Dir model in lock-step, comparing after every call the result (level O: ok/err kind, listings with names, paths, kinds, lengths, CLSIDs, state bits, times, stream bytes) and the library's in-memory directory table row by row through hook H3 (level D: slot, name, type, colour, left/right/child links, length, metadata). "
                "perm4: every insertion order x every removal order of 4 sibling names (3 name sets, mixed streams/storages, both versions, reopen inside); perm5: every insertion order x sampled (quick) / every (thorough) removal order of 5; rand/deep: random histories over name pools with case variants and path spellings; refuse: 40% refusals incl. invalid names and stream parents; huge: one 18 MB version-3 history (275 FAT sectors, two DIFAT sectors) against the abstract tree model, its bytes reopened in both modes. distinct = distinct FNV hashes of history text; a history is non-trivial if it has >= 1 call after create",
        "samples": samples,
        "traces_validated_against_impl": total_h,
        "histogram": hist,
    })
    return C.finish(ctx)
