"""C07 — open handles stay bound to their stream and never touch other objects."""
import os
from . import common as C
from . import apilib as A

PID = "C07"
MODULE = "CfbVerif.Props.C07"
THM = "CfbVerif.Props.C07 (models Dir+Handle no longer correspond to stream.rs / directory.rs / lib.rs)"


def signature(msg):
    if "is bound to slot" in msg:
        return "binding:handle-slot-differs-from-stream-slot"
    return A.signature(msg)


def run(ctx):
    theorems = C.read_obligations(PID)
    harness_ok = C.build_harness(ctx)
    upper = None
    if harness_ok:
        upper = ctx.path("upper.txt")
        C.harness(["upper-dump", "--out", upper])
    C.regenerate(ctx, upper=upper)
    lean_ok = C.lean_build_and_audit(ctx, MODULE, theorems)
    ctx.assumptions += [
        "two handles on the same stream, and use of a handle after its stream was removed, are outside the property and are not generated",
        "stream bytes are byte lists per directory entry (the chain layer below is exercised by lock-step only)",
        "listings taken while a handle holds unflushed data show the flushed length; the abstract oracle does not judge those listings (the Lean model, which tracks the buffer exactly, does)",
    ]
    if not (lean_ok and harness_ok):
        return C.finish(ctx)
    quick = ctx.tier == "quick"
    A.signature_override = signature
    total_ops = total_h = distinct = 0
    hist, samples = {}, []
    n, o = A.corpus(ctx, THM)
    total_h += n
    total_ops += o
    for tag, args in [("handles", ["--handles", "--seed", ctx.seed, "--count", 1200 if quick else 8000, "--max-ops", 60 if quick else 150]),
                      ("handles2", ["--handles", "--seed", ctx.seed + 101, "--count", 600 if quick else 4000, "--max-ops", 120])]:
        stat, h, sample = A.campaign(ctx, args, tag, THM)
        total_ops += stat.get("ops", 0)
        total_h += stat.get("histories", 0)
        distinct += stat.get("distinct", 0)
        for k, v in h.items():
            hist[k] = hist.get(k, 0) + v
        if sample and len(samples) < 2:
            samples.append(sample)
    # the same at the size where the allocation tables change shape: two handles on different streams append
    # alternately until a version-3 file has its first DIFAT sector (7.6 MB), bystanders of every kind; results
    # against the abstract model, then the bytes reopened in both modes against the live state
    rc, out = C.harness(["phys", "--huge-handles", "--ops", ctx.path("hh.ops"), "--impl", ctx.path("hh.impl")])
    for msg in C.parse_stats(out)[2][:2]:
        C.add_violation(ctx, "huge-handles", msg[:400], "# C07: %s\n# replay: harness phys --huge-handles --ops o --impl i\n%s\n" % (msg[:1500], open(ctx.path("hh.ops")).read() if os.path.exists(ctx.path("hh.ops")) else ""))
    total_ops += 170
    ctx.coverage.update({
        "evaluations": total_ops,
        "distinct_nontrivial": distinct,
        "rule": "histories with up to 4 open handles on different streams interleaved with removals (incl. siblings with two children whose predecessor holds a handle), creations that reuse freed slots, overwrites, resizes across 64/4096, metadata changes of other entries and observations; after every call: result (O), the library's directory table (D, hook H3) and every handle's (slot,total_len,buf_offset,pos,cap,data.len,dirty) (H) are compared with the composed Dir+Handle model; the harness additionally checks on the implementation that each handle's stream_id is the slot at which lookups find its path (binding oracle) and compares results with a write-through reference model at quiescent points; plus two handles appending alternately to a version-3 file until it has its first DIFAT sector (7.6 MB), with bystanders, against the abstract model and reopened in both modes. distinct = distinct history hashes",
        "samples": samples,
        "traces_validated_against_impl": total_h,
        "histogram": hist,
    })
    return C.finish(ctx)
