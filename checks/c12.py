"""C12 — read failures of the underlying file never turn into wrong data."""
import re
from . import common as C

PID = "C12"
MODULE = "CfbVerif.Props.C12"
THM = "CfbVerif.Props.C12.C12_handle_step (model Handle.stepF no longer corresponds to stream.rs under read faults)"


def signature(msg):
    if "differ from the stream's content" in msg:
        return "read:wrong-bytes-after-fault"
    if "panic" in msg:
        return "fault:panic"
    if "differs from the fault-free result" in msg:
        return "call:result-differs"
    if "although no fault was injected" in msg:
        return "call:spurious-failure"
    return "fault:other"


def run(ctx):
    theorems = C.read_obligations(PID)
    harness_ok = C.build_harness(ctx)
    C.regenerate(ctx)
    lean_ok = C.lean_build_and_audit(ctx, MODULE, theorems)
    ctx.assumptions += [
        "the unit of failure in the handle model is a phase (write-back / refill / resize); any failing underlying call fails its phase as a whole because errors only propagate with `?`",
        "`open`, lookups and walk are judged fail-or-same on the implementation (every fault position) and by the generic theorem C12_fail_or_same about catch-free reader programs; the Raw model itself is not re-run under faults",
    ]
    if not (lean_ok and harness_ok):
        return C.finish(ctx)
    quick = ctx.tier == "quick"
    ops, imp, mod = ctx.path("f.ops"), ctx.path("f.impl"), ctx.path("f.model")
    rc, out = C.harness(["faults", "--read", "--seed", ctx.seed, "--pairs", 300 if quick else 20000, "--ops", ops, "--impl", imp], timeout=3000)
    if rc != 0:
        ctx.undischarged.append("harness faults --read crashed: " + out[-300:])
        return C.finish(ctx)
    stat, _, oracle = C.parse_stats(out)
    seen = set()
    for msg in oracle:
        sg = signature(msg)
        if sg in seen:
            continue
        seen.add(sg)
        C.add_violation(ctx, sg, msg[:300], "# C12: %s\n# replay: harness faults --read (fault positions are enumerated deterministically; the message names the underlying call index)\n" % msg[:1000])
    C.driver(["handlef"], ops, mod)
    ops_lines = open(ops).read().splitlines()
    for (ln, a, b) in C.diff_lines(imp, mod)[:5]:
        # cut the script back to its `new` line
        start = max(i for i in range(ln + 1) if ops_lines[i].startswith("new "))
        ctx.disagreements.append({"origin": "fault trace line %d" % ln, "level": "O+H", "script": [l[:120] for l in ops_lines[start:ln + 1]][-12:],
                                  "implementation": a, "model": b, "theorem": THM})
    ctx.coverage.update({
        "evaluations": stat.get("evaluations", 0),
        "distinct_nontrivial": stat.get("evaluations", 0),
        "underlying_calls": {k: v for k, v in stat.items() if k.startswith("calls_")},
        "rule": "workload: open (max_buffer_size 1024) + walk + lookups + every stream opened and read in 700-byte requests to the end, seeks, reads again, each failed call retried up to 3 times, on a V3 and a V4 image with mini and regular streams; one run per position k of the underlying read/seek call sequence (exhaustive), plus pairs (exhaustive up to 150 calls, else sampled); oracle on the implementation: every returned byte equals the true content at the handle's logical position, every successful result equals the fault-free result, no spurious failure, no panic. Handle traces of the runs in which the fault hit the traced stream are replayed on the Lean fault model (results and window fields). Each run is distinct (different fault position)",
        "samples": [l[:100] for l in ops_lines[1:4]],
        "traces_validated_against_impl": len(ops_lines),
    })
    return C.finish(ctx)
