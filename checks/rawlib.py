"""Reader campaigns: images -> real open (both modes) vs Lean Raw model; parallel driver runs."""
import os, subprocess, shutil
from concurrent.futures import ThreadPoolExecutor
from . import common as C


def scratch(ctx, name):
    """Scratch directory outside /repo and /verif for image files; removed by cleanup()."""
    base = os.path.join(os.environ.get("TMPDIR", "/tmp"), "cfbverif-%s-%d" % (ctx.pid, os.getpid()))
    d = os.path.join(base, name)
    os.makedirs(d, exist_ok=True)
    ctx._scratch = base
    return d


def cleanup(ctx):
    base = getattr(ctx, "_scratch", None)
    if base and os.path.isdir(base):
        shutil.rmtree(base, ignore_errors=True)


def snapshots(ctx, snapdir, seed, count, max_ops=40, extra=()):
    """Valid images: snapshots taken inside API histories."""
    ops, imp = ctx.path("snapgen.ops"), ctx.path("snapgen.impl")
    C.harness(["api", "--seed", seed, "--count", count, "--max-ops", max_ops, "--snapdir", snapdir, "--ops", ops, "--impl", imp] + list(extra))
    files = sorted(os.path.join(snapdir, f) for f in os.listdir(snapdir))
    return files


def write_list(path, files):
    with open(path, "w") as f:
        f.write("\n".join(files) + "\n")


def run_raw(ctx, files, tag, jobs=16):
    """Returns (ops_lines, impl_lines, model_lines)."""
    lst = ctx.path(tag + ".list")
    write_list(lst, files)
    ops, imp = ctx.path(tag + ".ops"), ctx.path(tag + ".impl")
    rc, out = C.harness(["raw", "--list", lst, "--ops", ops, "--impl", imp])
    restarts = 0
    while rc == 75 and restarts < 3:
        # an open that ran into the watchdog left a runaway thread behind: fresh process for the rest
        restarts += 1
        nxt = [l.split()[1] for l in out.splitlines() if l.startswith("RESTART ")][-1]
        rc, out = C.harness(["raw", "--list", lst, "--ops", ops, "--impl", imp, "--start", nxt])
    if rc == 75:
        # four opens hung: each is a failing input already; the rest of this batch is not run
        ctx.notes = getattr(ctx, "notes", []) + ["%s: cut short after 4 watchdog timeouts" % tag]
    elif rc != 0:
        ctx.undischarged.append("harness raw campaign crashed: " + out[-300:])
        return [], [], []
    ops_lines = open(ops).read().splitlines()
    n = len(ops_lines)
    chunk = max(1, (n + jobs - 1) // jobs)
    parts = [ops_lines[i:i + chunk] for i in range(0, n, chunk)]

    def work(k):
        pin, pout = ctx.path("%s.part%d.ops" % (tag, k)), ctx.path("%s.part%d.model" % (tag, k))
        with open(pin, "w") as f:
            f.write("\n".join(parts[k]) + "\n")
        C.driver(["raw"], pin, pout)
        return open(pout).read().splitlines()
    with ThreadPoolExecutor(max_workers=jobs) as ex:
        res = list(ex.map(work, range(len(parts))))
    model = [l for part in res for l in part]
    return ops_lines, open(imp).read().splitlines(), model
