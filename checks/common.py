"""Shared machinery of bin/check: translator, Lean build + axiom audit, harness build,
known-findings matching, evidence writing, verdict printing."""
import hashlib, json, os, re, subprocess, sys, time

VERIF = os.path.dirname(os.path.dirname(os.path.abspath(__file__)))
LEAN = os.path.join(VERIF, "lean")
HARNESS = os.path.join(VERIF, "harness")
HARNESS_BIN = os.path.join(HARNESS, "target", "debug", "cfb-verif-harness")
# coverage mode (tools/coverage.sh only, never a registered check): the harness is built with
# -C instrument-coverage into $VERIF_COVERAGE/target so that the campaigns' reach into /repo/src can be measured
COVDIR = os.environ.get("VERIF_COVERAGE")
if COVDIR:
    HARNESS_BIN = os.path.join(COVDIR, "target", "debug", "cfb-verif-harness")
DRIVER_BIN = os.path.join(LEAN, ".lake", "build", "bin", "driver")
REPO = os.environ.get("VERIF_REPO", "/repo")
ALLOWED_AXIOMS = {"propext", "Classical.choice", "Quot.sound"}
FORBIDDEN = re.compile(r"\b(sorry|admit|native_decide|bv_decide|implemented_by|unsafe)\b|^axiom\s|maxHeartbeats\s+0", re.M)

TRUSTED_BASE = [
    "Lean 4.33.0 kernel (thorough tier: modules re-checked with leanchecker)",
    "axioms reported by #print axioms for every obligation, required to be within {propext, Classical.choice, Quot.sound}",
    "tools/gen_lean.py (regex translator of constants/tables from /repo's source into Gen/*.lean)",
    "harness/ (Rust, in-process on the real crate built from /repo's working tree with --cfg cfb_verif) and its generators: differential testing, can miss",
    "lean/CfbVerif/Drv/* (line-protocol drivers: parsing/printing only, no proofs)",
]


def run(cmd, cwd=None, timeout=None, env=None, input=None):
    e = dict(os.environ)
    e.update({"CARGO_NET_OFFLINE": "true"})
    if env:
        e.update(env)
    try:
        p = subprocess.run(cmd, cwd=cwd, env=e, input=input, stdout=subprocess.PIPE, stderr=subprocess.STDOUT,
                           text=True, timeout=timeout)
    except subprocess.TimeoutExpired as ex:
        out = ex.stdout if isinstance(ex.stdout, str) else (ex.stdout or b"").decode("utf-8", "replace")
        return 124, out + "\nTIMEOUT after %s s" % timeout
    return p.returncode, p.stdout


def run_watched(cmd, timeout, input, progress, stall=180, extra_env=None):
    """Like run(), with a second watchdog: once the harness has started logging operations to
    `progress`, a log that does not move for `stall` seconds means the current operation hangs."""
    import tempfile
    e = dict(os.environ)
    e.update({"CARGO_NET_OFFLINE": "true", "VERIF_PROGRESS": progress})
    if extra_env:
        e.update(extra_env)
    with tempfile.TemporaryFile(mode="w+") as fout:
        p = subprocess.Popen(cmd, env=e, stdin=subprocess.PIPE if input is not None else None, stdout=fout, stderr=subprocess.STDOUT, text=True)
        if input is not None:
            try:
                p.stdin.write(input)
                p.stdin.close()
            except OSError:
                pass
        t0 = time.time()
        why = None
        while True:
            try:
                p.wait(timeout=1.0)
                break
            except subprocess.TimeoutExpired:
                pass
            now = time.time()
            if now - t0 > timeout:
                why = "TIMEOUT after %s s" % timeout
            else:
                try:
                    if now - os.path.getmtime(progress) > stall:
                        why = "no operation finished for %s s" % stall
                except OSError:
                    pass
            if why:
                p.kill()
                p.wait()
                break
        fout.seek(0)
        out = fout.read()
    if why:
        return 124, out + "\n" + why
    return p.returncode, out


class Ctx:
    """State of one check run."""

    def __init__(self, pid, tier, seed):
        self.pid, self.tier, self.seed = pid, tier, seed
        self.t0 = time.time()
        self.obligations = []          # (theorem name, discharged?, axioms or reason)
        self.undischarged = []         # reasons the proof side no longer checks
        self.disagreements = []        # correspondence disagreements (dicts)
        self.violations = []           # concrete failing inputs found by oracles: dict(signature, what, replay)
        self.known = []                # matched known findings
        self.coverage = {}
        self.assumptions = []
        self.rundir = os.path.join(VERIF, "run", pid)
        os.makedirs(self.rundir, exist_ok=True)
        self.replaydir = os.path.join(VERIF, "replays", pid)
        os.makedirs(self.replaydir, exist_ok=True)

    def path(self, name):
        return os.path.join(self.rundir, name)


# ---------------------------------------------------------------- translator + Lean

def regenerate(ctx, upper=None):
    cmd = [sys.executable, os.path.join(VERIF, "tools", "gen_lean.py"), "--repo", REPO]
    if upper:
        cmd += ["--upper", upper]
    rc, out = run(cmd)
    drift = [l[6:] for l in out.splitlines() if l.startswith("DRIFT ")]
    if rc not in (0, 3):
        ctx.undischarged.append("translator failed: " + out.strip()[-400:])
    for d in drift:
        ctx.undischarged.append("translator drift: pattern for `%s` no longer found in the source" % d)
    # rewritten source: the item keeps its last generated value; the correspondence decides
    ctx.stale = [l[6:] for l in out.splitlines() if l.startswith("STALE ")]
    for d in ctx.stale:
        ctx.assumptions.append("translator: the source text for `%s` was rewritten; its last generated value is used, and the lock-step correspondence (which exercises it) decides" % d)
    return drift


def import_closure(module):
    seen, todo = set(), [module]
    while todo:
        m = todo.pop()
        if m in seen or not m.startswith("CfbVerif"):
            continue
        path = os.path.join(LEAN, *m.split(".")) + ".lean"
        if not os.path.exists(path):
            continue
        seen.add(m)
        with open(path) as f:
            for line in f:
                mm = re.match(r"\s*import\s+(\S+)", line)
                if mm:
                    todo.append(mm.group(1))
    return sorted(seen)


def strip_comments(src):
    src = re.sub(r"/-.*?-/", "", src, flags=re.S)
    return re.sub(r"--.*", "", src)


def lean_build_and_audit(ctx, module, theorems, targets=("driver",)):
    """lake build the property module (+driver); audit sources and axioms of every obligation."""
    rc, out = run(["lake", "build", module] + list(targets), cwd=LEAN, timeout=3600)
    build_ok = rc == 0
    if not build_ok:
        errs = [l for l in out.splitlines() if "error" in l][:6]
        ctx.undischarged.append("lake build %s failed: %s" % (module, " / ".join(errs) or out[-300:]))
    closure = import_closure(module)
    bad_src = []
    for m in closure:
        path = os.path.join(LEAN, *m.split(".")) + ".lean"
        hits = FORBIDDEN.findall(strip_comments(open(path).read()))
        if hits:
            bad_src.append("%s: %s" % (m, sorted(set("".join(h) if isinstance(h, tuple) else h for h in hits))))
    for b in bad_src:
        ctx.undischarged.append("forbidden construct in source: " + b)
    axioms = {}
    if build_ok:
        os.makedirs(os.path.join(LEAN, ".audit"), exist_ok=True)
        apath = os.path.join(LEAN, ".audit", ctx.pid + ".lean")
        with open(apath, "w") as f:
            f.write("import %s\n" % module)
            for t in theorems:
                f.write("#print axioms %s\n" % t)
        rc, out = run(["lake", "env", "lean", apath], cwd=LEAN, timeout=1800)
        text = re.sub(r"\s+", " ", out)
        for t in theorems:
            m = re.search(r"'%s' depends on axioms: \[([^\]]*)\]" % re.escape(t), text)
            if m:
                axioms[t] = sorted(a.strip() for a in m.group(1).split(",") if a.strip())
            elif re.search(r"'%s' does not depend on any axioms" % re.escape(t), text):
                axioms[t] = []
            else:
                axioms[t] = None
    for t in theorems:
        ax = axioms.get(t)
        if not build_ok:
            ctx.obligations.append((t, False, "module does not build"))
        elif ax is None:
            ctx.obligations.append((t, False, "theorem not found by #print axioms"))
            ctx.undischarged.append("obligation %s: not found / does not check" % t)
        elif not set(ax) <= ALLOWED_AXIOMS:
            ctx.obligations.append((t, False, "axioms %s" % ax))
            ctx.undischarged.append("obligation %s depends on axioms %s" % (t, ax))
        elif bad_src:
            ctx.obligations.append((t, False, "forbidden construct in import closure"))
        else:
            ctx.obligations.append((t, True, ax))
    if not build_ok:
        # a proof obligation no longer checks: the violation is reported whatever follows.  The executable model
        # may still build; then the check goes on to search the model and the implementation for a concrete input
        rc2, _ = run(["lake", "build"] + list(targets), cwd=LEAN, timeout=3600)
        ctx.coverage["lean_modules"] = closure
        ctx.coverage["proof_module_broken_driver_builds"] = rc2 == 0
        return rc2 == 0
    if ctx.tier == "thorough" and build_ok:
        for m in closure:
            rc, out = run(["lake", "env", "leanchecker", m], cwd=LEAN, timeout=3600)
            if rc != 0:
                ctx.undischarged.append("leanchecker rejects %s: %s" % (m, out[-200:]))
    ctx.coverage["lean_modules"] = closure
    return build_ok


def build_harness(ctx):
    lock_src, lock_dst = os.path.join(REPO, "Cargo.lock"), os.path.join(HARNESS, "Cargo.lock")
    if not os.path.exists(lock_dst):
        import shutil
        shutil.copy(lock_src, lock_dst)
    # the crate under test is /repo's working tree; VERIF_REPO points the same machinery at another
    # checkout (used only to try seeded changes without touching /repo): a cargo `paths` override
    cfgdir = os.path.join(HARNESS, ".cargo")
    cfg = os.path.join(cfgdir, "config.toml")
    base = "[net]\noffline = true\n\n[build]\nrustflags = [\"--cfg\", \"cfb_verif\"]\n"
    want = ("paths = [\"%s\"]\n\n" % os.path.realpath(REPO) if os.path.realpath(REPO) != "/repo" else "") + base
    os.makedirs(cfgdir, exist_ok=True)
    if not os.path.exists(cfg) or open(cfg).read() != want:
        with open(cfg, "w") as f:
            f.write(want)
    if COVDIR:
        rc, out = run(["cargo", "+nightly", "build", "--offline"], cwd=HARNESS, timeout=3600,
                      env={"RUSTFLAGS": "--cfg cfb_verif -C instrument-coverage", "CARGO_TARGET_DIR": os.path.join(COVDIR, "target")})
    else:
        rc, out = run(["cargo", "build", "--offline"], cwd=HARNESS, timeout=3600)
    if rc != 0:
        errs = [l for l in out.splitlines() if l.startswith("error")][:5]
        ctx.undischarged.append("harness does not build against /repo's working tree: " + " / ".join(errs))
        return False
    return True


# a harness run that does not come back (deadlock, endless loop in the library) is killed by this
# watchdog; the harness logs every operation before executing it (VERIF_PROGRESS), so the script
# that hung is known
HANGS = []
CRASHES = []
PROGRESS = os.path.join(VERIF, "run", "progress-%d.txt" % os.getpid())


def harness_many(arglists, envs=None, timeout=None, workers=16):
    """Several harness processes at once (each with its own progress log and, optionally, extra environment);
    returns [(rc, out)] in order.  Hangs and crashes are recorded as by harness()."""
    from concurrent.futures import ThreadPoolExecutor
    envs = envs or [None] * len(arglists)
    with ThreadPoolExecutor(max_workers=workers) as ex:
        futs = [ex.submit(harness, a, timeout, None, "%s.%d" % (PROGRESS, i), envs[i]) for i, a in enumerate(arglists)]
        return [f.result() for f in futs]


def harness(args, timeout=None, input=None, progress=None, extra_env=None):
    if timeout is None:
        timeout = 4 * 3600 if os.environ.get("VERIF_TIER", "quick") == "thorough" or "--tier" in sys.argv and "thorough" in sys.argv else 1200
    PROGRESS = progress or globals()["PROGRESS"]
    try:
        os.remove(PROGRESS)
    except OSError:
        pass
    rc, out = run_watched([HARNESS_BIN] + [str(a) for a in args], timeout, input, PROGRESS, extra_env=extra_env)
    if rc == 124:
        script = []
        try:
            script = open(PROGRESS).read().splitlines()
        except OSError:
            pass
        HANGS.append({"args": [str(a) for a in args], "timeout": timeout, "script": script})
    elif rc < 0 or rc in (101, 134) or "memory allocation of" in out[-2000:]:
        # (101: the harness itself panicked outside its catch_unwind - e.g. on a lock a library panic had poisoned)
        # the process was killed (abort on a failed allocation, a signal): the operation it was executing is the
        # last line of the progress log
        script = []
        try:
            script = open(PROGRESS).read().splitlines()
        except OSError:
            pass
        msg = [l for l in out.splitlines() if "memory allocation of" in l or "SIG" in l or "abort" in l.lower() or "panicked at" in l]
        CRASHES.append({"args": [str(a) for a in args], "rc": rc, "script": script, "message": (msg or [out.strip()[-200:]])[-1][:200]})
    return rc, out


def driver(args, stdin_path, stdout_path, timeout=3600):
    with open(stdin_path) as fin, open(stdout_path, "w") as fout:
        p = subprocess.run([DRIVER_BIN] + list(args), stdin=fin, stdout=fout, stderr=subprocess.PIPE, timeout=timeout)
    return p.returncode


def parse_stats(out):
    stat, hist, oracle = {}, {}, []
    for l in out.splitlines():
        if l.startswith("STAT "):
            _, k, v = l.split(" ", 2)
            stat[k] = int(v) if v.lstrip("-").isdigit() else v
        elif l.startswith("HIST "):
            _, k, v = l.rsplit(" ", 1)[0].split(" ", 1) + [l.rsplit(" ", 1)[1]]
            hist[k] = hist.get(k, 0) + int(v)
        elif l.startswith("ORACLE "):
            oracle.append(l[7:])
    return stat, hist, oracle


# ---------------------------------------------------------------- known findings

def load_known(pid):
    """known_findings.txt lines:  finding: property=<id> signature=<sig> :: text   |   fixed: property=<id> <commit> <text>"""
    res = []
    path = os.path.join(VERIF, "known_findings.txt")
    if os.path.exists(path):
        for line in open(path):
            m = re.match(r"finding:\s+property=(\S+)\s+signature=(\S+)\s+::\s*(.*)", line.strip())
            if m and m.group(1) == pid:
                res.append((m.group(2), m.group(3)))
    return res


def add_violation(ctx, signature, what, replay_text, name=None):
    """Record a concrete failing input.  Known findings (by signature) are reported, not counted."""
    for sig, text in load_known(ctx.pid):
        if sig == signature:
            if not any(k[0] == sig for k in ctx.known):
                ctx.known.append((sig, text, what))
            return None
    if any(v["signature"] == signature for v in ctx.violations):
        return None
    name = name or re.sub(r"[^A-Za-z0-9_.-]+", "_", signature)[:60]
    path = os.path.join(ctx.replaydir, name + ".txt")
    with open(path, "w") as f:
        f.write(replay_text)
    ctx.violations.append({"signature": signature, "what": what, "replay": path})
    return path


# ---------------------------------------------------------------- verdict

def finish(ctx, level="proof", checker_cmd=None, extra_assumptions=()):
    """Print the verdict, write evidence, return the exit code."""
    wall = time.time() - ctx.t0
    obligations = len(ctx.obligations)
    discharged = sum(1 for o in ctx.obligations if o[1])
    for sig, text, what in ctx.known:
        print("KNOWN-FINDING: property=%s %s [%s] (%s)" % (ctx.pid, text, sig, what[:300]))
    rc = 0
    lines = []
    for k, hg in enumerate(HANGS):
        # the library did not return: a concrete failing input when the hanging script is known
        path = os.path.join(ctx.replaydir, "hang_%d.txt" % k)
        with open(path, "w") as f:
            f.write("# %s: the harness (%s) did not return within %s s; the operations below were being executed (the last one never returned)\n"
                    % (ctx.pid, " ".join(hg["args"][:3]), hg["timeout"]))
            f.write("\n".join(hg["script"]) + "\n")
        if hg["script"]:
            ctx.violations.append({"signature": "hang", "what": "the library did not return from `%s` (script of %d operations)" % (hg["script"][-1][:80], len(hg["script"])), "replay": path})
        else:
            ctx.undischarged.append("the harness did not return within %s s (%s)" % (hg["timeout"], " ".join(hg["args"][:3])))
    for k, cr in enumerate(CRASHES):
        if not cr["script"]:
            # no operation log: still not a run the verdict can rest on
            ctx.undischarged.append("the harness process (%s) died with exit status %s: %s" % (" ".join(cr["args"][:3]), cr["rc"], cr["message"][:160]))
            continue
        last = cr["script"][-1]
        path = os.path.join(ctx.replaydir, "crash_%d.txt" % k)
        kept = ""
        # an image being opened: keep it beside the replay (the scratch directory is removed afterwards)
        for tok in last.split():
            if tok.startswith("/") and os.path.isfile(tok):
                dst = os.path.join(ctx.replaydir, "crash_%d_%s" % (k, os.path.basename(tok)))
                try:
                    import shutil
                    shutil.copyfile(tok, dst)
                    kept = dst
                except OSError:
                    pass
        with open(path, "w") as f:
            f.write("# %s: the harness process (%s) was killed (exit status %s: %s) while executing the last operation below\n"
                    % (ctx.pid, " ".join(cr["args"][:3]), cr["rc"], cr["message"]))
            if kept:
                f.write("# image: %s\n" % kept)
            f.write("\n".join(cr["script"][-50:]) + "\n")
        ctx.violations.append({"signature": "crash", "what": "the process died (%s) during `%s`" % (cr["message"][:100], last[:100]), "replay": path})
        ctx.undischarged[:] = [u for u in ctx.undischarged if "crashed" not in u]
    if ctx.violations:
        rc = 1
        for v in ctx.violations:
            lines.append("VIOLATION property=%s replay=%s" % (ctx.pid, v["replay"]))
            print("  failing input: %s" % v["what"])
    elif ctx.undischarged or ctx.disagreements:
        # proof or correspondence no longer checks, and the search found no concrete failing input
        rc = 1
        path = os.path.join(ctx.replaydir, "unchecked.txt")
        with open(path, "w") as f:
            f.write("property %s is no longer shown to hold; no concrete failing input was found.\n\n" % ctx.pid)
            for u in ctx.undischarged:
                f.write("proof obligation / translator: %s\n" % u)
            for d in ctx.disagreements:
                f.write("correspondence: %s\n" % json.dumps(d)[:4000])
        lines.append("VIOLATION property=%s replay=%s no-failing-input-found" % (ctx.pid, path))
    for u in ctx.undischarged:
        print("  unchecked: " + u)
    for d in ctx.disagreements[:5]:
        print("  disagreement: " + json.dumps(d)[:600])
    cov = dict(ctx.coverage)
    cov.update({
        "obligations": obligations,
        "discharged": discharged,
        "checker_cmd": checker_cmd or ("cd /verif/lean && lake build CfbVerif.Props.%s && lake env lean .audit/%s.lean  (#print axioms of every obligation)" % (ctx.pid, ctx.pid)),
        "trusted_base": TRUSTED_BASE,
        "obligation_list": [{"theorem": t, "discharged": ok, "axioms_or_reason": ax} for t, ok, ax in ctx.obligations],
        "undischarged_reasons": ctx.undischarged,
        "known_findings_seen": [k[0] for k in ctx.known],
    })
    cov.setdefault("evaluations", 0)
    cov.setdefault("distinct_nontrivial", 0)
    cov.setdefault("samples", [])
    cov.setdefault("rule", "")
    ev = {
        "property_id": ctx.pid,
        "tier": ctx.tier,
        "seed": ctx.seed,
        "level": level,
        "coverage": cov,
        "assumptions": list(extra_assumptions) + ctx.assumptions,
        "wall_s": round(wall, 2),
        "violations": len(ctx.violations) + (1 if (rc == 1 and not ctx.violations) else 0),
    }
    os.makedirs(os.path.join(VERIF, "evidence"), exist_ok=True)
    with open(os.path.join(VERIF, "evidence", ctx.pid + ".json"), "w") as f:
        json.dump(ev, f, indent=1)
    print("%s: obligations %d/%d discharged; correspondence: %d evaluations, %d disagreement(s); %d violation(s); %.1fs"
          % (ctx.pid, discharged, obligations, cov.get("evaluations", 0), len(ctx.disagreements), len(ctx.violations), wall))
    for l in lines:
        print(l)
    try:
        os.remove(PROGRESS)
    except OSError:
        pass
    return rc


def read_obligations(pid):
    path = os.path.join(VERIF, "obligations", pid + ".txt")
    return [l.strip() for l in open(path) if l.strip() and not l.startswith("#")]


def diff_lines(a_path, b_path):
    """Yield (line number starting at 0, a, b) for differing lines."""
    with open(a_path) as fa, open(b_path) as fb:
        a, b = fa.read().splitlines(), fb.read().splitlines()
    res = []
    for i in range(max(len(a), len(b))):
        x = a[i] if i < len(a) else "<missing>"
        y = b[i] if i < len(b) else "<missing>"
        if x != y:
            res.append((i, x, y))
    return res


def line_campaign(ctx, sub, seed, count, sigfn, theorem, extra_args=(), key_tokens=3):
    """Generic campaign for stateless one-line-per-call protocols (names, time, ...):
    harness generates ops + impl outputs (+ ORACLE lines), driver computes the model outputs."""
    ops, imp, mod = ctx.path(sub + ".ops"), ctx.path(sub + ".impl"), ctx.path(sub + ".model")
    rc, out = harness([sub, "--seed", seed, "--count", count, "--ops", ops, "--impl", imp] + list(extra_args))
    if rc != 0:
        ctx.undischarged.append("harness %s campaign crashed: %s" % (sub, out[-300:]))
        return 0, {}, []
    _, hist, oracle = parse_stats(out)
    driver([sub], ops, mod)
    diffs = diff_lines(imp, mod)
    ops_lines = open(ops).read().splitlines()
    flagged = set()
    for msg in oracle[:50]:
        line = " ".join(msg.split(" ")[:key_tokens])
        flagged.add(line)
        add_violation(ctx, sigfn(msg), msg,
                      "# %s violation found by the property oracle on the implementation\n# %s\n# replay: harness %s --replay <this file> --ops o --impl i\n%s\n" % (ctx.pid, msg, sub, line))
    for (ln, a, b) in diffs[:500]:
        if ln < len(ops_lines) and any(ops_lines[ln].startswith(f) for f in flagged):
            continue
        ctx.disagreements.append({"origin": "%s seed %d line %d" % (sub, seed, ln), "level": "O",
                                  "op": ops_lines[ln] if ln < len(ops_lines) else "?", "implementation": a, "model": b,
                                  "theorem": theorem})
        if len(ctx.disagreements) >= 5:
            break
    return len(ops_lines), hist, ops_lines[:6]


def line_corpus(ctx, sub, theorem):
    cdir = os.path.join(VERIF, "corpus", ctx.pid)
    total = 0
    if os.path.isdir(cdir):
        for name in sorted(os.listdir(cdir)):
            if not name.endswith("." + sub):
                continue
            ops, imp, mod = ctx.path("corpus.ops"), ctx.path("corpus.impl"), ctx.path("corpus.model")
            lines = [l for l in open(os.path.join(cdir, name)).read().splitlines() if l and not l.startswith("#")]
            open(ops, "w").write("\n".join(lines) + "\n")
            harness([sub, "--replay", ops, "--ops", ops, "--impl", imp])
            driver([sub], ops, mod)
            for (ln, a, b) in diff_lines(imp, mod):
                ctx.disagreements.append({"origin": "corpus/" + name, "level": "O", "op": lines[ln], "implementation": a, "model": b, "theorem": theorem})
            total += len(lines)
    return total
