"""C04 — any valid layout written by another implementation is read correctly."""
import os, re, shutil
from . import common as C
from . import rawlib as R
from . import physlib as P

PID = "C04"
MODULE = "CfbVerif.Props.C04"
THM = "CfbVerif.Props.C04 (model Raw no longer corresponds to the reader on foreign layouts)"


def signature(msg):
    if "harness error" in msg:
        return "harness-error"
    m = re.search(r"(strict|permissive) open of \S+ gives (\w+)", msg)
    if m:
        return "open-%s:%s" % (m.group(1), "wrong-content" if m.group(2) == "ok" else m.group(2))
    if "after opening" in msg:
        m = re.search(r": (\w+) .*? gave (\w+)", msg)
        return "mutate:%s-%s" % (m.group(1), m.group(2)) if m else "mutate:other"
    if "after mutating" in msg:
        return "mutate:bytes-do-not-reopen-the-same"
    return "layout:other"


def run(ctx):
    theorems = C.read_obligations(PID)
    harness_ok = C.build_harness(ctx)
    upper = None
    if harness_ok:
        upper = ctx.path("upper.txt")
        C.harness(["upper-dump", "--out", upper])
    C.regenerate(ctx, upper=upper)
    lean_ok = C.lean_build_and_audit(ctx, MODULE, theorems)
    ctx.assumptions += [
        "`spec-valid` is what the harness's independent writer (harness/src/layout.rs) produces and SpecCheck accepts: every generated image is judged by SpecCheck first; an image it rejects is a generator defect (reported as unchecked), not a finding about the library",
        "sibling trees are laid out balanced with the deepest level red (a valid red-black colouring); degenerate all-black trees are the library's own family (C01)",
        "`keeps C01-C03` after mutation: results against the abstract tree model, the bytes reopen to the same state, SpecCheck after every call; the two-level model is loaded from each foreign image (Phys.ofImage: reader model -> Dir tree + allocation tables + raw sectors) and must reproduce the image byte for byte after the load and after every call",
    ]
    if not (lean_ok and harness_ok):
        return C.finish(ctx)
    quick = ctx.tier == "quick"
    try:
        laydir = R.scratch(ctx, "lay")
        evaluations = 0
        hist = {}
        for tag, args in [("lay", ["--seed", ctx.seed, "--count", 150 if quick else 4000, "--full-difat"]),
                          ("laybig", ["--seed", ctx.seed + 1, "--count", 12 if quick else 200, "--big"])]:
            d = os.path.join(laydir, tag)
            os.makedirs(d, exist_ok=True)
            lops, limp, lmod, lspec = ctx.path(tag + ".ops"), ctx.path(tag + ".impl"), ctx.path(tag + ".model"), ctx.path(tag + ".spec")
            rc, out = C.harness(["layout", "--outdir", d, "--ops", lops, "--impl", limp] + args, timeout=3000)
            if rc != 0:
                ctx.undischarged.append("harness layout crashed: " + out[-300:])
                continue
            stat, h, oracle = C.parse_stats(out)
            evaluations += stat.get("ops", 0)
            for k, v in h.items():
                hist[k] = hist.get(k, 0) + v
            seen = set()
            for msg in oracle:
                sg = signature(msg)
                if sg in seen:
                    continue
                seen.add(sg)
                m = re.search(r"(/\S+?\.cfb)", msg)
                keep = None
                if m and os.path.exists(m.group(1)):
                    keep = os.path.join(ctx.replaydir, sg.replace(":", "_") + ".cfb")
                    shutil.copy(m.group(1), keep)
                if sg == "harness-error":
                    ctx.undischarged.append("layout generator / reference model: " + msg[:200])
                    continue
                C.add_violation(ctx, sg, msg[:400], "# C04: %s\n# the synthesised image is kept as %s\n# replay: CompoundFile::open / open_strict on it; `harness raw --list <file with that path>`; `driver speccheck`\n" % (msg[:1500], keep))
            files = sorted(os.path.join(d, f) for f in os.listdir(d) if f.endswith(".cfb"))
            gen = [f for f in files if "_after" not in f]
            # the generator's own validity and C03 after mutation
            lst, res = ctx.path(tag + ".list"), ctx.path(tag + ".spec")
            R.write_list(lst, files)
            C.driver(["speccheck"], lst, res)
            for f, v in zip(files, open(res).read().splitlines()):
                evaluations += 1
                if v.startswith("bad "):
                    if "_after" in f:
                        keep = os.path.join(ctx.replaydir, "mutated_not_wellformed.cfb")
                        shutil.copy(f, keep)
                        C.add_violation(ctx, "mutate:spec:" + re.sub(r"\d+", "N", v[4:60]).replace(" ", "_"), "a foreign layout mutated through the API is no longer well-formed: " + v[4:300],
                                        "# C04 (keeps C03): %s\n# image kept as %s (the layout before mutation: same name without _after)\n" % (v[4:1500], keep))
                    else:
                        ctx.undischarged.append("layout generator produced an image SpecCheck rejects (%s): %s" % (os.path.basename(f), v[4:200]))
            evaluations += P.layout_lockstep(ctx, lops, limp, lmod, lspec)
            # the reader model on the same images
            ops, imp, mod = R.run_raw(ctx, gen, tag)
            evaluations += len(ops)
            for i, (o, a, b) in enumerate(zip(ops, imp, mod)):
                if a != b and len(ctx.disagreements) < 5:
                    dst = os.path.join(ctx.replaydir, "layout_input_%d.cfb" % i)
                    shutil.copy(o.split(" ")[2], dst)
                    ctx.disagreements.append({"origin": o, "kept_as": dst, "level": "O+L", "implementation": a[:300], "model": b[:300], "theorem": THM})
        ctx.coverage.update({
            "evaluations": evaluations,
            "distinct_nontrivial": sum(v for k, v in hist.items() if k.startswith("layout:")),
            "rule": "synthesised files (independent writer): random logical trees (names incl. case variants, non-ASCII, supplementary plane; storages with CLSID/state bits/times; stream sizes 0..9000 on both sides of 64/4096, `--big` 70 kB) laid out with all sector kinds in a random permutation, fragmented chains, free sectors, directory entries in random slots with unallocated gaps and an optional all-free directory sector, balanced red-black sibling trees, permuted mini sectors with free gaps, V3/V4, and in a third of the cases a sector count that is an exact multiple of the FAT entries per sector with the last sector linked to sector 0. Each image: SpecCheck (generator validity), library open in both modes = encoded content (oracle), Raw model = library (both modes, full dump), then 4-13 API calls on the opened file against the abstract model, reopen oracle and SpecCheck on the result. distinct = images",
            "samples": [],
            "histogram": hist,
            "traces_validated_against_impl": sum(v for k, v in hist.items() if k.startswith("layout:")),
        })
    finally:
        R.cleanup(ctx)
    return C.finish(ctx)
