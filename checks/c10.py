"""C10 — rejected operations have no effect."""
from . import common as C
from . import apilib as A

PID = "C10"
MODULE = "CfbVerif.Props.C10"
THM = "CfbVerif.Props.C10 (model Dir/Handle no longer corresponds to lib.rs / stream.rs)"


def run(ctx):
    theorems = C.read_obligations(PID)
    harness_ok = C.build_harness(ctx)
    upper = None
    if harness_ok:
        upper = ctx.path("upper.txt")
        C.harness(["upper-dump", "--out", upper])
    C.regenerate(ctx, upper=upper)
    lean_ok = C.lean_build_and_audit(ctx, MODULE, theorems)
    ctx.assumptions += [
        "at model level 'no effect' is equality of the whole model state; that the bytes are unchanged is checked on the implementation (image compared before/after every refused call), not proved",
        "remove_storage_all: only its initial NotFound refusal is proved to be a no-op; its inner removals are shown refusal-free by lock-step only",
    ]
    if not (lean_ok and harness_ok):
        return C.finish(ctx)
    quick = ctx.tier == "quick"
    total_ops = total_h = distinct = 0
    hist, samples = {}, []
    n, o = A.corpus(ctx, THM)
    total_h += n
    total_ops += o
    plans = [
        ("refuse", ["--seed", ctx.seed, "--count", 1200 if quick else 8000, "--max-ops", 40 if quick else 100, "--refusals", "--invalid-names", "--reopen-pct", 4]),
        ("refuse-valid", ["--seed", ctx.seed + 1, "--count", 800 if quick else 5000, "--max-ops", 50, "--refusals", "--max-depth", 4]),
    ]
    for tag, args in plans:
        stat, h, sample = A.campaign(ctx, args, tag, THM)
        total_ops += stat.get("ops", 0)
        total_h += stat.get("histories", 0)
        distinct += stat.get("distinct", 0)
        for k, v in h.items():
            hist[k] = hist.get(k, 0) + v
        if sample and len(samples) < 2:
            samples.append(sample)
    # refusals on files the library did not write: tolerated deviations (CLSID/times on streams,
    # unterminated names, start/size on storages, ...) and synthesised foreign layouts keep entries in
    # a non-canonical form, so a refused call that rewrites an entry changes bytes
    from . import rawlib as R
    import re as _re2, os as _os, shutil as _sh
    try:
        snapdir, devdir, laydir = R.scratch(ctx, "snaps"), R.scratch(ctx, "dev"), R.scratch(ctx, "lay")
        bases = R.snapshots(ctx, snapdir, ctx.seed, 25 if quick else 200, max_ops=30)
        blist, dlist, rlist = ctx.path("rbases.list"), ctx.path("rdev.list"), ctx.path("refusal.bases")
        R.write_list(blist, bases[: 40 if quick else 600])
        C.harness(["deviate", "--seed", ctx.seed, "--bases", blist, "--outdir", devdir, "--combos", 2, "--list", dlist])
        C.harness(["layout", "--seed", ctx.seed + 51, "--count", 40 if quick else 600, "--outdir", laydir])
        files = (open(dlist).read().split() if _os.path.exists(dlist) else []) + sorted(_os.path.join(laydir, f) for f in _os.listdir(laydir) if f.endswith(".cfb"))
        R.write_list(rlist, files)
        rc, out = C.harness(["damage", "--refusals", "--seed", ctx.seed, "--bases", rlist, "--per-image", 12], timeout=3000)
        rstat, _, roracle = C.parse_stats(out)
        for msg in roracle:
            m = _re2.search(r"refusal on (\S+): (\w+)", msg)
            sig = "foreign-refusal:" + (m.group(2) if m else "?") + (":panic" if "panicked" in msg else ":bytes-changed")
            keep = None
            if m and _os.path.exists(m.group(1)):
                keep = _os.path.join(ctx.replaydir, sig.replace(":", "_") + ".cfb")
                _sh.copy(m.group(1), keep)
            C.add_violation(ctx, sig, _re2.sub(r"[0-9a-f]{60,}", "<bytes>", msg)[:400],
                            "# C10 violation on a file the library did not write (image kept as %s): open it permissively and make the call named below\n# %s\n" % (keep, msg[:1500]))
        # damaged files: every call of a mutating history on an accepted corrupted image that is answered with
        # one of the three refusal kinds is judged the same way (bytes before = bytes after)
        keepd = R.scratch(ctx, "refkeep")
        rc2, out2 = C.harness(["damage", "--seed", ctx.seed + 9, "--bases", rlist if len(files) else blist, "--count", 3000 if quick else 150000, "--max-ops", 12, "--keepdir", keepd], timeout=20000)
        dstat, dhist, _ = C.parse_stats(out2)
        for l in out2.splitlines():
            if not l.startswith("REFUSED-EFFECT "):
                continue
            mm = _re2.search(r"\): (\S+) .*? was answered `err (\w+)", l)
            sig = "damaged-refusal:%s:%s:bytes-changed" % ((mm.group(1) if mm else "?"), (mm.group(2) if mm else "?"))
            im = _re2.search(r"\[image (\S+) history (\S+)\]", l)
            text, keep = "", None
            if im and _os.path.exists(im.group(1)):
                keep = _os.path.join(ctx.replaydir, sig.replace(":", "_") + ".cfb")
                _sh.copy(im.group(1), keep)
                text = open(im.group(2)).read() if _os.path.exists(im.group(2)) else ""
            C.add_violation(ctx, sig, _re2.sub(r"[0-9a-f]{60,}", "<bytes>", l)[:400],
                            "# C10 violation on a damaged file that permissive open accepts (image kept as %s): open it permissively and make the calls below; the last one is answered with a refusal kind although it changed the bytes\n# %s\n# replay: harness damage --replay <image> --history <this file>\n%s" % (keep, _re2.sub(r"[0-9a-f]{60,}", "<bytes>", l)[:1500], text))
        # handles that outlive their streams (valid foreign layouts, harness damage --stale): a call on such a handle is
        # answered NotFound and must change neither the file nor what the handles show (length, position, pending data)
        sbases = sorted(_os.path.join(laydir, f) for f in _os.listdir(laydir) if f.endswith(".cfb") and "_after" not in f and "_highbits" not in f)
        if sbases:
            sdir = R.scratch(ctx, "stale10")
            sbl, sl = ctx.path("stale10.bases"), ctx.path("stale10.list")
            R.write_list(sbl, sbases)
            rc3, out3 = C.harness(["damage", "--stale", "--seed", ctx.seed + 25, "--bases", sbl, "--count", 600 if quick else 8000, "--max-ops", 14, "--outdir", sdir, "--list", sl], timeout=3000)
            sst, _, sorc = C.parse_stats(out3)
            if rc3 != 0:
                ctx.undischarged.append("harness damage --stale crashed: " + out3[-300:])
            hist["stale-handles:refused-calls-judged"] = sst.get("stale_refusals_judged", 0)
            total_ops += sst.get("stale_calls", 0)
            for msg in [m for m in sorc if m.startswith("C10 ")][:2]:
                hm = _re2.search(r"\[history (\S+)\]", msg)
                text = open(hm.group(1)).read() if hm and _os.path.exists(hm.group(1)) else ""
                C.add_violation(ctx, "stale-handle-refusal:" + ("bytes-changed" if "file bytes changed" in msg else "handle-view-changed"), msg[:400],
                                "# C10: %s\n# the calls (on a valid foreign layout opened strictly; the last one is the refused call):\n%s\n" % (msg[:1500], text))
        total_ops += dstat.get("ops", 0)
        hist["damaged:accepted-images"] = dstat.get("accepted", 0)
        hist["damaged:refused-call-changed-bytes"] = dhist.get("refused-call-changed-bytes", 0)
        total_ops += rstat.get("refusal_calls", 0)
        hist["foreign:images"] = rstat.get("refusal_images", 0)
        hist["foreign:refused"] = rstat.get("refused", 0)
    finally:
        R.cleanup(ctx)
    # refused seeks: part of the handle campaign (C06 machinery): position and window unchanged
    ops, imp, mod = ctx.path("h.ops"), ctx.path("h.impl"), ctx.path("h.model")
    rc, out = C.harness(["handle", "--seed", ctx.seed, "--count", 600 if quick else 4000, "--max-ops", 60, "--ops", ops, "--impl", imp])
    stat, h, oracle = C.parse_stats(out)
    C.driver(["handle"], ops, mod)
    for (ln, a, b) in C.diff_lines(imp, mod)[:3]:
        ctx.disagreements.append({"origin": "handle line %d" % ln, "level": "O+H", "implementation": a[:300], "model": b[:300], "theorem": "CfbVerif.Props.C10.C10_seek_refused"})
    import re as _re
    from .c06 import split_scripts
    scripts = split_scripts(open(ops).read().splitlines())
    done = set()
    for msg in oracle:
        if ": refused " not in msg and "expected err invalidInput" not in msg:
            continue
        m = _re.match(r"script (\d+) ", msg)
        idx = int(m.group(1))
        what = _re.sub(r"^script \d+ \(seed \d+\): ", "", msg)
        sig = "refused-" + what.replace("refused ", "").split(" ")[0] + (":bytes-changed" if "file bytes changed" in what else ":state-changed" if "state changed" in what else ":not-refused")
        if (sig, idx) in done or len(done) >= 6:
            continue
        done.add((sig, idx))
        C.add_violation(ctx, sig, what, "# C10 violation found by the refusal oracle on the implementation (seed %s script %d)\n# %s\n# replay: harness handle --replay <this file> --ops o --impl i\n%s\n" % (ctx.seed, idx, what, "\n".join(scripts[idx][1])))
    refusals = sum(v for k, v in hist.items() if k.endswith("err notFound") or k.endswith("err alreadyExists") or k.endswith("err invalidInput"))
    refusals += h.get("out:err invalidInput", 0)
    total_ops += stat.get("ops", 0)
    # two handles on one stream (harness/src/twoh.rs): growth judged by the directory entry's length before and
    # after, refusals judged by the backing bytes and by the same call made again — decided on the implementation
    rc_t, out_t = C.harness(["twohandles", "--seed", ctx.seed, "--count", 1500 if ctx.tier == "quick" else 30000], timeout=3600)
    st_t, _, or_t = C.parse_stats(out_t)
    for msg in [m for m in or_t if m.startswith("C10 ")][:3]:
        C.add_violation(ctx, "two-handles:" + ("grow" if "grow" in msg else "below-old-length" if "below" in msg else "refusal"), msg[:500],
                        "# C10: %s\n# replay: harness twohandles --seed %s --count %s (the history is in the message)\n" % (msg[:3000], ctx.seed, 1500 if ctx.tier == "quick" else 30000))
    if rc_t != 0:
        ctx.undischarged.append("harness twohandles crashed: " + out_t[-300:])
    ctx.coverage.update({
        "two_handles_on_one_stream": {"calls": st_t.get("calls", 0), "grows_judged": st_t.get("grows_judged", 0), "refusals_judged": st_t.get("refusals_judged", 0)},
        "evaluations": total_ops,
        "distinct_nontrivial": distinct,
        "refused_calls_checked": refusals,
        "rule": "API histories with ~40% of the calls aimed at refusals of every class (missing parent, stream as parent, wrong type, existing name, non-empty storage, root removal, escaping path, invalid name) at random points; after every refused call the backing bytes are compared with the bytes before it (oracle) and model and implementation are compared at levels O and D; refused seeks through handle scripts (O+H); refusals of 16 kinds aimed at the entries of deviated images (every documented tolerated deviation) and of synthesised foreign layouts, bytes compared around each; mutating histories on corrupted images that permissive open accepts, every call answered with a refusal kind judged the same way. distinct = distinct history hashes",
        "samples": samples,
        "traces_validated_against_impl": total_h,
        "histogram": hist,
    })
    return C.finish(ctx)
