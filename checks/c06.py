"""C06 — a stream handle behaves as a seekable byte array for every buffer size."""
import os, re
from . import common as C

PID = "C06"
MODULE = "CfbVerif.Props.C06"


def split_scripts(ops_lines):
    scripts, cur = [], None
    for i, l in enumerate(ops_lines):
        if l.startswith("new "):
            cur = []
            scripts.append((i, cur))
        if cur is not None:
            cur.append(l)
    return scripts


def signature(msg):
    msg = re.sub(r"^script \d+ \(seed \d+\): ", "", msg)
    op = msg.split(" ")[0] if msg else "op"
    if "-9223372036854775808" in msg and "panic" in msg:
        return "seek-i64min:panic"
    if "gave panic" in msg or "panic" in msg.split("gave")[-1]:
        return op + ":panic"
    if "not the stream's content" in msg:
        return op + ":wrong-bytes"
    if "0 bytes before the end" in msg:
        return op + ":zero-before-end"
    if "fresh handle differs" in msg:
        return "final:content-differs"
    if "expected err invalidInput" in msg:
        return "seek:not-refused"
    if "expected num" in msg:
        return op + ":wrong-number"
    return op + ":other"


def replay_script(ctx, lines, tag):
    """Run one script on implementation and model. Returns (oracle violations, differing lines)."""
    ops, imp, mod = ctx.path(tag + ".ops"), ctx.path(tag + ".impl"), ctx.path(tag + ".model")
    src = ctx.path(tag + ".src")
    with open(src, "w") as f:
        f.write("\n".join(lines) + "\n")
    rc, out = C.harness(["handle", "--replay", src, "--ops", ops, "--impl", imp])
    _, _, oracle = C.parse_stats(out)
    C.driver(["handle"], ops, mod)
    return oracle, C.diff_lines(imp, mod)


def shrink(ctx, lines, failing):
    """Greedy removal of ops (never the `new` line) while `failing(lines)` stays true."""
    cur = list(lines)
    changed = True
    while changed and len(cur) > 2:
        changed = False
        i = 1
        while i < len(cur):
            cand = cur[:i] + cur[i + 1:]
            if failing(cand):
                cur = cand
                changed = True
            else:
                i += 1
    return cur


def run(ctx):
    theorems = C.read_obligations(PID)
    C.regenerate(ctx)
    lean_ok = C.lean_build_and_audit(ctx, MODULE, theorems)
    harness_ok = C.build_harness(ctx)
    ctx.assumptions += [
        "the flushed store is the list functions readAt/writeAt/resize; that read_data_from_stream/write_data_to_stream/resize_stream implement them on sectors is outside this model (covered by the `final` read-back through a fresh handle in every script, and by C01/C08)",
        "Nat arithmetic: u64/usize sums in stream.rs cannot overflow for in-memory files; the i64 negations are modelled as unsigned_abs (the fixed code)",
        "one handle per stream (two handles on the same stream are out of the property's scope)",
    ]
    if not (lean_ok and harness_ok):
        return C.finish(ctx)
    quick = ctx.tier == "quick"
    count, max_ops = (1600, 60) if quick else (10000, 120)
    total_scripts = total_ops = 0
    hist, distinct, samples = {}, 0, []
    # corpus first
    cdir = os.path.join(C.VERIF, "corpus", PID)
    corpus = sorted(os.listdir(cdir)) if os.path.isdir(cdir) else []
    for name in corpus:
        lines = [l for l in open(os.path.join(cdir, name)).read().splitlines() if l and not l.startswith("#")]
        oracle, diffs = replay_script(ctx, lines, "corpus")
        total_scripts += 1
        total_ops += len(lines)
        handle_results(ctx, lines, oracle, diffs, "corpus/" + name)
    batches = 1 if quick else 8
    for b in range(batches):
        seed = ctx.seed * 1000 + b
        ops, imp, mod = ctx.path("ops%d.txt" % b), ctx.path("impl%d.txt" % b), ctx.path("model%d.txt" % b)
        rc, out = C.harness(["handle", "--seed", seed, "--count", count // batches if not quick else count,
                             "--max-ops", max_ops, "--ops", ops, "--impl", imp])
        if rc != 0:
            ctx.undischarged.append("harness handle campaign crashed: " + out[-300:])
            break
        stat, h, oracle = C.parse_stats(out)
        oracle = [m for m in oracle if ": refused " not in m]   # refusals are C10's
        for k, v in h.items():
            hist[k] = hist.get(k, 0) + v
        total_scripts += stat.get("scripts", 0)
        total_ops += stat.get("ops", 0)
        distinct += stat.get("distinct", 0)
        C.driver(["handle"], ops, mod)
        diffs = C.diff_lines(imp, mod)
        ops_lines = open(ops).read().splitlines()
        scripts = split_scripts(ops_lines)
        if not samples and scripts:
            samples.append(scripts[min(3, len(scripts) - 1)][1][:12])
        # oracle violations: concrete failing inputs
        done = set()
        for msg in oracle:
            m = re.match(r"script (\d+) ", msg)
            idx = int(m.group(1))
            if idx in done:
                continue
            done.add(idx)
            handle_results(ctx, scripts[idx][1], [msg], [], "seed %d script %d" % (seed, idx))
        # model/implementation disagreements that the oracle did not flag
        seen = set()
        for (ln, a, b) in diffs:
            idx = max(i for i, (start, _) in enumerate(scripts) if start <= ln)
            if idx in seen or idx in done:
                continue
            seen.add(idx)
            start, lines = scripts[idx]
            handle_results(ctx, lines[: ln - start + 1], [], [(ln - start, a, b)], "seed %d script %d" % (seed, idx))
            if len(seen) >= 5:
                break
    ctx.coverage.update({
        "evaluations": total_ops,
        "distinct_nontrivial": distinct,
        "rule": "handle scripts (new + up to %d calls of read/fill_buf/consume/write/seek/set_len/flush/len + read-back through a fresh handle) "
                "generated from VERIF_SEED over versions {3,4} x max_buffer_size {0,1,1023,1024,1025,1500,4096,4097,65536,2^20} x initial lengths straddling 64/512/1024/4096/sector; "
                "a script is non-trivial when it has at least one call after `new`; distinct = distinct FNV hashes of the op text; "
                "evaluations = calls compared at levels O (result) and H (total_len, buf_offset, pos, cap, data.len, dirty)" % max_ops,
        "samples": samples,
        "traces_validated_against_impl": total_scripts,
        "histogram": hist,
        "corpus_scripts": len(corpus),
    })
    return C.finish(ctx)


def handle_results(ctx, lines, oracle, diffs, origin):
    if oracle:
        msg = oracle[0]
        sig = signature(msg)

        def failing(cand):
            o, _ = replay_script(ctx, cand, "shrink")
            return any(signature(x) == sig for x in o)
        small = shrink(ctx, lines, failing) if failing(lines) else lines
        o, _ = replay_script(ctx, small, "shrink")
        text = "# C06 violation found by the Vec-cursor oracle on the implementation (%s)\n# %s\n# replay: harness handle --replay <this file> --ops o --impl i\n%s\n" % (
            origin, (o or [msg])[0], "\n".join(small))
        C.add_violation(ctx, sig, (o or [msg])[0], text)
    elif diffs:
        (rel, a, b) = diffs[0]

        def failing(cand):
            o, d = replay_script(ctx, cand, "shrink")
            return bool(d) and not o
        small = shrink(ctx, lines, failing) if failing(lines) else lines
        _, d = replay_script(ctx, small, "shrink")
        ctx.disagreements.append({
            "origin": origin, "level": "O+H", "script": small,
            "first_difference": {"line": d[0][0], "implementation": d[0][1][:300], "model": d[0][2][:300]} if d else {"implementation": a[:300], "model": b[:300]},
            "theorem": "CfbVerif.Props.C06.C06_step (model Handle.step no longer corresponds to stream.rs/stream_buffer.rs)",
        })
