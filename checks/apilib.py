"""Shared handling of API-history campaigns (harness `api` + driver `api`)."""
import os, re
from . import common as C


def kind(s):
    t = s.split(" ")
    return " ".join(t[:2]) if t and t[0] == "err" else (t[0] if t else "")


signature_override = None


def signature(msg):
    if signature_override is not None and "is bound to slot" in msg:
        return signature_override(msg)
    m = re.search(r": (\w+) .*? gave (.*?) but the abstract tree model says (.*)$", msg)
    if m:
        return "%s:%s->%s" % (m.group(1), kind(m.group(2)).replace(" ", "_"), kind(m.group(3)).replace(" ", "_"))
    if "outside the clock readings" in msg:
        return "mkdir:times-outside-clock-readings"
    return "api:other"


def split_histories(ops_lines):
    hs, cur = [], None
    for i, l in enumerate(ops_lines):
        if l.startswith("create "):
            cur = []
            hs.append((i, cur))
        if cur is not None:
            cur.append(l)
    return hs


def replay(ctx, lines, tag="shrink", sub="api"):
    ops, imp, mod, src = ctx.path(tag + ".ops"), ctx.path(tag + ".impl"), ctx.path(tag + ".model"), ctx.path(tag + ".src")
    with open(src, "w") as f:
        f.write("\n".join(lines) + "\n")
    rc, out = C.harness([sub, "--replay", src, "--ops", ops, "--impl", imp])
    _, _, oracle = C.parse_stats(out)
    C.driver([sub], ops, mod)
    return oracle, C.diff_lines(imp, mod)


def shrink(lines, failing, keep=1, budget=400):
    cur = list(lines)
    changed = True
    while changed and len(cur) > keep + 1 and budget > 0:
        changed = False
        i = keep
        while i < len(cur) and budget > 0:
            cand = cur[:i] + cur[i + 1:]
            budget -= 1
            if failing(cand):
                cur = cand
                changed = True
            else:
                i += 1
    return cur


def handle(ctx, lines, oracle, diffs, origin, theorem, sub="api", sigfun=None):
    signature = sigfun or globals()["signature"]
    if oracle:
        sig = signature(oracle[0])

        def failing(c):
            o, _ = replay(ctx, c, sub=sub)
            return any(signature(x) == sig for x in o)
        small = shrink(lines, failing) if failing(lines) else lines
        o, _ = replay(ctx, small, sub=sub)
        msg = next((x for x in o if signature(x) == sig), oracle[0])
        C.add_violation(ctx, sig, msg[:600],
                        "# %s violation found by the abstract-tree oracle on the implementation (%s)\n# %s\n# replay: harness %s --replay <this file> --ops o --impl i\n%s\n" % (ctx.pid, origin, msg[:2000], sub, "\n".join(small)))
    elif diffs:
        # model and implementation differ (possibly only in the directory table): look at the implementation
        # through the abstract-tree oracle once more, with whole-tree observations appended — a concrete
        # failing input if the difference is observable
        if sub == "api":
            for probe in (["walk"], ["reopen permissive", "walk"], ["reopen strict", "walk"]):
                o, _ = replay(ctx, list(lines) + probe, tag="probe", sub=sub)
                if o:
                    return handle(ctx, list(lines) + probe, o, [], origin + " + probe", theorem, sub=sub, sigfun=sigfun)

        def failing(c):
            o, d = replay(ctx, c, sub=sub)
            return bool(d) and not o
        small = shrink(lines, failing) if failing(lines) else lines
        _, d = replay(ctx, small, sub=sub)
        d = d or diffs
        a, b = d[0][1], d[0][2]
        lev = "O" if a.split(" | ")[0] != b.split(" | ")[0] else "D"
        ctx.disagreements.append({"origin": origin, "level": lev, "history": small,
                                  "first_difference": {"line": d[0][0], "implementation": a[:500], "model": b[:500]},
                                  "theorem": theorem})


def campaign(ctx, args, tag, theorem, sub="api", max_report=5, accept=None, sigfun=None):
    """Run one generated campaign; returns (stat, hist, sample).  `accept(msg)` selects the oracle
    messages this property owns; `sigfun(msg)` overrides the signature."""
    signature = sigfun or globals()["signature"]
    ops, imp, mod = ctx.path(tag + ".ops"), ctx.path(tag + ".impl"), ctx.path(tag + ".model")
    rc, out = C.harness([sub] + args + ["--ops", ops, "--impl", imp])
    if rc != 0:
        ctx.undischarged.append("harness %s campaign (%s) crashed: %s" % (sub, tag, out[-300:]))
        return {}, {}, []
    stat, hist, oracle = C.parse_stats(out)
    all_oracle = oracle
    if accept is not None:
        oracle = [m for m in oracle if accept(m)]
    C.driver([sub], ops, mod)
    diffs = C.diff_lines(imp, mod)
    ops_lines = open(ops).read().splitlines()
    hs = split_histories(ops_lines)
    done = set()
    sigs = set()
    for msg in oracle:
        m = re.match(r"history (\d+) ", msg)
        idx = int(m.group(1)) if m else 0
        sg = signature(msg)
        if idx in done or sg in sigs or idx >= len(hs):
            continue
        done.add(idx)
        sigs.add(sg)
        handle(ctx, hs[idx][1], [msg], [], "%s history %d" % (tag, idx), theorem, sub=sub, sigfun=sigfun)
        if len(sigs) >= max_report:
            break
    seen = set()
    starts = [h[0] for h in hs]
    import bisect
    for (ln, a, b) in diffs:
        idx = bisect.bisect_right(starts, ln) - 1
        if idx < 0 or idx in seen or idx in done:
            continue
        # histories the oracle flagged (any) are reported as violations, not disagreements
        if any(re.match(r"history %d " % idx, m) for m in all_oracle):
            continue
        seen.add(idx)
        start, lines = hs[idx]
        handle(ctx, lines[: ln - start + 1], [], [(ln - start, a, b)], "%s history %d" % (tag, idx), theorem, sub=sub, sigfun=sigfun)
        if len(seen) >= max_report:
            break
    sample = hs[min(2, len(hs) - 1)][1][:14] if hs else []
    return stat, hist, sample


def corpus(ctx, theorem, sub="api", ext=".api", accept=None, sigfun=None):
    cdir = os.path.join(C.VERIF, "corpus", ctx.pid)
    n = ops = 0
    if os.path.isdir(cdir):
        for name in sorted(os.listdir(cdir)):
            if not name.endswith(ext):
                continue
            lines = [l for l in open(os.path.join(cdir, name)).read().splitlines() if l and not l.startswith("#")]
            o, d = replay(ctx, lines, tag="corpus", sub=sub)
            if accept is not None:
                o = [m for m in o if accept(m)]
            handle(ctx, lines, o, d, "corpus/" + name, theorem, sub=sub, sigfun=sigfun)
            n += 1
            ops += len(lines)
    return n, ops
