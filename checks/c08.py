"""C08 — bytes gained by growing a stream read as zero, whatever was there before."""
from . import common as C
from . import physlib as P
import re

PID = "C08"
MODULE = "CfbVerif.Props.C08"
THM = "CfbVerif.Props.C08 (model Phys/Handle no longer corresponds to stream.rs resize_stream / chain.rs / minichain.rs)"


def run(ctx):
    theorems = C.read_obligations(PID)
    harness_ok = C.build_harness(ctx)
    upper = None
    if harness_ok:
        upper = ctx.path("upper.txt")
        C.harness(["upper-dump", "--out", upper])
    C.regenerate(ctx, upper=upper)
    lean_ok = C.lean_build_and_audit(ctx, MODULE, theorems)
    ctx.assumptions += [
        "handle level: set_len = cut or pad with zeros (theorem, from the C06 refinement); allocation level: reused sectors are wiped, the old last (mini) sector's tail is overwritten, added mini sectors are overwritten (theorems about Phys); that the sectors written by Phys hold the handle level's byte list is the byte-exact lock-step and the read-back oracle, not a theorem",
        "`after reopening`: histories contain reopen in both modes between the resize and the read-back",
    ]
    if not (lean_ok and harness_ok):
        return C.finish(ctx)
    quick = ctx.tier == "quick"
    total_ops = total_h = distinct = 0
    hist, samples = {}, []
    n, o = P.corpus(ctx, THM, PID)
    total_h += n
    total_ops += o
    plans = [
        ("setlen", ["--seed", ctx.seed, "--count", 800 if quick else 4000, "--max-ops", 40 if quick else 80, "--setlen-heavy", "--no-cycles", "--reopen-pct", 6]),
        ("mixed", ["--seed", ctx.seed + 3, "--count", 250 if quick else 1500, "--max-ops", 40, "--setlen-heavy"]),
    ]
    for tag, args in plans:
        stat, h, sample = P.campaign(ctx, args, tag, THM, PID)
        total_ops += stat.get("ops", 0)
        total_h += stat.get("histories", 0)
        distinct += stat.get("distinct", 0)
        for k, v in h.items():
            hist[k] = hist.get(k, 0) + v
        if sample and len(samples) < 2:
            samples.append([l[:100] for l in sample])
    # files another writer produced, whose free sectors and free mini sectors still hold old bytes (every second
    # synthesised layout: markers c0 c1 c2 ... / b7 b7 ...): histories on them grow streams into that space; the marker
    # must never show in anything a stream returns
    from . import rawlib as R
    import os, shutil
    laydir = R.scratch(ctx, "lay08")
    try:
        lops, limp = ctx.path("lay08.ops"), ctx.path("lay08.impl")
        rc_l, out_l = C.harness(["layout", "--outdir", laydir, "--ops", lops, "--impl", limp, "--seed", ctx.seed + 88, "--count", 60 if quick else 1500], timeout=3000)
        lst, _, lorc = C.parse_stats(out_l)
        if rc_l != 0:
            ctx.undischarged.append("harness layout crashed: " + out_l[-300:])
        total_ops += lst.get("ops", 0)
        hist["foreign-layouts-with-stale-free-space:histories"] = lst.get("histories", 0)
        for msg in [m for m in lorc if "STALE-FREE-SPACE" in m][:2]:
            m = re.search(r"(/\S+?\.cfb)", msg)
            keep = None
            if m and os.path.exists(m.group(1)):
                keep = os.path.join(ctx.replaydir, "foreign_stale_free_space.cfb")
                shutil.copy(m.group(1), keep)
            C.add_violation(ctx, "foreign-free-space:stale-bytes-visible", re.sub(r"[0-9a-f]{80,}", "<bytes>", msg)[:400],
                            "# C08 on a file another writer produced (free sectors not cleared): bytes of the free space show through a stream\n# %s\n# the synthesised image is kept as %s; the API calls are in the message\n" % (msg[:3000], keep))
    finally:
        R.cleanup(ctx)
    # two handles on one stream (harness/src/twoh.rs): growth judged by the directory entry's length before and
    # after, refusals judged by the backing bytes and by the same call made again — decided on the implementation
    rc_t, out_t = C.harness(["twohandles", "--seed", ctx.seed, "--count", 1500 if ctx.tier == "quick" else 30000], timeout=3600)
    st_t, _, or_t = C.parse_stats(out_t)
    for msg in [m for m in or_t if m.startswith("C08 ")][:3]:
        C.add_violation(ctx, "two-handles:" + ("grow" if "grow" in msg else "below-old-length" if "below" in msg else "refusal"), msg[:500],
                        "# C08: %s\n# replay: harness twohandles --seed %s --count %s (the history is in the message)\n" % (msg[:3000], ctx.seed, 1500 if ctx.tier == "quick" else 30000))
    if rc_t != 0:
        ctx.undischarged.append("harness twohandles crashed: " + out_t[-300:])
    ctx.coverage.update({
        "two_handles_on_one_stream": {"calls": st_t.get("calls", 0), "grows_judged": st_t.get("grows_judged", 0), "refusals_judged": st_t.get("refusals_judged", 0)},
        "evaluations": total_ops,
        "distinct_nontrivial": distinct,
        "rule": P.RULE + ". C08 emphasis: 60% of the handle calls are set_len to lengths around the current one (−70..+70, next/previous multiple of 64, 512 or 4096, multiple+1, half) each followed by a read of the whole stream through the same handle; removals of other streams in between free the sectors being reused; oracle on the implementation: every byte read equals the abstract content (zeros in grown regions)",
        "samples": samples,
        "traces_validated_against_impl": total_h,
        "set_len_calls": hist.get("hsetlen:ok", 0),
        "histogram": hist,
    })
    return C.finish(ctx)
