"""C17 — metadata set through the API is returned exactly and survives reopening."""
import os
from . import common as C
from . import apilib as A

PID = "C17"
MODULE = "CfbVerif.Props.All17"


def signature(msg):
    if msg.startswith("ts"):
        return "ts:wrong-timestamp"
    if msg.startswith("time"):
        return "time:not-exact-return"
    return "meta:other"


def run(ctx):
    theorems = C.read_obligations(PID)
    harness_ok = C.build_harness(ctx)
    C.regenerate(ctx)
    lean_ok = C.lean_build_and_audit(ctx, MODULE, theorems)
    ctx.assumptions += [
        "SystemTime is (i64 seconds, u32 nanoseconds) relative to the Unix epoch, as on 64-bit Linux; checked_add/checked_sub fail only on i64 overflow",
        "Uuid::from_fields/as_fields are the big-endian field view of the 16 bytes (uuid crate); the model permutes bytes accordingly",
    ]
    if not (lean_ok and harness_ok):
        return C.finish(ctx)
    quick = ctx.tier == "quick"
    thm = "CfbVerif.Props.C17 (model Time no longer corresponds to timestamp.rs)"
    total = C.line_corpus(ctx, "time", thm)
    n, hist, samples = C.line_campaign(ctx, "time", ctx.seed, 300000 if quick else 5000000, signature, thm)
    total += n
    # API level: setters on every kind of object, listings, reopen in both modes
    api_h = 0
    for tag, args in [("meta-api", ["--seed", ctx.seed, "--count", 1000 if quick else 5000, "--max-ops", 50, "--reopen-pct", 10, "--meta-heavy"])]:
        stat, h2, sample = A.campaign(ctx, args, tag, "CfbVerif.Props.C01.C01_setMeta (model Dir no longer corresponds to lib.rs)")
        total += stat.get("ops", 0)
        api_h += stat.get("histories", 0)
        for k, v in h2.items():
            hist["api:" + k] = hist.get("api:" + k, 0) + v
    ctx.coverage["traces_validated_against_impl"] = api_h
    # a setter that returned Ok has set the value, also when it is the retry of an attempt that failed on a
    # transient write/seek fault of the underlying file: every fault position of every setter, both versions
    rc, out = C.harness(["faults", "--meta"], timeout=1200)
    if rc != 0:
        ctx.undischarged.append("harness faults --meta crashed: " + out[-300:])
    else:
        st, _, oracle = C.parse_stats(out)
        total += st.get("evaluations", 0)
        hist["setter-retry-after-write-fault"] = st.get("evaluations", 0)
        seen = set()
        for msg in oracle:
            sg = "retry:" + ("reopen" if "after reopening" in msg else "panic" if "panic" in msg else "live") + ":" + msg.split(" ")[0]
            if sg in seen:
                continue
            seen.add(sg)
            C.add_violation(ctx, sg, msg[:300], "# C17: %s\n# replay: harness faults --meta (deterministic; the line names setter, path, version and the underlying call index of the fault)\n" % msg[:1000])
    # a new object starts with a nil CLSID, zero state bits and (a stream) zero times whatever the free directory
    # slot it is created into held before: foreign layouts whose unallocated entries carry non-zero bytes in the
    # CLSID / state / time fields (both open modes accept them), three streams and three storages created into
    # them, judged through entry() at once and through the strictly reopened bytes
    import glob, shutil
    ldir = ctx.path("dirty-lay")
    os.makedirs(ldir, exist_ok=True)
    C.harness(["layout", "--seed", ctx.seed + 17, "--count", 60 if quick else 400, "--outdir", ldir])
    bases = sorted(f for f in glob.glob(os.path.join(ldir, "L*.cfb")) if "_after" not in f and "_highbits" not in f)
    dstat = {}
    if bases:
        blist = ctx.path("dirty.bases")
        open(blist, "w").write("\n".join(bases) + "\n")
        rc, out = C.harness(["damage", "--dirty-slots", "--seed", ctx.seed, "--bases", blist, "--count", 300 if quick else 4000], timeout=1200)
        dstat, _, orc = C.parse_stats(out)
        total += dstat.get("dirty_created", 0)
        hist["objects-created-into-non-blank-free-slots"] = dstat.get("dirty_created", 0)
        for msg in orc[:2]:
            C.add_violation(ctx, ("foreign-stream-metadata:" if msg.startswith("foreign-stream-metadata") else "dirty-free-slot:") + ("reopen" if "after reopening" in msg or "no longer open" in msg else "panic" if "panic" in msg else "live"), msg[:300],
                            "# C17: %s\n# replay: harness layout --seed %d --count %d --outdir <dir>; harness damage --dirty-slots --seed %d --bases <list of the L*.cfb> --count %d\n" % (msg[:1000], ctx.seed + 17, 60 if quick else 400, ctx.seed, 300 if quick else 4000))
    shutil.rmtree(ldir, ignore_errors=True)
    ctx.coverage.update({
        "evaluations": total,
        "distinct_nontrivial": total,
        "rule": "calls of Timestamp::from_system_time / to_system_time through hook H2 on instants drawn around 1601, 1970, the saturation points, i64 second extremes and sub-100ns fractions of both signs, and on 64-bit timestamp values around 0, the Unix epoch and u64::MAX; every call compared with the Lean model (level O) and with an i128 oracle; every setter on storages, streams and the root with a transient write/seek fault at each underlying call position, retried until Ok, then judged through entry() and through the reopened bytes; objects created into free directory slots that are not blank (foreign files) judged the same way; distinctness not measured (inputs are 64+30 bit random with anchors; collisions negligible)",
        "samples": samples,
        "histogram": hist,
    })
    return C.finish(ctx)
