"""C13 — write failures are reported, not swallowed; a successful flush means durable."""
import os
from . import common as C

PID = "C13"
MODULE = "CfbVerif.Props.C13"
THM = "CfbVerif.Props.C13 (model Handle.stepF no longer corresponds to stream.rs under write faults)"


def signature(msg):
    if "flush returned Ok but a fresh handle" in msg:
        return "flush:ok-but-not-durable"
    if "error swallowed" in msg:
        return "call:error-swallowed"
    if "panic" in msg:
        return "fault:panic"
    if "hang" in msg:
        return "fault:hang"
    if "although no fault was ever injected" in msg:
        return "call:spurious-failure"
    return "fault:other"


def run(ctx):
    theorems = C.read_obligations(PID)
    harness_ok = C.build_harness(ctx)
    C.regenerate(ctx)
    lean_ok = C.lean_build_and_audit(ctx, MODULE, theorems)
    ctx.assumptions += [
        "partial by design: a failure inside a *structural* update (set_len, migration between mini and regular chains, directory/FAT growth) may leave the compound file half-updated; for those the check only establishes: the error is returned, no later call panics or hangs (enumeration), not any content guarantee",
        "a failed write-back may have written any part of the window: the theorems quantify over every store that agrees with the old one outside the window range",
        "Drop cannot report: the workload flushes explicitly before dropping a handle",
    ]
    if not (lean_ok and harness_ok):
        return C.finish(ctx)
    quick = ctx.tier == "quick"
    ops, imp, mod = ctx.path("w.ops"), ctx.path("w.impl"), ctx.path("w.model")
    # every position of the underlying call sequence, in both tiers: 16 processes side by side, process i takes
    # the positions k with k % 16 == i (a sampled quick tier let a change get past that needs a fault on exactly
    # one 4-byte link write)
    parts = 16
    runs = C.harness_many([["faults", "--write", "--seed", ctx.seed, "--max-runs", 0, "--ops", "%s.%d" % (ops, i), "--impl", "%s.%d" % (imp, i)] for i in range(parts)],
                          envs=[{"VERIF_PART": "%d/%d" % (i, parts)} for i in range(parts)], timeout=6000)
    stat, oracle = {}, []
    with open(ops, "w") as fo, open(imp, "w") as fi:
        for i, (rc, out) in enumerate(runs):
            if rc != 0:
                ctx.undischarged.append("harness faults --write (part %d) crashed: %s" % (i, out[-300:]))
                return C.finish(ctx)
            st, _, orc = C.parse_stats(out)
            for k, v in st.items():
                stat[k] = (stat.get(k, 0) + v) if k.startswith("positions_") or k in ("evaluations", "structural_resizes") else v
            oracle += orc
            for path, f in (("%s.%d" % (ops, i), fo), ("%s.%d" % (imp, i), fi)):
                with open(path) as g:
                    f.write(g.read())
                os.remove(path)
    seen = set()
    for msg in oracle:
        sg = signature(msg)
        if sg in seen:
            continue
        seen.add(sg)
        C.add_violation(ctx, sg, msg[:300], "# C13: %s\n# replay: VERIF_DEBUG_K=<call index in the message> [VERIF_DEBUG_V=4] harness faults --write --ops o --impl i\n" % msg[:1000])
    C.driver(["handlef"], ops, mod)
    ops_lines = open(ops).read().splitlines()
    for (ln, a, b) in C.diff_lines(imp, mod)[:5]:
        start = max(i for i in range(ln + 1) if ops_lines[i].startswith("new "))
        ctx.disagreements.append({"origin": "fault trace line %d" % ln, "level": "O+H", "script": [l[:100] for l in ops_lines[start:ln + 1]][-12:],
                                  "implementation": a, "model": b, "theorem": THM})
    ctx.coverage.update({
        "evaluations": stat.get("evaluations", 0),
        "distinct_nontrivial": stat.get("evaluations", 0),
        "underlying_calls": {k: v for k, v in stat.items() if k.startswith("wcalls_") or k.startswith("positions_")},
        "rule": "mutating workload (create; storage; a handle writing 100 B, +5000 B across the mini->regular migration, overwrites, set_len to 200 / 9000 / 0, flushes; 12 streams growing the directory; removals; recursive create/remove; setters; flush) in V3 and V4; one run per position k of the underlying write/seek/flush call sequence — every position, in both tiers (16 processes side by side); the failed call is retried, the rest of the workload continues; oracle: the call in which the fault fires returns Err, no Ok result with a fired fault, no failure without any fault, after every Ok flush a fresh handle reads every accepted byte, no panic, no hang (20 s watchdog). Handle traces are replayed on the Lean fault model until the first structural failure",
        "samples": [l[:100] for l in ops_lines[1:4]],
        "traces_validated_against_impl": len(ops_lines),
    })
    return C.finish(ctx)
