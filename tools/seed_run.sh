#!/bin/bash
# seed_run.sh <name> <CHECK-ID>... : apply /verif/seeded/<name>/patch.diff to /repo, run the quick checks, undo.
set -u
NAME=$1; shift
P=/verif/seeded/$NAME/patch.diff
cd /repo && git status --short | grep -v '^??' && { echo "repo not clean"; exit 2; }
git -C /repo apply $P || exit 2
trap 'git -C /repo checkout -- .' EXIT
for c in "$@"; do
  echo "=== $c on seeded/$NAME"
  /verif/bin/check $c 2>&1 | grep -E "VIOLATION|KNOWN-FINDING|verdict|DRIFT|held|Error|error" | head -8
  echo "exit=${PIPESTATUS[0]}"
done
