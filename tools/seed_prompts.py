#!/usr/bin/env python3
"""seed_prompts.py <suffix>: write /tmp/seedprompts/<PID><suffix>.txt for every property (the text of the
property, the task, and the sites earlier rounds used so that a new round looks elsewhere) and add a
scratch worktree /tmp/seed/<PID><suffix> of /repo for each.  Sub-agents get nothing else."""
import json, os, re, glob, subprocess, sys
suf = sys.argv[1]
os.makedirs('/tmp/seedprompts', exist_ok=True); os.makedirs('/tmp/seed', exist_ok=True)
props = {json.loads(l)['id']: json.loads(l) for l in open('/verif/properties.jsonl')}
for pid, p in props.items():
    used = []
    for d in sorted(glob.glob(f'/verif/seeded/{pid}*')):
        try: m = json.load(open(d + '/meta.json'))
        except Exception: continue
        patch = open(d + '/patch.diff').read()
        files = sorted(set(re.findall(r'^\+\+\+ b/(\S+)', patch, re.M)))
        funcs = sorted(set(re.findall(r'^@@.*@@.*?fn (\w+)', patch, re.M)))
        used.append(f"- {', '.join(files)} ({', '.join(funcs)}) — {m.get('needs','')[:200]}")
    sid = pid + suf
    txt = f"""You are helping test a verification framework for the Rust crate mdsteele/rust-cfb (a reader/writer for Microsoft Compound File Binary files). Your scratch git worktree of the repository is /tmp/seed/{sid} — work ONLY there (never touch /repo or /verif, and do not read anything under /verif). The sandbox is offline: use `export CARGO_NET_OFFLINE=true CARGO_TARGET_DIR=/tmp/seed/{sid}/target` and `cargo test --offline`. (Items under `#[cfg(cfb_verif)]` in the source are test hooks that are compiled out; leave them alone.)

Here is one semantic property the crate is supposed to satisfy:

  {pid} — {p['title']}
  {p['statement']}
  Quantifier: {p['quantifier']['text']}

TASK: produce ONE small, realistic change to the crate's source (under src/) — the kind of slip a maintainer could make in a refactoring, a clean-up or an "optimisation" — that BREAKS this property, while the crate still compiles and the ENTIRE existing test suite (`cargo test --offline`, 165 tests + doc tests) still passes. The change must need something specific to manifest: a particular multi-step sequence of operations, an unusual input, a boundary size, an unusual configuration (OpenOptions, format version 3 vs 4, a very large file, spare capacity or unusual-but-valid structure in a file another writer produced), a fault at a particular point, a particular interleaving, or two cooperating sites that each look fine alone. It must NOT be something ordinary use would expose at once.

Earlier rounds (sixteen of them) already used the following sites for this property — pick a mechanism that is genuinely DIFFERENT from all of them (not the same comparison at another place), and preferably a function/module that is absent from the list:
{chr(10).join(used)}

Deliverables, all in /tmp/seed/{sid}/SEED/ (create the directory):
  1. patch.diff — `git diff -- src` of your change against the worktree's HEAD (must apply with `git apply` on a clean tree). Only files under src/. Keep it small (ideally < 25 changed lines). No cfg tricks, no changes to tests.
  2. demo.rs — an integration test file (it will be copied to tests/zz_seed_demo.rs; uses only the crate's public API plus std; it may define its own faulty/short-transfer Read/Write/Seek wrappers or spawn threads if needed) with one or more #[test] functions that FAIL with your change and PASS without it. Deterministic, fast (< 20 s).
  3. README.md — a few lines: which property clause breaks, exactly what is needed for it to manifest (the sequence/input/boundary), and why the existing tests do not notice.

Before finishing, verify yourself: (a) with the change, `cargo test --offline` passes fully; (b) with the change and demo.rs copied to tests/zz_seed_demo.rs, `cargo test --offline --test zz_seed_demo` fails; (c) after `git apply -R SEED/patch.diff`, the demo passes. Leave the worktree with the patch applied under src/ and no tests/zz_seed_demo.rs. Do not commit anything. Report in your final message: the one-line name of the change (kebab-case), files/functions touched, and what it needs to manifest.
"""
    open(f'/tmp/seedprompts/{sid}.txt', 'w').write(txt)
    subprocess.run(['git', '-C', '/repo', 'worktree', 'add', '--detach', f'/tmp/seed/{sid}', 'HEAD', '-q'])
print(sorted(os.listdir('/tmp/seed')))
