#!/usr/bin/env python3
"""Translator: regenerates lean/CfbVerif/Gen/*.lean from /repo's current source.

Everything the Lean models take from the Rust text as a *constant or table* is
extracted here on every run, so the theorems are re-checked against what the
code says now.  An item whose pattern is no longer found (the source was rewritten)
keeps the value of the last generation and is listed on stdout as `STALE <item>`:
the models then still run, and the lock-step correspondence — which exercises every
one of these constants — decides whether the code still behaves like the model.  Only
when there is no earlier value either is the item reported as translator drift (exit
status 3, `DRIFT <item>`, generated as `0`/empty so that dependent obligations fail).

Usage: gen_lean.py [--repo /repo] [--out lean/CfbVerif/Gen] [--upper file]
  --upper file : the effective upper-casing table dumped by the harness through
                 hook H2 (lines "<scalar> <image>", only scalars whose image
                 differs).  When absent, the previous Upper.lean is kept.
"""
import argparse, os, re, sys, ast

drift = []
stale = []


def read(repo, rel):
    with open(os.path.join(repo, rel), encoding="utf-8") as f:
        return f.read()


def strip_tests(src):
    i = src.find("#[cfg(test)]")
    return src if i < 0 else src[:i]


def eval_expr(expr, env):
    expr = expr.strip().rstrip(";")
    expr = re.sub(r"\(([A-Z_]+) as usize\)", r"(\1)", expr)
    expr = re.sub(r"\bas (usize|u64|u32|u16)\b", "", expr)
    expr = expr.replace("_", "_")
    expr = re.sub(r"(?<=\d)_(?=\d)", "", expr)
    try:
        return int(eval(expr, {"__builtins__": {}}, dict(env)))
    except Exception:
        return None


def const(src, name, env, item=None):
    m = re.search(r"const\s+%s\s*:\s*[^=]+=\s*([^;]+);" % re.escape(name), src)
    if not m:
        drift.append(item or name)
        return 0
    v = eval_expr(m.group(1), env)
    if v is None:
        drift.append(item or name)
        return 0
    env[name] = v
    return v


def match_arms(src, fn, item):
    """`fn <fn>(self) -> T { match self { Version::V3 => a, Version::V4 => b } }`"""
    m = re.search(
        r"fn\s+%s\s*\(self\)[^{]*\{\s*match self \{\s*Version::V3 => ([^,]+),[^\n]*\n\s*Version::V4 => ([^,]+),"
        % fn,
        src,
    )
    if not m:
        drift.append(item)
        return (0, 0)
    a, b = eval_expr(m.group(1), {}), eval_expr(m.group(2), {})
    if a is None or b is None:
        drift.append(item)
        return (0, 0)
    return (a, b)


def main():
    ap = argparse.ArgumentParser()
    ap.add_argument("--repo", default="/repo")
    ap.add_argument("--out", default=os.path.join(os.path.dirname(__file__), "..", "lean", "CfbVerif", "Gen"))
    ap.add_argument("--upper", default=None)
    args = ap.parse_args()
    repo, out = args.repo, os.path.abspath(args.out)
    os.makedirs(out, exist_ok=True)

    env = {}
    consts = strip_tests(read(repo, "src/internal/consts.rs"))
    names = [
        "HEADER_LEN", "DIR_ENTRY_LEN", "NUM_DIFAT_ENTRIES_IN_HEADER", "MINOR_VERSION",
        "BYTE_ORDER_MARK", "MINI_SECTOR_SHIFT", "MINI_SECTOR_LEN", "MINI_STREAM_CUTOFF",
        "MAX_REGULAR_SECTOR", "INVALID_SECTOR", "DIFAT_SECTOR", "FAT_SECTOR", "END_OF_CHAIN",
        "FREE_SECTOR", "OBJ_TYPE_UNALLOCATED", "OBJ_TYPE_STORAGE", "OBJ_TYPE_STREAM",
        "OBJ_TYPE_ROOT", "COLOR_RED", "COLOR_BLACK", "ROOT_STREAM_ID", "MAX_REGULAR_STREAM_ID",
        "NO_STREAM",
    ]
    vals = {n: const(consts, n, env) for n in names}
    m = re.search(r"MAGIC_NUMBER\s*:\s*\[u8;\s*8\]\s*=\s*\[([^\]]+)\]", consts)
    magic = [int(x, 0) for x in m.group(1).replace("\n", " ").split(",") if x.strip()] if m else []
    if len(magic) != 8:
        drift.append("MAGIC_NUMBER"); magic = [0] * 8
    m = re.search(r'ROOT_DIR_NAME\s*:\s*&str\s*=\s*"([^"]*)"', consts)
    root_name = m.group(1) if m else ""
    if not m:
        drift.append("ROOT_DIR_NAME")

    version = strip_tests(read(repo, "src/internal/version.rs"))
    vnum = match_arms(version, "number", "Version::number")
    vshift = match_arms(version, "sector_shift", "Version::sector_shift")
    vmask = match_arms(version, "stream_len_mask", "Version::stream_len_mask")
    if not re.search(r"fn sector_len\(self\) -> usize \{\s*1 << \(self\.sector_shift\(\) as usize\)", version):
        drift.append("Version::sector_len")
    if not re.search(r"fn dir_entries_per_sector\(self\) -> usize \{\s*self\.sector_len\(\) / consts::DIR_ENTRY_LEN", version):
        drift.append("Version::dir_entries_per_sector")

    sb = strip_tests(read(repo, "src/internal/stream_buffer.rs"))
    sbenv = {}
    buf_min = const(sb, "STREAM_BUFFER_MIN", sbenv)
    buf_growth = const(sb, "STREAM_BUFFER_GROWTH_FACTOR", sbenv)
    buf_default = const(sb, "DEFAULT_STREAM_MAX_BUFFER_SIZE", sbenv)

    path = strip_tests(read(repo, "src/internal/path.rs"))
    max_name = const(path, "MAX_NAME_LEN", {})
    m = re.search(r"for &chr in &\[([^\]]+)\]", path)
    forbidden = []
    if m:
        try:
            forbidden = [ord(c) for c in ast.literal_eval("[" + m.group(1) + "]")]
        except Exception:
            forbidden = []
    if not forbidden:
        drift.append("forbidden name characters")

    ts = strip_tests(read(repo, "src/internal/timestamp.rs"))
    epoch = const(ts, "UNIX_EPOCH_TIMESTAMP", {})
    m = re.search(r"\.saturating_mul\(([\d_]+)\)\s*\.saturating_add\(\(duration\.subsec_nanos\(\) / (\d+)\) as u64\)", ts)
    if m:
        ticks_per_sec, ns_per_tick = int(m.group(1).replace("_", "")), int(m.group(2))
    else:
        drift.append("duration_to_timestamp_delta"); ticks_per_sec = ns_per_tick = 0
    m = re.search(r"Duration::new\(delta / ([\d_]+), \(delta % ([\d_]+)\) as u32 \* (\d+)\)", ts)
    if m:
        back = (int(m.group(1).replace("_", "")), int(m.group(2).replace("_", "")), int(m.group(3)))
    else:
        drift.append("timestamp_delta_to_duration"); back = (0, 0, 0)

    # header patch offsets per call site
    alloc = strip_tests(read(repo, "src/internal/alloc.rs"))
    direc = strip_tests(read(repo, "src/internal/directory.rs"))
    mini = strip_tests(read(repo, "src/internal/minialloc.rs"))

    def offs(src, pat):
        return sorted(set(int(x) for x in re.findall(pat, src)))
    hdr_alloc = offs(alloc, r"seek_within_header\((\d+)\)")
    hdr_dir = offs(direc, r"seek_within_header\((\d+)\)")
    hdr_mini = offs(mini, r"seek_within_header\((\d+)\)")
    m = re.search(r"let offset = (\d+) \+ (\d+) \* difat_index as u64;", alloc)
    difat_off = (int(m.group(1)), int(m.group(2))) if m else (0, 0)
    if not m:
        drift.append("header DIFAT slot offset")
    link_offs = offs(direc, r"seek_within_dir_entry\(\w+, (\d+)\)")

    L = []
    L.append("/- GENERATED by tools/gen_lean.py from /repo's source on every run.  Do not edit. -/")
    L.append("namespace CfbVerif.Gen\n")
    for n in names:
        L.append(f"def {n} : Nat := {vals[n]}")
    L.append(f"def MAGIC_NUMBER : List Nat := {magic}")
    L.append(f'def ROOT_DIR_NAME : String := "{root_name}"')
    L.append(f"def versionNumberV3 : Nat := {vnum[0]}\ndef versionNumberV4 : Nat := {vnum[1]}")
    L.append(f"def sectorShiftV3 : Nat := {vshift[0]}\ndef sectorShiftV4 : Nat := {vshift[1]}")
    L.append(f"def streamLenMaskV3 : Nat := {vmask[0]}\ndef streamLenMaskV4 : Nat := {vmask[1]}")
    L.append(f"def STREAM_BUFFER_MIN : Nat := {buf_min}")
    L.append(f"def STREAM_BUFFER_GROWTH_FACTOR : Nat := {buf_growth}")
    L.append(f"def DEFAULT_STREAM_MAX_BUFFER_SIZE : Nat := {buf_default}")
    L.append(f"def MAX_NAME_LEN : Nat := {max_name}")
    L.append(f"def forbiddenNameChars : List Nat := {forbidden}")
    L.append(f"def UNIX_EPOCH_TIMESTAMP : Nat := {epoch}")
    L.append(f"def ticksPerSecond : Nat := {ticks_per_sec}")
    L.append(f"def nanosPerTick : Nat := {ns_per_tick}")
    L.append(f"def backTicksPerSecond : Nat := {back[0]}")
    L.append(f"def backTicksMod : Nat := {back[1]}")
    L.append(f"def backNanosPerTick : Nat := {back[2]}")
    L.append(f"def hdrPatchOffsetsAlloc : List Nat := {hdr_alloc}")
    L.append(f"def hdrPatchOffsetsDirectory : List Nat := {hdr_dir}")
    L.append(f"def hdrPatchOffsetsMiniAlloc : List Nat := {hdr_mini}")
    L.append(f"def hdrDifatSlotBase : Nat := {difat_off[0]}")
    L.append(f"def hdrDifatSlotStride : Nat := {difat_off[1]}")
    L.append(f"def dirEntryLinkOffsets : List Nat := {link_offs}")
    L.append("\nend CfbVerif.Gen")
    # items whose pattern was not found keep their previous value
    item_defs = {
        "Version::number": ["versionNumberV3", "versionNumberV4"],
        "Version::sector_shift": ["sectorShiftV3", "sectorShiftV4"],
        "Version::stream_len_mask": ["streamLenMaskV3", "streamLenMaskV4"],
        "Version::sector_len": [], "Version::dir_entries_per_sector": [],
        "forbidden name characters": ["forbiddenNameChars"],
        "duration_to_timestamp_delta": ["ticksPerSecond", "nanosPerTick"],
        "timestamp_delta_to_duration": ["backTicksPerSecond", "backTicksMod", "backNanosPerTick"],
        "header DIFAT slot offset": ["hdrDifatSlotBase", "hdrDifatSlotStride"],
    }
    prev = {}
    try:
        with open(os.path.join(out, "Consts.lean")) as f:
            for line in f:
                m = re.match(r"def (\w+) :", line)
                if m:
                    prev[m.group(1)] = line.rstrip("\n")
    except FileNotFoundError:
        pass
    text = "\n".join(L)
    lines = text.split("\n")
    still = []
    for item in list(drift):
        defs = item_defs.get(item, [item])
        if all(d in prev for d in defs):
            for d in defs:
                lines = [prev[d] if re.match(r"def %s :" % re.escape(d), l) else l for l in lines]
            stale.append(item)
        else:
            still.append(item)
    drift[:] = still
    write_if_changed(os.path.join(out, "Consts.lean"), "\n".join(lines) + "\n")

    # upper-casing table
    upath = os.path.join(out, "Upper.lean")
    if args.upper:
        pairs = []
        with open(args.upper) as f:
            for line in f:
                a, b = line.split()
                pairs.append((int(a), int(b)))
        pairs.sort()
        # also cross-check that uppercase.txt (the override table) is consistent with the dump
        txt = read(repo, "src/internal/uppercase.txt")
        try:
            overrides = ast.literal_eval(txt)
        except Exception:
            overrides = None
            drift.append("uppercase.txt")
        U = ["/- GENERATED by tools/gen_lean.py: effective cfb_uppercase_char, dumped through hook H2",
             "   (every scalar whose image differs from itself), plus the keys of uppercase.txt. -/",
             "namespace CfbVerif.Gen\n",
             "/-- a balanced search tree (kernel-friendly and fast when compiled) -/",
             "inductive UTree | leaf | node (l : UTree) (k v : Nat) (r : UTree)\n",
             "def UTree.find : UTree → Nat → Option Nat",
             "  | .leaf, _ => none",
             "  | .node l k v r, c => if c = k then some v else if c < k then l.find c else r.find c\n"]
        counter = [0]
        defs = []

        def inline(lo, hi):
            if lo >= hi:
                return ".leaf"
            mid = (lo + hi) // 2
            return "(.node %s %d %d %s)" % (inline(lo, mid), pairs[mid][0], pairs[mid][1], inline(mid + 1, hi))

        def emit(lo, hi):
            if hi - lo <= 15:
                return inline(lo, hi)
            mid = (lo + hi) // 2
            l, r = emit(lo, mid), emit(mid + 1, hi)
            name = "upperTree_%d" % counter[0]
            counter[0] += 1
            defs.append("def %s : UTree := .node %s %d %d %s" % (name, l, pairs[mid][0], pairs[mid][1], r))
            return name
        top = emit(0, len(pairs))
        U.extend(defs)
        U.append("def upperTree : UTree := %s\n" % top)
        for i in range(0, len(pairs), 100):
            U.append("def upperPairs_%d : List (Nat × Nat) := [%s]" % (i // 100, ", ".join("(%d, %d)" % q for q in pairs[i:i + 100])))
        U.append("def upperPairs : List (List (Nat × Nat)) := [%s]\n" % ", ".join("upperPairs_%d" % (i // 100) for i in range(0, len(pairs), 100)))
        keys = sorted(ord(a) for a, _ in overrides) if overrides else []
        U.append("def upperOverrideKeys : List Nat := %s" % keys)
        U.append("\nend CfbVerif.Gen")
        write_if_changed(upath, "\n".join(U) + "\n")
    elif not os.path.exists(upath):
        write_if_changed(upath, "namespace CfbVerif.Gen\ninductive UTree | leaf | node (l : UTree) (k v : Nat) (r : UTree)\ndef UTree.find : UTree → Nat → Option Nat\n  | .leaf, _ => none\n  | .node l k v r, c => if c = k then some v else if c < k then l.find c else r.find c\ndef upperTree : UTree := .leaf\ndef upperPairs : List (List (Nat × Nat)) := []\ndef upperOverrideKeys : List Nat := []\nend CfbVerif.Gen\n")

    for d in stale:
        print("STALE", d)
    for d in drift:
        print("DRIFT", d)
    sys.exit(3 if drift else 0)


def write_if_changed(path, content):
    try:
        with open(path) as f:
            if f.read() == content:
                return
    except FileNotFoundError:
        pass
    with open(path, "w") as f:
        f.write(content)


if __name__ == "__main__":
    main()
