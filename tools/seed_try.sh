#!/bin/bash
# seed_try.sh <name> <CHECK-ID>... : try a seeded change WITHOUT touching /repo: a scratch worktree of /repo's
# HEAD under /tmp gets the patch, and the checks run with VERIF_REPO pointing at it (cargo `paths` override).
# Evidence files written by these runs are restored afterwards.  (tools/seed_run.sh applies to /repo itself.)
set -u
NAME=$1; shift
W=/tmp/seed/try_$$
git -C /repo worktree add --detach $W HEAD -q || exit 2
cleanup() { git -C /repo worktree remove --force $W; cd /verif && git checkout -q -- evidence harness/.cargo/config.toml 2>/dev/null; python3 /verif/tools/gen_lean.py --repo /repo >/dev/null 2>&1; }
trap cleanup EXIT
ok=0
for extra in "" "-C1" "-C0 --recount"; do
  if git -C $W apply $extra /verif/seeded/$NAME/patch.diff 2>/dev/null; then ok=1; break; fi
done
[ $ok = 1 ] || { echo "patch does not apply"; exit 2; }
for c in "$@"; do
  echo "=== $c on seeded/$NAME (scratch checkout)"
  VERIF_REPO=$W /verif/bin/check $c 2>&1 | grep -E "VIOLATION|^C[0-9]+:|unchecked" | cut -c1-220 | head -8
done
