#!/bin/bash
# seed_round.sh <ID(e.g. C01d)> <name> <CHECK-ID>...: verify a sub-agent's seeded change, store it, try the checks on it
set -u
ID=$1; NAME=$2; shift 2
/verif/tools/seed_verify.sh $ID 2>&1 | tail -25
/verif/tools/seed_store.sh $ID $NAME
/verif/tools/seed_try.sh $NAME "$@"
