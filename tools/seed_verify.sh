#!/bin/bash
# seed_verify.sh <ID>: confirm in the scratch worktree /tmp/seed/<ID> that the seeded change
# (a) passes the pinned suite, (b) fails its demonstration, (c) the demonstration passes without it.
# (no `git stash`: refs/stash is shared between worktrees and sub-agents may be using it)
set -u
ID=$1; W=/tmp/seed/$ID; export CARGO_TARGET_DIR=$W/target CARGO_NET_OFFLINE=true
cd $W || exit 2
git checkout -q -- src 2>/dev/null
git apply SEED/patch.diff || { echo "SEED/patch.diff does not apply to a clean tree"; exit 2; }
git diff --stat -- src | tail -1
rm -f tests/zz_seed_demo.rs
echo "== suite with change"; cargo test --offline 2>&1 | grep -E "^test result|FAILED|failed"
cp SEED/demo.rs tests/zz_seed_demo.rs
echo "== demo with change"; cargo test --offline --test zz_seed_demo 2>&1 | grep -E "^test |^test result"
git apply -R SEED/patch.diff
echo "== demo without change"; cargo test --offline --test zz_seed_demo 2>&1 | grep -E "^test |^test result"
git apply SEED/patch.diff
rm -f tests/zz_seed_demo.rs
git status --short | head
