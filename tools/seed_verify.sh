#!/bin/bash
# seed_verify.sh <ID>: confirm in the scratch worktree /tmp/seed/<ID> that the seeded change
# (a) passes the pinned suite, (b) fails its demonstration, (c) the demonstration passes without it.
set -u
ID=$1; W=/tmp/seed/$ID; export CARGO_TARGET_DIR=$W/target CARGO_NET_OFFLINE=true
cd $W || exit 2
git stash list | head -1
git diff --stat -- src
git diff -- src > /tmp/seed/$ID.cur.diff
if ! diff -q /tmp/seed/$ID.cur.diff SEED/patch.diff >/dev/null; then echo "NOTE: patch.diff differs from applied change"; fi
rm -f tests/zz_seed_demo.rs
echo "== suite with change"; cargo test --offline 2>&1 | grep -E "^test result|FAILED|failed" 
cp SEED/demo.rs tests/zz_seed_demo.rs
echo "== demo with change"; cargo test --offline --test zz_seed_demo 2>&1 | grep -E "^test |^test result" 
git stash push -q -- src
echo "== demo without change"; cargo test --offline --test zz_seed_demo 2>&1 | grep -E "^test |^test result"
git stash pop -q
rm -f tests/zz_seed_demo.rs
git status --short | head
