#!/usr/bin/env python3
"""Apply every seeded change to /repo in turn, run the quick checks of the properties it breaks, undo it.
Writes /verif/seeded/RESULTS.json and prints a table.  Never commits anything to /repo."""
import json, os, subprocess, sys, re
V = "/verif"
names = sorted(d for d in os.listdir(V + "/seeded") if os.path.isdir(V + "/seeded/" + d))
if len(sys.argv) > 1:
    names = [n for n in names if any(a in n for a in sys.argv[1:])]
res = json.load(open(V + "/seeded/RESULTS.json")) if os.path.exists(V + "/seeded/RESULTS.json") else {}
if subprocess.run("git -C /repo status --short | grep -v '^??'", shell=True, capture_output=True).stdout.strip():
    sys.exit("repo not clean")
for n in names:
    d = V + "/seeded/" + n
    meta = json.load(open(d + "/meta.json")) if os.path.exists(d + "/meta.json") else {"property": n.split("-")[0]}
    props = [meta["property"]] + [p for p in meta.get("also_breaks", [])]
    ok = False
    for extra in ([], ["-C1"], ["-C0", "--recount"]):
        r = subprocess.run(["git", "-C", "/repo", "apply"] + extra + [d + "/patch.diff"], capture_output=True, text=True)
        if r.returncode == 0:
            ok = True
            break
    if not ok:
        res[n] = {"applies": False, "error": r.stderr.strip()[:200]}
        print("%-45s DOES NOT APPLY" % n)
        continue
    try:
        row = {}
        for p in props:
            r = subprocess.run([V + "/bin/check", p], capture_output=True, text=True)
            viol = [l for l in r.stdout.splitlines() if l.startswith("VIOLATION")]
            concrete = [l for l in viol if "no-failing-input-found" not in l]
            row[p] = {"exit": r.returncode, "violations": len(viol), "concrete": len(concrete),
                      "first": (concrete or viol or [""])[0][:160]}
        res[n] = {"applies": True, "checks": row}
        print("%-45s %s" % (n, "  ".join("%s:%s" % (p, "CAUGHT(%d concrete)" % v["concrete"] if v["concrete"] else ("flagged-no-input" if v["violations"] else "MISSED")) for p, v in row.items())))
    finally:
        subprocess.run(["git", "-C", "/repo", "checkout", "--", "."])
json.dump(res, open(V + "/seeded/RESULTS.json", "w"), indent=1)
