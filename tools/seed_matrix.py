#!/usr/bin/env python3
"""Run the quick checks of the properties each seeded change breaks, with the change applied to a scratch
worktree of /repo's HEAD (VERIF_REPO points the checks at it; /repo itself is not touched).
Writes /verif/seeded/RESULTS.json (merged) and prints a table."""
import json, os, subprocess, sys, re
V = os.path.dirname(os.path.dirname(os.path.abspath(__file__)))
names = sorted(d for d in os.listdir(V + "/seeded") if os.path.isdir(V + "/seeded/" + d))
if len(sys.argv) > 1:
    names = [n for n in names if any(a in n for a in sys.argv[1:])]
res = json.load(open(V + "/seeded/RESULTS.json")) if os.path.exists(V + "/seeded/RESULTS.json") else {}
W = "/tmp/seed/matrix_%d" % os.getpid()
for n in names:
    d = V + "/seeded/" + n
    meta = json.load(open(d + "/meta.json")) if os.path.exists(d + "/meta.json") else {"property": n.split("-")[0][:3]}
    props = [meta["property"]] + [p for p in meta.get("also_breaks", [])]
    subprocess.run(["git", "-C", "/repo", "worktree", "add", "--detach", W, "HEAD", "-q"])
    try:
        ok = False
        for extra in ([], ["-C1"], ["-C0", "--recount"]):
            r = subprocess.run(["git", "-C", W, "apply"] + extra + [d + "/patch.diff"], capture_output=True, text=True)
            if r.returncode == 0:
                ok = True
                break
        if not ok:
            res[n] = {"applies": False, "error": r.stderr.strip()[:200]}
            print("%-45s DOES NOT APPLY" % n)
            continue
        row = {}
        for p in props:
            r = subprocess.run([V + "/bin/check", p], capture_output=True, text=True, env=dict(os.environ, VERIF_REPO=W))
            viol = [l for l in r.stdout.splitlines() if l.startswith("VIOLATION")]
            concrete = [l for l in viol if "no-failing-input-found" not in l]
            row[p] = {"exit": r.returncode, "violations": len(viol), "concrete": len(concrete),
                      "first": (concrete or viol or [""])[0][:160]}
        res[n] = {"applies": True, "checks": row}
        print("%-45s %s" % (n, "  ".join("%s:%s" % (p, "CAUGHT(%d concrete)" % v["concrete"] if v["concrete"] else ("flagged-no-input" if v["violations"] else "MISSED")) for p, v in row.items())), flush=True)
    finally:
        subprocess.run(["git", "-C", "/repo", "worktree", "remove", "--force", W])
subprocess.run("cd %s && git checkout -q -- evidence harness/.cargo/config.toml; python3 tools/gen_lean.py --repo /repo >/dev/null 2>&1" % V, shell=True)
json.dump(res, open(V + "/seeded/RESULTS.json", "w"), indent=1)
