#!/bin/bash
# coverage.sh [ID...]: run the quick checks with a coverage-instrumented harness and report which regions of
# /repo/src the campaigns never execute (blind spots of the correspondence).  Not a registered check; a tool
# for steering the generators.  Output: run/coverage/report.txt (per-file summary) and run/coverage/uncovered.txt.
set -u
V=$(cd "$(dirname "$0")/.." && pwd)
C=${VERIF_COVERAGE:-/tmp/cfbcov}
rm -rf $C/prof; mkdir -p $C/prof $V/run/coverage
export VERIF_COVERAGE=$C LLVM_PROFILE_FILE="$C/prof/%p-%m.profraw"
IDS=${@:-C01 C02 C03 C04 C05 C06 C07 C08 C09 C10 C11 C12 C13 C14 C15 C16 C17 C18}
for id in $IDS; do
  echo "== $id"; $V/bin/check $id --tier quick 2>&1 | grep -E "VIOLATION|verdict|held" | head -3
done
B=$(dirname $(find ~/.rustup/toolchains/nightly-x86_64-unknown-linux-gnu -name llvm-cov | head -1))
$B/llvm-profdata merge -sparse $C/prof/*.profraw -o $C/all.profdata
$B/llvm-cov report $C/target/debug/cfb-verif-harness -instr-profile=$C/all.profdata --ignore-filename-regex='(registry|rustc|harness/src)' > $V/run/coverage/report.txt
$B/llvm-cov show $C/target/debug/cfb-verif-harness -instr-profile=$C/all.profdata --ignore-filename-regex='(registry|rustc|harness/src)' --show-line-counts-or-regions --show-branches=count > $V/run/coverage/show.txt 2>/dev/null || \
$B/llvm-cov show $C/target/debug/cfb-verif-harness -instr-profile=$C/all.profdata --ignore-filename-regex='(registry|rustc|harness/src)' > $V/run/coverage/show.txt
cat $V/run/coverage/report.txt
