#!/bin/bash
# refactor_try.sh <worktree> [IDs...]: run the quick checks against a scratch checkout that holds a
# behaviour-preserving refactoring (false-alarm test): every check must pass.  Evidence files and
# the harness cargo config are restored afterwards.
set -u
W=$1; shift
IDS=${@:-C01 C02 C03 C04 C05 C06 C07 C08 C09 C10 C11 C12 C13 C14 C15 C16 C17 C18}
cleanup() { cd /verif && git checkout -q -- evidence harness/.cargo/config.toml 2>/dev/null; python3 /verif/tools/gen_lean.py --repo /repo >/dev/null 2>&1; }
trap cleanup EXIT
for c in $IDS; do
  VERIF_REPO=$W /verif/bin/check $c 2>&1 | grep -E "VIOLATION|^C[0-9]+:|unchecked|KNOWN" | cut -c1-200 | head -6
done
