#!/bin/bash
# benign_all.sh: every behaviour-preserving refactoring of benign/R* against all quick checks (each must pass),
# in scratch worktrees; prints one line per (refactoring, check) that does NOT pass
V=$(cd "$(dirname "$0")/.." && pwd)
for d in $V/benign/R*; do
  n=$(basename $d)
  W=/tmp/seed/benign_$$_$n
  git -C /repo worktree add --detach $W HEAD -q || continue
  if git -C $W apply $d/patch.diff 2>/dev/null || git -C $W apply -C1 $d/patch.diff 2>/dev/null; then
    for c in C01 C02 C03 C04 C05 C06 C07 C08 C09 C10 C11 C12 C13 C14 C15 C16 C17 C18; do
      out=$(VERIF_REPO=$W $V/bin/check $c 2>&1 | grep -E "VIOLATION" | head -2)
      [ -n "$out" ] && echo "$n $c: $out"
    done
    echo "$n done"
  else
    echo "$n: patch does not apply"
  fi
  git -C /repo worktree remove --force $W
done
