#!/usr/bin/env python3
"""Regenerates DESIGN.md §8 (between the SEEDS markers) from seeded/*/meta.json and seeded/RESULTS.json."""
import json, os
V = "/verif"
res = json.load(open(V + "/seeded/RESULTS.json"))
rows = []
for n in sorted(os.listdir(V + "/seeded")):
    d = V + "/seeded/" + n
    if not os.path.isdir(d):
        continue
    m = json.load(open(d + "/meta.json"))
    r = res.get(n, {})
    verdicts = []
    for p, v in r.get("checks", {}).items():
        if v["concrete"]:
            verdicts.append("%s: caught, %d concrete replay(s)" % (p, v["concrete"]))
        elif v["violations"]:
            verdicts.append("%s: flagged (no-failing-input-found)" % p)
        else:
            verdicts.append("%s: missed" % p)
    if not r.get("applies", True):
        verdicts = ["patch no longer applies to HEAD"]
    hist = m.get("checks_run", {}).get(m["property"], "")
    note = ""
    if "MISSED" in hist or "at first" in hist or "Strengthened" in hist:
        note = hist
    rows.append((n, m["property"], m.get("origin", "sub-agent (property text + scratch worktree only)"), m.get("needs", ""), "; ".join(verdicts), note))
out = ["| seeded change | property | origin | needs, to manifest | quick checks now (seeded/RESULTS.json) |", "|---|---|---|---|---|"]
for r in rows:
    out.append("| `%s` | %s | %s | %s | %s |" % (r[0], r[1], r[2], r[3].replace("|", "/"), r[4]))
out.append("")
out.append("Checks that had to be strengthened because a seeded change got past them (or was only flagged without a failing input):")
out.append("")
for r in rows:
    if r[5]:
        out.append("* `%s` — %s" % (r[0], r[5]))
text = "\n".join(out)
p = V + "/DESIGN.md"
s = open(p).read()
a, b = "<!-- SEEDS-BEGIN -->", "<!-- SEEDS-END -->"
if a in s:
    s = s[:s.index(a) + len(a)] + "\n" + text + "\n" + s[s.index(b):]
    open(p, "w").write(s)
    print("updated §8 with %d rows" % len(rows))
else:
    print("markers not found")
