#!/bin/bash
# Runs setup and every thorough check in the directory this script lives in (works in a copy of /verif).
cd "$(dirname "$0")/.."
echo "running in $(pwd)"
bin/setup > /dev/null 2>&1 || echo "setup failed"
for i in ${@:-C01 C02 C03 C04 C05 C06 C07 C08 C09 C10 C11 C12 C13 C14 C15 C16 C17 C18}; do
  s=$(date +%s)
  bin/check $i --tier thorough 2>&1 | grep -E "^C[0-9]+:|VIOLATION|unchecked|Traceback|Error" | cut -c1-300
  echo "  [$i took $(( $(date +%s) - s )) s]"
done
