#!/usr/bin/env python3
"""Regenerates /verif/MANIFEST.json from the table below (keeps the file valid and consistent)."""
import json, os
V = os.path.dirname(os.path.dirname(os.path.abspath(__file__)))
props = [json.loads(l) for l in open(os.path.join(V, "properties.jsonl"))]

CLAIMS = {
 "C11": dict(
  technique="Lean 4 proofs about the panic and hang exits of the allocation model on arbitrary tables (extend_chain's unbounded walk terminates after the successful chain walk that precedes it; the reuse branch of allocate_sector and the pop loop of allocate_mini_sector have no panic exit while the free lists are inside their tables; free_mini_sector re-establishes that range) + campaign on the implementation: corruptions that survive permissive open x short mutating histories, panic hook with source location, per-case watchdog",
  text="Proof: CfbVerif.Props.C11 — C11_walk_then_extend_terminates (walk_then_last), C11_setFat_no_panic, C11_initSector_no_panic, C11_reuse_no_panic, C11_free_mini_range, C11_popFreeMini_no_panic; and by induction over all API histories from a fresh file both range conditions hold in every reachable state (miniRange_reachable, inv_reachable): C11_mini_pop_safe_reachable, C11_reuse_safe_reachable. "
       "Tie: every unchecked index of alloc.rs/minialloc.rs/chain.rs/minichain.rs is a `panic` exit and every unbounded loop a fuelled `hang` exit of Phys, whose write path equals the library byte for byte on valid files; on damaged files thousands of accepted corrupted images (library-made and foreign-layout bases; field-level and targeted corruptions) are mutated through the API under a panic hook and a 15 s watchdog, each finding kept as image + history.",
  note="Partial by nature: the set of damaged states reachable after permissive open is not characterised, so panic-freedom of every call on every accepted file is decided by search, not proved; the model is not run on damaged tables. Handles on removed/overwritten streams are excluded (C07). Trusted: Lean kernel, standard axioms, harness and its corruption generator.",
  design="§3 C11"),
 "C04": dict(
  technique="Lean 4 proofs that the reader's answers do not depend on what a layout may vary (lookup and listing of a search tree depend only on its set of entries — any shape, any colouring, any slots; bytes read through a chain depend only on the chain's sector contents in order, not on placement) + an independent layout synthesiser whose images are judged by SpecCheck, opened by the library in both modes against the encoded content, by the Raw reader model in lock-step, and then mutated through the API",
  text="Proof: CfbVerif.Props.C04 — sorted_ext, C04_inorder_shape_independent, C04_listing_shape_independent, C04_lookup_shape_independent, C04_chain_placement_independent. "
       "Tie: harness/src/layout.rs writes files the library's writer never produces (sector permutations, FAT/DIFAT/MiniFAT/directory anywhere, fragmented chains, free gaps, random directory slots with unallocated gaps, balanced red-black trees, last sector linked to sector 0 with the FAT exactly covering the file, V3/V4); for each: SpecCheck accepts it, strict and permissive open expose exactly the encoded tree/metadata/bytes, the Raw model gives the same dump, a short API history on it agrees with the abstract model, its bytes reopen to the same state and pass SpecCheck after every call; the two-level model is loaded from each foreign image (Phys.ofImage) and reproduces the file byte for byte after the load and after every call.",
  note="Acceptance of every legal layout is decided per synthesised image, not proved (the Raw model's `open` has safety and strict-subset-permissive theorems, C05/C16, not a completeness theorem). Files with unreachable allocated entries or unreadable chains cannot be loaded into the model (none occur in valid layouts). Trusted: Lean kernel, standard axioms, the layout writer and SpecCheck as definition of spec-valid, harness.",
  design="§3 C04"),
 "C03": dict(
  technique="Independent executable checker written in Lean (SpecCheck: own parser, the property's rule list) run on the byte-exact allocation model's image after every call (verdict transferred to the real file by equal length and hash) and directly on real snapshots incl. an 18 MB image with two DIFAT sectors; Lean proofs: after every history of stream-level operations no two FAT cells point at the same sector, none points into free space, and the chain heads (directory, MiniFAT, mini stream, every stream >= 4096 bytes) are distinct and pointed at by nothing, hence the chains are pairwise disjoint, every sector in use lies on exactly one owner's chain and every owner's chain walk succeeds; no-sharing also for the MiniFAT and the mini chains of streams < 4096 bytes (invariants by induction over all operations of the allocation model); after every API history the free list is exactly the FREE cells, a handed-out sector was FREE or new; FAT sectors are entered in the DIFAT and marked; tree rules from the directory model's invariant",
  text="Proof: CfbVerif.Props.C03 — C03_no_shared_sector / C03_chains_disjoint (Phys/NoShare.lean: NSH = FAT injective on regular values, no pointer into FREE cells, heads distinct/used/unpointed; kept by claim, link, cut, free-head and lifted through allocate_sector incl. FAT/DIFAT growth, extend_chain, free_chain(_after), chain and mini-chain write/set_len, the write/resize case tables, remove, allocate_dir_entry, reopen; Reach-based disjointness), C03_no_shared_mini_sector / C03_mini_chains_disjoint (Phys/NoShareMini.lean: the MiniFAT can shrink, so every operation is classified as releasing or allocating and each stream-level step is a release part followed by an allocation part), C03_every_used_sector_owned_once / C03_owner_walks_succeed (Phys/Chains.lean, Phys/NoLeak.lean: IsChain as lists, NC = NSH + every head has a chain + every END/pointer cell lies on a head's chain; kept by the same table updates and lifted the same way: no leaks, exactly one owner, the library's walk from every owner succeeds and returns the chain; Phys/NoLeakMini.lean: the same for the MiniFAT and the streams below 4096 bytes), C03_table_sectors_marked (Phys/Marks.lean, for every API history: FATSECT exactly on the DIFAT's sectors, DIFSECT exactly on the DIFAT sectors, otherwise FREE/END/a sector number) and C03_partition (every sector is free and on the free list, a listed FAT sector, a DIFAT sector, or on exactly one owner's chain), C03_chain_length_matches_size (Phys/ChainLen.lean: every chain operation returns the sector list that IS the chain of its head in the new table, with the expected length, and leaves the chains of all other owners verbatim; lifted through the write and resize case tables: every stream of at least 4096 bytes has exactly ceil(length / sector size) sectors, for histories whose writes start at or before the stream's end), C03_sectors_whole (Phys/SecSize.lean, for every API history: every sector has exactly the sector size, so reads return the requested number of bytes), C03_handle_call_keeps (a handle call's store-operation log keeps NSH), C03_handed_out_was_free, C03_extension_new, C03_fat_sector_marked; the allocator invariant after every API history (inv_reachable, inv_allocateSector); sibling trees are search trees without red-red after every history (C01_reachable). "
       "Tie: every call boundary of every generated history (both versions, sizes on all boundaries, handles, reopen, cycles, several FAT sectors) is judged by SpecCheck on the model image, which the lock-step shows identical to the real bytes; mismatching boundaries and sampled snapshots are judged on the real bytes; the large file exercises >109 FAT sectors and two DIFAT sectors.",
  note="SpecCheck is run, not proved complete or sound; the theorems cover the allocator core (single ownership of sectors), not the whole rule list. C03_no_shared_sector quantifies over histories of the stream-level operations that physOf composes, with stream lengths carried along; that physOf passes exactly the directory's stream lengths is lock-stepped, not proved. Hypotheses: FAT size <= MAX_REGULAR_SECTOR+1 in the final state, MiniFAT size <= MAX_REGULAR_SECTOR+1 in every state between operations (the format's own limits; the model's Nat indices do not wrap where the code's u32 would). C03_chain_length_matches_size assumes each write starts at or before the end of its stream (WritesInRange; the handle layer's windows do, which C06 lock-steps) and covers regular chains; the mini-chain analogue (ceil(length/64) mini sectors) is checked by SpecCheck only. The mini stream's chain may be longer than needed (never shrinks): accepted. Trusted: Lean kernel + compiler for the executable checker, translator, hooks, harness.",
  design="§3 C03"),
 "C15": dict(
  technique="Lean 4 invariant proof by induction over all API histories of a byte-exact allocation model (the free list is exactly the set of FREE cells of the FAT, each once, after every history; hence the file grows only when not a single FREE sector exists and whatever is handed out was FREE or new; n allocations with n free sectors do not grow the file; freeing a chain returns every sector; same for mini sectors) + lock-step of API histories comparing the complete file image and allocator caches after every call + cycle oracle on the implementation's file length",
  text="Proof: CfbVerif.Props.C15 — C15_inv_reachable (every operation of the allocation level — set_fat, allocate_sector incl. FAT/DIFAT growth, extend_chain, free_chain, chain and mini-chain write/set_len, the write/resize case tables, allocate_dir_entry, reopen — and physOf composed of them is `Good`; Phys/Inv.lean, Phys/ApiInv.lean), C15_grow_only_when_full, C15_many_reuse, C15_release_grows_free; FatInv holds in a fresh file (C15_inv_create) and is kept by allocation and release; C15_sector_reuse (no growth while the free list is non-empty, the sector handed out was FREE), C15_release (every sector of a freed chain lands on the free list), C15_mini_reuse (a really free mini sector is reused, neither mini stream nor file grows), C15_cycle_partial (release then allocate does not grow). "
       "Tie: Phys is a table-level port of alloc.rs/minialloc.rs/chain.rs/minichain.rs/stream.rs rendered to bytes; the rendered image (len + FNV-64) and the caches equal the real ones after every call of every generated history; net-zero cycles of 6 shapes are repeated 3-4 times after random prefixes and judged on the real file length.",
  note="The whole-cycle statement is not a theorem (decided per history). Known finding F16: growth confined to the second repetition when the first one moved data into the never-shrinking mini container. Trusted: Lean kernel, standard axioms, translator, hooks H2/H3, harness generators.",
  design="§3 C15"),
 "C08": dict(
  technique="Lean 4 proofs at two levels: handle level (set_len = cut or pad with zeros, from the C06 refinement; every grown byte is 0, kept bytes are kept) and allocation level (reused sectors are wiped by init_sector, the tail of the old last (mini) sector is overwritten or the position lies in a freshly allocated sector) + byte-exact lock-step of the allocation model and a read-back oracle after every set_len",
  text="Proof: CfbVerif.Props.C08 — C08_handle, C08_grown_bytes_zero, C08_kept_bytes, C08_reused_sector_zero, C08_new_sector_zero, C08_tail_or_fresh, C08_setLen_log (the log of store operations of a handle call reproduces the handle model's store: stepDL_store). "
       "Tie: histories dominated by set_len to lengths around the current one (±70, multiples of 64/512/4096, +1, half), with removals freeing sectors that are reused, reopen in between; after every set_len the whole stream is read back through the handle and compared with the abstract content; image and caches compared after every call.",
  note="That the sector level stores the handle level's byte list is lock-step (byte-exact image) and oracle, not a theorem. Trusted base as C15.",
  design="§3 C08"),
 "C02": dict(
  technique="Lean 4 proofs about the two-level API model (results are a function of the logical state only, so they are identical on the live and the reopened file; the rendered image is a function of the tables and ignores the caches open rebuilds; little-endian field codec round trip between renderer and reader model) + lock-step comparing the model's rendered image with the library's backing bytes after EVERY call without flush + reopen oracle (both modes, full dump) at sampled quiescent boundaries",
  text="Proof: CfbVerif.Props.C02 — C02_image_ignores_caches, C02_results_ignore_layout, C02_state_ignores_layout, C02_continue_same, C02_le_roundtrip, C02_entry_codec / header_field_roundtrip (the renderers of a directory entry and of the header are field sequences, renderEntry_eq / renderHeader_eq, and every field is read back by the reader model's primitive at its offset). "
       "Tie: the model is write-through by construction; its image (header, FAT, DIFAT, MiniFAT, directory, data incl. stale sectors) equals the real backing bytes after every call of every history in both versions, so a postponed or forgotten write shows at the first boundary; the real bytes are additionally opened with open and open_strict at sampled boundaries and compared with the live dump; 10% of calls are reopen and the history continues.",
  note="That every rendered image reopens to the logical state is decided per boundary (library + Raw reader on snapshots), not proved for all states. Trusted base as C15.",
  design="§3 C02"),
 "C06": dict(
  technique="Lean 4 refinement proof (Handle window state machine ⊑ byte vector with cursor, induction over call sequences, all buffer sizes) + lock-step differential replay of handle scripts (results and window fields) against the real Stream",
  text="Proof: CfbVerif.Props.C06 — every primitive call of the handle model refines the Vec-cursor specification and keeps the window invariant (C06_step), lifted to all call sequences (C06_run), exact output equality for read_to_end/write_all/seek/set_len/flush/len scripts for every max_buffer_size and initial content (C06_histories, C06_bufsize_indep), seek totality and refusal-is-no-op (C06_seek_total). "
       "Tie: the executable model is replayed in lock-step with stream.rs/stream_buffer.rs on generated scripts comparing each result and the six window fields after every call; an independent Vec oracle in the harness searches for concrete failing scripts.",
  note="Trusted: Lean kernel; axioms ⊆ {propext, Classical.choice, Quot.sound}; translator for STREAM_BUFFER_MIN/GROWTH; the harness and its generator (differential testing can miss); the flushed store is abstracted to list functions (the chain layer underneath is exercised only through the final read-back of each script).",
  design="§3 C06"),
 "C09": dict(
  technique="Lean 4 proofs about the path.rs model (order = comparison of (UTF-16 length, upper-cased code units) incl. the ASCII fast path, total-order laws, validation iff, path normalisation laws; table facts by kernel evaluation over the upper-casing table regenerated from the running code) + differential replay of the three pure functions through hook H2",
  text="Proof: CfbVerif.Props.C09 — compare_names (both code paths) equals the key comparison (C09_cmp_key) with the library's generated upper-casing table, hence reflexive/antisymmetric/transitive/equality-compatible (C09_cmp_laws, C09_eq_iff); validate_name accepts iff <=31 UTF-16 units and none of / \\ : ! (C09_validate); '..', '.', root, leading and trailing slashes normalise as stated and escaping paths are refused (C09_path_norm, C09_path_slashes). "
       "Tie: constants and the 0x110000-scalar upper-casing dump are regenerated on every run; 200k (quick) calls of the real functions are compared with the model; an independent CFB-order oracle searches for failing names. The sibling-set/API half of the property is decided by the directory model of C01.",
  note="Trusted: Lean kernel; axioms ⊆ {propext, Classical.choice, Quot.sound}; translator + H2 dump; harness generators. Assumption: the upper-casing table is the library's (MS-CFB's normative table is unavailable offline); Path::components modelled for UTF-8 Unix paths.",
  design="§3 C09"),
 "C01": dict(
  technique="Lean 4 refinement proofs: the directory model (BST per storage with library's leaf insert and predecessor-relinking removal, explicit-stack iterators, path-level API) implements a partial map from case-insensitive paths to objects; invariant by induction over all histories; + lock-step replay of API histories at result level and directory-table level (hook H3)",
  text="Proof: CfbVerif.Props.C01 — create/overwrite/whole-stream write (C01_create), remove (C01_remove) and the setters (C01_setMeta) act on the abstract path map at exactly one path with exactly the stated refusals; lookups are functions of the map (C01_lookup); read_storage = in-order, strictly sorted in CFB order and complete (C01_listing, iterator = traversal: listKids_eq/walkAll_eq); walk is pre-order (C01_walk); the directory invariant holds after every history (C01_reachable). "
       "Tie: every insertion x removal order of 4 (quick: sampled 5) sibling names plus random/deep/refusal histories, both versions, reopen inside, compared after every call at result level and row by row with the library's in-memory directory table; an independent nested-map reference model in the harness is the search oracle.",
  note="Partial by design: stream bytes are lists in this model — that the chain layer stores them is lock-step only (content half). Trusted: Lean kernel, standard axioms, translator + H2/H3 hooks, harness generators; upper-casing table is the library's.",
  design="§3 C01"),
 "C10": dict(
  technique="Lean 4 proof that every refusing exit of the modelled API precedes the first mutation (incl. the create_storage_all loop) + lock-step with byte comparison of the image before/after every refused call",
  text="Proof: CfbVerif.Props.C10 — a call answered NotFound/AlreadyExists/InvalidInput leaves the whole model state unchanged (C10_refusal_noop, C10_mkdirs_atomic: a refusal cannot follow a creation inside create_storage_all), invalid names are refused first (C10_invalid_name_rejected), refused seeks leave handle and store untouched (C10_seek_refused). "
       "Tie: histories with ~40% refusals of every class; after each refused call the harness compares the backing bytes bit for bit (oracle) and model/implementation agree at levels O and D.",
  note="remove_storage_all: only the initial NotFound is proved a no-op (inner removals refusal-free by lock-step). Byte-level unchangedness is observed, not proved. Trusted base as C01.",
  design="§3 C10"),
 "C17": dict(
  technique="Lean 4 proofs of the FILETIME conversion arithmetic (rounding toward the epoch, saturation, exact return, monotonicity), CLSID/LE codecs, and setter semantics on the directory model + differential replay through hook H2 and API histories with reopen",
  text="Proof: CfbVerif.Props.C17 — tsOf formulas (C17_ts_of_time_nonneg/neg: 100 ns ticks toward the Unix epoch, saturating 1601..u64::MAX), exact return of every 64-bit timestamp (C17_time_of_ts), monotone (C17_mono) hence a new storage's times lie between the clock readings (C17_fresh_between), CLSID and LE round trips (C17_guid, C17_le_roundtrip); setters: NotFound / InvalidInput for CLSID on streams / streams keep nil CLSID and zero times (C01_setMeta, C01_stream_info). "
       "Tie: 300k conversions through H2 vs model and an i128 oracle; API histories setting random CLSIDs/state words/extreme times on storages, root and streams with listings and reopen in both modes (O+D); clock-reading bounds checked on the implementation at every create_storage.",
  note="SystemTime modelled as (i64 s, u32 ns) as on 64-bit Linux. 'Survives reopening' rests on lock-step (reopen inside histories) until the reader model's codec theorems (C02). Trusted base as C01.",
  design="§3 C17"),
 "C07": dict(
  technique="Lean 4 proofs on the composed directory + handle model (slot stability as frame property of the path map, freshness of allocated slots by a counting argument, frame of handle writes by slot) + lock-step of multi-handle histories at result, directory-table and handle-state level, with a slot-binding oracle on the implementation",
  text="Proof: CfbVerif.Props.C07 — removal (incl. the two-children case) and creation leave every other path's entry, slot included, unchanged (C07_slot_stable_remove/create from C01's frame theorems over the library's predecessor-relinking removal), a new entry never takes a used slot (C07_fresh_slot), a handle operation rewrites only the bytes in its slot (C07_handle_frame) and is the C06 byte-vector machine on them (C07_handle_is_C06). "
       "Tie: histories with up to 4 handles interleaved with removals of siblings with two children, slot-reusing creations, overwrites, resizes across 4096; compared after every call at levels O, D (hook H3) and H (all window fields of all handles); the harness checks stream_id = slot of the path on the implementation (binding oracle).",
  note="Same-stream double handles and use-after-removal are out of scope. Content below the entry (sectors) is lock-step only. Trusted base as C01/C06.",
  design="§3 C07"),
 "C05": dict(
  technique="Lean 4 proof that the reader model — a loop-for-loop port of open_internal and the three validate()s with an explicit panic exit at every unchecked index and a fuelled hang exit at every loop — reaches none of those exits for any byte string (pigeonhole on the seen/visited sets; injectivity of the validated FAT makes 'back at the first sector' the only possible cycle) + differential replay on malformed inputs",
  text="Proof: CfbVerif.Props.C05 — C05_open_total: for every byte string and both modes open() neither panics nor hangs (header, DIFAT loop, FAT load/trim, Allocator::validate, directory chain loop, Directory::validate DFS, MiniFAT chain walk/load, MiniAllocator::validate); C05_chain_walk_total: every chain walk on a validated FAT terminates although Chain::new only tests the first id; seeks with any argument never panic (C06_seek_total). "
       "Tie: the Raw model is run against the real reader on the repository's fuzz regression files and on thousands of field-level corruptions (both modes, worker thread with watchdog and panic capture): accept/reject, error kind and the full logical dump (walk + every stream's bytes) must agree; seeks with extreme arguments and buffered reads are exercised on every stream of every accepted malformed file.",
  note="Partial: walk/lookup/whole-stream reads after open are not yet proved panic/hang-free (lock-step only); memory is bounded only through table sizes. Trusted: Lean kernel, standard axioms, translator, harness generators, the Raw model's fidelity (checked by lock-step incl. error kinds).",
  design="§3 C05"),
 "C16": dict(
  technique="Lean 4 proof by stage-wise simulation: the strict and permissive runs of the reader model are the same program up to guards, so strict success implies permissive success with identical tables; mode-dependent normalisations (zero-padding strips) are shown to be no-ops on what strict accepts + deviation-injection oracle and lock-step",
  text="Proof: CfbVerif.Props.C16 — C16_sub: for every byte string, open_strict = ok r implies open = ok r with the same FAT, DIFAT, directory and MiniFAT (hence the same tree, metadata and bytes); assembled from per-component lemmas for header, directory entries, Allocator/Directory/MiniAllocator validation and the DIFAT/FAT normalisations (C16_components, normFat_eq, normDifat_eq). "
       "Tie: each documented deviation is injected at every applicable place of valid images, singly and combined: permissive dump must equal the undamaged dump and strict must answer InvalidData (oracle); all images (valid, deviated, corrupted) are opened in both modes by the crate and by the model and compared.",
  note="Zero-padded DIFAT / unmarked DIFAT sectors need files with > 109 FAT sectors: thorough tier only. Trusted base as C05.",
  design="§3 C16"),
 "C14": dict(
  technique="Lean 4 proof of deadlock freedom for any number of threads, any finite lock programs, any schedule and any admission rule that serves a free lock, under the per-call hypothesis that acquisitions happen at hold depth 0 (flat); the hypothesis is established on the real code by recording hold depths through hook H1; the converse witness (nested read vs waiting writer) is proved by evaluation and replayed on the implementation with a steered schedule",
  text="Proof: CfbVerif.Props.C14 — C14_no_deadlock (no reachable state of flat threads is stuck, for every admission rule with FreeAdmits, in particular std's writer-preferring rule: std_freeAdmits), flatness is preserved by every step (flat_step, C14_successor_flat), and a single recursive read deadlocks against one writer (C14_nested_read_deadlocks). "
       "Tie: every public read-only method, both iterators (to exhaustion and partially), every handle operation and mutating call is executed with H1 recording; each trace is rebuilt as a program and judged flat by the Lean definition; a steered schedule parks a reader between acquisitions while the handle thread asks for the write lock; an unsteered stress run adds schedules the OS picks.",
  note="Assumed: RwLock's mutual exclusion and admission rule (std source), no memory-model effects, no panics under a guard (C05/C11). The whole iteration is not atomic by design; each next() is.",
  design="§3 C14"),
 "C12": dict(
  technique="Lean 4 proofs: (a) every catch-free program over the underlying reader fails with the injected error or returns the fault-free result, for every fault schedule (induction over the free monad); (b) the handle state machine under a fault in any phase either behaves as without it or reports the error and keeps the window invariant over the same content and position, for all scripts and fault sequences; + exhaustive fault enumeration on the implementation with lock-step of the handle traces",
  text="Proof: CfbVerif.Props.C12 — C12_fail_or_same (all programs, all schedules), C12_handle_step / C12_handle_run (all read-only scripts under all fault choices: invariant kept, content unchanged; every delivered byte is true content by C06's refinement). "
       "Tie: one run of the read-only workload per position of the underlying read/seek sequence (both versions, retries after each error) and pairs; the traced handle's operations incl. the failing phase are replayed on the Lean model comparing results and window fields.",
  note="The Raw model is not re-run under faults: open/walk are covered by the generic program theorem plus the enumeration. Unit of failure = phase. Trusted base as C06.",
  design="§3 C12"),
 "C13": dict(
  technique="Lean 4 proofs over the handle model with failing write-backs whose partial effect is any store that agrees with the old one outside the window: errors surface, the dirty marker survives, a successful flush leaves exactly the byte vector the handle stands for — for every such partial effect; + fault enumeration over the underlying write/seek/flush calls of a mutating workload with retry, durability read-back, panic and hang detection",
  text="Proof: CfbVerif.Props.C13 — C13_error_surfaces, C13_dirty_kept, C13_partial_write_harmless, C13_flush_ok_durable (for every store related by Outside), C13_accepted_bytes. "
       "Tie: a fault at each selected position of the write/seek/flush sequence (both versions); the failing call must return Err, nothing is swallowed, after every Ok flush a fresh handle reads all accepted bytes; handle traces are replayed on the Lean fault model.",
  note="Partial: failures inside structural updates (set_len, mini/regular migration, directory/FAT growth) are only shown error-returning and panic/hang-free by enumeration; the file may be left half-updated (no crash consistency is claimed by the library).",
  design="§3 C13"),
 "C18": dict(
  technique="Lean 4 proofs that the read_exact and write_all loops deliver exactly the requested bytes under any oracle of short counts and Interrupted results (and terminate given enough successful transfers), buffer-size independence from C06; + replay of every history on in-memory, real-file and transfer-splitting backends, all buffer sizes, both versions, with byte comparison of the files",
  text="Proof: CfbVerif.Props.C18 — C18_read_exact_chunking, C18_read_exact_progress, C18_write_all_chunking, C18_bufsize. "
       "Tie: each history runs in memory (lock-step with the Lean model) and again: second run, std::fs::File, 1-byte / random-short / Interrupted backends (results, directory tables and files byte-identical), five max_buffer_size values and the other version (results identical).",
  note="Partial by nature: OS file semantics are outside the model (one real-file run). Determinism of the models is by construction; of the implementation by the second run.",
  design="§3 C18"),
}

def main():
    checks = []
    for p in props:
        pid = p["id"]
        if pid in CLAIMS:
            c = CLAIMS[pid]
            checks.append({
                "property_id": pid,
                "quick_cmd": "bin/check %s --tier quick" % pid,
                "thorough_cmd": "bin/check %s --tier thorough" % pid,
                "evidence_file": "/verif/evidence/%s.json" % pid,
                "replay_cmd_template": "bin/check %s --replay {path}" % pid,
                "engine": "lean-proof+correspondence",
                "level_claimed": {"category": "proof", "text": c["text"], "design_ref": c["design"]},
                "level_note": c["note"],
                "technique": c["technique"],
            })
    na = [{"property_id": p["id"], "reason": "not claimed yet: the check for this property is still being built (DESIGN.md §2.7 staging); nothing is asserted about it"}
          for p in props if p["id"] not in CLAIMS]
    man = {
        "version": 1,
        "setup_cmd": "bin/setup",
        "hooks": {
            "guard": "cfg(cfb_verif)",
            "enable": "RUSTFLAGS='--cfg cfb_verif' (set in harness/.cargo/config.toml; the harness has a path dependency on /repo)",
            "baseline_off_cmd": "cd /repo && cargo test --workspace --no-fail-fast --offline",
            "source_commits": ["a2a2e36", "37fe9f8"],
            "add_only": False,
        },
        "engines": [{
            "name": "lean-proof+correspondence", "path": "bin/check",
            "serves_properties": sorted(CLAIMS),
            "kind_free_text": "Lean 4 theorems about executable models (lean/CfbVerif); models tied to /repo by a constants translator (tools/gen_lean.py) and by lock-step differential replay of generated histories/inputs on the real crate (harness/) and on the compiled Lean driver",
        }],
        "checks": checks,
        "notes": "See DESIGN.md. known_findings.txt lists repaired defects (fixed:) and recorded findings (finding:). hooks.add_only is false because three `use std::sync::RwLock` lines were retargeted to internal::sync (hook H1, prescribed by C14's anchor).",
        "not_applicable": na,
    }
    json.dump(man, open(os.path.join(V, "MANIFEST.json"), "w"), indent=1)

if __name__ == "__main__":
    main()
