#!/bin/bash
# seed_store.sh <ID> <name>: copy a confirmed seeded change from /tmp/seed/<ID>/SEED to /verif/seeded/<name>/
set -eu
ID=$1; NAME=$2; D=/verif/seeded/$NAME
mkdir -p $D
cp /tmp/seed/$ID/SEED/patch.diff $D/patch.diff
cp /tmp/seed/$ID/SEED/demo.rs $D/demo.rs
cp /tmp/seed/$ID/SEED/README.md $D/README.md
echo stored $D
