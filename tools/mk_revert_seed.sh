#!/bin/bash
# mk_revert_seed.sh <fix-commit> <name>: seeded/<name>/patch.diff = the reverse of a fix commit against current HEAD
set -eu
C=$1; NAME=$2; W=/tmp/seed/revert_$$
git -C /repo worktree add --detach $W HEAD -q
trap 'git -C /repo worktree remove --force '$W EXIT
cd $W
if git revert --no-commit $C >/dev/null 2>&1; then
  mkdir -p /verif/seeded/$NAME
  git diff HEAD -- src > /verif/seeded/$NAME/patch.diff
  echo "ok $(wc -l < /verif/seeded/$NAME/patch.diff) lines"
else
  echo "revert of $C conflicts"; git revert --abort || true; exit 1
fi
